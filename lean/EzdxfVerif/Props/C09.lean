/-
C09  Text survives every supported encoding.
Only property theorems and non-vacuity examples live here (helper lemmas are `private`; the vocabulary of the
statements - `Lawful`, `escStr`, `containsEsc`, `fixedFmt`, ... - is defined in Model/Encoding.lean); every
`theorem` of this file is an obligation counted by ./check C09.

Reading guide
  * `escape_roundtrip`, `recover_roundtrip`: for ANY codec satisfying the recorded laws `Lawful` (a structure
    parameter, not an axiom) and the handler format after fix C09-1 (`fixedFmt`): every BMP string without
    U+DC80..DCFF and without a literal `\U+XXXX` escape is written, and both readers give it back.  The handler format of
    the *current source* is tabulated into Gen (`handlerFmt`); `source_format_fixed` proves it equals `fixedFmt`
    (=> `escape_roundtrip_source`); for the pre-fix `legacyFmt` the theorems `legacy_*_not_decoded` keep the two
    defects F1/F2 (fixed by /repo commit 2e4902f68) on record.
  * `ascii_lawful`, `utf8_lawful`, `sbcs_tables_lawful`: the laws are *proved* for ASCII, UTF-8 and the ten
    single-byte code pages (tables regenerated from CPython's codecs) => `escape_roundtrip_single_byte_pages`,
    `utf8_identity` are unconditional.  For cp932/gbk/cp949/cp950 the laws stay hypotheses (validated
    exhaustively over the BMP by regenerate, `lf_free` proves the byte-set part from the tabulated sets).
-/
import EzdxfVerif.Model.Encoding
import EzdxfVerif.Gen.EncodingTables

namespace EzdxfVerif.Props.C09
open EzdxfVerif.Encoding
open EzdxfVerif.Gen.EncodingTables

/-! hex digits -/
private theorem hexDigit_range (d : Nat) (hd : d < 16) :
    (48 ≤ hexDigit true d ∧ hexDigit true d ≤ 57) ∨ (65 ≤ hexDigit true d ∧ hexDigit true d ≤ 70) := by
  unfold hexDigit; split <;> simp <;> omega

private theorem upperHex_of_range {x : Nat} (h : (48 ≤ x ∧ x ≤ 57) ∨ (65 ≤ x ∧ x ≤ 70)) : isUpperHex x = true := by
  simp [isUpperHex, h]

private theorem upperHexVal_hexDigit (d : Nat) (hd : d < 16) : upperHexVal (hexDigit true d) = d := by
  unfold upperHexVal hexDigit
  by_cases h : d < 10
  · have : 48 + d ≤ 57 := by omega
    simp [h, this]
  · have : ¬ (55 + d ≤ 57) := by omega
    simp [h, this]

/-- value of 4 fixed hex digits -/
private theorem hexFixed4 (x : Nat) :
    hexFixed true 4 x = [hexDigit true (x / 4096 % 16), hexDigit true (x / 256 % 16),
      hexDigit true (x / 16 % 16), hexDigit true (x % 16)] := by
  simp [hexFixed, Nat.div_div_eq_div_mul]

private theorem matchAt_esc (x : Nat) (r : Str) : matchAt (escPrefix ++ hexFixed true 4 x ++ r) = some r := by
  have u1 := upperHex_of_range (hexDigit_range (x / 4096 % 16) (Nat.mod_lt _ (by decide)))
  have u2 := upperHex_of_range (hexDigit_range (x / 256 % 16) (Nat.mod_lt _ (by decide)))
  have u3 := upperHex_of_range (hexDigit_range (x / 16 % 16) (Nat.mod_lt _ (by decide)))
  have u4 := upperHex_of_range (hexDigit_range (x % 16) (Nat.mod_lt _ (by decide)))
  simp [hexFixed4, escPrefix, matchAt, u1, u2, u3, u4]

private theorem decodePart_esc (x : Nat) (hx : x ≤ 0xFFFF) :
    decodePart (escPrefix ++ hexFixed true 4 x) = [x] := by
  have hm := matchAt_esc x []
  simp only [List.append_nil] at hm
  have hv : ((x / 4096 % 16) * 16 + x / 256 % 16) * 16 + x / 16 % 16 = x / 16 := by omega
  have hv2 : x / 16 * 16 + x % 16 = x := by omega
  unfold decodePart
  rw [hm]
  simp only [hexFixed4, escPrefix, List.cons_append, List.nil_append]
  rw [upperHexVal_hexDigit _ (Nat.mod_lt _ (by decide)), upperHexVal_hexDigit _ (Nat.mod_lt _ (by decide)),
    upperHexVal_hexDigit _ (Nat.mod_lt _ (by decide)), upperHexVal_hexDigit _ (Nat.mod_lt _ (by decide)), hv, hv2]

private theorem reSplit_nil (lit : Str) : reSplit lit [] = [lit] := by
  rw [reSplit]

private theorem reSplit_nomatch (lit : Str) (x : Nat) (r : Str) (h : matchAt (x :: r) = none) :
    reSplit lit (x :: r) = reSplit (lit ++ [x]) r := by
  rw [reSplit]
  split
  · rename_i rest h'; rw [h] at h'; cases h'
  · rfl

private theorem reSplit_match (lit : Str) (x : Nat) (r rest : Str) (h : matchAt (x :: r) = some rest) :
    reSplit lit (x :: r) = lit :: (x :: r).take 7 :: reSplit [] rest := by
  rw [reSplit]
  split
  · rename_i rest' h'; rw [h] at h'; cases h'; rfl
  · rename_i h'; rw [h] at h'; cases h'

/-! strings without a match of `\U+[A-F0-9]{4}` -/

/-- shape of a match -/
private theorem matchAt_some (s rest : Str) (h : matchAt s = some rest) :
    ∃ a b c d, s = 92 :: 85 :: 43 :: a :: b :: c :: d :: rest ∧ isUpperHex a = true ∧ isUpperHex b = true
      ∧ isUpperHex c = true ∧ isUpperHex d = true := by
  match s, h with
  | [], h | [_], h | [_, _], h | [_, _, _], h | [_, _, _, _], h | [_, _, _, _, _], h | [_, _, _, _, _, _], h =>
    simp [matchAt] at h
  | p :: u :: q :: a :: b :: c :: d :: t, h =>
    simp only [matchAt] at h
    split at h
    · rename_i hc
      cases h
      obtain ⟨h1, h2, h3, h4, h5, h6, h7⟩ := hc
      exact ⟨a, b, c, d, by rw [h1, h2, h3], h4, h5, h6, h7⟩
    · cases h

private theorem matchAt_mk (a b c d : Nat) (rest : Str) (ha : isUpperHex a = true) (hb : isUpperHex b = true)
    (hc : isUpperHex c = true) (hd : isUpperHex d = true) :
    matchAt (92 :: 85 :: 43 :: a :: b :: c :: d :: rest) = some rest := by
  simp [matchAt, ha, hb, hc, hd]

private theorem hasDxf_mid (a s rest : Str) (h : matchAt s = some rest) : hasDxfUnicode (a ++ s) = true := by
  obtain ⟨p, q, r, t, hs, _⟩ := matchAt_some s rest h
  induction a with
  | nil => subst hs; simp [hasDxfUnicode, h]
  | cons x a ih => simp [hasDxfUnicode, ih]

private theorem hasDxf_append (a b : Str) (h : hasDxfUnicode (a ++ b) = false) :
    hasDxfUnicode a = false ∧ hasDxfUnicode b = false := by
  induction a with
  | nil => simpa [hasDxfUnicode] using h
  | cons x a ih =>
    simp only [List.cons_append, hasDxfUnicode, Bool.or_eq_false_iff] at h ⊢
    obtain ⟨h1, h2⟩ := h
    have := ih h2
    refine ⟨⟨?_, this.1⟩, this.2⟩
    cases hm : matchAt (x :: a) with
    | none => rfl
    | some rest =>
      exfalso
      obtain ⟨p, q, r, t, hs, hp, hq, hr, ht⟩ := matchAt_some _ rest hm
      have : matchAt (x :: (a ++ b)) = some (rest ++ b) := by
        have e : x :: (a ++ b) = (x :: a) ++ b := rfl
        rw [e, hs]
        exact matchAt_mk p q r t (rest ++ b) hp hq hr ht
      rw [this] at h1
      simp at h1

private theorem matchAt_none_of (s : Str) (h : hasDxfUnicode s = false) : matchAt s = none := by
  cases s with
  | nil => simp [matchAt]
  | cons x r =>
    simp only [hasDxfUnicode, Bool.or_eq_false_iff] at h
    cases hm : matchAt (x :: r) with
    | none => rfl
    | some _ => rw [hm] at h; simp at h

private theorem decodePart_lit (t : Str) (h : hasDxfUnicode t = false) : decodePart t = t := by
  unfold decodePart
  rw [matchAt_none_of t h]

private theorem hasDxf_tail (x : Nat) (r : Str) (h : hasDxfUnicode (x :: r) = false) : hasDxfUnicode r = false := by
  simp only [hasDxfUnicode, Bool.or_eq_false_iff] at h
  exact h.2

private theorem escStr_nil (c : Codec) : escStr c [] = [] := rfl

private theorem escStr_cons (c : Codec) (x : Nat) (r : Str) : escStr c (x :: r) = escChar c x ++ escStr c r := by
  simp [escStr, List.flatMap_cons]

private theorem escStr_head (c : Codec) (r : Str) (h : Nat) (t : Str) (he : escStr c r = h :: t) (hn : h ≠ 92) :
    ∃ r', r = h :: r' ∧ t = escStr c r' := by
  cases r with
  | nil => simp [escStr] at he
  | cons y r' =>
    rw [escStr_cons] at he
    unfold escChar at he
    split at he
    · simp at he; exact ⟨r', by rw [he.1], he.2.symm⟩
    · simp [escPrefix] at he; omega

private theorem hex_ne_92 {x : Nat} (h : isUpperHex x = true) : x ≠ 92 := by
  simp [isUpperHex] at h; omega

/-- a match that starts at a literal character of the written text is a match of the source string -/
private theorem matchAt_lit (c : Codec) (x : Nat) (r rest : Str) (h : matchAt (x :: escStr c r) = some rest) :
    ∃ rest', matchAt (x :: r) = some rest' := by
  obtain ⟨p, q, a, b, hs, hp, hq, ha, hb⟩ := matchAt_some _ rest h
  simp only [List.cons.injEq] at hs
  obtain ⟨hx, he⟩ := hs
  obtain ⟨r1, hr1, ht1⟩ := escStr_head c r 85 _ he (by omega)
  obtain ⟨r2, hr2, ht2⟩ := escStr_head c r1 43 _ ht1.symm (by omega)
  obtain ⟨r3, hr3, ht3⟩ := escStr_head c r2 p _ ht2.symm (hex_ne_92 hp)
  obtain ⟨r4, hr4, ht4⟩ := escStr_head c r3 q _ ht3.symm (hex_ne_92 hq)
  obtain ⟨r5, hr5, ht5⟩ := escStr_head c r4 a _ ht4.symm (hex_ne_92 ha)
  obtain ⟨r6, hr6, _⟩ := escStr_head c r5 b _ ht5.symm (hex_ne_92 hb)
  refine ⟨r6, ?_⟩
  rw [hx, hr1, hr2, hr3, hr4, hr5, hr6]
  exact matchAt_mk p q a b r6 hp hq ha hb

private theorem matchAt_lit_none (c : Codec) (x : Nat) (r : Str) (h : hasDxfUnicode (x :: r) = false) :
    matchAt (x :: escStr c r) = none := by
  cases hm : matchAt (x :: escStr c r) with
  | none => rfl
  | some rest =>
    exfalso
    obtain ⟨rest', h'⟩ := matchAt_lit c x r rest hm
    have := hasDxf_mid [] (x :: r) rest' h'
    simp only [List.nil_append] at this
    rw [this] at h; cases h

private theorem unescape_aux (c : Codec) (s : Str) : ∀ lit : Str, hasDxfUnicode (lit ++ s) = false →
    (∀ x ∈ s, x ≤ 0xFFFF) → (reSplit lit (escStr c s)).flatMap decodePart = lit ++ s := by
  induction s with
  | nil =>
    intro lit h _
    simp only [List.append_nil] at h
    simp [escStr_nil, reSplit_nil, decodePart_lit lit h]
  | cons x r ih =>
    intro lit h hb
    have hx : x ≤ 0xFFFF := hb x (by simp)
    have hb' : ∀ y ∈ r, y ≤ 0xFFFF := fun y hy => hb y (by simp [hy])
    have hl := hasDxf_append lit (x :: r) h
    rw [escStr_cons]
    unfold escChar
    split
    · -- encodable: a literal character, no match can start here
      simp only [List.singleton_append]
      rw [reSplit_nomatch _ _ _ (matchAt_lit_none c x r hl.2)]
      have := ih (lit ++ [x]) (by simpa using h) hb'
      simpa using this
    · -- not encodable: the escape is matched and decoded
      have hm := matchAt_esc x (escStr c r)
      have hcons : escPrefix ++ hexFixed true 4 x ++ escStr c r
          = 92 :: (85 :: 43 :: hexFixed true 4 x ++ escStr c r) := by simp [escPrefix]
      rw [hcons] at hm ⊢
      rw [reSplit_match _ _ _ _ hm]
      have htake : (92 :: (85 :: 43 :: hexFixed true 4 x ++ escStr c r)).take 7 = escPrefix ++ hexFixed true 4 x := by
        simp [hexFixed4, escPrefix]
      rw [htake]
      have hr : hasDxfUnicode ([] ++ r) = false := by simpa using hasDxf_tail x r hl.2
      simp [decodePart_lit lit hl.1, decodePart_esc x hx, ih [] hr hb']

private theorem find_fixed (x : Nat) (hx : x ≤ 0xFFFF) (hs : isEscSurrogate x = false) :
    fixedFmt.find x = some (.esc escPrefix 4 true) := by
  simp only [isEscSurrogate, decide_eq_false_iff_not] at hs
  by_cases h1 : x ≤ 0xDC7F
  · simp [Fmt.find, fixedFmt, h1]
  · have h2 : ¬ (0xDC80 ≤ x ∧ x ≤ 0xDCFF) := hs
    have h3 : 0xDD00 ≤ x := by omega
    have h5 : (decide (56448 ≤ x) && decide (x ≤ 56575)) = false := by simp; omega
    simp [Fmt.find, fixedFmt, List.find?, h1, h5, h3, hx]

private theorem pyHex4 (x : Nat) (hx : x ≤ 0xFFFF) : pyHex true 4 x = hexFixed true 4 x := by
  unfold pyHex hexLen
  have : x.log2 / 4 + 1 ≤ 4 := by
    by_cases h0 : x = 0
    · subst h0; simp [Nat.log2_zero]
    · have : x.log2 < 16 := (Nat.log2_lt h0).mpr (by omega)
      omega
  rw [Nat.max_eq_left this]


private theorem handlerLoop_fixed (run : Str) : ∀ (r acc : Str),
    (∀ x ∈ r, x ≤ 0xFFFF ∧ isEscSurrogate x = false) →
    handlerLoop fixedFmt run acc r = .ok (.str (acc ++ r.flatMap esc4)) := by
  intro r
  induction r with
  | nil => intro acc _; simp [handlerLoop]
  | cons x r ih =>
    intro acc h
    have hx := h x (by simp)
    simp only [handlerLoop, find_fixed x hx.1 hx.2, pyHex4 x hx.1]
    rw [ih _ (fun y hy => h y (by simp [hy]))]
    simp [esc4, List.flatMap_cons]

private theorem esc4_printable (x : Nat) : ∀ y ∈ esc4 x, 32 ≤ y ∧ y ≤ 126 := by
  intro y hy
  simp only [esc4, hexFixed4, escPrefix, List.cons_append, List.nil_append, List.mem_cons, List.not_mem_nil, or_false] at hy
  have r1 := hexDigit_range (x / 4096 % 16) (Nat.mod_lt _ (by decide))
  have r2 := hexDigit_range (x / 256 % 16) (Nat.mod_lt _ (by decide))
  have r3 := hexDigit_range (x / 16 % 16) (Nat.mod_lt _ (by decide))
  have r4 := hexDigit_range (x % 16) (Nat.mod_lt _ (by decide))
  rcases hy with h | h | h | h | h | h | h <;> omega

private theorem encStrict_ascii (c : Codec) (good : Nat → Prop) (L : Lawful c good) (t : Str)
    (h : ∀ y ∈ t, 32 ≤ y ∧ y ≤ 126) : encStrict c t = .ok t := by
  induction t with
  | nil => rfl
  | cons y t ih =>
    have hy := h y (by simp)
    simp [encStrict, (L.ascii y hy.1 hy.2).2, ih (fun z hz => h z (by simp [hz])), Except.map]

private theorem encAll_append (c : Codec) (a b : Str) : encAll c (a ++ b) = encAll c a ++ encAll c b := by
  simp [encAll, List.flatMap_append]

private theorem encAll_ascii (c : Codec) (good : Nat → Prop) (L : Lawful c good) (t : Str)
    (h : ∀ y ∈ t, 32 ≤ y ∧ y ≤ 126) : encAll c t = t := by
  induction t with
  | nil => rfl
  | cons y t ih =>
    have hy := h y (by simp)
    have : encAll c (y :: t) = encAll c [y] ++ encAll c t := encAll_append c [y] t
    rw [this, ih (fun z hz => h z (by simp [hz]))]
    simp [encAll, (L.ascii y hy.1 hy.2).2]

private theorem escStr_bad (c : Codec) (run : Str) (h : ∀ x ∈ run, c.enc x = none) : escStr c run = run.flatMap esc4 := by
  induction run with
  | nil => rfl
  | cons x r ih =>
    rw [escStr_cons, ih (fun y hy => h y (by simp [hy]))]
    simp [escChar, h x (by simp), esc4, List.flatMap_cons]

private theorem flatMap_esc4_printable (run : Str) : ∀ y ∈ run.flatMap esc4, 32 ≤ y ∧ y ≤ 126 := by
  intro y hy
  simp only [List.mem_flatMap] at hy
  obtain ⟨x, _, hx⟩ := hy
  exact esc4_printable x y hx

private theorem flush_fixed (c : Codec) (good : Nat → Prop) (L : Lawful c good) (run : Str)
    (hbad : ∀ x ∈ run, c.enc x = none) (hr : ∀ x ∈ run, x ≤ 0xFFFF ∧ isEscSurrogate x = false) :
    flush c fixedFmt run = .ok (encAll c (escStr c run)) := by
  unfold flush
  cases run with
  | nil => rfl
  | cons x r =>
    simp only [List.isEmpty_cons, Bool.false_eq_true, if_false, handler]
    rw [handlerLoop_fixed (x :: r) (x :: r) [] hr]
    simp only [List.nil_append]
    rw [encStrict_ascii c good L _ (flatMap_esc4_printable _), escStr_bad c _ hbad,
      encAll_ascii c good L _ (flatMap_esc4_printable _)]

private theorem escStr_append (c : Codec) (a b : Str) : escStr c (a ++ b) = escStr c a ++ escStr c b := by
  simp [escStr, List.flatMap_append]

private theorem encodeAux_fixed (c : Codec) (good : Nat → Prop) (L : Lawful c good) (s : Str) :
    ∀ run : Str, (∀ x ∈ run, c.enc x = none) → (c.grouped = false → run = []) →
    (∀ x ∈ run ++ s, x ≤ 0xFFFF ∧ isEscSurrogate x = false) →
    encodeAux c fixedFmt run s = .ok (encAll c (escStr c (run ++ s))) := by
  induction s with
  | nil =>
    intro run hbad _ hr
    simp only [encodeAux, List.append_nil] at hr ⊢
    exact flush_fixed c good L run hbad hr
  | cons x r ih =>
    intro run hbad hg hr
    have hrun : ∀ y ∈ run, y ≤ 0xFFFF ∧ isEscSurrogate y = false := fun y hy => hr y (by simp [hy])
    have hrr : ∀ y ∈ [] ++ r, y ≤ 0xFFFF ∧ isEscSurrogate y = false := fun y hy => hr y (by simp at hy; simp [hy])
    unfold encodeAux
    cases hx : c.enc x with
    | some b =>
      simp only
      rw [flush_fixed c good L run hbad hrun, ih [] (by simp) (by simp) hrr]
      simp only [Except.map, List.nil_append]
      rw [escStr_append, escStr_cons, encAll_append, encAll_append]
      simp [escChar, hx, encAll]
    | none =>
      simp only
      cases hgr : c.grouped with
      | true =>
        simp only [if_true]
        have := ih (run ++ [x]) (by intro y hy; simp at hy; rcases hy with hy | hy; exact hbad y hy; rw [hy]; exact hx)
          (by simp [hgr]) (by simpa using hr)
        simpa using this
      | false =>
        have hrun0 : run = [] := hg hgr
        subst hrun0
        simp only [Bool.false_eq_true, if_false]
        have hx1 : ∀ y ∈ [x], c.enc y = none := by simp [hx]
        have hx2 : ∀ y ∈ [x], y ≤ 0xFFFF ∧ isEscSurrogate y = false := by
          intro y hy; simp at hy; rw [hy]; exact hr x (by simp)
        rw [flush_fixed c good L [x] hx1 hx2, ih [] (by simp) (by simp) hrr]
        simp only [Except.map, List.nil_append]
        rw [show x :: r = [x] ++ r from rfl, escStr_append, encAll_append]


theorem encode_eq_escStr (c : Codec) (good : Nat → Prop) (L : Lawful c good) (s : Str)
    (hs : ∀ x ∈ s, x ≤ 0xFFFF ∧ isEscSurrogate x = false) :
    encode c fixedFmt s = .ok (encAll c (escStr c s)) := by
  have := encodeAux_fixed c good L s [] (by simp) (by simp) (by simpa using hs)
  simpa [encode] using this

theorem unescape_escStr (c : Codec) (s : Str) (hn : hasDxfUnicode s = false)
    (hb : ∀ x ∈ s, x ≤ 0xFFFF) : decodeDxfUnicode (escStr c s) = s := by
  have := unescape_aux c s [] (by simpa using hn) hb
  simpa [decodeDxfUnicode] using this

private theorem escStr_good (c : Codec) (good : Nat → Prop) (L : Lawful c good) (s : Str)
    (hg : ∀ x ∈ s, (c.enc x).isSome → good x) : ∀ y ∈ escStr c s, good y := by
  intro y hy
  simp only [escStr, List.mem_flatMap] at hy
  obtain ⟨x, hx, hyx⟩ := hy
  unfold escChar at hyx
  split at hyx
  · rename_i h; simp at hyx; rw [hyx]; exact hg x hx h
  · have := esc4_printable x y hyx
    exact (L.ascii y this.1 this.2).1

theorem escape_roundtrip (c : Codec) (good : Nat → Prop) (L : Lawful c good) (s : Str)
    (hs : ∀ x ∈ s, x ≤ 0xFFFF ∧ isEscSurrogate x = false ∧ ((c.enc x).isSome → good x))
    (hn : hasDxfUnicode s = false) :
    ∃ b, encode c fixedFmt s = .ok b ∧ decodeDxfUnicode (c.dec b) = s := by
  refine ⟨encAll c (escStr c s), encode_eq_escStr c good L s (fun x hx => ⟨(hs x hx).1, (hs x hx).2.1⟩), ?_⟩
  rw [L.dec_enc _ (escStr_good c good L s (fun x hx => (hs x hx).2.2))]
  exact unescape_escStr c s hn (fun x hx => (hs x hx).1)

theorem hasDxfUnicode_escStr (c : Codec) (s : Str) (hn : hasDxfUnicode s = false) :
    hasDxfUnicode (escStr c s) = s.any (fun x => (c.enc x).isNone) := by
  induction s with
  | nil => rfl
  | cons x r ih =>
    have ih' := ih (hasDxf_tail x r hn)
    rw [escStr_cons]
    unfold escChar
    cases hx : c.enc x with
    | some b =>
      simp only [Option.isSome_some, if_true, List.singleton_append, hasDxfUnicode, matchAt_lit_none c x r hn, ih']
      simp [hx]
    | none =>
      have hm := matchAt_esc x (escStr c r)
      have hcons : escPrefix ++ hexFixed true 4 x ++ escStr c r
          = 92 :: (85 :: 43 :: hexFixed true 4 x ++ escStr c r) := by simp [escPrefix]
      rw [hcons] at hm
      simp only [Option.isSome_none, Bool.false_eq_true, if_false, hcons, hasDxfUnicode, hm]
      simp [hx]

private theorem escStr_all_encodable (c : Codec) (s : Str) (h : ∀ x ∈ s, (c.enc x).isSome) : escStr c s = s := by
  induction s with
  | nil => rfl
  | cons x r ih =>
    rw [escStr_cons, ih (fun y hy => h y (by simp [hy]))]
    simp [escChar, h x (by simp)]

private theorem containsEsc_mid (a r : Str) : containsEsc (a ++ 92 :: 85 :: 43 :: r) = true := by
  induction a with
  | nil => simp [containsEsc, escPrefix, List.isPrefixOf]
  | cons x a ih => simp [containsEsc, ih]

/-- a string that does not contain the text `\U+` at all has no match (the hypothesis of the round trip
    theorems, `hasDxfUnicode s = false`, is weaker: `\U+` may occur as long as no four upper case hex digits follow) -/
theorem no_escape_prefix_no_match (s : Str) (hn : containsEsc s = false) : hasDxfUnicode s = false := by
  cases h : hasDxfUnicode s with
  | false => rfl
  | true =>
    exfalso
    -- some suffix matches, so `\U+` occurs
    have key : ∀ t : Str, hasDxfUnicode t = true → ∃ a r, t = a ++ 92 :: 85 :: 43 :: r := by
      intro t
      induction t with
      | nil => intro ht; simp [hasDxfUnicode] at ht
      | cons x r ih =>
        intro ht
        simp only [hasDxfUnicode, Bool.or_eq_true] at ht
        rcases ht with ht | ht
        · cases hm : matchAt (x :: r) with
          | none => rw [hm] at ht; simp at ht
          | some rest =>
            obtain ⟨a, b, c, d, hs, _⟩ := matchAt_some _ rest hm
            exact ⟨[], a :: b :: c :: d :: rest, by simpa using hs⟩
        · obtain ⟨a, r', hr⟩ := ih ht
          exact ⟨x :: a, r', by rw [hr]; rfl⟩
    obtain ⟨a, r, hs⟩ := key s h
    rw [hs, containsEsc_mid] at hn
    cases hn

/-- the recover loader decodes the written text back to the original string -/
theorem recover_roundtrip (c : Codec) (good : Nat → Prop) (L : Lawful c good) (s : Str)
    (hs : ∀ x ∈ s, x ≤ 0xFFFF ∧ isEscSurrogate x = false ∧ ((c.enc x).isSome → good x))
    (hn : hasDxfUnicode s = false) (hm : hasMif s = false) :
    ∃ b, encode c fixedFmt s = .ok b ∧ recoverStr (c.dec b) = .text s := by
  refine ⟨encAll c (escStr c s), encode_eq_escStr c good L s (fun x hx => ⟨(hs x hx).1, (hs x hx).2.1⟩), ?_⟩
  rw [L.dec_enc _ (escStr_good c good L s (fun x hx => (hs x hx).2.2))]
  unfold recoverStr
  rw [hasDxfUnicode_escStr c s hn]
  cases ha : s.any (fun x => (c.enc x).isNone) with
  | true =>
    simp only [if_true]
    rw [unescape_escStr c s hn (fun x hx => (hs x hx).1)]
  | false =>
    have hall : ∀ x ∈ s, (c.enc x).isSome := by
      intro x hx
      have := List.any_eq_false.mp ha x hx
      cases h : c.enc x <;> simp [h] at this ⊢
    rw [escStr_all_encodable c s hall]
    simp [hm]

theorem encode_clean (c : Codec) (good : Nat → Prop) (L : Lawful c good) (s : Str)
    (hs : ∀ x ∈ s, x ≤ 0xFFFF ∧ isEscSurrogate x = false) (hc : ∀ x ∈ s, x ≠ 0 ∧ x ≠ 10 ∧ x ≠ 13) :
    ∃ b, encode c fixedFmt s = .ok b ∧ ∀ y ∈ b, y ≠ 0 ∧ y ≠ 10 ∧ y ≠ 13 := by
  refine ⟨_, encode_eq_escStr c good L s hs, ?_⟩
  intro y hy
  simp only [encAll, List.mem_flatMap] at hy
  obtain ⟨x, hx, hyx⟩ := hy
  cases hex : c.enc x with
  | none => simp [hex] at hyx
  | some bx =>
    simp only [hex, Option.getD_some] at hyx
    by_cases hbad : y = 0 ∨ y = 10 ∨ y = 13
    · exfalso
      have hxy := L.clean x bx hex y hyx hbad
      simp only [escStr, List.mem_flatMap] at hx
      obtain ⟨z, hz, hxz⟩ := hx
      unfold escChar at hxz
      split at hxz
      · simp at hxz
        have := hc z hz
        omega
      · have := esc4_printable z x hxz
        omega
    · omega

theorem encode_all_encodable (c : Codec) (f : Fmt) (s : Str) (h : ∀ x ∈ s, (c.enc x).isSome) :
    encode c f s = .ok (encAll c s) := by
  unfold encode
  induction s with
  | nil => rfl
  | cons x r ih =>
    have hx := h x (by simp)
    cases hex : c.enc x with
    | none => simp [hex] at hx
    | some b =>
      simp only [encodeAux, hex, flush, List.isEmpty_nil, if_true, ih (fun y hy => h y (by simp [hy])), Except.map]
      simp [encAll, List.flatMap_cons, hex]


/-! concrete codecs are lawful -/

theorem ascii_lawful : Lawful asciiCodec (fun x => x < 128) where
  enc_some := by intro x hx; simp [asciiCodec, hx]
  dec_enc := by
    intro s hs
    induction s with
    | nil => rfl
    | cons x r ih =>
      have hx : x < 128 := hs x (by simp)
      have := ih (fun y hy => hs y (by simp [hy]))
      simp only [encAll, asciiCodec, List.flatMap_cons, hx, if_true, Option.getD_some, List.singleton_append,
        List.map_cons] at this ⊢
      rw [this]
  ascii := by intro x h1 h2; have : x < 128 := by omega
              simp [asciiCodec, this]
  clean := by
    intro x b hb y hy _
    simp only [asciiCodec] at hb
    split at hb
    · cases hb; simp at hy; exact hy.symm
    · cases hb

private theorem idxOf_spec (x : Nat) (t : List Nat) (i : Nat) (h : idxOf x t = some i) : t[i]? = some x := by
  induction t generalizing i with
  | nil => simp [idxOf] at h
  | cons y r ih =>
    unfold idxOf at h
    split at h
    · rename_i hy; cases h; simp [hy]
    · cases hr : idxOf x r with
      | none => simp [hr] at h
      | some j => simp [hr] at h; subst h; simp [ih j hr]

private theorem idxOf_mem (x : Nat) (t : List Nat) (h : x ∈ t) : (idxOf x t).isSome := by
  induction t with
  | nil => cases h
  | cons y r ih =>
    unfold idxOf
    split
    · rfl
    · rename_i hy
      have : x ∈ r := by
        cases h with
        | head => exact absurd rfl hy
        | tail _ h' => exact h'
      have := ih this
      cases hr : idxOf x r <;> simp [hr] at this ⊢

/-- in a table with `t[j] = j` for `j < 128`, the first position of an ASCII value is the value -/
private theorem idxOf_ascii (t : List Nat) (hid : ∀ j, j < 128 → t[j]? = some j) (x : Nat) (hx : x < 128) :
    idxOf x t = some x := by
  -- generalise: idxOf x (t.drop k) = some (x - k) for k ≤ x
  have key : ∀ n k, k + n = x → idxOf x (t.drop k) = some n := by
    intro n
    induction n with
    | zero =>
      intro k hk
      have hk' : k = x := by omega
      subst hk'
      have := hid k hx
      have hlt : k < t.length := by
        rcases Nat.lt_or_ge k t.length with h | h
        · exact h
        · rw [List.getElem?_eq_none h] at this; cases this
      rw [List.drop_eq_getElem_cons hlt]
      have hv : t[k] = k := by
        rw [List.getElem?_eq_getElem hlt] at this; exact Option.some.inj this
      simp [idxOf, hv]
    | succ n ih =>
      intro k hk
      have hkx : k < 128 := by omega
      have := hid k hkx
      have hlt : k < t.length := by
        rcases Nat.lt_or_ge k t.length with h | h
        · exact h
        · rw [List.getElem?_eq_none h] at this; cases this
      rw [List.drop_eq_getElem_cons hlt]
      have hv : t[k] = k := by
        rw [List.getElem?_eq_getElem hlt] at this; exact Option.some.inj this
      have hne : ¬ (t[k] = x) := by omega
      simp [idxOf, hne, ih (k + 1) (by omega)]
  simpa using key x 0 (by omega)

private theorem sbcsTableOk_ascii (t : List Nat) (h : sbcsTableOk t = true) : ∀ j, j < 128 → t[j]? = some j := by
  intro j hj
  have h' : t.take 128 = List.range 128 := by simpa [sbcsTableOk] using h
  have h1 : (t.take 128)[j]? = t[j]? := by simp [hj]
  rw [← h1, h']
  simp [hj]

theorem sbcs_lawful (t : List Nat) (h : sbcsTableOk t = true) :
    Lawful (sbcsCodec t) (fun x => x ∈ t ∧ x ≠ undef) where
  enc_some := by
    intro x hx
    have := idxOf_mem x t hx.1
    cases hi : idxOf x t <;> simp [hi] at this
    simp [sbcsCodec, hx.2, hi]
  dec_enc := by
    intro s hs
    induction s with
    | nil => rfl
    | cons x r ih =>
      have hx := hs x (by simp)
      have ih' := ih (fun y hy => hs y (by simp [hy]))
      have hsome := idxOf_mem x t hx.1
      cases hi : idxOf x t with
      | none => simp [hi] at hsome
      | some i =>
        have hget := idxOf_spec x t i hi
        simp only [encAll, sbcsCodec, List.flatMap_cons, hx.2, if_false, hi, Option.map_some, Option.getD_some,
          List.singleton_append, List.map_cons, hget] at ih' ⊢
        rw [ih']
  ascii := by
    intro x h1 h2
    have hx : x < 128 := by omega
    have hid := sbcsTableOk_ascii t h
    have hget := hid x hx
    have hmem : x ∈ t := List.mem_of_getElem? hget
    have hne : x ≠ undef := by unfold undef; omega
    exact ⟨⟨hmem, hne⟩, by simp [sbcsCodec, hne, idxOf_ascii t hid x hx]⟩
  clean := by
    intro x b hb y hy hy3
    simp only [sbcsCodec] at hb
    split at hb
    · cases hb
    · cases hi : idxOf x t with
      | none => simp [hi] at hb
      | some i =>
        simp [hi] at hb
        subst hb
        simp at hy
        subst hy
        have hget := idxOf_spec x t y hi
        have := sbcsTableOk_ascii t h y (by omega)
        rw [this] at hget
        exact (Option.some.inj hget).symm


/-! UTF-8 -/


private theorem utf8Dec_nil : utf8Dec [] = [] := by rw [utf8Dec]

private theorem utf8Dec_ascii (b : Nat) (r : Bytes) (h : b < 0x80) : utf8Dec (b :: r) = b :: utf8Dec r := by
  rw [utf8Dec]; simp [h]

private theorem utf8Dec_step (b0 : Nat) (r : Bytes) (cp n : Nat) (h : ¬ b0 < 0x80) (hs : utf8Step b0 r = some (cp, n)) :
    utf8Dec (b0 :: r) = cp :: utf8Dec (r.drop n) := by
  rw [utf8Dec]; simp [h, hs]

private theorem utf8Dec_enc (x : Nat) (hx : scalar x) (rest : Bytes) :
    utf8Dec ((utf8Enc x).getD [] ++ rest) = x :: utf8Dec rest := by
  obtain ⟨h1, h2⟩ := hx
  unfold utf8Enc
  by_cases c1 : x < 0x80
  · simp [c1, utf8Dec_ascii x rest c1]
  · by_cases c2 : x < 0x800
    · simp only [c1, c2, if_true, if_false, Option.getD_some, List.cons_append, List.nil_append]
      rw [utf8Dec_step (0xC0 + x / 64) _ x 1 (by omega)]
      · simp
      · have hc : isCont (0x80 + x % 64) = true := by simp [isCont]; omega
        have hcond : 0xC2 ≤ 0xC0 + x / 64 ∧ 0xC0 + x / 64 ≤ 0xDF := by omega
        have hv : (0xC0 + x / 64 - 0xC0) * 64 + (0x80 + x % 64 - 0x80) = x := by omega
        simp only [utf8Step, hcond, hc, and_self, if_true, hv]
    · by_cases c3 : x < 0x10000
      · have c4 : ¬ (0xD800 ≤ x ∧ x ≤ 0xDFFF) := h2
        simp only [c1, c2, c3, c4, if_true, if_false, Option.getD_some, List.cons_append, List.nil_append]
        rw [utf8Dec_step (0xE0 + x / 4096) _ x 2 (by omega)]
        · simp
        · have hc1 : isCont (0x80 + x / 64 % 64) = true := by simp [isCont]; omega
          have hc2 : isCont (0x80 + x % 64) = true := by simp [isCont]; omega
          have hn2 : ¬ (0xC2 ≤ 0xE0 + x / 4096 ∧ 0xE0 + x / 4096 ≤ 0xDF ∧ isCont (0x80 + x / 64 % 64) = true) := by omega
          have hcond : 0xE0 ≤ 0xE0 + x / 4096 ∧ 0xE0 + x / 4096 ≤ 0xEF ∧ isCont (0x80 + x / 64 % 64) = true
              ∧ isCont (0x80 + x % 64) = true ∧ (0xE0 + x / 4096 = 0xE0 → 0xA0 ≤ 0x80 + x / 64 % 64)
              ∧ (0xE0 + x / 4096 = 0xED → 0x80 + x / 64 % 64 ≤ 0x9F) := by
            refine ⟨by omega, by omega, hc1, hc2, by omega, by omega⟩
          have hv : (0xE0 + x / 4096 - 0xE0) * 4096 + (0x80 + x / 64 % 64 - 0x80) * 64 + (0x80 + x % 64 - 0x80) = x := by
            omega
          simp only [utf8Step]
          rw [if_neg hn2, if_pos hcond, hv]
      · have c5 : x < 0x110000 := h1
        simp only [c1, c2, c3, c5, if_true, if_false, Option.getD_some, List.cons_append, List.nil_append]
        rw [utf8Dec_step (0xF0 + x / 262144) _ x 3 (by omega)]
        · simp
        · have hc1 : isCont (0x80 + x / 4096 % 64) = true := by simp [isCont]; omega
          have hc2 : isCont (0x80 + x / 64 % 64) = true := by simp [isCont]; omega
          have hc3 : isCont (0x80 + x % 64) = true := by simp [isCont]; omega
          have hn2 : ¬ (0xC2 ≤ 0xF0 + x / 262144 ∧ 0xF0 + x / 262144 ≤ 0xDF ∧ isCont (0x80 + x / 4096 % 64) = true) := by omega
          have hn3 : ¬ (0xE0 ≤ 0xF0 + x / 262144 ∧ 0xF0 + x / 262144 ≤ 0xEF ∧ isCont (0x80 + x / 4096 % 64) = true
              ∧ isCont (0x80 + x / 64 % 64) = true ∧ (0xF0 + x / 262144 = 0xE0 → 0xA0 ≤ 0x80 + x / 4096 % 64)
              ∧ (0xF0 + x / 262144 = 0xED → 0x80 + x / 4096 % 64 ≤ 0x9F)) := by omega
          have hcond : 0xF0 ≤ 0xF0 + x / 262144 ∧ 0xF0 + x / 262144 ≤ 0xF4 ∧ isCont (0x80 + x / 4096 % 64) = true
              ∧ isCont (0x80 + x / 64 % 64) = true ∧ isCont (0x80 + x % 64) = true
              ∧ (0xF0 + x / 262144 = 0xF0 → 0x90 ≤ 0x80 + x / 4096 % 64)
              ∧ (0xF0 + x / 262144 = 0xF4 → 0x80 + x / 4096 % 64 ≤ 0x8F) := by
            refine ⟨by omega, by omega, hc1, hc2, hc3, by omega, by omega⟩
          have hv : (0xF0 + x / 262144 - 0xF0) * 262144 + (0x80 + x / 4096 % 64 - 0x80) * 4096
              + (0x80 + x / 64 % 64 - 0x80) * 64 + (0x80 + x % 64 - 0x80) = x := by omega
          simp only [utf8Step]
          rw [if_neg hn2, if_neg hn3, if_pos hcond, hv]

theorem utf8_lawful : Lawful utf8Codec scalar where
  enc_some := by
    intro x hx
    obtain ⟨h1, h2⟩ := hx
    simp only [utf8Codec, utf8Enc]
    split
    · rfl
    · split
      · rfl
      · split
        · simp
        · simp
  dec_enc := by
    intro s hs
    induction s with
    | nil => simp [encAll, utf8Codec, utf8Dec_nil]
    | cons x r ih =>
      have hx := hs x (by simp)
      have ih' := ih (fun y hy => hs y (by simp [hy]))
      simp only [encAll, utf8Codec, List.flatMap_cons] at ih' ⊢
      rw [utf8Dec_enc x hx, ih']
  ascii := by
    intro x h1 h2
    refine ⟨⟨by omega, by omega⟩, ?_⟩
    have : x < 0x80 := by omega
    simp [utf8Codec, utf8Enc, this]
  clean := by
    intro x b hb y hy hy3
    simp only [utf8Codec, utf8Enc] at hb
    split at hb
    · cases hb; simp at hy; exact hy.symm
    · split at hb
      · cases hb; simp at hy; omega
      · split at hb
        · split at hb
          · cases hb
          · cases hb; simp at hy; omega
        · split at hb
          · cases hb; simp at hy; omega
          · cases hb



private theorem reSplit_lit (s : Str) : ∀ lit, hasDxfUnicode s = false → reSplit lit s = [lit ++ s] := by
  induction s with
  | nil => intro lit _; simp [reSplit_nil]
  | cons x r ih =>
    intro lit h
    simp only [hasDxfUnicode, Bool.or_eq_false_iff] at h
    have hm : matchAt (x :: r) = none := by
      cases hm : matchAt (x :: r) with
      | none => rfl
      | some _ => rw [hm] at h; simp at h
    rw [reSplit_nomatch _ _ _ hm, ih _ h.2]
    simp

private theorem decodePart_length (p : Str) : (decodePart p).length ≤ p.length := by
  unfold decodePart
  split
  · simp
  · exact Nat.le_refl _

private theorem reSplit_flatten (lit s : Str) : (reSplit lit s).flatten = lit ++ s := by
  fun_induction reSplit lit s with
  | case1 lit => simp
  | case2 lit x r rest hm ih =>
    have := matchAt_length hm
    simp only [List.flatten_cons, ih, List.nil_append]
    -- (x :: r) = take 7 ++ rest
    have hr : rest = (x :: r).drop 7 := by
      match r, hm with
      | u :: q :: a :: b :: c :: d :: t, hm =>
        simp only [matchAt] at hm
        split at hm
        · cases hm; rfl
        · cases hm
      | [], hm | [_], hm | [_, _], hm | [_, _, _], hm | [_, _, _, _], hm | [_, _, _, _, _], hm => simp [matchAt] at hm
    rw [hr, List.take_append_drop]
  | case3 lit x r hm ih => simp [ih]

/-- `decode_dxf_unicode` is total (a plain function of the model; the real function never raises in the
    correspondence stream) and its result is never longer than the input -/
theorem decode_length_le (s : Str) : (decodeDxfUnicode s).length ≤ s.length := by
  unfold decodeDxfUnicode
  have h := reSplit_flatten [] s
  have key : ∀ l : List Str, (l.flatMap decodePart).length ≤ l.flatten.length := by
    intro l
    induction l with
    | nil => simp
    | cons p ps ih =>
      simp only [List.flatMap_cons, List.flatten_cons, List.length_append]
      have := decodePart_length p
      omega
  have := key (reSplit [] s)
  rw [h] at this
  simpa using this

/-- `decode_dxf_unicode` is the identity on a string without a match of `\\U\+[A-F0-9]{4}` -/
theorem decode_nomatch (s : Str) (hn : hasDxfUnicode s = false) : decodeDxfUnicode s = s := by
  unfold decodeDxfUnicode
  rw [reSplit_lit s [] hn]
  simp [decodePart_lit s hn]

/-- R2007+ (UTF-8): nothing is escaped whatever the handler does, every string of Unicode scalar values
    (all planes) is written as its UTF-8 encoding and read back identical by both readers -/
theorem utf8_identity (f : Fmt) (s : Str) (hs : ∀ x ∈ s, scalar x) (hn : hasDxfUnicode s = false) :
    ∃ b, encode utf8Codec f s = .ok b ∧ utf8Codec.dec b = s ∧ decodeDxfUnicode (utf8Codec.dec b) = s
      ∧ (hasMif s = false → recoverStr (utf8Codec.dec b) = .text s) := by
  have henc : ∀ x ∈ s, (utf8Codec.enc x).isSome := fun x hx => utf8_lawful.enc_some x (hs x hx)
  have hdec : utf8Codec.dec (encAll utf8Codec s) = s := utf8_lawful.dec_enc s hs
  refine ⟨encAll utf8Codec s, encode_all_encodable utf8Codec f s henc, hdec, ?_, ?_⟩
  · rw [hdec]; exact decode_nomatch s hn
  · intro hm
    rw [hdec]
    simp [recoverStr, hn, hm]

/-! name tables -/

private theorem find?_perm_unique {α : Type} (p : α → Bool) (l l' : List α) (hp : l'.Perm l)
    (huniq : ∀ a ∈ l, ∀ b ∈ l, p a = true → p b = true → a = b) : l'.find? p = l.find? p := by
  cases h : l.find? p with
  | none =>
    rw [List.find?_eq_none] at h ⊢
    intro x hx
    exact h x (hp.mem_iff.mp hx)
  | some a =>
    have ha : p a = true := List.find?_some h
    have hal : a ∈ l := List.mem_of_find?_eq_some h
    cases h' : l'.find? p with
    | none =>
      rw [List.find?_eq_none] at h'
      exact absurd ha (h' a (hp.mem_iff.mpr hal))
    | some b =>
      have hb : p b = true := List.find?_some h'
      have hbl : b ∈ l := hp.mem_iff.mp (List.mem_of_find?_eq_some h')
      rw [huniq a hal b hbl ha hb]


private theorem table_suffix_free : suffixFreeB codepageToEncoding = true := by decide +kernel

theorem toencoding_order_independent (d' : Dict) (hp : d'.Perm codepageToEncoding) (name : Str) :
    toencoding d' name = toencoding codepageToEncoding name := by
  unfold toencoding
  rw [find?_perm_unique (fun p => endsWith name p.1) codepageToEncoding d' hp]
  intro a ha b hb pa pb
  simp only [endsWith, List.isSuffixOf_iff_suffix] at pa pb
  have hsf := table_suffix_free
  simp only [suffixFreeB, List.all_eq_true, Bool.or_eq_true, Bool.not_eq_true', decide_eq_true_eq] at hsf
  rcases Nat.le_total a.1.length b.1.length with hl | hl
  · have := List.suffix_of_suffix_length_le pa pb hl
    rcases hsf a ha b hb with h | h
    · rw [← List.isSuffixOf_iff_suffix] at this; rw [this] at h; cases h
    · exact h
  · have := List.suffix_of_suffix_length_le pb pa hl
    rcases hsf b hb a ha with h | h
    · rw [← List.isSuffixOf_iff_suffix] at this; rw [this] at h; cases h
    · exact h.symm

theorem names_bijective :
    (∀ p ∈ codepageToEncoding, toencoding codepageToEncoding (ansiPrefix ++ p.1) = p.2
        ∧ tocodepage encodingToCodepage p.2 = ansiPrefix ++ p.1)
    ∧ (codepageToEncoding.map (·.1)).Nodup ∧ (codepageToEncoding.map (·.2)).Nodup
    ∧ encodingToCodepage = invertDict codepageToEncoding := by decide +kernel

theorem names_roundtrip :
    (∀ p ∈ codepageToEncoding, toencoding codepageToEncoding (tocodepage encodingToCodepage p.2) = p.2)
    ∧ (∀ p ∈ codepageToEncoding,
        tocodepage encodingToCodepage (toencoding codepageToEncoding (ansiPrefix ++ p.1)) = ansiPrefix ++ p.1) := by
  have h := names_bijective.1
  constructor
  · intro p hp; rw [(h p hp).2, (h p hp).1]
  · intro p hp; rw [(h p hp).1, (h p hp).2]

/-! tables -/

private theorem sbcs_tables_ok : sbcsTables.all (fun p => sbcsTableOk p.2) = true := by decide +kernel

theorem sbcs_tables_lawful : ∀ p ∈ sbcsTables, Lawful (sbcsCodec p.2) (fun x => x ∈ p.2 ∧ x ≠ undef) := by
  intro p hp
  exact sbcs_lawful p.2 (List.all_eq_true.mp sbcs_tables_ok p hp)

private theorem dbcs_clean_b : dbcsInfos.all dbcsCleanB = true := by decide +kernel

/-- CJK code pages (byte sets tabulated over the whole BMP from CPython's codecs): NUL/LF/CR bytes encode only
    themselves, no lead or trail byte is NUL/LF/CR (so byte-level line splitting and NUL termination commute with
    decoding), no lead byte is also a single-byte encoding (prefix code), printable ASCII encodes to itself -/
theorem lf_free : ∀ d ∈ dbcsInfos,
    (∀ p ∈ d.singles, (p.2 = 0 ∨ p.2 = 10 ∨ p.2 = 13) → p.1 = p.2)
    ∧ (∀ b ∈ d.leads ++ d.trails, b ≠ 0 ∧ b ≠ 10 ∧ b ≠ 13)
    ∧ (∀ b ∈ d.leads, ∀ p ∈ d.singles, p.2 ≠ b)
    ∧ (∀ i, i < 95 → (32 + i, 32 + i) ∈ d.singles) := by
  intro d hd
  have h := List.all_eq_true.mp dbcs_clean_b d hd
  simp only [dbcsCleanB, Bool.and_eq_true, List.all_eq_true, Bool.or_eq_true, Bool.not_eq_true', beq_iff_eq,
    decide_eq_true_eq, List.mem_range, List.contains_iff_mem, List.any_eq_false,
    Bool.or_eq_false_iff, beq_eq_false_iff_ne] at h
  obtain ⟨⟨⟨h1, h2⟩, h3⟩, h4⟩ := h
  refine ⟨?_, ?_, ?_, h2⟩
  · intro p hp h0
    rcases (h1 p hp).1 with hh | hh
    · omega
    · exact hh
  · intro b hb
    rcases List.mem_append.mp hb with hb | hb
    · have := (h3 b hb).1; omega
    · have := h4 b hb; omega
  · intro b hb p hp
    exact (h3 b hb).2 p hp

/-- the handler of the current source (tabulated over all 0x110000 code points) is the format the theorems are
    about; before fix 2e4902f68 it was `legacyFmt`, for which `legacy_*_not_decoded` prove the two defects -/
theorem source_format_fixed : handlerFmt = fixedFmt := by decide +kernel

/-- `escape_roundtrip` + `recover_roundtrip` for the handler of the current source -/
theorem escape_roundtrip_source (c : Codec) (good : Nat → Prop) (L : Lawful c good) (s : Str)
    (hs : ∀ x ∈ s, x ≤ 0xFFFF ∧ isEscSurrogate x = false ∧ ((c.enc x).isSome → good x))
    (hn : hasDxfUnicode s = false) :
    ∃ b, encode c handlerFmt s = .ok b ∧ decodeDxfUnicode (c.dec b) = s
      ∧ (hasMif s = false → recoverStr (c.dec b) = .text s) := by
  rw [source_format_fixed]
  obtain ⟨b, hb1, hb2⟩ := escape_roundtrip c good L s hs hn
  refine ⟨b, hb1, hb2, ?_⟩
  intro hm
  obtain ⟨b', hb1', hb2'⟩ := recover_roundtrip c good L s hs hn hm
  rw [hb1] at hb1'; cases hb1'; exact hb2'

theorem regex_patterns_as_modelled :
    backslashUnicodePattern = "(\\\\U\\+[A-F0-9]{4})" ∧ mifEncodedPattern = "(\\\\M\\+[1-5][A-F0-9]{4})" := by
  decide

theorem grouped_as_modelled :
    (∀ p ∈ sbcsTables, (p.1, true) ∈ grouped) ∧ ([117, 116, 102, 56], true) ∈ grouped
      ∧ ([97, 115, 99, 105, 105], true) ∈ grouped ∧ (∀ d ∈ dbcsInfos, (d.name, false) ∈ grouped) := by
  decide +kernel

private theorem idxOf_some_mem (x : Nat) (t : List Nat) (h : (idxOf x t).isSome) : x ∈ t := by
  induction t with
  | nil => simp [idxOf] at h
  | cons y r ih =>
    unfold idxOf at h
    split at h
    · rename_i hy; simp [hy]
    · cases hr : idxOf x r with
      | none => simp [hr] at h
      | some j => exact List.mem_cons_of_mem _ (ih (by simp [hr]))

/-- the ten single-byte code pages, unconditionally (tables regenerated from the codecs) -/
theorem escape_roundtrip_single_byte_pages : ∀ p ∈ sbcsTables, ∀ s : Str,
    (∀ x ∈ s, x ≤ 0xFFFF ∧ isEscSurrogate x = false) → hasDxfUnicode s = false →
    ∃ b, encode (sbcsCodec p.2) fixedFmt s = .ok b
      ∧ decodeDxfUnicode ((sbcsCodec p.2).dec b) = s
      ∧ (hasMif s = false → recoverStr ((sbcsCodec p.2).dec b) = .text s)
      ∧ ((∀ x ∈ s, x ≠ 0 ∧ x ≠ 10 ∧ x ≠ 13) → ∀ y ∈ b, y ≠ 0 ∧ y ≠ 10 ∧ y ≠ 13) := by
  intro p hp s hs hn
  have L := sbcs_tables_lawful p hp
  have hs' : ∀ x ∈ s, x ≤ 0xFFFF ∧ isEscSurrogate x = false
      ∧ (((sbcsCodec p.2).enc x).isSome → (x ∈ p.2 ∧ x ≠ undef)) := by
    intro x hx
    refine ⟨(hs x hx).1, (hs x hx).2, ?_⟩
    intro he
    simp only [sbcsCodec] at he
    split at he
    · cases he
    · rename_i hne
      refine ⟨idxOf_some_mem x p.2 ?_, hne⟩
      cases hi : idxOf x p.2 <;> simp [hi] at he ⊢
  obtain ⟨b, hb1, hb2⟩ := escape_roundtrip _ _ L s hs' hn
  refine ⟨b, hb1, hb2, ?_, ?_⟩
  · intro hm
    obtain ⟨b', hb1', hb2'⟩ := recover_roundtrip _ _ L s hs' hn hm
    rw [hb1] at hb1'; cases hb1'; exact hb2'
  · intro hc
    obtain ⟨b', hb1', hb2'⟩ := encode_clean _ _ L s hs hc
    rw [hb1] at hb1'; cases hb1'; exact hb2'

theorem containsEsc_iff_infix (s : Str) : containsEsc s = true ↔ escPrefix <:+: s := by
  induction s with
  | nil => simp [containsEsc, escPrefix]
  | cons x r ih =>
    rw [List.infix_cons_iff, ← ih, ← List.isPrefixOf_iff_prefix]
    simp [containsEsc]

/-- F1 (before fix 2e4902f68): "x€" was written `x\U+20ac`, which no reader decodes -/
theorem legacy_lowerhex_not_decoded :
    encode asciiCodec legacyFmt [120, 0x20AC] = .ok [120, 92, 85, 43, 50, 48, 97, 99]
    ∧ hasDxfUnicode [120, 92, 85, 43, 50, 48, 97, 99] = false
    ∧ decodeDxfUnicode (asciiCodec.dec [120, 92, 85, 43, 50, 48, 97, 99]) = [120, 92, 85, 43, 50, 48, 97, 99] := by
  refine ⟨by decide +kernel, by decide +kernel, ?_⟩
  have : asciiCodec.dec [120, 92, 85, 43, 50, 48, 97, 99] = [120, 92, 85, 43, 50, 48, 97, 99] := by decide +kernel
  rw [this]
  exact decode_nomatch _ (by decide +kernel)

/-- F2 (before fix 2e4902f68): "ä" under cp1251 was written `\xe4`, which no reader decodes -/
theorem legacy_latin1_not_decoded :
    encode (sbcsCodec cp1251Table) legacyFmt [0xE4] = .ok [92, 120, 101, 52]
    ∧ decodeDxfUnicode ((sbcsCodec cp1251Table).dec [92, 120, 101, 52]) = [92, 120, 101, 52] := by
  refine ⟨by decide +kernel, ?_⟩
  have : (sbcsCodec cp1251Table).dec [92, 120, 101, 52] = [92, 120, 101, 52] := by decide +kernel
  rw [this]
  exact decode_nomatch _ (by decide +kernel)

/-! ## raw bytes survive (surrogateescape in the reverse direction) -/

theorem fixed_delegates : Delegates fixedFmt := by
  intro x hx
  simp only [isEscSurrogate, decide_eq_true_eq] at hx
  have h1 : ¬ x ≤ 56447 := by omega
  have h5 : (decide (56448 ≤ x) && decide (x ≤ 56575)) = true := by simp; omega
  simp [Fmt.find, fixedFmt, List.find?, h1, h5]

theorem legacy_delegates : Delegates legacyFmt := by
  intro x hx
  simp only [isEscSurrogate, decide_eq_true_eq] at hx
  have h0 : ¬ x ≤ 255 := by omega
  have h1 : (decide (256 ≤ x) && decide (x ≤ 56447)) = false := by simp; omega
  have h5 : (decide (56448 ≤ x) && decide (x ≤ 56575)) = true := by simp; omega
  simp [Fmt.find, legacyFmt, List.find?, h0, h1, h5]

private theorem flush_raw (c : Codec) (f : Fmt) (hf : Delegates f) (run : Str)
    (hr : ∀ x ∈ run, isEscSurrogate x = true) : flush c f run = .ok (run.map (· - 0xDC00)) := by
  unfold flush
  cases run with
  | nil => rfl
  | cons x r =>
    have hx := hf x (hr x (by simp))
    have hall : (x :: r).all isEscSurrogate = true := List.all_eq_true.mpr hr
    simp only [List.isEmpty_cons, Bool.false_eq_true, if_false, handler, handlerLoop, hx, surrogateEscape, hall, if_true]

private theorem rawBytes_append (c : Codec) (a b : Str) : rawBytes c (a ++ b) = rawBytes c a ++ rawBytes c b := by
  simp [rawBytes, List.flatMap_append]

private theorem rawBytes_run (c : Codec) (run : Str) (h : ∀ x ∈ run, c.enc x = none) :
    rawBytes c run = run.map (· - 0xDC00) := by
  induction run with
  | nil => rfl
  | cons x r ih =>
    have := ih (fun y hy => h y (by simp [hy]))
    simp only [rawBytes, List.flatMap_cons, h x (by simp), List.map_cons] at this ⊢
    rw [this]; rfl

/-- Raw bytes survive: a string made of encodable characters and surrogate-escaped bytes (what a reader with
    errors="surrogateescape" produces for undecodable input) is written back as exactly those bytes, for every
    codec and for both handler formats. -/
theorem encode_surrogate_passthrough (c : Codec) (f : Fmt) (hf : Delegates f) (s : Str)
    (hs : ∀ x ∈ s, (c.enc x).isSome ∨ isEscSurrogate x = true) :
    encode c f s = .ok (rawBytes c s) := by
  have key : ∀ (s run : Str), (∀ x ∈ run, c.enc x = none ∧ isEscSurrogate x = true) →
      (c.grouped = false → run = []) → (∀ x ∈ s, (c.enc x).isSome ∨ isEscSurrogate x = true) →
      encodeAux c f run s = .ok (rawBytes c (run ++ s)) := by
    intro s
    induction s with
    | nil =>
      intro run hrun _ _
      simp only [encodeAux, List.append_nil]
      rw [flush_raw c f hf run (fun x hx => (hrun x hx).2), rawBytes_run c run (fun x hx => (hrun x hx).1)]
    | cons x r ih =>
      intro run hrun hg0 hs
      have hr' : ∀ y ∈ r, (c.enc y).isSome ∨ isEscSurrogate y = true := fun y hy => hs y (by simp [hy])
      unfold encodeAux
      cases hx : c.enc x with
      | some b =>
        simp only
        rw [flush_raw c f hf run (fun x hx => (hrun x hx).2), ih [] (by simp) (by simp) hr']
        simp only [Except.map, List.nil_append]
        rw [rawBytes_append, rawBytes_run c run (fun x hx => (hrun x hx).1)]
        simp [rawBytes, List.flatMap_cons, hx]
      | none =>
        have hxs : isEscSurrogate x = true := by
          rcases hs x (by simp) with h | h
          · simp [hx] at h
          · exact h
        simp only
        cases hg : c.grouped with
        | true =>
          simp only [if_true]
          have := ih (run ++ [x]) (by
            intro y hy; simp at hy
            rcases hy with hy | hy
            · exact hrun y hy
            · rw [hy]; exact ⟨hx, hxs⟩) (by simp [hg]) hr'
          simpa using this
        | false =>
          simp only [Bool.false_eq_true, if_false]
          have hrun0 : run = [] := hg0 hg
          subst hrun0
          rw [flush_raw c f hf [x] (by simp [hxs]), ih [] (by simp) (by simp) hr']
          simp only [Except.map, List.nil_append]
          rw [show x :: r = [x] ++ r from rfl, rawBytes_append, rawBytes_run c [x] (by simp [hx])]
  simpa [encode] using key s [] (by simp) (by simp) hs

private theorem utf8Step_enc (b0 : Nat) (r : Bytes) (cp n : Nat) (h : utf8Step b0 r = some (cp, n)) :
    utf8Enc cp = some (b0 :: r.take n) := by
  unfold utf8Step at h
  match r, h with
  | [], h => cases h
  | b1 :: r1, h =>
    simp only at h
    split at h
    · rename_i hc
      obtain ⟨h1, h2, h3⟩ := hc
      simp only [isCont, decide_eq_true_eq] at h3
      simp only [Option.some.injEq, Prod.mk.injEq] at h
      obtain ⟨hcp, hn⟩ := h
      subst hcp hn
      have c1 : ¬ ((b0 - 0xC0) * 64 + (b1 - 0x80) < 0x80) := by omega
      have c2 : (b0 - 0xC0) * 64 + (b1 - 0x80) < 0x800 := by omega
      have e1 : 0xC0 + ((b0 - 0xC0) * 64 + (b1 - 0x80)) / 64 = b0 := by omega
      have e2 : 0x80 + ((b0 - 0xC0) * 64 + (b1 - 0x80)) % 64 = b1 := by omega
      simp only [utf8Enc, c1, c2, if_true, if_false, e1, e2, List.take_succ_cons, List.take_zero]
    · match r1, h with
      | [], h => cases h
      | b2 :: r2, h =>
        simp only at h
        split at h
        · rename_i hc
          obtain ⟨h1, h2, h3, h4, h5, h6⟩ := hc
          simp only [isCont, decide_eq_true_eq] at h3 h4
          simp only [Option.some.injEq, Prod.mk.injEq] at h
          obtain ⟨hcp, hn⟩ := h
          subst hcp hn
          have c1 : ¬ ((b0 - 0xE0) * 4096 + (b1 - 0x80) * 64 + (b2 - 0x80) < 0x80) := by omega
          have c2 : ¬ ((b0 - 0xE0) * 4096 + (b1 - 0x80) * 64 + (b2 - 0x80) < 0x800) := by omega
          have c3 : (b0 - 0xE0) * 4096 + (b1 - 0x80) * 64 + (b2 - 0x80) < 0x10000 := by omega
          have c4 : ¬ (0xD800 ≤ (b0 - 0xE0) * 4096 + (b1 - 0x80) * 64 + (b2 - 0x80)
              ∧ (b0 - 0xE0) * 4096 + (b1 - 0x80) * 64 + (b2 - 0x80) ≤ 0xDFFF) := by omega
          have e1 : 0xE0 + ((b0 - 0xE0) * 4096 + (b1 - 0x80) * 64 + (b2 - 0x80)) / 4096 = b0 := by omega
          have e2 : 0x80 + ((b0 - 0xE0) * 4096 + (b1 - 0x80) * 64 + (b2 - 0x80)) / 64 % 64 = b1 := by omega
          have e3 : 0x80 + ((b0 - 0xE0) * 4096 + (b1 - 0x80) * 64 + (b2 - 0x80)) % 64 = b2 := by omega
          simp only [utf8Enc, c1, c2, c3, c4, if_true, if_false, e1, e2, e3, List.take_succ_cons, List.take_zero]
        · match r2, h with
          | [], h => cases h
          | b3 :: r3, h =>
            simp only at h
            split at h
            · rename_i hc
              obtain ⟨h1, h2, h3, h4, h5, h6, h7⟩ := hc
              simp only [isCont, decide_eq_true_eq] at h3 h4 h5
              simp only [Option.some.injEq, Prod.mk.injEq] at h
              obtain ⟨hcp, hn⟩ := h
              subst hcp hn
              have c1 : ¬ ((b0 - 0xF0) * 262144 + (b1 - 0x80) * 4096 + (b2 - 0x80) * 64 + (b3 - 0x80) < 0x80) := by omega
              have c2 : ¬ ((b0 - 0xF0) * 262144 + (b1 - 0x80) * 4096 + (b2 - 0x80) * 64 + (b3 - 0x80) < 0x800) := by omega
              have c3 : ¬ ((b0 - 0xF0) * 262144 + (b1 - 0x80) * 4096 + (b2 - 0x80) * 64 + (b3 - 0x80) < 0x10000) := by omega
              have c4 : (b0 - 0xF0) * 262144 + (b1 - 0x80) * 4096 + (b2 - 0x80) * 64 + (b3 - 0x80) < 0x110000 := by omega
              have e1 : 0xF0 + ((b0 - 0xF0) * 262144 + (b1 - 0x80) * 4096 + (b2 - 0x80) * 64 + (b3 - 0x80)) / 262144 = b0 := by omega
              have e2 : 0x80 + ((b0 - 0xF0) * 262144 + (b1 - 0x80) * 4096 + (b2 - 0x80) * 64 + (b3 - 0x80)) / 4096 % 64 = b1 := by omega
              have e3 : 0x80 + ((b0 - 0xF0) * 262144 + (b1 - 0x80) * 4096 + (b2 - 0x80) * 64 + (b3 - 0x80)) / 64 % 64 = b2 := by omega
              have e4 : 0x80 + ((b0 - 0xF0) * 262144 + (b1 - 0x80) * 4096 + (b2 - 0x80) * 64 + (b3 - 0x80)) % 64 = b3 := by omega
              simp only [utf8Enc, c1, c2, c3, c4, if_true, if_false, e1, e2, e3, e4, List.take_succ_cons, List.take_zero]
            · cases h

private theorem utf8Dec_none (b0 : Nat) (r : Bytes) (h : ¬ b0 < 0x80) (hs : utf8Step b0 r = none) :
    utf8Dec (b0 :: r) = (0xDC00 + b0) :: utf8Dec r := by
  rw [utf8Dec]; simp [h, hs]

private theorem utf8Step_le (b0 : Nat) (r : Bytes) (cp n : Nat) (h : utf8Step b0 r = some (cp, n)) : n ≤ r.length := by
  have := utf8Step_enc b0 r cp n h
  unfold utf8Step at h
  match r, h with
  | [], h => cases h
  | b1 :: r1, h =>
    simp only at h
    split at h
    · simp only [Option.some.injEq, Prod.mk.injEq] at h; rw [← h.2]; simp
    · match r1, h with
      | [], h => cases h
      | b2 :: r2, h =>
        simp only at h
        split at h
        · simp only [Option.some.injEq, Prod.mk.injEq] at h; rw [← h.2]; simp
        · match r2, h with
          | [], h => cases h
          | b3 :: r3, h =>
            simp only at h
            split at h
            · simp only [Option.some.injEq, Prod.mk.injEq] at h; rw [← h.2]; simp
            · cases h

/-- what `utf8Dec` returns consists of encodable characters and escaped raw bytes, and stands for the input -/
private theorem utf8Dec_raw (b : Bytes) (hb : ∀ y ∈ b, y < 256) :
    (∀ x ∈ utf8Dec b, (utf8Enc x).isSome ∨ isEscSurrogate x = true) ∧ rawBytes utf8Codec (utf8Dec b) = b := by
  induction hn : b.length using Nat.strongRecOn generalizing b with
  | _ n ih =>
    match b with
    | [] => simp [utf8Dec_nil, rawBytes]
    | b0 :: r =>
      have hr : ∀ y ∈ r, y < 256 := fun y hy => hb y (by simp [hy])
      have h0 : b0 < 256 := hb b0 (by simp)
      by_cases ha : b0 < 0x80
      · rw [utf8Dec_ascii b0 r ha]
        have := ih r.length (by simp at hn; omega) r hr rfl
        refine ⟨?_, ?_⟩
        · intro x hx
          simp only [List.mem_cons] at hx
          rcases hx with hx | hx
          · left; rw [hx]; simp [utf8Enc, ha]
          · exact this.1 x hx
        · have e : rawBytes utf8Codec (b0 :: utf8Dec r) = [b0] ++ rawBytes utf8Codec (utf8Dec r) := by
            simp [rawBytes, List.flatMap_cons, utf8Codec, utf8Enc, ha]
          rw [e, this.2]; rfl
      · cases hs : utf8Step b0 r with
        | some p =>
          obtain ⟨cp, k⟩ := p
          rw [utf8Dec_step b0 r cp k ha hs]
          have henc := utf8Step_enc b0 r cp k hs
          have hk := utf8Step_le b0 r cp k hs
          have hdrop : ∀ y ∈ r.drop k, y < 256 := fun y hy => hr y (List.mem_of_mem_drop hy)
          have := ih (r.drop k).length (by simp at hn ⊢; omega) (r.drop k) hdrop rfl
          refine ⟨?_, ?_⟩
          · intro x hx
            simp only [List.mem_cons] at hx
            rcases hx with hx | hx
            · left; rw [hx, henc]; rfl
            · exact this.1 x hx
          · have e : rawBytes utf8Codec (cp :: utf8Dec (r.drop k))
                = (b0 :: r.take k) ++ rawBytes utf8Codec (utf8Dec (r.drop k)) := by
              simp [rawBytes, List.flatMap_cons, utf8Codec, henc]
            rw [e, this.2]
            simp [List.take_append_drop]
        | none =>
          rw [utf8Dec_none b0 r ha hs]
          have := ih r.length (by simp at hn; omega) r hr rfl
          have hsur : isEscSurrogate (0xDC00 + b0) = true := by simp [isEscSurrogate]; omega
          have hnone : utf8Enc (0xDC00 + b0) = none := by
            have c1 : ¬ (0xDC00 + b0 < 0x80) := by omega
            have c2 : ¬ (0xDC00 + b0 < 0x800) := by omega
            have c3 : 0xDC00 + b0 < 0x10000 := by omega
            have c4 : 0xD800 ≤ 0xDC00 + b0 ∧ 0xDC00 + b0 ≤ 0xDFFF := by omega
            simp only [utf8Enc, c1, c2, c3, c4, if_true, if_false, and_self]
          refine ⟨?_, ?_⟩
          · intro x hx
            simp only [List.mem_cons] at hx
            rcases hx with hx | hx
            · right; rw [hx]; exact hsur
            · exact this.1 x hx
          · have e : rawBytes utf8Codec ((0xDC00 + b0) :: utf8Dec r) = [b0] ++ rawBytes utf8Codec (utf8Dec r) := by
              simp [rawBytes, List.flatMap_cons, utf8Codec, hnone]
            rw [e, this.2]; rfl

/-- PEP 383 through ezdxf's handler: any byte string read as UTF-8 with errors="surrogateescape" is written
    back unchanged (binary data in XRECORDs survives load -> save), for both handler formats -/
theorem utf8_bytes_roundtrip (f : Fmt) (hf : Delegates f) (b : Bytes) (hb : ∀ y ∈ b, y < 256) :
    encode utf8Codec f (utf8Codec.dec b) = .ok b := by
  have h := utf8Dec_raw b hb
  have := encode_surrogate_passthrough utf8Codec f hf (utf8Dec b) h.1
  rw [h.2] at this
  exact this

/-! ## non-vacuity: concrete values meet the hypotheses and the statements compute -/

-- "x€ä" under cp1251 with the fixed handler: € = 0x88 is encodable, ä is escaped, and decoded again
#guard encode (sbcsCodec cp1251Table) fixedFmt [120, 0x20AC, 0xE4] == .ok [120, 0x88, 92, 85, 43, 48, 48, 69, 52]
#guard decodeDxfUnicode ((sbcsCodec cp1251Table).dec [120, 0x88, 92, 85, 43, 48, 48, 69, 52]) == [120, 0x20AC, 0xE4]
#guard recoverStr ((sbcsCodec cp1251Table).dec [120, 0x88, 92, 85, 43, 48, 48, 69, 52]) == .text [120, 0x20AC, 0xE4]
-- the same string under the pre-fix handler is not recovered
#guard encode (sbcsCodec cp1251Table) legacyFmt [120, 0x20AC, 0xE4] == .ok [120, 0x88, 92, 120, 101, 52]
#guard decodeDxfUnicode ((sbcsCodec cp1251Table).dec [120, 0x88, 92, 120, 101, 52]) != [120, 0x20AC, 0xE4]
-- the hypotheses of `escape_roundtrip` are met by a non-trivial string (BMP, no U+DC80..DCFF, no literal escape;
-- the text `\U+` itself may occur: since fix 3fc8e70de only a full `\U+XXXX` is converted)
example : hasDxfUnicode [92, 85, 43, 120, 0x20AC, 0xE4, 43, 92, 85, 43, 50, 48, 97] = false := by decide
#guard decodeDxfUnicode (asciiCodec.dec ((encode asciiCodec fixedFmt [92, 85, 43, 120, 0x20AC]).toOption.getD [])) == [92, 85, 43, 120, 0x20AC]
example : ∀ x ∈ [92, 85, 120, 0x20AC, 0xE4, 43], x ≤ 0xFFFF ∧ isEscSurrogate x = false := by decide
-- and they are needed: a literal `\U+0041` is decoded to "A" (so it cannot round-trip)
#guard decodeDxfUnicode [92, 85, 43, 48, 48, 52, 49] == [65]
example : hasDxfUnicode [92, 85, 43, 48, 48, 52, 49] = true := by decide
-- U+DC80..DCFF is passed through as a raw byte (surrogateescape), not escaped
#guard encode asciiCodec fixedFmt [0xDC80] == .ok [0x80]
-- UTF-8: model encoder/decoder on a 1-, 2-, 3- and 4-byte character; a lone surrogate is escaped
#guard encode utf8Codec fixedFmt [65, 0xE4, 0x20AC, 0x1F600] == .ok [65, 0xC3, 0xA4, 0xE2, 0x82, 0xAC, 0xF0, 0x9F, 0x98, 0x80]
#guard utf8Dec [65, 0xC3, 0xA4, 0xE2, 0x82, 0xAC, 0xF0, 0x9F, 0x98, 0x80, 0xC0, 0x80] == [65, 0xE4, 0x20AC, 0x1F600, 0xDCC0, 0xDC80]
#guard encode utf8Codec fixedFmt [0xD800] == .ok [92, 85, 43, 68, 56, 48, 48]
-- raw bytes: an undecodable byte sequence read as UTF-8 is written back unchanged
#guard utf8Dec [0x41, 0xFF, 0xC3, 0xA4, 0xC0, 0x80] == [0x41, 0xDCFF, 0xE4, 0xDCC0, 0xDC80]
#guard encode utf8Codec legacyFmt [0x41, 0xDCFF, 0xE4, 0xDCC0, 0xDC80] == .ok [0x41, 0xFF, 0xC3, 0xA4, 0xC0, 0x80]
-- `Lawful` is inhabited for a real code page table
example : Lawful (sbcsCodec cp1252Table) (fun x => x ∈ cp1252Table ∧ x ≠ undef) :=
  sbcs_lawful cp1252Table (by decide +kernel)
-- the name tables are not empty
example : toencoding codepageToEncoding [65, 78, 83, 73, 95, 57, 51, 54] = [103, 98, 107] := by decide
example : tocodepage encodingToCodepage [103, 98, 107] = [65, 78, 83, 73, 95, 57, 51, 54] := by decide

end EzdxfVerif.Props.C09

/-
C07  Recover mode survives any single corruption or truncation  (DESIGN.md section 7, C07).
Theorems over the executable model `EzdxfVerif.Recover` (Model/Recover.lean) of the front end of
`ezdxf.recover.read()`: bytes → lines → tags → repair filters → compiled tags → sections → section dict.
-/
import EzdxfVerif.Model.Recover
namespace EzdxfVerif.Props.C07
open EzdxfVerif.Recover EzdxfVerif.Gen.RecoverTables

/-! ## 1. Totality: the patched front end returns or raises DXFStructureError, for every byte string -/

private theorem bytesLoader_err (ls : List Bytes) :
    (bytesLoader ls).err = none ∨ (bytesLoader ls).err = some .dxfStructureError := by
  fun_induction bytesLoader ls <;> simp_all
  all_goals (simp +zetaDelta only []; split <;> simp_all)

private theorem decodeDetect_fixed (v : Bytes) : ∃ s, decodeDetect .fixed v = .ok s := by
  unfold decodeDetect
  split
  · exact ⟨_, rfl⟩
  · simp [Cfg.fixed]

private theorem detectUpd_fixed (enc : Option Nat) (ver : Option Str) (next : Nat) (t : RawTag) :
    ∃ r, detectUpd .fixed enc ver next t = .ok r := by
  unfold detectUpd
  split
  · exact ⟨_, rfl⟩
  · split
    · obtain ⟨s, hs⟩ := decodeDetect_fixed t.val
      rw [hs]; exact ⟨_, rfl⟩
    · split
      · obtain ⟨s, hs⟩ := decodeDetect_fixed t.val
        rw [hs]; exact ⟨_, rfl⟩
      · exact ⟨_, rfl⟩

private theorem detectGo_fixed (term : Option PyErr) (tags : List RawTag) :
    ∀ (enc : Option Nat) (ver : Option Str) (next : Nat) (e : PyErr),
      detectGo .fixed term enc ver next tags = .error e → term = some e := by
  induction tags with
  | nil =>
    intro enc ver next e h
    unfold detectGo at h
    split at h <;> simp_all
  | cons t r ih =>
    intro enc ver next e h
    unfold detectGo at h
    obtain ⟨⟨enc', ver', next'⟩, hu⟩ := detectUpd_fixed enc ver next t
    rw [hu] at h
    simp only at h
    split at h
    · simp at h
    · exact ih _ _ _ _ h

private theorem decodePart_fixed (part : Str) : decodePart .fixed part = .ok part := by
  unfold decodePart
  split <;> simp [Cfg.fixed]

private theorem uScan_fixed (s : Str) : ∀ (skip : Nat) (acc : Str), ∃ r, uScan .fixed skip acc s = .ok r := by
  induction s with
  | nil => intro skip acc; unfold uScan; exact ⟨_, decodePart_fixed _⟩
  | cons c r ih =>
    intro skip acc
    cases skip with
    | succ k => unfold uScan; exact ih k acc
    | zero =>
      unfold uScan
      split
      · rw [decodePart_fixed]
        obtain ⟨rest, hr⟩ := ih 6 []
        simp only [hr]
        exact ⟨_, rfl⟩
      · exact ih 0 (c :: acc)

private theorem compileStr_fixed (enc : Enc) (code : Int) (v : Bytes) : ∃ s, compileStr .fixed enc code v = .ok s := by
  unfold compileStr
  simp only
  generalize decodeEsc enc _ = s
  split
  · exact uScan_fixed s 0 []
  · exact ⟨_, rfl⟩

private theorem compileSingle_fixed (enc : Enc) (x : RawTag) (e : PyErr) :
    compileSingle .fixed enc x = .error e → e = .dxfStructureError := by
  unfold compileSingle errorMsg
  intro h
  obtain ⟨s, hs⟩ := compileStr_fixed enc x.code x.val
  rw [hs] at h
  simp only [Cfg.fixed, Bool.true_or, if_true] at h
  split at h
  · split at h <;> simp_all
  · split at h
    · split at h <;> simp_all
    · split at h
      · split at h <;> simp_all
      · simp [Except.map] at h

private theorem compileStart_fixed (enc : Enc) (t : RawTag) (e : PyErr) :
    compileStart .fixed enc t = .error e → e = .dxfStructureError := by
  unfold compileStart
  intro h
  split at h
  · simp at h
  · split at h
    · next e' he => simp at h; subst h; exact compileSingle_fixed enc t _ he
    · simp at h

private theorem compileStep_fixed (enc : Enc) (st : CP) (t : RawTag) (e : PyErr) :
    compileStep .fixed enc st t = .error e → e = .dxfStructureError := by
  unfold compileStep
  intro h
  split at h
  · exact compileStart_fixed enc t e h
  · split at h <;> simp_all
  · split at h
    · split at h <;> simp_all
    · split at h
      · split at h
        · next e' he => simp at h; subst h; exact compileStart_fixed enc t _ he
        · simp at h
      · simp_all

private theorem compileGo_fixed (enc : Enc) (tags : List RawTag) :
    ∀ (st : CP) (e : PyErr), compileGo .fixed enc st tags = .error e → e = .dxfStructureError := by
  induction tags with
  | nil => intro st e h; simp [compileGo] at h
  | cons t r ih =>
    intro st e h
    unfold compileGo at h
    split at h
    · next e' he => simp at h; subst h; exact compileStep_fixed enc st t _ he
    · split at h
      · next e' he => simp at h; subst h; exact ih _ _ he
      · simp at h

private theorem collectStep_fixed (d : RawDict) (sec : List CTag) : ∃ r, collectStep .fixed d sec = .ok r := by
  unfold collectStep
  split
  · split
    · split <;> exact ⟨_, rfl⟩
    · exact ⟨_, rfl⟩
  · exact ⟨d, by simp [Cfg.fixed]⟩

private theorem collectSections_fixed (secs : List (List CTag)) :
    ∀ d : RawDict, ∃ r, collectSections .fixed d secs = .ok r := by
  induction secs with
  | nil => intro d; exact ⟨d, rfl⟩
  | cons s r ih =>
    intro d
    obtain ⟨d', hd⟩ := collectStep_fixed d s
    simp only [collectSections, hd]
    exact ih d'

private theorem loadSectionDict_fixed (secs : List (List CTag)) : ∃ r, loadSectionDict .fixed secs = .ok r := by
  unfold loadSectionDict
  obtain ⟨r, hr⟩ := collectSections_fixed (splitOrphans secs).1 []
  rw [hr]
  exact ⟨_, rfl⟩

private theorem checkEntity_err (r12 : Bool) (g : List CTag) (e : PyErr) :
    checkEntity r12 g = .error e → e = .dxfStructureError := by
  unfold checkEntity
  intro h
  split at h
  · simp at h
  · split at h <;> simp_all

private theorem checkEntities_err (r12 : Bool) (gs : List (List CTag)) (e : PyErr) :
    checkEntities r12 gs = .error e → e = .dxfStructureError := by
  induction gs with
  | nil => intro h; simp [checkEntities] at h
  | cons g r ih =>
    intro h
    unfold checkEntities at h
    split at h
    · next x hx => simp at h; subst h; exact checkEntity_err r12 g _ hx
    · split at h
      · next x hx => simp at h; subst h; exact ih hx
      · simp at h

private theorem checkAll_err (r12 : Bool) (d : SectionDict) (e : PyErr) :
    checkAll r12 d = .error e → e = .dxfStructureError := by
  induction d with
  | nil => intro h; simp [checkAll] at h
  | cons p r ih =>
    obtain ⟨n, gs⟩ := p
    intro h
    unfold checkAll at h
    split at h
    · split at h
      · next x hx => simp at h; subst h; exact checkEntities_err r12 gs _ hx
      · split at h
        · next x hx => simp at h; subst h; exact ih hx
        · simp at h
    · split at h
      · next x hx => simp at h; subst h; exact ih hx
      · simp at h

/-- tag level, patched configuration -/
private theorem frontTags_total_fixed (tags : List CTag) :
    (∃ d, frontTags .fixed tags = .ok d) ∨ frontTags .fixed tags = .error .dxfStructureError := by
  unfold frontTags
  obtain ⟨⟨ver, d⟩, hr⟩ := loadSectionDict_fixed (rebuildSections tags)
  rw [hr]
  simp only
  generalize hc : checkAll _ _ = c
  cases c with
  | ok d' => exact Or.inl ⟨d', rfl⟩
  | error e => rw [checkAll_err _ _ _ hc]; exact Or.inr rfl

private theorem front_total_fixed (bytes : Bytes) :
    (∃ d, recoverFront .fixed bytes = .ok d) ∨ recoverFront .fixed bytes = .error .dxfStructureError := by
  unfold recoverFront loadTags
  simp only
  generalize hs : bytesLoader (splitLines bytes) = s
  have herr := bytesLoader_err (splitLines bytes)
  rw [hs] at herr
  generalize hd : detectEncoding .fixed s = de
  cases de with
  | error e =>
    have := detectGo_fixed s.err s.tags none none 0 e (by simpa [detectEncoding] using hd)
    rcases herr with h | h <;> simp_all
  | ok enc =>
    simp only
    generalize hc : compile .fixed enc (repairTags s) = c
    cases c with
    | error e =>
      have := compileGo_fixed enc (repairTags s) .none e (by simpa [compile] using hc)
      simp [this]
    | ok tags =>
      simp only
      rcases herr with h | h
      · rw [h]; exact frontTags_total_fixed tags
      · rw [h]; exact Or.inr rfl

/-- the tree under test has all four fixes: `Cfg.tree` is built from the flags that `regenerate` probes from the
    CURRENT source (Gen/RecoverTables.lean).  Reverting any of the fix commits turns a flag to `false`, this
    theorem fails, and with it every theorem below that speaks about the current code. -/
theorem tree_has_all_fixes : Cfg.tree = Cfg.fixed := by decide

/-- tag level: whatever the compiled tags are, `Recover.run` of the current tree (after load_tags) returns a section
    dict or raises DXFStructureError -/
theorem frontTags_total (tags : List CTag) :
    (∃ d, frontTags .tree tags = .ok d) ∨ frontTags .tree tags = .error .dxfStructureError := by
  rw [tree_has_all_fixes]; exact frontTags_total_fixed tags

/-- byte level, tier-1 theorem of DESIGN C07, about the CURRENT source: for EVERY byte string (hence for every single
    or multiple fault of every file) the front end returns a section dict or raises DXFStructureError; no other
    exception constructor of the model is reachable.  All functions involved recurse structurally on their input list
    (no fuel), so the modelled layer cannot hang. -/
theorem front_total (bytes : Bytes) :
    (∃ d, recoverFront .tree bytes = .ok d) ∨ recoverFront .tree bytes = .error .dxfStructureError := by
  rw [tree_has_all_fixes]; exact front_total_fixed bytes

/-! ## 2. The four defects fixed by 8e9a904c3, ebbd13340, c6ed255c5, 3fc8e70de, as counterexamples of totality

Each witness is a complete (tiny) DXF byte stream.  With all four fixes the front end answers with
DXFStructureError or a section dict (`front_total`); switching a single fix off re-opens exactly one hole. -/

/-- `0 SECTION 0 ENDSEC 0 EOF`: a section that consists of the single tag (0, SECTION) -/
def witnessSection : Bytes := [48, 10, 83, 69, 67, 84, 73, 79, 78, 10, 48, 10, 69, 78, 68, 83, 69, 67, 10, 48, 10, 69, 79, 70, 10]
/-- `70 <81> 0 EOF`: an integer tag whose value is not decodable (cp1252 has no character 0x81) -/
def witnessErrMsg : Bytes := [55, 48, 10, 129, 10, 48, 10, 69, 79, 70, 10]
/-- `9 $DWGCODEPAGE 3 <81> 0 EOF` -/
def witnessDetect : Bytes := [57, 10, 36, 68, 87, 71, 67, 79, 68, 69, 80, 65, 71, 69, 10, 51, 10, 129, 10, 48, 10, 69, 79, 70, 10]
/-- `1 \U+\U+0041 0 EOF`: the part `\U+` in front of a valid `\U+0041` is handed to int("", 16) -/
def witnessUnicode : Bytes := [49, 10, 92, 85, 43, 92, 85, 43, 48, 48, 52, 49, 10, 48, 10, 69, 79, 70, 10]
/-- `1 \U+abcdef12\U+0041 0 EOF`: chr(0xabcdef12) -/
def witnessUnicodeOverflow : Bytes :=
  [49, 10, 92, 85, 43, 97, 98, 99, 100, 101, 102, 49, 50, 92, 85, 43, 48, 48, 52, 49, 10, 48, 10, 69, 79, 70, 10]

/-- F8: `load_section_dict` does `section[1]` (IndexError) on the unchanged tree -/
theorem unfixed_counterexample_section : recoverFront .unfixed witnessSection = .error .indexError := by rfl
/-- `error_msg()` decodes strictly while building the message of a DXFStructureError -/
theorem unfixed_counterexample_errmsg : recoverFront .unfixed witnessErrMsg = .error .unicodeDecodeError := by rfl
/-- `detect_encoding()` decodes the $DWGCODEPAGE / $ACADVER value strictly -/
theorem unfixed_counterexample_detect : recoverFront .unfixed witnessDetect = .error .unicodeDecodeError := by rfl
/-- `decode_dxf_unicode()` converts every part that merely starts with `\U+` -/
theorem unfixed_counterexample_unicode : recoverFront .unfixed witnessUnicode = .error .valueError := by rfl
theorem unfixed_counterexample_unicode_overflow :
    recoverFront .unfixed witnessUnicodeOverflow = .error .overflowError := by rfl

/-- each patch is necessary: with the other three applied the hole of the fourth is still open -/
theorem each_patch_needed :
    recoverFront { Cfg.fixed with fixSection := false } witnessSection = .error .indexError ∧
    recoverFront { Cfg.fixed with fixErrMsg := false } witnessErrMsg = .error .unicodeDecodeError ∧
    recoverFront { Cfg.fixed with fixDetect := false } witnessDetect = .error .unicodeDecodeError ∧
    recoverFront { Cfg.fixed with fixUnicode := false } witnessUnicode = .error .valueError := by
  refine ⟨?_, ?_, ?_, ?_⟩ <;> rfl

/-- and the patched front end handles the same inputs: a dict with a HEADER only (the orphaned header variable is
    rescued; the undecodable `\U+` part is kept as text), or DXFStructureError -/
theorem fixed_on_witnesses :
    recoverFront .tree witnessSection = .ok [(sHeader, [secHead sHeader])] ∧
    recoverFront .tree witnessErrMsg = .error .dxfStructureError ∧
    recoverFront .tree witnessDetect =
      .ok [(sHeader, [secHead sHeader ++ [⟨9, .str sVDwgcodepage⟩, ⟨3, .str [0xDC81]⟩]])] ∧
    recoverFront .tree witnessUnicode = .ok [(sHeader, [secHead sHeader])] ∧
    recoverFront .tree witnessUnicodeOverflow = .ok [(sHeader, [secHead sHeader])] := by
  refine ⟨?_, ?_, ?_, ?_, ?_⟩ <;> rfl

/-! ## 3. The crashed writer: a completely written ENTITIES section survives whatever follows it -/

def tSection : CTag := ⟨0, .str sSection⟩
def tEndsec : CTag := ⟨0, .str sEndsec⟩
/-- the section name tag (2, "ENTITIES") -/
def tEntName : CTag := ⟨2, .str sEntities⟩

/-- the tags `rebuild_sections` reacts to: (0, SECTION), (0, ENDSEC), (0, EOF) -/
def isStruct (t : CTag) : Bool :=
  t.code == 0 && (t.val == .str sSection || t.val == .str sEndsec || t.val == .str sEof)

/-- no (2, "ENTITIES") tag -/
def NoEnt (l : List CTag) : Prop := ∀ x ∈ l, x ≠ tEntName

/-- the ENTITIES entry of a section dict -/
def entitiesOf (d : SectionDict) : Option (List (List CTag)) := (d.find? (fun e => e.1 == sEntities)).map (·.2)

private def entRaw (d : RawDict) : Option (List CTag) := (d.find? (fun e => e.1 == sEntities)).map (·.2)

private theorem step_nonstruct (s : RS) (t : CTag) (h : isStruct t = false) : s.step t = s.collect t := by
  unfold RS.step
  unfold isStruct at h
  by_cases hc : (t.code == 0) = true
  · simp only [hc, Bool.true_and, Bool.or_eq_false_iff] at h
    simp [hc, h.1.1, h.1.2, h.2]
  · simp [hc]

private theorem fold_inside (body : List CTag) (hb : ∀ x ∈ body, isStruct x = false) :
    ∀ s : RS, s.inside = true → body.foldl RS.step s = { s with collector := body.reverse ++ s.collector } := by
  induction body with
  | nil => intro s _; simp
  | cons t r ih =>
    intro s hs
    have ht := hb t (by simp)
    rw [List.foldl_cons, step_nonstruct s t ht]
    have : s.collect t = { s with collector := t :: s.collector } := by simp [RS.collect, hs]
    rw [this, ih (fun x hx => hb x (by simp [hx])) { s with collector := t :: s.collector } (by simpa using hs)]
    simp

/-- invariant of `rebuild_sections`: outside a section the collector is empty -/
private def Inv (s : RS) : Prop := s.inside = false → s.collector = []

private theorem step_inv (s : RS) (t : CTag) (h : Inv s) : Inv (s.step t) := by
  unfold RS.step RS.close RS.collect Inv at *
  repeat' split
  all_goals simp_all

private theorem fold_inv (l : List CTag) : ∀ s : RS, Inv s → Inv (l.foldl RS.step s) := by
  induction l with
  | nil => intro s h; exact h
  | cons t r ih => intro s h; exact ih _ (step_inv s t h)

private theorem noEnt_cons {x : CTag} {l : List CTag} (hx : x ≠ tEntName) (hl : NoEnt l) : NoEnt (x :: l) := by
  intro y hy
  rcases List.mem_cons.1 hy with h | h
  · exact h ▸ hx
  · exact hl y h

private theorem noEnt_reverse {l : List CTag} (hl : NoEnt l) : NoEnt l.reverse :=
  fun y hy => hl y (List.mem_reverse.1 hy)

/-- one step over a tag that is not (2, ENTITIES): sections only grow, by sections without that tag -/
private theorem step_grow (s : RS) (t : CTag) (ht : t ≠ tEntName) (hc : NoEnt s.collector) (ho : NoEnt s.orphans) :
    ∃ more, (s.step t).sections = more ++ s.sections ∧ (∀ sec ∈ more, NoEnt sec) ∧
      NoEnt (s.step t).collector ∧ NoEnt (s.step t).orphans := by
  have hnil : NoEnt ([] : List CTag) := fun _ h => by simp at h
  have hrev := noEnt_reverse hc
  have hcons := noEnt_cons ht hc
  have hcons' := noEnt_cons ht ho
  have h1 : NoEnt [t] := noEnt_cons ht hnil
  cases hi : s.inside
  · unfold RS.step RS.close RS.collect
    simp only [hi]
    repeat' split
    all_goals refine ⟨[], ?_, ?_, ?_, ?_⟩
    all_goals first
      | (simp; done)
      | (simpa using hcons) | (simpa using hcons') | (simpa using hnil) | (simpa using h1)
      | (simpa using hc) | (simpa using ho) | contradiction
  · unfold RS.step RS.close RS.collect
    simp only [hi]
    repeat' split
    all_goals first
      | (refine ⟨[s.collector.reverse], ?_, ?_, ?_, ?_⟩
         all_goals first
           | (simp; done)
           | (simpa using hrev) | (simpa using hnil) | (simpa using h1) | (simpa using ho) | contradiction)
      | (refine ⟨[], ?_, ?_, ?_, ?_⟩
         all_goals first
           | (simp; done)
           | (simpa using hcons) | (simpa using hcons') | (simpa using hnil) | (simpa using h1)
           | (simpa using hc) | (simpa using ho) | contradiction | (simp_all; done))

private theorem fold_grow (l : List CTag) (hl : NoEnt l) :
    ∀ s : RS, NoEnt s.collector → NoEnt s.orphans →
      ∃ more, (l.foldl RS.step s).sections = more ++ s.sections ∧ (∀ sec ∈ more, NoEnt sec) ∧
        NoEnt (l.foldl RS.step s).collector ∧ NoEnt (l.foldl RS.step s).orphans := by
  induction l with
  | nil => intro s hc ho; exact ⟨[], by simp, by simp, hc, ho⟩
  | cons t r ih =>
    intro s hc ho
    obtain ⟨m1, h1, h2, h3, h4⟩ := step_grow s t (hl t (by simp)) hc ho
    obtain ⟨m2, g1, g2, g3, g4⟩ := ih (fun x hx => hl x (by simp [hx])) (s.step t) h3 h4
    refine ⟨m2 ++ m1, ?_, ?_, g3, g4⟩
    · rw [List.foldl_cons, g1, h1]; simp
    · intro sec hs
      rcases List.mem_append.1 hs with h | h
      · exact g2 sec h
      · exact h2 sec h

/-- `rebuild_sections` on a stream that contains a complete SECTION / (2, ENTITIES) / body / ENDSEC:
    the section list is  before ++ [that section] ++ after ++ [orphans], and no other section (nor the orphans)
    holds a (2, ENTITIES) tag if the rest of the stream has none.  `body` may contain anything but the three
    structure tags. -/
theorem rebuild_sections_complete_section (a body t : List CTag)
    (ha : NoEnt a) (ht : NoEnt t) (hb : ∀ x ∈ body, isStruct x = false) :
    ∃ before after orph,
      rebuildSections (a ++ tSection :: tEntName :: body ++ tEndsec :: t)
        = before ++ (tSection :: tEntName :: body) :: after ++ [orph] ∧
      (∀ sec ∈ before, NoEnt sec) ∧ (∀ sec ∈ after, NoEnt sec) ∧ NoEnt orph := by
  have hnil : NoEnt ([] : List CTag) := fun _ h => by simp at h
  obtain ⟨ma, a1, a2, a3, a4⟩ := fold_grow a ha RS.init hnil hnil
  have ainv := fold_inv a RS.init (by intro _; rfl)
  generalize hsa : a.foldl RS.step RS.init = sa at a1 a2 a3 a4 ainv
  replace a1 : sa.sections = ma := by simpa [RS.init] using a1
  -- the state after (0, SECTION)
  let s1 : RS := { sections := if sa.inside then sa.collector.reverse :: sa.sections else sa.sections,
                   collector := [tSection], inside := true, orphans := sa.orphans }
  have hs1 : sa.step tSection = s1 := by
    unfold RS.step RS.close
    cases hi : sa.inside
    · have := ainv hi
      simp [tSection, s1, hi, this]
    · simp [tSection, s1, hi]
  -- ... after (2, ENTITIES), the body and (0, ENDSEC)
  have hs2 : (tEntName :: body).foldl RS.step s1 = { s1 with collector := (tEntName :: body).reverse ++ [tSection] } :=
    fold_inside (tEntName :: body)
      (by intro x hx
          rcases List.mem_cons.1 hx with h | h
          · subst h; rfl
          · exact hb x h) s1 rfl
  let s3 : RS := { sections := (tSection :: tEntName :: body) :: s1.sections, collector := [], inside := false,
                   orphans := sa.orphans }
  have hs3 : RS.step { s1 with collector := (tEntName :: body).reverse ++ [tSection] } tEndsec = s3 := by
    simp [RS.step, RS.close, tEndsec, s3, s1, sSection, sEndsec]
  obtain ⟨mt, t1, t2, t3, t4⟩ := fold_grow t ht s3 hnil a4
  have hfold : (a ++ tSection :: tEntName :: body ++ tEndsec :: t).foldl RS.step RS.init = t.foldl RS.step s3 := by
    have : a ++ tSection :: tEntName :: body ++ tEndsec :: t = a ++ (tSection :: ((tEntName :: body) ++ (tEndsec :: t))) := by simp
    rw [this, List.foldl_append, hsa, List.foldl_cons, hs1, List.foldl_append, hs2, List.foldl_cons, hs3]
  have hs1sec : ∀ sec ∈ s1.sections, NoEnt sec := by
    intro sec hsec
    simp only [s1] at hsec
    rw [a1] at hsec
    split at hsec
    · rcases List.mem_cons.1 hsec with h | h
      · exact h ▸ noEnt_reverse a3
      · exact a2 sec h
    · exact a2 sec hsec
  refine ⟨s1.sections.reverse, mt.reverse, (t.foldl RS.step s3).orphans.reverse, ?_, ?_, ?_, noEnt_reverse t4⟩
  · unfold rebuildSections RS.finish
    rw [hfold, t1]
    simp [s3]
  · intro sec hsec; exact hs1sec sec (List.mem_reverse.1 hsec)
  · intro sec hsec; exact t2 sec (List.mem_reverse.1 hsec)

/-! ### from the section list to the ENTITIES entry of the section dict -/

private theorem find_map_keep {α : Type} (p : Str × α → Bool) (f : Str × α → Str × α)
    (hk : ∀ e, p (f e) = p e) (hf : ∀ e, p e = true → f e = e) :
    ∀ d : List (Str × α), (d.map f).find? p = d.find? p := by
  intro d
  induction d with
  | nil => rfl
  | cons e r ih =>
    simp only [List.map_cons, List.find?_cons, hk]
    cases h : p e
    · simpa using ih
    · simp [hf e h]

private theorem find_filter_keep {α : Type} (p q : α → Bool) (h : ∀ e, p e = true → q e = true) :
    ∀ d : List α, (d.filter q).find? p = d.find? p := by
  intro d
  induction d with
  | nil => rfl
  | cons e r ih =>
    simp only [List.filter_cons, List.find?_cons]
    cases hq : q e
    · have : p e = false := by
        cases hp : p e
        · rfl
        · rw [h e hp] at hq; cases hq
      simp [this, ih]
    · simp only [if_true, List.find?_cons]
      cases p e <;> simp [ih]

private theorem find_append_miss {α : Type} (p : α → Bool) (d : List α) (x : α) (h : p x = false) :
    (d ++ [x]).find? p = d.find? p := by
  induction d with
  | nil => simp [h]
  | cons e r ih => simp only [List.cons_append, List.find?_cons]; cases p e <;> simp [ih]

private def isEntR (e : Str × List CTag) : Bool := e.1 == sEntities

private theorem entRaw_addSection_other (d : RawDict) (name : Str) (sec : List CTag)
    (h : (name == sEntities) = false) : entRaw (addSection d name sec) = entRaw d := by
  unfold entRaw addSection
  split
  · congr 1
    apply find_map_keep
    · intro e; split <;> rfl
    · intro e he
      have h1 : (e.1 == name) = false := by
        cases hn : e.1 == name
        · rfl
        · have := eq_of_beq hn; rw [this] at he; rw [he] at h; cases h
      simp [h1]
  · congr 1
    exact find_append_miss _ d (name, sec) (by simpa using h)

private theorem find_append_hit {α : Type} (p : α → Bool) (x : α) (hx : p x = true) :
    ∀ d : List α, d.find? p = none → (d ++ [x]).find? p = some x := by
  intro d
  induction d with
  | nil => intro _; simp [hx]
  | cons e r ih =>
    intro h
    simp only [List.find?_cons] at h
    cases he : p e
    · rw [he] at h; simp only [List.cons_append, List.find?_cons, he]; exact ih h
    · rw [he] at h; simp at h

private theorem entRaw_addSection_new (d : RawDict) (sec : List CTag) (h : entRaw d = none) :
    entRaw (addSection d sEntities sec) = some sec := by
  unfold entRaw at h
  have hnone : d.find? (fun e => e.1 == sEntities) = none := by
    cases hf : d.find? (fun e => e.1 == sEntities) with
    | none => rfl
    | some x => rw [hf] at h; simp at h
  have hany : d.any (fun e => e.1 == sEntities) = false := by
    rw [List.find?_eq_none] at hnone
    rw [List.any_eq_false]
    exact hnone
  unfold entRaw addSection
  rw [hany]
  simp only [Bool.false_eq_true, if_false]
  rw [find_append_hit _ (sEntities, sec) (by simp) d hnone]
  rfl

private theorem collectStep_noEnt (cfg : Cfg) (sec : List CTag) (hs : NoEnt sec) (d r : RawDict)
    (h : collectStep cfg d sec = .ok r) : entRaw r = entRaw d := by
  unfold collectStep at h
  split at h
  · next t0 t1 tl =>
    split at h
    · next name hval =>
      split at h
      · next hcode =>
        have hne : (name == sEntities) = false := by
          cases hn : name == sEntities
          · rfl
          · exfalso
            have hname := eq_of_beq hn
            have hc : t1.code = 2 := by simpa using hcode
            have : t1 = tEntName := by
              cases t1 with
              | mk c v => simp only at hc hval; subst hc; subst hval; rw [hname]; rfl
            exact hs t1 (by simp) this
        simp only [Except.ok.injEq] at h
        rw [← h, entRaw_addSection_other _ _ _ hne]
      · simp only [Except.ok.injEq] at h; rw [h]
    · simp only [Except.ok.injEq] at h; rw [h]
  · split at h
    · simp only [Except.ok.injEq] at h; rw [h]
    · simp at h

private theorem collect_noEnt (cfg : Cfg) (secs : List (List CTag)) (hs : ∀ sec ∈ secs, NoEnt sec) :
    ∀ (d r : RawDict), collectSections cfg d secs = .ok r → entRaw r = entRaw d := by
  induction secs with
  | nil => intro d r h; simp [collectSections] at h; rw [h]
  | cons sec rest ih =>
    intro d r h
    simp only [collectSections] at h
    split at h
    · simp at h
    · next d' hd =>
      rw [ih (fun x hx => hs x (by simp [hx])) _ _ h]
      exact collectStep_noEnt cfg sec (hs sec (by simp)) d d' hd

private theorem collect_append (cfg : Cfg) (xs ys : List (List CTag)) :
    ∀ d : RawDict, collectSections cfg d (xs ++ ys) =
      (match collectSections cfg d xs with
       | .error e => .error e
       | .ok d' => collectSections cfg d' ys) := by
  induction xs with
  | nil => intro d; simp [collectSections]
  | cons sec rest ih =>
    intro d
    simp only [List.cons_append, collectSections]
    cases collectStep cfg d sec with
    | error e => rfl
    | ok d' => exact ih d'

/-- the raw dict built from  before ++ [ENTITIES section] ++ after  has exactly that section under ENTITIES -/
private theorem collect_entities (cfg : Cfg) (before after : List (List CTag)) (body : List CTag)
    (hb : ∀ sec ∈ before, NoEnt sec) (ha : ∀ sec ∈ after, NoEnt sec) (r : RawDict)
    (h : collectSections cfg [] (before ++ (tSection :: tEntName :: body) :: after) = .ok r) :
    entRaw r = some (tSection :: tEntName :: body) := by
  rw [collect_append] at h
  split at h
  · simp at h
  · next d1 h1 =>
    have e1 : entRaw d1 = none := by rw [collect_noEnt cfg before hb _ _ h1]; rfl
    simp only [collectSections, collectStep, tEntName, beq_self_eq_true, if_true] at h
    rw [collect_noEnt cfg after ha _ _ h]
    exact entRaw_addSection_new d1 _ e1

private theorem find_map_snd {α β : Type} (p : Str → Bool) (g : α → β) :
    ∀ d : List (Str × α), ((d.map (fun e => (e.1, g e.2))).find? (fun e => p e.1)).map (·.2)
      = ((d.find? (fun e => p e.1)).map (·.2)).map g := by
  intro d
  induction d with
  | nil => rfl
  | cons e r ih =>
    simp only [List.map_cons, List.find?_cons]
    cases p e.1
    · exact ih
    · rfl

/-- `load_section_dict`, second half: the ENTITIES entry is `group_tags` of the merged raw ENTITIES section -/
private theorem finishDict_entities (r : RawDict) (orphans : List CTag) :
    entitiesOf (finishDict r orphans).2 = (entRaw r).map groupTags := by
  unfold finishDict entitiesOf entRaw
  simp only
  rw [find_map_snd (fun n => n == sEntities) groupTags]
  congr 2
  rw [find_filter_keep _ _ (by intro (e : Str × List CTag) he; have := eq_of_beq he; rw [this]; decide)]
  have hstep2 : ∀ dd : RawDict,
      (dd.map (fun e => if e.1 == sHeader then (e.1, e.2 ++ rescueOrphans none orphans) else e)).find?
        (fun e => e.1 == sEntities) = dd.find? (fun e => e.1 == sEntities) := by
    intro dd
    apply find_map_keep
    · intro e; split <;> rfl
    · intro e he
      have := eq_of_beq he
      have hh : (e.1 == sHeader) = false := by rw [this]; decide
      simp [hh]
  have hstep1 : (if r.any (fun e => e.1 == sHeader) then r else r ++ [(sHeader, secHead sHeader)]).find?
        (fun e => e.1 == sEntities) = r.find? (fun e => e.1 == sEntities) := by
    split
    · rfl
    · exact find_append_miss _ r _ (by decide)
  generalize strLe _ sAc1009 = b
  cases b
  · simp only [Bool.false_eq_true, if_false]; rw [hstep2, hstep1]
  · simp only [if_true]
    rw [find_filter_keep _ _ (by
      intro (e : Str × List CTag) he; have := eq_of_beq he; rw [this]; decide), hstep2, hstep1]

private theorem splitOrphans_concat (xs : List (List CTag)) (o : List CTag) :
    (splitOrphans (xs ++ [o])).1 = xs ∨ (splitOrphans (xs ++ [o])).1 = xs ++ [o] := by
  unfold splitOrphans
  simp only [List.getLast?_append, List.getLast?_singleton, Option.some_or, Option.getD_some,
    List.dropLast_concat]
  split
  · exact Or.inr rfl
  · exact Or.inl rfl

private theorem mapSection_entities (name : Str) (hne : (sEntities == name) = false)
    (f : List (List CTag) → List (List CTag)) (d : SectionDict) : entitiesOf (mapSection name f d) = entitiesOf d := by
  unfold entitiesOf mapSection
  congr 1
  apply find_map_keep
  · intro e; split <;> rfl
  · intro e he
    have := eq_of_beq he
    have hh : (e.1 == name) = false := by rw [this]; exact hne
    simp [hh]

private theorem checkAll_entities (r12 : Bool) :
    ∀ d d' : SectionDict, checkAll r12 d = .ok d' → ∀ gs, entitiesOf d = some gs →
      ∃ gs', entitiesOf d' = some gs' ∧ checkEntities r12 gs = .ok gs' := by
  intro d
  induction d with
  | nil => intro d' _ gs hgs; simp [entitiesOf] at hgs
  | cons p r ih =>
    obtain ⟨n, g⟩ := p
    intro d' h gs hgs
    unfold checkAll at h
    cases hn : n == sEntities
    · -- another section: the ENTITIES entry is in the tail
      have hgs' : entitiesOf r = some gs := by
        simpa [entitiesOf, List.find?_cons, hn] using hgs
      split at h
      · split at h
        · simp at h
        · split at h
          · simp at h
          · next r' hr' =>
            simp only [Except.ok.injEq] at h
            obtain ⟨gs', h1, h2⟩ := ih r' hr' gs hgs'
            refine ⟨gs', ?_, h2⟩
            rw [← h]; simpa [entitiesOf, List.find?_cons, hn] using h1
      · split at h
        · simp at h
        · next r' hr' =>
          simp only [Except.ok.injEq] at h
          obtain ⟨gs', h1, h2⟩ := ih r' hr' gs hgs'
          refine ⟨gs', ?_, h2⟩
          rw [← h]; simpa [entitiesOf, List.find?_cons, hn] using h1
    · have hname := eq_of_beq hn
      subst hname
      have hg : g = gs := by simpa [entitiesOf, List.find?_cons] using hgs
      subst hg
      have hchk : isCheckedSection sEntities = true := by decide
      simp only [hchk, if_true] at h
      split at h
      · simp at h
      · next g' hg' =>
        split at h
        · simp at h
        · simp only [Except.ok.injEq] at h
          exact ⟨g', by rw [← h]; simp [entitiesOf], hg'⟩

/-- **The crashed writer** (tag level).  The compiled tag stream is  a ++ SECTION (2,ENTITIES) body ENDSEC ++ t  where
    `body` holds no SECTION/ENDSEC/EOF tag (it is a completely written ENTITIES section) and there is no other
    (2, "ENTITIES") tag in `a` or `t`.  Then for ANY continuation `t` (nothing, a truncated rest, garbage) for which
    the front end returns a section dict, the ENTITIES entry of that dict is exactly the entity groups of `body`
    (checked by `check_entities`, i.e. unchanged apart from the removal of (100, …) tags in R12 mode). -/
theorem sections_prefix_stable (cfg : Cfg) (a body t : List CTag) (d : SectionDict)
    (ha : NoEnt a) (ht : NoEnt t) (hb : ∀ x ∈ body, isStruct x = false)
    (h : frontTags cfg (a ++ tSection :: tEntName :: body ++ tEndsec :: t) = .ok d) :
    ∃ r12 gs, entitiesOf d = some gs ∧
      checkEntities r12 (groupTags (tSection :: tEntName :: body)) = .ok gs := by
  obtain ⟨before, after, orph, hrs, hbf, haf, horph⟩ := rebuild_sections_complete_section a body t ha ht hb
  unfold frontTags at h
  rw [hrs] at h
  split at h
  · simp at h
  · next version d0 hload =>
    unfold loadSectionDict at hload
    split at hload
    · simp at hload
    · next raw hraw =>
      simp only [Except.ok.injEq] at hload
      have hent : entRaw raw = some (tSection :: tEntName :: body) := by
        have hx : before ++ (tSection :: tEntName :: body) :: after ++ [orph]
            = (before ++ (tSection :: tEntName :: body) :: after) ++ [orph] := by simp
        rw [hx] at hraw
        rcases splitOrphans_concat (before ++ (tSection :: tEntName :: body) :: after) orph with hs | hs
        · rw [hs] at hraw
          exact collect_entities cfg before after body hbf haf raw hraw
        · rw [hs] at hraw
          have hx2 : (before ++ (tSection :: tEntName :: body) :: after) ++ [orph]
              = before ++ (tSection :: tEntName :: body) :: (after ++ [orph]) := by simp
          rw [hx2] at hraw
          refine collect_entities cfg before (after ++ [orph]) body hbf ?_ raw hraw
          intro sec hsec
          rcases List.mem_append.1 hsec with h1 | h1
          · exact haf sec h1
          · simp only [List.mem_singleton] at h1; rw [h1]; exact horph
      have hd0 : entitiesOf d0 = some (groupTags (tSection :: tEntName :: body)) := by
        have : d0 = (finishDict raw (splitOrphans (before ++ (tSection :: tEntName :: body) :: after ++ [orph])).2).2 := by
          rw [hload]
        rw [this, finishDict_entities, hent]; rfl
      simp only at h
      refine ⟨strLe version sAc1009, ?_⟩
      apply checkAll_entities _ _ _ h
      split
      · rw [mapSection_entities sTables (by decide), hd0]
      · rw [mapSection_entities sObjects (by decide), mapSection_entities sTables (by decide), hd0]

/-- the same for a file cut anywhere behind the ENTITIES section: `pre ++ suf.take k` for every k -/
theorem entities_survive_truncation (cfg : Cfg) (a body suf : List CTag) (k : Nat) (d : SectionDict)
    (ha : NoEnt a) (hs : NoEnt suf) (hb : ∀ x ∈ body, isStruct x = false)
    (h : frontTags cfg (a ++ tSection :: tEntName :: body ++ tEndsec :: suf.take k) = .ok d) :
    ∃ r12 gs, entitiesOf d = some gs ∧
      checkEntities r12 (groupTags (tSection :: tEntName :: body)) = .ok gs :=
  sections_prefix_stable cfg a body (suf.take k) d ha (fun x hx => hs x (List.mem_of_mem_take hx)) hb h

/-! ### entity types and count -/

/-- a group produced by `group_tags` starts with its split tag (code 0) -/
private def HeadZero (g : List CTag) : Prop := ∃ h tl, g = h :: tl ∧ h.code = 0

private theorem groupGo_cons (cur : Option (List CTag)) (t : CTag) (r : List CTag) :
    groupGo cur (t :: r) =
      if t.code == 0 then (match cur with | some g => [g.reverse] | none => []) ++ groupGo (some [t]) r
      else groupGo (cur.map (t :: ·)) r := by
  cases cur <;> rfl

private theorem groupGo_heads (ts : List CTag) :
    ∀ cur : Option (List CTag), (∀ g, cur = some g → HeadZero g.reverse) →
      ∀ grp ∈ groupGo cur ts, HeadZero grp := by
  induction ts with
  | nil =>
    intro cur hcur grp hg
    cases cur with
    | none => simp [groupGo] at hg
    | some g => simp only [groupGo, List.mem_singleton] at hg; rw [hg]; exact hcur g rfl
  | cons t r ih =>
    intro cur hcur grp hg
    rw [groupGo_cons] at hg
    split at hg
    · next h0 =>
      rcases List.mem_append.1 hg with h | h
      · cases cur with
        | none => simp at h
        | some g => simp only [List.mem_singleton] at h; rw [h]; exact hcur g rfl
      · refine ih (some [t]) ?_ grp h
        intro g hgs
        simp only [Option.some.injEq] at hgs
        rw [← hgs]
        exact ⟨t, [], rfl, by simpa using h0⟩
    · refine ih (cur.map (t :: ·)) ?_ grp hg
      intro g hgs
      cases cur with
      | none => simp at hgs
      | some g0 =>
        simp only [Option.map_some, Option.some.injEq] at hgs
        obtain ⟨h, tl, e1, e2⟩ := hcur g0 rfl
        rw [← hgs, List.reverse_cons, e1]
        exact ⟨h, tl ++ [t], rfl, e2⟩

private theorem checkEntity_type (r12 : Bool) (g g' : List CTag) (hz : HeadZero g)
    (h : checkEntity r12 g = .ok g') : entityType g' = entityType g := by
  obtain ⟨hd, tl, e1, e2⟩ := hz
  unfold checkEntity at h
  split at h
  · simp only [Except.ok.injEq] at h; rw [h]
  · split at h
    · simp only [Except.ok.injEq] at h
      rw [← h, e1]
      cases r12
      · rfl
      · have : (hd.code != 100) = true := by rw [e2]; decide
        cases hd with
        | mk c v => cases v <;> simp_all [entityType]
    · simp at h

private theorem checkEntities_types (r12 : Bool) :
    ∀ gs gs' : List (List CTag), (∀ g ∈ gs, HeadZero g) → checkEntities r12 gs = .ok gs' →
      gs'.map entityType = gs.map entityType := by
  intro gs
  induction gs with
  | nil => intro gs' _ h; simp [checkEntities] at h; rw [← h]
  | cons g r ih =>
    intro gs' hz h
    unfold checkEntities at h
    split at h
    · simp at h
    · next g' hg' =>
      split at h
      · simp at h
      · next r' hr' =>
        simp only [Except.ok.injEq] at h
        rw [← h]
        simp only [List.map_cons]
        rw [checkEntity_type r12 g g' (hz g (by simp)) hg', ih r' (fun x hx => hz x (by simp [hx])) hr']

/-- the observable of the property: the DXF types (and so the number) of the entities of a completely written
    ENTITIES section are what the recovered section dict holds, whatever follows the section.
    (The first group is the section head `SECTION`; the rest are the entities in file order.) -/
theorem entity_types_survive (cfg : Cfg) (a body t : List CTag) (d : SectionDict)
    (ha : NoEnt a) (ht : NoEnt t) (hb : ∀ x ∈ body, isStruct x = false)
    (h : frontTags cfg (a ++ tSection :: tEntName :: body ++ tEndsec :: t) = .ok d) :
    ∃ gs, entitiesOf d = some gs ∧
      gs.map entityType = (groupTags (tSection :: tEntName :: body)).map entityType := by
  obtain ⟨r12, gs, h1, h2⟩ := sections_prefix_stable cfg a body t d ha ht hb h
  refine ⟨gs, h1, checkEntities_types r12 _ gs ?_ h2⟩
  exact groupGo_heads _ none (by intro g hg; cases hg)

/-- non-vacuity: a HEADER section, a complete ENTITIES section (LINE, CIRCLE; the CIRCLE even carries a (2, "ENTITIES")
    tag, which is allowed inside the body) and a cut-off OBJECTS section: the hypotheses hold and the front end returns
    a dict whose ENTITIES entry lists SECTION, LINE, CIRCLE -/
def exA : List CTag := [tSection, ⟨2, .str sHeader⟩, ⟨9, .str sVAcadver⟩, ⟨1, .str [65, 67, 49, 48, 49, 53]⟩, tEndsec]
def exBody : List CTag :=
  [⟨0, .str sLine⟩, ⟨5, .str [49]⟩, ⟨10, .vtx⟩, ⟨0, .str [67, 73, 82, 67, 76, 69]⟩, ⟨40, .num⟩, ⟨2, .str sEntities⟩]
def exT : List CTag := [tSection, ⟨2, .str sObjects⟩, ⟨0, .str sDictionary⟩, ⟨5, .str [67]⟩]

example : NoEnt exA ∧ NoEnt exT ∧ (∀ x ∈ exBody, isStruct x = false) := by
  refine ⟨?_, ?_, ?_⟩
  · unfold NoEnt; decide
  · unfold NoEnt; decide
  · decide
example : (frontTags .unfixed (exA ++ tSection :: tEntName :: exBody ++ tEndsec :: exT)).toOption.bind entitiesOf
    = some [[tSection, tEntName], [⟨0, .str sLine⟩, ⟨5, .str [49]⟩, ⟨10, .vtx⟩],
            [⟨0, .str [67, 73, 82, 67, 76, 69]⟩, ⟨40, .num⟩, ⟨2, .str sEntities⟩]] := by rfl

/-! ## 4. `rebuild_tables`: tables come out in TABLE_NAMES_ACAD_ORDER, complete and well bracketed -/

/-- number of entries of table type `n` among the loaded groups -/
def entryCount (es : List (List CTag)) (n : Str) : Nat := (es.filter (fun e => entryKey e == some n)).length

private theorem names_not_structure :
    ∀ n ∈ tableNames, n ≠ sSection ∧ n ≠ sTable ∧ n ≠ sEndtab := by decide

private theorem map_filter_const {α β : Type} (p : α → Bool) (f : α → β) (c : β) (h : ∀ e, p e = true → f e = c) :
    ∀ l : List α, (l.filter p).map f = List.replicate (l.filter p).length c := by
  intro l
  induction l with
  | nil => rfl
  | cons e r ih =>
    simp only [List.filter_cons]
    cases hp : p e
    · simpa using ih
    · simp [List.replicate_succ, h e hp, ih]

private theorem flatMap_congr' {α β : Type} (f g : α → List β) :
    ∀ l : List α, (∀ a ∈ l, f a = g a) → l.flatMap f = l.flatMap g := by
  intro l
  induction l with
  | nil => intro _; rfl
  | cons a r ih =>
    intro h
    simp only [List.flatMap_cons]
    rw [h a (by simp), ih (fun x hx => h x (by simp [hx]))]

private theorem tableHeadFor_key (es : List (List CTag)) (n : Str) (hn : pyUpper sTable = sTable) :
    entryKey (tableHeadFor es n) = some sTable := by
  unfold tableHeadFor
  cases hf : es.reverse.find? (isTableHeadOf n) with
  | none => simp [newTableHead, entryKey, hn]
  | some e =>
    have := List.find?_some hf
    unfold isTableHeadOf at this
    simp only [Bool.and_eq_true, beq_iff_eq] at this
    simpa using this.1

/-- the sequence of group types of the rebuilt TABLES section: SECTION, then for every table type that has at least
    one entry - in the order of TABLE_NAMES_ACAD_ORDER (without BLOCK_RECORD for R12), each type once - a TABLE
    head, all entries of that type, ENDTAB.  (Stray entries, entries in the wrong table, missing heads, missing
    ENDTABs and duplicated tables in the input all end up in this shape.) -/
theorem tables_rebuilt_in_order (r12 : Bool) (es : List (List CTag)) :
    (rebuildTables r12 es).map entryKey =
      some sSection :: (tableOrder r12).flatMap (fun n =>
        if entryCount es n = 0 then []
        else some sTable :: List.replicate (entryCount es n) (some n) ++ [some sEndtab]) := by
  unfold rebuildTables
  simp only [List.map_cons, List.map_flatMap]
  congr 1
  apply flatMap_congr'
  intro n _
  unfold tableBlock entryCount tableContent
  by_cases h : (es.filter (fun e => entryKey e == some n)).length = 0
  · have : es.filter (fun e => entryKey e == some n) = [] := List.length_eq_zero_iff.1 h
    simp [this]
  · have hne : (es.filter (fun e => entryKey e == some n)).isEmpty = false := by
      cases hl : es.filter (fun e => entryKey e == some n) with
      | nil => simp [hl] at h
      | cons _ _ => rfl
    simp only [hne, Bool.false_eq_true, if_false, h, List.map_cons, List.map_append, List.map_nil]
    rw [tableHeadFor_key es n (by rfl),
      map_filter_const (fun e => entryKey e == some n) entryKey (some n) (by intro e he; simpa using he)]
    rfl

private theorem flatMap_single {β : Type} (n : Str) (c : List β) :
    ∀ l : List Str, l.Nodup → n ∈ l → l.flatMap (fun m => if m = n then c else []) = c := by
  intro l
  induction l with
  | nil => intro _ h; simp at h
  | cons m r ih =>
    intro hnd hmem
    simp only [List.flatMap_cons]
    have hnd' := List.nodup_cons.1 hnd
    by_cases hmn : m = n
    · subst hmn
      have : r.flatMap (fun x => if x = m then c else []) = [] := by
        rw [List.flatMap_eq_nil_iff]
        intro x hx
        have : x ≠ m := fun e => hnd'.1 (e ▸ hx)
        simp [this]
      simp [this]
    · have hmem' : n ∈ r := by
        rcases List.mem_cons.1 hmem with h | h
        · exact absurd h.symm hmn
        · exact h
      simp [hmn, ih hnd'.2 hmem']

private theorem tableOrder_nodup (r12 : Bool) : (tableOrder r12).Nodup := by
  cases r12 <;> decide

private theorem tableOrder_sub (r12 : Bool) : ∀ n ∈ tableOrder r12, n ∈ tableNames := by
  cases r12 <;> decide

/-- nothing is lost, duplicated or reordered inside a table: the entries of type `n` in the output are exactly the
    entries of type `n` among the loaded groups, in their original order -/
theorem tables_entries_preserved (r12 : Bool) (es : List (List CTag)) (n : Str) (hn : n ∈ tableOrder r12) :
    (rebuildTables r12 es).filter (fun e => entryKey e == some n) = es.filter (fun e => entryKey e == some n) := by
  obtain ⟨h1, h2, h3⟩ := names_not_structure n (tableOrder_sub r12 n hn)
  unfold rebuildTables
  have hhead : (entryKey tablesHead == some n) = false := by
    have : entryKey tablesHead = some sSection := by rfl
    rw [this]; simpa using fun e => h1 e.symm
  simp only [List.filter_cons, hhead, Bool.false_eq_true, if_false, List.filter_flatMap]
  have hblock : ∀ m, (tableBlock es m).filter (fun e => entryKey e == some n)
      = if m = n then es.filter (fun e => entryKey e == some n) else [] := by
    intro m
    unfold tableBlock tableContent
    have hend : (entryKey endtab == some n) = false := by
      have : entryKey endtab = some sEndtab := by rfl
      rw [this]; simpa using fun e => h3 e.symm
    have hth : (entryKey (tableHeadFor es m) == some n) = false := by
      rw [tableHeadFor_key es m (by rfl)]; simpa using fun e => h2 e.symm
    split
    · next hemp =>
      have hnil : es.filter (fun e => entryKey e == some m) = [] := List.isEmpty_iff.1 hemp
      by_cases hmn : m = n
      · subst hmn; simp [hnil]
      · simp [hmn]
    · simp only [List.filter_cons, hth, Bool.false_eq_true, if_false, List.filter_append, hend, List.filter_nil,
        List.append_nil, List.filter_filter]
      by_cases hmn : m = n
      · subst hmn; simp
      · simp only [hmn, if_false]
        rw [List.filter_eq_nil_iff]
        intro e _
        simp only [Bool.and_eq_true, beq_iff_eq, not_and]
        intro he1 he2
        rw [he1] at he2
        exact hmn (Option.some.inj he2).symm
  simp only [hblock]
  exact flatMap_single n _ _ (tableOrder_nodup r12) hn

example : rebuildTables false [] = [tablesHead] := by rfl


/-! ## 5. `recover_rootdict` -/

theorem rootdict_length (objs : List (List CTag)) : (recoverRootdict objs).length = objs.length := by
  unfold recoverRootdict
  split
  · split
    · rfl
    · split
      · split <;> simp
      · rfl
  · rfl

/-- if the OBJECTS section (whose group 0 is the section head) holds a root dictionary anywhere, then after
    `recover_rootdict` the first object (index 1) is a root dictionary -/
theorem rootdict_moved_first (objs : List (List CTag)) (i : Nat) (hi : i < objs.length) (hi1 : 1 ≤ i)
    (hroot : isRootdict objs[i] = true) (h0 : ∀ h : 0 < objs.length, isRootdict objs[0] = false) :
    isRootdict ((recoverRootdict objs).getD 1 []) = true := by
  unfold recoverRootdict
  match objs, hi, hroot, h0 with
  | [], hi, _, _ => simp at hi
  | [o0], hi, _, _ => simp at hi; omega
  | o0 :: o1 :: rest, hi, hroot, h0 =>
    simp only
    split
    · next h1 => simpa using h1
    · next h1 =>
      cases hf : (o0 :: o1 :: rest).findIdx? isRootdict with
      | none =>
        have := (List.findIdx?_eq_none_iff.1 hf) _ (List.getElem_mem hi)
        rw [this] at hroot; cases hroot
      | some j =>
        obtain ⟨hj, hpj, hmin⟩ := List.findIdx?_eq_some_iff_getElem.1 hf
        have hj0 : j ≠ 0 := by
          intro e; subst e
          have := h0 (by simp)
          simp only [List.getElem_cons_zero] at this hpj
          rw [this] at hpj; cases hpj
        have hj1 : j ≠ 1 := by
          intro e; subst e
          simp only [List.getElem_cons_succ, List.getElem_cons_zero] at hpj
          exact h1 hpj
        simp only [beq_iff_eq, hj0, if_false]
        rw [List.getD_eq_getElem?_getD, List.getElem?_set]
        simp only [List.length_set, List.length_cons, if_true]
        have : 1 < rest.length + 1 + 1 := by omega
        simp only [this, if_true, Option.getD_some]
        rw [List.getD_eq_getElem?_getD, List.getElem?_eq_getElem hj]
        simpa using hpj

example : recoverRootdict [[tSection], [⟨0, .str sLine⟩], [⟨0, .str sDictionary⟩, ⟨3, .str sAcadGroup⟩]]
    = [[tSection], [⟨0, .str sDictionary⟩, ⟨3, .str sAcadGroup⟩], [⟨0, .str sLine⟩]] := by rfl



/-! ## 6. Byte level: a file cut at ANY byte is, for `bytes_loader`, a tag prefix plus at most one damaged tag -/

private theorem splitLinesAux_take (r : Bytes) :
    ∀ (cur : Bytes) (n : Nat), ∃ k p, splitLinesAux cur (r.take n) = (splitLinesAux cur r).take k ++ p ∧ p.length ≤ 1 := by
  induction r with
  | nil =>
    intro cur n
    refine ⟨(splitLinesAux cur []).length, [], ?_, by simp⟩
    simp
  | cons b r ih =>
    intro cur n
    cases n with
    | zero =>
      refine ⟨0, splitLinesAux cur [], by simp, ?_⟩
      unfold splitLinesAux; split <;> simp
    | succ n =>
      simp only [List.take_succ_cons]
      unfold splitLinesAux
      split
      · obtain ⟨k, p, h1, h2⟩ := ih [] n
        exact ⟨k + 1, p, by simp [h1], h2⟩
      · exact ih (b :: cur) n

/-- the lines of a truncated file are lines of the file, plus at most one (cut) line -/
theorem splitLines_take (bs : Bytes) (n : Nat) :
    ∃ k p, splitLines (bs.take n) = (splitLines bs).take k ++ p ∧ p.length ≤ 1 :=
  splitLinesAux_take bs [] n

private theorem loader_short (ls : List Bytes) (h : ls.length ≤ 2) : (bytesLoader ls).tags.length ≤ 1 := by
  match ls, h with
  | [], _ => simp [bytesLoader]
  | [c], _ => unfold bytesLoader; split <;> simp
  | [c, v], _ =>
    unfold bytesLoader
    split
    · simp
    · simp only [bytesLoader]
      split <;> split <;> simp

private theorem loader_take : ∀ (ls : List Bytes) (k : Nat) (p : List Bytes), p.length ≤ 1 →
    ∃ common extra, (bytesLoader (ls.take k ++ p)).tags = common ++ extra ∧ extra.length ≤ 1 ∧
      common <+: (bytesLoader ls).tags
  | [], k, p, hp => by
    refine ⟨[], (bytesLoader (([] : List Bytes).take k ++ p)).tags, by simp, loader_short _ ?_, List.nil_prefix⟩
    simp; omega
  | [c], k, p, hp => by
    refine ⟨[], (bytesLoader ([c].take k ++ p)).tags, by simp, loader_short _ ?_, List.nil_prefix⟩
    have : ([c].take k).length ≤ 1 := by simp [List.length_take]; omega
    simp only [List.length_append]; omega
  | c :: v :: rest, 0, p, hp => by
    refine ⟨[], (bytesLoader ((c :: v :: rest).take 0 ++ p)).tags, by simp, loader_short _ ?_, List.nil_prefix⟩
    simp; omega
  | c :: v :: rest, 1, p, hp => by
    refine ⟨[], (bytesLoader ((c :: v :: rest).take 1 ++ p)).tags, by simp, loader_short _ ?_, List.nil_prefix⟩
    simp; omega
  | c :: v :: rest, k + 2, p, hp => by
    obtain ⟨common, extra, h1, h2, h3⟩ := loader_take rest k p hp
    simp only [List.take_succ_cons, List.cons_append]
    unfold bytesLoader
    split
    · exact ⟨[], [], by simp, by simp, List.nil_prefix⟩
    · next code hcode =>
      simp only
      by_cases heof : (code == 0 && rstripCRLF v == sEof) = true
      · simp only [heof, if_true]
        split
        · exact ⟨_, [], by simp, by simp, List.prefix_refl _⟩
        · exact ⟨_, [], by simp, by simp, List.prefix_refl _⟩
      · simp only [heof, Bool.false_eq_true, if_false]
        split
        · refine ⟨⟨code, rstripCRLF v⟩ :: common, extra, by simp [h1], h2, ?_⟩
          simpa using h3
        · exact ⟨common, extra, h1, h2, h3⟩

/-- **crash point anywhere in the byte stream**: the tags `bytes_loader` delivers for `bytes.take n` are a prefix of
    the tags of the complete file, followed by at most one extra (cut or mispaired) tag -/
theorem loader_truncation (bs : Bytes) (n : Nat) :
    ∃ common extra, (bytesLoader (splitLines (bs.take n))).tags = common ++ extra ∧ extra.length ≤ 1 ∧
      common <+: (bytesLoader (splitLines bs)).tags := by
  obtain ⟨k, p, h1, h2⟩ := splitLines_take bs n
  rw [h1]
  exact loader_take (splitLines bs) k p h2



private theorem splitLinesAux_flatten (r : Bytes) : ∀ cur : Bytes, (splitLinesAux cur r).flatten = cur.reverse ++ r := by
  induction r with
  | nil => intro cur; unfold splitLinesAux; split <;> simp_all
  | cons b r ih =>
    intro cur
    unfold splitLinesAux
    split
    · simp [ih]
    · rw [ih]; simp

/-- `readline()` loses nothing: the lines concatenate back to the byte string -/
theorem splitLines_flatten (bs : Bytes) : (splitLines bs).flatten = bs := by
  simpa [splitLines] using splitLinesAux_flatten bs []

example : splitLines [48, 10, 69, 79, 70, 13, 10, 55] = [[48, 10], [69, 79, 70, 13, 10], [55]] := by rfl
example : (bytesLoader (splitLines [32, 32, 48, 13, 10, 69, 79, 70, 13, 10, 55])).tags = [⟨0, sEof⟩] := by rfl


/-! ## 7. Obligations on the generated tables -/

/-- the group codes whose VALUE the front end inspects as text - 0 (structure), 2 (section / table names), 3 and 9
    (header variables, ACAD_GROUP), 1 ($ACADVER), 101 / 102 / 1001 / 1002 (validator) - are string typed in
    TYPE_TABLE and are neither point nor binary codes, so `value.startswith(...)`, `value.upper()` and the comparisons
    with string constants never meet an int, float, bytes or Vec3 (no AttributeError / TypeError from these sites) -/
theorem inspected_codes_are_strings :
    ∀ c ∈ ([0, 1, 2, 3, 9, 101, 102, 1001, 1002] : List Int),
      isIntCode c = false ∧ isFloatCode c = false ∧ isBinaryCode c = false ∧ isPointCode c = false := by decide

/-- handles (5, 105) are strings as well, and every y/z code that `filter_invalid_point_codes` drops is a float code -/
theorem invalid_codes_are_floats :
    (isIntCode 5 = false ∧ isFloatCode 5 = false ∧ isIntCode 105 = false ∧ isFloatCode 105 = false) ∧
    invalidCodes.all (fun c => floatCodes.contains c && !pointCodes.contains c) = true := by decide

end EzdxfVerif.Props.C07

/-
C07  Recover mode survives any single corruption or truncation  (DESIGN.md section 7, C07).
Theorems over the executable model `EzdxfVerif.Recover` (Model/Recover.lean) of the front end of
`ezdxf.recover.read()`: bytes → lines → tags → repair filters → compiled tags → sections → section dict,
and (sections 9 ff.) over `EzdxfVerif.RecoverLoad` (Model/RecoverLoad.lean), the generic first loading stage behind it
(`ExtendedTags._setup`, `DXFEntity.setup_app_data`, `XData`).  The long proofs live in Lemmas/RecoverFault.lean (grouping
locality, version independence), Lemmas/RecoverCausal.lean (streaming causality of the tag pipeline, bytes → raw tags),
Lemmas/RecoverLoad.lean (envelope); the counted statements are stated here.
-/
import EzdxfVerif.Model.Recover
import EzdxfVerif.Lemmas.RecoverFault
import EzdxfVerif.Lemmas.RecoverLoad
import EzdxfVerif.Lemmas.RecoverCausal
namespace EzdxfVerif.Props.C07
open EzdxfVerif.Recover EzdxfVerif.Gen.RecoverTables

/-! ## 1. Totality: the patched front end returns or raises DXFStructureError, for every byte string -/

private theorem bytesLoader_err (ls : List Bytes) :
    (bytesLoader ls).err = none ∨ (bytesLoader ls).err = some .dxfStructureError := by
  fun_induction bytesLoader ls <;> simp_all
  all_goals (simp +zetaDelta only []; split <;> simp_all)

private theorem decodeDetect_fixed (v : Bytes) : ∃ s, decodeDetect .fixed v = .ok s := by
  unfold decodeDetect
  split
  · exact ⟨_, rfl⟩
  · simp [Cfg.fixed]

private theorem detectUpd_fixed (enc : Option Nat) (ver : Option Str) (next : Nat) (t : RawTag) :
    ∃ r, detectUpd .fixed enc ver next t = .ok r := by
  unfold detectUpd
  split
  · exact ⟨_, rfl⟩
  · split
    · obtain ⟨s, hs⟩ := decodeDetect_fixed t.val
      rw [hs]; exact ⟨_, rfl⟩
    · split
      · obtain ⟨s, hs⟩ := decodeDetect_fixed t.val
        rw [hs]; exact ⟨_, rfl⟩
      · exact ⟨_, rfl⟩

private theorem detectGo_fixed (term : Option PyErr) (tags : List RawTag) :
    ∀ (enc : Option Nat) (ver : Option Str) (next : Nat) (e : PyErr),
      detectGo .fixed term enc ver next tags = .error e → term = some e := by
  induction tags with
  | nil =>
    intro enc ver next e h
    unfold detectGo at h
    split at h <;> simp_all
  | cons t r ih =>
    intro enc ver next e h
    unfold detectGo at h
    obtain ⟨⟨enc', ver', next'⟩, hu⟩ := detectUpd_fixed enc ver next t
    rw [hu] at h
    simp only at h
    split at h
    · simp at h
    · exact ih _ _ _ _ h

private theorem decodePart_fixed (part : Str) : decodePart .fixed part = .ok part := by
  unfold decodePart
  split <;> simp [Cfg.fixed]

private theorem uScan_fixed (s : Str) : ∀ (skip : Nat) (acc : Str), ∃ r, uScan .fixed skip acc s = .ok r := by
  induction s with
  | nil => intro skip acc; unfold uScan; exact ⟨_, decodePart_fixed _⟩
  | cons c r ih =>
    intro skip acc
    cases skip with
    | succ k => unfold uScan; exact ih k acc
    | zero =>
      unfold uScan
      split
      · rw [decodePart_fixed]
        obtain ⟨rest, hr⟩ := ih 6 []
        simp only [hr]
        exact ⟨_, rfl⟩
      · exact ih 0 (c :: acc)

private theorem compileStr_fixed (enc : Enc) (code : Int) (v : Bytes) : ∃ s, compileStr .fixed enc code v = .ok s := by
  unfold compileStr
  simp only
  generalize decodeEsc enc _ = s
  split
  · exact uScan_fixed s 0 []
  · exact ⟨_, rfl⟩

private theorem compileSingle_fixed (enc : Enc) (x : RawTag) (e : PyErr) :
    compileSingle .fixed enc x = .error e → e = .dxfStructureError := by
  unfold compileSingle errorMsg
  intro h
  obtain ⟨s, hs⟩ := compileStr_fixed enc x.code x.val
  rw [hs] at h
  simp only [Cfg.fixed, Bool.true_or, if_true] at h
  split at h
  · split at h <;> simp_all
  · split at h
    · split at h <;> simp_all
    · split at h
      · split at h <;> simp_all
      · simp [Except.map] at h

private theorem compileStart_fixed (enc : Enc) (t : RawTag) (e : PyErr) :
    compileStart .fixed enc t = .error e → e = .dxfStructureError := by
  unfold compileStart
  intro h
  split at h
  · simp at h
  · split at h
    · next e' he => simp at h; subst h; exact compileSingle_fixed enc t _ he
    · simp at h

private theorem compileStep_fixed (enc : Enc) (st : CP) (t : RawTag) (e : PyErr) :
    compileStep .fixed enc st t = .error e → e = .dxfStructureError := by
  unfold compileStep
  intro h
  split at h
  · exact compileStart_fixed enc t e h
  · split at h <;> simp_all
  · split at h
    · split at h <;> simp_all
    · split at h
      · split at h
        · next e' he => simp at h; subst h; exact compileStart_fixed enc t _ he
        · simp at h
      · simp_all

private theorem compileGo_fixed (enc : Enc) (tags : List RawTag) :
    ∀ (st : CP) (e : PyErr), compileGo .fixed enc st tags = .error e → e = .dxfStructureError := by
  induction tags with
  | nil =>
    intro st e h
    cases st with
    | none => simp [compileGo] at h
    | x a => simp [compileGo] at h
    | xy a b =>
      simp only [compileGo] at h
      split at h
      · simp at h
      · simp at h; exact h.symm
  | cons t r ih =>
    intro st e h
    have hgo : compileGo .fixed enc st (t :: r) =
        (match compileStep .fixed enc st t with
         | .error e => .error e
         | .ok (out, st') =>
           match compileGo .fixed enc st' r with
           | .error e => .error e
           | .ok ts => .ok (out ++ ts)) := by
      cases st <;> rfl
    rw [hgo] at h
    split at h
    · next e' he => simp at h; subst h; exact compileStep_fixed enc st t _ he
    · split at h
      · next e' he => simp at h; subst h; exact ih _ _ he
      · simp at h

private theorem collectStep_fixed (d : RawDict) (sec : List CTag) : ∃ r, collectStep .fixed d sec = .ok r := by
  unfold collectStep
  split
  · split
    · split <;> exact ⟨_, rfl⟩
    · exact ⟨_, rfl⟩
  · exact ⟨d, by simp [Cfg.fixed]⟩

private theorem collectSections_fixed (secs : List (List CTag)) :
    ∀ d : RawDict, ∃ r, collectSections .fixed d secs = .ok r := by
  induction secs with
  | nil => intro d; exact ⟨d, rfl⟩
  | cons s r ih =>
    intro d
    obtain ⟨d', hd⟩ := collectStep_fixed d s
    simp only [collectSections, hd]
    exact ih d'

private theorem loadSectionDict_fixed (secs : List (List CTag)) : ∃ r, loadSectionDict .fixed secs = .ok r := by
  unfold loadSectionDict
  obtain ⟨r, hr⟩ := collectSections_fixed (splitOrphans secs).1 []
  rw [hr]
  exact ⟨_, rfl⟩

private theorem checkEntity_err (r12 : Bool) (g : List CTag) (e : PyErr) :
    checkEntity r12 g = .error e → e = .dxfStructureError := by
  unfold checkEntity
  intro h
  split at h
  · simp at h
  · split at h <;> simp_all

private theorem checkEntities_err (r12 : Bool) (gs : List (List CTag)) (e : PyErr) :
    checkEntities r12 gs = .error e → e = .dxfStructureError := by
  induction gs with
  | nil => intro h; simp [checkEntities] at h
  | cons g r ih =>
    intro h
    unfold checkEntities at h
    split at h
    · next x hx => simp at h; subst h; exact checkEntity_err r12 g _ hx
    · split at h
      · next x hx => simp at h; subst h; exact ih hx
      · simp at h

private theorem checkAll_err (r12 : Bool) (d : SectionDict) (e : PyErr) :
    checkAll r12 d = .error e → e = .dxfStructureError := by
  induction d with
  | nil => intro h; simp [checkAll] at h
  | cons p r ih =>
    obtain ⟨n, gs⟩ := p
    intro h
    unfold checkAll at h
    split at h
    · split at h
      · next x hx => simp at h; subst h; exact checkEntities_err r12 gs _ hx
      · split at h
        · next x hx => simp at h; subst h; exact ih hx
        · simp at h
    · split at h
      · next x hx => simp at h; subst h; exact ih hx
      · simp at h

/-- tag level, patched configuration -/
private theorem frontTags_total_fixed (tags : List CTag) :
    (∃ d, frontTags .fixed tags = .ok d) ∨ frontTags .fixed tags = .error .dxfStructureError := by
  unfold frontTags
  obtain ⟨⟨ver, d⟩, hr⟩ := loadSectionDict_fixed (rebuildSections tags)
  rw [hr]
  simp only
  generalize hc : checkAll _ _ = c
  cases c with
  | ok d' => exact Or.inl ⟨d', rfl⟩
  | error e => rw [checkAll_err _ _ _ hc]; exact Or.inr rfl

private theorem front_total_fixed (bytes : Bytes) :
    (∃ d, recoverFront .fixed bytes = .ok d) ∨ recoverFront .fixed bytes = .error .dxfStructureError := by
  unfold recoverFront loadTags
  simp only
  generalize hs : bytesLoader (splitLines bytes) = s
  have herr := bytesLoader_err (splitLines bytes)
  rw [hs] at herr
  generalize hd : detectEncoding .fixed s = de
  cases de with
  | error e =>
    have := detectGo_fixed s.err s.tags none none 0 e (by simpa [detectEncoding] using hd)
    rcases herr with h | h <;> simp_all
  | ok enc =>
    simp only
    generalize hc : compile .fixed enc (repairTags s) = c
    cases c with
    | error e =>
      have := compileGo_fixed enc (repairTags s) .none e (by simpa [compile] using hc)
      simp [this]
    | ok tags =>
      simp only
      rcases herr with h | h
      · rw [h]; exact frontTags_total_fixed tags
      · rw [h]; exact Or.inr rfl

/-- the tree under test has all four fixes: `Cfg.tree` is built from the flags that `regenerate` probes from the
    CURRENT source (Gen/RecoverTables.lean).  Reverting any of the fix commits turns a flag to `false`, this
    theorem fails, and with it every theorem below that speaks about the current code. -/
theorem tree_has_all_fixes : Cfg.tree = Cfg.fixed := by decide

/-- tag level: whatever the compiled tags are, `Recover.run` of the current tree (after load_tags) returns a section
    dict or raises DXFStructureError -/
theorem frontTags_total (tags : List CTag) :
    (∃ d, frontTags .tree tags = .ok d) ∨ frontTags .tree tags = .error .dxfStructureError := by
  rw [tree_has_all_fixes]; exact frontTags_total_fixed tags

/-- byte level, tier-1 theorem of DESIGN C07, about the CURRENT source: for EVERY byte string (hence for every single
    or multiple fault of every file) the front end returns a section dict or raises DXFStructureError; no other
    exception constructor of the model is reachable.  All functions involved recurse structurally on their input list
    (no fuel), so the modelled layer cannot hang. -/
theorem front_total (bytes : Bytes) :
    (∃ d, recoverFront .tree bytes = .ok d) ∨ recoverFront .tree bytes = .error .dxfStructureError := by
  rw [tree_has_all_fixes]; exact front_total_fixed bytes

/-! ## 2. The four defects fixed by 8e9a904c3, ebbd13340, c6ed255c5, 3fc8e70de, as counterexamples of totality

Each witness is a complete (tiny) DXF byte stream.  With all four fixes the front end answers with
DXFStructureError or a section dict (`front_total`); switching a single fix off re-opens exactly one hole. -/

/-- `0 SECTION 0 ENDSEC 0 EOF`: a section that consists of the single tag (0, SECTION) -/
def witnessSection : Bytes := [48, 10, 83, 69, 67, 84, 73, 79, 78, 10, 48, 10, 69, 78, 68, 83, 69, 67, 10, 48, 10, 69, 79, 70, 10]
/-- `70 <81> 0 EOF`: an integer tag whose value is not decodable (cp1252 has no character 0x81) -/
def witnessErrMsg : Bytes := [55, 48, 10, 129, 10, 48, 10, 69, 79, 70, 10]
/-- `9 $DWGCODEPAGE 3 <81> 0 EOF` -/
def witnessDetect : Bytes := [57, 10, 36, 68, 87, 71, 67, 79, 68, 69, 80, 65, 71, 69, 10, 51, 10, 129, 10, 48, 10, 69, 79, 70, 10]
/-- `1 \U+\U+0041 0 EOF`: the part `\U+` in front of a valid `\U+0041` is handed to int("", 16) -/
def witnessUnicode : Bytes := [49, 10, 92, 85, 43, 92, 85, 43, 48, 48, 52, 49, 10, 48, 10, 69, 79, 70, 10]
/-- `1 \U+abcdef12\U+0041 0 EOF`: chr(0xabcdef12) -/
def witnessUnicodeOverflow : Bytes :=
  [49, 10, 92, 85, 43, 97, 98, 99, 100, 101, 102, 49, 50, 92, 85, 43, 48, 48, 52, 49, 10, 48, 10, 69, 79, 70, 10]

/-- F8: `load_section_dict` does `section[1]` (IndexError) on the unchanged tree -/
theorem unfixed_counterexample_section : recoverFront .unfixed witnessSection = .error .indexError := by rfl
/-- `error_msg()` decodes strictly while building the message of a DXFStructureError -/
theorem unfixed_counterexample_errmsg : recoverFront .unfixed witnessErrMsg = .error .unicodeDecodeError := by rfl
/-- `detect_encoding()` decodes the $DWGCODEPAGE / $ACADVER value strictly -/
theorem unfixed_counterexample_detect : recoverFront .unfixed witnessDetect = .error .unicodeDecodeError := by rfl
/-- `decode_dxf_unicode()` converts every part that merely starts with `\U+` -/
theorem unfixed_counterexample_unicode : recoverFront .unfixed witnessUnicode = .error .valueError := by rfl
theorem unfixed_counterexample_unicode_overflow :
    recoverFront .unfixed witnessUnicodeOverflow = .error .overflowError := by rfl

/-- each patch is necessary: with the other three applied the hole of the fourth is still open -/
theorem each_patch_needed :
    recoverFront { Cfg.fixed with fixSection := false } witnessSection = .error .indexError ∧
    recoverFront { Cfg.fixed with fixErrMsg := false } witnessErrMsg = .error .unicodeDecodeError ∧
    recoverFront { Cfg.fixed with fixDetect := false } witnessDetect = .error .unicodeDecodeError ∧
    recoverFront { Cfg.fixed with fixUnicode := false } witnessUnicode = .error .valueError := by
  refine ⟨?_, ?_, ?_, ?_⟩ <;> rfl

/-- and the patched front end handles the same inputs: a dict with a HEADER only (the orphaned header variable is
    rescued; the undecodable `\U+` part is kept as text), or DXFStructureError -/
theorem fixed_on_witnesses :
    recoverFront .tree witnessSection = .ok [(sHeader, [secHead sHeader])] ∧
    recoverFront .tree witnessErrMsg = .error .dxfStructureError ∧
    recoverFront .tree witnessDetect =
      .ok [(sHeader, [secHead sHeader ++ [⟨9, .str sVDwgcodepage⟩, ⟨3, .str [0xDC81]⟩]])] ∧
    recoverFront .tree witnessUnicode = .ok [(sHeader, [secHead sHeader])] ∧
    recoverFront .tree witnessUnicodeOverflow = .ok [(sHeader, [secHead sHeader])] := by
  refine ⟨?_, ?_, ?_, ?_, ?_⟩ <;> rfl

/-! ## 3. The crashed writer: a completely written ENTITIES section survives whatever follows it -/

def tSection : CTag := ⟨0, .str sSection⟩
def tEndsec : CTag := ⟨0, .str sEndsec⟩
/-- the section name tag (2, "ENTITIES") -/
def tEntName : CTag := ⟨2, .str sEntities⟩

/-- the tags `rebuild_sections` reacts to: (0, SECTION), (0, ENDSEC), (0, EOF) -/
def isStruct (t : CTag) : Bool :=
  t.code == 0 && (t.val == .str sSection || t.val == .str sEndsec || t.val == .str sEof)

/-- no (2, "ENTITIES") tag -/
def NoEnt (l : List CTag) : Prop := ∀ x ∈ l, x ≠ tEntName

/-- the ENTITIES entry of a section dict -/
def entitiesOf (d : SectionDict) : Option (List (List CTag)) := (d.find? (fun e => e.1 == sEntities)).map (·.2)

private def entRaw (d : RawDict) : Option (List CTag) := (d.find? (fun e => e.1 == sEntities)).map (·.2)

private theorem step_nonstruct (s : RS) (t : CTag) (h : isStruct t = false) : s.step t = s.collect t := by
  unfold RS.step
  unfold isStruct at h
  by_cases hc : (t.code == 0) = true
  · simp only [hc, Bool.true_and, Bool.or_eq_false_iff] at h
    simp [hc, h.1.1, h.1.2, h.2]
  · simp [hc]

private theorem fold_inside (body : List CTag) (hb : ∀ x ∈ body, isStruct x = false) :
    ∀ s : RS, s.inside = true → body.foldl RS.step s = { s with collector := body.reverse ++ s.collector } := by
  induction body with
  | nil => intro s _; simp
  | cons t r ih =>
    intro s hs
    have ht := hb t (by simp)
    rw [List.foldl_cons, step_nonstruct s t ht]
    have : s.collect t = { s with collector := t :: s.collector } := by simp [RS.collect, hs]
    rw [this, ih (fun x hx => hb x (by simp [hx])) { s with collector := t :: s.collector } (by simpa using hs)]
    simp

/-- invariant of `rebuild_sections`: outside a section the collector is empty -/
private def Inv (s : RS) : Prop := s.inside = false → s.collector = []

private theorem step_inv (s : RS) (t : CTag) (h : Inv s) : Inv (s.step t) := by
  unfold RS.step RS.close RS.collect Inv at *
  repeat' split
  all_goals simp_all

private theorem fold_inv (l : List CTag) : ∀ s : RS, Inv s → Inv (l.foldl RS.step s) := by
  induction l with
  | nil => intro s h; exact h
  | cons t r ih => intro s h; exact ih _ (step_inv s t h)

private theorem noEnt_cons {x : CTag} {l : List CTag} (hx : x ≠ tEntName) (hl : NoEnt l) : NoEnt (x :: l) := by
  intro y hy
  rcases List.mem_cons.1 hy with h | h
  · exact h ▸ hx
  · exact hl y h

private theorem noEnt_reverse {l : List CTag} (hl : NoEnt l) : NoEnt l.reverse :=
  fun y hy => hl y (List.mem_reverse.1 hy)

/-- one step over a tag that is not (2, ENTITIES): sections only grow, by sections without that tag -/
private theorem step_grow (s : RS) (t : CTag) (ht : t ≠ tEntName) (hc : NoEnt s.collector) (ho : NoEnt s.orphans) :
    ∃ more, (s.step t).sections = more ++ s.sections ∧ (∀ sec ∈ more, NoEnt sec) ∧
      NoEnt (s.step t).collector ∧ NoEnt (s.step t).orphans := by
  have hnil : NoEnt ([] : List CTag) := fun _ h => by simp at h
  have hrev := noEnt_reverse hc
  have hcons := noEnt_cons ht hc
  have hcons' := noEnt_cons ht ho
  have h1 : NoEnt [t] := noEnt_cons ht hnil
  cases hi : s.inside
  · unfold RS.step RS.close RS.collect
    simp only [hi]
    repeat' split
    all_goals refine ⟨[], ?_, ?_, ?_, ?_⟩
    all_goals first
      | (simp; done)
      | (simpa using hcons) | (simpa using hcons') | (simpa using hnil) | (simpa using h1)
      | (simpa using hc) | (simpa using ho) | contradiction
  · unfold RS.step RS.close RS.collect
    simp only [hi]
    repeat' split
    all_goals first
      | (refine ⟨[s.collector.reverse], ?_, ?_, ?_, ?_⟩
         all_goals first
           | (simp; done)
           | (simpa using hrev) | (simpa using hnil) | (simpa using h1) | (simpa using ho) | contradiction)
      | (refine ⟨[], ?_, ?_, ?_, ?_⟩
         all_goals first
           | (simp; done)
           | (simpa using hcons) | (simpa using hcons') | (simpa using hnil) | (simpa using h1)
           | (simpa using hc) | (simpa using ho) | contradiction | (simp_all; done))

private theorem fold_grow (l : List CTag) (hl : NoEnt l) :
    ∀ s : RS, NoEnt s.collector → NoEnt s.orphans →
      ∃ more, (l.foldl RS.step s).sections = more ++ s.sections ∧ (∀ sec ∈ more, NoEnt sec) ∧
        NoEnt (l.foldl RS.step s).collector ∧ NoEnt (l.foldl RS.step s).orphans := by
  induction l with
  | nil => intro s hc ho; exact ⟨[], by simp, by simp, hc, ho⟩
  | cons t r ih =>
    intro s hc ho
    obtain ⟨m1, h1, h2, h3, h4⟩ := step_grow s t (hl t (by simp)) hc ho
    obtain ⟨m2, g1, g2, g3, g4⟩ := ih (fun x hx => hl x (by simp [hx])) (s.step t) h3 h4
    refine ⟨m2 ++ m1, ?_, ?_, g3, g4⟩
    · rw [List.foldl_cons, g1, h1]; simp
    · intro sec hs
      rcases List.mem_append.1 hs with h | h
      · exact g2 sec h
      · exact h2 sec h

/-- `rebuild_sections` on a stream that contains a complete SECTION / (2, ENTITIES) / body / ENDSEC:
    the section list is  before ++ [that section] ++ after ++ [orphans], and no other section (nor the orphans)
    holds a (2, ENTITIES) tag if the rest of the stream has none.  `body` may contain anything but the three
    structure tags. -/
theorem rebuild_sections_complete_section (a body t : List CTag)
    (ha : NoEnt a) (ht : NoEnt t) (hb : ∀ x ∈ body, isStruct x = false) :
    ∃ before after orph,
      rebuildSections (a ++ tSection :: tEntName :: body ++ tEndsec :: t)
        = before ++ (tSection :: tEntName :: body) :: after ++ [orph] ∧
      (∀ sec ∈ before, NoEnt sec) ∧ (∀ sec ∈ after, NoEnt sec) ∧ NoEnt orph := by
  have hnil : NoEnt ([] : List CTag) := fun _ h => by simp at h
  obtain ⟨ma, a1, a2, a3, a4⟩ := fold_grow a ha RS.init hnil hnil
  have ainv := fold_inv a RS.init (by intro _; rfl)
  generalize hsa : a.foldl RS.step RS.init = sa at a1 a2 a3 a4 ainv
  replace a1 : sa.sections = ma := by simpa [RS.init] using a1
  -- the state after (0, SECTION)
  let s1 : RS := { sections := if sa.inside then sa.collector.reverse :: sa.sections else sa.sections,
                   collector := [tSection], inside := true, orphans := sa.orphans }
  have hs1 : sa.step tSection = s1 := by
    unfold RS.step RS.close
    cases hi : sa.inside
    · have := ainv hi
      simp [tSection, s1, hi, this]
    · simp [tSection, s1, hi]
  -- ... after (2, ENTITIES), the body and (0, ENDSEC)
  have hs2 : (tEntName :: body).foldl RS.step s1 = { s1 with collector := (tEntName :: body).reverse ++ [tSection] } :=
    fold_inside (tEntName :: body)
      (by intro x hx
          rcases List.mem_cons.1 hx with h | h
          · subst h; rfl
          · exact hb x h) s1 rfl
  let s3 : RS := { sections := (tSection :: tEntName :: body) :: s1.sections, collector := [], inside := false,
                   orphans := sa.orphans }
  have hs3 : RS.step { s1 with collector := (tEntName :: body).reverse ++ [tSection] } tEndsec = s3 := by
    simp [RS.step, RS.close, tEndsec, s3, s1, sSection, sEndsec]
  obtain ⟨mt, t1, t2, t3, t4⟩ := fold_grow t ht s3 hnil a4
  have hfold : (a ++ tSection :: tEntName :: body ++ tEndsec :: t).foldl RS.step RS.init = t.foldl RS.step s3 := by
    have : a ++ tSection :: tEntName :: body ++ tEndsec :: t = a ++ (tSection :: ((tEntName :: body) ++ (tEndsec :: t))) := by simp
    rw [this, List.foldl_append, hsa, List.foldl_cons, hs1, List.foldl_append, hs2, List.foldl_cons, hs3]
  have hs1sec : ∀ sec ∈ s1.sections, NoEnt sec := by
    intro sec hsec
    simp only [s1] at hsec
    rw [a1] at hsec
    split at hsec
    · rcases List.mem_cons.1 hsec with h | h
      · exact h ▸ noEnt_reverse a3
      · exact a2 sec h
    · exact a2 sec hsec
  refine ⟨s1.sections.reverse, mt.reverse, (t.foldl RS.step s3).orphans.reverse, ?_, ?_, ?_, noEnt_reverse t4⟩
  · unfold rebuildSections RS.finish
    rw [hfold, t1]
    simp [s3]
  · intro sec hsec; exact hs1sec sec (List.mem_reverse.1 hsec)
  · intro sec hsec; exact t2 sec (List.mem_reverse.1 hsec)

/-! ### from the section list to the ENTITIES entry of the section dict -/

private theorem find_map_keep {α : Type} (p : Str × α → Bool) (f : Str × α → Str × α)
    (hk : ∀ e, p (f e) = p e) (hf : ∀ e, p e = true → f e = e) :
    ∀ d : List (Str × α), (d.map f).find? p = d.find? p := by
  intro d
  induction d with
  | nil => rfl
  | cons e r ih =>
    simp only [List.map_cons, List.find?_cons, hk]
    cases h : p e
    · simpa using ih
    · simp [hf e h]

private theorem find_filter_keep {α : Type} (p q : α → Bool) (h : ∀ e, p e = true → q e = true) :
    ∀ d : List α, (d.filter q).find? p = d.find? p := by
  intro d
  induction d with
  | nil => rfl
  | cons e r ih =>
    simp only [List.filter_cons, List.find?_cons]
    cases hq : q e
    · have : p e = false := by
        cases hp : p e
        · rfl
        · rw [h e hp] at hq; cases hq
      simp [this, ih]
    · simp only [if_true, List.find?_cons]
      cases p e <;> simp [ih]

private theorem find_append_miss {α : Type} (p : α → Bool) (d : List α) (x : α) (h : p x = false) :
    (d ++ [x]).find? p = d.find? p := by
  induction d with
  | nil => simp [h]
  | cons e r ih => simp only [List.cons_append, List.find?_cons]; cases p e <;> simp [ih]

private def isEntR (e : Str × List CTag) : Bool := e.1 == sEntities

private theorem entRaw_addSection_other (d : RawDict) (name : Str) (sec : List CTag)
    (h : (name == sEntities) = false) : entRaw (addSection d name sec) = entRaw d := by
  unfold entRaw addSection
  split
  · congr 1
    apply find_map_keep
    · intro e; split <;> rfl
    · intro e he
      have h1 : (e.1 == name) = false := by
        cases hn : e.1 == name
        · rfl
        · have := eq_of_beq hn; rw [this] at he; rw [he] at h; cases h
      simp [h1]
  · congr 1
    exact find_append_miss _ d (name, sec) (by simpa using h)

private theorem find_append_hit {α : Type} (p : α → Bool) (x : α) (hx : p x = true) :
    ∀ d : List α, d.find? p = none → (d ++ [x]).find? p = some x := by
  intro d
  induction d with
  | nil => intro _; simp [hx]
  | cons e r ih =>
    intro h
    simp only [List.find?_cons] at h
    cases he : p e
    · rw [he] at h; simp only [List.cons_append, List.find?_cons, he]; exact ih h
    · rw [he] at h; simp at h

private theorem entRaw_addSection_new (d : RawDict) (sec : List CTag) (h : entRaw d = none) :
    entRaw (addSection d sEntities sec) = some sec := by
  unfold entRaw at h
  have hnone : d.find? (fun e => e.1 == sEntities) = none := by
    cases hf : d.find? (fun e => e.1 == sEntities) with
    | none => rfl
    | some x => rw [hf] at h; simp at h
  have hany : d.any (fun e => e.1 == sEntities) = false := by
    rw [List.find?_eq_none] at hnone
    rw [List.any_eq_false]
    exact hnone
  unfold entRaw addSection
  rw [hany]
  simp only [Bool.false_eq_true, if_false]
  rw [find_append_hit _ (sEntities, sec) (by simp) d hnone]
  rfl

private theorem collectStep_noEnt (cfg : Cfg) (sec : List CTag) (hs : NoEnt sec) (d r : RawDict)
    (h : collectStep cfg d sec = .ok r) : entRaw r = entRaw d := by
  unfold collectStep at h
  split at h
  · next t0 t1 tl =>
    split at h
    · next name hval =>
      split at h
      · next hcode =>
        have hne : (name == sEntities) = false := by
          cases hn : name == sEntities
          · rfl
          · exfalso
            have hname := eq_of_beq hn
            have hc : t1.code = 2 := by simpa using hcode
            have : t1 = tEntName := by
              cases t1 with
              | mk c v => simp only at hc hval; subst hc; subst hval; rw [hname]; rfl
            exact hs t1 (by simp) this
        simp only [Except.ok.injEq] at h
        rw [← h, entRaw_addSection_other _ _ _ hne]
      · simp only [Except.ok.injEq] at h; rw [h]
    · simp only [Except.ok.injEq] at h; rw [h]
  · split at h
    · simp only [Except.ok.injEq] at h; rw [h]
    · simp at h

private theorem collect_noEnt (cfg : Cfg) (secs : List (List CTag)) (hs : ∀ sec ∈ secs, NoEnt sec) :
    ∀ (d r : RawDict), collectSections cfg d secs = .ok r → entRaw r = entRaw d := by
  induction secs with
  | nil => intro d r h; simp [collectSections] at h; rw [h]
  | cons sec rest ih =>
    intro d r h
    simp only [collectSections] at h
    split at h
    · simp at h
    · next d' hd =>
      rw [ih (fun x hx => hs x (by simp [hx])) _ _ h]
      exact collectStep_noEnt cfg sec (hs sec (by simp)) d d' hd

private theorem collect_append (cfg : Cfg) (xs ys : List (List CTag)) :
    ∀ d : RawDict, collectSections cfg d (xs ++ ys) =
      (match collectSections cfg d xs with
       | .error e => .error e
       | .ok d' => collectSections cfg d' ys) := by
  induction xs with
  | nil => intro d; simp [collectSections]
  | cons sec rest ih =>
    intro d
    simp only [List.cons_append, collectSections]
    cases collectStep cfg d sec with
    | error e => rfl
    | ok d' => exact ih d'

/-- the raw dict built from  before ++ [ENTITIES section] ++ after  has exactly that section under ENTITIES -/
private theorem collect_entities (cfg : Cfg) (before after : List (List CTag)) (body : List CTag)
    (hb : ∀ sec ∈ before, NoEnt sec) (ha : ∀ sec ∈ after, NoEnt sec) (r : RawDict)
    (h : collectSections cfg [] (before ++ (tSection :: tEntName :: body) :: after) = .ok r) :
    entRaw r = some (tSection :: tEntName :: body) := by
  rw [collect_append] at h
  split at h
  · simp at h
  · next d1 h1 =>
    have e1 : entRaw d1 = none := by rw [collect_noEnt cfg before hb _ _ h1]; rfl
    simp only [collectSections, collectStep, tEntName, beq_self_eq_true, if_true] at h
    rw [collect_noEnt cfg after ha _ _ h]
    exact entRaw_addSection_new d1 _ e1

private theorem find_map_snd {α β : Type} (p : Str → Bool) (g : α → β) :
    ∀ d : List (Str × α), ((d.map (fun e => (e.1, g e.2))).find? (fun e => p e.1)).map (·.2)
      = ((d.find? (fun e => p e.1)).map (·.2)).map g := by
  intro d
  induction d with
  | nil => rfl
  | cons e r ih =>
    simp only [List.map_cons, List.find?_cons]
    cases p e.1
    · exact ih
    · rfl

/-- `load_section_dict`, second half: the ENTITIES entry is `group_tags` of the merged raw ENTITIES section -/
private theorem finishDict_entities (r : RawDict) (orphans : List CTag) :
    entitiesOf (finishDict r orphans).2 = (entRaw r).map groupTags := by
  unfold finishDict entitiesOf entRaw
  simp only
  rw [find_map_snd (fun n => n == sEntities) groupTags]
  congr 2
  rw [find_filter_keep _ _ (by intro (e : Str × List CTag) he; have := eq_of_beq he; rw [this]; decide)]
  have hstep2 : ∀ dd : RawDict,
      (dd.map (fun e => if e.1 == sHeader then (e.1, e.2 ++ rescueOrphans none orphans) else e)).find?
        (fun e => e.1 == sEntities) = dd.find? (fun e => e.1 == sEntities) := by
    intro dd
    apply find_map_keep
    · intro e; split <;> rfl
    · intro e he
      have := eq_of_beq he
      have hh : (e.1 == sHeader) = false := by rw [this]; decide
      simp [hh]
  have hstep1 : (if r.any (fun e => e.1 == sHeader) then r else r ++ [(sHeader, secHead sHeader)]).find?
        (fun e => e.1 == sEntities) = r.find? (fun e => e.1 == sEntities) := by
    split
    · rfl
    · exact find_append_miss _ r _ (by decide)
  generalize strLe _ sAc1009 = b
  cases b
  · simp only [Bool.false_eq_true, if_false]; rw [hstep2, hstep1]
  · simp only [if_true]
    rw [find_filter_keep _ _ (by
      intro (e : Str × List CTag) he; have := eq_of_beq he; rw [this]; decide), hstep2, hstep1]

private theorem splitOrphans_concat (xs : List (List CTag)) (o : List CTag) :
    (splitOrphans (xs ++ [o])).1 = xs ∨ (splitOrphans (xs ++ [o])).1 = xs ++ [o] := by
  unfold splitOrphans
  simp only [List.getLast?_append, List.getLast?_singleton, Option.some_or, Option.getD_some,
    List.dropLast_concat]
  split
  · exact Or.inr rfl
  · exact Or.inl rfl

private theorem mapSection_entities (name : Str) (hne : (sEntities == name) = false)
    (f : List (List CTag) → List (List CTag)) (d : SectionDict) : entitiesOf (mapSection name f d) = entitiesOf d := by
  unfold entitiesOf mapSection
  congr 1
  apply find_map_keep
  · intro e; split <;> rfl
  · intro e he
    have := eq_of_beq he
    have hh : (e.1 == name) = false := by rw [this]; exact hne
    simp [hh]

private theorem checkAll_entities (r12 : Bool) :
    ∀ d d' : SectionDict, checkAll r12 d = .ok d' → ∀ gs, entitiesOf d = some gs →
      ∃ gs', entitiesOf d' = some gs' ∧ checkEntities r12 gs = .ok gs' := by
  intro d
  induction d with
  | nil => intro d' _ gs hgs; simp [entitiesOf] at hgs
  | cons p r ih =>
    obtain ⟨n, g⟩ := p
    intro d' h gs hgs
    unfold checkAll at h
    cases hn : n == sEntities
    · -- another section: the ENTITIES entry is in the tail
      have hgs' : entitiesOf r = some gs := by
        simpa [entitiesOf, List.find?_cons, hn] using hgs
      split at h
      · split at h
        · simp at h
        · split at h
          · simp at h
          · next r' hr' =>
            simp only [Except.ok.injEq] at h
            obtain ⟨gs', h1, h2⟩ := ih r' hr' gs hgs'
            refine ⟨gs', ?_, h2⟩
            rw [← h]; simpa [entitiesOf, List.find?_cons, hn] using h1
      · split at h
        · simp at h
        · next r' hr' =>
          simp only [Except.ok.injEq] at h
          obtain ⟨gs', h1, h2⟩ := ih r' hr' gs hgs'
          refine ⟨gs', ?_, h2⟩
          rw [← h]; simpa [entitiesOf, List.find?_cons, hn] using h1
    · have hname := eq_of_beq hn
      subst hname
      have hg : g = gs := by simpa [entitiesOf, List.find?_cons] using hgs
      subst hg
      have hchk : isCheckedSection sEntities = true := by decide
      simp only [hchk, if_true] at h
      split at h
      · simp at h
      · next g' hg' =>
        split at h
        · simp at h
        · simp only [Except.ok.injEq] at h
          exact ⟨g', by rw [← h]; simp [entitiesOf], hg'⟩

/-- **The crashed writer** (tag level).  The compiled tag stream is  a ++ SECTION (2,ENTITIES) body ENDSEC ++ t  where
    `body` holds no SECTION/ENDSEC/EOF tag (it is a completely written ENTITIES section) and there is no other
    (2, "ENTITIES") tag in `a` or `t`.  Then for ANY continuation `t` (nothing, a truncated rest, garbage) for which
    the front end returns a section dict, the ENTITIES entry of that dict is exactly the entity groups of `body`
    (checked by `check_entities`, i.e. unchanged apart from the removal of (100, …) tags in R12 mode). -/
theorem sections_prefix_stable (cfg : Cfg) (a body t : List CTag) (d : SectionDict)
    (ha : NoEnt a) (ht : NoEnt t) (hb : ∀ x ∈ body, isStruct x = false)
    (h : frontTags cfg (a ++ tSection :: tEntName :: body ++ tEndsec :: t) = .ok d) :
    ∃ r12 gs, entitiesOf d = some gs ∧
      checkEntities r12 (groupTags (tSection :: tEntName :: body)) = .ok gs := by
  obtain ⟨before, after, orph, hrs, hbf, haf, horph⟩ := rebuild_sections_complete_section a body t ha ht hb
  unfold frontTags at h
  rw [hrs] at h
  split at h
  · simp at h
  · next version d0 hload =>
    unfold loadSectionDict at hload
    split at hload
    · simp at hload
    · next raw hraw =>
      simp only [Except.ok.injEq] at hload
      have hent : entRaw raw = some (tSection :: tEntName :: body) := by
        have hx : before ++ (tSection :: tEntName :: body) :: after ++ [orph]
            = (before ++ (tSection :: tEntName :: body) :: after) ++ [orph] := by simp
        rw [hx] at hraw
        rcases splitOrphans_concat (before ++ (tSection :: tEntName :: body) :: after) orph with hs | hs
        · rw [hs] at hraw
          exact collect_entities cfg before after body hbf haf raw hraw
        · rw [hs] at hraw
          have hx2 : (before ++ (tSection :: tEntName :: body) :: after) ++ [orph]
              = before ++ (tSection :: tEntName :: body) :: (after ++ [orph]) := by simp
          rw [hx2] at hraw
          refine collect_entities cfg before (after ++ [orph]) body hbf ?_ raw hraw
          intro sec hsec
          rcases List.mem_append.1 hsec with h1 | h1
          · exact haf sec h1
          · simp only [List.mem_singleton] at h1; rw [h1]; exact horph
      have hd0 : entitiesOf d0 = some (groupTags (tSection :: tEntName :: body)) := by
        have : d0 = (finishDict raw (splitOrphans (before ++ (tSection :: tEntName :: body) :: after ++ [orph])).2).2 := by
          rw [hload]
        rw [this, finishDict_entities, hent]; rfl
      simp only at h
      refine ⟨strLe version sAc1009, ?_⟩
      apply checkAll_entities _ _ _ h
      split
      · rw [mapSection_entities sTables (by decide), hd0]
      · rw [mapSection_entities sObjects (by decide), mapSection_entities sTables (by decide), hd0]

/-- the same for a file cut anywhere behind the ENTITIES section: `pre ++ suf.take k` for every k -/
theorem entities_survive_truncation (cfg : Cfg) (a body suf : List CTag) (k : Nat) (d : SectionDict)
    (ha : NoEnt a) (hs : NoEnt suf) (hb : ∀ x ∈ body, isStruct x = false)
    (h : frontTags cfg (a ++ tSection :: tEntName :: body ++ tEndsec :: suf.take k) = .ok d) :
    ∃ r12 gs, entitiesOf d = some gs ∧
      checkEntities r12 (groupTags (tSection :: tEntName :: body)) = .ok gs :=
  sections_prefix_stable cfg a body (suf.take k) d ha (fun x hx => hs x (List.mem_of_mem_take hx)) hb h

/-- `sections_prefix_stable` with the R12 flag made explicit: it is `dxfversion <= "AC1009"` for the version that
    `load_section_dict` detected -/
private theorem sections_prefix_stable_v (cfg : Cfg) (a body t : List CTag) (d : SectionDict)
    (ha : NoEnt a) (ht : NoEnt t) (hb : ∀ x ∈ body, isStruct x = false)
    (h : frontTags cfg (a ++ tSection :: tEntName :: body ++ tEndsec :: t) = .ok d) :
    ∃ v d0 gs, loadSectionDict cfg (rebuildSections (a ++ tSection :: tEntName :: body ++ tEndsec :: t)) = .ok (v, d0) ∧
      entitiesOf d = some gs ∧
      checkEntities (strLe v sAc1009) (groupTags (tSection :: tEntName :: body)) = .ok gs := by
  obtain ⟨before, after, orph, hrs, hbf, haf, horph⟩ := rebuild_sections_complete_section a body t ha ht hb
  unfold frontTags at h
  split at h
  · simp at h
  · next version d0 hload0 =>
    refine ⟨version, d0, ?_⟩
    have hload := hload0
    rw [hrs] at hload
    unfold loadSectionDict at hload
    split at hload
    · simp at hload
    · next raw hraw =>
      simp only [Except.ok.injEq] at hload
      have hent : entRaw raw = some (tSection :: tEntName :: body) := by
        have hx : before ++ (tSection :: tEntName :: body) :: after ++ [orph]
            = (before ++ (tSection :: tEntName :: body) :: after) ++ [orph] := by simp
        rw [hx] at hraw
        rcases splitOrphans_concat (before ++ (tSection :: tEntName :: body) :: after) orph with hs | hs
        · rw [hs] at hraw
          exact collect_entities cfg before after body hbf haf raw hraw
        · rw [hs] at hraw
          have hx2 : (before ++ (tSection :: tEntName :: body) :: after) ++ [orph]
              = before ++ (tSection :: tEntName :: body) :: (after ++ [orph]) := by simp
          rw [hx2] at hraw
          refine collect_entities cfg before (after ++ [orph]) body hbf ?_ raw hraw
          intro sec hsec
          rcases List.mem_append.1 hsec with h1 | h1
          · exact haf sec h1
          · simp only [List.mem_singleton] at h1; rw [h1]; exact horph
      have hd0 : entitiesOf d0 = some (groupTags (tSection :: tEntName :: body)) := by
        have : d0 = (finishDict raw (splitOrphans (before ++ (tSection :: tEntName :: body) :: after ++ [orph])).2).2 := by
          rw [hload]
        rw [this, finishDict_entities, hent]; rfl
      simp only at h
      obtain ⟨gs, g1, g2⟩ := checkAll_entities (strLe version sAc1009) _ _ h (groupTags (tSection :: tEntName :: body)) (by
        split
        · rw [mapSection_entities sTables (by decide), hd0]
        · rw [mapSection_entities sObjects (by decide), mapSection_entities sTables (by decide), hd0])
      exact ⟨gs, hload0, g1, g2⟩

/-! ### entity types and count -/

/-- a group produced by `group_tags` starts with its split tag (code 0) -/
private def HeadZero (g : List CTag) : Prop := ∃ h tl, g = h :: tl ∧ h.code = 0

private theorem groupGo_cons (cur : Option (List CTag)) (t : CTag) (r : List CTag) :
    groupGo cur (t :: r) =
      if t.code == 0 then (match cur with | some g => [g.reverse] | none => []) ++ groupGo (some [t]) r
      else groupGo (cur.map (t :: ·)) r := by
  cases cur <;> rfl

private theorem groupGo_heads (ts : List CTag) :
    ∀ cur : Option (List CTag), (∀ g, cur = some g → HeadZero g.reverse) →
      ∀ grp ∈ groupGo cur ts, HeadZero grp := by
  induction ts with
  | nil =>
    intro cur hcur grp hg
    cases cur with
    | none => simp [groupGo] at hg
    | some g => simp only [groupGo, List.mem_singleton] at hg; rw [hg]; exact hcur g rfl
  | cons t r ih =>
    intro cur hcur grp hg
    rw [groupGo_cons] at hg
    split at hg
    · next h0 =>
      rcases List.mem_append.1 hg with h | h
      · cases cur with
        | none => simp at h
        | some g => simp only [List.mem_singleton] at h; rw [h]; exact hcur g rfl
      · refine ih (some [t]) ?_ grp h
        intro g hgs
        simp only [Option.some.injEq] at hgs
        rw [← hgs]
        exact ⟨t, [], rfl, by simpa using h0⟩
    · refine ih (cur.map (t :: ·)) ?_ grp hg
      intro g hgs
      cases cur with
      | none => simp at hgs
      | some g0 =>
        simp only [Option.map_some, Option.some.injEq] at hgs
        obtain ⟨h, tl, e1, e2⟩ := hcur g0 rfl
        rw [← hgs, List.reverse_cons, e1]
        exact ⟨h, tl ++ [t], rfl, e2⟩

private theorem checkEntity_type (r12 : Bool) (g g' : List CTag) (hz : HeadZero g)
    (h : checkEntity r12 g = .ok g') : entityType g' = entityType g := by
  obtain ⟨hd, tl, e1, e2⟩ := hz
  unfold checkEntity at h
  split at h
  · simp only [Except.ok.injEq] at h; rw [h]
  · split at h
    · simp only [Except.ok.injEq] at h
      rw [← h, e1]
      cases r12
      · rfl
      · have : (hd.code != 100) = true := by rw [e2]; decide
        cases hd with
        | mk c v => cases v <;> simp_all [entityType]
    · simp at h

private theorem checkEntities_types (r12 : Bool) :
    ∀ gs gs' : List (List CTag), (∀ g ∈ gs, HeadZero g) → checkEntities r12 gs = .ok gs' →
      gs'.map entityType = gs.map entityType := by
  intro gs
  induction gs with
  | nil => intro gs' _ h; simp [checkEntities] at h; rw [← h]
  | cons g r ih =>
    intro gs' hz h
    unfold checkEntities at h
    split at h
    · simp at h
    · next g' hg' =>
      split at h
      · simp at h
      · next r' hr' =>
        simp only [Except.ok.injEq] at h
        rw [← h]
        simp only [List.map_cons]
        rw [checkEntity_type r12 g g' (hz g (by simp)) hg', ih r' (fun x hx => hz x (by simp [hx])) hr']

/-- the observable of the property: the DXF types (and so the number) of the entities of a completely written
    ENTITIES section are what the recovered section dict holds, whatever follows the section.
    (The first group is the section head `SECTION`; the rest are the entities in file order.) -/
theorem entity_types_survive (cfg : Cfg) (a body t : List CTag) (d : SectionDict)
    (ha : NoEnt a) (ht : NoEnt t) (hb : ∀ x ∈ body, isStruct x = false)
    (h : frontTags cfg (a ++ tSection :: tEntName :: body ++ tEndsec :: t) = .ok d) :
    ∃ gs, entitiesOf d = some gs ∧
      gs.map entityType = (groupTags (tSection :: tEntName :: body)).map entityType := by
  obtain ⟨r12, gs, h1, h2⟩ := sections_prefix_stable cfg a body t d ha ht hb h
  refine ⟨gs, h1, checkEntities_types r12 _ gs ?_ h2⟩
  exact groupGo_heads _ none (by intro g hg; cases hg)

/-- non-vacuity: a HEADER section, a complete ENTITIES section (LINE, CIRCLE; the CIRCLE even carries a (2, "ENTITIES")
    tag, which is allowed inside the body) and a cut-off OBJECTS section: the hypotheses hold and the front end returns
    a dict whose ENTITIES entry lists SECTION, LINE, CIRCLE -/
def exA : List CTag := [tSection, ⟨2, .str sHeader⟩, ⟨9, .str sVAcadver⟩, ⟨1, .str [65, 67, 49, 48, 49, 53]⟩, tEndsec]
def exBody : List CTag :=
  [⟨0, .str sLine⟩, ⟨5, .str [49]⟩, ⟨10, .vtx⟩, ⟨0, .str [67, 73, 82, 67, 76, 69]⟩, ⟨40, .num⟩, ⟨2, .str sEntities⟩]
def exT : List CTag := [tSection, ⟨2, .str sObjects⟩, ⟨0, .str sDictionary⟩, ⟨5, .str [67]⟩]

example : NoEnt exA ∧ NoEnt exT ∧ (∀ x ∈ exBody, isStruct x = false) := by
  refine ⟨?_, ?_, ?_⟩
  · unfold NoEnt; decide
  · unfold NoEnt; decide
  · decide
example : (frontTags .unfixed (exA ++ tSection :: tEntName :: exBody ++ tEndsec :: exT)).toOption.bind entitiesOf
    = some [[tSection, tEntName], [⟨0, .str sLine⟩, ⟨5, .str [49]⟩, ⟨10, .vtx⟩],
            [⟨0, .str [67, 73, 82, 67, 76, 69]⟩, ⟨40, .num⟩, ⟨2, .str sEntities⟩]] := by rfl

/-! ## 4. `rebuild_tables`: tables come out in TABLE_NAMES_ACAD_ORDER, complete and well bracketed -/

/-- number of entries of table type `n` among the loaded groups -/
def entryCount (es : List (List CTag)) (n : Str) : Nat := (es.filter (fun e => entryKey e == some n)).length

private theorem names_not_structure :
    ∀ n ∈ tableNames, n ≠ sSection ∧ n ≠ sTable ∧ n ≠ sEndtab := by decide

private theorem map_filter_const {α β : Type} (p : α → Bool) (f : α → β) (c : β) (h : ∀ e, p e = true → f e = c) :
    ∀ l : List α, (l.filter p).map f = List.replicate (l.filter p).length c := by
  intro l
  induction l with
  | nil => rfl
  | cons e r ih =>
    simp only [List.filter_cons]
    cases hp : p e
    · simpa using ih
    · simp [List.replicate_succ, h e hp, ih]

private theorem flatMap_congr' {α β : Type} (f g : α → List β) :
    ∀ l : List α, (∀ a ∈ l, f a = g a) → l.flatMap f = l.flatMap g := by
  intro l
  induction l with
  | nil => intro _; rfl
  | cons a r ih =>
    intro h
    simp only [List.flatMap_cons]
    rw [h a (by simp), ih (fun x hx => h x (by simp [hx]))]

private theorem tableHeadFor_key (es : List (List CTag)) (n : Str) (hn : pyUpper sTable = sTable) :
    entryKey (tableHeadFor es n) = some sTable := by
  unfold tableHeadFor
  cases hf : es.reverse.find? (isTableHeadOf n) with
  | none => simp [newTableHead, entryKey, hn]
  | some e =>
    have := List.find?_some hf
    unfold isTableHeadOf at this
    simp only [Bool.and_eq_true, beq_iff_eq] at this
    simpa using this.1

/-- the sequence of group types of the rebuilt TABLES section: SECTION, then for every table type that has at least
    one entry - in the order of TABLE_NAMES_ACAD_ORDER (without BLOCK_RECORD for R12), each type once - a TABLE
    head, all entries of that type, ENDTAB.  (Stray entries, entries in the wrong table, missing heads, missing
    ENDTABs and duplicated tables in the input all end up in this shape.) -/
theorem tables_rebuilt_in_order (r12 : Bool) (es : List (List CTag)) :
    (rebuildTables r12 es).map entryKey =
      some sSection :: (tableOrder r12).flatMap (fun n =>
        if entryCount es n = 0 then []
        else some sTable :: List.replicate (entryCount es n) (some n) ++ [some sEndtab]) := by
  unfold rebuildTables
  simp only [List.map_cons, List.map_flatMap]
  congr 1
  apply flatMap_congr'
  intro n _
  unfold tableBlock entryCount tableContent
  by_cases h : (es.filter (fun e => entryKey e == some n)).length = 0
  · have : es.filter (fun e => entryKey e == some n) = [] := List.length_eq_zero_iff.1 h
    simp [this]
  · have hne : (es.filter (fun e => entryKey e == some n)).isEmpty = false := by
      cases hl : es.filter (fun e => entryKey e == some n) with
      | nil => simp [hl] at h
      | cons _ _ => rfl
    simp only [hne, Bool.false_eq_true, if_false, h, List.map_cons, List.map_append, List.map_nil]
    rw [tableHeadFor_key es n (by rfl),
      map_filter_const (fun e => entryKey e == some n) entryKey (some n) (by intro e he; simpa using he)]
    rfl

private theorem flatMap_single {β : Type} (n : Str) (c : List β) :
    ∀ l : List Str, l.Nodup → n ∈ l → l.flatMap (fun m => if m = n then c else []) = c := by
  intro l
  induction l with
  | nil => intro _ h; simp at h
  | cons m r ih =>
    intro hnd hmem
    simp only [List.flatMap_cons]
    have hnd' := List.nodup_cons.1 hnd
    by_cases hmn : m = n
    · subst hmn
      have : r.flatMap (fun x => if x = m then c else []) = [] := by
        rw [List.flatMap_eq_nil_iff]
        intro x hx
        have : x ≠ m := fun e => hnd'.1 (e ▸ hx)
        simp [this]
      simp [this]
    · have hmem' : n ∈ r := by
        rcases List.mem_cons.1 hmem with h | h
        · exact absurd h.symm hmn
        · exact h
      simp [hmn, ih hnd'.2 hmem']

private theorem tableOrder_nodup (r12 : Bool) : (tableOrder r12).Nodup := by
  cases r12 <;> decide

private theorem tableOrder_sub (r12 : Bool) : ∀ n ∈ tableOrder r12, n ∈ tableNames := by
  cases r12 <;> decide

/-- nothing is lost, duplicated or reordered inside a table: the entries of type `n` in the output are exactly the
    entries of type `n` among the loaded groups, in their original order -/
theorem tables_entries_preserved (r12 : Bool) (es : List (List CTag)) (n : Str) (hn : n ∈ tableOrder r12) :
    (rebuildTables r12 es).filter (fun e => entryKey e == some n) = es.filter (fun e => entryKey e == some n) := by
  obtain ⟨h1, h2, h3⟩ := names_not_structure n (tableOrder_sub r12 n hn)
  unfold rebuildTables
  have hhead : (entryKey tablesHead == some n) = false := by
    have : entryKey tablesHead = some sSection := by rfl
    rw [this]; simpa using fun e => h1 e.symm
  simp only [List.filter_cons, hhead, Bool.false_eq_true, if_false, List.filter_flatMap]
  have hblock : ∀ m, (tableBlock es m).filter (fun e => entryKey e == some n)
      = if m = n then es.filter (fun e => entryKey e == some n) else [] := by
    intro m
    unfold tableBlock tableContent
    have hend : (entryKey endtab == some n) = false := by
      have : entryKey endtab = some sEndtab := by rfl
      rw [this]; simpa using fun e => h3 e.symm
    have hth : (entryKey (tableHeadFor es m) == some n) = false := by
      rw [tableHeadFor_key es m (by rfl)]; simpa using fun e => h2 e.symm
    split
    · next hemp =>
      have hnil : es.filter (fun e => entryKey e == some m) = [] := List.isEmpty_iff.1 hemp
      by_cases hmn : m = n
      · subst hmn; simp [hnil]
      · simp [hmn]
    · simp only [List.filter_cons, hth, Bool.false_eq_true, if_false, List.filter_append, hend, List.filter_nil,
        List.append_nil, List.filter_filter]
      by_cases hmn : m = n
      · subst hmn; simp
      · simp only [hmn, if_false]
        rw [List.filter_eq_nil_iff]
        intro e _
        simp only [Bool.and_eq_true, beq_iff_eq, not_and]
        intro he1 he2
        rw [he1] at he2
        exact hmn (Option.some.inj he2).symm
  simp only [hblock]
  exact flatMap_single n _ _ (tableOrder_nodup r12) hn

example : rebuildTables false [] = [tablesHead] := by rfl


/-! ## 5. `recover_rootdict` -/

theorem rootdict_length (objs : List (List CTag)) : (recoverRootdict objs).length = objs.length := by
  unfold recoverRootdict
  split
  · split
    · rfl
    · split
      · split <;> simp
      · rfl
  · rfl

/-- if the OBJECTS section (whose group 0 is the section head) holds a root dictionary anywhere, then after
    `recover_rootdict` the first object (index 1) is a root dictionary -/
theorem rootdict_moved_first (objs : List (List CTag)) (i : Nat) (hi : i < objs.length) (hi1 : 1 ≤ i)
    (hroot : isRootdict objs[i] = true) (h0 : ∀ h : 0 < objs.length, isRootdict objs[0] = false) :
    isRootdict ((recoverRootdict objs).getD 1 []) = true := by
  unfold recoverRootdict
  match objs, hi, hroot, h0 with
  | [], hi, _, _ => simp at hi
  | [o0], hi, _, _ => simp at hi; omega
  | o0 :: o1 :: rest, hi, hroot, h0 =>
    simp only
    split
    · next h1 => simpa using h1
    · next h1 =>
      cases hf : (o0 :: o1 :: rest).findIdx? isRootdict with
      | none =>
        have := (List.findIdx?_eq_none_iff.1 hf) _ (List.getElem_mem hi)
        rw [this] at hroot; cases hroot
      | some j =>
        obtain ⟨hj, hpj, hmin⟩ := List.findIdx?_eq_some_iff_getElem.1 hf
        have hj0 : j ≠ 0 := by
          intro e; subst e
          have := h0 (by simp)
          simp only [List.getElem_cons_zero] at this hpj
          rw [this] at hpj; cases hpj
        have hj1 : j ≠ 1 := by
          intro e; subst e
          simp only [List.getElem_cons_succ, List.getElem_cons_zero] at hpj
          exact h1 hpj
        simp only [beq_iff_eq, hj0, if_false]
        rw [List.getD_eq_getElem?_getD, List.getElem?_set]
        simp only [List.length_set, List.length_cons, if_true]
        have : 1 < rest.length + 1 + 1 := by omega
        simp only [this, if_true, Option.getD_some]
        rw [List.getD_eq_getElem?_getD, List.getElem?_eq_getElem hj]
        simpa using hpj

example : recoverRootdict [[tSection], [⟨0, .str sLine⟩], [⟨0, .str sDictionary⟩, ⟨3, .str sAcadGroup⟩]]
    = [[tSection], [⟨0, .str sDictionary⟩, ⟨3, .str sAcadGroup⟩], [⟨0, .str sLine⟩]] := by rfl



/-! ## 6. Byte level: a file cut at ANY byte is, for `bytes_loader`, a tag prefix plus at most one damaged tag -/

private theorem splitLinesAux_take (r : Bytes) :
    ∀ (cur : Bytes) (n : Nat), ∃ k p, splitLinesAux cur (r.take n) = (splitLinesAux cur r).take k ++ p ∧ p.length ≤ 1 := by
  induction r with
  | nil =>
    intro cur n
    refine ⟨(splitLinesAux cur []).length, [], ?_, by simp⟩
    simp
  | cons b r ih =>
    intro cur n
    cases n with
    | zero =>
      refine ⟨0, splitLinesAux cur [], by simp, ?_⟩
      unfold splitLinesAux; split <;> simp
    | succ n =>
      simp only [List.take_succ_cons]
      unfold splitLinesAux
      split
      · obtain ⟨k, p, h1, h2⟩ := ih [] n
        exact ⟨k + 1, p, by simp [h1], h2⟩
      · exact ih (b :: cur) n

/-- the lines of a truncated file are lines of the file, plus at most one (cut) line -/
theorem splitLines_take (bs : Bytes) (n : Nat) :
    ∃ k p, splitLines (bs.take n) = (splitLines bs).take k ++ p ∧ p.length ≤ 1 :=
  splitLinesAux_take bs [] n

private theorem loader_short (ls : List Bytes) (h : ls.length ≤ 2) : (bytesLoader ls).tags.length ≤ 1 := by
  match ls, h with
  | [], _ => simp [bytesLoader]
  | [c], _ => unfold bytesLoader; split <;> simp
  | [c, v], _ =>
    unfold bytesLoader
    split
    · simp
    · simp only [bytesLoader]
      split <;> split <;> simp

private theorem loader_take : ∀ (ls : List Bytes) (k : Nat) (p : List Bytes), p.length ≤ 1 →
    ∃ common extra, (bytesLoader (ls.take k ++ p)).tags = common ++ extra ∧ extra.length ≤ 1 ∧
      common <+: (bytesLoader ls).tags
  | [], k, p, hp => by
    refine ⟨[], (bytesLoader (([] : List Bytes).take k ++ p)).tags, by simp, loader_short _ ?_, List.nil_prefix⟩
    simp; omega
  | [c], k, p, hp => by
    refine ⟨[], (bytesLoader ([c].take k ++ p)).tags, by simp, loader_short _ ?_, List.nil_prefix⟩
    have : ([c].take k).length ≤ 1 := by simp [List.length_take]; omega
    simp only [List.length_append]; omega
  | c :: v :: rest, 0, p, hp => by
    refine ⟨[], (bytesLoader ((c :: v :: rest).take 0 ++ p)).tags, by simp, loader_short _ ?_, List.nil_prefix⟩
    simp; omega
  | c :: v :: rest, 1, p, hp => by
    refine ⟨[], (bytesLoader ((c :: v :: rest).take 1 ++ p)).tags, by simp, loader_short _ ?_, List.nil_prefix⟩
    simp; omega
  | c :: v :: rest, k + 2, p, hp => by
    obtain ⟨common, extra, h1, h2, h3⟩ := loader_take rest k p hp
    simp only [List.take_succ_cons, List.cons_append]
    unfold bytesLoader
    split
    · exact ⟨[], [], by simp, by simp, List.nil_prefix⟩
    · next code hcode =>
      simp only
      by_cases heof : (code == 0 && rstripCRLF v == sEof) = true
      · simp only [heof, if_true]
        split
        · exact ⟨_, [], by simp, by simp, List.prefix_refl _⟩
        · exact ⟨_, [], by simp, by simp, List.prefix_refl _⟩
      · simp only [heof, Bool.false_eq_true, if_false]
        split
        · refine ⟨⟨code, rstripCRLF v⟩ :: common, extra, by simp [h1], h2, ?_⟩
          simpa using h3
        · exact ⟨common, extra, h1, h2, h3⟩

/-- **crash point anywhere in the byte stream**: the tags `bytes_loader` delivers for `bytes.take n` are a prefix of
    the tags of the complete file, followed by at most one extra (cut or mispaired) tag -/
theorem loader_truncation (bs : Bytes) (n : Nat) :
    ∃ common extra, (bytesLoader (splitLines (bs.take n))).tags = common ++ extra ∧ extra.length ≤ 1 ∧
      common <+: (bytesLoader (splitLines bs)).tags := by
  obtain ⟨k, p, h1, h2⟩ := splitLines_take bs n
  rw [h1]
  exact loader_take (splitLines bs) k p h2



private theorem splitLinesAux_flatten (r : Bytes) : ∀ cur : Bytes, (splitLinesAux cur r).flatten = cur.reverse ++ r := by
  induction r with
  | nil => intro cur; unfold splitLinesAux; split <;> simp_all
  | cons b r ih =>
    intro cur
    unfold splitLinesAux
    split
    · simp [ih]
    · rw [ih]; simp

/-- `readline()` loses nothing: the lines concatenate back to the byte string -/
theorem splitLines_flatten (bs : Bytes) : (splitLines bs).flatten = bs := by
  simpa [splitLines] using splitLinesAux_flatten bs []

example : splitLines [48, 10, 69, 79, 70, 13, 10, 55] = [[48, 10], [69, 79, 70, 13, 10], [55]] := by rfl
example : (bytesLoader (splitLines [32, 32, 48, 13, 10, 69, 79, 70, 13, 10, 55])).tags = [⟨0, sEof⟩] := by rfl


/-! ## 8. A single fault inside one entity: all other entities are loaded with identical tags -/

open EzdxfVerif.Lemmas.RecoverFault in
/-- an entity as it stands in a written ENTITIES section: a (0, type) tag that is not SECTION / ENDSEC / EOF followed
    by tags with other group codes -/
def WFEntity (g : List CTag) : Prop := WFGroup g ∧ ∀ x ∈ g, isStruct x = false

/-- tags that may trail the section head (the remains of a first entity that lost its (0, type) tag) -/
def Junk (j : List CTag) : Prop := ∀ x ∈ j, x.code ≠ 0

private theorem junk_nonstruct (j : List CTag) (hj : Junk j) : ∀ x ∈ j, isStruct x = false := by
  intro x hx
  have := hj x hx
  unfold isStruct
  have : (x.code == 0) = false := by simpa using this
  simp [this]

private theorem body_nonstruct (j : List CTag) (es : List (List CTag)) (hj : Junk j) (hes : ∀ g ∈ es, WFEntity g) :
    ∀ x ∈ j ++ es.flatten, isStruct x = false := by
  intro x hx
  rcases List.mem_append.1 hx with h | h
  · exact junk_nonstruct j hj x h
  · obtain ⟨g, hg, hxg⟩ := List.mem_flatten.1 h
    exact (hes g hg).2 x hxg

private theorem isStruct_eq (x : CTag) : EzdxfVerif.Lemmas.RecoverFault.isStruct x = isStruct x := rfl

private theorem checkEntity_head (r12 : Bool) (j : List CTag) :
    checkEntity r12 (tSection :: tEntName :: j) = .ok (tSection :: tEntName :: j) := by
  have : excludeStructureCheck.contains (entityType (tSection :: tEntName :: j)) = true := by
    show excludeStructureCheck.contains sSection = true
    decide
  unfold checkEntity
  rw [if_pos this]

/-- **one run**: the ENTITIES section of the file is the concatenation of the entities `es` (after optional junk
    behind the section head).  If the front end returns, the ENTITIES entry of the section dict holds the section head
    and, entity by entity and in order, `check_entities` of exactly those groups: nothing moves between entities. -/
theorem entities_grouped (cfg : Cfg) (a t j : List CTag) (es : List (List CTag)) (d : SectionDict)
    (ha : NoEnt a) (ht : NoEnt t) (hj : Junk j) (hes : ∀ g ∈ es, WFEntity g)
    (h : frontTags cfg (a ++ tSection :: tEntName :: (j ++ es.flatten) ++ tEndsec :: t) = .ok d) :
    ∃ r12 gs, entitiesOf d = some ((tSection :: tEntName :: j) :: gs) ∧ checkEntities r12 es = .ok gs := by
  obtain ⟨r12, gs, h1, h2⟩ := sections_prefix_stable cfg a (j ++ es.flatten) t d ha ht (body_nonstruct j es hj hes) h
  rw [EzdxfVerif.Lemmas.RecoverFault.groupTags_section tSection tEntName rfl (by decide) j hj es
    (fun g hg => (hes g hg).1)] at h2
  unfold checkEntities at h2
  rw [checkEntity_head] at h2
  simp only at h2
  split at h2
  · simp at h2
  · next gs' hgs' =>
    simp only [Except.ok.injEq] at h2
    exact ⟨r12, gs', by rw [h1, ← h2], hgs'⟩

/-- **Single fault, two runs.**  Two files that differ only in ONE region of the ENTITIES section: the entities `pre`
    in front of it and `post` behind it are the same, the region itself holds the entity groups `m1` in the undamaged
    file and `m2` in the damaged one (any lists of well-formed groups, see the instances below; `j1` / `j2` = junk
    behind the section head).  If the front end returns for both, then both are loaded in the same R12 mode and
    the ENTITIES entries are  head :: pre' ++ m1' ++ post'  and  head :: pre' ++ m2' ++ post'  with THE SAME
    `pre'` = check_entities(pre) and `post'` = check_entities(post): every entity outside the damaged region is loaded
    with identical tags, in the same order, and nothing of the damaged region leaks into them. -/
theorem entities_survive_single_fault (cfg : Cfg) (a t j1 j2 : List CTag) (pre post m1 m2 : List (List CTag))
    (d1 d2 : SectionDict) (ha : NoEnt a) (ht : NoEnt t) (hj1 : Junk j1) (hj2 : Junk j2)
    (hpre : ∀ g ∈ pre, WFEntity g) (hpost : ∀ g ∈ post, WFEntity g)
    (hm1 : ∀ g ∈ m1, WFEntity g) (hm2 : ∀ g ∈ m2, WFEntity g)
    (h1 : frontTags cfg (a ++ tSection :: tEntName :: (j1 ++ (pre ++ m1 ++ post).flatten) ++ tEndsec :: t) = .ok d1)
    (h2 : frontTags cfg (a ++ tSection :: tEntName :: (j2 ++ (pre ++ m2 ++ post).flatten) ++ tEndsec :: t) = .ok d2) :
    ∃ r12 gpre gpost g1 g2,
      checkEntities r12 pre = .ok gpre ∧ checkEntities r12 post = .ok gpost ∧
      checkEntities r12 m1 = .ok g1 ∧ checkEntities r12 m2 = .ok g2 ∧
      entitiesOf d1 = some ((tSection :: tEntName :: j1) :: (gpre ++ g1 ++ gpost)) ∧
      entitiesOf d2 = some ((tSection :: tEntName :: j2) :: (gpre ++ g2 ++ gpost)) := by
  have hall : ∀ m : List (List CTag), (∀ g ∈ m, WFEntity g) → ∀ g ∈ pre ++ m ++ post, WFEntity g := by
    intro m hm g hg
    rcases List.mem_append.1 hg with h | h
    · rcases List.mem_append.1 h with h' | h'
      · exact hpre g h'
      · exact hm g h'
    · exact hpost g h
  have hb1 := body_nonstruct j1 _ hj1 (hall m1 hm1)
  have hb2 := body_nonstruct j2 _ hj2 (hall m2 hm2)
  obtain ⟨v1, e1, gs1, l1, o1, c1⟩ := sections_prefix_stable_v cfg a _ t d1 ha ht hb1 h1
  obtain ⟨v2, e2, gs2, l2, o2, c2⟩ := sections_prefix_stable_v cfg a _ t d2 ha ht hb2 h2
  have hv : v1 = v2 := EzdxfVerif.Lemmas.RecoverFault.version_independent cfg a t _ _ hb1 hb2 v1 v2 e1 e2 l1 l2
  subst hv
  rw [EzdxfVerif.Lemmas.RecoverFault.groupTags_section tSection tEntName rfl (by decide) j1 hj1 _
    (fun g hg => (hall m1 hm1 g hg).1)] at c1
  rw [EzdxfVerif.Lemmas.RecoverFault.groupTags_section tSection tEntName rfl (by decide) j2 hj2 _
    (fun g hg => (hall m2 hm2 g hg).1)] at c2
  unfold checkEntities at c1 c2
  rw [checkEntity_head] at c1 c2
  simp only at c1 c2
  split at c1
  · simp at c1
  · next r1 hr1 =>
    split at c2
    · simp at c2
    · next r2 hr2 =>
      simp only [Except.ok.injEq] at c1 c2
      obtain ⟨x1, gpost1, ex1, hx1, hpost1⟩ := EzdxfVerif.Lemmas.RecoverFault.checkEntities_append _ _ _ _ hr1
      obtain ⟨gpre1, g1, ey1, hpre1, hg1⟩ := EzdxfVerif.Lemmas.RecoverFault.checkEntities_append _ _ _ _ hx1
      obtain ⟨x2, gpost2, ex2, hx2, hpost2⟩ := EzdxfVerif.Lemmas.RecoverFault.checkEntities_append _ _ _ _ hr2
      obtain ⟨gpre2, g2, ey2, hpre2, hg2⟩ := EzdxfVerif.Lemmas.RecoverFault.checkEntities_append _ _ _ _ hx2
      have epre : gpre1 = gpre2 := by
        have := hpre1.symm.trans hpre2
        simpa using this
      have epost : gpost1 = gpost2 := by
        have := hpost1.symm.trans hpost2
        simpa using this
      subst epre epost
      refine ⟨strLe v1 sAc1009, gpre1, gpost1, g1, g2, hpre1, hpost1, hg1, hg2, ?_, ?_⟩
      · rw [o1, ← c1, ex1, ey1]
      · rw [o2, ← c2, ex2, ey2]

/-- the number of entities outside the damaged region is kept as well -/
theorem single_fault_counts (r12 : Bool) (pre gpre : List (List CTag)) (h : checkEntities r12 pre = .ok gpre) :
    gpre.length = pre.length := EzdxfVerif.Lemmas.RecoverFault.checkEntities_length r12 pre gpre h

/-! The fault classes of the catalogue as instances of `entities_survive_single_fault` (tag level):
  * the value or the (non-zero) group code of a tag of entity `e` is replaced by garbage, a tag of `e` is dropped,
    duplicated, swapped with its neighbour inside `e`, a tag with a non-zero code is inserted:
    `m1 = [e]`, `m2 = [e']` for any well-formed `e'`;
  * the (0, type) tag of entity `h :: tl` is lost (dropped, its code replaced by a non-zero one): the rest merges into
    the entity `p` in front of it: `m1 = [p, h :: tl]`, `m2 = [p ++ tl]` resp. `[p ++ x :: tl]`; for the first entity of
    the section `m1 = [h :: tl]`, `m2 = []`, `j2 = tl`;
  * a (0, ..) tag appears inside entity `h :: (tl1 ++ tl2)` (a code replaced by 0, a duplicated / swapped-in (0, ..)
    tag): `m1 = [h :: (tl1 ++ tl2)]`, `m2 = [h :: tl1, z :: tl2]`.
  The identities below show that these `m2` really are the damaged tag streams. -/
example (pre post : List (List CTag)) (p tl : List CTag) (h : CTag) :
    (pre ++ [p, h :: tl] ++ post).flatten = (pre.flatten ++ p) ++ h :: (tl ++ post.flatten) ∧
    (pre ++ [p ++ tl] ++ post).flatten = (pre.flatten ++ p) ++ (tl ++ post.flatten) := by
  constructor <;> simp
example (pre post : List (List CTag)) (tl1 tl2 : List CTag) (h z : CTag) :
    (pre ++ [h :: (tl1 ++ tl2)] ++ post).flatten = (pre.flatten ++ h :: tl1) ++ (tl2 ++ post.flatten) ∧
    (pre ++ [h :: tl1, z :: tl2] ++ post).flatten = (pre.flatten ++ h :: tl1) ++ z :: (tl2 ++ post.flatten) := by
  constructor <;> simp
example (post : List (List CTag)) (tl : List CTag) (h : CTag) :
    ([] ++ (([] : List (List CTag)) ++ [h :: tl] ++ post).flatten) = h :: (tl ++ post.flatten) ∧
    (tl ++ (([] : List (List CTag)) ++ [] ++ post).flatten) = tl ++ post.flatten := by
  constructor <;> simp

/-- non-vacuity: LINE / CIRCLE / POINT with a garbage value inside the CIRCLE and with the CIRCLE's (0, ..) tag lost -/
def exLine : List CTag := [⟨0, .str sLine⟩, ⟨5, .str [49]⟩, ⟨10, .vtx⟩]
def exCircle : List CTag := [⟨0, .str [67, 73, 82, 67, 76, 69]⟩, ⟨40, .num⟩]
def exCircleBad : List CTag := [⟨0, .str [67, 73, 82, 67, 76, 69]⟩, ⟨1, .str [120, 121, 122]⟩]
def exPoint : List CTag := [⟨0, .str [80, 79, 73, 78, 84]⟩, ⟨10, .vtx⟩]

example : (frontTags .fixed (exA ++ tSection :: tEntName :: ([] ++ ([exLine] ++ [exCircle] ++ [exPoint]).flatten) ++ tEndsec :: exT)).toOption.bind entitiesOf
    = some [[tSection, tEntName], exLine, exCircle, exPoint] := by rfl
example : (frontTags .fixed (exA ++ tSection :: tEntName :: ([] ++ ([exLine] ++ [exCircleBad] ++ [exPoint]).flatten) ++ tEndsec :: exT)).toOption.bind entitiesOf
    = some [[tSection, tEntName], exLine, exCircleBad, exPoint] := by rfl
example : (frontTags .fixed (exA ++ tSection :: tEntName :: ([] ++ ([] ++ [exLine ++ exCircle.tail] ++ [exPoint]).flatten) ++ tEndsec :: exT)).toOption.bind entitiesOf
    = some [[tSection, tEntName], exLine ++ exCircle.tail, exPoint] := by rfl
example : WFEntity exLine ∧ WFEntity exCircleBad ∧ WFEntity (exLine ++ exCircle.tail) := by
  refine ⟨⟨⟨_, _, rfl, rfl, by decide⟩, by decide⟩, ⟨⟨_, _, rfl, rfl, by decide⟩, by decide⟩,
    ⟨⟨_, _, rfl, rfl, by decide⟩, by decide⟩⟩

/-! ## 9. Behind the front end: the generic envelope of the first loading stage (Model/RecoverLoad.lean) -/

section load
open EzdxfVerif.RecoverLoad

/-- `ExtendedTags._setup` on ANY tag list: the "Unexpected tag ... at end of entity" branch is unreachable; the only
    exception is the DXFStructureError for an application-data group that is not closed -/
theorem setup_only_missing_app_close (e : List CTag) (x : SetupErr) (h : setup e = .error x) : x = .missingAppClose :=
  EzdxfVerif.Lemmas.RecoverLoad.setupGo_error e St.init x h

/-- ... and it is raised exactly when the tag list ends inside an application-data group of the base class -/
theorem setup_error_iff (e : List CTag) :
    (∃ x, setup e = .error x) ↔ ∃ st, EzdxfVerif.Lemmas.RecoverLoad.endPhase St.init e = .app st :=
  EzdxfVerif.Lemmas.RecoverLoad.setupGo_error_iff e St.init

/-- `ExtendedTags` loses and reorders nothing: whenever `_setup` does not raise, iterating the result
    (`ExtendedTags.__iter__`: base class with the app-data groups at their placeholders, subclasses, embedded objects,
    XDATA) gives back exactly the tag list it was built from - for EVERY (damaged) tag list -/
theorem setup_iter (e : List CTag) (x : XT) (h : setup e = .ok x) : x.iter = e :=
  EzdxfVerif.Lemmas.RecoverLoad.setup_iter e x h

/-- totality of the generic first loading stage of one entity (ExtendedTags + setup_app_data + XData): it returns an
    envelope or raises DXFStructureError, for EVERY tag list -/
theorem load_envelope_total (e : List CTag) :
    (∃ v, loadEnvelope e = .ok v) ∨ loadEnvelope e = .error .dxfStructureError := by
  cases h : loadEnvelope e with
  | ok v => exact Or.inl ⟨v, rfl⟩
  | error x => right; rw [EzdxfVerif.Lemmas.RecoverLoad.loadEnvelope_err e x h]

/-- the same for the whole section dict in the order of `load_and_bind_dxf_content` -/
theorem load_stage_total (d : SectionDict) :
    (∃ vs, loadStage d = .ok vs) ∨ loadStage d = .error .dxfStructureError := by
  unfold loadStage
  cases h : loadAll (loadSequence d) with
  | ok v => exact Or.inl ⟨v, rfl⟩
  | error x => right; rw [EzdxfVerif.Lemmas.RecoverLoad.loadAll_err _ x h]

/-- what `Recover.check_entities` passes (every entity type but XRECORD and the unchecked structure types) never makes
    `ExtendedTags` raise: for those entities the structure validator of the front end subsumes the loader's check -/
theorem checked_entity_loads (r12 : Bool) (e e' : List CTag) (h : checkEntity r12 e = .ok e')
    (hex : excludeStructureCheck.contains (entityType e) = false) (hx : (entityType e == sXrecord) = false) :
    ∃ x, setup e' = .ok x :=
  EzdxfVerif.Lemmas.RecoverLoad.checked_group_setup_ok r12 e e' h hex hx

/-- the exclusion of XRECORD is necessary: this XRECORD passes `check_entities` and `ExtendedTags` raises
    DXFStructureError for it (recover.read() then raises DXFStructureError, which the property allows) -/
def exXrecord : List CTag := [⟨0, .str sXrecord⟩, ⟨5, .str [49]⟩, ⟨102, .str [123, 65]⟩, ⟨330, .str [49]⟩]
example : checkEntity false exXrecord = .ok exXrecord ∧ setup exXrecord = .error .missingAppClose := by
  constructor <;> rfl
example : ∃ x, setup exLine = .ok x := ⟨_, rfl⟩

/-- the reactor handles an entity holds after loading are valid handles, so `Reactors.get()` (sorted by
    `int(x, 16)`, used by the export) cannot raise.  Stated for the tree under test: `treeFixReactors` is probed from
    the source, reverting the fix re-opens this theorem. -/
theorem reactors_sortable (e : List CTag) (v : Envelope) (h : loadEnvelope e = .ok v) (hs : List Str)
    (hr : v.reactors = some hs) : ∀ x ∈ hs, (pyIntHex x).isSome = true := by
  unfold loadEnvelope at h
  split at h
  · simp at h
  · next xt _ =>
    split at h
    · simp at h
    · next acc hacc =>
      simp only [Except.ok.injEq] at h
      rw [← h] at hr
      exact EzdxfVerif.Lemmas.RecoverLoad.setupAppData_reactors (by decide) xt.appdata ⟨none, none, []⟩ acc
        (by intro hs' h'; simp at h') hacc hs hr

example : (loadEnvelope [⟨0, .str sLine⟩, ⟨102, .str sAcadReactors⟩, ⟨330, .str [120, 121, 122]⟩, ⟨330, .str [49, 70]⟩,
    ⟨102, .str [125]⟩]).toOption.bind (·.reactors) = some [[49, 70]] := by rfl

/-- the XDATA an entity holds after loading (fast path or `XData.safe_init`) consists of valid XDATA group codes -/
theorem xdata_codes_valid (e : List CTag) (v : Envelope) (h : loadEnvelope e = .ok v) :
    ∀ g ∈ v.xdata, g.2.all (fun t => isValidXdataCode t.code) = true := by
  unfold loadEnvelope at h
  split at h
  · simp at h
  · next xt _ =>
    split at h
    · simp at h
    · simp only [Except.ok.injEq] at h
      rw [← h]
      exact EzdxfVerif.Lemmas.RecoverLoad.xdataInit_ok xt.xdata

end load

/-! ## 10. The crashed writer at BYTE level: through the repair filters and `byte_tag_compiler` -/

/-- the tag pipeline of `safe_tag_loader` is causal: for every continuation `Q` of the raw tags `P` (and for both
    end-of-stream modes) the compiled tags start with what was emitted when `P` had been consumed -/
theorem pipeline_causal (cfg : Cfg) (enc : Enc) (P Q : List RawTag) (err : Option PyErr) (T : List CTag)
    (h : compile cfg enc (repairTags ⟨P ++ Q, err⟩) = .ok T) :
    ∃ out rest, EzdxfVerif.Lemmas.RecoverCausal.emitted cfg enc P = .ok out ∧ T = out ++ rest :=
  EzdxfVerif.Lemmas.RecoverCausal.pipeline_causal cfg enc P Q err T h

/-- **The crashed writer, byte level.**  The file `bs` is cut after ANY number `n` of bytes.  `P` = the raw tags that
    the cut left intact (`loader_truncation`: a prefix of the tags of the complete file; the cut file delivers `P` plus
    at most one damaged tag).  If the encoding is decided within `P` ($DWGCODEPAGE and $ACADVER are in the intact part)
    and the compiled tags emitted for `P` contain a completely written  SECTION (2,ENTITIES) body ENDSEC  (no other
    (2, ENTITIES) tag in the result), then whenever `recover` returns a section dict for the cut file, its ENTITIES
    entry is exactly the entity groups of `body` - the statement of `sections_prefix_stable` lifted through
    `tag_reorder_layer`, `filter_invalid_point_codes`, `filter_invalid_handles`, `byte_tag_compiler`, `bytes_loader`
    and the line splitting. -/
theorem crashed_writer_bytes (cfg : Cfg) (bs : Bytes) (n : Nat) (d : SectionDict)
    (h : recoverFront cfg (bs.take n) = .ok d) :
    ∃ P extra, (bytesLoader (splitLines (bs.take n))).tags = P ++ extra ∧ extra.length ≤ 1 ∧
      P <+: (bytesLoader (splitLines bs)).tags ∧
      ∀ (enc : Enc) (a body t0 : List CTag),
        detectGo cfg (some .dxfStructureError) none none 0 P = .ok enc →
        EzdxfVerif.Lemmas.RecoverCausal.emitted cfg enc P = .ok (a ++ tSection :: tEntName :: body ++ tEndsec :: t0) →
        NoEnt a → (∀ x ∈ body, isStruct x = false) →
        (∀ T' rest, loadTags cfg (bs.take n) = .ok T' → T' = a ++ tSection :: tEntName :: body ++ tEndsec :: rest → NoEnt rest) →
        ∃ r12 gs, entitiesOf d = some gs ∧
          checkEntities r12 (groupTags (tSection :: tEntName :: body)) = .ok gs := by
  obtain ⟨P, extra, hP, hlen, hpre⟩ := loader_truncation bs n
  refine ⟨P, extra, hP, hlen, hpre, ?_⟩
  intro enc a body t0 hdec hemit ha hb hno
  unfold recoverFront at h
  cases hT : loadTags cfg (bs.take n) with
  | error e => rw [hT] at h; simp at h
  | ok T' =>
    rw [hT] at h
    simp only at h
    have hT0 := hT
    unfold loadTags at hT
    simp only at hT
    generalize hs : bytesLoader (splitLines (bs.take n)) = s at hT hP
    obtain ⟨tags, err⟩ := s
    simp only at hP
    subst hP
    have hdet : detectEncoding cfg ⟨P ++ extra, err⟩ = .ok enc := by
      unfold detectEncoding
      exact EzdxfVerif.Lemmas.RecoverCausal.detectGo_causal cfg P extra err enc none none 0 hdec
    rw [hdet] at hT
    simp only at hT
    cases hc : compile cfg enc (repairTags ⟨P ++ extra, err⟩) with
    | error e => rw [hc] at hT; simp at hT
    | ok T1 =>
      rw [hc] at hT
      simp only at hT
      have hT1 : T1 = T' := by
        cases err with
        | none => simpa using hT
        | some e => simp at hT
      subst hT1
      obtain ⟨out, rest, ho, hsplit⟩ := EzdxfVerif.Lemmas.RecoverCausal.pipeline_causal cfg enc P extra err T1 hc
      rw [hemit] at ho
      simp only [Except.ok.injEq] at ho
      have hshape : T1 = a ++ tSection :: tEntName :: body ++ tEndsec :: (t0 ++ rest) := by
        rw [hsplit, ← ho]; simp
      have hnoent := hno T1 (t0 ++ rest) hT0 hshape
      rw [hshape] at h
      exact sections_prefix_stable cfg a body (t0 ++ rest) d ha hnoent hb h


/-- the observable of the property at byte level: the DXF types (and the number) of the entities the recovered section
    dict holds are those of the completely written ENTITIES section - independent of the R12 mode -/
theorem crashed_writer_bytes_types (cfg : Cfg) (bs : Bytes) (n : Nat) (d : SectionDict)
    (h : recoverFront cfg (bs.take n) = .ok d) :
    ∃ P extra, (bytesLoader (splitLines (bs.take n))).tags = P ++ extra ∧ extra.length ≤ 1 ∧
      P <+: (bytesLoader (splitLines bs)).tags ∧
      ∀ (enc : Enc) (a body t0 : List CTag),
        detectGo cfg (some .dxfStructureError) none none 0 P = .ok enc →
        EzdxfVerif.Lemmas.RecoverCausal.emitted cfg enc P = .ok (a ++ tSection :: tEntName :: body ++ tEndsec :: t0) →
        NoEnt a → (∀ x ∈ body, isStruct x = false) →
        (∀ T' rest, loadTags cfg (bs.take n) = .ok T' → T' = a ++ tSection :: tEntName :: body ++ tEndsec :: rest → NoEnt rest) →
        ∃ gs, entitiesOf d = some gs ∧
          gs.map entityType = (groupTags (tSection :: tEntName :: body)).map entityType := by
  obtain ⟨P, extra, h1, h2, h3, h4⟩ := crashed_writer_bytes cfg bs n d h
  refine ⟨P, extra, h1, h2, h3, ?_⟩
  intro enc a body t0 hd he ha hb hno
  obtain ⟨r12, gs, g1, g2⟩ := h4 enc a body t0 hd he ha hb hno
  exact ⟨gs, g1, checkEntities_types r12 _ gs (groupGo_heads _ none (by intro g hg; cases hg)) g2⟩

/-- non-vacuity: a file with HEADER ($ACADVER AC1015, $DWGCODEPAGE), an ENTITIES section with one LINE (legacy coordinate
    order, so `tag_reorder_layer` really works) and an OBJECTS section, cut in the middle of the OBJECTS section (inside a
    value line): the front end returns, the intact raw tags decide the encoding and compile to a stream with the complete
    ENTITIES section, whose single LINE is what the section dict holds -/
def exFile : Bytes :=
  ("0\nSECTION\n2\nHEADER\n9\n$ACADVER\n1\nAC1015\n9\n$DWGCODEPAGE\n3\nANSI_1252\n0\nENDSEC\n" ++
   "0\nSECTION\n2\nENTITIES\n0\nLINE\n8\n0\n10\n1.0\n11\n3.0\n20\n2.0\n21\n4.0\n0\nENDSEC\n" ++
   "0\nSECTION\n2\nOBJECTS\n0\nDICTIONARY\n5\nC\n0\nENDSEC\n0\nEOF\n").toUTF8.toList.map (·.toNat)
def exCut : Nat := exFile.length - 18
def exIntact : List RawTag := (bytesLoader (splitLines (exFile.take exCut))).tags.dropLast
def exLineTags : List CTag := [⟨0, .str sLine⟩, ⟨8, .str [48]⟩, ⟨10, .vtx⟩, ⟨11, .vtx⟩]
#guard (recoverFront .fixed (exFile.take exCut)).toOption.isSome
#guard (detectGo .fixed (some .dxfStructureError) none none 0 exIntact).toOption == some Enc.cp1252
#guard (EzdxfVerif.Lemmas.RecoverCausal.emitted .fixed .cp1252 exIntact).toOption ==
  some ([tSection, ⟨2, .str sHeader⟩, ⟨9, .str sVAcadver⟩, ⟨1, .str [65, 67, 49, 48, 49, 53]⟩, ⟨9, .str sVDwgcodepage⟩,
         ⟨3, .str [65, 78, 83, 73, 95, 49, 50, 53, 50]⟩, tEndsec]
        ++ tSection :: tEntName :: exLineTags ++ tEndsec :: [tSection, ⟨2, .str sObjects⟩])
#guard ((recoverFront .fixed (exFile.take exCut)).toOption.bind entitiesOf) == some [[tSection, tEntName], exLineTags]
#guard ((recoverFront .fixed exFile).toOption.bind entitiesOf) == some [[tSection, tEntName], exLineTags]

/-! ## 11. A single fault at RAW-TAG level (what `bytes_loader` delivers): the compiled stream changes only in a window -/

open EzdxfVerif.Lemmas.RecoverCausal in
/-- **Single fault, raw tags.**  Two raw tag streams  A ++ E1 ++ z :: B  and  A ++ E2 ++ z :: B  that differ only in the
    region E1 / E2 (ANY raw tags: garbage values and codes, dropped / duplicated / swapped / inserted lines, a lost or an
    extra (0, ..) tag), `z` = the first (0, ..) tag behind the region.  If the repair filters + `byte_tag_compiler` return
    for both, the compiled streams agree on the prefix `X` = what was emitted for `A` and on the suffix `S` = the compiled
    tags of `z :: B` taken as a stream of its own.  The one way a damaged region can reach beyond `z` is the
    `expected_code` that `filter_invalid_point_codes` keeps across (0, ..) tags; the hypotheses say that no tag between
    `z` and the next point-code tag carries that stale code (`staleExp`, a y/z coordinate code) or the code -1
    (lone y/z coordinate tags do not occur in a written file).  `stale_code_matters` shows the hypothesis is needed. -/
theorem single_fault_window (cfg : Cfg) (enc : Enc) (A E1 E2 B : List RawTag) (z : RawTag) (hz : z.code = 0)
    (err : Option PyErr) (T1 T2 : List CTag)
    (hs1 : ∀ t ∈ headPart (tagReorder none (z :: B)).tail, t.code ≠ staleExp (A ++ E1) ∧ t.code ≠ -1)
    (hs2 : ∀ t ∈ headPart (tagReorder none (z :: B)).tail, t.code ≠ staleExp (A ++ E2) ∧ t.code ≠ -1)
    (h1 : compile cfg enc (repairTags ⟨A ++ E1 ++ z :: B, err⟩) = .ok T1)
    (h2 : compile cfg enc (repairTags ⟨A ++ E2 ++ z :: B, err⟩) = .ok T2) :
    ∃ X S R1 R2 M1 M2, emitted cfg enc A = .ok X ∧ compile cfg enc (repairTags ⟨z :: B, err⟩) = .ok S ∧
      T1 = X ++ R1 ∧ T2 = X ++ R2 ∧ T1 = M1 ++ S ∧ T2 = M2 ++ S := by
  obtain ⟨M1, S1, e1, c1⟩ := pipeline_split cfg enc (A ++ E1) B z hz err T1 hs1 h1
  obtain ⟨M2, S2, e2, c2⟩ := pipeline_split cfg enc (A ++ E2) B z hz err T2 hs2 h2
  have hS : S1 = S2 := by
    have := c1.symm.trans c2
    simpa using this
  subst hS
  rw [List.append_assoc] at h1 h2
  obtain ⟨X1, R1, x1, r1⟩ := EzdxfVerif.Lemmas.RecoverCausal.pipeline_causal cfg enc A (E1 ++ z :: B) err T1 h1
  obtain ⟨X2, R2, x2, r2⟩ := EzdxfVerif.Lemmas.RecoverCausal.pipeline_causal cfg enc A (E2 ++ z :: B) err T2 h2
  have hX : X1 = X2 := by
    have := x1.symm.trans x2
    simpa using this
  subst hX
  exact ⟨X1, S1, R1, R2, M1, M2, x1, c1, r1, r2, e1, e2⟩

/-- everything in front of the damaged region is untouched without any hypothesis (causality alone) -/
theorem single_fault_prefix (cfg : Cfg) (enc : Enc) (A Q1 Q2 : List RawTag) (err1 err2 : Option PyErr) (T1 T2 : List CTag)
    (h1 : compile cfg enc (repairTags ⟨A ++ Q1, err1⟩) = .ok T1)
    (h2 : compile cfg enc (repairTags ⟨A ++ Q2, err2⟩) = .ok T2) :
    ∃ X R1 R2, EzdxfVerif.Lemmas.RecoverCausal.emitted cfg enc A = .ok X ∧ T1 = X ++ R1 ∧ T2 = X ++ R2 := by
  obtain ⟨X1, R1, x1, r1⟩ := EzdxfVerif.Lemmas.RecoverCausal.pipeline_causal cfg enc A Q1 err1 T1 h1
  obtain ⟨X2, R2, x2, r2⟩ := EzdxfVerif.Lemmas.RecoverCausal.pipeline_causal cfg enc A Q2 err2 T2 h2
  have hX : X1 = X2 := by
    have := x1.symm.trans x2
    simpa using this
  subst hX
  exact ⟨X1, R1, R2, x1, r1, r2⟩

/-- the stale-code hypothesis is necessary: a POINT that lost its y coordinate leaves expected_code = 20 behind; lone
    (20, ..) (30, ..) tags of the NEXT entity, which are dropped in a stream of their own, are then kept -/
def exStaleP : List RawTag := [⟨0, [80, 79, 73, 78, 84]⟩, ⟨10, [49]⟩]
def exStaleZ : RawTag := ⟨0, [67, 73, 82, 67, 76, 69]⟩
def exStaleB : List RawTag := [⟨20, [53]⟩, ⟨30, [54]⟩, ⟨40, [49]⟩]
theorem stale_code_matters :
    EzdxfVerif.Lemmas.RecoverCausal.staleExp exStaleP = 20 ∧
    (compile .fixed .cp1252 (repairTags ⟨exStaleZ :: exStaleB, none⟩)).toOption
      = some [⟨0, .str [67, 73, 82, 67, 76, 69]⟩, ⟨40, .num⟩] ∧
    (compile .fixed .cp1252 (repairTags ⟨exStaleP ++ exStaleZ :: exStaleB, none⟩)).toOption
      = some [⟨0, .str [80, 79, 73, 78, 84]⟩, ⟨0, .str [67, 73, 82, 67, 76, 69]⟩, ⟨20, .num⟩, ⟨30, .num⟩, ⟨40, .num⟩] := by
  refine ⟨?_, ?_, ?_⟩ <;> rfl

/-- non-vacuity of `single_fault_window`: LINE / CIRCLE / POINT where the CIRCLE's radius value is garbage that
    `recover_float` still accepts resp. its (40, ..) line pair was dropped -/
def exRawA : List RawTag := [⟨0, sLine⟩, ⟨8, [48]⟩, ⟨10, [49]⟩, ⟨20, [50]⟩]
def exRawE1 : List RawTag := [⟨0, [67, 73, 82, 67, 76, 69]⟩, ⟨10, [49]⟩, ⟨20, [50]⟩, ⟨40, [51]⟩]
def exRawE2 : List RawTag := [⟨0, [67, 73, 82, 67, 76, 69]⟩, ⟨10, [49]⟩, ⟨20, [50]⟩]
def exRawZ : RawTag := ⟨0, [80, 79, 73, 78, 84]⟩
def exRawB : List RawTag := [⟨8, [48]⟩, ⟨10, [53]⟩, ⟨20, [54]⟩, ⟨0, sEof⟩]
#guard (compile .fixed .cp1252 (repairTags ⟨exRawA ++ exRawE1 ++ exRawZ :: exRawB, none⟩)).toOption.isSome
#guard (compile .fixed .cp1252 (repairTags ⟨exRawA ++ exRawE2 ++ exRawZ :: exRawB, none⟩)).toOption.isSome
#guard (EzdxfVerif.Lemmas.RecoverCausal.headPart (tagReorder none (exRawZ :: exRawB)).tail).all
  (fun t => t.code != EzdxfVerif.Lemmas.RecoverCausal.staleExp (exRawA ++ exRawE1) && t.code != -1 &&
            t.code != EzdxfVerif.Lemmas.RecoverCausal.staleExp (exRawA ++ exRawE2))

/-! ## 12. A single fault at BYTE level, for faults that keep the pairing of code and value lines -/

open EzdxfVerif.Lemmas.RecoverCausal in
/-- bytes → raw tags: a file  chunk A ++ chunk E ++ rest  (chunks = complete code/value line pairs whose codes parse,
    without an EOF tag) is loaded by `bytes_loader` as  tags(A) ++ tags(E) ++ tags(rest) -/
theorem loader_region (psA psE : List (Bytes × Bytes)) (hA : ∀ p ∈ psA, PairOk p) (hE : ∀ p ∈ psE, PairOk p) (bB : Bytes) :
    bytesLoader (splitLines (chunkBytes psA ++ chunkBytes psE ++ bB)) =
      ⟨chunkTags psA ++ chunkTags psE ++ (bytesLoader (splitLines bB)).tags, (bytesLoader (splitLines bB)).err⟩ :=
  EzdxfVerif.Lemmas.RecoverCausal.loader_region psA psE hA hE bB

open EzdxfVerif.Lemmas.RecoverCausal in
/-- **Single fault, bytes.**  Two files  A ++ E1 ++ rest  and  A ++ E2 ++ rest  (bytes) whose damaged regions E1, E2 are
    ANY sequences of complete code/value line pairs with parsable group codes - this covers, for every tag position: the
    value line replaced by arbitrary garbage without LF (`garb_value`), the code line replaced by garbage that still
    parses (`garb_code`), the tag dropped (`drop_tag`), duplicated (`dup_tag`), swapped with its neighbour (`swap`),
    tags inserted.  If the rest starts with a (0, ..) tag `z` and the stale-code condition of `single_fault_window`
    holds, then the compiled tag streams of the two files (the input of `rebuild_sections`) agree on everything emitted for
    A and on the complete compiled stream of the rest. -/
theorem single_fault_bytes (cfg : Cfg) (enc : Enc) (psA psE1 psE2 : List (Bytes × Bytes)) (bB : Bytes)
    (z : RawTag) (B : List RawTag) (T1 T2 : List CTag)
    (hA : ∀ p ∈ psA, PairOk p) (hE1 : ∀ p ∈ psE1, PairOk p) (hE2 : ∀ p ∈ psE2, PairOk p)
    (hB : (bytesLoader (splitLines bB)).tags = z :: B) (hz : z.code = 0)
    (hs1 : ∀ t ∈ headPart (tagReorder none (z :: B)).tail,
      t.code ≠ staleExp (chunkTags psA ++ chunkTags psE1) ∧ t.code ≠ -1)
    (hs2 : ∀ t ∈ headPart (tagReorder none (z :: B)).tail,
      t.code ≠ staleExp (chunkTags psA ++ chunkTags psE2) ∧ t.code ≠ -1)
    (h1 : compile cfg enc (repairTags (bytesLoader (splitLines (chunkBytes psA ++ chunkBytes psE1 ++ bB)))) = .ok T1)
    (h2 : compile cfg enc (repairTags (bytesLoader (splitLines (chunkBytes psA ++ chunkBytes psE2 ++ bB)))) = .ok T2) :
    ∃ X S R1 R2 M1 M2, emitted cfg enc (chunkTags psA) = .ok X ∧
      compile cfg enc (repairTags ⟨z :: B, (bytesLoader (splitLines bB)).err⟩) = .ok S ∧
      T1 = X ++ R1 ∧ T2 = X ++ R2 ∧ T1 = M1 ++ S ∧ T2 = M2 ++ S := by
  rw [EzdxfVerif.Lemmas.RecoverCausal.loader_region psA psE1 hA hE1 bB, hB] at h1
  rw [EzdxfVerif.Lemmas.RecoverCausal.loader_region psA psE2 hA hE2 bB, hB] at h2
  exact single_fault_window cfg enc (chunkTags psA) (chunkTags psE1) (chunkTags psE2) B z hz _ T1 T2 hs1 hs2 h1 h2

/-- non-vacuity: the chunk  "  0\nLINE\n  8\n0\n"  and the same with the layer value replaced by garbage -/
def exPairs : List (Bytes × Bytes) := [([32, 32, 48, 10], [76, 73, 78, 69, 10]), ([32, 32, 56, 10], [48, 10])]
def exPairsBad : List (Bytes × Bytes) := [([32, 32, 48, 10], [76, 73, 78, 69, 10]), ([32, 32, 56, 10], [255, 254, 128, 10])]
example : ∀ p ∈ exPairs ++ exPairsBad, EzdxfVerif.Lemmas.RecoverCausal.PairOk p := by
  intro p hp
  simp only [exPairs, exPairsBad, List.cons_append, List.nil_append, List.mem_cons, List.not_mem_nil, or_false] at hp
  rcases hp with rfl | rfl | rfl | rfl
  · exact ⟨⟨[32, 32, 48], rfl, by decide⟩, ⟨[76, 73, 78, 69], rfl, by decide⟩, 0, by rfl, by decide⟩
  · exact ⟨⟨[32, 32, 56], rfl, by decide⟩, ⟨[48], rfl, by decide⟩, 8, by rfl, by decide⟩
  · exact ⟨⟨[32, 32, 48], rfl, by decide⟩, ⟨[76, 73, 78, 69], rfl, by decide⟩, 0, by rfl, by decide⟩
  · exact ⟨⟨[32, 32, 56], rfl, by decide⟩, ⟨[255, 254, 128], rfl, by decide⟩, 8, by rfl, by decide⟩
#guard EzdxfVerif.Lemmas.RecoverCausal.chunkTags exPairsBad == [⟨0, sLine⟩, ⟨8, [255, 254, 128]⟩]

/-! ## 13. Guard branches of two front-end helpers (probed on the real functions in `regenerate`) -/

/-- `fix_coordinate_order` on a LINE without any coordinate tag (e.g. a duplicated (0, LINE) structure tag): the tags are
    returned unchanged - the "no coordinates found" guard; without it `min()` over an empty sequence raises ValueError -/
theorem fix_coordinate_order_identity (tags : List RawTag) (h : ∀ t ∈ tags, isCoordCode t.code = false) :
    fixCoordinateOrder tags = tags := by
  unfold fixCoordinateOrder
  have : tags.filter (fun t => isCoordCode t.code) = [] := by
    rw [List.filter_eq_nil_iff]
    intro t ht
    simp [h t ht]
  simp [this]

/-- `tag_reorder_layer` on a LINE group without coordinate tags: at the next (0, ..) tag `z` the collected group comes
    out exactly as it went in.  (Totality itself is structural: `tagReorder` is a total function whose only helper
    `fixCoordinateOrder` has no failing branch; `front_total` covers the whole front end.) -/
theorem reorder_total (tags : List RawTag) (z : RawTag) (hz : z.code = 0) :
    ∀ col : List RawTag, (∀ t ∈ tags, isCoordCode t.code = false) → (∀ t ∈ col, isCoordCode t.code = false) →
      ∃ pre, tagReorder (some col) (tags ++ [z]) = col.reverse ++ pre := by
  induction tags with
  | nil =>
    intro col _ hc
    have h0 : (z.code == 0) = true := by simp [hz]
    simp only [List.nil_append, tagReorder, h0, if_true]
    rw [fix_coordinate_order_identity col.reverse (by intro t ht; exact hc t (List.mem_reverse.1 ht))]
    split <;> exact ⟨_, rfl⟩
  | cons t r ih =>
    intro col h hc
    by_cases h0 : (t.code == 0) = true
    · simp only [List.cons_append, tagReorder, h0, if_true]
      rw [fix_coordinate_order_identity col.reverse (by intro x hx; exact hc x (List.mem_reverse.1 hx))]
      split <;> exact ⟨_, rfl⟩
    · have h0' : (t.code == 0) = false := by simpa using h0
      simp only [List.cons_append, tagReorder, h0', Bool.false_eq_true, if_false]
      have hcol : ∀ x ∈ t :: col, isCoordCode x.code = false := by
        intro x hx
        rcases List.mem_cons.1 hx with rfl | hx
        · exact h _ (by simp)
        · exact hc x hx
      obtain ⟨pre, h1⟩ := ih (t :: col) (fun x hx => h x (by simp [hx])) hcol
      exact ⟨t :: pre, by rw [h1]; simp⟩

example : tagReorder none [⟨0, sLine⟩, ⟨0, sLine⟩, ⟨8, [48]⟩, ⟨0, sEof⟩] = [⟨0, sLine⟩, ⟨0, sLine⟩, ⟨8, [48]⟩, ⟨0, sEof⟩] := by rfl

/-- `recover_rootdict` / `_find_rootdict` when NO root dictionary exists (its (0, DICTIONARY) tag or its (3, ACAD_GROUP)
    key is damaged): the OBJECTS entry is left unchanged - the `return 0, Tags()` fallback; a bare `next(generator)`
    raises StopIteration instead -/
theorem find_rootdict_total (objs : List (List CTag)) (h : ∀ g ∈ objs, isRootdict g = false) :
    recoverRootdict objs = objs := by
  unfold recoverRootdict
  split
  · next o0 o1 rest =>
    have h1 : isRootdict o1 = false := h o1 (by simp)
    simp only [h1, Bool.false_eq_true, if_false]
    have : (o0 :: o1 :: rest).findIdx? isRootdict = none := by
      rw [List.findIdx?_eq_none_iff]
      intro g hg
      simp [h g hg]
    rw [this]
  · rfl

example : recoverRootdict [[⟨0, .str sSection⟩], [⟨0, .str sDictionary⟩, ⟨5, .str [67]⟩], [⟨0, .str sXrecord⟩]]
    = [[⟨0, .str sSection⟩], [⟨0, .str sDictionary⟩, ⟨5, .str [67]⟩], [⟨0, .str sXrecord⟩]] := by rfl

/-! ## 14. Faults that BREAK the pairing of code and value lines (a lost or an extra line) -/

open EzdxfVerif.Lemmas.RecoverCausal in
/-- after well-formed pairs, a line at a CODE position that is no integer (`int()` and `_search_int` fail): `bytes_loader`
    delivers exactly the tags of the pairs and raises DXFStructureError there - nothing behind it is read -/
theorem loader_stops_at_noninteger (ps : List (Bytes × Bytes)) (hp : ∀ p ∈ ps, PairOk p) (bad : Bytes)
    (h : parseCode bad = none) (rest : List Bytes) :
    bytesLoader (chunkLines ps ++ bad :: rest) = ⟨chunkTags ps, some .dxfStructureError⟩ :=
  EzdxfVerif.Lemmas.RecoverCausal.loader_stops ps hp bad h rest

open EzdxfVerif.Lemmas.RecoverCausal in
/-- **Resynchronisation after a lost or an extra line.**  `c` = the line left without partner: the code line whose value
    line was lost (`drop_value_line`), the value line whose code line was lost (`drop_code_line`) or an inserted line; all
    three give the line sequence  A ++ c :: pairs.  The tags `A` in front are untouched; behind the
    fault the code line `c` takes the next code line as value and every following value line stands at a code position
    (`shiftPairs`).  The loader yields the re-paired tags `good` only as long as those former value lines contain an
    integer (`int()` or `_search_int` succeeds) and raises DXFStructureError at the first one (`bad`) that does not: exactly `tags(A) ++ tags(good)` is
    delivered, no tag behind `bad` is ever produced - the shift never silently re-synchronises. -/
theorem lost_value_line_resync (A ps good more : List (Bytes × Bytes)) (c bad x : Bytes) (rest : List Bytes)
    (hA : ∀ p ∈ A, PairOk p) (hgood : ∀ p ∈ good, PairOk p) (hbad : parseCode bad = none)
    (hsh : (shiftPairs c ps).1 = good ++ (bad, x) :: more) :
    bytesLoader (chunkLines A ++ c :: chunkLines ps ++ rest)
      = ⟨chunkTags A ++ chunkTags good, some .dxfStructureError⟩ := by
  have e : c :: chunkLines ps ++ rest
      = chunkLines good ++ bad :: (x :: chunkLines more ++ [(shiftPairs c ps).2] ++ rest) := by
    rw [shift_lines ps c, hsh]
    simp [chunkLines]
  have e2 : chunkLines A ++ c :: chunkLines ps ++ rest = chunkLines A ++ (c :: chunkLines ps ++ rest) := by simp
  rw [e2, e, bytesLoader_chunk A hA, loader_stops good hgood bad hbad]

open EzdxfVerif.Lemmas.RecoverCausal in
/-- **byte level**: a file whose lines are well-formed pairs followed by a line at a code position that is no integer
    (what every lost / extra line produces as soon as a non-integer value line reaches a code position): `recover`
    raises DXFStructureError - it never returns a document built from mis-paired lines behind that point -/
theorem lost_line_raises (ps : List (Bytes × Bytes)) (hp : ∀ p ∈ ps, PairOk p) (bad : Bytes) (hl : IsLine bad)
    (h : parseCode bad = none) (restBytes : Bytes) :
    recoverFront Cfg.tree (chunkBytes ps ++ bad ++ restBytes) = .error .dxfStructureError := by
  have hlines : splitLines (chunkBytes ps ++ bad ++ restBytes) = chunkLines ps ++ bad :: splitLines restBytes := by
    have hall : ∀ l ∈ chunkLines ps ++ [bad], IsLine l := by
      intro l hm
      rcases List.mem_append.1 hm with h1 | h1
      · exact isLine_chunk ps hp l h1
      · simp only [List.mem_singleton] at h1; rw [h1]; exact hl
    have := splitLines_lines (chunkLines ps ++ [bad]) hall restBytes
    simpa [chunkBytes] using this
  have herr : (bytesLoader (splitLines (chunkBytes ps ++ bad ++ restBytes))).err = some .dxfStructureError := by
    rw [hlines, loader_stops ps hp bad h]
  rcases front_total (chunkBytes ps ++ bad ++ restBytes) with ⟨d, hd⟩ | he
  · exfalso
    unfold recoverFront at hd
    cases hT : loadTags Cfg.tree (chunkBytes ps ++ bad ++ restBytes) with
    | error e => rw [hT] at hd; simp at hd
    | ok T => exact loadTags_not_ok Cfg.tree _ _ herr T hT
  · exact he

open EzdxfVerif.Lemmas.RecoverCausal in
/-- **Complete classification of `bytes_loader`** on an ARBITRARY line list (so in particular on every list that a lost,
    duplicated or inserted line leaves behind): the list is  pairs ++ tail  with all pairs passing (code parses, not
    (0, EOF)); the loader yields exactly the tags of the pairs and ends in exactly one of three ways - the lines are used up
    (at most one unpaired last line with a parsable code), a (0, EOF) tag (yielded, nothing behind it is read), or a line
    at a code position without an integer (DXFStructureError).  Together with `lost_value_line_resync` this says what a
    shifted stream can do: it runs on re-paired until one of these three ends. -/
theorem loader_classification (ls : List Bytes) : ∃ (ps : List (Bytes × Bytes)) (tail : List Bytes) (e : LoaderEnd),
    (∀ p ∈ ps, CodeOk p) ∧ ls = chunkLines ps ++ tail ∧
    (match e with
     | .endOfLines => (tail = [] ∨ ∃ c, tail = [c] ∧ (parseCode c).isSome = true) ∧ bytesLoader ls = ⟨chunkTags ps, none⟩
     | .eofTag => (∃ c v rest, tail = c :: v :: rest ∧ parseCode c = some 0 ∧ rstripCRLF v = sEof) ∧
         bytesLoader ls = ⟨chunkTags ps ++ [⟨0, sEof⟩], none⟩
     | .badCode => (∃ c rest, tail = c :: rest ∧ parseCode c = none) ∧ bytesLoader ls = ⟨chunkTags ps, some .dxfStructureError⟩) :=
  EzdxfVerif.Lemmas.RecoverCausal.loader_classification ls

/-- `byte_tag_compiler` never yields more tags than it reads: from the start state the number of compiled tags is at most
    the number of raw tags (a point consumes 2-3 tags for one vertex; the `undo_tag` is re-read, not duplicated) -/
theorem compiler_bounded (cfg : Cfg) (enc : Enc) (raw : List RawTag) (T : List CTag)
    (h : compile cfg enc raw = .ok T) : T.length ≤ raw.length := by
  have := EzdxfVerif.Lemmas.RecoverCausal.compileGo_bounded cfg enc raw .none T h
  simpa [EzdxfVerif.Lemmas.RecoverCausal.credit] using this

/-- no loop of the loader can run away: every yielded tag consumes two lines -/
theorem loader_bounded (ls : List Bytes) : 2 * (bytesLoader ls).tags.length ≤ ls.length :=
  EzdxfVerif.Lemmas.RecoverCausal.loader_bounded ls

private theorem splitLinesAux_bounded (r : Bytes) : ∀ cur : Bytes, (splitLinesAux cur r).length ≤ r.length + 1 := by
  induction r with
  | nil => intro cur; unfold splitLinesAux; split <;> simp
  | cons b r ih =>
    intro cur
    unfold splitLinesAux
    split
    · have := ih []
      simp only [List.length_cons]; omega
    · have := ih (b :: cur)
      simp only [List.length_cons]; omega

/-- **termination, explicitly**: every function of the front-end model is defined by structural recursion on its input
    list (no fuel, no well-founded recursion, checked by Lean's termination checker when `Model/Recover.lean` is compiled),
    so `recoverFront` is a total function: it has a value for EVERY byte string, and the number of raw tags the
    loader can yield - the input of every later loop - is bounded by half the number of bytes plus one -/
theorem front_terminates (bytes : Bytes) :
    (∃ r, recoverFront Cfg.tree bytes = r) ∧
      2 * (bytesLoader (splitLines bytes)).tags.length ≤ bytes.length + 1 := by
  refine ⟨⟨_, rfl⟩, ?_⟩
  have h1 := loader_bounded (splitLines bytes)
  have h2 : (splitLines bytes).length ≤ bytes.length + 1 := splitLinesAux_bounded bytes []
  omega

/-- non-vacuity: "  0\\nLINE\\n  8\\n" + (value line "0" of the layer tag lost) + "  6\\nCONT\\n 10\\n1.5\\n": the 8 takes "  6" as
    value, "CONT" stands at a code position and holds no integer.  (A line like "1.5" WOULD parse: `_search_int` finds
    the 1 - the shift goes on until a value line without any digit, a name or a text, reaches a code position.) -/
example : (EzdxfVerif.Lemmas.RecoverCausal.shiftPairs [32, 32, 56, 10]
      [([32, 32, 54, 10], [67, 79, 78, 84, 10]), ([32, 49, 48, 10], [49, 46, 53, 10])]).1
    = [([32, 32, 56, 10], [32, 32, 54, 10])] ++ ([67, 79, 78, 84, 10], [32, 49, 48, 10]) :: [] := by rfl
#guard parseCode [67, 79, 78, 84, 10] == none && parseCode [49, 46, 53, 10] == some 1
#guard (match recoverFront Cfg.tree ("  0\nLINE\n  8\n  6\nCONT\n 10\n1.5\n  0\nEOF\n".toUTF8.toList.map (·.toNat)) with
  | .error .dxfStructureError => true | _ => false)

/-! ## 7. Obligations on the generated tables -/

/-- the group codes whose VALUE the front end inspects as text - 0 (structure), 2 (section / table names), 3 and 9
    (header variables, ACAD_GROUP), 1 ($ACADVER), 101 / 102 / 1001 / 1002 (validator) - are string typed in
    TYPE_TABLE and are neither point nor binary codes, so `value.startswith(...)`, `value.upper()` and the comparisons
    with string constants never meet an int, float, bytes or Vec3 (no AttributeError / TypeError from these sites) -/
theorem inspected_codes_are_strings :
    ∀ c ∈ ([0, 1, 2, 3, 9, 101, 102, 1001, 1002] : List Int),
      isIntCode c = false ∧ isFloatCode c = false ∧ isBinaryCode c = false ∧ isPointCode c = false := by decide

/-- handles (5, 105) are strings as well, and every y/z code that `filter_invalid_point_codes` drops is a float code -/
theorem invalid_codes_are_floats :
    (isIntCode 5 = false ∧ isFloatCode 5 = false ∧ isIntCode 105 = false ∧ isFloatCode 105 = false) ∧
    invalidCodes.all (fun c => floatCodes.contains c && !pointCodes.contains c) = true := by decide

/-- the handle codes the loading envelope reads (330 reactors, 360 extension dictionary) are string typed -/
theorem handle_codes_are_strings :
    ∀ c ∈ ([330, 360, 100] : List Int),
      isIntCode c = false ∧ isFloatCode c = false ∧ isBinaryCode c = false ∧ isPointCode c = false := by decide

end EzdxfVerif.Props.C07

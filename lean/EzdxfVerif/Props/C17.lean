/-
C17  Cross-document transfer yields a closed, faithful copy.
Property theorems over Model/Xref.lean; the pointer-class tables and two behavioural probes are regenerated from
lldxf/types.py, xref.py and entities/blockrecord.py on every run (Gen/XrefTables.lean).
`private theorem` = helper lemma; every `theorem` is a counted obligation.
-/
import EzdxfVerif.Model.Xref
import EzdxfVerif.Lemmas.XrefOv

namespace EzdxfVerif.Props.C17
open EzdxfVerif.Xref EzdxfVerif.Gen

/-! ## §1 pointer group-code classes: the generated tables are the documented ranges, for EVERY group code -/

private theorem all_range_lift (p : Nat → Bool) (n : Nat) (h : (List.range n).all p = true) :
    ∀ c, c < n → p c = true := by
  intro c hc
  exact List.all_eq_true.mp h c (List.mem_range.mpr hc)

private theorem not_contains_of_all_lt (l : List Nat) (n c : Nat) (h : l.all (· < n) = true) (hc : n ≤ c) :
    l.contains c = false := by
  cases hcon : l.contains c with
  | false => rfl
  | true =>
    have hm : c ∈ l := by simpa using hcon
    have := List.all_eq_true.mp h c hm
    simp at this
    omega

/-- `is_translatable_pointer` (the set TRANSLATABLE_POINTER_CODES, tabulated) is exactly: soft pointers + hard
    pointers + soft owners + hard owners, for every group code (also beyond the tabulated 0‥1071) -/
theorem pointer_classes (c : Nat) : translatable c = translatableSpec c := by
  rcases Nat.lt_or_ge c 1072 with h | h
  · have := all_range_lift (fun c => translatable c == translatableSpec c) 1072 (by decide +kernel) c h
    simpa using this
  · have h1 : translatable c = false :=
      not_contains_of_all_lt XrefTables.translatableCodes 1072 c (by decide +kernel) h
    rw [h1]
    simp only [translatableSpec, isSoftPointer, isHardPointer, isSoftOwner, isHardOwner]
    have e1 : (c == 1005) = false := by simp; omega
    simp [e1]
    omega

/-- each of the five class predicates of types.py, as observed on the real functions for the codes 0‥1071, is
    the hand-written range test used by the model -/
theorem pointer_class_tables (c : Nat) (h : c < 1072) :
    XrefTables.softPointerCodes.contains c = isSoftPointer c ∧
    XrefTables.hardPointerCodes.contains c = isHardPointer c ∧
    XrefTables.softOwnerCodes.contains c = isSoftOwner c ∧
    XrefTables.hardOwnerCodes.contains c = isHardOwner c ∧
    XrefTables.arbitraryCodes.contains c = isArbitraryPointer c := by
  have := all_range_lift (fun c =>
      (XrefTables.softPointerCodes.contains c == isSoftPointer c) &&
      (XrefTables.hardPointerCodes.contains c == isHardPointer c) &&
      (XrefTables.softOwnerCodes.contains c == isSoftOwner c) &&
      (XrefTables.hardOwnerCodes.contains c == isHardOwner c) &&
      (XrefTables.arbitraryCodes.contains c == isArbitraryPointer c)) 1072 (by decide +kernel) c h
  simpa [Bool.and_eq_true, and_assoc] using this

/-- POINTER_CODES = translatable codes + the arbitrary handles 320‥329, and the latter are NOT translated -/
theorem pointer_partition (c : Nat) :
    isPointerCode c = (translatable c || isArbitraryPointer c) ∧
    (isArbitraryPointer c = true → translatable c = false) := by
  rcases Nat.lt_or_ge c 1072 with h | h
  · have := all_range_lift (fun c =>
        (isPointerCode c == (translatable c || isArbitraryPointer c)) &&
        (!isArbitraryPointer c || !translatable c)) 1072 (by decide +kernel) c h
    simp only [Bool.and_eq_true, beq_iff_eq, Bool.or_eq_true, Bool.not_eq_true'] at this
    refine ⟨this.1, ?_⟩
    intro ha
    rcases this.2 with h2 | h2
    · rw [ha] at h2; cases h2
    · exact h2
  · have h1 : translatable c = false :=
      not_contains_of_all_lt XrefTables.translatableCodes 1072 c (by decide +kernel) h
    have h2 : isPointerCode c = false :=
      not_contains_of_all_lt XrefTables.pointerCodes 1072 c (by decide +kernel) h
    have h3 : isArbitraryPointer c = false := by
      simp only [isArbitraryPointer]; simp; omega
    simp [h1, h2, h3]

/-- the four translated classes are pairwise disjoint -/
theorem pointer_classes_disjoint (c : Nat) :
    ¬ (isSoftPointer c = true ∧ isHardPointer c = true) ∧ ¬ (isSoftPointer c = true ∧ isSoftOwner c = true) ∧
    ¬ (isSoftPointer c = true ∧ isHardOwner c = true) ∧ ¬ (isHardPointer c = true ∧ isSoftOwner c = true) ∧
    ¬ (isHardPointer c = true ∧ isHardOwner c = true) ∧ ¬ (isSoftOwner c = true ∧ isHardOwner c = true) := by
  simp only [isSoftPointer, isHardPointer, isSoftOwner, isHardOwner, Bool.and_eq_true, Bool.or_eq_true,
    decide_eq_true_eq, beq_iff_eq]
  omega

example : translatable 330 = true ∧ translatable 1005 = true ∧ translatable 320 = false ∧ translatable 5 = false := by decide

/-! ## §2 handle translation -/

/-- `map_pointers`: same length, same group codes; a tag with a translatable pointer code carries "0" or σ(old
    value); every other tag is untouched — for every handle map and every tag list -/
theorem map_pointers_range (σ : Str → Option Str) (ts : List Tag) :
    (mapPointers σ ts).length = ts.length ∧
    ∀ (i : Nat) (h : i < ts.length) (h' : i < (mapPointers σ ts).length),
      ((mapPointers σ ts)[i]).code = (ts[i]).code ∧
      (translatable (ts[i]).code = true →
        ((mapPointers σ ts)[i]).val = zero ∨ σ (ts[i]).val = some ((mapPointers σ ts)[i]).val) ∧
      (translatable (ts[i]).code = false → (mapPointers σ ts)[i] = ts[i]) := by
  refine ⟨by simp [mapPointers], ?_⟩
  intro i h h'
  simp only [mapPointers, List.getElem_map]
  by_cases ht : translatable (ts[i]).code = true
  · simp only [ht, if_true, true_implies]
    refine ⟨trivial, ?_, by simp⟩
    unfold getHandle
    cases hs : σ (ts[i]).val with
    | none => left; rfl
    | some v => right; rfl
  · have hf : translatable (ts[i]).code = false := by simpa using ht
    simp [hf]

/-- no handle outside `range σ ∪ {"0"}` can appear in a translated pointer tag: in particular no handle of the
    source document, whenever σ maps into handles that are not source handles -/
theorem map_pointers_no_leak (σ : Str → Option Str) (S : Str → Prop) (hσ : ∀ h v, σ h = some v → ¬ S v)
    (h0 : ¬ S zero) (ts : List Tag) :
    ∀ t ∈ mapPointers σ ts, translatable t.code = true → ¬ S t.val := by
  intro t ht hc
  simp only [mapPointers, List.mem_map] at ht
  obtain ⟨u, _, hu⟩ := ht
  by_cases hcu : translatable u.code = true
  · simp only [hcu, if_true] at hu
    subst hu
    simp only [getHandle]
    cases hs : σ u.val with
    | none => simpa using h0
    | some v => simpa using hσ _ _ hs
  · have hf : translatable u.code = false := by simpa using hcu
    simp only [hf] at hu
    subst hu
    simp [hf] at hc

/-- the owner side effect of `map_pointers(tags, new_owner_handle)` touches only objects that exist in the target
    database and that are the σ-image of a hard-owner tag; without `new_owner_handle` nothing is touched -/
theorem owner_updates_sound (σ : Str → Option Str) (db : Str → Bool) (o : Str) (ts : List Tag) :
    (o = [] → ownerUpdates σ db o ts = []) ∧
    ∀ h ∈ ownerUpdates σ db o ts, db h = true ∧ ∃ t ∈ ts, isHardOwner t.code = true ∧ h = getHandle σ t.val := by
  refine ⟨fun ho => by simp [ownerUpdates, ho], ?_⟩
  intro h hh
  unfold ownerUpdates at hh
  split at hh
  · simp at hh
  · simp only [List.mem_filterMap] at hh
    obtain ⟨t, ht, hv⟩ := hh
    split at hv
    · rename_i hc
      simp only [Bool.and_eq_true] at hc
      simp only [Option.some.injEq] at hv
      subst hv
      exact ⟨hc.2, t, ht, hc.1.2, rfl⟩
    · simp at hv

/-- `map_existing_handle` writes σ(old) when the referenced entity was copied, otherwise "0" (mandatory) or removes
    the attribute (optional); it never writes the old (source) handle -/
theorem map_existing_handle_range (σ : Str → Option Str) (src : Option Str) (opt : Bool) (n : Str)
    (h : mapExistingHandle σ src opt = .set n) :
    n = zero ∨ ∃ s, src = some s ∧ σ s = some n := by
  unfold mapExistingHandle at h
  cases src with
  | none => simp at h
  | some s =>
    simp only at h
    split at h
    · simp at h
    · split at h
      · rename_i hn
        simp only [AttrOut.set.injEq] at h
        subst h
        unfold getHandle at hn ⊢
        cases hs : σ s with
        | none => simp [hs, zero] at hn
        | some v => right; exact ⟨s, rfl, by simp [hs]⟩
      · split at h
        · simp at h
        · simp only [AttrOut.set.injEq] at h
          left; exact h.symm

/-- XDATA: every 1005 tag carries "0" or σ(old value); nothing but 1005 / 1003 tags is modified -/
theorem map_xdata_range (σ : Str → Option Str) (layer : Str → Str) (ts : List Tag) :
    (mapXdata σ layer ts).length = ts.length ∧
    ∀ (i : Nat) (h : i < ts.length) (h' : i < (mapXdata σ layer ts).length),
      ((ts[i]).code = 1005 → ((mapXdata σ layer ts)[i]).val = zero ∨ σ (ts[i]).val = some ((mapXdata σ layer ts)[i]).val) ∧
      ((ts[i]).code ≠ 1005 → (ts[i]).code ≠ 1003 → (mapXdata σ layer ts)[i] = ts[i]) := by
  refine ⟨by simp [mapXdata], ?_⟩
  intro i h h'
  simp only [mapXdata, List.getElem_map]
  refine ⟨?_, ?_⟩
  · intro hc
    simp only [hc, if_true]
    unfold getHandle
    cases hs : σ (ts[i]).val with
    | none => left; rfl
    | some v => right; rfl
  · intro h1 h2
    simp [h1, h2]

/-- reactors: what `set_reactors` receives is non-empty, contains no null handle, and only σ-images -/
theorem map_reactors_range (σ : Str → Option Str) (rs m : List Str) (h : mapReactors σ rs = some m) :
    m ≠ [] ∧ ∀ x ∈ m, x ≠ zero ∧ ∃ r ∈ rs, σ r = some x := by
  unfold mapReactors at h
  split at h
  · simp at h
  · simp only at h
    split at h
    · simp at h
    · rename_i hne
      simp only [Option.some.injEq] at h
      subst h
      refine ⟨hne, ?_⟩
      intro x hx
      simp only [List.mem_filter, List.mem_map, decide_eq_true_eq] at hx
      obtain ⟨⟨r, hr, hrx⟩, hx0⟩ := hx
      refine ⟨hx0, r, hr, ?_⟩
      unfold getHandle at hrx
      cases hs : σ r with
      | none => simp [hs] at hrx; exact absurd hrx.symm hx0
      | some v => simp [hs] at hrx; simp [hrx]

example : mapPointers (fun h => if h = [65] then some [66] else none)
    [⟨330, [65]⟩, ⟨340, [67]⟩, ⟨320, [65]⟩, ⟨1, [65]⟩] = [⟨330, [66]⟩, ⟨340, [48]⟩, ⟨320, [65]⟩, ⟨1, [65]⟩] := by decide

/-! ## §3 unique names: the `while True` loops terminate and return the first free candidate -/

private theorem searchFrom_spec (p : Nat → Bool) (bound i : Nat) (h : ∃ k, i ≤ k ∧ k ≤ bound ∧ p k = true) :
    p (searchFrom p bound i h) = true ∧ i ≤ searchFrom p bound i h ∧ searchFrom p bound i h ≤ bound ∧
    ∀ j, i ≤ j → j < searchFrom p bound i h → p j = false := by
  fun_induction searchFrom p bound i h with
  | case1 i h hp =>
    obtain ⟨k, h1, h2, _⟩ := h
    exact ⟨hp, Nat.le_refl _, Nat.le_trans h1 h2, fun j h1 h2 => by omega⟩
  | case2 i h hp h' hle ih =>
    obtain ⟨a, b, c, d⟩ := ih
    refine ⟨a, by omega, c, ?_⟩
    intro j hj1 hj2
    rcases Nat.eq_or_lt_of_le hj1 with e | e
    · subst e; simpa using hp
    · exact d j e hj2

private theorem uniqueIndex_spec {K : Type} [DecidableEq K] (key : Str → K) (xref name : Str) (keys : List K)
    (hinj : ∀ i j, key (cand xref name i) = key (cand xref name j) → i = j) :
    key (cand xref name (uniqueIndex key xref name keys hinj)) ∉ keys ∧
    uniqueIndex key xref name keys hinj ≤ keys.length ∧
    ∀ j, j < uniqueIndex key xref name keys hinj → key (cand xref name j) ∈ keys := by
  unfold uniqueIndex
  have hs := searchFrom_spec (fun i => !keys.contains (key (cand xref name i))) keys.length 0
    (exists_free (fun i => key (cand xref name i)) hinj keys)
  obtain ⟨a, _, c, d⟩ := hs
  refine ⟨by simpa using a, c, ?_⟩
  intro j hj
  have := d j (Nat.zero_le _) hj
  simpa using this

/-- `get_unique_table_name` returns a name whose key is not in the table, after at most `len(table) + 1` probes;
    it is the candidate with the least free index (so the real loop and the model choose the same name) -/
theorem unique_name_fresh (name xref : Str) (keys : List Str) :
    lower (getUniqueTableName name xref keys) ∉ keys ∧
    ∃ i, i ≤ keys.length ∧ getUniqueTableName name xref keys = cand xref name i ∧
      ∀ j, j < i → lower (cand xref name j) ∈ keys := by
  obtain ⟨a, b, c⟩ := uniqueIndex_spec lower xref name keys (lower_cand_inj xref name)
  exact ⟨a, _, b, rfl, c⟩

/-- the same for `get_unique_dict_key` (case-sensitive membership) -/
theorem unique_dict_key_fresh (key xref : Str) (keys : List Str) :
    getUniqueDictKey key xref keys ∉ keys ∧
    ∃ i, i ≤ keys.length ∧ getUniqueDictKey key xref keys = cand xref key i ∧
      ∀ j, j < i → cand xref key j ∈ keys := by
  obtain ⟨a, b, c⟩ := uniqueIndex_spec id xref key keys (cand_inj xref key)
  exact ⟨a, _, b, rfl, c⟩

/-- the name has the documented form `<xref>$<n>$<name>` and distinct indices give distinct keys even after
    case folding (the fact the pigeonhole argument rests on) -/
theorem candidates_distinct (xref name : Str) (i j : Nat) :
    (lower (cand xref name i) = lower (cand xref name j) → i = j) ∧ (cand xref name i = cand xref name j → i = j) :=
  ⟨lower_cand_inj xref name i j, cand_inj xref name i j⟩

#guard getUniqueTableName [76, 49] [120] [[120, 36, 48, 36, 108, 49], [120, 36, 49, 36, 108, 49]] = [120, 36, 50, 36, 76, 49]
#guard getUniqueTableName [76, 49] [] [] = [36, 48, 36, 76, 49]
#guard natDigits 1203 = [49, 50, 48, 51]

/-! ## §4 conflict policy -/

private theorem has_iff (t : Table) (name : Str) : t.has name = true ↔ lower name ∈ t.keys := by
  simp [Table.has, Table.keys]

private theorem has_false_iff (t : Table) (name : Str) : t.has name = false ↔ lower name ∉ t.keys := by
  rw [← has_iff]; simp

private theorem get_of_has (t : Table) (name : Str) (h : t.has name = true) :
    ∃ x, t.get? name = some x ∧ (lower name, x) ∈ t := by
  rw [has_iff] at h
  simp only [Table.keys, List.mem_map] at h
  obtain ⟨e, he, hk⟩ := h
  unfold Table.get?
  cases hf : t.find? (fun e => e.1 = lower name) with
  | none =>
    have := List.find?_eq_none.mp hf e he
    simp [hk] at this
  | some y =>
    have hy := List.find?_some hf
    have hm := List.mem_of_find?_eq_some hf
    refine ⟨y.2, rfl, ?_⟩
    have : y.1 = lower name := by simpa using hy
    rw [← this]
    exact hm

/-- KEEP: a clashing name maps to the target's existing entry (which stays in the table), a free name is added
    unchanged -/
theorem policy_keep (xref : Str) (t : Table) (name : Str) :
    (t.has name = true → ∃ h, addTableEntry .keep xref t name = .useExisting h ∧ (lower name, h) ∈ t) ∧
    (t.has name = false → addTableEntry .keep xref t name = .add name) := by
  constructor
  · intro h
    obtain ⟨x, hx, hm⟩ := get_of_has t name h
    exact ⟨x, by simp [addTableEntry, h, hx], hm⟩
  · intro h
    simp [addTableEntry, h]

/-- XREF_PREFIX: always a new entry named `<xref>$<n>$<name>` with the least n whose name is free -/
theorem policy_xref_prefix (xref : Str) (t : Table) (name : Str) :
    ∃ i, i ≤ t.length ∧ addTableEntry .xrefPrefix xref t name = .add (cand xref name i) ∧
      t.has (cand xref name i) = false ∧ ∀ j, j < i → t.has (cand xref name j) = true := by
  obtain ⟨hf, i, hi, he, hl⟩ := unique_name_fresh name xref t.keys
  refine ⟨i, by simpa [Table.keys] using hi, by simp [addTableEntry, he], ?_, ?_⟩
  · rw [has_false_iff, ← he]; exact hf
  · intro j hj; rw [has_iff]; exact hl j hj

/-- NUM_PREFIX: a free name is added unchanged, a clashing one as `$<n>$<name>` with the least free n -/
theorem policy_num_prefix (xref : Str) (t : Table) (name : Str) :
    (t.has name = false → addTableEntry .numPrefix xref t name = .add name) ∧
    (t.has name = true → ∃ i, i ≤ t.length ∧ addTableEntry .numPrefix xref t name = .add (cand [] name i) ∧
      t.has (cand [] name i) = false ∧ ∀ j, j < i → t.has (cand [] name j) = true) := by
  constructor
  · intro h; simp [addTableEntry, h]
  · intro h
    obtain ⟨hf, i, hi, he, hl⟩ := unique_name_fresh name [] t.keys
    refine ⟨i, by simpa [Table.keys] using hi, by simp [addTableEntry, h, he], ?_, ?_⟩
    · rw [has_false_iff, ← he]; exact hf
    · intro j hj; rw [has_iff]; exact hl j hj

/-- under every policy the name handed to `table.add_entry` is not in the table: DXFTableEntryError cannot be
    raised and no key is ever duplicated -/
theorem add_never_clashes (pol : Policy) (xref : Str) (t : Table) (name n : Str)
    (h : addTableEntry pol xref t name = .add n) : t.has n = false := by
  cases pol with
  | keep =>
    cases hh : t.has name with
    | true =>
      obtain ⟨x, hx, _⟩ := (policy_keep xref t name).1 hh
      rw [hx] at h; cases h
    | false =>
      rw [(policy_keep xref t name).2 hh] at h
      cases h; exact hh
  | xrefPrefix =>
    obtain ⟨i, _, he, hf, _⟩ := policy_xref_prefix xref t name
    rw [he] at h; cases h; exact hf
  | numPrefix =>
    cases hh : t.has name with
    | true =>
      obtain ⟨i, _, he, hf, _⟩ := (policy_num_prefix xref t name).2 hh
      rw [he] at h; cases h; exact hf
    | false =>
      rw [(policy_num_prefix xref t name).1 hh] at h
      cases h; exact hh

private theorem lower_upper (s : Str) : lower (upper s) = lower s := by
  simp only [lower, upper, List.map_map]
  apply List.map_congr_left
  intro c _
  simp only [Function.comp, lowerC, upperC]
  by_cases h1 : 97 ≤ c ∧ c ≤ 122
  · have h2 : ¬ (65 ≤ c ∧ c ≤ 90) := by omega
    have h3 : 65 ≤ c - 32 ∧ c - 32 ≤ 90 := by omega
    simp only [if_pos h1, if_pos h3, if_neg h2]
    omega
  · simp only [if_neg h1]

private theorem get_none_has_false (t : Table) (a b : Str) (hab : lower a = lower b) (h : t.get? a = none) :
    t.has b = false := by
  cases hb : t.has b with
  | false => rfl
  | true =>
    have : t.has a = true := by simpa [Table.has, hab] using hb
    obtain ⟨x, hx, _⟩ := get_of_has t a this
    rw [hx] at h; cases h

private theorem checked_add (name n : Str) (d : Decision) (h : checkedLayer name d = .add n) : d = .add n := by
  cases d with
  | add m =>
    simp only [checkedLayer] at h
    split at h
    · exact h
    · cases h
  | useExisting x => simp [checkedLayer] at h
  | error => simp [checkedLayer] at h

/-- the layer and linetype front ends inherit it (they either map to an existing entry or defer to
    `add_table_entry`; a special layer that is missing in the target is, depending on the probed revision of the
    code, added under its own name — which is then free — or sent through the policy) -/
theorem add_layer_linetype_never_clash (pol : Policy) (xref : Str) (t : Table) (name n : Str) :
    (addLayerEntry pol xref t name = .add n → t.has n = false) ∧
    (addLinetypeEntry pol xref t name = .add n → t.has n = false) := by
  constructor
  · intro h
    unfold addLayerEntry addLayerEntryWith at h
    simp only at h
    split at h
    · split at h
      · cases h
      · rename_i hg
        split at h
        · cases h
          exact get_none_has_false t (upper name) name (lower_upper name) hg
        · exact add_never_clashes pol xref t name n (checked_add name n _ h)
    · exact add_never_clashes pol xref t name n (checked_add name n _ h)
  · intro h
    unfold addLinetypeEntry at h
    split at h
    · split at h <;> cases h
    · exact add_never_clashes pol xref t name n h

/-- current code (fix 2d5ff22e8, selected by the probe `specialLayerAddedUnchanged`): a special layer ("0", "DEFPOINTS",
    "*NAME") that the target does not have is added under its own name under EVERY policy — it is never renamed, so
    the layer-name validator cannot reject it -/
theorem special_layer_added_unchanged (pol : Policy) (xref : Str) (t : Table) (name : Str)
    (hs : XrefTables.specialLayers.contains (upper name) = true ∨ isAdskSpecial (upper name) = true)
    (hg : t.get? (upper name) = none) : addLayerEntry pol xref t name = .add name := by
  have hflag : XrefTables.specialLayerAddedUnchanged = true := by decide
  have : (XrefTables.specialLayers.contains (upper name) || isAdskSpecial (upper name)) = true := by
    rcases hs with a | a
    · rw [a]; rfl
    · rw [a]; exact Bool.or_true _
  unfold addLayerEntry addLayerEntryWith
  simp only [this, hg, hflag, ↓reduceIte]

/-- regression fact about the explicitly UNFIXED configuration (`unchanged = false`, the code before 2d5ff22e8): an
    Autodesk special layer missing in the target was renamed by XREF_PREFIX to "x$0$*ADSK_X", which the layer-name
    validator rejects (DXFValueError aborted the whole transfer); the fixed configuration adds it unchanged -/
theorem regression_special_layer_rename :
    addLayerEntryWith false .xrefPrefix [120] [([48], 16)] [42, 65, 68, 83, 75, 95, 88] = .error ∧
    addLayerEntryWith true .xrefPrefix [120] [([48], 16)] [42, 65, 68, 83, 75, 95, 88] = .add [42, 65, 68, 83, 75, 95, 88] := by
  constructor <;> decide +kernel

/-- special names always map to the target's own entry, whatever the policy: layers "0", "DEFPOINTS" and
    "*…" (Autodesk special layers) when the target has them; the linetypes BYLAYER / BYBLOCK / CONTINUOUS -/
theorem special_names_map_to_target (pol : Policy) (xref : Str) (t : Table) (name : Str) (h : Nat) :
    ((XrefTables.specialLayers.contains (upper name) = true ∨ isAdskSpecial (upper name) = true) →
        t.get? (upper name) = some h → addLayerEntry pol xref t name = .useExisting h) ∧
    (XrefTables.defaultLinetypes.contains (upper name) = true → t.get? name = some h →
        addLinetypeEntry pol xref t name = .useExisting h) := by
  constructor
  · intro hs hg
    unfold addLayerEntry addLayerEntryWith
    have : (XrefTables.specialLayers.contains (upper name) || isAdskSpecial (upper name)) = true := by
      rcases hs with a | a
      · rw [a]; rfl
      · rw [a]; exact Bool.or_true _
    simp only [this, hg, ↓reduceIte]
  · intro hs hg
    unfold addLinetypeEntry
    simp only [hs, hg, ↓reduceIte]

private theorem coll_get_none_of_not_mem (c : Coll) (n : Str) (h : lower n ∉ c.lkeys) : c.get? n = none := by
  unfold Coll.get?
  cases hf : c.find? (fun e => lower e.1 = lower n) with
  | none => rfl
  | some y =>
    exfalso
    have hy := List.find?_some hf
    have hm := List.mem_of_find?_eq_some hf
    apply h
    simp only [Coll.lkeys, List.mem_map]
    exact ⟨y, hm, by simpa using hy⟩

/-- object collections (materials, mline styles, mleader styles): system entries map to the target's entry of
    exactly that name; otherwise the three policies as for tables, and the key added is never present -/
theorem collection_policy (pol : Policy) (xref : Str) (c : Coll) (system : List Str) (name : Str) :
    (∀ h, system.contains (upper name) = true → c.getExact? name = some h →
        addCollectionEntry pol xref c system name = .useExisting h) ∧
    (∀ n, addCollectionEntry pol xref c system name = .add n → c.get? n = none) := by
  constructor
  · intro h hs hg
    simp only [addCollectionEntry, hs, hg, ↓reduceIte]
  · intro n h
    unfold addCollectionEntry at h
    simp only at h
    split at h
    · cases h
    · cases pol with
      | keep =>
        simp only at h
        split at h
        · cases h
        · rename_i hn; cases h; exact hn
      | xrefPrefix =>
        simp only [Decision.add.injEq] at h
        subst h
        exact coll_get_none_of_not_mem c _ (unique_name_fresh name xref c.lkeys).1
      | numPrefix =>
        simp only at h
        split at h
        · simp only [Decision.add.injEq] at h
          subst h
          exact coll_get_none_of_not_mem c _ (unique_name_fresh name [] c.lkeys).1
        · rename_i hn
          cases h
          cases hg : c.get? name with
          | none => rfl
          | some v => simp [hg] at hn

/-- `register_table_resources` over any number of copied entries: the target's entries stay where they are (the
    old table is a prefix of the new one), one decision per copy, and the keys stay pairwise distinct -/
theorem register_all_unique (dec : Table → Str → Decision)
    (hdec : ∀ t name n, dec t name = .add n → t.has n = false) (t : Table) (es : List (Str × Nat))
    (hnd : t.keys.Nodup) :
    (registerAll dec t es).1.length = es.length ∧ t <+: (registerAll dec t es).2 ∧
    (registerAll dec t es).2.keys.Nodup := by
  induction es generalizing t with
  | nil => simp [registerAll, hnd]
  | cons e rest ih =>
    obtain ⟨name, h⟩ := e
    unfold registerAll
    cases hd : dec t name with
    | add n =>
      simp only
      have hfree := hdec t name n hd
      rw [has_false_iff] at hfree
      have hnd' : (t ++ [(lower n, h)]).keys.Nodup := by
        simp only [Table.keys, List.map_append, List.map_cons, List.map_nil]
        rw [List.nodup_append]
        refine ⟨hnd, by simp, ?_⟩
        intro a ha b hb
        simp only [List.mem_singleton] at hb
        subst hb
        intro e; subst e
        exact hfree ha
      obtain ⟨a, b, c⟩ := ih (t ++ [(lower n, h)]) hnd'
      refine ⟨by simp [a], ?_, c⟩
      exact List.IsPrefix.trans (List.prefix_append t _) b
    | useExisting x =>
      simp only
      obtain ⟨a, b, c⟩ := ih t hnd
      exact ⟨by simp [a], b, c⟩
    | error =>
      simp only
      obtain ⟨a, b, c⟩ := ih t hnd
      exact ⟨by simp [a], b, c⟩

example : addTableEntry .keep [120] [([108, 49], 7)] [76, 49] = .useExisting 7 := by decide
#guard addTableEntry .xrefPrefix [120] [([108, 49], 7)] [76, 49] = .add [120, 36, 48, 36, 76, 49]
#guard addTableEntry .numPrefix [120] [([108, 49], 7), ([36, 48, 36, 108, 49], 8)] [76, 49] = .add [36, 49, 36, 76, 49]
#guard addLayerEntry .xrefPrefix [120] [([48], 16)] [48] = .useExisting 16
#guard addLayerEntry .xrefPrefix [120] [([48], 16)] [68, 101, 102, 112, 111, 105, 110, 116, 115] =
  .add (if XrefTables.specialLayerAddedUnchanged then [68, 101, 102, 112, 111, 105, 110, 116, 115] else [120, 36, 48, 36, 68, 101, 102, 112, 111, 105, 110, 116, 115])

/-! ## §5 transfer on the abstract handle graph -/

private theorem get_cases (σ : Sigma) (h : Nat) : σ.get h = 0 ∨ (h, σ.get h) ∈ σ := by
  unfold Sigma.get
  cases hf : σ.find? (fun e => e.1 = h) with
  | none => left; rfl
  | some e =>
    right
    have h1 := List.find?_some hf
    have h2 := List.mem_of_find?_eq_some hf
    have : e.1 = h := by simpa using h1
    simp only
    rw [← this]
    exact h2

private theorem get_range (σ : Sigma) (h : Nat) : σ.get h = 0 ∨ σ.get h ∈ σ.range := by
  rcases get_cases σ h with a | a
  · exact Or.inl a
  · right
    simp only [Sigma.range, List.mem_map]
    exact ⟨_, a, rfl⟩

private theorem handles_map (db : Db) (f : Node → Node) (hf : ∀ n, (f n).handle = n.handle) :
    Db.handles (db.map f) = db.handles := by
  simp [Db.handles, List.map_map, Function.comp_def, hf]

private theorem registerOne_inv (guards discards : Bool) (d : Docs) (σ : Sigma) (dead : List Nat) (repl : Sigma)
    (s : Nat) (r : Reg) (d' : Docs) (dead' : List Nat) (repl' : Sigma)
    (h : registerOne guards discards d σ dead repl s r = .ok (d', dead', repl')) :
    d'.src = d.src ∧ d'.tgt.handles = d.tgt.handles ∧
    (∀ x ∈ dead', x ∈ dead ∨ x = 0 ∨ x ∈ σ.range) ∧
    (∀ e ∈ repl', e ∈ repl ∨ (r = .keepExisting e.2 ∧ e.1 ∈ dead')) ∧
    (∀ o ∈ d.tgt, o.handle ≠ 0 → o.handle ∉ σ.range → o ∈ d'.tgt) := by
  unfold registerOne at h
  split at h
  · rename_i sn cn hs hc
    cases r with
    | keepExisting e =>
      simp only at h
      split at h
      · cases h
      · simp only [Except.ok.injEq, Prod.mk.injEq] at h
        obtain ⟨h1, h2, h3⟩ := h
        subst h1 h2 h3
        refine ⟨rfl, rfl, ?_, ?_, fun o ho _ _ => ho⟩
        · intro x hx
          simp only [List.mem_append, List.mem_cons] at hx
          rcases hx with hx | hx | hx
          · exact Or.inl hx
          · right; subst hx; exact get_range σ s
          · right
            split at hx
            · simp only [List.mem_filter, List.mem_map, decide_eq_true_eq] at hx
              obtain ⟨⟨q, _, hq⟩, hne⟩ := hx
              rcases get_range σ q with a | a
              · rw [hq] at a; exact absurd a hne
              · rw [hq] at a; exact Or.inr a
            · simp at hx
        · intro e' he'
          simp only [List.mem_append, List.mem_singleton] at he'
          rcases he' with a | a
          · exact Or.inl a
          · right; subst a; exact ⟨rfl, by simp⟩
    | addNew =>
      simp only at h
      split at h
      · split at h
        · rename_i b e hb he
          split at h
          · cases h
          · rename_i hne
            simp only [Except.ok.injEq, Prod.mk.injEq] at h
            obtain ⟨h1, h2, h3⟩ := h
            subst h1 h2 h3
            refine ⟨rfl, ?_, fun x hx => Or.inl hx, fun e' he' => Or.inl he', ?_⟩
            · apply handles_map
              intro n
              split
              · rfl
              · split <;> rfl
            · intro o ho h0 hr
              simp only [List.mem_map]
              refine ⟨o, ho, ?_⟩
              have h1 : o.handle ≠ σ.get s := by
                intro e1
                rcases get_range σ s with a | a
                · exact h0 (e1.trans a)
                · exact hr (e1 ▸ a)
              have h2 : (σ.get b :: σ.get e :: List.filter (fun x => decide (x ≠ 0)) (List.map σ.get sn.content)).contains o.handle = false := by
                cases hcon : (σ.get b :: σ.get e :: List.filter (fun x => decide (x ≠ 0)) (List.map σ.get sn.content)).contains o.handle with
                | false => rfl
                | true =>
                  exfalso
                  have hm : o.handle ∈ (σ.get b :: σ.get e :: List.filter (fun x => decide (x ≠ 0)) (List.map σ.get sn.content)) := by
                    simpa using hcon
                  simp only [List.mem_cons, List.mem_filter, List.mem_map, decide_eq_true_eq] at hm
                  rcases hm with a | a | ⟨⟨q, _, hq⟩, _⟩
                  · rcases get_range σ b with c | c
                    · exact h0 (a.trans c)
                    · exact hr (a ▸ c)
                  · rcases get_range σ e with c | c
                    · exact h0 (a.trans c)
                    · exact hr (a ▸ c)
                  · rcases get_range σ q with c | c
                    · exact h0 (hq ▸ c)
                    · exact hr (hq ▸ c)
              rw [if_neg h1, h2]
              rfl
        · cases h
      · simp only [Except.ok.injEq, Prod.mk.injEq] at h
        obtain ⟨h1, h2, h3⟩ := h
        subst h1 h2 h3
        exact ⟨rfl, rfl, fun x hx => Or.inl hx, fun e' he' => Or.inl he', fun o ho _ _ => ho⟩
  · simp only [Except.ok.injEq, Prod.mk.injEq] at h
    obtain ⟨h1, h2, h3⟩ := h
    subst h1 h2 h3
    exact ⟨rfl, rfl, fun x hx => Or.inl hx, fun e' he' => Or.inl he', fun o ho _ _ => ho⟩


private theorem registerOne_dead_mono (guards discards : Bool) (d : Docs) (σ : Sigma) (dead : List Nat) (repl : Sigma)
    (s : Nat) (r : Reg) (d' : Docs) (dead' : List Nat) (repl' : Sigma)
    (h : registerOne guards discards d σ dead repl s r = .ok (d', dead', repl')) : ∀ x ∈ dead, x ∈ dead' := by
  unfold registerOne at h
  split at h
  · cases r with
    | keepExisting e =>
      simp only at h
      split at h
      · cases h
      · simp only [Except.ok.injEq, Prod.mk.injEq] at h
        obtain ⟨_, h2, _⟩ := h
        subst h2
        intro x hx
        exact List.mem_append_left _ hx
    | addNew =>
      simp only at h
      split at h
      · split at h
        · split at h
          · cases h
          · simp only [Except.ok.injEq, Prod.mk.injEq] at h
            obtain ⟨_, h2, _⟩ := h
            subst h2
            exact fun x hx => hx
        · cases h
      · simp only [Except.ok.injEq, Prod.mk.injEq] at h
        obtain ⟨_, h2, _⟩ := h
        subst h2
        exact fun x hx => hx
  · simp only [Except.ok.injEq, Prod.mk.injEq] at h
    obtain ⟨_, h2, _⟩ := h
    subst h2
    exact fun x hx => hx

private theorem registerPhase_inv (guards discards : Bool) (σ : Sigma) (regs : List (Nat × Reg)) :
    ∀ (d : Docs) (dead : List Nat) (repl : Sigma) (d' : Docs) (dead' : List Nat) (repl' : Sigma),
    registerPhase guards discards d σ dead repl regs = .ok (d', dead', repl') →
    d'.src = d.src ∧ d'.tgt.handles = d.tgt.handles ∧
    (∀ x ∈ dead', x ∈ dead ∨ x = 0 ∨ x ∈ σ.range) ∧
    (∀ e ∈ repl', e ∈ repl ∨ ((∃ x ∈ regs, x.2 = .keepExisting e.2) ∧ e.1 ∈ dead')) ∧
    (∀ x ∈ dead, x ∈ dead') ∧
    (∀ o ∈ d.tgt, o.handle ≠ 0 → o.handle ∉ σ.range → o ∈ d'.tgt) := by
  induction regs with
  | nil =>
    intro d dead repl d' dead' repl' h
    simp only [registerPhase, Except.ok.injEq, Prod.mk.injEq] at h
    obtain ⟨h1, h2, h3⟩ := h
    subst h1 h2 h3
    exact ⟨rfl, rfl, fun x hx => Or.inl hx, fun e he => Or.inl he, fun x hx => hx, fun o ho _ _ => ho⟩
  | cons x rest ih =>
    intro d dead repl d' dead' repl' h
    obtain ⟨s, r⟩ := x
    simp only [registerPhase] at h
    split at h
    · cases h
    · rename_i d1 dead1 repl1 h1
      obtain ⟨a1, a2, a3, a4, a5⟩ := registerOne_inv guards discards d σ dead repl s r d1 dead1 repl1 h1
      obtain ⟨b1, b2, b3, b4, b6, b5⟩ := ih d1 dead1 repl1 d' dead' repl' h
      have amono : ∀ x ∈ dead, x ∈ dead1 := registerOne_dead_mono guards discards d σ dead repl s r d1 dead1 repl1 h1
      refine ⟨b1.trans a1, b2.trans a2, ?_, ?_, fun x hx => b6 x (amono x hx), ?_⟩
      · intro y hy
        rcases b3 y hy with c | c
        · exact a3 y c
        · exact Or.inr c
      · intro e he
        rcases b4 e he with c | ⟨⟨y, hy, hk⟩, hd⟩
        · rcases a4 e c with c' | ⟨c', hd⟩
          · exact Or.inl c'
          · exact Or.inr ⟨⟨(s, r), by simp, c'⟩, b6 _ hd⟩
        · exact Or.inr ⟨⟨y, by simp [hy], hk⟩, hd⟩
      · intro o ho h0 hr
        exact b5 o (a5 o ho h0 hr) h0 hr

private theorem copyPhase_handles (d : Docs) (σ : Sigma) (hk : ∀ e ∈ σ, (d.src.find e.1).isSome = true) :
    (copyPhase d σ).tgt.handles = d.tgt.handles ++ σ.range := by
  simp only [copyPhase, Db.handles, List.map_append, Sigma.range]
  congr 1
  induction σ with
  | nil => rfl
  | cons e rest ih =>
    have he := hk e (by simp)
    have hr := ih (fun x hx => hk x (by simp [hx]))
    cases hf : d.src.find e.1 with
    | none => simp [hf] at he
    | some sn =>
      simp only [List.filterMap_cons, hf, Option.map_some, List.map_cons]
      rw [hr]
      rfl

private theorem handles_filter_map (l : List Node) (g : Node → Node) (hg : ∀ n, (g n).handle = n.handle)
    (dead : List Nat) :
    ((l.map g).filter (fun n => !dead.contains n.handle)).map (·.handle)
      = (l.map (·.handle)).filter (fun h => !dead.contains h) := by
  induction l with
  | nil => rfl
  | cons n r ih =>
    simp only [List.map_cons, List.filter_cons, hg]
    split
    · simp only [List.map_cons, hg, ih]
    · exact ih

private theorem final_handles (d2 : Docs) (σ0 σ1 : Sigma) (skip dead : List Nat) :
    (purge (mapPhase d2 σ0 σ1 skip) dead).tgt.handles = d2.tgt.handles.filter (fun h => !dead.contains h) := by
  simp only [purge, mapPhase, Db.handles]
  apply handles_filter_map
  intro n
  split
  · split
    · rfl
    · split <;> rfl
  · rfl

/-- the σ-entry of a clone handle -/
private theorem find_val (σ : Sigma) (c : Nat) (h : c ∈ σ.range) :
    ∃ e, σ.find? (fun e => e.2 = c) = some e ∧ e ∈ σ ∧ e.2 = c := by
  simp only [Sigma.range, List.mem_map] at h
  obtain ⟨e0, he0, hc⟩ := h
  cases hf : σ.find? (fun e => e.2 = c) with
  | none =>
    have := List.find?_eq_none.mp hf e0 he0
    simp [hc] at this
  | some e =>
    exact ⟨e, rfl, List.mem_of_find?_eq_some hf, by simpa using List.find?_some hf⟩

private theorem redirect_mem (σ repl : Sigma) (dead : List Nat) (q v : Nat) (h : (q, v) ∈ redirect σ repl dead) :
    ∃ t, (q, t) ∈ σ ∧ ((∃ r ∈ repl, r.1 = t ∧ v = r.2) ∨ (dead.contains t = true ∧ v = 0) ∨ (dead.contains t = false ∧ v = t)) := by
  simp only [redirect, List.mem_map] at h
  obtain ⟨⟨e1, e2⟩, he, hv⟩ := h
  simp only at hv
  split at hv
  · rename_i r hr
    simp only [Prod.mk.injEq] at hv
    obtain ⟨h1, h2⟩ := hv
    subst h1
    exact ⟨e2, he, Or.inl ⟨r, List.mem_of_find?_eq_some hr, by simpa using List.find?_some hr, h2.symm⟩⟩
  · split at hv
    · rename_i hd
      simp only [Prod.mk.injEq] at hv
      obtain ⟨h1, h2⟩ := hv
      subst h1
      exact ⟨e2, he, Or.inr (Or.inl ⟨hd, h2.symm⟩)⟩
    · rename_i hd
      simp only [Prod.mk.injEq] at hv
      obtain ⟨h1, h2⟩ := hv
      subst h1
      exact ⟨e2, he, Or.inr (Or.inr ⟨by simpa using hd, h2.symm⟩)⟩


private theorem not_mem_of_contains_false (l : List Nat) (x : Nat) (h : l.contains x = false) : x ∉ l := by
  intro hm
  have : l.contains x = true := by simpa using hm
  rw [h] at this
  cases this

/-- what `transfer` returns, unfolded once -/
private theorem transfer_ok (guards discards : Bool) (d : Docs) (σ : Sigma) (regs : List (Nat × Reg)) (placed : List Nat)
    (d' : Docs) (σ' : Sigma) (h : transfer guards discards d σ regs placed = .ok (d', σ')) :
    ∃ d2 dead repl, registerPhase guards discards (copyPhase d σ) σ [] [] regs = .ok (d2, dead, repl) ∧
      σ' = redirect σ repl dead ∧
      d' = purge (mapPhase d2 σ σ' (repl.map (·.1))) (purgeList dead repl placed) := by
  unfold transfer at h
  simp only at h
  split at h
  · cases h
  · rename_i d2 dead repl hp
    simp only [Except.ok.injEq, Prod.mk.injEq] at h
    obtain ⟨hd, hσ⟩ := h
    exact ⟨d2, dead, repl, hp, hσ.symm, by rw [← hσ]; exact hd.symm⟩

/-- the transfer never writes to the source document (every write primitive of the model takes the document as
    an argument; `mapPhaseUnfixedLayer` below shows what a write to the source looks like) -/
theorem transfer_source_unchanged (guards discards : Bool) (d : Docs) (σ : Sigma) (regs : List (Nat × Reg))
    (placed : List Nat) (d' : Docs) (σ' : Sigma) (h : transfer guards discards d σ regs placed = .ok (d', σ')) :
    d'.src = d.src := by
  obtain ⟨d2, dead, repl, hp, _, hd⟩ := transfer_ok guards discards d σ regs placed d' σ' h
  obtain ⟨a, _⟩ := registerPhase_inv guards discards σ regs _ _ _ _ _ _ hp
  subst hd
  simpa [purge, mapPhase, copyPhase] using a

private theorem purgeList_sub (dead : List Nat) (repl : Sigma) (placed : List Nat) (x : Nat)
    (h : dead.contains x = false) : (purgeList dead repl placed).contains x = false := by
  cases hc : (purgeList dead repl placed).contains x with
  | false => rfl
  | true =>
    exfalso
    have hm : x ∈ purgeList dead repl placed := by simpa using hc
    have := (List.mem_filter.mp hm).1
    exact not_mem_of_contains_false dead x h this

private theorem mem_final (d : Docs) (σ : Sigma) (hwf : WF d σ) (d2 : Docs) (skip dead : List Nat) (σ1 : Sigma)
    (hh : d2.tgt.handles = (copyPhase d σ).tgt.handles) (x : Nat)
    (hx : x ∈ d.tgt.handles ∨ x ∈ σ.range) (hd : dead.contains x = false) :
    x ∈ (purge (mapPhase d2 σ σ1 skip) dead).tgt.handles := by
  rw [final_handles, hh, copyPhase_handles d σ hwf.keys_in_src]
  simp only [List.mem_filter, List.mem_append]
  exact ⟨hx, by simpa using not_mem_of_contains_false dead x hd⟩

private theorem old_not_dead (d : Docs) (σ : Sigma) (hwf : WF d σ) (dead : List Nat)
    (hdead : ∀ x ∈ dead, x ∈ ([] : List Nat) ∨ x = 0 ∨ x ∈ σ.range) (x : Nat) (hx : x ∈ d.tgt.handles) :
    dead.contains x = false := by
  cases hc : dead.contains x with
  | false => rfl
  | true =>
    exfalso
    have hm : x ∈ dead := by simpa using hc
    rcases hdead x hm with a | a | a
    · simp at a
    · subst a; exact hwf.no_null_node hx
    · simp only [Sigma.range, List.mem_map] at a
      obtain ⟨e, he, hex⟩ := a
      exact hwf.vals_fresh e he (hex ▸ hx)

/-- the pointer fields of a transferred node after the transfer -/
private theorem new_node_ptrs (d : Docs) (σ : Sigma) (hwf : WF d σ) (d2 : Docs) (skip dead : List Nat) (σ1 : Sigma)
    (hskip : ∀ x ∈ skip, x ∈ dead)
    (hsrc : d2.src = d.src) (n : Node) (hn : n ∈ (purge (mapPhase d2 σ σ1 skip) dead).tgt) (hr : n.handle ∈ σ.range) :
    ∃ e sn, e ∈ σ ∧ e.2 = n.handle ∧ d.src.find e.1 = some sn ∧ n.ptrs = sn.ptrs.map σ1.get ∧ dead.contains n.handle = false := by
  simp only [purge, mapPhase, List.mem_filter, List.mem_map] at hn
  obtain ⟨⟨m, hm, hg⟩, hnd⟩ := hn
  have hnd' : dead.contains n.handle = false := by simpa using hnd
  have hh : n.handle = m.handle := by
    rw [← hg]
    split
    · split
      · rfl
      · split <;> rfl
    · rfl
  obtain ⟨e, hf, he, hev⟩ := find_val σ m.handle (hh ▸ hr)
  rw [hf] at hg
  obtain ⟨s, c⟩ := e
  simp only at hg hev
  have hmd : skip.contains m.handle = false := by
    cases hc : skip.contains m.handle with
    | false => rfl
    | true =>
      exfalso
      have hm' : m.handle ∈ skip := by simpa using hc
      exact not_mem_of_contains_false dead _ (hh ▸ hnd') (hskip _ hm')
  rw [hmd] at hg
  simp only [Bool.false_eq_true, ↓reduceIte, hsrc] at hg
  have hk := hwf.keys_in_src (s, c) he
  cases hfs : d.src.find s with
  | none => simp [hfs] at hk
  | some sn =>
    rw [hfs] at hg
    simp only at hg
    refine ⟨(s, c), sn, he, hev.trans hh.symm, hfs, ?_, hnd'⟩
    rw [← hg]

private theorem skip_sub (dead : List Nat) (repl : Sigma) (placed : List Nat)
    (h : ∀ e ∈ repl, e ∈ ([] : Sigma) ∨ ((∃ x ∈ (regs : List (Nat × Reg)), x.2 = Reg.keepExisting e.2) ∧ e.1 ∈ dead)) :
    ∀ x ∈ repl.map (·.1), x ∈ purgeList dead repl placed := by
  intro x hx
  simp only [List.mem_map] at hx
  obtain ⟨e, he, hex⟩ := hx
  rcases h e he with c | ⟨_, c⟩
  · simp at c
  · subst hex
    refine List.mem_filter.mpr ⟨c, ?_⟩
    have : (repl.map (·.1)).contains e.1 = true := by
      simp only [List.contains_iff_mem, List.mem_map]
      exact ⟨e, he, rfl⟩
    rw [this]
    rfl

/-- closure: after a transfer (code with the `destroy` guard) every pointer field of every transferred node is
    null or the handle of a node that IS in the target — the existing entry a KEEP decision redirected to, or a
    live copy; pointers to discarded copies and to unregistered source entities are null -/
private theorem transfer_closed_g (discards : Bool) (d : Docs) (σ : Sigma) (regs : List (Nat × Reg)) (placed : List Nat)
    (d' : Docs) (σ' : Sigma)
    (hwf : WF d σ) (hregs : RegsOk d regs) (h : transfer true discards d σ regs placed = .ok (d', σ')) :
    ∀ n ∈ d'.tgt, n.handle ∈ σ.range → ∀ p ∈ n.ptrs, p = 0 ∨ p ∈ d'.tgt.handles := by
  obtain ⟨d2, dead, repl, hp, hσ, hd⟩ := transfer_ok true discards d σ regs placed d' σ' h
  obtain ⟨a1, a2, a3, a4, _, _⟩ := registerPhase_inv true discards σ regs _ _ _ _ _ _ hp
  intro n hn hr p hpm
  subst hd
  obtain ⟨e, sn, he, hev, hfs, hptrs, _⟩ := new_node_ptrs d σ hwf d2 _ _ σ' (skip_sub dead repl placed a4)
    (by simpa [copyPhase] using a1) n hn hr
  rw [hptrs] at hpm
  simp only [List.mem_map] at hpm
  obtain ⟨q, _, hq⟩ := hpm
  rcases get_cases σ' q with z | z
  · left; rw [← hq]; exact z
  · rw [hq, hσ] at z
    obtain ⟨t, ht, hcase⟩ := redirect_mem σ repl dead q p z
    rcases hcase with ⟨r, hr1, _, hr3⟩ | ⟨_, hv⟩ | ⟨hnd, hv⟩
    · right
      have hold : r.2 ∈ d.tgt.handles := by
        rcases a4 r hr1 with c | ⟨⟨x, hx, hk⟩, _⟩
        · simp at c
        · exact hregs x hx r.2 hk
      rw [hr3]
      exact mem_final d σ hwf d2 _ _ _ a2 r.2 (Or.inl hold)
        (purgeList_sub dead repl placed _ (old_not_dead d σ hwf dead a3 r.2 hold))
    · left; exact hv
    · right
      rw [hv]
      refine mem_final d σ hwf d2 _ _ _ a2 t (Or.inr ?_) (purgeList_sub dead repl placed _ hnd)
      simp only [Sigma.range, List.mem_map]
      exact ⟨(q, t), ht, rfl⟩

/-- the redirected handle mapping itself is closed: every value of `σ'` is null or the handle of a node that is in the target
    after the transfer (an existing entry a KEEP decision redirected to, or a live copy) -/
private theorem transfer_sigma_closed_g (discards : Bool) (d : Docs) (σ : Sigma) (regs : List (Nat × Reg)) (placed : List Nat)
    (d' : Docs) (σ' : Sigma)
    (hwf : WF d σ) (hregs : RegsOk d regs) (h : transfer true discards d σ regs placed = .ok (d', σ')) :
    ∀ e ∈ σ', e.2 = 0 ∨ e.2 ∈ d'.tgt.handles := by
  obtain ⟨d2, dead, repl, hp, hσ, hd⟩ := transfer_ok true discards d σ regs placed d' σ' h
  obtain ⟨a1, a2, a3, a4, _, _⟩ := registerPhase_inv true discards σ regs _ _ _ _ _ _ hp
  intro e he
  subst hd
  obtain ⟨q, p⟩ := e
  simp only
  rw [hσ] at he
  obtain ⟨t, ht, hcase⟩ := redirect_mem σ repl dead q p he
  rcases hcase with ⟨r, hr1, _, hr3⟩ | ⟨_, hv⟩ | ⟨hnd, hv⟩
  · right
    have hold : r.2 ∈ d.tgt.handles := by
      rcases a4 r hr1 with c | ⟨⟨x, hx, hk⟩, _⟩
      · simp at c
      · exact hregs x hx r.2 hk
    rw [hr3]
    exact mem_final d σ hwf d2 _ _ _ a2 r.2 (Or.inl hold)
      (purgeList_sub dead repl placed _ (old_not_dead d σ hwf dead a3 r.2 hold))
  · left; exact hv
  · right
    rw [hv]
    refine mem_final d σ hwf d2 _ _ _ a2 t (Or.inr ?_) (purgeList_sub dead repl placed _ hnd)
    simp only [Sigma.range, List.mem_map]
    exact ⟨(q, t), ht, rfl⟩

/-- no handle of the source document leaks: when the source handles are disjoint from the target's old handles
    and from the handles handed out for the copies, no pointer field of a transferred node is a source handle -/
private theorem transfer_no_leak_g (discards : Bool) (d : Docs) (σ : Sigma) (regs : List (Nat × Reg)) (placed : List Nat)
    (d' : Docs) (σ' : Sigma)
    (hwf : WF d σ) (hregs : RegsOk d regs) (h : transfer true discards d σ regs placed = .ok (d', σ'))
    (hdis : ∀ x ∈ d.src.handles, x ≠ 0 ∧ x ∉ d.tgt.handles ∧ x ∉ σ.range) :
    ∀ n ∈ d'.tgt, n.handle ∈ σ.range → ∀ p ∈ n.ptrs, p ∉ d.src.handles := by
  intro n hn hr p hpm hps
  obtain ⟨h0, h1, h2⟩ := hdis p hps
  rcases transfer_closed_g discards d σ regs placed d' σ' hwf hregs h n hn hr p hpm with a | a
  · exact h0 a
  · obtain ⟨d2, dead, repl, hp, _, hd⟩ := transfer_ok true discards d σ regs placed d' σ' h
    obtain ⟨_, a2, _⟩ := registerPhase_inv true discards σ regs _ _ _ _ _ _ hp
    subst hd
    rw [final_handles, a2, copyPhase_handles d σ hwf.keys_in_src] at a
    simp only [List.mem_filter, List.mem_append] at a
    rcases a.1 with b | b
    · exact h1 b
    · exact h2 b

/-- the target's own nodes are left exactly as they were (KEEP: "the target's entry is kept"; in general: a
    transfer only adds) -/
private theorem transfer_keeps_target_g (discards : Bool) (d : Docs) (σ : Sigma) (regs : List (Nat × Reg)) (placed : List Nat)
    (d' : Docs) (σ' : Sigma)
    (hwf : WF d σ) (h : transfer true discards d σ regs placed = .ok (d', σ')) :
    ∀ o ∈ d.tgt, o ∈ d'.tgt := by
  obtain ⟨d2, dead, repl, hp, _, hd⟩ := transfer_ok true discards d σ regs placed d' σ' h
  obtain ⟨_, _, a3, _, _, a5⟩ := registerPhase_inv true discards σ regs _ _ _ _ _ _ hp
  intro o ho
  have hoh : o.handle ∈ d.tgt.handles := by simp only [Db.handles, List.mem_map]; exact ⟨o, ho, rfl⟩
  have h0 : o.handle ≠ 0 := fun e => hwf.no_null_node (e ▸ hoh)
  have hnr : o.handle ∉ σ.range := by
    intro hr
    simp only [Sigma.range, List.mem_map] at hr
    obtain ⟨e, he, hex⟩ := hr
    exact hwf.vals_fresh e he (hex ▸ hoh)
  have h2 : o ∈ d2.tgt := a5 o (by simp [copyPhase, ho]) h0 hnr
  subst hd
  simp only [purge, mapPhase, List.mem_filter, List.mem_map]
  refine ⟨⟨o, h2, ?_⟩, by
    simpa using not_mem_of_contains_false _ _
      (purgeList_sub dead repl placed _ (old_not_dead d σ hwf dead a3 o.handle hoh))⟩
  have : σ.find? (fun e => e.2 = o.handle) = none := by
    apply List.find?_eq_none.mpr
    intro e he hc
    apply hnr
    simp only [Sigma.range, List.mem_map]
    exact ⟨e, he, by simpa using hc⟩
  rw [this]


/-! ### faithfulness -/

private theorem kinds_map (db : Db) (f : Node → Node) (hf : ∀ n, (f n).handle = n.handle ∧ (f n).kind = n.kind) :
    Db.kinds (db.map f) = db.kinds := by
  simp only [Db.kinds, List.map_map]
  apply List.map_congr_left
  intro n _
  simp [(hf n).1, (hf n).2]

private theorem registerOne_kinds (guards discards : Bool) (d : Docs) (σ : Sigma) (dead : List Nat) (repl : Sigma)
    (s : Nat) (r : Reg) (d' : Docs) (dead' : List Nat) (repl' : Sigma)
    (h : registerOne guards discards d σ dead repl s r = .ok (d', dead', repl')) :
    d'.tgt.kinds = d.tgt.kinds ∧ (r = .addNew → dead' = dead ∧ repl' = repl) := by
  unfold registerOne at h
  split at h
  · cases r with
    | keepExisting e =>
      simp only at h
      split at h
      · cases h
      · simp only [Except.ok.injEq, Prod.mk.injEq] at h
        obtain ⟨h1, _, _⟩ := h
        subst h1
        exact ⟨rfl, fun c => by cases c⟩
    | addNew =>
      simp only at h
      split at h
      · split at h
        · split at h
          · cases h
          · simp only [Except.ok.injEq, Prod.mk.injEq] at h
            obtain ⟨h1, h2, h3⟩ := h
            subst h1 h2 h3
            refine ⟨?_, fun _ => ⟨rfl, rfl⟩⟩
            apply kinds_map
            intro n
            split
            · exact ⟨rfl, rfl⟩
            · split <;> exact ⟨rfl, rfl⟩
        · cases h
      · simp only [Except.ok.injEq, Prod.mk.injEq] at h
        obtain ⟨h1, h2, h3⟩ := h
        subst h1 h2 h3
        exact ⟨rfl, fun _ => ⟨rfl, rfl⟩⟩
  · simp only [Except.ok.injEq, Prod.mk.injEq] at h
    obtain ⟨h1, h2, h3⟩ := h
    subst h1 h2 h3
    exact ⟨rfl, fun _ => ⟨rfl, rfl⟩⟩

private theorem registerPhase_kinds (guards discards : Bool) (σ : Sigma) (regs : List (Nat × Reg)) :
    ∀ (d : Docs) (dead : List Nat) (repl : Sigma) (d' : Docs) (dead' : List Nat) (repl' : Sigma),
    registerPhase guards discards d σ dead repl regs = .ok (d', dead', repl') →
    d'.tgt.kinds = d.tgt.kinds ∧ ((∀ x ∈ regs, x.2 = Reg.addNew) → dead' = dead ∧ repl' = repl) := by
  induction regs with
  | nil =>
    intro d dead repl d' dead' repl' h
    simp only [registerPhase, Except.ok.injEq, Prod.mk.injEq] at h
    obtain ⟨h1, h2, h3⟩ := h
    subst h1 h2 h3
    exact ⟨rfl, fun _ => ⟨rfl, rfl⟩⟩
  | cons x rest ih =>
    intro d dead repl d' dead' repl' h
    obtain ⟨s, r⟩ := x
    simp only [registerPhase] at h
    split at h
    · cases h
    · rename_i d1 dead1 repl1 h1
      obtain ⟨a1, a2⟩ := registerOne_kinds guards discards d σ dead repl s r d1 dead1 repl1 h1
      obtain ⟨b1, b2⟩ := ih d1 dead1 repl1 d' dead' repl' h
      refine ⟨b1.trans a1, ?_⟩
      intro hall
      obtain ⟨c1, c2⟩ := a2 (hall (s, r) (by simp))
      obtain ⟨e1, e2⟩ := b2 (fun y hy => hall y (by simp [hy]))
      exact ⟨e1.trans c1, e2.trans c2⟩

private theorem redirect_nil (σ : Sigma) : redirect σ [] [] = σ := by
  simp [redirect]

private theorem copyPhase_kinds_mem (d : Docs) (σ : Sigma) (e : Nat × Nat) (he : e ∈ σ) (sn : Node)
    (hs : d.src.find e.1 = some sn) : (e.2, sn.kind) ∈ (copyPhase d σ).tgt.kinds := by
  simp only [copyPhase, Db.kinds, List.map_append, List.mem_append, List.mem_map, List.mem_filterMap]
  right
  exact ⟨cloneOf sn e.2, ⟨e, he, by simp [hs]⟩, rfl⟩

private theorem final_kinds_mem (d2 : Docs) (σ0 σ1 : Sigma) (x : Nat × Kind) (hx : x ∈ d2.tgt.kinds) :
    ∃ m ∈ (purge (mapPhase d2 σ0 σ1 []) []).tgt, m.handle = x.1 ∧ m.kind = x.2 := by
  simp only [Db.kinds, List.mem_map] at hx
  obtain ⟨n, hn, hnx⟩ := hx
  simp only [purge, mapPhase, List.mem_filter, List.mem_map]
  refine ⟨_, ⟨⟨n, hn, rfl⟩, by simp⟩, ?_⟩
  rw [← hnx]
  split
  · split
    · exact ⟨rfl, rfl⟩
    · split <;> exact ⟨rfl, rfl⟩
  · exact ⟨rfl, rfl⟩

private theorem get_of_key (σ : Sigma) (q : Nat) (h : q ∈ σ.map (·.1)) : ∃ e ∈ σ, e.1 = q ∧ σ.get q = e.2 := by
  simp only [List.mem_map] at h
  obtain ⟨e0, he0, hq⟩ := h
  unfold Sigma.get
  cases hf : σ.find? (fun e => e.1 = q) with
  | none =>
    have := List.find?_eq_none.mp hf e0 he0
    simp [hq] at this
  | some e =>
    exact ⟨e, List.mem_of_find?_eq_some hf, by simpa using List.find?_some hf, rfl⟩

/-- faithfulness: when the registry is closed under references and every copy is added (no KEEP redirection), each
    pointer field of a transferred node is the σ-image of the source pointer; a non-null source pointer stays
    non-null and points to a node of the target that is the copy (same kind) of the entity the source pointed to -/
private theorem transfer_faithful_g (discards : Bool) (d : Docs) (σ : Sigma) (regs : List (Nat × Reg)) (placed : List Nat)
    (d' : Docs) (σ' : Sigma)
    (hwf : WF d σ) (hcl : RegistryClosed d σ) (hall : ∀ x ∈ regs, x.2 = Reg.addNew)
    (h : transfer true discards d σ regs placed = .ok (d', σ')) :
    σ' = σ ∧ ∀ n ∈ d'.tgt, n.handle ∈ σ.range →
      ∃ e sn, e ∈ σ ∧ e.2 = n.handle ∧ d.src.find e.1 = some sn ∧ n.ptrs = sn.ptrs.map σ.get ∧
        ∀ q ∈ sn.ptrs, q ≠ 0 → σ.get q ≠ 0 ∧
          ∃ sq m, d.src.find q = some sq ∧ m ∈ d'.tgt ∧ m.handle = σ.get q ∧ m.kind = sq.kind := by
  obtain ⟨d2, dead, repl, hp, hσ, hd⟩ := transfer_ok true discards d σ regs placed d' σ' h
  obtain ⟨a1, _⟩ := registerPhase_inv true discards σ regs _ _ _ _ _ _ hp
  obtain ⟨k1, k2⟩ := registerPhase_kinds true discards σ regs _ _ _ _ _ _ hp
  obtain ⟨hdead, hrepl⟩ := k2 hall
  subst hdead hrepl
  rw [redirect_nil] at hσ
  subst hσ
  refine ⟨rfl, ?_⟩
  intro n hn hr
  have hpl : purgeList [] [] placed = [] := rfl
  rw [hpl] at hd
  simp only [List.map_nil] at hd
  subst hd
  obtain ⟨e, sn, he, hev, hfs, hptrs, _⟩ := new_node_ptrs d σ' hwf d2 [] [] σ' (fun x hx => hx)
    (by simpa [copyPhase] using a1) n hn hr
  refine ⟨e, sn, he, hev, hfs, hptrs, ?_⟩
  intro q hq hq0
  rcases hcl e he sn hfs q hq with z | z
  · exact absurd z hq0
  · obtain ⟨e', he', hk, hg⟩ := get_of_key σ' q z
    refine ⟨by rw [hg]; exact hwf.vals_nonzero e' he', ?_⟩
    have hks := hwf.keys_in_src e' he'
    cases hfq : d.src.find e'.1 with
    | none => simp [hfq] at hks
    | some sq =>
      have hmem := copyPhase_kinds_mem d σ' e' he' sq hfq
      rw [← k1] at hmem
      obtain ⟨m, hm, hm1, hm2⟩ := final_kinds_mem d2 σ' σ' _ hmem
      exact ⟨sq, m, hk ▸ hfq, hm, by rw [hg]; exact hm1, hm2⟩


/-! ### the two-phase life of a copied BLOCK_RECORD -/

/-- phase one: whatever the source block record holds, its fresh copy has no BLOCK, no ENDBLK and no content -/
example (n : Node) (h' : Nat) :
    (cloneOf n h').block = none ∧ (cloneOf n h').endblk = none ∧ (cloneOf n h').content = [] ∧
    (cloneOf n h').kind = n.kind ∧ (cloneOf n h').handle = h' := ⟨rfl, rfl, rfl, rfl, rfl⟩

/-- regression fact about the explicitly UNFIXED configuration (`guards = false`, the code before c1a14998c): a KEEP
    decision on ANY copied block record raised AttributeError, because `BlockRecord.destroy` dereferenced `self.block`,
    which is None until the content is restored -/
theorem regression_unguarded_destroy_crashes (discards : Bool) (d : Docs) (σ : Sigma) (dead : List Nat) (repl : Sigma)
    (s e : Nat) (sn cn : Node) (hs : d.src.find s = some sn) (hc : d.tgt.find (σ.get s) = some cn)
    (hk : cn.kind = .blockRecord) (hb : cn.block = none) :
    registerOne false discards d σ dead repl s (.keepExisting e) = .error .attributeError := by
  simp [registerOne, hs, hc, destroyCopy, hk, hb]

/-- with the guard the same decision succeeds: the copy (and, with `discards`, its copied BLOCK / ENDBLK / content) is
    marked destroyed and the mapping of the copy is redirected to the target's existing block record -/
theorem fixed_keep_block_ok (discards : Bool) (d : Docs) (σ : Sigma) (dead : List Nat) (repl : Sigma)
    (s e : Nat) (sn cn : Node) (hs : d.src.find s = some sn) (hc : d.tgt.find (σ.get s) = some cn) :
    ∃ dead' , registerOne true discards d σ dead repl s (.keepExisting e) = .ok (d, dead', repl ++ [(σ.get s, e)]) ∧
      σ.get s ∈ dead' ∧
      (sn.kind = .blockRecord → discards = true →
        ∀ q ∈ sn.block.toList ++ sn.content ++ sn.endblk.toList, σ.get q ≠ 0 → σ.get q ∈ dead') := by
  refine ⟨dead ++ σ.get s :: (if sn.kind = .blockRecord ∧ discards = true
      then ((sn.block.toList ++ sn.content ++ sn.endblk.toList).map σ.get).filter (· ≠ 0) else []), ?_, by simp, ?_⟩
  · unfold registerOne
    rw [hs, hc]
    simp [destroyCopy]
  intro hk hd q hq hne
  apply List.mem_append_right
  apply List.mem_cons_of_mem
  rw [if_pos ⟨hk, hd⟩]
  refine List.mem_filter.mpr ⟨List.mem_map.mpr ⟨q, hq, rfl⟩, ?_⟩
  simpa using hne

/-- phase two: restoring the content of a copied block record links the copy to the copies of BLOCK, ENDBLK and of
    every content entity that was copied, in the source order -/
theorem block_record_restore (guards discards : Bool) (d : Docs) (σ : Sigma) (dead : List Nat) (repl : Sigma)
    (s b e : Nat) (sn cn : Node) (hs : d.src.find s = some sn) (hc : d.tgt.find (σ.get s) = some cn)
    (hk : sn.kind = .blockRecord) (hb : sn.block = some b) (he : sn.endblk = some e)
    (hbn : σ.get b ≠ 0) (hen : σ.get e ≠ 0) :
    ∃ d', registerOne guards discards d σ dead repl s .addNew = .ok (d', dead, repl) ∧ d'.src = d.src ∧
      ∀ n ∈ d'.tgt, (n.handle = σ.get s →
          n.block = some (σ.get b) ∧ n.endblk = some (σ.get e) ∧
          n.content = (sn.content.map σ.get).filter (· ≠ 0)) ∧
        (n.handle ≠ σ.get s → (n.handle = σ.get b ∨ n.handle = σ.get e ∨ n.handle ∈ (sn.content.map σ.get).filter (· ≠ 0)) →
          n.owner = σ.get s) := by
  refine ⟨{ d with tgt := d.tgt.map fun n =>
      if n.handle = σ.get s then
        { n with block := some (σ.get b), endblk := some (σ.get e), content := (sn.content.map σ.get).filter (· ≠ 0) }
      else if (σ.get b :: σ.get e :: (sn.content.map σ.get).filter (· ≠ 0)).contains n.handle then
        { n with owner := σ.get s } else n }, ?_, rfl, ?_⟩
  · unfold registerOne
    rw [hs, hc]
    simp only [hk, ↓reduceIte, hb, he]
    rw [if_neg (by simp [hbn, hen])]
  intro n hn
  simp only [List.mem_map] at hn
  obtain ⟨m, _, hm⟩ := hn
  constructor
  · intro hh
    by_cases hm1 : m.handle = σ.get s
    · rw [if_pos hm1] at hm
      rw [← hm]
      exact ⟨rfl, rfl, rfl⟩
    · rw [if_neg hm1] at hm
      exfalso
      apply hm1
      rw [← hh, ← hm]
      split <;> rfl
  · intro hne hin
    by_cases hm1 : m.handle = σ.get s
    · rw [if_pos hm1] at hm
      exfalso; apply hne; rw [← hm]; exact hm1
    · rw [if_neg hm1] at hm
      have hmh : n.handle = m.handle := by rw [← hm]; split <;> rfl
      have : (σ.get b :: σ.get e :: (sn.content.map σ.get).filter (· ≠ 0)).contains m.handle = true := by
        rw [← hmh]
        simp only [List.contains_iff_mem, List.mem_cons]
        rcases hin with a | a | a
        · exact Or.inl a
        · exact Or.inr (Or.inl a)
        · exact Or.inr (Or.inr a)
      rw [if_pos this] at hm
      rw [← hm]

/-! ### the restored block record through the WHOLE transfer (session 3) -/

private theorem find_of_mem_handles (db : Db) (h : Nat) (hm : h ∈ db.handles) : ∃ n, db.find h = some n := by
  simp only [Db.handles, List.mem_map] at hm
  obtain ⟨m, hm1, hm2⟩ := hm
  cases hf : db.find h with
  | some n => exact ⟨n, rfl⟩
  | none =>
    simp only [Db.find, List.find?_eq_none] at hf
    exact absurd (by simpa using hm2) (hf m hm1)

private theorem registerPhase_append (guards discards : Bool) (σ : Sigma) :
    ∀ (pre post : List (Nat × Reg)) (d : Docs) (dead : List Nat) (repl : Sigma),
      registerPhase guards discards d σ dead repl (pre ++ post) =
        match registerPhase guards discards d σ dead repl pre with
        | .error x => .error x
        | .ok (d1, dead1, repl1) => registerPhase guards discards d1 σ dead1 repl1 post := by
  intro pre
  induction pre with
  | nil => intro post d dead repl; rfl
  | cons x rest ih =>
    intro post d dead repl
    obtain ⟨s, r⟩ := x
    simp only [List.cons_append, registerPhase]
    cases registerOne guards discards d σ dead repl s r with
    | error x => rfl
    | ok v =>
      obtain ⟨d1, dead1, repl1⟩ := v
      exact ih post d1 dead1 repl1

/-- one registration step for ANOTHER source handle keeps the links of the restored copy of `s` -/
private theorem registerOne_keeps_restored (guards discards : Bool) (d : Docs) (σ : Sigma) (dead : List Nat) (repl : Sigma)
    (s' : Nat) (r : Reg) (d' : Docs) (dead' : List Nat) (repl' : Sigma)
    (h : registerOne guards discards d σ dead repl s' r = .ok (d', dead', repl'))
    (s : Nat) (sn : Node) (b e : Nat) (hR : Restored d.tgt σ s sn b e) (hne : σ.get s' ≠ σ.get s)
    (hdis : ∀ sn' b' e', d.src.find s' = some sn' → sn'.block = some b' → sn'.endblk = some e' →
      ∀ x ∈ ownedCopies σ sn' b' e', x ∉ ownedCopies σ sn b e) :
    Restored d'.tgt σ s sn b e := by
  unfold registerOne at h
  split at h
  · rename_i sn' cn hs hc
    cases r with
    | keepExisting e0 =>
      simp only at h
      split at h
      · cases h
      · simp only [Except.ok.injEq, Prod.mk.injEq] at h
        rw [← h.1]; exact hR
    | addNew =>
      simp only at h
      split at h
      · split at h
        · rename_i b' e' hb' he'
          split at h
          · cases h
          · simp only [Except.ok.injEq, Prod.mk.injEq] at h
            rw [← h.1]
            intro n hn
            simp only [List.mem_map] at hn
            obtain ⟨m, hm, hmn⟩ := hn
            have hRm := hR m hm
            by_cases c1 : m.handle = σ.get s'
            · rw [if_pos c1] at hmn
              subst hmn
              refine ⟨fun hh => absurd (c1.symm.trans hh) hne, fun _ hin => ?_⟩
              exact hRm.2 (fun c => hne (c1.symm.trans c)) hin
            · rw [if_neg c1] at hmn
              split at hmn
              · rename_i c2
                subst hmn
                refine ⟨fun hh => hRm.1 hh, fun _ hin => ?_⟩
                exfalso
                have : m.handle ∈ ownedCopies σ sn' b' e' := by
                  simpa [ownedCopies] using c2
                exact hdis sn' b' e' hs hb' he' m.handle this hin
              · subst hmn; exact hRm
        · cases h
      · simp only [Except.ok.injEq, Prod.mk.injEq] at h
        rw [← h.1]; exact hR
  · simp only [Except.ok.injEq, Prod.mk.injEq] at h
    rw [← h.1]; exact hR

private theorem registerPhase_keeps_restored (guards discards : Bool) (σ : Sigma) (src : Db) (s : Nat) (sn : Node) (b e : Nat) :
    ∀ (regs : List (Nat × Reg)) (d : Docs) (dead : List Nat) (repl : Sigma) (d' : Docs) (dead' : List Nat) (repl' : Sigma),
      registerPhase guards discards d σ dead repl regs = .ok (d', dead', repl') → d.src = src →
      Restored d.tgt σ s sn b e → (∀ x ∈ regs, σ.get x.1 ≠ σ.get s) →
      (∀ x ∈ regs, ∀ sn' b' e', src.find x.1 = some sn' → sn'.block = some b' → sn'.endblk = some e' →
        ∀ y ∈ ownedCopies σ sn' b' e', y ∉ ownedCopies σ sn b e) →
      Restored d'.tgt σ s sn b e := by
  intro regs
  induction regs with
  | nil =>
    intro d dead repl d' dead' repl' h _ hR _ _
    simp only [registerPhase, Except.ok.injEq, Prod.mk.injEq] at h
    rw [← h.1]; exact hR
  | cons x rest ih =>
    intro d dead repl d' dead' repl' h hsrc hR hne hdis
    obtain ⟨s', r⟩ := x
    simp only [registerPhase] at h
    split at h
    · cases h
    · rename_i d1 dead1 repl1 h1
      have hinv := registerOne_inv guards discards d σ dead repl s' r d1 dead1 repl1 h1
      refine ih d1 dead1 repl1 d' dead' repl' h (hinv.1.trans hsrc) ?_ (fun y hy => hne y (List.mem_cons_of_mem _ hy))
        (fun y hy => hdis y (List.mem_cons_of_mem _ hy))
      exact registerOne_keeps_restored guards discards d σ dead repl s' r d1 dead1 repl1 h1 s sn b e hR
        (hne (s', r) (List.mem_cons_self ..)) (fun sn' b' e' hf => hdis (s', r) (List.mem_cons_self ..) sn' b' e' (hsrc ▸ hf))

/-- `block_record_restore` carried through the WHOLE transfer (induction over the registration list, then the map phase and the
    purge): when the copied block record `s` is added (it occurs once in the registration list, with `addNew`), then in the
    document the transfer returns its copy refers to the copies of BLOCK, ENDBLK and of every copied content entity, in source
    order, and every surviving one of those copies is owned by it — whatever is registered before and after, provided no other
    registered block record claims one of the same copies (each source entity belongs to one block) -/
private theorem block_record_restore_transfer_g (discards : Bool) (d : Docs) (σ : Sigma) (pre post : List (Nat × Reg)) (placed : List Nat)
    (d' : Docs) (σ' : Sigma) (s b e : Nat) (sn : Node)
    (hwf : WF d σ) (h : transfer true discards d σ (pre ++ (s, .addNew) :: post) placed = .ok (d', σ'))
    (hs : d.src.find s = some sn) (hk : sn.kind = .blockRecord) (hb : sn.block = some b) (he : sn.endblk = some e)
    (hreg : s ∈ σ.map (·.1)) (hbn : σ.get b ≠ 0) (hen : σ.get e ≠ 0)
    (hne : ∀ x ∈ pre ++ post, σ.get x.1 ≠ σ.get s)
    (hdis : ∀ x ∈ pre ++ post, ∀ sn' b' e', d.src.find x.1 = some sn' → sn'.block = some b' → sn'.endblk = some e' →
      ∀ y ∈ ownedCopies σ sn' b' e', y ∉ ownedCopies σ sn b e) :
    Restored d'.tgt σ s sn b e := by
  obtain ⟨d2, dead, repl, hp, _, hd⟩ := transfer_ok true discards d σ _ placed d' σ' h
  rw [registerPhase_append] at hp
  split at hp
  · cases hp
  · rename_i d1 dead1 repl1 hpre
    obtain ⟨p1, p2, _⟩ := registerPhase_inv true discards σ pre _ _ _ _ _ _ hpre
    simp only [registerPhase] at hp
    split at hp
    · cases hp
    · rename_i d1' dead1' repl1' hone
      have hsrc1 : d1.src = d.src := p1
      -- the copy of `s` is in the target after the copy phase and after `pre`
      obtain ⟨es, hes, hes1⟩ := get_of_key σ s hreg
      have hmem : σ.get s ∈ d1.tgt.handles := by
        rw [p2, copyPhase_handles d σ hwf.keys_in_src]
        apply List.mem_append_right
        simp only [Sigma.range, List.mem_map]
        exact ⟨es, hes, hes1.2.symm⟩
      obtain ⟨cn, hcn⟩ := find_of_mem_handles d1.tgt (σ.get s) hmem
      obtain ⟨dr, hdr, hdsrc, hrest⟩ := block_record_restore true discards d1 σ dead1 repl1 s b e sn cn
        (hsrc1 ▸ hs) hcn hk hb he hbn hen
      rw [hdr] at hone
      simp only [Except.ok.injEq, Prod.mk.injEq] at hone
      obtain ⟨e1, e2, e3⟩ := hone
      subst e1 e2 e3
      have hR1 : Restored dr.tgt σ s sn b e := by
        intro n hn
        obtain ⟨q1, q2⟩ := hrest n hn
        refine ⟨q1, fun hn1 hin => q2 hn1 ?_⟩
        simp only [ownedCopies, List.mem_cons] at hin
        exact hin
      have hR2 := registerPhase_keeps_restored true discards σ d.src s sn b e post dr dead1 repl1 d2 dead repl hp
        (hdsrc.trans hsrc1) hR1 (fun x hx => hne x (List.mem_append_right _ hx))
        (fun x hx => hdis x (List.mem_append_right _ hx))
      subst hd
      intro n hn
      simp only [purge, mapPhase, List.mem_filter, List.mem_map] at hn
      obtain ⟨⟨m, hm, hmn⟩, _⟩ := hn
      have hm2 := hR2 m hm
      have hsame : n.handle = m.handle ∧ n.block = m.block ∧ n.endblk = m.endblk ∧ n.content = m.content ∧ n.owner = m.owner := by
        rw [← hmn]
        split
        · split
          · exact ⟨rfl, rfl, rfl, rfl, rfl⟩
          · split <;> exact ⟨rfl, rfl, rfl, rfl, rfl⟩
        · exact ⟨rfl, rfl, rfl, rfl, rfl⟩
      obtain ⟨k1, k2, k3, k4, k5⟩ := hsame
      rw [k1, k2, k3, k4, k5]
      exact hm2

/-! ### the reproduced defects as theorems about the model of the code as found -/

/-- F14 input: source block record 10 (BLOCK 11, LINE 12, ENDBLK 13) + INSERT 14 in the modelspace (block record 1),
    target with its own block record 5 of the same name; KEEP ⇒ keepExisting 5 -/
private def f14 : Docs :=
  { src := [⟨10, .blockRecord, 0, [], some 11, some 13, [12]⟩, ⟨11, .block, 10, [], none, none, []⟩,
            ⟨12, .graphic, 10, [], none, none, []⟩, ⟨13, .endblk, 10, [], none, none, []⟩,
            ⟨14, .graphic, 1, [10], none, none, []⟩],
    tgt := [⟨1, .blockRecord, 0, [], some 2, some 3, []⟩, ⟨5, .blockRecord, 0, [], some 6, some 7, []⟩] }
private def f14σ : Sigma := [(10, 20), (11, 21), (12, 22), (13, 23), (14, 24)]

/-- the probes run on the real code at generation time select the FIXED behaviour everywhere: `BlockRecord.destroy`
    guards block = None, the content of a kept block is discarded, special layers are added unchanged; and in code the
    model does not describe: Layer.map_resources writes the clone, the name maps are case-insensitive, XRECORD pointers
    are mapped, LEADER dimstyles are mapped, a DIMENSION leaves no orphan block, the Importer patches the duplicate.
    Reverting any of these fixes flips a generated constant and re-opens this proof (and those below that use it). -/
theorem current_code_has_fixes :
    XrefTables.destroyGuardsNone = true ∧ XrefTables.discardsContentOfKeptBlock = true ∧
    XrefTables.specialLayerAddedUnchanged = true ∧ XrefTables.layerMapWritesClone = true ∧
    XrefTables.nameMapsCaseInsensitive = true ∧ XrefTables.xrecordPointersMapped = true ∧
    XrefTables.leaderDimstyleMapped = true ∧ XrefTables.dimensionLeavesNoOrphanBlock = true ∧
    XrefTables.importerDuplicatesNewEntry = true := by decide

private theorem current_eq (d : Docs) (σ : Sigma) (regs : List (Nat × Reg)) (placed : List Nat) :
    transferCurrent d σ regs placed = transfer true true d σ regs placed := by
  unfold transferCurrent
  rw [current_code_has_fixes.1, current_code_has_fixes.2.1]

/-- closure, for the code under test: every pointer field of every transferred node is null or the handle of a node
    that IS in the target — the existing entry a KEEP decision redirected to, or a live copy; pointers to discarded
    copies and to unregistered source entities are null.  A KEEP decision on a clashing block name is an ordinary case. -/
theorem transfer_closed (d : Docs) (σ : Sigma) (regs : List (Nat × Reg)) (placed : List Nat) (d' : Docs) (σ' : Sigma)
    (hwf : WF d σ) (hregs : RegsOk d regs) (h : transferCurrent d σ regs placed = .ok (d', σ')) :
    ∀ n ∈ d'.tgt, n.handle ∈ σ.range → ∀ p ∈ n.ptrs, p = 0 ∨ p ∈ d'.tgt.handles :=
  transfer_closed_g true d σ regs placed d' σ' hwf hregs (current_eq d σ regs placed ▸ h)

/-- no handle of the source document leaks (disjoint handle spaces) -/
theorem transfer_no_leak (d : Docs) (σ : Sigma) (regs : List (Nat × Reg)) (placed : List Nat) (d' : Docs) (σ' : Sigma)
    (hwf : WF d σ) (hregs : RegsOk d regs) (h : transferCurrent d σ regs placed = .ok (d', σ'))
    (hdis : ∀ x ∈ d.src.handles, x ≠ 0 ∧ x ∉ d.tgt.handles ∧ x ∉ σ.range) :
    ∀ n ∈ d'.tgt, n.handle ∈ σ.range → ∀ p ∈ n.ptrs, p ∉ d.src.handles :=
  transfer_no_leak_g true d σ regs placed d' σ' hwf hregs (current_eq d σ regs placed ▸ h) hdis

/-- the target's own nodes are left exactly as they were -/
theorem transfer_keeps_target (d : Docs) (σ : Sigma) (regs : List (Nat × Reg)) (placed : List Nat) (d' : Docs) (σ' : Sigma)
    (hwf : WF d σ) (h : transferCurrent d σ regs placed = .ok (d', σ')) : ∀ o ∈ d.tgt, o ∈ d'.tgt :=
  transfer_keeps_target_g true d σ regs placed d' σ' hwf (current_eq d σ regs placed ▸ h)

/-- faithfulness: closed registry and no KEEP redirection ⇒ each pointer field of a transferred node is the σ-image
    of the source pointer; a non-null source pointer stays non-null and points to the copy (same kind) of its referent -/
theorem transfer_faithful (d : Docs) (σ : Sigma) (regs : List (Nat × Reg)) (placed : List Nat) (d' : Docs) (σ' : Sigma)
    (hwf : WF d σ) (hcl : RegistryClosed d σ) (hall : ∀ x ∈ regs, x.2 = Reg.addNew)
    (h : transferCurrent d σ regs placed = .ok (d', σ')) :
    σ' = σ ∧ ∀ n ∈ d'.tgt, n.handle ∈ σ.range →
      ∃ e sn, e ∈ σ ∧ e.2 = n.handle ∧ d.src.find e.1 = some sn ∧ n.ptrs = sn.ptrs.map σ.get ∧
        ∀ q ∈ sn.ptrs, q ≠ 0 → σ.get q ≠ 0 ∧
          ∃ sq m, d.src.find q = some sq ∧ m ∈ d'.tgt ∧ m.handle = σ.get q ∧ m.kind = sq.kind :=
  transfer_faithful_g true d σ regs placed d' σ' hwf hcl hall (current_eq d σ regs placed ▸ h)

/-- the transfer of the code under test never fails on a KEEP decision: the only error left in the model is the
    InternalError of `restore_block_content` for a block record whose BLOCK / ENDBLK was not copied -/
theorem keep_never_crashes (d : Docs) (σ : Sigma) (dead : List Nat) (repl : Sigma) (s e : Nat) :
    ∃ r, registerOne XrefTables.destroyGuardsNone XrefTables.discardsContentOfKeptBlock d σ dead repl s (.keepExisting e) = .ok r := by
  rw [current_code_has_fixes.1, current_code_has_fixes.2.1]
  unfold registerOne
  split
  · simp [destroyCopy]
  · exact ⟨_, rfl⟩

/-- the F14 input (block name clash under the default policy KEEP) on the code under test: the transfer succeeds, the
    copied INSERT refers to the target's own block record 5, the copied content is gone, pointers to it are null, the
    source is untouched -/
theorem keep_block_clash_ok :
    (transferCurrent f14 f14σ [(10, .keepExisting 5)]).toOption.map
        (fun r => (r.1.tgt.handles, (r.1.tgt.find 24).map (·.ptrs), r.2.get 12, r.1.src == f14.src))
      = some ([1, 5, 24], some [5], 0, true) := by
  rw [current_eq]; decide

/-- regression fact about the explicitly UNFIXED configuration (guards = false): the same input raised AttributeError -/
theorem regression_f14_unguarded :
    transfer false false f14 f14σ [(10, .keepExisting 5)] = .error .attributeError := rfl

/-- content of a kept block that a loading command placed into a layout survives (here the LINE copy 22), its
    mapping is removed all the same -/
example : (transfer true true f14 f14σ [(10, .keepExisting 5)] [22]).toOption.map
    (fun r => (r.1.tgt.handles, r.2.get 12)) = some ([1, 5, 22, 24], 0) := by decide

/-- regression fact: what the defect of `Layer.map_resources` before bb0a51d54 looked like in the model (the mapped value
    assigned to `self`) — a write to the SOURCE; `transfer_source_unchanged` shows the transfer contains no such write,
    and the probe `layerMapWritesClone` (in `current_code_has_fixes`) ties that to the real method -/
theorem regression_layer_self_write_changes_source :
    ∃ d σ s, (mapPhaseUnfixedLayer d σ s).src ≠ d.src :=
  ⟨⟨[⟨1, .tableEntry, 0, [7], none, none, []⟩], []⟩, [(7, 9)], 1, by decide⟩

example : WF f14 f14σ := ⟨by decide, by decide, by decide, by decide, by decide, by decide⟩
example : RegsOk f14 [(10, .keepExisting 5)] := by
  intro x hx e he
  simp only [List.mem_singleton] at hx
  subst hx
  cases he
  decide


/-- the hypotheses of `transfer_closed` are satisfiable: the F14 input with the guard -/
example : ∀ n ∈ ((transfer true true f14 f14σ [(10, .keepExisting 5)]).toOption.map (·.1.tgt)).getD [],
    n.handle ∈ f14σ.range → ∀ p ∈ n.ptrs, p = 0 ∨ p ∈ [1, 5, 24] := by decide


/-! ## §4b the conflict policies refine one abstract specification, for every kind of name container (session 3) -/

/-- `add_table_entry` (STYLE, DIMSTYLE, UCS, non-anonymous BLOCK_RECORD; LAYER / LTYPE behind their front ends) refines the spec -/
theorem table_policy_refines_spec (pol : Policy) (xref : Str) (t : Table) (name : Str) :
    PolicySpec pol xref t.keys name (addTableEntry pol xref t name) := by
  cases pol with
  | keep =>
    refine ⟨fun h => ?_, fun h => ?_⟩
    · obtain ⟨x, hx, _⟩ := (policy_keep xref t name).1 ((has_iff t name).2 h)
      exact ⟨x, hx⟩
    · exact (policy_keep xref t name).2 ((has_false_iff t name).2 h)
  | xrefPrefix =>
    obtain ⟨i, _, he, hf, hl⟩ := policy_xref_prefix xref t name
    exact ⟨i, he, (has_false_iff t _).1 hf, fun j hj => (has_iff t _).1 (hl j hj)⟩
  | numPrefix =>
    refine ⟨fun h => (policy_num_prefix xref t name).1 ((has_false_iff t name).2 h), fun h => ?_⟩
    obtain ⟨i, _, he, hf, hl⟩ := (policy_num_prefix xref t name).2 ((has_iff t name).2 h)
    exact ⟨i, he, (has_false_iff t _).1 hf, fun j hj => (has_iff t _).1 (hl j hj)⟩

/-- LAYER front end: a layer that is not special and whose new name passes the layer-name validator follows the spec -/
theorem layer_policy_refines_spec (pol : Policy) (xref : Str) (t : Table) (name : Str)
    (hns : (XrefTables.specialLayers.contains (upper name) || isAdskSpecial (upper name)) = false)
    (hok : addLayerEntry pol xref t name ≠ .error) :
    PolicySpec pol xref t.keys name (addLayerEntry pol xref t name) := by
  have hspec := table_policy_refines_spec pol xref t name
  have hl : addLayerEntry pol xref t name = checkedLayer name (addTableEntry pol xref t name) := by
    unfold addLayerEntry addLayerEntryWith
    simp only [hns, Bool.false_eq_true, ↓reduceIte]
  rw [hl] at hok ⊢
  cases hd : addTableEntry pol xref t name with
  | useExisting h => rw [hd] at hspec; exact hspec
  | error => rw [hd] at hspec; exact hspec
  | add n =>
    rw [hd] at hok hspec
    simp only [checkedLayer] at hok ⊢
    by_cases hc : (decide (n = name) || validLayerName n) = true
    · rw [if_pos hc]; exact hspec
    · rw [if_neg hc] at hok; exact absurd rfl hok

/-- LTYPE front end: a linetype that is not one of the default linetypes follows the spec -/
theorem linetype_policy_refines_spec (pol : Policy) (xref : Str) (t : Table) (name : Str)
    (hnd : XrefTables.defaultLinetypes.contains (upper name) = false) :
    PolicySpec pol xref t.keys name (addLinetypeEntry pol xref t name) := by
  unfold addLinetypeEntry
  simp only [hnd, Bool.false_eq_true, ↓reduceIte]
  exact table_policy_refines_spec pol xref t name

/-- BLOCK_RECORD front end: a block whose name is not anonymous (`*X…`) follows the spec -/
theorem block_policy_refines_spec (pol : Policy) (xref : Str) (t : Table) (anon : Nat → Str) (name : Str)
    (hna : ∀ c r, upper name ≠ 42 :: c :: r) :
    PolicySpec pol xref t.keys name (addBlockRecordEntry pol xref t anon name) := by
  unfold addBlockRecordEntry
  -- the equation of the default branch of the `match` has the side condition "not of the form 42 :: c :: r": discharged by `hna`
  simp only
  exact table_policy_refines_spec pol xref t name

private theorem coll_get_some_of_mem (c : Coll) (n : Str) (h : lower n ∈ c.lkeys) : ∃ x, c.get? n = some x := by
  simp only [Coll.lkeys, List.mem_map] at h
  obtain ⟨e, he, hel⟩ := h
  cases hg : c.get? n with
  | some x => exact ⟨x, rfl⟩
  | none =>
    simp only [Coll.get?, Option.map_eq_none_iff, List.find?_eq_none] at hg
    exact absurd (by simpa using hel) (hg e he)

/-- MATERIAL / MLINESTYLE / MLEADERSTYLE collections: an entry that is not a system entry follows the same spec over the
    case-folded keys of the collection -/
theorem collection_policy_refines_spec (pol : Policy) (xref : Str) (c : Coll) (system : List Str) (name : Str)
    (hns : system.contains (upper name) = false) :
    PolicySpec pol xref c.lkeys name (addCollectionEntry pol xref c system name) := by
  unfold addCollectionEntry
  simp only [hns, Bool.false_eq_true, ↓reduceIte]
  cases pol with
  | keep =>
    refine ⟨fun h => ?_, fun h => ?_⟩
    · obtain ⟨x, hx⟩ := coll_get_some_of_mem c name h
      exact ⟨x, by simp [hx]⟩
    · simp [coll_get_none_of_not_mem c name h]
  | xrefPrefix =>
    obtain ⟨hf, i, _, he, hl⟩ := unique_name_fresh name xref c.lkeys
    exact ⟨i, by simp [he], he ▸ hf, hl⟩
  | numPrefix =>
    refine ⟨fun h => by simp [coll_get_none_of_not_mem c name h], fun h => ?_⟩
    obtain ⟨x, hx⟩ := coll_get_some_of_mem c name h
    obtain ⟨hf, i, _, he, hl⟩ := unique_name_fresh name [] c.lkeys
    exact ⟨i, by simp [hx, he], he ▸ hf, hl⟩

/-- the loop of `register_table_resources` over ANY number of copied entries refines a run of the specification: each decision
    meets the spec against the keys as left by the decisions before it -/
theorem register_all_refines_spec (spec : List Str → Str → Decision → Prop) (dec : Table → Str → Decision)
    (hdec : ∀ t name, spec t.keys name (dec t name)) (t : Table) (es : List (Str × Nat)) :
    SpecRun spec t.keys es (registerAll dec t es).1 := by
  induction es generalizing t with
  | nil => simp [registerAll, SpecRun]
  | cons e rest ih =>
    obtain ⟨name, h⟩ := e
    unfold registerAll
    have hd := hdec t name
    cases hdd : dec t name with
    | add n =>
      simp only
      rw [hdd] at hd
      refine ⟨hd, ?_⟩
      have := ih (t ++ [(lower n, h)])
      simpa [Table.keys] using this
    | useExisting x =>
      simp only
      rw [hdd] at hd
      exact ⟨hd, ih t⟩
    | error =>
      simp only
      rw [hdd] at hd
      exact ⟨hd, ih t⟩

/-- every name the transfer hands out exists afterwards: the key of each added (possibly renamed) entry is in the final container,
    so the name map never points to a missing entry -/
theorem registered_names_resolve (dec : Table → Str → Decision)
    (hdec : ∀ t name n, dec t name = .add n → t.has n = false) (t : Table) (es : List (Str × Nat)) (hnd : t.keys.Nodup) :
    ∀ n, Decision.add n ∈ (registerAll dec t es).1 → lower n ∈ (registerAll dec t es).2.keys := by
  induction es generalizing t with
  | nil => intro n hn; simp [registerAll] at hn
  | cons e rest ih =>
    obtain ⟨name, h⟩ := e
    intro n hn
    unfold registerAll at hn ⊢
    cases hd : dec t name with
    | add m =>
      simp only [hd] at hn ⊢
      have hfree := hdec t name m hd
      rw [has_false_iff] at hfree
      have hnd' : (t ++ [(lower m, h)]).keys.Nodup := by
        simp only [Table.keys, List.map_append, List.map_cons, List.map_nil]
        rw [List.nodup_append]
        refine ⟨hnd, by simp, ?_⟩
        intro a ha b hb
        simp only [List.mem_singleton] at hb
        subst hb
        intro e; subst e
        exact hfree ha
      rcases List.mem_cons.mp hn with c | c
      · cases c
        obtain ⟨_, hpre, _⟩ := register_all_unique dec hdec (t ++ [(lower n, h)]) rest hnd'
        obtain ⟨suffix, hsuf⟩ := hpre
        rw [← hsuf]
        simp [Table.keys]
      · exact ih (t ++ [(lower m, h)]) hnd' n c
    | useExisting x =>
      simp only [hd] at hn ⊢
      rcases List.mem_cons.mp hn with c | c
      · cases c
      · exact ih t hnd n c
    | error =>
      simp only [hd] at hn ⊢
      rcases List.mem_cons.mp hn with c | c
      · cases c
      · exact ih t hnd n c

-- the hypotheses of the front-end theorems are satisfiable: "L1" is not a special layer, "DASHX" no default linetype, "B" no anonymous
-- block, "M1" no system material; the policy on each is a decision other than `error`
#guard (XrefTables.specialLayers.contains (upper [76, 49]) || isAdskSpecial (upper [76, 49])) = false
#guard addLayerEntry .xrefPrefix [120] [([108, 49], 7)] [76, 49] != .error
#guard XrefTables.defaultLinetypes.contains (upper [68, 65, 83, 72, 88]) = false
#guard XrefTables.materialSystemEntries.contains (upper [77, 49]) = false
example : ∀ c r, upper [66] ≠ 42 :: c :: r := by intro c r h; cases h
example : ∀ t name n, addTableEntry .numPrefix [] t name = .add n → t.has n = false := add_never_clashes .numPrefix []
-- the spec is not vacuous: the decisions of the three policies on a clashing name, case-insensitively ("L1" vs key "l1")
example : PolicySpec .keep [120] [[108, 49]] [76, 49] (.useExisting 7) := ⟨fun _ => ⟨7, rfl⟩, fun h => absurd (by decide) h⟩
example : PolicySpec .numPrefix [] [[108, 49]] [76, 49] (addTableEntry .numPrefix [] [([108, 49], 7)] [76, 49]) :=
  table_policy_refines_spec .numPrefix [] [([108, 49], 7)] [76, 49]
#guard (registerAll (addTableEntry .numPrefix []) [([97], 1)] [([65], 10), ([36, 48, 36, 65], 11)]).1
  == [.add [36, 48, 36, 65], .add [36, 48, 36, 36, 48, 36, 65]]   -- "A" -> "$0$A", the source's own "$0$A" -> "$0$$0$A"

/-! ## §4c the executable spec checker applied to the decisions of the REAL code; generated dictionary keys (follow-up) -/

private theorem leastFree_spec (xref name : Str) (keys : List Str) (n : Str) (h : leastFree xref name keys n = true) :
    ∃ i, n = cand xref name i ∧ lower (cand xref name i) ∉ keys ∧ ∀ j, j < i → lower (cand xref name j) ∈ keys := by
  simp only [leastFree, List.any_eq_true, List.mem_range, Bool.and_eq_true, beq_iff_eq, Bool.not_eq_true',
    List.all_eq_true] at h
  obtain ⟨i, _, ⟨hn, hfree⟩, hall⟩ := h
  refine ⟨i, hn, ?_, fun j hj => ?_⟩
  · intro hm
    have : keys.contains (lower (cand xref name i)) = true := List.contains_iff_mem.mpr hm
    rw [this] at hfree; cases hfree
  · exact List.contains_iff_mem.mp (hall j hj)

/-- the executable checker is sound: a decision it accepts meets the abstract `PolicySpec`.  The driver applies it to the
    decisions the REAL `add_table_entry` / `add_collection_entry` took (correspondence stream X6), so the real code is compared
    with the specification directly, not only with the hand model -/
theorem decide_spec_sound (pol : Policy) (xref : Str) (keys : List Str) (name : Str) (d : Decision)
    (h : decideSpec pol xref keys name d = true) : PolicySpec pol xref keys name d := by
  cases pol with
  | keep =>
    simp only [decideSpec] at h
    refine ⟨fun hm => ?_, fun hm => ?_⟩
    · rw [if_pos (List.contains_iff_mem.mpr hm)] at h
      cases d with
      | useExisting x => exact ⟨x, rfl⟩
      | add n => cases h
      | error => cases h
    · have : keys.contains (lower name) = false := by
        cases hc : keys.contains (lower name) with
        | false => rfl
        | true => exact absurd (List.contains_iff_mem.mp hc) hm
      rw [this] at h
      simpa using h
  | xrefPrefix =>
    simp only [decideSpec] at h
    cases d with
    | add n =>
      obtain ⟨i, hn, hf, hl⟩ := leastFree_spec xref name keys n h
      exact ⟨i, by rw [hn], hf, hl⟩
    | useExisting x => cases h
    | error => cases h
  | numPrefix =>
    simp only [decideSpec] at h
    refine ⟨fun hm => ?_, fun hm => ?_⟩
    · have : keys.contains (lower name) = false := by
        cases hc : keys.contains (lower name) with
        | false => rfl
        | true => exact absurd (List.contains_iff_mem.mp hc) hm
      rw [this] at h
      simpa using h
    · rw [if_pos (List.contains_iff_mem.mpr hm)] at h
      cases d with
      | add n =>
        obtain ⟨i, hn, hf, hl⟩ := leastFree_spec [] name keys n h
        exact ⟨i, by rw [hn], hf, hl⟩
      | useExisting x => cases h
      | error => cases h

/-- … and over a whole run: the accepted sequence of real decisions is a run of the specification -/
theorem spec_run_sound (pol : Policy) (xref : Str) :
    ∀ (keys : List Str) (es : List (Str × Nat)) (ds : List Decision),
      specRunB pol xref keys es ds = true → SpecRun (PolicySpec pol xref) keys es ds := by
  intro keys es
  induction es generalizing keys with
  | nil =>
    intro ds h
    cases ds with
    | nil => trivial
    | cons d r => simp [specRunB] at h
  | cons e rest ih =>
    intro ds h
    obtain ⟨name, hh⟩ := e
    cases ds with
    | nil => simp [specRunB] at h
    | cons d r =>
      simp only [specRunB, Bool.and_eq_true] at h
      exact ⟨decide_spec_sound pol xref keys name d h.1, ih _ r h.2⟩

-- the checker accepts what the model decides (so it is not trivially false) and rejects the decisions of seeded change C17-m5:
-- KEEP that adds "Steel" beside the existing "steel", NUM_PREFIX that does not rename it
#guard decideSpec .keep [] [[115, 116, 101, 101, 108]] [83, 116, 101, 101, 108] (.useExisting 7)
#guard decideSpec .keep [] [[115, 116, 101, 101, 108]] [83, 116, 101, 101, 108] (.add [83, 116, 101, 101, 108]) == false
#guard decideSpec .numPrefix [] [[115, 116, 101, 101, 108]] [83, 116, 101, 101, 108] (.add [83, 116, 101, 101, 108]) == false
#guard decideSpec .numPrefix [] [[115, 116, 101, 101, 108]] [83, 116, 101, 101, 108] (.add [36, 48, 36, 83, 116, 101, 101, 108])
#guard specRunB .numPrefix [] [[97]] [([65], 10), ([36, 48, 36, 65], 11)] (registerAll (addTableEntry .numPrefix []) [([97], 1)] [([65], 10), ([36, 48, 36, 65], 11)]).1

/-- `next_underlay_key(lambda k: k not in D)`: for any injective key format and ANY position of the per-document counter (a document
    loaded from a file starts it again although its dictionaries are filled) the key is not in the dictionary, it is the first
    such key from the counter on, and the loop ends after at most |D| + 1 draws (pigeonhole, no fuel) -/
theorem next_key_fresh (fmt : Nat → Str) (hf : ∀ i j, fmt i = fmt j → i = j) (keys : List Str) (c : Nat) :
    nextKey true fmt hf keys c ∉ keys ∧
    ∃ i, nextKey true fmt hf keys c = fmt i ∧ c ≤ i ∧ i ≤ c + keys.length ∧ ∀ j, c ≤ j → j < i → fmt j ∈ keys := by
  unfold nextKey nextKeyIndex
  obtain ⟨a, b, c', d⟩ := searchFrom_spec (fun i => !true || !keys.contains (fmt i)) (c + keys.length) c
    (exists_free_from fmt hf keys c true)
  refine ⟨?_, _, rfl, b, c', fun j h1 h2 => ?_⟩
  · simpa using a
  · have := d j h1 h2
    simpa using this

/-- regression fact about the UNCHECKED call `next_underlay_key()` (seeded change C17-m6): the key is whatever the counter says, so
    a restarted counter returns a key the dictionary already holds -/
theorem next_key_unchecked_returns_counter (fmt : Nat → Str) (hf : ∀ i j, fmt i = fmt j → i = j) (keys : List Str) (c : Nat) :
    nextKey false fmt hf keys c = fmt c := by
  unfold nextKey nextKeyIndex
  obtain ⟨_, b, _, d⟩ := searchFrom_spec (fun i => !false || !keys.contains (fmt i)) (c + keys.length) c
    (exists_free_from fmt hf keys c false)
  congr 1
  rcases Nat.eq_or_lt_of_le b with e | e
  · exact e.symm
  · have := d c (Nat.le_refl _) e
    simp at this

/-- the code under test tests the generated key against the dictionary it stores the copied underlay definition in (flag extracted
    from the AST of `Underlay.map_underlay_def`), so `next_key_fresh` is about the code as it is: the copied definition never
    replaces an entry of the target's ACAD_PDFDEFINITIONS / ACAD_DWFDEFINITIONS / ACAD_DGNDEFINITIONS -/
theorem underlay_key_of_code_fresh (fmt : Nat → Str) (hf : ∀ i j, fmt i = fmt j → i = j) (keys : List Str) (c : Nat) :
    nextKey XrefOverrides.underlayKeyChecked fmt hf keys c ∉ keys := by
  have h : XrefOverrides.underlayKeyChecked = true := by decide
  rw [h]
  exact (next_key_fresh fmt hf keys c).1

private theorem importPass_not_added (adds : List (Nat × Nat)) (t : Nat) :
    ∀ (rest pending : List Nat), (∀ e ∈ adds, e.2 = t → e.1 ∉ rest) → t ∉ pending → t ∉ importPass adds pending rest := by
  intro rest
  induction rest with
  | nil => intro pending _ h; exact h
  | cons u r ih =>
    intro pending hedge h
    simp only [importPass]
    apply ih
    · intro e he h2 hm; exact hedge e he h2 (List.mem_cons_of_mem _ hm)
    · unfold importStep
      split
      · intro hm
        rcases List.mem_append.mp hm with c | c
        · exact h (List.mem_filter.mp c).1
        · simp only [List.mem_map, List.mem_filter, decide_eq_true_eq] at c
          obtain ⟨e, ⟨he, he1⟩, he2⟩ := c
          exact hedge e he he2 (he1 ▸ List.mem_cons_self ..)
      · exact h

/-- ONE pass in an order that respects the requirement edges serves every requirement: whatever is pending at the start and
    whichever edges fire, no table of the order has unserved requirements afterwards.  (An order that imports `styles` before
    `linetypes` although linetypes add required styles does not respect the edges: seeded change C17-m4.) -/
theorem import_pass_complete (adds : List (Nat × Nat)) :
    ∀ (order pending : List Nat), orderRespects order adds = true → ∀ t ∈ order, t ∉ importPass adds pending order := by
  intro order
  induction order with
  | nil => intro _ _ t ht; simp at ht
  | cons u rest ih =>
    intro pending hr t ht
    simp only [orderRespects, Bool.and_eq_true, List.all_eq_true, Bool.or_eq_true, bne_iff_ne, ne_eq, Bool.not_eq_true'] at hr
    obtain ⟨hu, hrest⟩ := hr
    simp only [importPass]
    rcases List.mem_cons.mp ht with c | c
    · subst c
      apply importPass_not_added adds t rest
      · intro e he h2 hm
        rcases hu e he with d | d
        · exact d h2
        · have : (t :: rest).contains e.1 = true := List.contains_iff_mem.mpr (List.mem_cons_of_mem _ hm)
          rw [this] at d; cases d
      · unfold importStep
        split
        · intro hm
          rcases List.mem_append.mp hm with d | d
          · have d2 := (List.mem_filter.mp d).2
            simp at d2
          · simp only [List.mem_map, List.mem_filter, decide_eq_true_eq] at d
            obtain ⟨e, ⟨he, he1⟩, he2⟩ := d
            rcases hu e he with f | f
            · exact f he2
            · have : (t :: rest).contains e.1 = true := List.contains_iff_mem.mpr (he1 ▸ List.mem_cons_self ..)
              rw [this] at f; cases f
        · rename_i hc
          intro hm
          exact hc (List.contains_iff_mem.mpr hm)
    · exact ih (importStep adds pending u) hrest t c

/-- the Importer add-on of the code under test: the order of `_import_required_table_entries` and the requirement edges of
    `import_table`, both extracted from the AST, respect each other — dimstyles before layers / linetypes / styles, layers before
    linetypes, linetypes before styles and shape files — so by `import_pass_complete` the single pass of `finalize()` leaves no
    required table entry behind -/
theorem importer_order_closed :
    orderRespects XrefOverrides.importerOrder XrefOverrides.importerAdds = true ∧
    ∀ pending, ∀ t ∈ XrefOverrides.importerOrder, t ∉ importPass XrefOverrides.importerAdds pending XrefOverrides.importerOrder := by
  have h : orderRespects XrefOverrides.importerOrder XrefOverrides.importerAdds = true := by decide
  exact ⟨h, fun pending => import_pass_complete _ _ pending h⟩

-- the seeded order (styles before linetypes) is rejected, and a pass in that order leaves the style requirement unserved
#guard orderRespects [0, 1, 3, 2, 4] [(1, 2), (0, 3), (0, 2), (0, 5), (2, 4), (2, 3)] == false
#guard importPass [(1, 2), (0, 3), (0, 2), (0, 5), (2, 4), (2, 3)] [1] [0, 1, 3, 2, 4] == [3]
#guard importPass [(1, 2), (0, 3), (0, 2), (0, 5), (2, 4), (2, 3)] [1] [0, 1, 2, 3, 4] == []

-- non-vacuity: an injective format exists (the decimal digits), and a restarted counter meets a taken key
example : ∀ i j, natDigits i = natDigits j → i = j := natDigits_inj
#guard nextKey true natDigits natDigits_inj [[49], [50]] 1 = [51]
#guard nextKey false natDigits natDigits_inj [[49], [50]] 1 = [49]

/-! ## §5b the restored block record through the whole transfer (session 3) -/

/-- `block_record_restore` carried through the WHOLE transfer of the code under test (induction over the registration list, then the
    map phase and the purge): when the copied block record `s` is added (it occurs once in the registration list, with `addNew`),
    then in the document the transfer returns its copy refers to the copies of BLOCK, ENDBLK and of every copied content entity,
    in source order, and every surviving one of those copies is owned by it — whatever is registered before (`pre`) and after
    (`post`), under every decision taken for the other entries, provided no other registered entry shares its copy (`hne`) or
    claims one of the same content copies (`hdis`: each source entity belongs to one block) -/
theorem block_record_restore_transfer (d : Docs) (σ : Sigma) (pre post : List (Nat × Reg)) (placed : List Nat)
    (d' : Docs) (σ' : Sigma) (s b e : Nat) (sn : Node)
    (hwf : WF d σ) (h : transferCurrent d σ (pre ++ (s, .addNew) :: post) placed = .ok (d', σ'))
    (hs : d.src.find s = some sn) (hk : sn.kind = .blockRecord) (hb : sn.block = some b) (he : sn.endblk = some e)
    (hreg : s ∈ σ.map (·.1)) (hbn : σ.get b ≠ 0) (hen : σ.get e ≠ 0)
    (hne : ∀ x ∈ pre ++ post, σ.get x.1 ≠ σ.get s)
    (hdis : ∀ x ∈ pre ++ post, ∀ sn' b' e', d.src.find x.1 = some sn' → sn'.block = some b' → sn'.endblk = some e' →
      ∀ y ∈ ownedCopies σ sn' b' e', y ∉ ownedCopies σ sn b e) :
    Restored d'.tgt σ s sn b e :=
  block_record_restore_transfer_g true d σ pre post placed d' σ' s b e sn hwf (current_eq d σ _ placed ▸ h) hs hk hb he hreg hbn hen
    hne hdis

private theorem sigma_get_inj (σ : Sigma) (hnd : (σ.map (·.2)).Nodup) (q q' : Nat) (h : σ.get q = σ.get q') (h0 : σ.get q ≠ 0) :
    q = q' := by
  rcases get_cases σ q with c | c
  · exact absurd c h0
  · rcases get_cases σ q' with c' | c'
    · exact absurd (h.trans c') h0
    · have hinj : ∀ (l : Sigma), (l.map (·.2)).Nodup → ∀ x ∈ l, ∀ y ∈ l, x.2 = y.2 → x = y := by
        intro l
        induction l with
        | nil => intro _ x hx; simp at hx
        | cons a r ih =>
          intro hn x hx y hy hxy
          simp only [List.map_cons, List.nodup_cons, List.mem_map, not_exists, not_and] at hn
          rcases List.mem_cons.mp hx with rfl | hx' <;> rcases List.mem_cons.mp hy with rfl | hy'
          · rfl
          · exact absurd hxy.symm (hn.1 y hy')
          · exact absurd hxy (hn.1 x hx')
          · exact ih hn.2 x hx' y hy' hxy
      have := hinj σ hnd _ c _ c' (by simpa using h)
      exact congrArg Prod.fst this

private theorem mem_owned_parts (σ : Sigma) (sn : Node) (b e : Nat) (hb : sn.block = some b) (he : sn.endblk = some e) (y : Nat)
    (hy : y ∈ ownedCopies σ sn b e) : ∃ q ∈ sn.parts, y = σ.get q := by
  simp only [ownedCopies, List.mem_cons, List.mem_filter, List.mem_map] at hy
  rcases hy with c | c | ⟨⟨q, hq, hqy⟩, _⟩
  · exact ⟨b, by simp [Node.parts, hb], c⟩
  · exact ⟨e, by simp [Node.parts, he], c⟩
  · exact ⟨q, by simp [Node.parts, hq], hqy.symm⟩

/-- the same with hypotheses about the SOURCE document only: `s` is registered once, and no other registered entry shares a BLOCK,
    ENDBLK or content entity with it (each source entity belongs to one block); the facts about the copies follow from the
    injectivity of CopyMachine's allocation (`WF`) -/
theorem block_record_restore_transfer_src (d : Docs) (σ : Sigma) (pre post : List (Nat × Reg)) (placed : List Nat)
    (d' : Docs) (σ' : Sigma) (s b e : Nat) (sn : Node)
    (hwf : WF d σ) (h : transferCurrent d σ (pre ++ (s, .addNew) :: post) placed = .ok (d', σ'))
    (hs : d.src.find s = some sn) (hk : sn.kind = .blockRecord) (hb : sn.block = some b) (he : sn.endblk = some e)
    (hreg : s ∈ σ.map (·.1)) (hbn : σ.get b ≠ 0) (hen : σ.get e ≠ 0)
    (honce : ∀ x ∈ pre ++ post, x.1 ≠ s)
    (hpart : ∀ x ∈ pre ++ post, ∀ sn', d.src.find x.1 = some sn' → ∀ q ∈ sn'.parts, q ∉ sn.parts) :
    Restored d'.tgt σ s sn b e := by
  have hs0 : σ.get s ≠ 0 := by
    obtain ⟨es, hes, _, hes2⟩ := get_of_key σ s hreg
    rw [hes2]; exact hwf.vals_nonzero es hes
  refine block_record_restore_transfer d σ pre post placed d' σ' s b e sn hwf h hs hk hb he hreg hbn hen ?_ ?_
  · intro x hx hc
    exact honce x hx (sigma_get_inj σ hwf.vals_nodup x.1 s hc (hc ▸ hs0))
  · intro x hx sn' b' e' hf hb' he' y hy hy2
    obtain ⟨q', hq', hyq'⟩ := mem_owned_parts σ sn' b' e' hb' he' y hy
    obtain ⟨q, hq, hyq⟩ := mem_owned_parts σ sn b e hb he y hy2
    have hy0 : y ≠ 0 := by
      simp only [ownedCopies, List.mem_cons, List.mem_filter, List.mem_map] at hy2
      rcases hy2 with c | c | ⟨_, c⟩
      · rw [c]; exact hbn
      · rw [c]; exact hen
      · simpa using c
    have : q' = q := sigma_get_inj σ hwf.vals_nodup q' q (hyq'.symm.trans hyq) (hyq' ▸ hy0)
    exact hpart x hx sn' hf q' hq' (this ▸ hq)

/-- two nested block definitions: block record 10 (BLOCK 11, LINE 12, ENDBLK 13), block record 20 (BLOCK 21, INSERT 22 of block 10,
    CIRCLE 23, ENDBLK 24), INSERT 14 of block 20 in the modelspace 1; the target has its own block record 5 -/
def twoBlocks : Docs :=
  { src := [⟨1, .blockRecord, 0, [], some 2, some 3, [14]⟩, ⟨10, .blockRecord, 0, [], some 11, some 13, [12]⟩,
            ⟨11, .block, 10, [], none, none, []⟩, ⟨12, .graphic, 10, [], none, none, []⟩, ⟨13, .endblk, 10, [], none, none, []⟩,
            ⟨20, .blockRecord, 0, [], some 21, some 24, [22, 23]⟩, ⟨21, .block, 20, [], none, none, []⟩,
            ⟨22, .graphic, 20, [10], none, none, []⟩, ⟨23, .graphic, 20, [], none, none, []⟩, ⟨24, .endblk, 20, [], none, none, []⟩,
            ⟨14, .graphic, 1, [20], none, none, []⟩],
    tgt := [⟨1, .blockRecord, 0, [], none, none, []⟩, ⟨5, .blockRecord, 0, [], none, none, []⟩] }
def twoBlocksσ : Sigma :=
  [(10, 110), (11, 111), (12, 112), (13, 113), (20, 120), (21, 121), (22, 122), (23, 123), (24, 124), (14, 114)]

-- the hypotheses of `block_record_restore_transfer` are satisfiable and its conclusion is what the model computes: block record 20,
-- registered AFTER block record 10 (first position) and BEFORE it (second position)
example : WF twoBlocks twoBlocksσ := ⟨by decide, by decide, by decide, by decide, by decide, by decide⟩
#guard ((transfer true true twoBlocks twoBlocksσ [(10, .addNew), (20, .addNew)]).toOption.map fun r =>
    ((r.1.tgt.find 120).map fun n => (n.block, n.endblk, n.content), (r.1.tgt.filter fun n => n.owner = 120).map (·.handle),
     (r.1.tgt.find 110).map fun n => (n.block, n.endblk, n.content), (r.1.tgt.filter fun n => n.owner = 110).map (·.handle)))
  == some (some (some 121, some 124, [122, 123]), [121, 122, 123, 124], some (some 111, some 113, [112]), [111, 112, 113])
#guard ((transfer true true twoBlocks twoBlocksσ [(20, .addNew), (10, .keepExisting 5)]).toOption.map fun r =>
    ((r.1.tgt.find 120).map fun n => (n.block, n.endblk, n.content), (r.1.tgt.filter fun n => n.owner = 120).map (·.handle),
     (r.1.tgt.find 122).map (·.ptrs), r.1.tgt.handles))
  == some (some (some 121, some 124, [122, 123]), [121, 122, 123, 124], some [5], [1, 5, 120, 121, 122, 123, 124, 114])
example : ∀ x ∈ ([(10, Reg.addNew)] : List (Nat × Reg)) ++ [], ∀ sn' b' e', twoBlocks.src.find x.1 = some sn' → sn'.block = some b' →
    sn'.endblk = some e' → ∀ y ∈ ownedCopies twoBlocksσ sn' b' e',
      y ∉ ownedCopies twoBlocksσ ⟨20, .blockRecord, 0, [], some 21, some 24, [22, 23]⟩ 21 24 := by
  intro x hx sn' b' e' hf hb he y hy
  simp only [List.append_nil, List.mem_singleton] at hx
  subst hx
  have : sn' = ⟨10, .blockRecord, 0, [], some 11, some 13, [12]⟩ := by
    have : twoBlocks.src.find 10 = some ⟨10, .blockRecord, 0, [], some 11, some 13, [12]⟩ := by decide
    rw [this] at hf; exact (Option.some.inj hf).symm
  subst this
  cases hb; cases he
  revert y
  decide

/-! ## §6 the per-entity `register_resources` / `map_resources` overrides (session 3)

`XrefOv.rows` is regenerated on every run from the AST of every override along the MRO of every entity type registered in
`ezdxf.entities.factory` and from the attributes the live classes declare (Gen/XrefOverrides.lean). -/

open EzdxfVerif.XrefOv in
/-- EVERY registered entity type is well-formed: each declared handle attribute is closed by a statement of the `map_resources`
    chain (or is a documented exception), each declared resource-name attribute is mapped through the name map of its kind, each
    mapped name is registered, no `map_resources` assigns to the source entity, no chain maps other copies a second time.
    Kernel-checked over the regenerated table (92 types); an attribute added to a class without a mapping statement, a dropped
    registration, a write to `self`, a re-introduced `map_resources_of_copy` re-open this proof. -/
theorem overrides_wf : XrefOv.rows.all Row.wf = true := by decide +kernel

/-- the data objects that are mapped by delegation (MULTILEADER context, embedded MTEXT, R12 DIMSTYLE overrides) write to no source object -/
theorem override_helpers_write_no_source : XrefOverrides.helpers.all (fun h => !h.2.2.2) = true := by decide +kernel

private theorem row_wf_of_mem (r : XrefOv.Row) (h : r ∈ XrefOv.rows) : r.wf = true :=
  List.all_eq_true.mp overrides_wf r h

open EzdxfVerif.XrefOv in
/-- FULL GENERALITY, any chain of guarded map statements: an attribute that is covered (a closing statement runs whenever the
    source attribute is set, or an if/else on an undecided test closes it in both branches) ends up null, absent, a σ-image, or
    the handle of a target object obtained through the mapping — for every handle map, every source entity, every outcome `orc`
    of the tests the walker could not decide, whatever the other statements do and in whatever order they come -/
theorem map_attrs_closed (orc : Nat → Bool) (σ : Sigma) (tobj : Nat → Nat) (evs : List MapEv) (src : Attrs) (a : Nat)
    (ha : covered evs a = true) :
    ∀ v, mapAttrs orc σ tobj evs src a = some v → v = 0 ∨ v ∈ σ.range ∨ ∃ b, v = tobj b :=
  mapAttrsFrom_closed orc σ tobj src a evs src (fun _ _ hv => Or.inr hv) (Or.inl (covered_fires orc src evs a ha))

open EzdxfVerif.XrefOv in
/-- an attribute no statement touches keeps the SOURCE handle: that is why `overrides_wf` matters (non-vacuity of the exception list) -/
theorem unhandled_attr_keeps_source_handle (orc : Nat → Bool) (σ : Sigma) (tobj : Nat → Nat) (evs : List MapEv) (src : Attrs) (a : Nat)
    (h : ∀ e ∈ evs, e.attr ≠ a) : mapAttrs orc σ tobj evs src a = src a := by
  unfold mapAttrs mapAttrsFrom
  suffices ∀ cl : Attrs, List.foldl (fun c e => applyEv orc σ tobj src e c) cl evs a = cl a from this src
  induction evs with
  | nil => intro cl; rfl
  | cons e es ih =>
    intro cl
    simp only [List.foldl_cons]
    rw [ih (fun e' he' => h e' (List.mem_cons_of_mem _ he'))]
    exact applyEv_other orc σ tobj src cl e a (fun c => h e (List.mem_cons_self ..) c.symm)

open EzdxfVerif.XrefOv in
/-- lifted to the table: for EVERY registered entity type that can be copied, every declared handle attribute that is not a
    documented exception is closed after `map_resources`, for every handle map and every source entity of that type -/
theorem registered_types_closed (r : Row) (hr : r ∈ XrefOv.rows) (hc : r.copyable = true)
    (orc : Nat → Bool) (σ : Sigma) (tobj : Nat → Nat) (src : Attrs) (a : Nat) (ha : a ∈ r.ptrAttrs) (hx : a ∉ r.ptrExceptions) :
    ∀ v, mapAttrs orc σ tobj r.maps src a = some v → v = 0 ∨ v ∈ σ.range ∨ ∃ b, v = tobj b := by
  have hwf := row_wf_of_mem r hr
  simp only [Row.wf, hc, Bool.not_true, Bool.false_or, Bool.and_eq_true] at hwf
  have hp := hwf.1.1.1.1
  simp only [Row.ptrsHandled, List.all_eq_true, Bool.or_eq_true, List.contains_iff_mem] at hp
  rcases hp a ha with h | h
  · exact map_attrs_closed orc σ tobj r.maps src a h
  · exact absurd h hx

/-- the handle mapping the map phase of the code under test consults is closed in the target after the transfer -/
theorem transfer_sigma_closed (d : Docs) (σ : Sigma) (regs : List (Nat × Reg)) (placed : List Nat) (d' : Docs) (σ' : Sigma)
    (hwf : WF d σ) (hregs : RegsOk d regs) (h : transferCurrent d σ regs placed = .ok (d', σ')) :
    ∀ e ∈ σ', e.2 = 0 ∨ e.2 ∈ d'.tgt.handles :=
  transfer_sigma_closed_g true d σ regs placed d' σ' hwf hregs (current_eq d σ regs placed ▸ h)

open EzdxfVerif.XrefOv in
/-- CLOSEDNESS PER CLASS, FOR EVERY REGISTERED ENTITY TYPE: take any transfer of the code under test (`transfer_closed`'s
    hypotheses) and any source entity of a registered, copyable type.  After its `map_resources` chain has run with the redirected
    mapping `σ'`, every declared handle attribute that is not a documented exception is null, absent, or the handle of a node
    that IS in the target document (`tobj` = the target objects the `copyref` statements fetch through the mapping, themselves
    in the target) -/
theorem registered_types_transfer_closed (r : Row) (hr : r ∈ XrefOv.rows) (hc : r.copyable = true)
    (d : Docs) (σ : Sigma) (regs : List (Nat × Reg)) (placed : List Nat) (d' : Docs) (σ' : Sigma)
    (hwf : WF d σ) (hregs : RegsOk d regs) (h : transferCurrent d σ regs placed = .ok (d', σ'))
    (orc : Nat → Bool) (tobj : Nat → Nat) (htobj : ∀ b, tobj b = 0 ∨ tobj b ∈ d'.tgt.handles)
    (src : Attrs) (a : Nat) (ha : a ∈ r.ptrAttrs) (hx : a ∉ r.ptrExceptions) :
    ∀ v, mapAttrs orc σ' tobj r.maps src a = some v → v = 0 ∨ v ∈ d'.tgt.handles := by
  intro v hv
  rcases registered_types_closed r hr hc orc σ' tobj src a ha hx v hv with c | c | ⟨b, c⟩
  · exact Or.inl c
  · simp only [Sigma.range, List.mem_map] at c
    obtain ⟨e, he, hev⟩ := c
    rw [← hev]
    exact transfer_sigma_closed d σ regs placed d' σ' hwf hregs h e he
  · rw [c]; exact htobj b

open EzdxfVerif.XrefOv in
/-- no registered, copyable entity type writes to its source entity in `map_resources`, and none maps other copies a second time
    (the block content is reached once, through its own block of copies: fix 1a82fa447) -/
theorem registered_types_write_no_source (r : Row) (hr : r ∈ XrefOv.rows) (hc : r.copyable = true) :
    r.writesSource = false ∧ r.secondMapping = false := by
  have hwf := row_wf_of_mem r hr
  simp only [Row.wf, hc, Bool.not_true, Bool.false_or, Bool.and_eq_true, Bool.not_eq_true'] at hwf
  exact ⟨hwf.1.2, hwf.2⟩

open EzdxfVerif.XrefOv in
/-- faithfulness of a handle attribute: when all statements for `a` are `get_handle` of the SOURCE value under guards that let them
    run for a set attribute, the clone holds σ(h) — exactly what `mapPhase` of Model/Xref.lean §5 assumes for the pointer fields
    (`ptrs := sn.ptrs.map σ.get`) -/
theorem map_attrs_faithful (orc : Nat → Bool) (σ : Sigma) (tobj : Nat → Nat) (evs : List MapEv) (src : Attrs) (a h : Nat)
    (hs : src a = some h) (h0 : h ≠ 0)
    (hall : ∀ e ∈ evs, e.attr = a → e.via = .handle ∧ e.readsSource = true ∧ e.cond.firesOnSet = true) (hex : ∃ e ∈ evs, e.attr = a) :
    mapAttrs orc σ tobj evs src a = some (σ.get h) :=
  mapAttrsFrom_handle orc σ tobj src a h hs evs src hall h0 (Or.inl hex)

open EzdxfVerif.XrefOv in
/-- names: a chain whose name statements all read the SOURCE entity computes, for every attribute, the value of its last write -/
theorem map_names_last_write (nm : Nat → Str → Str) (tname : Nat → Str) (evs : List MapEv) (src : Names) (a : Nat)
    (hs : SrcOnly evs) :
    mapNames nm tname evs src a = match lastN nm tname src a evs with | some v => v | none => src a :=
  mapNamesFrom_last nm tname src a evs src hs

open EzdxfVerif.XrefOv in
/-- idempotence: a chain that reads only the source may visit the same copy twice without changing the result -/
theorem second_pass_idempotent (nm : Nat → Str → Str) (tname : Nat → Str) (evs : List MapEv) (src : Names) (hs : SrcOnly evs) :
    mapNamesTwice nm tname evs src = mapNames nm tname evs src := by
  funext a
  unfold mapNamesTwice
  rw [mapNamesFrom_last nm tname src a evs _ hs, map_names_last_write nm tname evs src a hs]
  cases lastN nm tname src a evs <;> rfl

/-- the chain "A" ↦ "$0$A" ↦ "$0$$0$A" of a source that already holds both names -/
def chainMap (_ : Nat) (s : Str) : Str := if s = [65] then [36, 48, 36, 65] else if s = [36, 48, 36, 65] then [36, 48, 36, 36, 48, 36, 65] else s

open EzdxfVerif.XrefOv in
/-- … and a statement that reads the CLONE is not idempotent: visited twice, the reference to "A" becomes a reference to the copy of
    the source's OTHER entry "$0$A" (the defect fixed by 1a82fa447 for TEXT / MTEXT / XDATA inside blocks; seeded change C17-m2 for
    INSERT).  With `registered_types_write_no_source` (no second visit) one pass is what the code performs. -/
theorem clone_read_twice_differs :
    mapNamesTwice chainMap (fun _ => []) [⟨7, .name 6, false, .always⟩] (fun a => if a = 7 then some [65] else none) 7
        = some [36, 48, 36, 36, 48, 36, 65] ∧
      mapNames chainMap (fun _ => []) [⟨7, .name 6, false, .always⟩] (fun a => if a = 7 then some [65] else none) 7
        = some [36, 48, 36, 65] ∧
      mapNamesTwice chainMap (fun _ => []) [⟨7, .name 6, true, .always⟩] (fun a => if a = 7 then some [65] else none) 7
        = some [36, 48, 36, 65] := by decide

open EzdxfVerif.XrefOv in
/-- every name a registered, copyable entity type maps is handed to the registry by its `register_resources` chain (so the table
    entry is transferred and the name map has the key), documented exceptions apart -/
theorem mapped_names_are_registered (r : Row) (hr : r ∈ XrefOv.rows) (hc : r.copyable = true) (e : MapEv) (he : e ∈ r.maps)
    (k : Nat) (hk : e.via = .name k) (hx : e.attr ∉ r.nameExceptions) (src : Names) (s : Str) (hs : src e.attr = some s) :
    ∃ k', (k', s) ∈ registeredNames r.regs src ∧ (k' = k ∨ k' = 13 ∨ k' = 0) := by
  have hwf := row_wf_of_mem r hr
  simp only [Row.wf, hc, Bool.not_true, Bool.false_or, Bool.and_eq_true] at hwf
  have hn := hwf.1.1.2
  simp only [Row.namesRegistered, List.all_eq_true] at hn
  have := hn e he
  rw [hk] at this
  simp only [Bool.or_eq_true, List.any_eq_true, List.contains_iff_mem, decide_eq_true_eq] at this
  rcases this with ⟨g, hg, hga, hgk⟩ | h
  · refine ⟨g.2, ?_, hgk⟩
    simp only [registeredNames, List.mem_filterMap]
    exact ⟨g, hg, by rw [hga, hs]; rfl⟩
  · exact absurd h hx

/-- the version gates in front of the name based (R12) handling of DIMSTYLE-override resources, translated from the `if` tests of
    Dimension / Leader `.register_resources` / `.map_resources`: it is performed exactly when the SOURCE document is DXF R12,
    whatever the version of the target (versions as ordinals 0 = R12 … 6 = R2018).  Seeded change C17-m3 (an extra test of the
    target version) re-opens this proof. -/
theorem r12_override_gate :
    ∀ s < 7, ∀ t < 7,
      XrefOverrides.dimensionMapsOverrideNames s t = decide (s = 0) ∧
      XrefOverrides.dimensionRegistersOverrideNames s t = decide (s = 0) ∧
      XrefOverrides.leaderMapsOverrideNames s t = decide (s = 0) ∧
      XrefOverrides.leaderRegistersOverrideNames s t = decide (s = 0) := by decide

-- the hypotheses of `registered_types_transfer_closed` are satisfiable: the first row of the table (3DFACE: material handle 0 is a
-- declared, non-exceptional handle attribute) with the F14 transfer
example : ∃ r ∈ XrefOv.rows, r.copyable = true ∧ 0 ∈ r.ptrAttrs ∧ 0 ∉ r.ptrExceptions :=
  ⟨XrefOv.rows[0]'(by decide), List.getElem_mem _, by decide, by decide, by decide⟩
-- non-vacuity: LINE is a registered type whose material handle is closed by a `get_handle` statement; rows exist that use every via
#guard (XrefOv.rows.filter (fun r => r.cls = "LINE")).map (fun r => (r.copyable, r.ptrAttrs.length, decide ((r.ptrAttrs.filter (XrefOv.covered r.maps)).length ≥ 3))) = [(true, 3, true)]
#guard XrefOv.rows.length ≥ 90 ∧ (XrefOv.rows.filter (·.copyable)).length ≥ 85
#guard (XrefOv.rows.any fun r => r.maps.any fun e => e.via = .existingOpt) ∧ (XrefOv.rows.any fun r => r.maps.any fun e => e.via = .copyref)
-- a row that lacks the mapping statement is NOT well-formed (the predicate is not trivially true); a statement that runs only when
-- the attribute is absent does not cover it; an if/else pair on an undecided test does
#guard XrefOv.covered [⟨0, .discard, true, .ifAbsent⟩] 0 = false
#guard XrefOv.covered [⟨0, .copyref, true, .unk 3 true⟩, ⟨0, .discard, true, .unk 3 false⟩] 0 = true
#guard XrefOv.covered [⟨0, .copyref, true, .unk 3 true⟩, ⟨0, .discard, true, .unk 4 false⟩] 0 = false
#guard (XrefOv.Row.wf { cls := "X", copyable := true, ptrAttrs := [0], nameAttrs := [], maps := [], regs := [], writesSource := false,
                         secondMapping := false, ptrExceptions := [], nameExceptions := [] }) = false
#guard (XrefOv.Row.wf { cls := "X", copyable := true, ptrAttrs := [], nameAttrs := [(3, 4)], maps := [⟨3, .name 4, true, .always⟩], regs := [],
                         writesSource := false, secondMapping := false, ptrExceptions := [], nameExceptions := [] }) = false
#guard (XrefOv.Row.wf { cls := "X", copyable := true, ptrAttrs := [], nameAttrs := [], maps := [], regs := [], writesSource := true,
                         secondMapping := false, ptrExceptions := [], nameExceptions := [] }) = false

/-! ## §7 the hypothesis `WF` is established by the registration and copy phase (final round) -/

/-- the decidable checker of `WF` is sound (the driver applies it to the allocation of the REAL CopyMachine, stream X7) -/
theorem wf_check_sound (d : Docs) (σ : Sigma) (h : wfB d σ = true) : WF d σ := by
  simp only [wfB, Bool.and_eq_true, List.all_eq_true, Bool.not_eq_true', bne_iff_ne, ne_eq, decide_eq_true_eq] at h
  obtain ⟨⟨⟨⟨⟨h1, h2⟩, h3⟩, h4⟩, h5⟩, h6⟩ := h
  refine ⟨h1, fun e he hm => ?_, h3, h4, h5, fun hm => ?_⟩
  · have := h2 e he
    rw [List.contains_iff_mem.mpr hm] at this; cases this
  · rw [List.contains_iff_mem.mpr hm] at h6; cases h6

private theorem registerInto_inv (src : Db) :
    ∀ (req acc : List Nat), acc.Nodup → (∀ h ∈ acc, (src.find h).isSome = true) →
      (registerInto src acc req).Nodup ∧ ∀ h ∈ registerInto src acc req, (src.find h).isSome = true := by
  intro req
  induction req with
  | nil => intro acc h1 h2; exact ⟨h1, h2⟩
  | cons a r ih =>
    intro acc h1 h2
    simp only [registerInto]
    apply ih
    · split
      · exact h1
      · rename_i hc
        simp only [Bool.or_eq_true, Bool.not_eq_true', not_or, Bool.not_eq_true, Bool.not_eq_false] at hc
        rw [List.nodup_append]
        refine ⟨h1, by simp, ?_⟩
        intro x hx y hy
        simp only [List.mem_singleton] at hy
        subst hy
        intro e; subst e
        have := hc.1
        rw [List.contains_iff_mem.mpr hx] at this; cases this
    · split
      · exact h2
      · rename_i hc
        simp only [Bool.or_eq_true, Bool.not_eq_true', not_or, Bool.not_eq_true, Bool.not_eq_false] at hc
        intro h hh
        rcases List.mem_append.mp hh with c | c
        · exact h2 h c
        · simp only [List.mem_singleton] at c; subst c; exact hc.2

private theorem mem_zip_fst (l1 l2 : List Nat) (e : Nat × Nat) (h : e ∈ l1.zip l2) : e.1 ∈ l1 ∧ e.2 ∈ l2 := by
  obtain ⟨a, b⟩ := e
  exact List.of_mem_zip h

private theorem zip_nodup (l1 l2 : List Nat) (h1 : l1.Nodup) (h2 : l2.Nodup) :
    ((l1.zip l2).map (·.1)).Nodup ∧ ((l1.zip l2).map (·.2)).Nodup := by
  induction l1 generalizing l2 with
  | nil => simp
  | cons a r ih =>
    cases l2 with
    | nil => simp
    | cons b r2 =>
      simp only [List.nodup_cons] at h1 h2
      obtain ⟨i1, i2⟩ := ih r2 h1.2 h2.2
      simp only [List.zip_cons_cons, List.map_cons, List.nodup_cons, List.mem_map, not_exists, not_and]
      refine ⟨⟨fun e he hea => h1.1 (hea ▸ (mem_zip_fst r r2 e he).1), i1⟩, ⟨fun e he heb => h2.1 (heb ▸ (mem_zip_fst r r2 e he).2), i2⟩⟩

/-- THE ALLOCATION OF CopyMachine IS WELL-FORMED: for ANY list of registration requests (in any order, with repetitions, with handles
    that have no source entity) and ANY handles the generator of the target hands out, provided they are pairwise distinct and not
    below a seed that lies above every handle of the target (the invariant of a valid document: C04 `write_lt_handseed`, C05
    `handles_never_reused`), the handle mapping `σ` satisfies `WF` — the hypothesis of `transfer_closed`, `transfer_no_leak`,
    `transfer_keeps_target`, `transfer_faithful`, `block_record_restore_transfer` -/
theorem copy_machine_wf (d : Docs) (req hs : List Nat) (seed : Nat) (hseed : 0 < seed)
    (htgt : ∀ t ∈ d.tgt.handles, 0 < t ∧ t < seed) (hnd : hs.Nodup) (hge : ∀ h ∈ hs, seed ≤ h) :
    WF d (allocate (registered d.src req) hs) := by
  obtain ⟨r1, r2⟩ := registerInto_inv d.src req [] List.nodup_nil (fun h hh => by simp at hh)
  obtain ⟨z1, z2⟩ := zip_nodup (registered d.src req) hs r1 hnd
  refine ⟨fun e he => r2 e.1 (mem_zip_fst _ _ e he).1, fun e he hm => ?_, fun e he h0 => ?_, z2, z1, fun hm => ?_⟩
  · have a := hge e.2 (mem_zip_fst _ _ e he).2
    have b := (htgt e.2 hm).2
    omega
  · have a := hge e.2 (mem_zip_fst _ _ e he).2
    omega
  · have := (htgt 0 hm).1
    omega

/-- closedness WITHOUT the hypothesis `WF`: every transfer of the code under test that starts from registration requests and a
    handle generator as above is closed — the only hypotheses left are about the inputs (valid target, fresh handles) and the
    policy decisions (`RegsOk`: KEEP decisions name target entries, proved for the model of §4) -/
theorem transfer_closed_of_copy_machine (d : Docs) (req hs : List Nat) (seed : Nat) (regs : List (Nat × Reg)) (placed : List Nat)
    (d' : Docs) (σ' : Sigma) (hseed : 0 < seed) (htgt : ∀ t ∈ d.tgt.handles, 0 < t ∧ t < seed) (hnd : hs.Nodup)
    (hge : ∀ h ∈ hs, seed ≤ h) (hregs : RegsOk d regs)
    (h : transferCurrent d (allocate (registered d.src req) hs) regs placed = .ok (d', σ')) :
    (∀ n ∈ d'.tgt, n.handle ∈ (allocate (registered d.src req) hs).range → ∀ p ∈ n.ptrs, p = 0 ∨ p ∈ d'.tgt.handles) ∧
    (∀ o ∈ d.tgt, o ∈ d'.tgt) ∧ d'.src = d.src := by
  have hwf := copy_machine_wf d req hs seed hseed htgt hnd hge
  refine ⟨transfer_closed d _ regs placed d' σ' hwf hregs h, transfer_keeps_target d _ regs placed d' σ' hwf h, ?_⟩
  exact transfer_source_unchanged _ _ d _ regs placed d' σ' h

/-- faithfulness WITHOUT `WF`: closed registry, every copy added ⇒ each pointer of a transferred node is the σ-image of the source
    pointer and points to the copy (same kind) of its referent, for the allocation of the CopyMachine model -/
theorem transfer_faithful_of_copy_machine (d : Docs) (req hs : List Nat) (seed : Nat) (regs : List (Nat × Reg)) (placed : List Nat)
    (d' : Docs) (σ' : Sigma) (hseed : 0 < seed) (htgt : ∀ t ∈ d.tgt.handles, 0 < t ∧ t < seed) (hnd : hs.Nodup)
    (hge : ∀ h ∈ hs, seed ≤ h) (hcl : RegistryClosed d (allocate (registered d.src req) hs)) (hall : ∀ x ∈ regs, x.2 = Reg.addNew)
    (h : transferCurrent d (allocate (registered d.src req) hs) regs placed = .ok (d', σ')) :
    σ' = allocate (registered d.src req) hs ∧ ∀ n ∈ d'.tgt, n.handle ∈ (allocate (registered d.src req) hs).range →
      ∃ e sn, e ∈ allocate (registered d.src req) hs ∧ e.2 = n.handle ∧ d.src.find e.1 = some sn ∧
        n.ptrs = sn.ptrs.map (allocate (registered d.src req) hs).get ∧
        ∀ q ∈ sn.ptrs, q ≠ 0 → (allocate (registered d.src req) hs).get q ≠ 0 ∧
          ∃ sq m, d.src.find q = some sq ∧ m ∈ d'.tgt ∧ m.handle = (allocate (registered d.src req) hs).get q ∧ m.kind = sq.kind :=
  transfer_faithful d _ regs placed d' σ' (copy_machine_wf d req hs seed hseed htgt hnd hge) hcl hall h

/-- the restored block record through the whole transfer WITHOUT `WF` (hypotheses about the source document and the inputs only) -/
theorem block_record_restored_of_copy_machine (d : Docs) (req hs : List Nat) (seed : Nat) (pre post : List (Nat × Reg))
    (placed : List Nat) (d' : Docs) (σ' : Sigma) (s b e : Nat) (sn : Node)
    (hseed : 0 < seed) (htgt : ∀ t ∈ d.tgt.handles, 0 < t ∧ t < seed) (hnd : hs.Nodup) (hge : ∀ h ∈ hs, seed ≤ h)
    (h : transferCurrent d (allocate (registered d.src req) hs) (pre ++ (s, .addNew) :: post) placed = .ok (d', σ'))
    (hs' : d.src.find s = some sn) (hk : sn.kind = .blockRecord) (hb : sn.block = some b) (he : sn.endblk = some e)
    (hreg : s ∈ (allocate (registered d.src req) hs).map (·.1))
    (hbn : (allocate (registered d.src req) hs).get b ≠ 0) (hen : (allocate (registered d.src req) hs).get e ≠ 0)
    (honce : ∀ x ∈ pre ++ post, x.1 ≠ s)
    (hpart : ∀ x ∈ pre ++ post, ∀ sn', d.src.find x.1 = some sn' → ∀ q ∈ sn'.parts, q ∉ sn.parts) :
    Restored d'.tgt (allocate (registered d.src req) hs) s sn b e :=
  block_record_restore_transfer_src d _ pre post placed d' σ' s b e sn (copy_machine_wf d req hs seed hseed htgt hnd hge) h
    hs' hk hb he hreg hbn hen honce hpart

/-- the checker of the allocation assumptions is sound: what stream X7 verifies on the allocation of the REAL CopyMachine (keys = the
    registration of themselves, values distinct and not below a seed above all target handles) gives `WF` through `copy_machine_wf` -/
theorem alloc_check_sound (d : Docs) (σ : Sigma) (seed : Nat) (h : allocOkB d σ seed = true) : WF d σ := by
  simp only [allocOkB, Bool.and_eq_true, decide_eq_true_eq, List.all_eq_true, beq_iff_eq] at h
  obtain ⟨⟨⟨⟨h1, h2⟩, h3⟩, h4⟩, h5⟩ := h
  have hz : σ = allocate (registered d.src (σ.map (·.1))) (σ.map (·.2)) := by
    rw [h5]; unfold allocate
    clear h5 h4 h3 h2
    induction σ with
    | nil => rfl
    | cons a r ih => simp only [List.map_cons, List.zip_cons_cons]; rw [← ih]
  rw [hz]
  refine copy_machine_wf d (σ.map (·.1)) (σ.map (·.2)) seed h1 (fun t ht => h2 t ht) h3 ?_
  intro v hv
  simp only [List.mem_map] at hv
  obtain ⟨e, he, hev⟩ := hv
  exact hev ▸ h4 e he

private theorem mem_regsOf (es : List (Str × Nat)) (ds : List Decision) (x : Nat × Reg) (e : Nat)
    (hx : x ∈ regsOf es ds) (hk : x.2 = .keepExisting e) : Decision.useExisting e ∈ ds := by
  induction es generalizing ds with
  | nil => cases ds <;> simp [regsOf] at hx
  | cons a r ih =>
    obtain ⟨nm, s⟩ := a
    cases ds with
    | nil => simp [regsOf] at hx
    | cons d ds' =>
      cases d with
      | useExisting h =>
        simp only [regsOf, List.mem_cons] at hx
        rcases hx with c | c
        · subst c; simp only [Reg.keepExisting.injEq] at hk; subst hk; exact List.mem_cons_self ..
        · exact List.mem_cons_of_mem _ (ih ds' c)
      | add n =>
        simp only [regsOf, List.mem_cons] at hx
        rcases hx with c | c
        · subst c; cases hk
        · exact List.mem_cons_of_mem _ (ih ds' c)
      | error =>
        simp only [regsOf] at hx
        exact List.mem_cons_of_mem _ (ih ds' hx)

/-- under KEEP every "use the existing entry" decision of a whole run names an entry the target had BEFORE the transfer (not a copy
    added earlier in the same run), for any number of copied entries with case-insensitively distinct names (the entries of ONE
    source table) -/
private theorem keep_uses_original_entries (xref : Str) (t : Table) :
    ∀ (es : List (Str × Nat)) (extra : Table), (es.map fun e => lower e.1).Nodup →
      (∀ k ∈ extra.keys, k ∉ es.map fun e => lower e.1) →
      ∀ h, Decision.useExisting h ∈ (registerAll (addTableEntry .keep xref) (t ++ extra) es).1 → ∃ k, (k, h) ∈ t := by
  intro es
  induction es with
  | nil => intro extra _ _ h hh; simp [registerAll] at hh
  | cons a r ih =>
    intro extra hnd hex h hh
    obtain ⟨name, s⟩ := a
    simp only [List.map_cons, List.nodup_cons] at hnd
    unfold registerAll at hh
    cases hhas : (t ++ extra).has name with
    | true =>
      obtain ⟨x, hx, hm⟩ := (policy_keep xref (t ++ extra) name).1 hhas
      rw [hx] at hh
      simp only [List.mem_cons] at hh
      rcases hh with c | c
      · cases c
        rcases List.mem_append.mp hm with d | d
        · exact ⟨_, d⟩
        · exfalso
          apply hex (lower name) (by simp only [Table.keys, List.mem_map]; exact ⟨_, d, rfl⟩)
          simp
      · exact ih extra hnd.2 (fun k hk hm' => hex k hk (List.mem_cons_of_mem _ hm')) h c
    | false =>
      rw [(policy_keep xref (t ++ extra) name).2 hhas] at hh
      simp only [List.mem_cons, reduceCtorEq, false_or] at hh
      rw [List.append_assoc] at hh
      refine ih (extra ++ [(lower name, s)]) hnd.2 ?_ h hh
      intro k hk hm'
      simp only [Table.keys, List.map_append, List.map_cons, List.map_nil, List.mem_append, List.mem_singleton] at hk
      rcases hk with c | c
      · exact hex k (by simpa [Table.keys] using c) (List.mem_cons_of_mem _ hm')
      · subst c; exact hnd.1 hm'

/-- THE HYPOTHESIS `RegsOk` IS ESTABLISHED by the conflict policy: the registration list induced by the decisions of
    `register_table_resources` under KEEP over the entries of one source table (distinct names) satisfies `RegsOk`, whenever the
    handles of the target table are handles of the target document -/
theorem regs_ok_of_keep (d : Docs) (xref : Str) (t : Table) (es : List (Str × Nat))
    (hnd : (es.map fun e => lower e.1).Nodup) (htab : ∀ e ∈ t, e.2 ∈ d.tgt.handles) :
    RegsOk d (regsOf es (registerAll (addTableEntry .keep xref) t es).1) := by
  intro x hx e hk
  have hu := mem_regsOf es _ x e hx hk
  have := keep_uses_original_entries xref t es [] hnd (fun k hk' => by simp [Table.keys] at hk') e (by simpa using hu)
  obtain ⟨k, hm⟩ := this
  exact htab _ hm

private theorem renaming_no_use_existing (pol : Policy) (hp : pol ≠ .keep) (xref : Str) (e : Nat) :
    ∀ (es : List (Str × Nat)) (t : Table), Decision.useExisting e ∉ (registerAll (addTableEntry pol xref) t es).1 := by
  intro es
  induction es with
  | nil => intro t; simp [registerAll]
  | cons a r ih =>
    intro t
    obtain ⟨name, s⟩ := a
    unfold registerAll
    cases hd : addTableEntry pol xref t name with
    | add n => simp only [List.mem_cons, reduceCtorEq, false_or]; exact ih _
    | error => simp only [List.mem_cons, reduceCtorEq, false_or]; exact ih _
    | useExisting h =>
      exfalso
      cases pol with
      | keep => exact hp rfl
      | xrefPrefix =>
        obtain ⟨i, _, he, _⟩ := policy_xref_prefix xref t name
        rw [he] at hd; cases hd
      | numPrefix =>
        cases hh : t.has name with
        | true => obtain ⟨i, _, he, _⟩ := (policy_num_prefix xref t name).2 hh; rw [he] at hd; cases hd
        | false => rw [(policy_num_prefix xref t name).1 hh] at hd; cases hd

/-- … and under the renaming policies no decision refers to an existing entry at all -/
theorem regs_ok_of_renaming (d : Docs) (pol : Policy) (hp : pol ≠ .keep) (xref : Str) (t : Table) (es : List (Str × Nat)) :
    RegsOk d (regsOf es (registerAll (addTableEntry pol xref) t es).1) := by
  intro x hx e hk
  exact absurd (mem_regsOf es _ x e hx hk) (renaming_no_use_existing pol hp xref e es t)

/-- CLOSEDNESS WITH NO FREE HYPOTHESIS ABOUT THE TRANSFER ITSELF: for every conflict policy, every list of registration requests,
    every handle supply of a valid target and every source table with case-insensitively distinct names, the transfer of the
    code under test whose allocation is made by the CopyMachine model and whose registration list is induced by the policy
    decisions is closed, keeps the target's nodes and leaves the source unchanged.  What is left are statements about the INPUTS:
    the target is a valid document (handles positive and below the seed, table handles are document handles), the generator
    hands out distinct handles not below the seed -/
theorem transfer_closed_no_free_hypothesis (pol : Policy) (xref : Str) (d : Docs) (req hs : List Nat) (seed : Nat)
    (t : Table) (es : List (Str × Nat)) (placed : List Nat) (d' : Docs) (σ' : Sigma)
    (hseed : 0 < seed) (htgt : ∀ x ∈ d.tgt.handles, 0 < x ∧ x < seed) (hnd : hs.Nodup) (hge : ∀ h ∈ hs, seed ≤ h)
    (hnames : (es.map fun e => lower e.1).Nodup) (htab : ∀ e ∈ t, e.2 ∈ d.tgt.handles)
    (h : transferCurrent d (allocate (registered d.src req) hs)
          (regsOf es (registerAll (addTableEntry pol xref) t es).1) placed = .ok (d', σ')) :
    (∀ n ∈ d'.tgt, n.handle ∈ (allocate (registered d.src req) hs).range → ∀ p ∈ n.ptrs, p = 0 ∨ p ∈ d'.tgt.handles) ∧
    (∀ o ∈ d.tgt, o ∈ d'.tgt) ∧ d'.src = d.src := by
  have hregs : RegsOk d (regsOf es (registerAll (addTableEntry pol xref) t es).1) := by
    by_cases hp : pol = .keep
    · subst hp; exact regs_ok_of_keep d xref t es hnames htab
    · exact regs_ok_of_renaming d pol hp xref t es
  exact transfer_closed_of_copy_machine d req hs seed _ placed d' σ' hseed htgt hnd hge hregs h

-- the hypotheses of `transfer_closed_no_free_hypothesis` are satisfiable: the F14 input (block "I" of the source, block "i" = #5 of
-- the target, KEEP): requests with a repetition, handles 20.. from a generator with seed 20, the decision is `keepExisting 5`
#guard regsOf [([73], 10)] (registerAll (addTableEntry .keep []) [([105], 5)] [([73], 10)]).1 == [(10, .keepExisting 5)]
#guard (transferCurrent f14 (allocate (registered f14.src [10, 11, 12, 10, 13, 14]) [20, 21, 22, 23, 24])
    (regsOf [([73], 10)] (registerAll (addTableEntry .keep []) [([105], 5)] [([73], 10)]).1)).toOption.isSome
#guard f14.tgt.handles.all (fun x => decide (0 < x ∧ x < 20))

-- non-vacuity: a KEEP run with a clash ("l1" exists as #7) and a free name; the induced registration list is `RegsOk` for a target
-- that holds entity 7
#guard regsOf [([76, 49], 100), ([65], 101)] (registerAll (addTableEntry .keep []) [([108, 49], 7)] [([76, 49], 100), ([65], 101)]).1
  == [(100, .keepExisting 7), (101, .addNew)]

-- non-vacuity: the F14 transfer is an instance (requests with a repetition and a handle 99 that has no source entity)
#guard registered f14.src [10, 11, 12, 10, 99, 13, 14] == [10, 11, 12, 13, 14]
#guard allocate (registered f14.src [10, 11, 12, 10, 99, 13, 14]) [20, 21, 22, 23, 24] == f14σ
#guard wfB f14 f14σ && allocOkB f14 f14σ 20
#guard wfB f14 [(10, 5)] == false      -- a "fresh" handle that the target already uses is rejected

end EzdxfVerif.Props.C17

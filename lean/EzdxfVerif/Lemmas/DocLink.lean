/-
"Linked ⇒ listed" for the document state machine: in every reachable state every live entity that has an owner
is listed in the entity space of that owner (the converse of OwnerInv).  With BInv this gives the "exactly once"
half of C04 (`linked_written`) and the closedness of GROUP members in the written file (`groups_closed`).
-/
import EzdxfVerif.Lemmas.DocReload
namespace EzdxfVerif.Doc

/-- every live entity with an owner is listed in the entity space of that owner (which exists) -/
def LinkInv (s : State) : Prop :=
  ∀ h, isAlive s h = true → ∀ k, ownerOf s h = some k → ∃ l, spaceOf s k = some l ∧ h ∈ l

/-- entities only die and survivors keep their owner -/
def RelE (s s' : State) : Prop :=
  ∀ y, isAlive s' y = true → isAlive s y = true ∧ ownerOf s' y = ownerOf s y

/-- a survivor listed in the space of its owner stays listed there -/
def RelS (s s' : State) : Prop :=
  ∀ k l y, spaceOf s k = some l → y ∈ l → isAlive s' y = true → ownerOf s y = some k →
    ∃ l', spaceOf s' k = some l' ∧ y ∈ l'

theorem LinkInv.of_rel {s s' : State} (h : LinkInv s) (hE : RelE s s') (hS : RelS s s') : LinkInv s' := by
  intro y ha k ho
  obtain ⟨ha0, ho0⟩ := hE y ha
  rw [ho0] at ho
  obtain ⟨l, hl, hy⟩ := h y ha0 k ho
  exact hS k l y hl hy ha ho

theorem RelE.of_map {s s' : State} (g : Ent → Ent) (hg : ∀ x, (g x).h = x.h) (hE : s'.ents = s.ents.map g)
    (hp : ∀ x, (g x).alive = true → x.alive = true ∧ (g x).owner = x.owner) : RelE s s' := by
  intro y ha
  have hf : findEnt s' y = (findEnt s y).map g := by
    simp only [findEnt, hE]; exact find_map_h _ g hg y
  simp only [isAlive, ownerOf, hf] at ha ⊢
  cases hfe : findEnt s y with
  | none => simp [hfe] at ha
  | some x =>
    simp only [hfe, Option.map_some] at ha ⊢
    exact hp x ha

theorem RelE.of_ents {s s' : State} (hE : s'.ents = s.ents) : RelE s s' := by
  intro y ha
  have hf : findEnt s' y = findEnt s y := by simp only [findEnt, hE]
  exact ⟨by simpa only [isAlive, hf] using ha, by simp only [ownerOf, hf]⟩

theorem RelS.of_spaces {s s' : State} (hS : s'.spaces = s.spaces) : RelS s s' := by
  intro k l y hl hy _ _
  exact ⟨l, by simpa only [spaceOf, hS] using hl, hy⟩

theorem LinkInv.of_same {s s' : State} (h : LinkInv s) (hS : s'.spaces = s.spaces) (hE : s'.ents = s.ents) :
    LinkInv s' := h.of_rel (RelE.of_ents hE) (RelS.of_spaces hS)

theorem find?_filter_of_imp {α : Type} (p q : α → Bool) (h : ∀ x, p x = true → q x = true) (l : List α) :
    (l.filter q).find? p = l.find? p := by
  induction l with
  | nil => rfl
  | cons a t ih =>
    simp only [List.filter_cons]
    by_cases hq : q a = true
    · simp only [hq, ↓reduceIte, List.find?_cons]
      cases p a <;> simp [ih]
    · have hp : p a = false := by
        cases hpa : p a with
        | false => rfl
        | true => exact absurd (h a hpa) hq
      simp only [hq, Bool.false_eq_true, ↓reduceIte, List.find?_cons, hp]
      exact ih

theorem spaceOf_map_filter2 (sp : List (Nat × List Nat)) (q : Nat → Nat → Bool) (k : Nat) :
    ((sp.map (fun p => (p.1, p.2.filter (q p.1)))).find? (fun p => p.1 = k)).map (fun p => p.2) =
    ((sp.find? (fun p => p.1 = k)).map (fun p => p.2)).map (fun l => l.filter (q k)) := by
  induction sp with
  | nil => rfl
  | cons a t ih =>
    simp only [List.map_cons, List.find?_cons]
    by_cases h : a.1 = k
    · subst h; simp
    · have hd : decide (a.fst = k) = false := by simp [h]
      simp only [hd]
      exact ih

/-- filtering every space with a predicate that holds for the survivors listed in their owner's space -/
theorem RelS.of_filter {s s' : State} (q : Nat → Nat → Bool)
    (hS : s'.spaces = s.spaces.map (fun p => (p.1, p.2.filter (q p.1))))
    (hq : ∀ k y, isAlive s' y = true → ownerOf s y = some k → q k y = true) : RelS s s' := by
  intro k l y hl hy ha ho
  refine ⟨l.filter (q k), ?_, List.mem_filter.mpr ⟨hy, hq k y ha ho⟩⟩
  simp only [spaceOf] at hl ⊢
  rw [hS, spaceOf_map_filter2, hl]
  rfl

theorem spaceOf_append_new (sp : List (Nat × List Nat)) (br k : Nat) (l : List Nat)
    (h : (sp.find? (fun p : Nat × List Nat => p.1 = k)).map (fun p : Nat × List Nat => p.2) = some l) :
    ((sp ++ [((br, []) : Nat × List Nat)]).find? (fun p : Nat × List Nat => p.1 = k)).map
      (fun p : Nat × List Nat => p.2) = some l := by
  rw [List.find?_append]
  cases hf : sp.find? (fun p : Nat × List Nat => decide (p.1 = k)) with
  | none => simp [hf] at h
  | some p => simpa [hf] using h

theorem spaceOf_filter_ne (sp : List (Nat × List Nat)) (br k : Nat) (hne : k ≠ br) :
    ((sp.filter (fun p : Nat × List Nat => p.1 ≠ br)).find? (fun p : Nat × List Nat => p.1 = k)).map (fun p => p.2) =
      (sp.find? (fun p : Nat × List Nat => p.1 = k)).map (fun p => p.2) := by
  rw [find?_filter_of_imp]
  intro x hx
  have : x.1 = k := by simpa using hx
  simp [this, hne]

/-! ### the entity operations -/

theorem ownerOf_congr {s s' : State} (x : Nat) (h : findEnt s' x = findEnt s x) : ownerOf s' x = ownerOf s x := by
  simp only [ownerOf, h]

/-- appending fresh live entities (all owned by `k`, which has an entity space) to space `k` -/
theorem LinkInv.append_list {s s' : State} (hl : LinkInv s) (k : Nat) (xs : List Ent)
    (hE : s'.ents = s.ents ++ xs) (hS : s'.spaces = setSpace s.spaces k (· ++ xs.map (·.h)))
    (hk : (spaceOf s k).isSome = true) (hown : ∀ x ∈ xs, x.owner = some k) : LinkInv s' := by
  intro y ha k' ho
  have hsp : ∀ k'' l, spaceOf s k'' = some l → ∃ l', spaceOf s' k'' = some l' ∧ ∀ z ∈ l, z ∈ l' := by
    intro k'' l hl'
    simp only [spaceOf, hS, spaceOf_setSpace] at hl' ⊢
    split
    · rw [hl']; exact ⟨l ++ xs.map (·.h), rfl, fun z hz => List.mem_append_left _ hz⟩
    · exact ⟨l, hl', fun z hz => hz⟩
  by_cases hy : y ∈ hs s
  · have hf : findEnt s' y = findEnt s y := by
      simp only [findEnt, hE]; exact find_append_known _ _ _ hy
    rw [isAlive_congr_find y hf] at ha
    rw [ownerOf_congr y hf] at ho
    obtain ⟨l, hl', hyl⟩ := hl y ha k' ho
    obtain ⟨l', h1, h2⟩ := hsp k' l hl'
    exact ⟨l', h1, h2 y hyl⟩
  · have hf : findEnt s' y = xs.find? (·.h = y) := by
      simp only [findEnt, hE]; exact find_append_fresh _ _ _ hy
    simp only [isAlive, ownerOf, hf] at ha ho
    cases hfx : xs.find? (·.h = y) with
    | none => simp [hfx] at ha
    | some z =>
      simp only [hfx] at ho
      have hz := List.mem_of_find?_eq_some hfx
      have hzy : z.h = y := by simpa using List.find?_some hfx
      rw [hown z hz] at ho
      cases ho
      cases hks : spaceOf s k with
      | none => simp [hks] at hk
      | some sp =>
        refine ⟨sp ++ xs.map (·.h), ?_, List.mem_append_right _ (by rw [← hzy]; exact List.mem_map_of_mem hz)⟩
        simp only [spaceOf] at hks ⊢
        rw [hS, spaceOf_setSpace, hks]; simp

theorem newEnt_LinkInv (s : State) (k h seed : Nat) (r : Option Str) (subs : List Nat)
    (hl : LinkInv s) : LinkInv (newEnt s k h seed r subs).1 := by
  unfold newEnt
  split
  · exact hl
  · rename_i sp hsp
    split
    · rename_i hf
      exact hl.append_list k [⟨h, true, some k, true, r, isPaperBr s k, subs⟩] rfl rfl (by simp [hsp])
        (by intro x hx; simp at hx; subst hx; rfl)
    · exact hl

theorem unlinkCore_LinkInv {s s' : State} {k e : Nat} (h : unlinkCore s k e = some s') (hl : LinkInv s) :
    LinkInv s' := by
  unfold unlinkCore at h
  split at h
  · cases h; exact hl
  · split at h
    · cases h
    · split at h
      · have hS : s'.spaces = setSpace s.spaces k (fun l => l.erase e) := by cases h; rfl
        have hE : s'.ents = setEnt s.ents e (fun x => { x with owner := none, psp := false }) := by cases h; rfl
        clear h
        intro y ha k' ho
        by_cases hye : y = e
        · subst hye
          have hf : findEnt s' y = (findEnt s y).map (fun x => { x with owner := none, psp := false }) := by
            simp only [findEnt, hE]; exact findEnt_setEnt_eq _ _ _ (fun _ => rfl)
          simp only [ownerOf, hf] at ho
          cases hfe : findEnt s y <;> simp [hfe] at ho
        · have hf : findEnt s' y = findEnt s y := by
            simp only [findEnt, hE]; exact findEnt_setEnt_ne _ _ _ _ (fun _ => rfl) hye
          rw [isAlive_congr_find y hf] at ha
          rw [ownerOf_congr y hf] at ho
          obtain ⟨l, hl', hyl⟩ := hl y ha k' ho
          simp only [spaceOf, hS, spaceOf_setSpace] at hl' ⊢
          split
          · rw [hl']; exact ⟨l.erase e, rfl, (List.mem_erase_of_ne hye).mpr hyl⟩
          · exact ⟨l, hl', hyl⟩
      · cases h

theorem addExisting_LinkInv (s : State) (k e : Nat) (hl : LinkInv s) : LinkInv (addExisting s k e).1 := by
  obtain ⟨s', hs'⟩ : ∃ s', s' = (addExisting s k e).1 := ⟨_, rfl⟩
  rw [← hs']
  unfold addExisting at hs'
  split at hs'
  · rename_i x sp hx hsp
    split at hs'
    · rw [hs']; exact hl
    · split at hs'
      · rw [hs']; exact hl
      · have hS : s'.spaces = setSpace s.spaces k (fun l => l ++ [e]) := by rw [hs']
        have hE : s'.ents = setEnt s.ents e (fun x => { x with owner := some k, psp := isPaperBr s k }) := by rw [hs']
        clear hs'
        intro y ha k' ho
        have hsp' : ∀ k'' l, spaceOf s k'' = some l → ∃ l', spaceOf s' k'' = some l' ∧ ∀ z ∈ l, z ∈ l' := by
          intro k'' l hl'
          simp only [spaceOf, hS, spaceOf_setSpace] at hl' ⊢
          split
          · rw [hl']; exact ⟨l ++ [e], rfl, fun z hz => List.mem_append_left _ hz⟩
          · exact ⟨l, hl', fun z hz => hz⟩
        by_cases hye : y = e
        · subst hye
          have hf : findEnt s' y = (findEnt s y).map (fun x => { x with owner := some k, psp := isPaperBr s k }) := by
            simp only [findEnt, hE]; exact findEnt_setEnt_eq _ _ _ (fun _ => rfl)
          simp only [ownerOf, hf, hx, Option.map_some, Option.some.injEq] at ho
          subst ho
          refine ⟨sp ++ [y], ?_, by simp⟩
          simp only [spaceOf] at hsp ⊢
          rw [hS, spaceOf_setSpace, hsp]; simp
        · have hf : findEnt s' y = findEnt s y := by
            simp only [findEnt, hE]; exact findEnt_setEnt_ne _ _ _ _ (fun _ => rfl) hye
          rw [isAlive_congr_find y hf] at ha
          rw [ownerOf_congr y hf] at ho
          obtain ⟨l, hl', hyl⟩ := hl y ha k' ho
          obtain ⟨l', h1, h2⟩ := hsp' k' l hl'
          exact ⟨l', h1, h2 y hyl⟩
  · rw [hs']; exact hl

theorem destroyEnt_LinkInv (s : State) (e : Nat) (hl : LinkInv s) : LinkInv (destroyEnt s e) := by
  refine hl.of_rel (RelE.of_map (fun x => if x.h = e then { x with alive := false } else x)
    (fun x => by split <;> rfl) rfl ?_) (RelS.of_spaces rfl)
  intro x ha
  split at ha
  · simp at ha
  · rename_i hne; simp only [hne, ↓reduceIte]; exact ⟨ha, by first | rfl | trivial⟩

theorem dropAttribs_LinkInv (s : State) (e : Nat) (hl : LinkInv s) : LinkInv (dropAttribs s e) := by
  refine hl.of_rel (RelE.of_map (fun x => if x.h = e then { x with subs := x.subs.drop (x.subs.length - 1) } else x)
    (fun x => by split <;> rfl) rfl ?_) (RelS.of_spaces rfl)
  intro x ha
  split at ha
  · rename_i he; simp only [he, ↓reduceIte]; exact ⟨ha, by first | rfl | trivial⟩
  · rename_i hne; simp only [hne, ↓reduceIte]; exact ⟨ha, by first | rfl | trivial⟩

theorem dropContainer_LinkInv (s : State) (br : Nat) (hl : LinkInv s) : LinkInv (dropContainer s br) := by
  intro y ha k ho
  have hf : findEnt (dropContainer s br) y = (findEnt s y).map
      (fun x => if ((spaceOf s br).getD []).contains x.h then { x with alive := false } else x) := by
    simp only [findEnt, dropContainer]; exact find_map_h _ _ (fun x => by split <;> rfl) y
  simp only [isAlive, ownerOf, hf] at ha ho
  cases hfe : findEnt s y with
  | none => simp [hfe] at ha
  | some x =>
    simp only [hfe, Option.map_some] at ha ho
    have hxy : x.h = y := by
      simp only [findEnt] at hfe; simpa using List.find?_some hfe
    split at ha
    · simp at ha
    · rename_i hnc
      rw [if_neg hnc] at ho
      obtain ⟨l, hl', hyl⟩ := hl y (by simp [isAlive, hfe, ha]) k (by simp [ownerOf, hfe, ho])
      by_cases hk : k = br
      · subst hk
        exfalso; apply hnc
        rw [hl', hxy]; simpa using hyl
      · refine ⟨l, ?_, hyl⟩
        simp only [spaceOf, dropContainer] at hl' ⊢
        rw [spaceOf_filter_ne _ _ _ hk]; exact hl'

theorem renameBlock_LinkInv (s : State) (a b : Str) (hl : LinkInv s) : LinkInv (renameBlock s a b).1 :=
  hl.of_same (renameBlock_spaces s a b) (renameBlock_ents s a b)

theorem setActive_LinkInv (s : State) (n : Str) (hl : LinkInv s) : LinkInv (setActive s n).1 :=
  hl.of_same (setActive_spaces s n) (setActive_ents s n)

theorem LinkInv.newKey {s s' : State} (hl : LinkInv s) (br : Nat) (hS : s'.spaces = s.spaces ++ [(br, [])])
    (hE : s'.ents = s.ents) : LinkInv s' := by
  refine hl.of_rel (RelE.of_ents hE) ?_
  intro k l y hl' hy _ _
  refine ⟨l, ?_, hy⟩
  simp only [spaceOf] at hl' ⊢
  rw [hS]; exact spaceOf_append_new _ _ _ _ hl'

theorem dropAll_LinkInv : ∀ (l : List Nat) (s : State), LinkInv s → LinkInv (dropAll s l)
  | [], _, h => h
  | a :: r, s, h => by
    simp only [dropAll, List.foldl_cons]
    exact dropAll_LinkInv r _ (dropContainer_LinkInv s a h)

theorem audit_LinkInv (s : State) (hl : LinkInv s) : LinkInv (audit s).1 := by
  have h1 : LinkInv (auditSpaces s) := by
    refine hl.of_rel (RelE.of_ents rfl) (RelS.of_filter (keepInSpace s) rfl ?_)
    intro k y ha ho
    have ha' : isAlive s y = true := ha
    simp [keepInSpace, ha', ho]
  have h1' : LinkInv (auditLayouts (auditSpaces s)) := by
    obtain ⟨bl, hbl⟩ := auditLayouts_eq (auditSpaces s)
    exact (dropAll_LinkInv (orphanBlocks (auditSpaces s)) (auditSpaces s) h1).of_same (by rw [hbl]) (by rw [hbl])
  have h2 : LinkInv (auditEntities (auditLayouts (auditSpaces s))) := by
    refine h1'.of_rel (RelE.of_map (killF (auditLayouts (auditSpaces s))) (killF_h _) rfl ?_) (RelS.of_spaces rfl)
    intro x ha
    unfold killF at ha ⊢
    split at ha
    · simp at ha
    · rename_i hnt; simp only [hnt]; exact ⟨ha, by first | rfl | trivial⟩
  exact h2.of_same rfl rfl

theorem explodeCore_LinkInv {s s' : State} {e k : Nat} {src : List Nat} {news : List (Nat × List Nat)} {texts : List Nat}
    {seed : Nat} (hl : LinkInv s) (hk : (spaceOf s k).isSome = true)
    (hshape : shapeOk s src news = true)
    (hcore : explodeCore s e k src news texts seed = some s') : LinkInv s' := by
  have hhs := explodeEnts_hs s k src news texts (shapeOk_len hshape)
  obtain ⟨s2, h2, rfl⟩ := explodeCore_parts hcore
  apply dropAttribs_LinkInv
  apply destroyEnt_LinkInv
  refine unlinkCore_LinkInv h2 ?_
  exact hl.append_list k (explodeEnts s k src news texts) rfl (by simp only [explodeMid, hhs]) hk
    (fun x hx => (explodeEnts_props s k src news texts x hx).2.1)

/-- "linked ⇒ listed" is preserved by every operation -/
theorem step_LinkInv (s : State) (op : Op) (hi : DocInv s) (hl : LinkInv s) : LinkInv (step s op).1 := by
  cases op with
  | add k h seed => exact newEnt_LinkInv _ _ _ _ _ _ hl
  | ins k n h seed => exact newEnt_LinkInv _ _ _ _ _ _ hl
  | addL k r h subs seed => exact newEnt_LinkInv _ _ _ _ _ _ hl
  | unlink k e =>
    simp only [step]; split
    · rename_i h1; exact unlinkCore_LinkInv h1 hl
    · exact hl
  | addex k e => exact addExisting_LinkInv s k e hl
  | move k1 e k2 =>
    simp only [step]; split
    · exact hl
    · split
      · exact hl
      · rename_i s1 h1
        have := addExisting_LinkInv s1 k2 e (unlinkCore_LinkInv h1 hl)
        split
        · rename_i s2 heq; rw [heq] at this; exact this
        · exact hl
  | del k e =>
    simp only [step]; split
    · exact hl
    · rename_i s1 h1; exact destroyEnt_LinkInv s1 e (unlinkCore_LinkInv h1 hl)
  | destroy e => exact destroyEnt_LinkInv s e hl
  | copy e k h subs seed =>
    simp only [step]; split
    · split
      · split
        · exact newEnt_LinkInv _ _ _ _ _ _ hl
        · exact hl
      · exact hl
    · exact hl
  | explode e news seed =>
    rcases explode_cases s e news seed with ⟨er, h0⟩ | ⟨x, name, k, b, s', hx, hal, hr, ho', hsp, hb, hshape, hfresh, htexts, hcore, hstep⟩
    · rw [h0]; exact hl
    · rw [hstep]; exact explodeCore_LinkInv hl hsp hshape hcore
  | purge =>
    refine hl.of_rel (RelE.of_map (fun x => { x with indb := x.indb && x.alive }) (fun _ => rfl) rfl
      (fun x ha => ⟨ha, rfl⟩)) (RelS.of_filter (fun _ => isAlive s) rfl ?_)
    intro k y ha _
    have hE : RelE s (step s .purge).1 := RelE.of_map (fun x => { x with indb := x.indb && x.alive }) (fun _ => rfl) rfl
      (fun x ha => ⟨ha, rfl⟩)
    exact (hE y ha).1
  | newBlock n br seed =>
    simp only [step]; split
    · exact hl
    · split
      · exact hl.newKey br rfl rfl
      · exact hl
  | delBlock n safe =>
    simp only [step]; split
    · exact hl
    · split
      · exact hl
      · exact dropContainer_LinkInv s _ hl
  | renBlock a b => exact renameBlock_LinkInv s a b hl
  | newLayout n br seed =>
    simp only [step]; split
    · exact hl
    · split
      · exact hl
      · split
        · exact hl.newKey br rfl rfl
        · exact hl
  | delLayout n =>
    simp only [step]; split
    · exact hl
    · split
      · exact hl
      · split
        · exact hl
        · simp only
          apply dropContainer_LinkInv
          split
          · split
            · exact (setActive_LinkInv _ _ hl).of_same rfl rfl
            · exact hl.of_same rfl rfl
          · exact hl.of_same rfl rfl
  | renLayout a b =>
    simp only [step]; split
    · exact hl
    · split
      · exact hl
      · split
        · exact hl
        · exact hl.of_same rfl rfl
  | activate n => exact setActive_LinkInv s n hl
  | addLayer n seed =>
    simp only [step]; split
    · exact hl
    · split
      · exact hl.of_same rfl rfl
      · exact hl
  | delLayer n => simp only [step]; split <;> first | exact hl | exact hl.of_same rfl rfl
  | reload seed =>
    by_cases hle : s.next ≤ seed
    · obtain ⟨_, hEnts, hSp⟩ := reload_state s seed hle
      have hE : RelE s (step s (.reload seed)).1 := by
        refine RelE.of_map _ (fun x => by split <;> rfl) hEnts ?_
        intro x ha
        split at ha
        · rename_i hk; simp only [hk, ↓reduceIte]; exact ⟨ha, by first | rfl | trivial⟩
        · simp at ha
      refine hl.of_rel hE (RelS.of_filter (fun _ => isAlive s) hSp ?_)
      intro k y ha _
      exact (hE y ha).1
    · have : (step s (.reload seed)).1 = s := by simp [step, hle]
      rw [this]; exact hl
  | foreign kind e => simp only [step]; split <;> exact hl
  | audit seed =>
    simp only [step]; split
    · exact (audit_LinkInv s hl).of_same rfl rfl
    · exact hl
  | addEntry t n seed =>
    simp only [step]; split
    · exact hl
    · split
      · exact hl.of_same rfl rfl
      · exact hl
  | delEntry t n => simp only [step]; split <;> first | exact hl | exact hl.of_same rfl rfl
  | dupEntry t a b seed =>
    simp only [step]; split
    · exact hl
    · split
      · exact hl.of_same rfl rfl
      · exact hl
  | newGroup n h seed =>
    simp only [step]; split
    · exact hl
    · split
      · exact hl.of_same rfl rfl
      · exact hl
  | setGroup n ms =>
    simp only [step]; split
    · exact hl
    · split
      · exact hl.of_same rfl rfl
      · exact hl
  | delGroup n => simp only [step]; split <;> first | exact hl | exact hl.of_same rfl rfl

theorem link_inv_reachable (s : State) (ops : List Op) (h : DocInv s) (hl : LinkInv s) (hok : HistOk s ops) :
    LinkInv (run s ops) := by
  induction ops generalizing s with
  | nil => exact hl
  | cons op r ih => exact ih _ (step_Inv s op h hok.1) (step_LinkInv s op h hl) hok.2

/-! ### consequences for the written file -/

/-- every live entity whose owner handle resolves (LinkInv) to a block record is written: into ENTITIES when the
    owner is the modelspace or the active paperspace, between BLOCK and ENDBLK of its owner otherwise -/
theorem linked_written (s : State) (hb : BInv s) (hl : LinkInv s) (h k : Nat)
    (ha : isAlive s h = true) (ho : ownerOf s h = some k) : h ∈ written (writeFile s) := by
  obtain ⟨l, hl', hyl⟩ := hl h ha k ho
  have hkm : (k, l) ∈ s.spaces := find_some_mem (by simpa only [spaceOf] using hl')
  have hkb : k ∈ brs s := hb.2.2 k (by simp only [keys, List.mem_map]; exact ⟨(k, l), hkm, rfl⟩)
  have hlive : h ∈ liveContent s k := by
    simp only [liveContent, hl', Option.getD_some, List.mem_filter]; exact ⟨hyl, ha⟩
  simp only [written, writeFile, List.mem_append, List.mem_flatten, List.mem_map]
  by_cases hms : some k = blockBr s (lower modelSpaceName)
  · right; left
    rw [← hms]; exact hlive
  · by_cases hps : some k = blockBr s (lower paperSpaceName)
    · right; right
      rw [← hps]; exact hlive
    · left
      simp only [brs, List.mem_map] at hkb
      obtain ⟨b, hbm, hbk⟩ := hkb
      refine ⟨liveContent s k, ⟨_, ⟨b, hbm, rfl⟩, ?_⟩, hlive⟩
      simp only [hbk, hms, hps, or_self, ↓reduceIte]

theorem validMember_spec {s : State} {m : Nat} (h : validMember s m = true) :
    isAlive s m = true ∧ ∃ k, ownerOf s m = some k := by
  simp only [validMember] at h
  cases hf : findEnt s m with
  | none => simp [hf] at h
  | some e =>
    simp only [hf, Bool.and_eq_true] at h
    cases ho : e.owner with
    | none => simp [ho] at h
    | some k => exact ⟨by simp [isAlive, hf, h.1], k, by simp [ownerOf, hf, ho]⟩

/-- every member handle written into a GROUP object (340 tags) is the handle of an entity that is written -/
theorem groups_closed (s : State) (hb : BInv s) (hl : LinkInv s) :
    ∀ g ∈ (writeFile s).groups, ∀ m ∈ g.2, m ∈ written (writeFile s) := by
  intro g hg m hm
  simp only [writeFile, List.mem_map] at hg
  obtain ⟨g0, _, rfl⟩ := hg
  simp only [auditGroup] at hm
  split at hm
  · simp only [List.mem_filter] at hm
    obtain ⟨ha, k, ho⟩ := validMember_spec hm.2
    exact linked_written s hb hl m k ha ho
  · simp at hm

end EzdxfVerif.Doc

/-
Helper lemmas for C08 (Model/Readers.lean).  Core Lean only.
-/
import EzdxfVerif.Model.Readers

namespace EzdxfVerif.Readers

/-! ## basic facts -/

theorem hasType_iff (ty : String) (g : Group) : hasType ty g = true ↔ dxftype g = ty := by
  cases g with
  | nil => simp only [hasType, dxftype, beq_iff_eq]; exact eq_comm
  | cons t r => simp [hasType, dxftype]

theorem expects_cases (cfg : Cfg) (g : Group) (exp : String) (h : expects cfg g = some exp) :
    (dxftype g = "POLYLINE" ∧ exp = "VERTEX") ∨ (dxftype g = "INSERT" ∧ exp = "ATTRIB") := by
  unfold expects at h
  split at h
  · left; simp_all
  · split at h
    · split at h
      · right; simp_all
      · simp at h
    · simp at h

theorem expects_ne_seqend (cfg : Cfg) (g : Group) (exp : String) (h : expects cfg g = some exp) :
    exp ≠ "SEQEND" := by
  rcases expects_cases cfg g exp h with ⟨_, h2⟩ | ⟨_, h2⟩ <;> subst h2 <;> decide

theorem req_of_expects (cfg : Cfg) (hr : ReqLinked cfg) (g : Group) (exp : String) (h : expects cfg g = some exp) :
    cfg.req (dxftype g) = true ∧ cfg.req exp = true := by
  obtain ⟨h1, h2, h3, h4, _⟩ := hr
  rcases expects_cases cfg g exp h with ⟨a, b⟩ | ⟨a, b⟩ <;> simp [*]

/-! ## the queue of the iterdxf readers on a well-formed entity list -/

theorem qLoad_req (cfg : Cfg) (st : QSt) (g : Group) (hne : g ≠ []) (hr : cfg.req (dxftype g) = true) :
    qLoad cfg st g = qStep cfg st g := by
  cases g with
  | nil => exact absurd rfl hne
  | cons t r => simp only [qLoad, dxftype] at *; simp [hr]

theorem qLoad_skip (cfg : Cfg) (st : QSt) (g : Group) (hr : cfg.req (dxftype g) = false) :
    qLoad cfg st g = .ok st := by
  cases g with
  | nil => rfl
  | cons t r => simp only [qLoad, dxftype] at *; simp [hr]

def QSt.linkSubs (st : QSt) (held : Bool) (subs : List Group) : QSt :=
  { st with queued := if held then st.queued.map (fun e => { e with subs := e.subs ++ subs }) else st.queued }

theorem qLoop_subs (cfg : Cfg) (exp : String) (held : Bool) (hexp : exp ≠ "SEQEND") (hreq : cfg.req exp = true)
    (subs more : List Group) (st : QSt) (hl : st.link = some (exp, held))
    (hs : ∀ s ∈ subs, hasType exp s = true ∧ s ≠ []) :
    qLoop cfg st (subs ++ more) = qLoop cfg (st.linkSubs held subs) more := by
  induction subs generalizing st with
  | nil =>
    have : st.linkSubs held [] = st := by
      cases st with
      | mk out queued link => cases held <;> cases queued <;> simp [QSt.linkSubs]
    simp [this]
  | cons s r ih =>
    have ⟨hty, hne⟩ := hs s (by simp)
    have hty' : dxftype s = exp := (hasType_iff exp s).mp hty
    have h1 : qLoad cfg st s = .ok { st with queued := if held then st.queued.map (·.addSub s) else st.queued } := by
      rw [qLoad_req cfg st s hne (by rw [hty']; exact hreq)]
      simp only [qStep, hl]
      have : dxftype s ≠ "SEQEND" := by rw [hty']; exact hexp
      simp [hty', hexp]
    simp only [List.cons_append, qLoop, h1]
    rw [ih _ (by simpa using hl) (fun x hx => hs x (by simp [hx]))]
    congr 1
    cases st with
    | mk out queued link => cases held <;> cases queued <;> simp [QSt.linkSubs, Ent.addSub]

/-- the state after a complete entity (main, sub-entities, SEQEND) went through the loop -/
def qEnt (cfg : Cfg) (st : QSt) (e : Ent) : QSt :=
  if cfg.req (dxftype e.main) then
    let link' : LinkSt := if e.isOpen cfg then (expects cfg e.main).map (fun exp => (exp, !cfg.psp e.main)) else none
    if cfg.psp e.main then { st with link := link' }
    else { out := (st.queued.filter cfg.truthy).toList ++ st.out, queued := some e, link := link' }
  else st

theorem qLoop_ent (cfg : Cfg) (hr : ReqLinked cfg) (e : Ent) (hwf : entWF cfg e = true)
    (hne : ∀ g ∈ e.groups, g ≠ []) (more : List Group) (st : QSt) (hl : st.link = none) :
    qLoop cfg st (e.groups ++ more) = qLoop cfg (qEnt cfg st e) more := by
  obtain ⟨main, subs, seqend⟩ := e
  have hmne : main ≠ [] := hne main (by simp [Ent.groups])
  simp only [entWF] at hwf
  cases hexp : expects cfg main with
  | none =>
    simp only [hexp, Bool.and_eq_true, List.isEmpty_iff, Option.isNone_iff_eq_none] at hwf
    obtain ⟨h1, h2⟩ := hwf
    subst h1; subst h2
    simp only [Ent.groups, Option.toList_none, List.append_nil, List.cons_append, List.nil_append, qLoop]
    cases hreq : cfg.req (dxftype main) with
    | false => simp [qLoad_skip cfg st main hreq, qEnt, hreq]
    | true =>
      rw [qLoad_req cfg st main hmne hreq]
      simp only [qStep, hl, hexp, Option.map_none]
      cases hp : cfg.psp main <;> simp [qEnt, hreq, hp, Ent.isOpen, hexp, Ent.single]
  | some exp =>
    simp only [hexp, Bool.and_eq_true, List.all_eq_true] at hwf
    obtain ⟨hsubs, hseq⟩ := hwf
    have ⟨hreqm, hreqe⟩ := req_of_expects cfg hr main exp hexp
    have hexpne := expects_ne_seqend cfg main exp hexp
    have hsubs' : ∀ s ∈ subs, hasType exp s = true ∧ s ≠ [] :=
      fun s hs => ⟨hsubs s hs, hne s (by simp [Ent.groups, hs])⟩
    simp only [Ent.groups, List.cons_append, qLoop]
    rw [qLoad_req cfg st main hmne hreqm]
    simp only [qStep, hl, hexp, Option.map_some]
    cases hp : cfg.psp main with
    | true =>
      simp only [if_true, List.append_assoc]
      rw [qLoop_subs cfg exp false hexpne hreqe subs _ _ rfl hsubs']
      cases seqend with
      | none => simp [QSt.linkSubs, qEnt, hreqm, hp, Ent.isOpen, hexp]
      | some q =>
        have hq : dxftype q = "SEQEND" := (hasType_iff _ _).mp hseq
        have hqne : q ≠ [] := hne q (by simp [Ent.groups])
        simp only [Option.toList_some, List.cons_append, List.nil_append, qLoop]
        rw [qLoad_req cfg _ q hqne (by rw [hq]; exact hr.2.2.2.2)]
        simp [qStep, QSt.linkSubs, hq, qEnt, hreqm, hp, Ent.isOpen, hexp]
    | false =>
      simp only [Bool.false_eq_true, if_false, List.append_assoc, Bool.not_false]
      rw [qLoop_subs cfg exp true hexpne hreqe subs _ _ rfl hsubs']
      cases seqend with
      | none => simp [QSt.linkSubs, qEnt, hreqm, hp, Ent.isOpen, hexp, Ent.single]
      | some q =>
        have hq : dxftype q = "SEQEND" := (hasType_iff _ _).mp hseq
        have hqne : q ≠ [] := hne q (by simp [Ent.groups])
        simp only [Option.toList_some, List.cons_append, List.nil_append, qLoop]
        rw [qLoad_req cfg _ q hqne (by rw [hq]; exact hr.2.2.2.2)]
        simp [qStep, QSt.linkSubs, hq, qEnt, hreqm, hp, Ent.isOpen, hexp, Ent.single, Ent.setSeqend]

theorem finish_qEnt (cfg : Cfg) (st : QSt) (e : Ent) :
    (qEnt cfg st e).finish cfg = st.finish cfg ++ delivered cfg [e] := by
  unfold qEnt delivered
  cases hreq : cfg.req (dxftype e.main) with
  | false => simp [hreq]
  | true =>
    cases hp : cfg.psp e.main with
    | true => simp [hreq, hp, QSt.finish]
    | false =>
      simp only [hreq, hp, if_true, Bool.false_eq_true, if_false, QSt.finish, List.reverse_append, Bool.not_false,
        Bool.and_self, List.filter_cons_of_pos, List.filter_nil, List.append_assoc]
      congr 1
      cases hq : st.queued.filter cfg.truthy <;> cases ht : cfg.truthy e <;> simp [Option.toList, Option.filter, ht]

theorem qEnt_link (cfg : Cfg) (st : QSt) (e : Ent) (hl : st.link = none) (hc : e.isOpen cfg = false) :
    (qEnt cfg st e).link = none := by
  unfold qEnt
  cases cfg.req (dxftype e.main) <;> cases cfg.psp e.main <;> simp [hl, hc]

theorem delivered_cons (cfg : Cfg) (e : Ent) (r : List Ent) :
    delivered cfg (e :: r) = delivered cfg [e] ++ delivered cfg r := by
  unfold delivered
  cases h1 : (cfg.req (dxftype e.main) && !cfg.psp e.main) <;> cases h2 : cfg.truthy e <;> simp [List.filter_cons, h1, h2]

theorem qLoop_ents (cfg : Cfg) (hr : ReqLinked cfg) (es : List Ent) (hwf : EntsWF cfg es = true)
    (hne : ∀ e ∈ es, ∀ g ∈ e.groups, g ≠ []) (st : QSt) (hl : st.link = none) :
    ∃ st', qLoop cfg st (es.flatMap Ent.groups) = .ok st' ∧
      st'.finish cfg = st.finish cfg ++ delivered cfg es := by
  induction es generalizing st with
  | nil => exact ⟨st, rfl, by simp [delivered]⟩
  | cons e r ih =>
    cases r with
    | nil =>
      simp only [EntsWF] at hwf
      refine ⟨qEnt cfg st e, ?_, finish_qEnt cfg st e⟩
      have := qLoop_ent cfg hr e hwf (hne e (by simp)) [] st hl
      simpa [qLoop] using this
    | cons e2 r2 =>
      simp only [EntsWF, Bool.and_eq_true, Bool.not_eq_true'] at hwf
      obtain ⟨⟨h1, h2⟩, h3⟩ := hwf
      obtain ⟨st', hq, hf⟩ := ih h3 (fun x hx => hne x (by simp [hx])) (qEnt cfg st e) (qEnt_link cfg st e hl h2)
      refine ⟨st', ?_, ?_⟩
      · rw [List.flatMap_cons, qLoop_ent cfg hr e h1 (hne e (by simp)) _ st hl]; exact hq
      · rw [hf, finish_qEnt, List.append_assoc, ← delivered_cons cfg e (e2 :: r2)]

/-! ## tag loops of the streaming readers = `qLoop` over the groups -/

theorem groupOK_cons (g : Group) (h : groupOK g = true) : ∃ t ts, g = t :: ts ∧ t.code = 0 ∧ ∀ x ∈ ts, nz x = true := by
  cases g with
  | nil => simp [groupOK] at h
  | cons t ts =>
    simp only [groupOK, Bool.and_eq_true, beq_iff_eq, List.all_eq_true] at h
    exact ⟨t, ts, rfl, h.1, h.2⟩

theorem nz_code (t : Tag) (h : nz t = true) : t.code ≠ 0 := by
  simpa [nz] using h

theorem qLoop_nil_cons (cfg : Cfg) (st : QSt) (gs : List Group) : qLoop cfg st ([] :: gs) = qLoop cfg st gs := by
  simp [qLoop, qLoad]

theorem iterInside_nz (cfg : Cfg) (st : QSt) (ts more : List Tag) (acc : Group) (h : ∀ t ∈ ts, nz t = true) :
    iterInside cfg acc st (ts ++ more) = iterInside cfg (acc ++ ts) st more := by
  induction ts generalizing acc with
  | nil => simp
  | cons t r ih =>
    have ht := nz_code t (h t (by simp))
    simp only [List.cons_append, iterInside, ht, if_false]
    rw [ih _ (fun x hx => h x (by simp [hx]))]
    simp

def finishR (cfg : Cfg) : Except Err QSt → Except Err (List Ent)
  | .ok st => .ok (st.finish cfg)
  | .error e => .error e

theorem iterInside_groups (cfg : Cfg) (gs : List Group)
    (hg : ∀ g ∈ gs, groupOK g = true ∧ dxftype g ≠ "ENDSEC") (cur : Group) (st : QSt) (rest : List Tag) :
    iterInside cfg cur st (gs.flatten ++ tENDSEC :: rest) = finishR cfg (qLoop cfg st (cur :: gs)) := by
  induction gs generalizing cur st with
  | nil =>
    simp only [List.flatten_nil, List.nil_append, iterInside, tENDSEC, if_true, qLoop]
    cases qLoad cfg st cur <;> simp [finishR, qLoop]
  | cons g r ih =>
    obtain ⟨hok, hne⟩ := hg g (by simp)
    obtain ⟨t, ts, rfl, ht0, hts⟩ := groupOK_cons g hok
    simp only [dxftype] at hne
    simp only [List.flatten_cons, List.cons_append, List.append_assoc, iterInside, ht0, if_true, qLoop]
    cases hq : qLoad cfg st cur with
    | error e => simp [finishR]
    | ok st' =>
      simp only [hne, if_false]
      rw [iterInside_nz cfg st' ts _ [t] hts, ih (fun x hx => hg x (by simp [hx]))]
      simp [qLoop]

theorem spInside_nz (cfg : Cfg) (flush : Bool) (st : QSt) (ts more : List Tag) (acc : Group)
    (h : ∀ t ∈ ts, nz t = true) :
    spInside cfg flush acc st (ts ++ more) = spInside cfg flush (acc ++ ts) st more := by
  induction ts generalizing acc with
  | nil => simp
  | cons t r ih =>
    have ht := nz_code t (h t (by simp))
    simp only [List.cons_append, spInside, ht, false_and, if_false]
    rw [ih _ (fun x hx => h x (by simp [hx]))]
    simp

theorem spInside_groups (cfg : Cfg) (flush : Bool) (gs : List Group)
    (hg : ∀ g ∈ gs, groupOK g = true ∧ dxftype g ≠ "ENDSEC") (cur : Group) (st : QSt) (rest : List Tag) :
    spInside cfg flush cur st (gs.flatten ++ tENDSEC :: rest) =
      finishR cfg (qLoop cfg st (if flush then cur :: gs else (cur :: gs).dropLast)) := by
  induction gs generalizing cur st with
  | nil =>
    simp only [List.flatten_nil, List.nil_append, spInside, tENDSEC, and_self, if_true]
    cases flush with
    | true => simp only [if_true, qLoop]; cases qLoad cfg st cur <;> simp [finishR, qLoop]
    | false => simp [finishR, qLoop]
  | cons g r ih =>
    obtain ⟨hok, hne⟩ := hg g (by simp)
    obtain ⟨t, ts, rfl, ht0, hts⟩ := groupOK_cons g hok
    simp only [dxftype] at hne
    simp only [List.flatten_cons, List.cons_append, List.append_assoc, spInside, ht0, hne, and_false, if_false,
      if_true]
    have hd : (if flush = true then cur :: (t :: ts) :: r else (cur :: (t :: ts) :: r).dropLast)
        = cur :: (if flush = true then (t :: ts) :: r else ((t :: ts) :: r).dropLast) := by
      cases flush <;> simp
    rw [hd]
    simp only [qLoop]
    cases hq : qLoad cfg st cur with
    | error e => simp [finishR]
    | ok st' =>
      simp only []
      rw [spInside_nz cfg flush st' ts _ [t] hts, ih (fun x hx => hg x (by simp [hx]))]
      simp

/-! ## skipping the sections in front of ENTITIES -/

theorem bodyOK_cons (t : Tag) (b : List Tag) (h : bodyOK (t :: b) = true) :
    ¬(t.code = 0 ∧ (t.val = "SECTION" ∨ t.val = "ENDSEC" ∨ t.val = "EOF")) ∧ bodyOK b = true := by
  simp only [bodyOK, List.all_cons, Bool.and_eq_true] at h
  obtain ⟨h1, h2⟩ := h
  refine ⟨?_, by simpa [bodyOK] using h2⟩
  rintro ⟨h0, hv⟩
  rcases hv with hv | hv | hv <;> simp [h0, hv] at h1

theorem iterOutside_body (cfg : Cfg) (b more : List Tag) (hb : bodyOK b = true) (pc : Int) (pv : String)
    (hp : ¬(pc = 0 ∧ pv = "SECTION")) :
    ∃ pc' pv', ¬(pc' = 0 ∧ pv' = "SECTION") ∧ iterOutside cfg pc pv (b ++ more) = iterOutside cfg pc' pv' more := by
  induction b generalizing pc pv with
  | nil => exact ⟨pc, pv, hp, rfl⟩
  | cons t r ih =>
    obtain ⟨ht, hr⟩ := bodyOK_cons t r hb
    have hc : ¬(t.code = 2 ∧ pc = 0 ∧ pv = "SECTION" ∧ t.val = "ENTITIES") := fun h => hp ⟨h.2.1, h.2.2.1⟩
    have hp' : ¬((t.code : Int) = 0 ∧ t.val = "SECTION") := by
      intro h; exact ht ⟨by exact_mod_cast h.1, Or.inl h.2⟩
    obtain ⟨pc', pv', h1, h2⟩ := ih hr (t.code : Int) t.val hp'
    refine ⟨pc', pv', h1, ?_⟩
    simp only [List.cons_append, iterOutside, hc, if_false]
    exact h2

theorem iterOutside_sec (cfg : Cfg) (s : Section) (hs : bodyOK s.body = true) (hn : s.name ≠ "ENTITIES")
    (more : List Tag) (pc : Int) (pv : String) :
    iterOutside cfg pc pv (renderSec s ++ more) = iterOutside cfg 0 "ENDSEC" more := by
  obtain ⟨pc', pv', _, h2⟩ := iterOutside_body cfg s.body (tENDSEC :: more) hs 2 s.name (by simp)
  simp only [renderSec, List.cons_append, List.append_assoc, List.nil_append]
  simp only [iterOutside, tSECTION]
  simp only [hn, and_false, if_false]
  simp only [show ¬((0 : Nat) = 2 ∧ pc = 0 ∧ pv = "SECTION" ∧ "SECTION" = "ENTITIES") by simp, if_false]
  have e2 : ((2 : Nat) : Int) = 2 := rfl
  rw [e2, h2]
  simp [iterOutside, tENDSEC]

theorem iterOutside_secs (cfg : Cfg) (pre : List Section)
    (hs : ∀ s ∈ pre, bodyOK s.body = true ∧ s.name ≠ "ENTITIES") (more : List Tag) (pc : Int) (pv : String) :
    ∃ pc' pv', iterOutside cfg pc pv (pre.flatMap renderSec ++ more) = iterOutside cfg pc' pv' more := by
  induction pre generalizing pc pv with
  | nil => exact ⟨pc, pv, rfl⟩
  | cons s r ih =>
    obtain ⟨h1, h2⟩ := hs s (by simp)
    obtain ⟨pc', pv', h⟩ := ih (fun x hx => hs x (by simp [hx])) 0 "ENDSEC"
    refine ⟨pc', pv', ?_⟩
    rw [List.flatMap_cons, List.append_assoc, iterOutside_sec cfg s h1 h2]
    exact h

theorem iterOutside_entities (cfg : Cfg) (body rest : List Tag) (pc : Int) (pv : String) :
    iterOutside cfg pc pv (renderSec ⟨"ENTITIES", body⟩ ++ rest) =
      iterInside cfg [] QSt.init (body ++ tENDSEC :: rest) := by
  simp [renderSec, iterOutside, tSECTION]

/-! ## iterdxf.modelspace and single_pass_modelspace on a well-formed file -/

theorem entGroupsOK_mem (es : List Ent) (h : entGroupsOK es = true) :
    ∀ g ∈ es.flatMap Ent.groups, groupOK g = true ∧ dxftype g ≠ "SECTION" ∧ dxftype g ≠ "ENDSEC" ∧ dxftype g ≠ "EOF" := by
  intro g hg
  simp only [entGroupsOK, List.all_eq_true, Bool.and_eq_true, bne_iff_ne] at h
  obtain ⟨e, he, hge⟩ := List.mem_flatMap.mp hg
  obtain ⟨⟨⟨a, b⟩, c⟩, d⟩ := h e he g hge
  exact ⟨a, b, c, d⟩

theorem groupOK_ne_nil (g : Group) (h : groupOK g = true) : g ≠ [] := by
  intro hn; subst hn; simp [groupOK] at h

theorem qLoop_result (cfg : Cfg) (hr : ReqLinked cfg) (es : List Ent) (hwf : EntsWF cfg es = true)
    (hg : entGroupsOK es = true) :
    finishR cfg (qLoop cfg QSt.init (es.flatMap Ent.groups)) = .ok (delivered cfg es) := by
  have hne : ∀ e ∈ es, ∀ g ∈ e.groups, g ≠ [] := fun e he g hge =>
    groupOK_ne_nil g (entGroupsOK_mem es hg g (List.mem_flatMap.mpr ⟨e, he, hge⟩)).1
  obtain ⟨st', h1, h2⟩ := qLoop_ents cfg hr es hwf hne QSt.init rfl
  rw [h1]
  simp only [finishR, h2]
  simp [QSt.finish, QSt.init]

theorem fileOf_eq (pre : List Section) (es : List Ent) (post : List Section) :
    fileOf pre es post =
      pre.flatMap renderSec ++ (renderSec ⟨"ENTITIES", flatEnts es⟩ ++ (post.flatMap renderSec ++ [tEOF])) := by
  simp [fileOf, render, List.flatMap_append, List.flatMap_cons]

theorem iter_ok (cfg : Cfg) (pre post : List Section) (es : List Ent)
    (hpre : ∀ s ∈ pre, bodyOK s.body = true ∧ s.name ≠ "ENTITIES")
    (hwf : EntsWF cfg es = true) (hg : entGroupsOK es = true) (hr : ReqLinked cfg)
    (hA : asciiLoad (fileOf pre es post) = fileOf pre es post)
    (hC : compile cfg (fileOf pre es post) = fileOf pre es post) :
    iterModelspace cfg (fileOf pre es post) = .ok (delivered cfg es) := by
  unfold iterModelspace
  rw [hA, hC, fileOf_eq]
  obtain ⟨pc', pv', h⟩ := iterOutside_secs cfg pre hpre
    (renderSec ⟨"ENTITIES", flatEnts es⟩ ++ (post.flatMap renderSec ++ [tEOF])) (-1) ""
  rw [h, iterOutside_entities]
  have hgs : ∀ g ∈ es.flatMap Ent.groups, groupOK g = true ∧ dxftype g ≠ "ENDSEC" :=
    fun g hg' => ⟨(entGroupsOK_mem es hg g hg').1, (entGroupsOK_mem es hg g hg').2.2.1⟩
  unfold flatEnts
  rw [iterInside_groups cfg _ hgs, qLoop_nil_cons, qLoop_result cfg hr es hwf hg]

/-! ### single_pass_modelspace -/

theorem compile_append (cfg : Cfg) (a b : List Tag) : compile cfg (a ++ b) = compile cfg a ++ compile cfg b := by
  simp [compile]

theorem compile_suffix (cfg : Cfg) (a b : List Tag) (h : compile cfg (a ++ b) = a ++ b) : compile cfg b = b := by
  rw [compile_append] at h
  exact (List.append_inj h (by simp [compile])).2

theorem spOutside_body (cfg : Cfg) (flush : Bool) (b more : List Tag) (hb : bodyOK b = true) (pc : Int) (pv : String)
    (hp : ¬(pc = 0 ∧ pv = "SECTION")) :
    ∃ pc' pv', ¬(pc' = 0 ∧ pv' = "SECTION") ∧
      spOutside cfg flush pc pv (b ++ tENDSEC :: more) = spOutside cfg flush pc' pv' (tENDSEC :: more) := by
  induction b generalizing pc pv with
  | nil => exact ⟨pc, pv, hp, rfl⟩
  | cons t r ih =>
    obtain ⟨ht, hr⟩ := bodyOK_cons t r hb
    have hc : ¬(t.code = 2 ∧ pc = 0 ∧ pv = "SECTION" ∧ t.val = "ENTITIES") := fun h => hp ⟨h.2.1, h.2.2.1⟩
    have hp' : ¬((t.code : Int) = 0 ∧ t.val = "SECTION") := by
      intro h; exact ht ⟨by exact_mod_cast h.1, Or.inl h.2⟩
    obtain ⟨pc', pv', h1, h2⟩ := ih hr (t.code : Int) t.val hp'
    refine ⟨pc', pv', h1, ?_⟩
    simp only [List.cons_append, spOutside, hc, if_false]
    exact h2

/-- the rest of a section body, its ENDSEC, and the following tag-compiled stream -/
theorem spOutside_rest (cfg : Cfg) (flush : Bool) (b more : List Tag) (hb : bodyOK b = true) (pc : Int) (pv : String)
    (hp : ¬(pc = 0 ∧ pv = "SECTION")) :
    spOutside cfg flush pc pv (b ++ tENDSEC :: more) = spOutside cfg flush 0 "ENDSEC" more := by
  obtain ⟨pc', pv', _, h2⟩ := spOutside_body cfg flush b more hb pc pv hp
  rw [h2]
  simp [spOutside, tENDSEC]

theorem spOutside_sec (cfg : Cfg) (flush : Bool) (s : Section) (hs : bodyOK s.body = true) (hn : s.name ≠ "ENTITIES")
    (more : List Tag) (pc : Int) (pv : String) :
    spOutside cfg flush pc pv (renderSec s ++ more) = spOutside cfg flush 0 "ENDSEC" more := by
  simp only [renderSec, List.cons_append, List.append_assoc, List.nil_append]
  simp only [spOutside, tSECTION]
  simp only [hn, and_false, if_false]
  simp only [show ¬((0 : Nat) = 2 ∧ pc = 0 ∧ pv = "SECTION" ∧ "SECTION" = "ENTITIES") by simp, if_false]
  exact spOutside_rest cfg flush s.body more hs _ _ (by simp)

theorem spOutside_secs (cfg : Cfg) (flush : Bool) (pre : List Section)
    (hs : ∀ s ∈ pre, bodyOK s.body = true ∧ s.name ≠ "ENTITIES") (more : List Tag) (pc : Int) (pv : String) :
    ∃ pc' pv', spOutside cfg flush pc pv (pre.flatMap renderSec ++ more) = spOutside cfg flush pc' pv' more := by
  induction pre generalizing pc pv with
  | nil => exact ⟨pc, pv, rfl⟩
  | cons s r ih =>
    obtain ⟨h1, h2⟩ := hs s (by simp)
    obtain ⟨pc', pv', h⟩ := ih (fun x hx => hs x (by simp [hx])) 0 "ENDSEC"
    refine ⟨pc', pv', ?_⟩
    rw [List.flatMap_cons, List.append_assoc, spOutside_sec cfg flush s h1 h2]
    exact h

theorem spOutside_entities (cfg : Cfg) (flush : Bool) (body rest : List Tag) (pc : Int) (pv : String) :
    spOutside cfg flush pc pv (renderSec ⟨"ENTITIES", body⟩ ++ rest) =
      spInside cfg flush [] QSt.init (body ++ tENDSEC :: rest) := by
  simp [renderSec, spOutside, tSECTION]

theorem spHeader_nz (b more : List Tag) (hb : ∀ t ∈ b, nz t = true) (pc : Int) (hpc : pc ≠ 0) :
    ∃ pc', spHeader pc (b ++ tENDSEC :: more) = .ok (false, pc', more) := by
  induction b generalizing pc with
  | nil => exact ⟨pc, by simp [spHeader, tENDSEC]⟩
  | cons t r ih =>
    have ht := nz_code t (hb t (by simp))
    obtain ⟨pc', h⟩ := ih (fun x hx => hb x (by simp [hx])) (t.code : Int) (by exact_mod_cast ht)
    refine ⟨pc', ?_⟩
    simp only [List.cons_append, spHeader, ht, false_and, if_false, hpc, and_false]
    exact h

theorem spInside_file (cfg : Cfg) (flush : Bool) (es : List Ent) (hg : entGroupsOK es = true) (rest : List Tag) :
    spInside cfg flush [] QSt.init (flatEnts es ++ tENDSEC :: rest) =
      finishR cfg (qLoop cfg QSt.init
        (if flush then es.flatMap Ent.groups else (es.flatMap Ent.groups).dropLast)) := by
  have hgs : ∀ g ∈ es.flatMap Ent.groups, groupOK g = true ∧ dxftype g ≠ "ENDSEC" :=
    fun g hg' => ⟨(entGroupsOK_mem es hg g hg').1, (entGroupsOK_mem es hg g hg').2.2.1⟩
  unfold flatEnts
  rw [spInside_groups cfg flush _ hgs]
  cases flush with
  | true => simp [qLoop_nil_cons]
  | false =>
    cases hgs' : es.flatMap Ent.groups with
    | nil => simp [qLoop, qLoad]
    | cons g r => simp [qLoop_nil_cons]

theorem sp_ok (cfg : Cfg) (flush : Bool) (pre post : List Section) (es : List Ent)
    (hpre : ∀ s ∈ pre, bodyOK s.body = true ∧ s.name ≠ "ENTITIES")
    (hhdr : ∀ h ∈ pre.head?, h.name = "HEADER" → ∀ t ∈ h.body, nz t = true)
    (hg : entGroupsOK es = true)
    (hC : compile cfg (fileOf pre es post) = fileOf pre es post) :
    singlePass cfg flush (fileOf pre es post) =
      finishR cfg (qLoop cfg QSt.init
        (if flush then es.flatMap Ent.groups else (es.flatMap Ent.groups).dropLast)) := by
  unfold singlePass
  rw [fileOf_eq] at hC ⊢
  cases pre with
  | nil =>
    simp only [List.flatMap_nil, List.nil_append, renderSec, List.cons_append, List.append_assoc] at hC ⊢
    have h1 : spHeader (-1) (tSECTION :: ⟨2, "ENTITIES"⟩ :: (flatEnts es ++ tENDSEC :: (post.flatMap renderSec ++ [tEOF])))
        = .ok (true, 0, flatEnts es ++ tENDSEC :: (post.flatMap renderSec ++ [tEOF])) := by
      simp [spHeader, tSECTION]
    rw [h1]
    have h2 := compile_suffix cfg [tSECTION, ⟨2, "ENTITIES"⟩]
      (flatEnts es ++ tENDSEC :: (post.flatMap renderSec ++ [tEOF])) hC
    simp only [if_true]
    rw [h2]
    exact spInside_file cfg flush es hg _
  | cons s pre' =>
    obtain ⟨hsb, hsn⟩ := hpre s (by simp)
    have hpre' : ∀ x ∈ pre', bodyOK x.body = true ∧ x.name ≠ "ENTITIES" := fun x hx => hpre x (by simp [hx])
    simp only [List.flatMap_cons, renderSec, List.cons_append, List.append_assoc, List.nil_append] at hC ⊢
    by_cases hh : s.name = "HEADER"
    · have hnz := hhdr s (by simp) hh
      obtain ⟨pc', h1⟩ := spHeader_nz s.body (pre'.flatMap renderSec ++
        (tSECTION :: ⟨2, "ENTITIES"⟩ :: (flatEnts es ++ (tENDSEC :: (post.flatMap renderSec ++ [tEOF]))))) hnz 2 (by decide)
      have h0 : spHeader (-1) (tSECTION :: ⟨2, s.name⟩ :: (s.body ++ (tENDSEC :: (pre'.flatMap renderSec ++
          (tSECTION :: ⟨2, "ENTITIES"⟩ :: (flatEnts es ++ (tENDSEC :: (post.flatMap renderSec ++ [tEOF])))))))) =
          .ok (false, pc', pre'.flatMap renderSec ++
            (tSECTION :: ⟨2, "ENTITIES"⟩ :: (flatEnts es ++ (tENDSEC :: (post.flatMap renderSec ++ [tEOF]))))) := by
        simp only [spHeader, tSECTION, hh]
        simp only [show ¬((0 : Nat) = 0 ∧ "SECTION" = "ENDSEC") by decide, if_false,
          show ¬((0 : Nat) = 2 ∧ (-1 : Int) = 0 ∧ "SECTION" ≠ "HEADER") by decide,
          show ¬((2 : Nat) = 0 ∧ "HEADER" = "ENDSEC") by decide]
        simp only [ne_eq, not_true_eq_false, and_false, if_false]
        have e2 : ((2 : Nat) : Int) = 2 := rfl
        rw [e2]; exact h1
      rw [h0]
      have h2 := compile_suffix cfg (tSECTION :: ⟨2, s.name⟩ :: (s.body ++ [tENDSEC]))
        (pre'.flatMap renderSec ++
          (tSECTION :: ⟨2, "ENTITIES"⟩ :: (flatEnts es ++ (tENDSEC :: (post.flatMap renderSec ++ [tEOF])))))
        (by simpa using hC)
      simp only [Bool.false_eq_true, if_false]
      rw [h2]
      obtain ⟨pc2, pv2, h3⟩ := spOutside_secs cfg flush pre' hpre'
        (renderSec ⟨"ENTITIES", flatEnts es⟩ ++ (post.flatMap renderSec ++ [tEOF])) pc' ""
      simp only [renderSec, List.cons_append, List.append_assoc, List.nil_append] at h3
      rw [h3]
      have h4 := spOutside_entities cfg flush (flatEnts es) (post.flatMap renderSec ++ [tEOF]) pc2 pv2
      simp only [renderSec, List.cons_append, List.append_assoc, List.nil_append] at h4
      rw [h4]
      exact spInside_file cfg flush es hg _
    · have h0 : spHeader (-1) (tSECTION :: ⟨2, s.name⟩ :: (s.body ++ (tENDSEC :: (pre'.flatMap renderSec ++
          (tSECTION :: ⟨2, "ENTITIES"⟩ :: (flatEnts es ++ (tENDSEC :: (post.flatMap renderSec ++ [tEOF])))))))) =
          .ok (false, 0, s.body ++ (tENDSEC :: (pre'.flatMap renderSec ++
            (tSECTION :: ⟨2, "ENTITIES"⟩ :: (flatEnts es ++ (tENDSEC :: (post.flatMap renderSec ++ [tEOF])))))))  := by
        simp [spHeader, tSECTION, hh, hsn]
      rw [h0]
      have h2 := compile_suffix cfg [tSECTION, ⟨2, s.name⟩]
        (s.body ++ (tENDSEC :: (pre'.flatMap renderSec ++
          (tSECTION :: ⟨2, "ENTITIES"⟩ :: (flatEnts es ++ (tENDSEC :: (post.flatMap renderSec ++ [tEOF])))))))
        (by simpa using hC)
      simp only [Bool.false_eq_true, if_false]
      rw [h2, spOutside_rest cfg flush s.body _ hsb 0 "" (by simp)]
      obtain ⟨pc2, pv2, h3⟩ := spOutside_secs cfg flush pre' hpre'
        (renderSec ⟨"ENTITIES", flatEnts es⟩ ++ (post.flatMap renderSec ++ [tEOF])) 0 "ENDSEC"
      simp only [renderSec, List.cons_append, List.append_assoc, List.nil_append] at h3
      rw [h3]
      have h4 := spOutside_entities cfg flush (flatEnts es) (post.flatMap renderSec ++ [tEOF]) pc2 pv2
      simp only [renderSec, List.cons_append, List.append_assoc, List.nil_append] at h4
      rw [h4]
      exact spInside_file cfg flush es hg _

/-! ### the section without its last group, as an entity list -/

theorem groups_ne_nil (e : Ent) : e.groups ≠ [] := by simp [Ent.groups]

theorem groups_dropLast_ent (e : Ent) : e.groups.dropLast = e.dropLast.toList.flatMap Ent.groups := by
  obtain ⟨main, subs, seqend⟩ := e
  cases seqend with
  | some q =>
    simp only [Ent.groups, Ent.dropLast, Option.toList_some, List.flatMap_cons, List.flatMap_nil, List.append_nil,
      Option.toList_none]
    rw [show main :: (subs ++ [q]) = (main :: subs) ++ [q] by simp, List.dropLast_concat]
  | none =>
    cases subs with
    | nil => simp [Ent.groups, Ent.dropLast]
    | cons s r =>
      simp only [Ent.groups, Ent.dropLast, Option.toList_none, List.append_nil, List.isEmpty_cons, Bool.false_eq_true,
        if_false, Option.toList_some, List.flatMap_cons, List.flatMap_nil]
      rw [List.dropLast_cons_of_ne_nil (by simp)]

theorem flatMap_groups_ne_nil (e : Ent) (r : List Ent) : (e :: r).flatMap Ent.groups ≠ [] := by
  simp [Ent.groups]

theorem flatMap_dropLast (es : List Ent) :
    (es.flatMap Ent.groups).dropLast = (dropLastGroup es).flatMap Ent.groups := by
  induction es with
  | nil => simp [dropLastGroup]
  | cons e r ih =>
    cases r with
    | nil => simpa [dropLastGroup] using groups_dropLast_ent e
    | cons e2 r2 =>
      rw [List.flatMap_cons, List.dropLast_append_of_ne_nil (flatMap_groups_ne_nil e2 r2), ih]
      simp [dropLastGroup]

theorem EntsWF_cons (cfg : Cfg) (e : Ent) (r : List Ent) (h1 : entWF cfg e = true) (h2 : e.isOpen cfg = false)
    (h3 : EntsWF cfg r = true) : EntsWF cfg (e :: r) = true := by
  cases r with
  | nil => simpa [EntsWF] using h1
  | cons e2 r2 => simp [EntsWF, h1, h2, h3]

theorem entWF_dropLast (cfg : Cfg) (e : Ent) (h : entWF cfg e = true) : ∀ e' ∈ e.dropLast, entWF cfg e' = true := by
  obtain ⟨main, subs, seqend⟩ := e
  intro e' he'
  simp only [entWF] at h
  cases hexp : expects cfg main with
  | none =>
    simp only [hexp, Bool.and_eq_true, List.isEmpty_iff, Option.isNone_iff_eq_none] at h
    obtain ⟨h1, h2⟩ := h
    subst h1; subst h2
    simp [Ent.dropLast] at he'
  | some exp =>
    simp only [hexp, Bool.and_eq_true, List.all_eq_true] at h
    cases seqend with
    | some q =>
      simp only [Ent.dropLast, Option.mem_def, Option.some.injEq] at he'
      subst he'
      simp only [entWF, hexp, Bool.and_true, List.all_eq_true]
      exact h.1
    | none =>
      simp only [Ent.dropLast, Option.mem_def] at he'
      split at he'
      · simp at he'
      · simp only [Option.some.injEq] at he'
        subst he'
        simp only [entWF, hexp, Bool.and_true, List.all_eq_true]
        exact fun x hx => h.1 x (List.dropLast_subset _ hx)

theorem EntsWF_dropLast (cfg : Cfg) (es : List Ent) (h : EntsWF cfg es = true) :
    EntsWF cfg (dropLastGroup es) = true := by
  induction es with
  | nil => simp [dropLastGroup, EntsWF]
  | cons e r ih =>
    cases r with
    | nil =>
      simp only [EntsWF] at h
      simp only [dropLastGroup]
      cases hd : e.dropLast with
      | none => simp [EntsWF]
      | some e' => simpa [EntsWF] using entWF_dropLast cfg e h e' (by simp [hd])
    | cons e2 r2 =>
      simp only [EntsWF, Bool.and_eq_true, Bool.not_eq_true'] at h
      simp only [dropLastGroup]
      exact EntsWF_cons cfg e _ h.1.1 h.1.2 (ih h.2)

theorem entGroupsOK_iff (es : List Ent) :
    entGroupsOK es = true ↔ ∀ g ∈ es.flatMap Ent.groups,
      (groupOK g && dxftype g != "SECTION" && dxftype g != "ENDSEC" && dxftype g != "EOF") = true := by
  simp only [entGroupsOK, List.all_eq_true, List.mem_flatMap]
  constructor
  · rintro h g ⟨e, he, hg⟩; exact h e he g hg
  · intro h e he g hg; exact h g ⟨e, he, hg⟩

theorem entGroupsOK_dropLast (es : List Ent) (h : entGroupsOK es = true) : entGroupsOK (dropLastGroup es) = true := by
  rw [entGroupsOK_iff] at h ⊢
  intro g hg
  rw [← flatMap_dropLast] at hg
  exact h g (List.dropLast_subset _ hg)

/-! ## `group_tags` -/

theorem takeWhile_all {α : Type} (p : α → Bool) (l : List α) (h : ∀ x ∈ l, p x = true) : l.takeWhile p = l := by
  induction l with
  | nil => rfl
  | cons a r ih => simp [List.takeWhile, h a (by simp), ih (fun x hx => h x (by simp [hx]))]

theorem dropWhile_all {α : Type} (p : α → Bool) (l : List α) (h : ∀ x ∈ l, p x = true) : l.dropWhile p = [] := by
  induction l with
  | nil => rfl
  | cons a r ih => simp [List.dropWhile, h a (by simp), ih (fun x hx => h x (by simp [hx]))]

theorem takeDrop_nz_append (r b : List Tag) (hb : ∀ t ∈ b.head?, t.code = 0) :
    (r ++ b).takeWhile nz = r.takeWhile nz ∧ (r ++ b).dropWhile nz = r.dropWhile nz ++ b := by
  induction r with
  | nil =>
    cases b with
    | nil => simp
    | cons t b' =>
      have : nz t = false := by simp [nz, hb t (by simp)]
      simp [List.takeWhile, List.dropWhile, this]
  | cons x r ih =>
    cases hx : nz x <;> simp [List.takeWhile, List.dropWhile, hx, ih.1, ih.2]

theorem groupTags_append (a b : List Tag) (hb : ∀ t ∈ b.head?, t.code = 0) :
    groupTags (a ++ b) = groupTags a ++ groupTags b := by
  fun_induction groupTags a with
  | case1 => simp
  | case2 t r h0 ih =>
    have ⟨h1, h2⟩ := takeDrop_nz_append r b hb
    rw [List.cons_append, groupTags, if_pos h0, h1, h2, ih]
    simp
  | case3 t r h0 ih =>
    rw [List.cons_append, groupTags, if_neg h0, ih]

theorem groupTags_cons0 (t : Tag) (r : List Tag) (h : t.code = 0) :
    groupTags (t :: r) = (t :: r.takeWhile nz) :: groupTags (r.dropWhile nz) := by
  rw [groupTags, if_pos h]

theorem groupTags_single (g : Group) (h : groupOK g = true) : groupTags g = [g] := by
  obtain ⟨t, ts, rfl, h0, hts⟩ := groupOK_cons g h
  rw [groupTags_cons0 t ts h0]
  have h1 : ts.takeWhile nz = ts := takeWhile_all nz ts hts
  have h2 : ts.dropWhile nz = [] := dropWhile_all nz ts hts
  rw [h1, h2]; simp [groupTags]

theorem flatten_head0 (gs : List Group) (hg : ∀ g ∈ gs, groupOK g = true) : ∀ t ∈ gs.flatten.head?, t.code = 0 := by
  cases gs with
  | nil => simp
  | cons g r =>
    obtain ⟨t, ts, rfl, h0, _⟩ := groupOK_cons g (hg g (by simp))
    simp [h0]

theorem groupTags_flatten (gs : List Group) (hg : ∀ g ∈ gs, groupOK g = true) : groupTags gs.flatten = gs := by
  induction gs with
  | nil => simp [groupTags]
  | cons g r ih =>
    have hr : ∀ x ∈ r, groupOK x = true := fun x hx => hg x (by simp [hx])
    rw [List.flatten_cons, groupTags_append g r.flatten (flatten_head0 r hr), groupTags_single g (hg g (by simp)), ih hr]
    simp

theorem groupTags_mem (l : List Tag) : ∀ g ∈ groupTags l, ∃ t ts, g = t :: ts ∧ t ∈ l ∧ t.code = 0 := by
  fun_induction groupTags l with
  | case1 => simp
  | case2 t r h0 ih =>
    intro g hg
    simp only [List.mem_cons] at hg
    rcases hg with rfl | hg
    · exact ⟨t, _, rfl, by simp, h0⟩
    · obtain ⟨t', ts, h1, h2, h3⟩ := ih g hg
      exact ⟨t', ts, h1, List.mem_cons_of_mem _ ((List.dropWhile_sublist _).subset h2), h3⟩
  | case3 t r h0 ih =>
    intro g hg
    obtain ⟨t', ts, h1, h2, h3⟩ := ih g hg
    exact ⟨t', ts, h1, List.mem_cons_of_mem _ h2, h3⟩

theorem groupTags_renderSec (s : Section) (more : List Tag) (hm : ∀ t ∈ more.head?, t.code = 0) :
    groupTags (renderSec s ++ more) =
      (tSECTION :: ⟨2, s.name⟩ :: s.body.takeWhile nz) :: (groupTags (s.body.dropWhile nz) ++ [tENDSEC] :: groupTags more) := by
  have hb : ∀ t ∈ (tENDSEC :: more).head?, t.code = 0 := by simp [tENDSEC]
  have ⟨h1, h2⟩ := takeDrop_nz_append s.body (tENDSEC :: more) hb
  simp only [renderSec, List.cons_append, List.append_assoc, List.nil_append]
  rw [groupTags_cons0 tSECTION _ rfl]
  have hn : nz ⟨2, s.name⟩ = true := by simp [nz]
  simp only [List.takeWhile, List.dropWhile, hn]
  rw [h1, h2, groupTags_append _ _ hb, groupTags_cons0 tENDSEC more rfl]
  have h3 : more.takeWhile nz = [] := by
    cases more with
    | nil => rfl
    | cons t r => have : nz t = false := by simp [nz, hm t (by simp)]
                  simp [List.takeWhile, this]
  have h4 : more.dropWhile nz = more := by
    cases more with
    | nil => rfl
    | cons t r => have : nz t = false := by simp [nz, hm t (by simp)]
                  simp [List.dropWhile, this]
  rw [h3, h4]

/-! ## strict reader: `load_dxf_structure` on a rendered file -/

theorem dictGet_dictSet_eq {β : Type} (d : List (String × β)) (k : String) (v : β) : dictGet (dictSet d k v) k = some v := by
  induction d with
  | nil => simp [dictSet, dictGet]
  | cons p r ih =>
    obtain ⟨k', v'⟩ := p
    by_cases h : k' = k <;> simp [dictSet, dictGet, h, ih]

theorem dictGet_dictSet_ne {β : Type} (d : List (String × β)) (k k2 : String) (v : β) (hne : k ≠ k2) :
    dictGet (dictSet d k v) k2 = dictGet d k2 := by
  induction d with
  | nil => simp [dictSet, dictGet, hne]
  | cons p r ih =>
    obtain ⟨k', v'⟩ := p
    by_cases h : k' = k
    · subst h; simp [dictSet, dictGet, hne]
    · by_cases h2 : k' = k2
      · subst h2; simp [dictSet, dictGet, h]
      · simp [dictSet, dictGet, h, h2, ih]

/-- a group that neither opens nor closes a section nor ends the file -/
def plainGroup (g : Group) : Prop := ∃ t ts, g = t :: ts ∧ t ≠ tSECTION ∧ t ≠ tENDSEC ∧ t ≠ tEOF

theorem sLoop_mids (mids more : List Group) (hm : ∀ g ∈ mids, plainGroup g) (d : List (String × List Group))
    (sect : List Group) (eof : Bool) :
    sLoop ⟨d, sect, eof⟩ (mids ++ more) = sLoop ⟨d, sect ++ mids, eof⟩ more := by
  induction mids generalizing sect with
  | nil => simp
  | cons g r ih =>
    obtain ⟨t, ts, rfl, h1, h2, h3⟩ := hm g (by simp)
    simp only [List.cons_append, sLoop, sStep, h1, h2, h3, if_false]
    rw [ih (fun x hx => hm x (by simp [hx]))]
    simp

theorem sLoop_section (name : String) (hd : List Tag) (mids more : List Group) (hm : ∀ g ∈ mids, plainGroup g)
    (d : List (String × List Group)) (eof : Bool) :
    sLoop ⟨d, [], eof⟩ ((tSECTION :: ⟨2, name⟩ :: hd) :: (mids ++ [tENDSEC] :: more)) =
      sLoop ⟨dictSet d name ((tSECTION :: ⟨2, name⟩ :: hd) :: mids), [], eof⟩ more := by
  simp only [sLoop, sStep, insideSection, if_true, Bool.false_eq_true, if_false]
  rw [sLoop_mids mids _ hm]
  simp [sLoop, sStep, insideSection, tENDSEC, tSECTION]

theorem plain_of_bodyOK (l : List Tag) (hb : bodyOK l = true) : ∀ g ∈ groupTags l, plainGroup g := by
  intro g hg
  obtain ⟨t, ts, rfl, hmem, h0⟩ := groupTags_mem l g hg
  have : ¬(t.code = 0 ∧ (t.val = "SECTION" ∨ t.val = "ENDSEC" ∨ t.val = "EOF")) := by
    simp only [bodyOK, List.all_eq_true] at hb
    have := hb t hmem
    intro ⟨_, hv⟩
    rcases hv with hv | hv | hv <;> simp [h0, hv] at this
  refine ⟨t, ts, rfl, ?_, ?_, ?_⟩ <;> (intro h; subst h; exact this ⟨rfl, by simp [tSECTION, tENDSEC, tEOF]⟩)

theorem bodyOK_dropWhile (l : List Tag) (hb : bodyOK l = true) : bodyOK (l.dropWhile nz) = true := by
  simp only [bodyOK, List.all_eq_true] at *
  exact fun t ht => hb t ((List.dropWhile_sublist _).subset ht)

/-- the sections in front of / behind ENTITIES only add entries of other names to the dict -/
theorem sLoop_secs (secs : List Section) (hs : ∀ s ∈ secs, bodyOK s.body = true ∧ s.name ≠ "ENTITIES")
    (more : List Tag) (hm : ∀ t ∈ more.head?, t.code = 0) (d : List (String × List Group)) (eof : Bool) :
    ∃ d', dictGet d' "ENTITIES" = dictGet d "ENTITIES" ∧
      sLoop ⟨d, [], eof⟩ (groupTags (secs.flatMap renderSec ++ more)) = sLoop ⟨d', [], eof⟩ (groupTags more) := by
  induction secs generalizing d with
  | nil => exact ⟨d, rfl, rfl⟩
  | cons s r ih =>
    obtain ⟨hb, hn⟩ := hs s (by simp)
    have hm' : ∀ t ∈ (r.flatMap renderSec ++ more).head?, t.code = 0 := by
      cases r with
      | nil => simpa using hm
      | cons s2 r2 => simp [renderSec, tSECTION]
    obtain ⟨d', h1, h2⟩ := ih (fun x hx => hs x (by simp [hx]))
      (dictSet d s.name ((tSECTION :: ⟨2, s.name⟩ :: s.body.takeWhile nz) :: groupTags (s.body.dropWhile nz)))
    refine ⟨d', ?_, ?_⟩
    · rw [h1, dictGet_dictSet_ne _ _ _ _ hn]
    · rw [List.flatMap_cons, List.append_assoc, groupTags_renderSec s _ hm',
        sLoop_section s.name _ _ _ (plain_of_bodyOK _ (bodyOK_dropWhile _ hb))]
      exact h2

/-! ## `EntitySection._build` on a well-formed entity list -/

theorem updHead_updHead (f g : Ent → Ent) (l : List Ent) : updHead f (updHead g l) = updHead (fun e => f (g e)) l := by
  cases l <;> simp [updHead]

def BSt.linkSubs (st : BSt) (inMsp : Bool) (subs : List Group) : BSt :=
  if inMsp then { st with msp := updHead (fun e => { e with subs := e.subs ++ subs }) st.msp }
  else { st with psp := updHead (fun e => { e with subs := e.subs ++ subs }) st.psp }

theorem updHead_id (l : List Ent) : updHead (fun e => { e with subs := e.subs ++ [] }) l = l := by
  cases l <;> simp [updHead]

theorem updHead_eta (l : List Ent) :
    updHead (fun e => { main := e.main, subs := e.subs, seqend := e.seqend }) l = l := by
  cases l <;> simp [updHead]

theorem bLoop_subs (cfg : Cfg) (exp : String) (inMsp : Bool) (hexp : exp ≠ "SEQEND")
    (subs more : List Group) (st : BSt) (hl : st.link = some (exp, inMsp))
    (hs : ∀ s ∈ subs, hasType exp s = true) :
    bLoop cfg st (subs ++ more) = bLoop cfg (st.linkSubs inMsp subs) more := by
  induction subs generalizing st with
  | nil =>
    have : st.linkSubs inMsp [] = st := by
      cases st with
      | mk msp psp link => cases inMsp <;> simp [BSt.linkSubs, updHead_eta]
    simp [this]
  | cons s r ih =>
    have hty : dxftype s = exp := (hasType_iff exp s).mp (hs s (by simp))
    have hne : dxftype s ≠ "SEQEND" := by rw [hty]; exact hexp
    simp only [List.cons_append, bLoop, bStep, hl, hne, if_false]
    simp only [hty, if_true]
    cases inMsp with
    | true =>
      simp only [if_true]
      rw [ih _ (by simpa using hl) (fun x hx => hs x (by simp [hx]))]
      congr 1
      cases st with
      | mk msp psp link => simp only [] at hl; subst hl; simp [BSt.linkSubs, updHead_updHead, Ent.addSub]
    | false =>
      simp only [Bool.false_eq_true, if_false]
      rw [ih _ (by simpa using hl) (fun x hx => hs x (by simp [hx]))]
      congr 1
      cases st with
      | mk msp psp link => simp only [] at hl; subst hl; simp [BSt.linkSubs, updHead_updHead, Ent.addSub]

def bEnt (cfg : Cfg) (st : BSt) (e : Ent) : BSt :=
  let link' : LinkSt := if e.isOpen cfg then (expects cfg e.main).map (fun exp => (exp, !cfg.pspS e.main)) else none
  if cfg.pspS e.main then { st with psp := e :: st.psp, link := link' }
  else { st with msp := e :: st.msp, link := link' }

theorem bLoop_ent (cfg : Cfg) (e : Ent) (hwf : entWF cfg e = true) (more : List Group) (st : BSt)
    (hl : st.link = none) :
    bLoop cfg st (e.groups ++ more) = bLoop cfg (bEnt cfg st e) more := by
  obtain ⟨main, subs, seqend⟩ := e
  simp only [entWF] at hwf
  cases hexp : expects cfg main with
  | none =>
    simp only [hexp, Bool.and_eq_true, List.isEmpty_iff, Option.isNone_iff_eq_none] at hwf
    obtain ⟨h1, h2⟩ := hwf
    subst h1; subst h2
    simp only [Ent.groups, Option.toList_none, List.append_nil, List.cons_append, List.nil_append, bLoop, bStep, hl,
      hexp, Option.map_none]
    cases hp : cfg.pspS main <;> simp [bEnt, hp, Ent.isOpen, hexp, Ent.single]
  | some exp =>
    simp only [hexp, Bool.and_eq_true, List.all_eq_true] at hwf
    obtain ⟨hsubs, hseq⟩ := hwf
    have hexpne := expects_ne_seqend cfg main exp hexp
    simp only [Ent.groups, List.cons_append, bLoop, bStep, hl, hexp, Option.map_some]
    cases hp : cfg.pspS main with
    | true =>
      simp only [if_true, List.append_assoc]
      rw [bLoop_subs cfg exp false hexpne subs _ _ rfl hsubs]
      cases seqend with
      | none => simp [BSt.linkSubs, bEnt, hp, Ent.isOpen, hexp, updHead, Ent.single]
      | some q =>
        have hq : dxftype q = "SEQEND" := (hasType_iff _ _).mp hseq
        simp [bLoop, bStep, BSt.linkSubs, hq, bEnt, hp, Ent.isOpen, hexp, updHead, Ent.single, Ent.setSeqend]
    | false =>
      simp only [Bool.false_eq_true, if_false, List.append_assoc, Bool.not_false]
      rw [bLoop_subs cfg exp true hexpne subs _ _ rfl hsubs]
      cases seqend with
      | none => simp [BSt.linkSubs, bEnt, hp, Ent.isOpen, hexp, updHead, Ent.single]
      | some q =>
        have hq : dxftype q = "SEQEND" := (hasType_iff _ _).mp hseq
        simp [bLoop, bStep, BSt.linkSubs, hq, bEnt, hp, Ent.isOpen, hexp, updHead, Ent.single, Ent.setSeqend]

theorem bLoop_ents (cfg : Cfg) (es : List Ent) (hwf : EntsWF cfg es = true) (st : BSt) (hl : st.link = none) :
    ∃ st', bLoop cfg st (es.flatMap Ent.groups) = .ok st' ∧
      st'.msp.reverse = st.msp.reverse ++ es.filter (fun e => !cfg.pspS e.main) := by
  induction es generalizing st with
  | nil => exact ⟨st, rfl, by simp⟩
  | cons e r ih =>
    have hmsp : (bEnt cfg st e).msp.reverse = st.msp.reverse ++ [e].filter (fun e => !cfg.pspS e.main) := by
      unfold bEnt; cases hp : cfg.pspS e.main <;> simp [hp]
    cases r with
    | nil =>
      simp only [EntsWF] at hwf
      refine ⟨bEnt cfg st e, ?_, hmsp⟩
      have := bLoop_ent cfg e hwf [] st hl
      simpa [bLoop] using this
    | cons e2 r2 =>
      simp only [EntsWF, Bool.and_eq_true, Bool.not_eq_true'] at hwf
      obtain ⟨⟨h1, h2⟩, h3⟩ := hwf
      have hl' : (bEnt cfg st e).link = none := by
        unfold bEnt; cases cfg.pspS e.main <;> simp [h2]
      obtain ⟨st', hq, hf⟩ := ih h3 (bEnt cfg st e) hl'
      refine ⟨st', ?_, ?_⟩
      · rw [List.flatMap_cons, bLoop_ent cfg e h1 _ st hl]; exact hq
      · rw [hf, hmsp, List.append_assoc, ← List.filter_append]; rfl

theorem buildMsp_ents (cfg : Cfg) (es : List Ent) (hwf : EntsWF cfg es = true) :
    buildMsp cfg (es.flatMap Ent.groups) = .ok (es.filter (fun e => !cfg.pspS e.main)) := by
  obtain ⟨st', h1, h2⟩ := bLoop_ents cfg es hwf ⟨[], [], none⟩ rfl
  simp only [buildMsp, h1, h2]
  simp

theorem takeDrop_head0 (l : List Tag) (h : ∀ t ∈ l.head?, t.code = 0) : l.takeWhile nz = [] ∧ l.dropWhile nz = l := by
  cases l with
  | nil => exact ⟨rfl, rfl⟩
  | cons t r =>
    have : nz t = false := by simp [nz, h t (by simp)]
    simp [List.takeWhile, List.dropWhile, this]

theorem plain_of_entGroupsOK (es : List Ent) (hg : entGroupsOK es = true) :
    ∀ g ∈ es.flatMap Ent.groups, plainGroup g := by
  intro g hgm
  obtain ⟨hok, h1, h2, h3⟩ := entGroupsOK_mem es hg g hgm
  obtain ⟨t, ts, rfl, _, _⟩ := groupOK_cons g hok
  simp only [dxftype] at h1 h2 h3
  refine ⟨t, ts, rfl, ?_, ?_, ?_⟩ <;> (intro h; subst h; simp [tSECTION, tENDSEC, tEOF] at h1 h2 h3)

theorem tail_head0 (post : List Section) : ∀ t ∈ (post.flatMap renderSec ++ [tEOF]).head?, t.code = 0 := by
  cases post with
  | nil => simp [tEOF]
  | cons s r => simp [renderSec, tSECTION]

theorem loadStructure_file (pre post : List Section) (es : List Ent)
    (hpre : ∀ s ∈ pre, bodyOK s.body = true ∧ s.name ≠ "ENTITIES")
    (hpost : ∀ s ∈ post, bodyOK s.body = true ∧ s.name ≠ "ENTITIES")
    (hg : entGroupsOK es = true) :
    ∃ d, loadStructure (fileOf pre es post) = .ok d ∧
      dictGet d "ENTITIES" = some ([tSECTION, ⟨2, "ENTITIES"⟩] :: es.flatMap Ent.groups) := by
  have hgo : ∀ g ∈ es.flatMap Ent.groups, groupOK g = true := fun g h => (entGroupsOK_mem es hg g h).1
  have hP := tail_head0 post
  have hE : ∀ t ∈ (renderSec ⟨"ENTITIES", flatEnts es⟩ ++ (post.flatMap renderSec ++ [tEOF])).head?, t.code = 0 := by
    simp [renderSec, tSECTION]
  obtain ⟨d1, _, h1⟩ := sLoop_secs pre hpre _ hE [] false
  have ⟨ht, hd⟩ := takeDrop_head0 (flatEnts es) (flatten_head0 _ hgo)
  obtain ⟨d3, hd3, h3⟩ := sLoop_secs post hpost [tEOF] (by simp [tEOF])
    (dictSet d1 "ENTITIES" ([tSECTION, ⟨2, "ENTITIES"⟩] :: es.flatMap Ent.groups)) false
  refine ⟨d3, ?_, by rw [hd3, dictGet_dictSet_eq]⟩
  unfold loadStructure
  rw [fileOf_eq, h1, groupTags_renderSec _ _ hP]
  simp only [ht, hd]
  rw [show groupTags (flatEnts es) = es.flatMap Ent.groups from groupTags_flatten _ hgo,
    sLoop_section "ENTITIES" [] _ _ (plain_of_entGroupsOK es hg), h3]
  simp [groupTags, tEOF, sLoop, sStep, insideSection, tSECTION, tENDSEC]

theorem strict_ok (cfg : Cfg) (pre post : List Section) (es : List Ent)
    (hpre : ∀ s ∈ pre, bodyOK s.body = true ∧ s.name ≠ "ENTITIES")
    (hpost : ∀ s ∈ post, bodyOK s.body = true ∧ s.name ≠ "ENTITIES")
    (hwf : EntsWF cfg es = true) (hg : entGroupsOK es = true)
    (hA : asciiLoad (fileOf pre es post) = fileOf pre es post)
    (hC : compile cfg (fileOf pre es post) = fileOf pre es post) :
    strictModelspace cfg (fileOf pre es post) = .ok (es.filter (fun e => !cfg.pspS e.main)) := by
  obtain ⟨d, h1, h2⟩ := loadStructure_file pre post es hpre hpost hg
  unfold strictModelspace
  rw [hA, hC, h1]
  simp only [dictModelspace, h2, List.tail_cons]
  exact buildMsp_ents cfg es hwf

/-! ## recover: rebuild_sections / load_section_dict on a rendered file -/

theorem rFold_body (b : List Tag) (hb : bodyOK b = true) (S : List (List Tag)) (c o : List Tag) :
    b.foldl rStep ⟨S, c, true, o⟩ = ⟨S, c ++ b, true, o⟩ := by
  induction b generalizing c with
  | nil => simp
  | cons t r ih =>
    obtain ⟨ht, hr⟩ := bodyOK_cons t r hb
    have h1 : rStep ⟨S, c, true, o⟩ t = ⟨S, c ++ [t], true, o⟩ := by
      unfold rStep
      by_cases h0 : t.code = 0
      · have hs : t.val ≠ "SECTION" := fun h => ht ⟨h0, Or.inl h⟩
        have he : t.val ≠ "ENDSEC" := fun h => ht ⟨h0, Or.inr (Or.inl h)⟩
        have hf : t.val ≠ "EOF" := fun h => ht ⟨h0, Or.inr (Or.inr h)⟩
        simp [h0, hs, he, hf]
      · simp [h0]
    rw [List.foldl_cons, h1, ih hr]
    simp

def secTags (s : Section) : List Tag := tSECTION :: ⟨2, s.name⟩ :: s.body

theorem rFold_sec (s : Section) (hb : bodyOK s.body = true) (more : List Tag) (S : List (List Tag)) (o : List Tag) :
    (renderSec s ++ more).foldl rStep ⟨S, [], false, o⟩ = more.foldl rStep ⟨secTags s :: S, [], false, o⟩ := by
  simp only [renderSec, List.cons_append, List.append_assoc, List.foldl_cons, List.foldl_append, List.nil_append]
  have h1 : rStep ⟨S, [], false, o⟩ tSECTION = ⟨S, [tSECTION], true, o⟩ := by simp [rStep, tSECTION]
  have h2 : rStep ⟨S, [tSECTION], true, o⟩ ⟨2, s.name⟩ = ⟨S, [tSECTION, ⟨2, s.name⟩], true, o⟩ := by simp [rStep]
  rw [h1, h2, rFold_body s.body hb]
  simp [rStep, tENDSEC, secTags]

theorem rFold_secs (secs : List Section) (hb : ∀ s ∈ secs, bodyOK s.body = true) (more : List Tag)
    (S : List (List Tag)) (o : List Tag) :
    (secs.flatMap renderSec ++ more).foldl rStep ⟨S, [], false, o⟩ =
      more.foldl rStep ⟨(secs.map secTags).reverse ++ S, [], false, o⟩ := by
  induction secs generalizing S with
  | nil => simp
  | cons s r ih =>
    rw [List.flatMap_cons, List.append_assoc, rFold_sec s (hb s (by simp)), ih (fun x hx => hb x (by simp [hx]))]
    simp

theorem rebuildSections_render (secs : List Section) (hb : ∀ s ∈ secs, bodyOK s.body = true) :
    rebuildSections (render secs) = secs.map secTags := by
  unfold rebuildSections render
  rw [rFold_secs secs hb]
  simp [rStep, tEOF]

theorem dictGet_append_ne {β : Type} (d : List (String × β)) (k k2 : String) (v : β) (hne : k ≠ k2) :
    dictGet (d ++ [(k, v)]) k2 = dictGet d k2 := by
  induction d with
  | nil => simp [dictGet, hne]
  | cons p r ih => obtain ⟨k', v'⟩ := p; by_cases h : k' = k2 <;> simp [dictGet, h, ih]

theorem dictGet_append_eq {β : Type} (d : List (String × β)) (k : String) (v : β) (hn : dictGet d k = none) :
    dictGet (d ++ [(k, v)]) k = some v := by
  induction d with
  | nil => simp [dictGet]
  | cons p r ih =>
    obtain ⟨k', v'⟩ := p
    by_cases h : k' = k
    · simp [dictGet, h] at hn
    · simp only [dictGet, h, if_false] at hn; simp [dictGet, h, ih hn]

theorem merge_other (secs : List Section) (hn : ∀ s ∈ secs, s.name ≠ "ENTITIES") (d : List (String × List Tag)) :
    dictGet (mergeSections d (secs.map secTags)) "ENTITIES" = dictGet d "ENTITIES" := by
  induction secs generalizing d with
  | nil => simp [mergeSections]
  | cons s r ih =>
    have hs := hn s (by simp)
    simp only [List.map_cons, secTags, mergeSections, if_true]
    cases hg : dictGet d s.name with
    | some old => simp only []; rw [ih (fun x hx => hn x (by simp [hx])), dictGet_dictSet_ne _ _ _ _ hs]
    | none => simp only []; rw [ih (fun x hx => hn x (by simp [hx])), dictGet_append_ne _ _ _ _ hs]

theorem merge_file (pre post : List Section) (body : List Tag)
    (hpre : ∀ s ∈ pre, s.name ≠ "ENTITIES") (hpost : ∀ s ∈ post, s.name ≠ "ENTITIES") :
    dictGet (mergeSections [] ((pre ++ ⟨"ENTITIES", body⟩ :: post).map secTags)) "ENTITIES" =
      some (tSECTION :: ⟨2, "ENTITIES"⟩ :: body) := by
  have key : ∀ (pre : List Section) (d : List (String × List Tag)), (∀ s ∈ pre, s.name ≠ "ENTITIES") →
      dictGet d "ENTITIES" = none →
      dictGet (mergeSections d ((pre ++ ⟨"ENTITIES", body⟩ :: post).map secTags)) "ENTITIES" =
        some (tSECTION :: ⟨2, "ENTITIES"⟩ :: body) := by
    intro pre
    induction pre with
    | nil =>
      intro d _ hd
      simp only [List.nil_append, List.map_cons, secTags, mergeSections, if_true, hd]
      rw [merge_other post hpost, dictGet_append_eq _ _ _ hd]
    | cons s r ih =>
      intro d hn hd
      have hs := hn s (by simp)
      simp only [List.cons_append, List.map_cons, secTags, mergeSections, if_true]
      cases hg : dictGet d s.name with
      | some old =>
        simp only []
        exact ih _ (fun x hx => hn x (by simp [hx])) (by rw [dictGet_dictSet_ne _ _ _ _ hs]; exact hd)
      | none =>
        simp only []
        exact ih _ (fun x hx => hn x (by simp [hx])) (by rw [dictGet_append_ne _ _ _ _ hs]; exact hd)
  exact key pre [] hpre rfl

theorem recover_ok (cfg : Cfg) (pre post : List Section) (es : List Ent)
    (hpre : ∀ s ∈ pre, bodyOK s.body = true ∧ s.name ≠ "ENTITIES")
    (hpost : ∀ s ∈ post, bodyOK s.body = true ∧ s.name ≠ "ENTITIES")
    (hwf : EntsWF cfg es = true) (hg : entGroupsOK es = true) (hm : cfg.managed "ENTITIES" = true)
    (hA : asciiLoad (fileOf pre es post) = fileOf pre es post)
    (hC : compileB cfg (fileOf pre es post) = fileOf pre es post) :
    recoverModelspace cfg (fileOf pre es post) = .ok (es.filter (fun e => !cfg.pspS e.main)) := by
  have hgo : ∀ g ∈ es.flatMap Ent.groups, groupOK g = true := fun g h => (entGroupsOK_mem es hg g h).1
  have hbE : bodyOK (flatEnts es) = true := by
    simp only [bodyOK, List.all_eq_true, flatEnts, List.mem_flatten]
    rintro t ⟨g, hgm, ht⟩
    obtain ⟨hok, h1, h2, h3⟩ := entGroupsOK_mem es hg g hgm
    obtain ⟨t0, ts, rfl, h0, hts⟩ := groupOK_cons g hok
    simp only [dxftype] at h1 h2 h3
    rcases List.mem_cons.mp ht with rfl | ht
    · simp [h1, h2, h3]
    · have := nz_code t (hts t ht); simp [this]
  have hall : ∀ s ∈ pre ++ ⟨"ENTITIES", flatEnts es⟩ :: post, bodyOK s.body = true := by
    intro s hs
    rcases List.mem_append.mp hs with h | h
    · exact (hpre s h).1
    · rcases List.mem_cons.mp h with rfl | h
      · exact hbE
      · exact (hpost s h).1
  unfold recoverModelspace
  rw [hA, hC]
  unfold fileOf
  rw [rebuildSections_render _ hall, merge_file pre post _ (fun s h => (hpre s h).2) (fun s h => (hpost s h).2)]
  have ⟨ht, hd⟩ := takeDrop_head0 (flatEnts es) (flatten_head0 _ hgo)
  have hn : nz ⟨2, "ENTITIES"⟩ = true := by simp [nz]
  simp only [hm, if_true]
  rw [groupTags_cons0 tSECTION _ rfl]
  simp only [List.takeWhile, List.dropWhile, hn, ht, hd, List.tail_cons]
  rw [show groupTags (flatEnts es) = es.flatMap Ent.groups from groupTags_flatten _ hgo]
  exact buildMsp_ents cfg es hwf

/-! ## opendxf: fileindex.load on a rendered file -/

theorem addToHead_tail (t : Tag) (es : List IEntry) : (addToHead t es).tail = es.tail := by
  cases es <;> simp [addToHead]

theorem addToHead_ne_nil (t : Tag) (es : List IEntry) (h : es ≠ []) : addToHead t es ≠ [] := by
  cases es with
  | nil => exact absurd rfl h
  | cons e r => simp [addToHead]

theorem addToHead_length (t : Tag) (es : List IEntry) : (addToHead t es).length = es.length := by
  cases es <;> simp [addToHead]

/-- a section body outside of HEADER: new entries are pushed, the previous head entry may grow -/
theorem idx_body_plain (m : Nat) (b more : List Tag) (hb : bodyOK b = true) (hc : ∀ t ∈ b, t.code ≤ m)
    (es : List IEntry) (S : List (String × Nat)) (pc : Int) (pv v : String) (hne : es ≠ [])
    (hp : ¬(pc = 0 ∧ pv = "SECTION")) :
    ∃ Y pc' pv', ¬(pc' = 0 ∧ pv' = "SECTION") ∧ Y ≠ [] ∧
      indexLoop m ⟨es, S, false, pc, pv, v, none⟩ (b ++ more) =
        indexLoop m ⟨Y ++ es.tail, S, false, pc', pv', v, none⟩ more := by
  induction b generalizing es pc pv with
  | nil =>
    cases es with
    | nil => exact absurd rfl hne
    | cons e r => exact ⟨[e], pc, pv, hp, by simp, by simp⟩
  | cons t r ih =>
    obtain ⟨ht, hr⟩ := bodyOK_cons t r hb
    have hcm : ¬(t.code > m) := by have := hc t (by simp); omega
    have hcr : ∀ x ∈ r, x.code ≤ m := fun x hx => hc x (by simp [hx])
    by_cases h0 : t.code = 0
    · have hs : t.val ≠ "SECTION" := fun h => ht ⟨h0, Or.inl h⟩
      have hf : t.val ≠ "EOF" := fun h => ht ⟨h0, Or.inr (Or.inr h)⟩
      obtain ⟨Y, pc', pv', h1, h2, h3⟩ := ih hr hcr (⟨t.val, [t]⟩ :: es) 0 t.val (by simp) (by simp [hs])
      cases es with
      | nil => exact absurd rfl hne
      | cons e r2 =>
        refine ⟨Y ++ [e], pc', pv', h1, by simp, ?_⟩
        rw [List.cons_append, indexLoop, if_neg hcm]
        simp only [h0, Bool.false_eq_true, false_and, if_false, hf, if_true]
        simpa using h3
    · have hnc : ¬(t.code = 2 ∧ pc = 0 ∧ pv = "SECTION") := fun h => hp ⟨h.2.1, h.2.2⟩
      obtain ⟨Y, pc', pv', h1, h2, h3⟩ := ih hr hcr (addToHead t es) (t.code : Int) t.val (addToHead_ne_nil t es hne)
        (by intro h; exact h0 (by exact_mod_cast h.1))
      refine ⟨Y, pc', pv', h1, h2, ?_⟩
      rw [List.cons_append, indexLoop, if_neg hcm]
      simp only [h0, Bool.false_eq_true, false_and, if_false, hnc]
      rw [addToHead_tail] at h3
      exact h3

def lastNotVar (l : List Tag) : Prop := ∀ t, l.getLast? = some t → isVerVar t = false

/-- one tag of the HEADER section that is not the name of `$ACADVER` / `$DWGCODEPAGE` -/
theorem idx_header_plain (m : Nat) (t : Tag) (rest : List Tag) (hnz : nz t = true) (hv : isVerVar t = false)
    (hc : t.code ≤ m) (es : List IEntry) (S : List (String × Nat)) (pc : Int) (pv v : String)
    (hp : ¬(pc = 0 ∧ pv = "SECTION")) :
    ∃ pc' pv', ¬(pc' = 0 ∧ pv' = "SECTION") ∧
      indexLoop m ⟨es, S, true, pc, pv, v, none⟩ (t :: rest) =
        indexLoop m ⟨addToHead t es, S, true, pc', pv', v, none⟩ rest := by
  have hcm : ¬(t.code > m) := by omega
  have h0 : t.code ≠ 0 := nz_code t hnz
  by_cases h9 : t.code = 9
  · have hv1 : t.val ≠ "$ACADVER" := by intro h; simp [isVerVar, h9, h] at hv
    have hv2 : t.val ≠ "$DWGCODEPAGE" := by intro h; simp [isVerVar, h9, h] at hv
    refine ⟨pc, pv, hp, ?_⟩
    rw [indexLoop, if_neg hcm]
    simp [h9, hv1, hv2]
  · have hnc : ¬(t.code = 2 ∧ pc = 0 ∧ pv = "SECTION") := fun h => hp ⟨h.2.1, h.2.2⟩
    refine ⟨(t.code : Int), t.val, by intro h; exact h0 (by exact_mod_cast h.1), ?_⟩
    rw [indexLoop, if_neg hcm]
    simp [h9, h0, hnc]

/-- the HEADER section body: no new entries, `$ACADVER` is picked up -/
theorem idx_body_header (m : Nat) (v : String) (b : List Tag) (more : List Tag) (hnz : ∀ t ∈ b, nz t = true)
    (hl : lastNotVar b) (hc : ∀ t ∈ b, t.code ≤ m)
    (es : List IEntry) (S : List (String × Nat)) (pc : Int) (pv : String) (hne : es ≠ [])
    (hp : ¬(pc = 0 ∧ pv = "SECTION")) :
    ∃ Y pc' pv', ¬(pc' = 0 ∧ pv' = "SECTION") ∧ Y ≠ [] ∧
      indexLoop m ⟨es, S, true, pc, pv, v, none⟩ (b ++ more) =
        indexLoop m ⟨Y ++ es.tail, S, true, pc', pv', hdrVersion v b, none⟩ more := by
  fun_induction hdrVersion v b generalizing es pc pv with
  | case1 v =>
    cases es with
    | nil => exact absurd rfl hne
    | cons e r => exact ⟨[e], pc, pv, hp, by simp, by simp⟩
  | case2 v t =>
    obtain ⟨pc', pv', h1, h2⟩ := idx_header_plain m t more (hnz t (by simp)) (hl t (by simp))
      (hc t (by simp)) es S pc pv v hp
    cases es with
    | nil => exact absurd rfl hne
    | cons e r => exact ⟨[{ e with tags := e.tags ++ [t] }], pc', pv', h1, by simp, by simpa [addToHead] using h2⟩
  | case3 v t x r hvar ih =>
    have hcm : ¬(t.code > m) := by have := hc t (by simp); omega
    have hcx : ¬(x.code > m) := by have := hc x (by simp); omega
    have h9 : t.code = 9 := by simp [isVerVar] at hvar; exact hvar.1
    have hv' : t.val = "$ACADVER" ∨ t.val = "$DWGCODEPAGE" := by simp [isVerVar] at hvar; exact hvar.2
    have hl' : lastNotVar r := by
      intro y hy
      cases r with
      | nil => simp at hy
      | cons a r' => exact hl y (by simpa using hy)
    obtain ⟨Y, pc', pv', h1, h2, h3⟩ := ih (fun y hy => hnz y (by simp [hy])) hl' (fun y hy => hc y (by simp [hy]))
      (addToHead x (addToHead t es)) pc pv (addToHead_ne_nil _ _ (addToHead_ne_nil _ _ hne)) hp
    refine ⟨Y, pc', pv', h1, h2, ?_⟩
    rw [addToHead_tail, addToHead_tail] at h3
    rw [List.cons_append, List.cons_append, indexLoop, if_neg hcm]
    rcases hv' with hv' | hv'
    · simp only [h9, and_self, if_true, hv']
      rw [indexLoop, if_neg hcx]
      simpa [hv'] using h3
    · have hne' : t.val ≠ "$ACADVER" := by rw [hv']; decide
      simp only [h9, and_self, if_true, hv', show ¬("$DWGCODEPAGE" = "$ACADVER") by decide, if_false]
      rw [indexLoop, if_neg hcx]
      simpa [hne'] using h3
  | case4 v t x r hvar ih =>
    have hl' : lastNotVar (x :: r) := by
      intro y hy; exact hl y (by simpa using hy)
    have hvar' : isVerVar t = false := by simpa using hvar
    obtain ⟨pc1, pv1, hp1, h2⟩ := idx_header_plain m t (x :: r ++ more) (hnz t (by simp)) hvar'
      (hc t (by simp)) es S pc pv v hp
    obtain ⟨Y, pc', pv', h1, h2', h3⟩ := ih (fun y hy => hnz y (by simp [hy])) hl' (fun y hy => hc y (by simp [hy]))
      (addToHead t es) pc1 pv1 (addToHead_ne_nil _ _ hne) hp1
    refine ⟨Y, pc', pv', h1, h2', ?_⟩
    rw [addToHead_tail] at h3
    rw [List.cons_append, h2]
    exact h3

def toEntry (g : Group) : IEntry := ⟨dxftype g, g⟩

theorem idx_nzrun (m : Nat) (ts more : List Tag) (hts : ∀ t ∈ ts, nz t = true) (hc : ∀ t ∈ ts, t.code ≤ m)
    (e : IEntry) (es : List IEntry) (S : List (String × Nat)) (pc : Int) (pv v : String)
    (hp : ¬(pc = 0 ∧ pv = "SECTION")) :
    ∃ pc' pv', ¬(pc' = 0 ∧ pv' = "SECTION") ∧
      indexLoop m ⟨e :: es, S, false, pc, pv, v, none⟩ (ts ++ more) =
        indexLoop m ⟨{ e with tags := e.tags ++ ts } :: es, S, false, pc', pv', v, none⟩ more := by
  induction ts generalizing e pc pv with
  | nil => exact ⟨pc, pv, hp, by simp⟩
  | cons t r ih =>
    have hcm : ¬(t.code > m) := by have := hc t (by simp); omega
    have h0 : t.code ≠ 0 := nz_code t (hts t (by simp))
    have hnc : ¬(t.code = 2 ∧ pc = 0 ∧ pv = "SECTION") := fun h => hp ⟨h.2.1, h.2.2⟩
    obtain ⟨pc', pv', h1, h2⟩ := ih (fun x hx => hts x (by simp [hx])) (fun x hx => hc x (by simp [hx]))
      { e with tags := e.tags ++ [t] } (t.code : Int) t.val (by intro h; exact h0 (by exact_mod_cast h.1))
    refine ⟨pc', pv', h1, ?_⟩
    rw [List.cons_append, indexLoop, if_neg hcm]
    simp only [h0, Bool.false_eq_true, false_and, if_false, hnc, addToHead]
    simpa using h2

theorem idx_groups (m : Nat) (gs : List Group)
    (hg : ∀ g ∈ gs, groupOK g = true ∧ dxftype g ≠ "SECTION" ∧ dxftype g ≠ "EOF")
    (hc : ∀ g ∈ gs, ∀ t ∈ g, t.code ≤ m) (more : List Tag)
    (es : List IEntry) (S : List (String × Nat)) (pc : Int) (pv v : String) (hp : ¬(pc = 0 ∧ pv = "SECTION")) :
    ∃ pc' pv', ¬(pc' = 0 ∧ pv' = "SECTION") ∧
      indexLoop m ⟨es, S, false, pc, pv, v, none⟩ (gs.flatten ++ more) =
        indexLoop m ⟨(gs.map toEntry).reverse ++ es, S, false, pc', pv', v, none⟩ more := by
  induction gs generalizing es pc pv with
  | nil => exact ⟨pc, pv, hp, by simp⟩
  | cons g r ih =>
    obtain ⟨hok, hs, hf⟩ := hg g (by simp)
    obtain ⟨t, ts, rfl, h0, hts⟩ := groupOK_cons g hok
    simp only [dxftype] at hs hf
    have hcm : ¬(t.code > m) := by have := hc (t :: ts) (by simp) t (by simp); omega
    obtain ⟨pc1, pv1, hp1, h1⟩ := idx_nzrun m ts (r.flatten ++ more) hts
      (fun x hx => hc (t :: ts) (by simp) x (by simp [hx])) ⟨t.val, [t]⟩ es S 0 t.val v (by simp [hs])
    obtain ⟨pc', pv', hp', h2⟩ := ih (fun x hx => hg x (by simp [hx])) (fun x hx => hc x (by simp [hx]))
      (⟨t.val, t :: ts⟩ :: es) pc1 pv1 hp1
    refine ⟨pc', pv', hp', ?_⟩
    simp only [List.flatten_cons, List.cons_append, List.append_assoc]
    rw [indexLoop, if_neg hcm]
    simp only [h0, Bool.false_eq_true, false_and, if_false, if_true, hf]
    rw [h1]
    simpa [toEntry, dxftype] using h2

/-- a complete section other than ENTITIES -/
theorem idx_sec (m : Nat) (hm : 2 ≤ m) (s : Section) (hb : bodyOK s.body = true) (hc : ∀ t ∈ s.body, t.code ≤ m)
    (hh : s.name = "HEADER" → (∀ t ∈ s.body, nz t = true) ∧ lastNotVar s.body) (more : List Tag)
    (es : List IEntry) (S : List (String × Nat)) (hdr : Bool) (pc : Int) (pv v : String) :
    ∃ Y, indexLoop m ⟨es, S, hdr, pc, pv, v, none⟩ (renderSec s ++ more) =
        indexLoop m ⟨Y ++ es, dictSet S s.name es.length, decide (s.name = "HEADER"), 0, "ENDSEC",
          if s.name = "HEADER" then hdrVersion v s.body else v, none⟩ more := by
  have h0m : ¬((0 : Nat) > m) := by omega
  have h2m : ¬((2 : Nat) > m) := by omega
  simp only [renderSec, List.cons_append, List.append_assoc, List.nil_append]
  rw [indexLoop]
  simp only [tSECTION, h0m, if_false, show ¬((0 : Nat) = 9) by decide, and_false,
    show ¬("SECTION" = "EOF") by decide]
  rw [indexLoop]
  simp only [h2m, if_false, show ¬((2 : Nat) = 9) by decide, and_false, show ¬((2 : Nat) = 0) by decide,
    and_self, if_true, addToHead, List.length_cons, Nat.add_sub_cancel, List.cons_append, List.nil_append]
  by_cases hn : s.name = "HEADER"
  · obtain ⟨hnz, hl⟩ := hh hn
    obtain ⟨Y, pc', pv', _, _, h3⟩ := idx_body_header m v s.body (tENDSEC :: more) hnz hl hc
      (⟨"SECTION", [⟨0, "SECTION"⟩, ⟨2, s.name⟩]⟩ :: es) (dictSet S s.name es.length) 2 s.name (by simp) (by simp)
    refine ⟨⟨"ENDSEC", [tENDSEC]⟩ :: Y, ?_⟩
    simp only [hn, decide_true, if_true] at h3 ⊢
    rw [h3, indexLoop]
    simp [tENDSEC, h0m]
  · obtain ⟨Y, pc', pv', _, _, h3⟩ := idx_body_plain m s.body (tENDSEC :: more) hb hc
      (⟨"SECTION", [⟨0, "SECTION"⟩, ⟨2, s.name⟩]⟩ :: es) (dictSet S s.name es.length) 2 s.name v (by simp) (by simp)
    refine ⟨⟨"ENDSEC", [tENDSEC]⟩ :: Y, ?_⟩
    simp only [hn, decide_false, if_false] at h3 ⊢
    rw [h3, indexLoop]
    simp [tENDSEC, h0m]

/-- what fileindex.load needs of a section that is not ENTITIES -/
def idxSecOK (m : Nat) (s : Section) : Prop :=
  bodyOK s.body = true ∧ (∀ t ∈ s.body, t.code ≤ m) ∧ s.name ≠ "ENTITIES" ∧
    (s.name = "HEADER" → (∀ t ∈ s.body, nz t = true) ∧ lastNotVar s.body)

def verFold (v : String) (secs : List Section) : String :=
  secs.foldl (fun v s => if s.name = "HEADER" then hdrVersion v s.body else v) v

theorem dictSet_isSome {β : Type} (d : List (String × β)) (k k2 : String) (v : β)
    (h : (dictGet d k2).isSome = true ∨ k = k2) : (dictGet (dictSet d k v) k2).isSome = true := by
  by_cases hk : k = k2
  · subst hk; rw [dictGet_dictSet_eq]; rfl
  · rw [dictGet_dictSet_ne _ _ _ _ hk]
    rcases h with h | h
    · exact h
    · exact absurd h hk

theorem idx_secs (m : Nat) (hm : 2 ≤ m) (secs : List Section) (hs : ∀ s ∈ secs, idxSecOK m s) (more : List Tag)
    (es : List IEntry) (S : List (String × Nat)) (hdr : Bool) (pc : Int) (pv v : String) :
    ∃ Y S' hdr' pc' pv', indexLoop m ⟨es, S, hdr, pc, pv, v, none⟩ (secs.flatMap renderSec ++ more) =
        indexLoop m ⟨Y ++ es, S', hdr', pc', pv', verFold v secs, none⟩ more ∧
      dictGet S' "ENTITIES" = dictGet S "ENTITIES" ∧
      ((dictGet S "OBJECTS").isSome = true ∨ (∃ s ∈ secs, s.name = "OBJECTS") → (dictGet S' "OBJECTS").isSome = true) := by
  induction secs generalizing es S hdr pc pv v with
  | nil => exact ⟨[], S, hdr, pc, pv, by simp [verFold], rfl, by simp⟩
  | cons s r ih =>
    obtain ⟨hb, hc, hn, hh⟩ := hs s (by simp)
    obtain ⟨Y1, h1⟩ := idx_sec m hm s hb hc hh (r.flatMap renderSec ++ more) es S hdr pc pv v
    obtain ⟨Y2, S', hdr', pc', pv', h2, h3, h4⟩ := ih (fun x hx => hs x (by simp [hx])) (Y1 ++ es)
      (dictSet S s.name es.length) (decide (s.name = "HEADER")) 0 "ENDSEC"
      (if s.name = "HEADER" then hdrVersion v s.body else v)
    refine ⟨Y2 ++ Y1, S', hdr', pc', pv', ?_, ?_, ?_⟩
    · rw [List.flatMap_cons, List.append_assoc, h1, h2]
      simp [verFold]
    · rw [h3, dictGet_dictSet_ne _ _ _ _ hn]
    · intro h
      apply h4
      rcases h with h | ⟨x, hx, hxn⟩
      · exact Or.inl (dictSet_isSome _ _ _ _ (Or.inl h))
      · rcases List.mem_cons.mp hx with rfl | hx
        · exact Or.inl (dictSet_isSome _ _ _ _ (Or.inr hxn))
        · exact Or.inr ⟨x, hx, hxn⟩

/-- the ENTITIES section: one entry per group -/
theorem idx_entities (m : Nat) (hm : 2 ≤ m) (gs : List Group)
    (hg : ∀ g ∈ gs, groupOK g = true ∧ dxftype g ≠ "SECTION" ∧ dxftype g ≠ "EOF")
    (hc : ∀ g ∈ gs, ∀ t ∈ g, t.code ≤ m) (more : List Tag)
    (es : List IEntry) (S : List (String × Nat)) (hdr : Bool) (pc : Int) (pv v : String) :
    indexLoop m ⟨es, S, hdr, pc, pv, v, none⟩ (renderSec ⟨"ENTITIES", gs.flatten⟩ ++ more) =
      indexLoop m ⟨⟨"ENDSEC", [tENDSEC]⟩ :: ((gs.map toEntry).reverse ++
          (⟨"SECTION", [tSECTION, ⟨2, "ENTITIES"⟩]⟩ :: es)),
        dictSet S "ENTITIES" es.length, false, 0, "ENDSEC", v, none⟩ more := by
  have h0m : ¬((0 : Nat) > m) := by omega
  have h2m : ¬((2 : Nat) > m) := by omega
  simp only [renderSec, List.cons_append, List.append_assoc, List.nil_append]
  rw [indexLoop]
  simp only [tSECTION, h0m, if_false, show ¬((0 : Nat) = 9) by decide, and_false,
    show ¬("SECTION" = "EOF") by decide]
  rw [indexLoop]
  simp only [h2m, if_false, show ¬((2 : Nat) = 9) by decide, and_false, show ¬((2 : Nat) = 0) by decide,
    and_self, if_true, addToHead, List.length_cons, Nat.add_sub_cancel, List.cons_append, List.nil_append,
    show ¬("ENTITIES" = "HEADER") by decide, decide_false]
  obtain ⟨pc', pv', _, h3⟩ := idx_groups m gs hg hc (tENDSEC :: more)
    (⟨"SECTION", [⟨0, "SECTION"⟩, ⟨2, "ENTITIES"⟩]⟩ :: es) (dictSet S "ENTITIES" es.length) 2 "ENTITIES" v (by simp)
  rw [h3, indexLoop]
  simp [tENDSEC, h0m]

theorem idxEnt_groups (cfg : Cfg) (gs : List Group) (hg : ∀ g ∈ gs, g ≠ [] ∧ dxftype g ≠ "ENDSEC") (st : QSt)
    (x : Group) (rest : List IEntry) :
    indexEntities cfg st (gs.map toEntry ++ ⟨"ENDSEC", x⟩ :: rest) = finishR cfg (qLoop cfg st gs) := by
  induction gs generalizing st with
  | nil => simp [indexEntities, finishR, qLoop]
  | cons g r ih =>
    obtain ⟨hne, hns⟩ := hg g (by simp)
    have hr := ih (fun y hy => hg y (by simp [hy]))
    have hnil : List.map toEntry r ++ ⟨"ENDSEC", x⟩ :: rest ≠ [] := by simp
    simp only [List.map_cons, List.cons_append, qLoop]
    rw [indexEntities]
    · simp only [toEntry, hns, if_false]
      by_cases hreq : cfg.req (dxftype g) = true
      · rw [qLoad_req cfg st g hne hreq]
        simp only [hreq, if_true]
        cases hq : qStep cfg st g with
        | error e => simp [finishR]
        | ok st' => simpa using hr st'
      · have hreq' : cfg.req (dxftype g) = false := by simpa using hreq
        rw [qLoad_skip cfg st g hreq']
        simp only [hreq', Bool.false_eq_true, if_false]
        simpa using hr st
    · exact hnil

theorem verFold_append (v : String) (a b : List Section) : verFold v (a ++ b) = verFold (verFold v a) b := by
  simp [verFold, List.foldl_append]

theorem version_fileOf (pre post : List Section) (body : List Tag) :
    Spec.version (pre ++ ⟨"ENTITIES", body⟩ :: post) = verFold (verFold "AC1009" pre) post := by
  simp [Spec.version, verFold, List.foldl_append]

theorem index_ok (cfg : Cfg) (m : Nat) (hm : 2 ≤ m) (pre post : List Section) (es : List Ent)
    (hpre : ∀ s ∈ pre, idxSecOK m s) (hpost : ∀ s ∈ post, idxSecOK m s)
    (hwf : EntsWF cfg es = true) (hg : entGroupsOK es = true) (hr : ReqLinked cfg)
    (hc : ∀ g ∈ es.flatMap Ent.groups, ∀ t ∈ g, t.code ≤ m)
    (hobj : "AC1009" < Spec.version (pre ++ ⟨"ENTITIES", flatEnts es⟩ :: post) →
      ∃ s ∈ pre ++ post, s.name = "OBJECTS") :
    indexModelspace cfg m (fileOf pre es post) = .ok (delivered cfg es) := by
  have hgs : ∀ g ∈ es.flatMap Ent.groups, groupOK g = true ∧ dxftype g ≠ "SECTION" ∧ dxftype g ≠ "EOF" :=
    fun g h => ⟨(entGroupsOK_mem es hg g h).1, (entGroupsOK_mem es hg g h).2.1, (entGroupsOK_mem es hg g h).2.2.2⟩
  have hgs2 : ∀ g ∈ es.flatMap Ent.groups, g ≠ [] ∧ dxftype g ≠ "ENDSEC" :=
    fun g h => ⟨groupOK_ne_nil g (entGroupsOK_mem es hg g h).1, (entGroupsOK_mem es hg g h).2.2.1⟩
  obtain ⟨Y1, S1, hdr1, pc1, pv1, h1, h1e, h1o⟩ := idx_secs m hm pre hpre
    (renderSec ⟨"ENTITIES", flatEnts es⟩ ++ (post.flatMap renderSec ++ [tEOF])) [] [] false (-1) "" "AC1009"
  have h2 := idx_entities m hm (es.flatMap Ent.groups) hgs hc (post.flatMap renderSec ++ [tEOF])
    (Y1 ++ []) S1 hdr1 pc1 pv1 (verFold "AC1009" pre)
  obtain ⟨Y3, S3, hdr3, pc3, pv3, h3, h3e, h3o⟩ := idx_secs m hm post hpost [tEOF]
    (⟨"ENDSEC", [tENDSEC]⟩ :: (((es.flatMap Ent.groups).map toEntry).reverse ++
      (⟨"SECTION", [tSECTION, ⟨2, "ENTITIES"⟩]⟩ :: (Y1 ++ []))))
    (dictSet S1 "ENTITIES" (Y1 ++ []).length) false 0 "ENDSEC" (verFold "AC1009" pre)
  have h0m : ¬((0 : Nat) > m) := by omega
  unfold indexModelspace
  rw [fileOf_eq, h1]
  unfold flatEnts
  rw [h2, h3, indexLoop]
  simp only [tEOF, h0m, if_false, show ¬((0 : Nat) = 9) by decide, and_false, if_true]
  rw [h3e, dictGet_dictSet_eq]
  simp only []
  have hver : ¬("AC1009" < verFold (verFold "AC1009" pre) post ∧ (dictGet S3 "OBJECTS").isNone = true) := by
    rintro ⟨hv, hn⟩
    rw [← version_fileOf pre post (flatEnts es)] at hv
    obtain ⟨s, hs, hsn⟩ := hobj hv
    have : (dictGet S3 "OBJECTS").isSome = true := by
      apply h3o
      rcases List.mem_append.mp hs with h | h
      · left
        apply dictSet_isSome
        left
        exact h1o (Or.inr ⟨s, h, hsn⟩)
      · exact Or.inr ⟨s, h, hsn⟩
    cases hd : dictGet S3 "OBJECTS" <;> simp [hd] at this hn
  rw [if_neg hver]
  have hdrop : (List.reverse (⟨"EOF", [⟨0, "EOF"⟩]⟩ :: (Y3 ++ ⟨"ENDSEC", [tENDSEC]⟩ ::
      (((es.flatMap Ent.groups).map toEntry).reverse ++ (⟨"SECTION", [tSECTION, ⟨2, "ENTITIES"⟩]⟩ :: (Y1 ++ [])))))).drop
        ((Y1 ++ []).length + 1) =
      (es.flatMap Ent.groups).map toEntry ++ ⟨"ENDSEC", [tENDSEC]⟩ :: (Y3.reverse ++ [⟨"EOF", [⟨0, "EOF"⟩]⟩]) := by
    have : List.reverse (⟨"EOF", [⟨0, "EOF"⟩]⟩ :: (Y3 ++ ⟨"ENDSEC", [tENDSEC]⟩ ::
        (((es.flatMap Ent.groups).map toEntry).reverse ++ (⟨"SECTION", [tSECTION, ⟨2, "ENTITIES"⟩]⟩ :: (Y1 ++ []))))) =
        (Y1.reverse ++ [⟨"SECTION", [tSECTION, ⟨2, "ENTITIES"⟩]⟩]) ++
          ((es.flatMap Ent.groups).map toEntry ++ ⟨"ENDSEC", [tENDSEC]⟩ :: (Y3.reverse ++ [⟨"EOF", [⟨0, "EOF"⟩]⟩])) := by
      simp
    rw [this, List.drop_left' (by simp)]
  rw [hdrop, idxEnt_groups cfg _ hgs2, qLoop_result cfg hr es hwf hg]

/-! ## `Spec.link` and `flatMap Ent.groups` are inverse to each other -/

theorem takeWhile_mem {α : Type} (p : α → Bool) (l : List α) : ∀ x ∈ l.takeWhile p, p x = true := by
  induction l with
  | nil => simp
  | cons a r ih =>
    intro x hx
    cases ha : p a with
    | false => simp [List.takeWhile, ha] at hx
    | true =>
      simp only [List.takeWhile, ha, List.mem_cons] at hx
      rcases hx with rfl | hx
      · exact ha
      · exact ih x hx

theorem takeDrop_all_append {α : Type} (p : α → Bool) (a b : List α) (ha : ∀ x ∈ a, p x = true)
    (hb : ∀ x ∈ b.head?, p x = false) : (a ++ b).takeWhile p = a ∧ (a ++ b).dropWhile p = b := by
  induction a with
  | nil =>
    cases b with
    | nil => simp
    | cons x r => simp [List.takeWhile, List.dropWhile, hb x (by simp)]
  | cons x r ih =>
    have := ih (fun y hy => ha y (by simp [hy]))
    simp [List.takeWhile, List.dropWhile, ha x (by simp), this.1, this.2]

theorem LinkOK_some_cons (cfg : Cfg) (g : Group) (rest : List Group) (exp : String) (s : Group) (rest' : List Group)
    (hexp : expects cfg g = some exp) (hd : rest.dropWhile (hasType exp) = s :: rest') :
    LinkOK cfg (g :: rest) = (decide (dxftype s = "SEQEND") && LinkOK cfg rest') := by
  rw [LinkOK]
  split
  · rename_i he; rw [hexp] at he; simp at he
  · rename_i e he
    rw [hexp] at he
    obtain rfl := Option.some.inj he
    split
    · rename_i heq; rw [hd] at heq; simp at heq
    · rename_i s2 r2 heq
      rw [hd] at heq
      obtain ⟨rfl, rfl⟩ := List.cons.inj heq
      rfl

theorem LinkOK_none (cfg : Cfg) (g : Group) (rest : List Group) (hexp : expects cfg g = none) :
    LinkOK cfg (g :: rest) = LinkOK cfg rest := by
  rw [LinkOK]
  split
  · rfl
  · rename_i e he; rw [hexp] at he; simp at he

theorem flatten_link (cfg : Cfg) (gs : List Group) (h : LinkOK cfg gs = true) :
    (Spec.link cfg gs).flatMap Ent.groups = gs ∧ EntsWF cfg (Spec.link cfg gs) = true := by
  fun_induction Spec.link cfg gs with
  | case1 => simp [EntsWF]
  | case2 g rest hexp ih =>
    rw [LinkOK_none cfg g rest hexp] at h
    obtain ⟨h1, h2⟩ := ih h
    refine ⟨by simp [Ent.groups, Ent.single, h1], ?_⟩
    exact EntsWF_cons cfg _ _ (by simp [entWF, Ent.single, hexp]) (by simp [Ent.isOpen, Ent.single, hexp]) h2
  | case3 g rest exp hexp hd =>
    constructor
    · have : rest.takeWhile (hasType exp) = rest := by
        have := @List.takeWhile_append_dropWhile _ (hasType exp) rest
        rw [hd, List.append_nil] at this; exact this
      simp [Ent.groups, this]
    · simp only [EntsWF, entWF, hexp, Bool.and_true, List.all_eq_true]
      exact takeWhile_mem _ _
  | case4 g rest exp hexp s rest' hd hs ih =>
    rw [LinkOK_some_cons cfg g rest exp s rest' hexp hd] at h
    simp only [Bool.and_eq_true] at h
    obtain ⟨h1, h2⟩ := ih h.2
    constructor
    · have := @List.takeWhile_append_dropWhile _ (hasType exp) rest
      rw [hd] at this
      simp only [List.flatMap_cons, Ent.groups, Option.toList_some, h1, List.cons_append, List.append_assoc,
        List.cons.injEq, true_and]
      simpa using this
    · apply EntsWF_cons
      · simp only [entWF, hexp, Bool.and_eq_true, List.all_eq_true]
        exact ⟨takeWhile_mem _ _, (hasType_iff _ _).mpr hs⟩
      · simp [Ent.isOpen]
      · exact h2
  | case5 g rest exp hexp s rest' hd hs ih =>
    rw [LinkOK_some_cons cfg g rest exp s rest' hexp hd] at h
    simp only [Bool.and_eq_true, decide_eq_true_eq] at h
    exact absurd h.1 hs

theorem link_flatten (cfg : Cfg) (es : List Ent) (hwf : EntsWF cfg es = true) :
    Spec.link cfg (es.flatMap Ent.groups) = es := by
  induction es with
  | nil => simp [Spec.link]
  | cons e r ih =>
    have hwe : entWF cfg e = true := by
      cases r with
      | nil => simpa [EntsWF] using hwf
      | cons e2 r2 => simp only [EntsWF, Bool.and_eq_true] at hwf; exact hwf.1.1
    have hrest : r ≠ [] → e.isOpen cfg = false ∧ EntsWF cfg r = true := by
      intro hr
      cases r with
      | nil => exact absurd rfl hr
      | cons e2 r2 => simp only [EntsWF, Bool.and_eq_true, Bool.not_eq_true'] at hwf; exact ⟨hwf.1.2, hwf.2⟩
    obtain ⟨main, subs, seqend⟩ := e
    simp only [entWF] at hwe
    cases hexp : expects cfg main with
    | none =>
      simp only [hexp, Bool.and_eq_true, List.isEmpty_iff, Option.isNone_iff_eq_none] at hwe
      obtain ⟨h1, h2⟩ := hwe
      subst h1; subst h2
      have hr : Spec.link cfg (r.flatMap Ent.groups) = r := by
        cases r with
        | nil => simp [Spec.link]
        | cons e2 r2 => exact ih (hrest (by simp)).2
      simp only [List.flatMap_cons, Ent.groups, Option.toList_none, List.append_nil, List.cons_append, List.nil_append]
      rw [Spec.link]
      simp only [hexp, hr, Ent.single]
    | some exp =>
      simp only [hexp, Bool.and_eq_true, List.all_eq_true] at hwe
      obtain ⟨hsubs, hseq⟩ := hwe
      have hexpne := expects_ne_seqend cfg main exp hexp
      simp only [List.flatMap_cons, Ent.groups, List.cons_append, List.append_assoc]
      cases seqend with
      | none =>
        have hr : r = [] := by
          cases r with
          | nil => rfl
          | cons e2 r2 =>
            have := (hrest (by simp)).1
            simp [Ent.isOpen, hexp] at this
        subst hr
        have ⟨ht, hd⟩ := takeDrop_all_append (hasType exp) subs [] hsubs (by simp)
        simp only [Option.toList_none, List.flatMap_nil, List.append_nil] at ht hd ⊢
        rw [Spec.link]
        simp only [hexp]
        split
        · simp [ht]
        · rename_i s rest' heq; rw [hd] at heq; simp at heq
      | some q =>
        have hq : dxftype q = "SEQEND" := (hasType_iff _ _).mp hseq
        have hqn : hasType exp q = false := by
          cases hh : hasType exp q with
          | false => rfl
          | true => exact absurd ((hasType_iff _ _).mp hh ▸ hq) (by intro h; exact hexpne h)
        have hr : Spec.link cfg (r.flatMap Ent.groups) = r := by
          cases r with
          | nil => simp [Spec.link]
          | cons e2 r2 => exact ih (hrest (by simp)).2
        have ⟨ht, hd⟩ := takeDrop_all_append (hasType exp) subs (q :: r.flatMap Ent.groups) hsubs (by simp [hqn])
        simp only [Option.toList_some, List.cons_append, List.nil_append]
        rw [Spec.link]
        simp only [hexp]
        split
        · rename_i heq; rw [hd] at heq; simp at heq
        · rename_i s rest' heq
          rw [hd] at heq
          obtain ⟨rfl, rfl⟩ := List.cons.inj heq
          simp [hq, ht, hr]

/-! ## from the decidable `FileWF'` to the structured form -/

theorem parseBody_sound (l b r : List Tag) (h : parseBody l = some (b, r)) :
    l = b ++ tENDSEC :: r ∧ bodyOK b = true := by
  induction l generalizing b r with
  | nil => simp [parseBody] at h
  | cons t l ih =>
    simp only [parseBody] at h
    split at h
    · rename_i ht
      simp only [Option.some.injEq, Prod.mk.injEq] at h
      obtain ⟨rfl, rfl⟩ := h
      exact ⟨by simp [ht], by simp [bodyOK]⟩
    · split at h
      · simp at h
      · rename_i hns
        split at h
        · rename_i b' r' heq
          simp only [Option.some.injEq, Prod.mk.injEq] at h
          obtain ⟨rfl, rfl⟩ := h
          obtain ⟨h1, h2⟩ := ih b' r' heq
          refine ⟨by rw [h1]; simp, ?_⟩
          simp only [bodyOK, List.all_cons, Bool.and_eq_true] at h2 ⊢
          refine ⟨?_, h2⟩
          by_cases h0 : t.code = 0
          · have : ¬(t.val = "SECTION" ∨ t.val = "ENDSEC" ∨ t.val = "EOF") := fun hv => hns ⟨h0, hv⟩
            simp only [not_or] at this
            simp [h0, this.1, this.2.1, this.2.2]
          · simp [h0]
        · simp at h

theorem parseFile_sound (f : List Tag) (secs : List Section) (h : parseFile f = some secs) :
    f = render secs ∧ ∀ s ∈ secs, bodyOK s.body = true := by
  fun_induction parseFile f generalizing secs with
  | case1 => simp at h
  | case2 =>
    simp only [Option.some.injEq] at h
    subst h
    simp [render]
  | case3 tail ht => simp at h
  | case4 ht => simp at h
  | case5 n r2 hn b r3 hb hs ih =>
    simp only [Option.map_eq_some_iff] at h
    obtain ⟨secs', h1, rfl⟩ := h
    obtain ⟨h2, h3⟩ := ih secs' h1
    obtain ⟨h4, h5⟩ := parseBody_sound r2 b r3 hb
    constructor
    · have hn' : n = ⟨2, n.val⟩ := by cases n; simp_all
      rw [h4, h2, hn']
      simp [render, renderSec]
    · intro s hsm
      rcases List.mem_cons.mp hsm with rfl | hsm
      · exact h5
      · exact h3 s hsm
  | case6 n r2 hn hb hs => simp at h
  | case7 n r2 hn hs => simp at h
  | case8 t r ht hs => simp at h

theorem splitEnt_sound (secs pre post : List Section) (b : List Tag) (h : splitEnt secs = some (pre, b, post)) :
    secs = pre ++ ⟨"ENTITIES", b⟩ :: post ∧ ∀ s ∈ pre, s.name ≠ "ENTITIES" := by
  induction secs generalizing pre with
  | nil => simp [splitEnt] at h
  | cons s r ih =>
    simp only [splitEnt] at h
    split at h
    · rename_i hn
      simp only [Option.some.injEq, Prod.mk.injEq] at h
      obtain ⟨rfl, rfl, rfl⟩ := h
      cases s; simp_all
    · rename_i hn
      split at h
      · rename_i pre' b' post' heq
        simp only [Option.some.injEq, Prod.mk.injEq] at h
        obtain ⟨rfl, rfl, rfl⟩ := h
        obtain ⟨h1, h2⟩ := ih pre' heq
        refine ⟨by rw [h1]; simp, ?_⟩
        intro x hx
        rcases List.mem_cons.mp hx with rfl | hx
        · exact hn
        · exact h2 x hx
      · simp at h

theorem dropWhile_head {α : Type} (p : α → Bool) (l : List α) : ∀ x ∈ (l.dropWhile p).head?, p x = false := by
  induction l with
  | nil => simp
  | cons a r ih =>
    cases ha : p a with
    | true => simpa [List.dropWhile, ha] using ih
    | false => simp [List.dropWhile, ha]

theorem flatten_groupTags (l : List Tag) (h : ∀ t ∈ l.head?, t.code = 0) :
    (groupTags l).flatten = l ∧ ∀ g ∈ groupTags l, groupOK g = true := by
  fun_induction groupTags l with
  | case1 => simp
  | case2 t r h0 ih =>
    have hd : ∀ x ∈ (r.dropWhile nz).head?, x.code = 0 := by
      intro x hx
      have := dropWhile_head nz r x hx
      simpa [nz] using this
    obtain ⟨h1, h2⟩ := ih hd
    constructor
    · simp only [List.flatten_cons, h1, List.cons_append, List.cons.injEq, true_and]
      exact List.takeWhile_append_dropWhile
    · intro g hg
      rcases List.mem_cons.mp hg with rfl | hg
      · simp only [groupOK, h0, beq_self_eq_true, Bool.true_and, List.all_eq_true]
        exact takeWhile_mem nz r
      · exact h2 g hg
  | case3 t r h0 ih =>
    exact absurd (h t (by simp)) h0

theorem asciiLoad_clean (a : List Tag) (h : ∀ t ∈ a, t.code ≠ 999 ∧ t ≠ tEOF) : asciiLoad (a ++ [tEOF]) = a ++ [tEOF] := by
  induction a with
  | nil => simp [asciiLoad]
  | cons t r ih =>
    obtain ⟨h1, h2⟩ := h t (by simp)
    simp only [List.cons_append, asciiLoad, h2, if_false, h1]
    rw [ih (fun x hx => h x (by simp [hx]))]

theorem render_no_eof (secs : List Section) (hb : ∀ s ∈ secs, bodyOK s.body = true) :
    ∀ t ∈ secs.flatMap renderSec, t ≠ tEOF := by
  intro t ht
  obtain ⟨s, hs, hts⟩ := List.mem_flatMap.mp ht
  simp only [renderSec, List.mem_cons, List.mem_append, List.not_mem_nil, or_false] at hts
  rcases hts with rfl | rfl | hts | rfl
  · simp [tSECTION, tEOF]
  · simp [tEOF]
  · have := hb s hs
    simp only [bodyOK, List.all_eq_true] at this
    have := this t hts
    intro h; subst h; simp [tEOF] at this
  · simp [tENDSEC, tEOF]

theorem specBody_fileOf (pre post : List Section) (body : List Tag) (hpre : ∀ s ∈ pre, s.name ≠ "ENTITIES") :
    Spec.body (pre ++ ⟨"ENTITIES", body⟩ :: post) "ENTITIES" = body := by
  induction pre with
  | nil => simp [Spec.body]
  | cons s r ih =>
    have hs := hpre s (by simp)
    have := ih (fun x hx => hpre x (by simp [hx]))
    simp only [Spec.body, List.cons_append, List.find?_cons, hs, decide_false] at this ⊢
    exact this

structure Bridge (cfg : Cfg) (m : Nat) (f : List Tag) (secs pre : List Section) (es : List Ent)
    (post : List Section) : Prop where
  parse : parseFile f = some secs
  secsEq : secs = pre ++ ⟨"ENTITIES", flatEnts es⟩ :: post
  file : f = fileOf pre es post
  link : Spec.link cfg (Spec.entities secs) = es
  pre_ok : ∀ s ∈ pre, idxSecOK m s
  post_ok : ∀ s ∈ post, idxSecOK m s
  wf : EntsWF cfg es = true
  groups : entGroupsOK es = true
  codes : ∀ g ∈ es.flatMap Ent.groups, ∀ t ∈ g, t.code ≤ m
  ascii : asciiLoad f = f
  comp : compile cfg f = f
  compB : compileB cfg f = f
  managed : cfg.managed "ENTITIES" = true
  objects : "AC1009" < Spec.version secs → ∃ s ∈ pre ++ post, s.name = "OBJECTS"
  pspAgree : ∀ e ∈ es, cfg.pspS e.main = cfg.psp e.main

theorem idxSecOK_of (m : Nat) (s : Section) (hb : bodyOK s.body = true) (h : secOK m s = true) : idxSecOK m s := by
  simp only [secOK, Bool.and_eq_true, bne_iff_ne, Bool.or_eq_true, codesOK, List.all_eq_true, decide_eq_true_eq] at h
  obtain ⟨⟨h1, h2⟩, h3⟩ := h
  refine ⟨hb, h2, h1, ?_⟩
  intro hn
  rcases h3 with h3 | h3
  · exact absurd hn (by simpa using h3)
  · simp only [headerOK, Bool.and_eq_true, List.all_eq_true] at h3
    refine ⟨h3.1, ?_⟩
    intro t ht
    have := h3.2
    rw [ht] at this
    cases hv : isVerVar t with
    | false => rfl
    | true => simp only [isVerVar] at hv; simp [hv] at this

theorem wf_bridge (cfg : Cfg) (m : Nat) (f : List Tag) (h : FileWF' cfg m f = true) :
    ∃ secs pre es post, Bridge cfg m f secs pre es post := by
  unfold FileWF' at h
  split at h
  · simp at h
  · rename_i secs hparse
    split at h
    · simp at h
    · rename_i pre body post hsplit
      simp only [Bool.and_eq_true, List.all_eq_true, beq_iff_eq, Bool.or_eq_true, Bool.not_eq_true',
        decide_eq_false_iff_not, List.any_eq_true, bne_iff_ne] at h
      obtain ⟨⟨⟨⟨⟨⟨⟨⟨⟨hsecs, hcb⟩, h999⟩, hhead⟩, hlink⟩, hpsp⟩, hobj⟩, hcomp⟩, hcompB⟩, hman⟩ := h
      obtain ⟨hf, hbodies⟩ := parseFile_sound f secs hparse
      obtain ⟨hsecsEq, hprene⟩ := splitEnt_sound secs pre post body hsplit
      have hbody : bodyOK body = true := hbodies ⟨"ENTITIES", body⟩ (by rw [hsecsEq]; simp)
      have hhead' : ∀ t ∈ body.head?, t.code = 0 := by
        intro t ht
        cases hb : body.head? with
        | none => rw [hb] at ht; simp at ht
        | some t' => rw [hb] at ht hhead; simp at ht; subst ht; simpa using hhead
      obtain ⟨hflat, hgok⟩ := flatten_groupTags body hhead'
      obtain ⟨hfl, hwf⟩ := flatten_link cfg (groupTags body) hlink
      have hflatEnts : flatEnts (Spec.link cfg (groupTags body)) = body := by
        unfold flatEnts; rw [hfl, hflat]
      have hent : Spec.entities secs = groupTags body := by
        unfold Spec.entities; rw [hsecsEq, specBody_fileOf pre post body hprene]
      refine ⟨secs, pre, Spec.link cfg (groupTags body), post, ?_⟩
      have hpre_ok : ∀ s ∈ pre, idxSecOK m s := fun s hs =>
        idxSecOK_of m s (hbodies s (by rw [hsecsEq]; simp [hs])) (hsecs s (by simp [hs]))
      have hpost_ok : ∀ s ∈ post, idxSecOK m s := fun s hs =>
        idxSecOK_of m s (hbodies s (by rw [hsecsEq]; simp [hs])) (hsecs s (by simp [hs]))
      have hgroups : entGroupsOK (Spec.link cfg (groupTags body)) = true := by
        rw [entGroupsOK_iff, hfl]
        intro g hg
        obtain ⟨t, ts, rfl, hmem, h0⟩ := groupTags_mem body g hg
        have hb := hbody
        simp only [bodyOK, List.all_eq_true] at hb
        have := hb t hmem
        have h1 : t.val ≠ "SECTION" := by intro hv; simp [h0, hv] at this
        have h2 : t.val ≠ "ENDSEC" := by intro hv; simp [h0, hv] at this
        have h3 : t.val ≠ "EOF" := by intro hv; simp [h0, hv] at this
        simp [hgok _ hg, dxftype, h1, h2, h3]
      have hcodes : ∀ g ∈ (Spec.link cfg (groupTags body)).flatMap Ent.groups, ∀ t ∈ g, t.code ≤ m := by
        rw [hfl]
        intro g hg t ht
        have : t ∈ body := by rw [← hflat]; exact List.mem_flatten.mpr ⟨g, hg, ht⟩
        simp only [codesOK, List.all_eq_true, decide_eq_true_eq] at hcb
        exact hcb t this
      have hfile : f = fileOf pre (Spec.link cfg (groupTags body)) post := by
        rw [hf, hsecsEq, fileOf, hflatEnts]
      have hascii : asciiLoad f = f := by
        rw [hf]
        unfold render
        apply asciiLoad_clean
        intro t ht
        refine ⟨?_, render_no_eof secs hbodies t ht⟩
        have := h999 t (by rw [hf]; unfold render; exact List.mem_append_left _ ht)
        exact this
      exact {
        parse := hparse
        secsEq := by rw [hsecsEq, hflatEnts]
        file := hfile
        link := by rw [hent]
        pre_ok := hpre_ok
        post_ok := hpost_ok
        wf := hwf
        groups := hgroups
        codes := hcodes
        ascii := hascii
        comp := hcomp
        compB := hcompB
        managed := hman
        objects := by
          intro hv
          rcases hobj with hobj | ⟨s, hs, hsn⟩
          · exact absurd hv hobj
          · exact ⟨s, hs, hsn⟩
        pspAgree := by
          intro e he
          have : e.main ∈ groupTags body := by
            rw [← hfl]; exact List.mem_flatMap.mpr ⟨e, he, by simp [Ent.groups]⟩
          exact hpsp _ this }

end EzdxfVerif.Readers

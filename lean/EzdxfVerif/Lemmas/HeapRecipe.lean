import EzdxfVerif.Model.HeapRecipe

/-!
Lemmas for the program recipes of C16 (`Model/HeapRecipe.lean`): a recipe table that passes the static check
`partsSafe` against the type table produces, for EVERY well typed source tree, a copy whose references to
existing objects (`sharesO`) all point to values that are harmless to share (`okT`) and that the heap holds.
-/
namespace EzdxfVerif.Heap.Recipe
open EzdxfVerif.Heap

/-- every reference of `t` to an existing object points to a share-free `ok` value that the heap holds -/
def Good (h : Heap) (fro : List Nat) (t : ATree) : Prop :=
  ∀ p ∈ sharesO t, okT fro p.2 = true ∧ noSh p.2 = true ∧ Rep h p.2 (.own p.1)

def GoodL (h : Heap) (fro : List Nat) (ts : List ATree) : Prop :=
  ∀ p ∈ sharesOL ts, okT fro p.2 = true ∧ noSh p.2 = true ∧ Rep h p.2 (.own p.1)

theorem goodL_nil (h : Heap) (fro : List Nat) : GoodL h fro [] := by
  intro p hp; simp [sharesOL] at hp

theorem goodL_cons {h : Heap} {fro : List Nat} {t : ATree} {ts : List ATree}
    (h1 : Good h fro t) (h2 : GoodL h fro ts) : GoodL h fro (t :: ts) := by
  intro p hp
  simp only [sharesOL, List.mem_append] at hp
  rcases hp with hp | hp
  · exact h1 p hp
  · exact h2 p hp

theorem good_node {h : Heap} {fro : List Nat} {a : Nat} {k : Kind} {cs : List ATree}
    (hc : GoodL h fro cs) : Good h fro (.node a k cs) := by
  intro p hp; simp only [sharesO] at hp; exact hc p hp

theorem good_ent {h : Heap} {fro : List Nat} {a c : Nat} {cs : List ATree}
    (hc : GoodL h fro cs) : Good h fro (.ent a c cs) := by
  intro p hp; simp only [sharesO] at hp; exact hc p hp

theorem good_leaf (h : Heap) (fro : List Nat) (v : Int) : Good h fro (.leaf v) := by
  intro p hp; simp [sharesO] at hp

theorem good_navr (h : Heap) (fro : List Nat) (a : Nat) : Good h fro (.navr a) := by
  intro p hp; simp [sharesO] at hp

theorem noSh_sharesO :
    (∀ t, noSh t = true → sharesO t = []) ∧ (∀ ts, noShL ts = true → sharesOL ts = []) := by
  apply deepT.mutual_induct
  · intro v _; simp [sharesO]
  · intro a _; simp [sharesO]
  · intro a o h; simp [noSh] at h
  · intro a k cs ih h; simp only [noSh] at h; simp only [sharesO]; exact ih h
  · intro a c cs ih h; simp only [noSh] at h; simp only [sharesO]; exact ih h
  · intro _; simp [sharesOL]
  · intro t ts h1 h2 h
    simp only [noShL, Bool.and_eq_true] at h
    simp [sharesOL, h1 h.1, h2 h.2]

theorem good_of_noSh {h : Heap} {fro : List Nat} {t : ATree} (hn : noSh t = true) : Good h fro t := by
  intro p hp; rw [noSh_sharesO.1 t hn] at hp; simp at hp

theorem wt_noSh (fro : List Nat) (cty : Nat → List Ty) :
    (∀ t, wt fro cty t = true → noSh t = true) ∧ (∀ ts, wtL fro cty ts = true → noShL ts = true) := by
  apply deepT.mutual_induct
  · intro v _; simp [noSh]
  · intro a _; simp [noSh]
  · intro a o h; simp [wt] at h
  · intro a k cs ih h; simp only [wt] at h; simp only [noSh]; exact ih h
  · intro a c cs ih h
    simp only [wt, Bool.and_eq_true] at h; simp only [noSh]; exact ih h.1
  · intro _; simp [noShL]
  · intro t ts h1 h2 h
    simp only [wtL, Bool.and_eq_true] at h
    simp [noShL, h1 h.1, h2 h.2]

theorem deep_sharesO :
    (∀ t, sharesO (deepT t) = sharesO t) ∧ (∀ ts, sharesOL (deepTs ts) = sharesOL ts) := by
  apply deepT.mutual_induct
  · intro v; simp [deepT]
  · intro a; simp [deepT]
  · intro a o; simp [deepT]
  · intro a k cs ih; simp [deepT, sharesO, ih]
  · intro a c cs ih; simp [deepT, sharesO, ih]
  · simp [deepTs]
  · intro t ts h1 h2; simp [deepTs, sharesOL, h1, h2]

theorem good_deep {h : Heap} {fro : List Nat} {t : ATree} (hn : noSh t = true) : Good h fro (deepT t) := by
  intro p hp; rw [deep_sharesO.1 t, noSh_sharesO.1 t hn] at hp; simp at hp

theorem good_alias {h : Heap} {fro : List Nat} {t : ATree} {r : Ref}
    (hn : noSh t = true) (hok : okT fro t = true) (hr : Rep h t r) : Good h fro (aliasT t) := by
  cases t with
  | leaf v => simpa [aliasT] using good_leaf h fro v
  | navr a => simpa [aliasT] using good_navr h fro a
  | share a o => simp [noSh] at hn
  | node a k cs =>
    intro p hp
    simp only [aliasT, sharesO, List.mem_singleton] at hp
    subst hp
    have hr' := hr
    simp only [Rep] at hr'
    obtain ⟨rfl, _⟩ := hr'
    exact ⟨hok, hn, hr⟩
  | ent a c cs =>
    intro p hp
    simp only [aliasT, sharesO, List.mem_singleton] at hp
    subst hp
    have hr' := hr
    simp only [Rep] at hr'
    obtain ⟨rfl, _⟩ := hr'
    exact ⟨hok, hn, hr⟩

theorem shapeAll_any (fro : List Nat) : ∀ ts, shapeAll fro .any ts = true := by
  intro ts; induction ts with
  | nil => simp [shapeAll]
  | cons t ts ih => simp [shapeAll, shape, ih]

theorem shapeAll_ok (fro : List Nat) : ∀ ts, shapeAll fro .ok ts = okTL fro ts := by
  intro ts; induction ts with
  | nil => simp [shapeAll, okTL]
  | cons t ts ih => simp [shapeAll, okTL, shape, ih]

/-- the namespace copy: the attribute values are passed by reference, so they have to be `ok` -/
theorem good_ns {h : Heap} {fro : List Nat} {t : ATree} {r : Ref}
    (hn : noSh t = true) (hs : shape fro (.coll .ok) t = true) (hr : Rep h t r) : Good h fro (nsT t) := by
  have key : ∀ (cs : List ATree) (rs : List Ref), noShL cs = true → okTL fro cs = true → RepL h cs rs →
      GoodL h fro (cs.map aliasT) := by
    intro cs
    induction cs with
    | nil => intro _ _ _ _; exact goodL_nil h fro
    | cons c cs ih =>
      intro rs hn ho hr
      simp only [noShL, Bool.and_eq_true] at hn
      simp only [okTL, Bool.and_eq_true] at ho
      simp only [RepL] at hr
      obtain ⟨r1, rs', _, hr1, hr2⟩ := hr
      exact goodL_cons (good_alias hn.1 ho.1 hr1) (ih rs' hn.2 ho.2 hr2)
  cases t with
  | leaf v => simpa [nsT] using good_leaf h fro v
  | navr a => simpa [nsT] using good_navr h fro a
  | share a o => simp [noSh] at hn
  | ent a c cs => simpa [nsT] using good_of_noSh (h := h) (fro := fro) hn
  | node a k cs =>
    match cs with
    | [] => simpa [nsT] using good_of_noSh (h := h) (fro := fro) hn
    | [x] => simpa [nsT] using good_of_noSh (h := h) (fro := fro) hn
    | x :: y :: attrs =>
      simp only [nsT]
      apply good_node
      simp only [noSh, noShL, Bool.and_eq_true] at hn
      simp only [shape, shapeAll, Bool.and_eq_true] at hs
      simp only [Rep, RepL] at hr
      obtain ⟨_, rs, _, r1, rs1, _, _, r2, rs2, _, _, hr3⟩ := hr
      apply goodL_cons (good_leaf h fro _)
      apply goodL_cons (good_leaf h fro _)
      have ho : okTL fro attrs = true := by rw [← shapeAll_ok]; exact hs.2.2
      exact key attrs rs2 hn.2.2 ho hr3

/-- roles of an entity against the types of its children -/
def rolesSafe : List RoleP → List Ty → Bool
  | [], _ => true
  | _ :: _, [] => false
  | .ns :: rs, f :: fs => (match f with | .coll .ok => true | _ => false) && rolesSafe rs fs
  | .part pp :: rs, f :: fs => ppolSafe pp f && rolesSafe rs fs
  | _ :: rs, _ :: fs => rolesSafe rs fs

theorem rolesSafe_parts : ∀ (ps : List PPol) (fs : List Ty), partsSafe ps fs = true →
    rolesSafe (ps.map RoleP.part) fs = true := by
  intro ps
  induction ps with
  | nil => intro fs _; simp [rolesSafe]
  | cons p ps ih =>
    intro fs h
    cases fs with
    | nil => simp [partsSafe] at h
    | cons f fs =>
      simp only [partsSafe, Bool.and_eq_true] at h
      simp only [List.map_cons, rolesSafe, Bool.and_eq_true]
      exact ⟨h.1, ih fs h.2⟩

theorem rolesSafe_ent (rc : Nat → List PPol) (cty : Nat → List Ty) (c : Nat)
    (h : partsSafe (rc c) (cty c) = true) : rolesSafe (rolesOfP rc c) (entTys cty c) = true := by
  simp only [rolesOfP, headerRolesP, entTys, headerTys, List.cons_append, List.nil_append, rolesSafe,
    Bool.true_and]
  exact rolesSafe_parts _ _ h

theorem pick_safe {pp : PPol} {f : Ty} (h : ppolSafe pp f = true) (t : ATree) : polSafe (pickP pp t) f = true := by
  cases pp with
  | one p => simpa [pickP, ppolSafe] using h
  | cond c p q =>
    simp only [ppolSafe, Bool.and_eq_true] at h
    simp only [pickP]
    split
    · exact h.1
    · exact h.2

section main
variable (rc : Nat → List PPol) (cty : Nat → List Ty) (g : Nat → ATree) (h : Heap) (fro : List Nat)

/-- statement for one tree -/
def S (t : ATree) : Prop :=
  ∀ (p : Pol) (τ : Ty) (r : Ref), wt fro cty t = true → shape fro τ t = true → polSafe p τ = true →
    Rep h t r → Good h fro (polT rc g p t)

/-- statements for a list of children -/
def SL (ts : List ATree) : Prop :=
  (∀ (p : Pol) (τ : Ty) (rs : List Ref), wtL fro cty ts = true → shapeAll fro τ ts = true →
      polSafe p τ = true → RepL h ts rs → GoodL h fro (eachP rc g p ts)) ∧
  (∀ (ps : List Pol) (fs : List Ty) (rs : List Ref), wtL fro cty ts = true → shapeZip fro fs ts = true →
      zipSafe ps fs = true → RepL h ts rs → GoodL h fro (zipP rc g ps ts)) ∧
  (∀ (roles : List RoleP) (fs : List Ty) (doc : Bool) (src : Nat) (rs : List Ref), wtL fro cty ts = true →
      shapeZip fro fs ts = true → rolesSafe roles fs = true → RepL h ts rs →
      GoodL h fro (kidsP rc g doc src roles ts))

theorem main_aux (hsafe : ∀ c, partsSafe (rc c) (cty c) = true) (hg : ∀ i, Good h fro (g i)) :
    (∀ t, S rc cty g h fro t) ∧ (∀ ts, SL rc cty g h fro ts) := by
  have simple : ∀ (t : ATree) (p : Pol) (τ : Ty) (r : Ref), wt fro cty t = true → shape fro τ t = true →
      polSafe p τ = true → Rep h t r →
      (p = .deep ∨ p = .alias ∨ (∃ c, p = .const c) ∨ (∃ i, p = .gen i)) → Good h fro (polT rc g p t) := by
    intro t p τ r hw hs hp hr hcase
    have hn := (wt_noSh fro cty).1 t hw
    rcases hcase with rfl | rfl | ⟨c, rfl⟩ | ⟨i, rfl⟩
    · simp only [polT]; exact good_deep hn
    · simp only [polT]
      cases τ <;> simp [polSafe] at hp
      simp only [shape] at hs
      exact good_alias hn hs hr
    · simp only [polT]; simp only [polSafe] at hp; exact good_of_noSh hp
    · simp only [polT]; exact hg i
  apply deepT.mutual_induct
  · -- leaf
    intro v p τ r hw hs hp hr
    cases p with
    | deep => exact simple _ _ τ r hw hs hp hr (Or.inl rfl)
    | alias => exact simple _ _ τ r hw hs hp hr (Or.inr (Or.inl rfl))
    | const c => exact simple _ _ τ r hw hs hp hr (Or.inr (Or.inr (Or.inl ⟨c, rfl⟩)))
    | gen i => exact simple _ _ τ r hw hs hp hr (Or.inr (Or.inr (Or.inr ⟨i, rfl⟩)))
    | ents => simpa [polT] using good_leaf h fro v
    | each q => simpa [polT] using good_leaf h fro v
    | fields ps => simpa [polT] using good_leaf h fro v
  · -- navr
    intro a p τ r hw hs hp hr
    cases p with
    | deep => exact simple _ _ τ r hw hs hp hr (Or.inl rfl)
    | alias => exact simple _ _ τ r hw hs hp hr (Or.inr (Or.inl rfl))
    | const c => exact simple _ _ τ r hw hs hp hr (Or.inr (Or.inr (Or.inl ⟨c, rfl⟩)))
    | gen i => exact simple _ _ τ r hw hs hp hr (Or.inr (Or.inr (Or.inr ⟨i, rfl⟩)))
    | ents => simpa [polT] using good_navr h fro a
    | each q => simpa [polT] using good_navr h fro a
    | fields ps => simpa [polT] using good_navr h fro a
  · -- share
    intro a o p τ r hw _ _ _
    simp [wt] at hw
  · -- node
    intro a k cs ih p τ r hw hs hp hr
    obtain ⟨ihE, ihZ, _⟩ := ih
    have hwl : wtL fro cty cs = true := by simpa [wt] using hw
    have hr' := hr
    simp only [Rep] at hr'
    obtain ⟨_, rs, _, hrl⟩ := hr'
    cases p with
    | deep => exact simple _ _ τ r hw hs hp hr (Or.inl rfl)
    | alias => exact simple _ _ τ r hw hs hp hr (Or.inr (Or.inl rfl))
    | const c => exact simple _ _ τ r hw hs hp hr (Or.inr (Or.inr (Or.inl ⟨c, rfl⟩)))
    | gen i => exact simple _ _ τ r hw hs hp hr (Or.inr (Or.inr (Or.inr ⟨i, rfl⟩)))
    | ents =>
      simp only [polT]
      exact good_node (ihE .ents .any rs hwl (shapeAll_any fro cs) (by simp [polSafe]) hrl)
    | each q =>
      simp only [polT]
      apply good_node
      cases τ with
      | any => exact ihE q .any rs hwl (shapeAll_any fro cs) (by simpa [polSafe] using hp) hrl
      | ok =>
        have ho : okTL fro cs = true := by
          simp only [shape, okT, Bool.and_eq_true] at hs; exact hs.2
        exact ihE q .ok rs hwl (by rw [shapeAll_ok]; exact ho) (by simpa [polSafe] using hp) hrl
      | coll τ' =>
        exact ihE q τ' rs hwl (by simpa [shape] using hs) (by simpa [polSafe] using hp) hrl
      | obj fs => simp [polSafe] at hp
    | fields ps =>
      simp only [polT]
      apply good_node
      cases τ with
      | obj fs => exact ihZ ps fs rs hwl (by simpa [shape] using hs) (by simpa [polSafe] using hp) hrl
      | any => simp [polSafe] at hp
      | ok => simp [polSafe] at hp
      | coll τ' => simp [polSafe] at hp
  · -- ent
    intro a c cs ih p τ r hw hs hp hr
    obtain ⟨_, _, ihK⟩ := ih
    have hn := (wt_noSh fro cty).1 _ hw
    have hw' := hw
    simp only [wt, Bool.and_eq_true] at hw'
    have hr' := hr
    simp only [Rep] at hr'
    obtain ⟨_, rs, _, hrl⟩ := hr'
    cases p with
    | deep => exact simple _ _ τ r hw hs hp hr (Or.inl rfl)
    | alias => exact simple _ _ τ r hw hs hp hr (Or.inr (Or.inl rfl))
    | const c => exact simple _ _ τ r hw hs hp hr (Or.inr (Or.inr (Or.inl ⟨c, rfl⟩)))
    | gen i => exact simple _ _ τ r hw hs hp hr (Or.inr (Or.inr (Or.inr ⟨i, rfl⟩)))
    | ents =>
      simp only [polT]
      exact good_ent (ihK _ (entTys cty c) _ _ rs hw'.1 hw'.2 (rolesSafe_ent rc cty c (hsafe c)) hrl)
    | each q => simp only [polT]; exact good_of_noSh hn
    | fields ps => simp only [polT]; exact good_of_noSh hn
  · -- nil
    refine ⟨?_, ?_, ?_⟩
    · intro p τ rs _ _ _ _; simp only [eachP]; exact goodL_nil h fro
    · intro ps fs rs _ _ _ _
      cases ps <;> simp only [zipP] <;> exact goodL_nil h fro
    · intro roles fs doc src rs _ _ _ _
      simp only [kidsP]; exact goodL_nil h fro
  · -- cons
    intro t ts iht ihts
    obtain ⟨ihE, ihZ, ihK⟩ := ihts
    refine ⟨?_, ?_, ?_⟩
    · intro p τ rs hw hs hp hr
      simp only [wtL, Bool.and_eq_true] at hw
      simp only [shapeAll, Bool.and_eq_true] at hs
      simp only [RepL] at hr
      obtain ⟨r1, rs', _, hr1, hr2⟩ := hr
      simp only [eachP]
      exact goodL_cons (iht p τ r1 hw.1 hs.1 hp hr1) (ihE p τ rs' hw.2 hs.2 hp hr2)
    · intro ps fs rs hw hs hp hr
      cases ps with
      | nil => simp only [zipP]; exact goodL_nil h fro
      | cons p ps =>
        cases fs with
        | nil => simp [zipSafe] at hp
        | cons f fs =>
          simp only [wtL, Bool.and_eq_true] at hw
          simp only [shapeZip, Bool.and_eq_true] at hs
          simp only [zipSafe, Bool.and_eq_true] at hp
          simp only [RepL] at hr
          obtain ⟨r1, rs', _, hr1, hr2⟩ := hr
          simp only [zipP]
          exact goodL_cons (iht p f r1 hw.1 hs.1 hp.1 hr1) (ihZ ps fs rs' hw.2 hs.2 hp.2 hr2)
    · intro roles fs doc src rs hw hs hp hr
      simp only [wtL, Bool.and_eq_true] at hw
      simp only [RepL] at hr
      obtain ⟨r1, rs', _, hr1, hr2⟩ := hr
      have hn := (wt_noSh fro cty).1 t hw.1
      cases fs with
      | nil => simp [shapeZip] at hs
      | cons f fs =>
        simp only [shapeZip, Bool.and_eq_true] at hs
        cases roles with
        | nil =>
          simp only [kidsP]
          exact goodL_cons (good_deep hn) (ihK [] fs doc src rs' hw.2 hs.2 (by simp [rolesSafe]) hr2)
        | cons role roles =>
          cases role with
          | keep =>
            simp only [kidsP]
            exact goodL_cons (good_of_noSh hn) (ihK roles fs doc src rs' hw.2 hs.2 (by simpa [rolesSafe] using hp) hr2)
          | ns =>
            simp only [rolesSafe, Bool.and_eq_true] at hp
            have hf : shape fro (.coll .ok) t = true := by
              cases f with
              | coll f' =>
                cases f' with
                | ok => exact hs.1
                | _ => simp at hp
              | _ => simp at hp
            simp only [kidsP]
            exact goodL_cons (good_ns hn hf hr1) (ihK roles fs doc src rs' hw.2 hs.2 hp.2 hr2)
          | xdict =>
            simp only [kidsP]
            refine goodL_cons ?_ (ihK roles fs doc src rs' hw.2 hs.2 (by simpa [rolesSafe] using hp) hr2)
            split
            · exact iht .ents .any r1 hw.1 (by simp [shape]) (by simp [polSafe]) hr1
            · exact good_leaf h fro _
          | none_ =>
            simp only [kidsP]
            exact goodL_cons (good_leaf h fro _) (ihK roles fs doc src rs' hw.2 hs.2 (by simpa [rolesSafe] using hp) hr2)
          | deep =>
            simp only [kidsP]
            exact goodL_cons (good_deep hn) (ihK roles fs doc src rs' hw.2 hs.2 (by simpa [rolesSafe] using hp) hr2)
          | src =>
            simp only [kidsP]
            exact goodL_cons (good_navr h fro _) (ihK roles fs doc src rs' hw.2 hs.2 (by simpa [rolesSafe] using hp) hr2)
          | part pp =>
            simp only [rolesSafe, Bool.and_eq_true] at hp
            simp only [kidsP]
            exact goodL_cons (iht _ f r1 hw.1 hs.1 (pick_safe hp.1 t) hr1) (ihK roles fs doc src rs' hw.2 hs.2 hp.2 hr2)

end main

/-- the strategy copy of a well typed tree that the heap holds is `Good` -/
theorem copyP_good (rc : Nat → List PPol) (cty : Nat → List Ty) (g : Nat → ATree) (h : Heap) (fro : List Nat)
    (hsafe : ∀ c, partsSafe (rc c) (cty c) = true) (hg : ∀ i, Good h fro (g i))
    (t : ATree) (r : Ref) (hw : wt fro cty t = true) (hr : Rep h t r) : Good h fro (copyP rc g t) :=
  (main_aux rc cty g h fro hsafe hg).1 t .ents .any r hw (by simp [shape]) (by simp [polSafe]) hr

theorem copyTop_good (rc : Nat → List PPol) (cty : Nat → List Ty) (env : Nat → ATree) (h : Heap) (fro : List Nat)
    (hsafe : ∀ c, partsSafe (rc c) (cty c) = true)
    (henv : ∀ i, wt fro cty (env i) = true ∧ ∃ r, Rep h (env i) r)
    (t : ATree) (r : Ref) (hw : wt fro cty t = true) (hr : Rep h t r) : Good h fro (copyTop rc env t) := by
  apply copyP_good rc cty _ h fro hsafe _ t r hw hr
  intro i
  obtain ⟨hwi, ri, hri⟩ := henv i
  exact copyP_good rc cty _ h fro hsafe (fun _ => good_leaf h fro _) (env i) ri hwi hri

/-! ### from `Good` to the heap -/

theorem shares_eq :
    (∀ t, shares t = (sharesO t).map (·.1)) ∧ (∀ ts, sharesL ts = (sharesOL ts).map (·.1)) := by
  apply deepT.mutual_induct
  · intro v; simp [shares, sharesO]
  · intro a; simp [shares, sharesO]
  · intro a o; simp [shares, sharesO]
  · intro a k cs ih; simp [shares, sharesO, ih]
  · intro a c cs ih; simp [shares, sharesO, ih]
  · simp [sharesL, sharesOL]
  · intro t ts h1 h2; simp [sharesL, sharesOL, h1, h2]

theorem repL_mem {h : Heap} : ∀ (cs : List ATree) (rs : List Ref), RepL h cs rs → ∀ r ∈ rs, ∃ c ∈ cs, Rep h c r := by
  intro cs
  induction cs with
  | nil => intro rs hr r hm; simp only [RepL] at hr; subst hr; simp at hm
  | cons c cs ih =>
    intro rs hr r hm
    simp only [RepL] at hr
    obtain ⟨r1, rs', rfl, hr1, hr2⟩ := hr
    rcases List.mem_cons.mp hm with rfl | hm
    · exact ⟨c, by simp, hr1⟩
    · obtain ⟨c', hc', hr'⟩ := ih rs' hr2 r hm
      exact ⟨c', by simp [hc'], hr'⟩

theorem okTL_mem {fro : List Nat} : ∀ (cs : List ATree), okTL fro cs = true → ∀ c ∈ cs, okT fro c = true := by
  intro cs
  induction cs with
  | nil => intro _ c hc; simp at hc
  | cons x xs ih =>
    intro h c hc
    simp only [okTL, Bool.and_eq_true] at h
    rcases List.mem_cons.mp hc with rfl | hc
    · exact h.1
    · exact ih h.2 c hc

theorem noShL_mem : ∀ (cs : List ATree), noShL cs = true → ∀ c ∈ cs, noSh c = true := by
  intro cs
  induction cs with
  | nil => intro _ c hc; simp at hc
  | cons x xs ih =>
    intro h c hc
    simp only [noShL, Bool.and_eq_true] at h
    rcases List.mem_cons.mp hc with rfl | hc
    · exact h.1
    · exact ih h.2 c hc

/-- one owning edge below a represented `ok` value leads to a represented `ok` value -/
theorem ok_step {h : Heap} {fro : List Nat} {t : ATree} {y x : Nat}
    (hr : Rep h t (.own y)) (hok : okT fro t = true) (hn : noSh t = true) (e : Edge h y x) :
    ∃ t', Rep h t' (.own x) ∧ okT fro t' = true ∧ noSh t' = true := by
  obtain ⟨o, ho, hm⟩ := e
  cases t with
  | leaf v => simp [Rep] at hr
  | navr a => simp [Rep] at hr
  | share a o' => simp [noSh] at hn
  | node a k cs =>
    simp only [Rep] at hr
    obtain ⟨hy, rs, hrs, hrl⟩ := hr
    have hya : y = a := by simpa using hy
    subst hya
    rw [ho] at hrs
    simp only [Option.some.injEq] at hrs
    subst hrs
    obtain ⟨c, hc, hrc⟩ := repL_mem cs rs hrl _ hm
    simp only [okT, Bool.and_eq_true] at hok
    simp only [noSh] at hn
    exact ⟨c, hrc, okTL_mem cs hok.2 c hc, noShL_mem cs hn c hc⟩
  | ent a c0 cs =>
    simp only [Rep] at hr
    obtain ⟨hy, rs, hrs, hrl⟩ := hr
    have hya : y = a := by simpa using hy
    subst hya
    rw [ho] at hrs
    simp only [Option.some.injEq] at hrs
    subst hrs
    obtain ⟨c, hc, hrc⟩ := repL_mem cs rs hrl _ hm
    simp only [okT, Bool.and_eq_true] at hok
    simp only [noSh] at hn
    exact ⟨c, hrc, okTL_mem cs hok.2 c hc, noShL_mem cs hn c hc⟩

/-- everything reachable from a represented `ok` value is immutable or frozen -/
theorem ok_reach {h : Heap} {fro : List Nat} {t : ATree} {s : Nat}
    (hr : Rep h t (.own s)) (hok : okT fro t = true) (hn : noSh t = true) :
    s < h.length ∧ ∀ x, Reach h s x → isImm h x = true ∨ x ∈ fro := by
  have fin : ∀ (t' : ATree) (x : Nat), Rep h t' (.own x) → okT fro t' = true → noSh t' = true →
      x < h.length ∧ (isImm h x = true ∨ x ∈ fro) := by
    intro t' x hr' hok' hn'
    cases t' with
    | leaf v => simp [Rep] at hr'
    | navr a => simp [Rep] at hr'
    | share a o' => simp [noSh] at hn'
    | node a k cs =>
      simp only [Rep] at hr'
      obtain ⟨hx, rs, hrs, _⟩ := hr'
      have hxa : x = a := by simpa using hx
      subst hxa
      have hlt : x < h.length := by
        rcases Nat.lt_or_ge x h.length with hl | hl
        · exact hl
        · rw [List.getElem?_eq_none hl] at hrs; simp at hrs
      refine ⟨hlt, ?_⟩
      simp only [okT, Bool.and_eq_true, Bool.or_eq_true, beq_iff_eq, List.contains_eq_mem,
        decide_eq_true_eq] at hok'
      rcases hok'.1 with hk | hf
      · left; simp [isImm, hrs, hk]
      · exact Or.inr hf
    | ent a c0 cs =>
      simp only [Rep] at hr'
      obtain ⟨hx, rs, hrs, _⟩ := hr'
      have hxa : x = a := by simpa using hx
      subst hxa
      have hlt : x < h.length := by
        rcases Nat.lt_or_ge x h.length with hl | hl
        · exact hl
        · rw [List.getElem?_eq_none hl] at hrs; simp at hrs
      refine ⟨hlt, ?_⟩
      simp only [okT, Bool.and_eq_true, List.contains_eq_mem, decide_eq_true_eq] at hok'
      exact Or.inr hok'.1
  refine ⟨(fin t s hr hok hn).1, ?_⟩
  intro x rx
  have : ∃ t', Rep h t' (.own x) ∧ okT fro t' = true ∧ noSh t' = true := by
    induction rx with
    | refl => exact ⟨t, hr, hok, hn⟩
    | step _ e ih =>
      obtain ⟨ty, hry, hoky, hny⟩ := ih
      exact ok_step hry hoky hny e
  obtain ⟨t', h1, h2, h3⟩ := this
  exact (fin t' x h1 h2 h3).2

/-- a `Good` tree satisfies the two hypotheses of `copy_separates` -/
theorem good_shares {h : Heap} {fro : List Nat} {t : ATree} (hg : Good h fro t) :
    (∀ s ∈ shares t, s < h.length) ∧
    (∀ s ∈ shares t, ∀ x, Reach h s x → isImm h x = true ∨ x ∈ fro) := by
  have key : ∀ s ∈ shares t, s < h.length ∧ ∀ x, Reach h s x → isImm h x = true ∨ x ∈ fro := by
    intro s hs
    rw [shares_eq.1 t] at hs
    obtain ⟨p, hp, rfl⟩ := List.mem_map.mp hs
    obtain ⟨h1, h2, h3⟩ := hg p hp
    exact ok_reach h3 h1 h2
  exact ⟨fun s hs => (key s hs).1, fun s hs => (key s hs).2⟩

end EzdxfVerif.Heap.Recipe

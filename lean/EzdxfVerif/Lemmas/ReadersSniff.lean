/-
C08  lemmas for Model/ReadersSniff.lean
-/
import EzdxfVerif.Lemmas.Readers
import EzdxfVerif.Lemmas.ReadersLines
import EzdxfVerif.Model.ReadersSniff

namespace EzdxfVerif.Readers

/-- a file that satisfies `FileWF'` starts with `(0, SECTION)`: the sniffer of `ezdxf.readfile` accepts it -/
theorem wf_isDxfStream (cfg : Cfg) (m : Nat) (f : List Tag) (h : FileWF' cfg m f = true) : isDxfStream f = true := by
  obtain ⟨secs, pre, es, post, b⟩ := wf_bridge cfg m f h
  unfold isDxfStream
  rw [b.ascii, b.file, fileOf_eq]
  cases pre with
  | nil => simp [renderSec, isDxfStreamLoop]
  | cons s r => simp [renderSec, isDxfStreamLoop]

/-- a stream of tags written by the ASCII tag writer never starts with the Binary DXF sentinel -/
theorem ascii_not_binary (ts : List (RawTag × Bool)) (h : tagsClean ts) : isBinaryFile (renderLines ts) = false := by
  cases ts with
  | nil => simp [isBinaryFile, renderLines, binSentinel, bytesOf]
  | cons p r =>
    obtain ⟨t, crlf⟩ := p
    obtain ⟨hc, _⟩ := h (t, crlf) (by simp)
    have hc : t.code ≤ 1071 := hc
    -- the first byte is the first byte of "%3d" % code: a blank or a digit, never 'A'
    have hfirst : ∃ b rest, fmtCode t.code = b :: rest ∧ b ≠ 65 := by
      have : (List.range 1072).all (fun c => match fmtCode c with | [] => false | b :: _ => b != 65) = true := by decide +kernel
      have := List.all_eq_true.mp this t.code (by simp; omega)
      cases hf : fmtCode t.code with
      | nil => rw [hf] at this; simp at this
      | cons b rest => rw [hf] at this; exact ⟨b, rest, rfl, by simpa using this⟩
    obtain ⟨b, rest, hf, hb⟩ := hfirst
    simp only [isBinaryFile, renderLines, hf, List.cons_append, List.append_assoc]
    simp only [binSentinel, bytesOf]
    simp [hb]

end EzdxfVerif.Readers

/-
C01, entity level envelope (handle, owner, application data, extension dictionary, reactors, subclasses, embedded
objects, XDATA): export → load on the model of C02 (`Model/Storage.lean`, imported read-only).  C02 proves the
direction file → memory → file (`storage_roundtrip`); here the other direction memory → file → memory is proved
from the same definitions and the public lemmas of Lemmas/Storage.lean.
-/
import EzdxfVerif.Lemmas.Storage

namespace EzdxfVerif.Envelope
open EzdxfVerif.XTags EzdxfVerif.Storage
open EzdxfVerif.Gen.StorageTables

/-! ### `collectGroups` on a list of well-shaped groups -/

/-- a group: start tag, then no stop tag -/
def GroupOK (s p : Tag → Bool) (g : List Tag) : Prop := ∃ t body, g = t :: body ∧ s t = true ∧ ∀ x ∈ body, p x = false

theorem takeWhile_notstop (p : Tag → Bool) (body rest : List Tag) (hb : ∀ x ∈ body, p x = false)
    (hr : ∀ x, rest.head? = some x → p x = true) :
    (body ++ rest).takeWhile (fun x => !p x) = body ∧ (body ++ rest).dropWhile (fun x => !p x) = rest := by
  induction body with
  | nil =>
    cases rest with
    | nil => simp
    | cons x r => simp [List.takeWhile_cons, List.dropWhile_cons, hr x rfl]
  | cons b bs ih =>
    have hbb := hb b (by simp)
    have := ih (fun x hx => hb x (by simp [hx]))
    simp [List.takeWhile_cons, List.dropWhile_cons, hbb, this.1, this.2]

/-- groups written one after the other, every start tag being a stop tag as well, are found again; the rest starts with a stop
    tag that is no start tag -/
theorem collectGroups_groups (s p : Tag → Bool) (hsp : ∀ t, s t = true → p t = true) (gs : List (List Tag)) (rest : List Tag)
    (hg : ∀ g ∈ gs, GroupOK s p g)
    (hr : ∀ x, rest.head? = some x → p x = true ∧ s x = false) :
    collectGroups s p (gs.flatten ++ rest) = (gs, rest) := by
  induction gs with
  | nil =>
    cases rest with
    | nil => simp [collectGroups]
    | cons x r =>
      have := (hr x rfl).2
      simp only [List.flatten_nil, List.nil_append]
      rw [collectGroups]; simp [this]
  | cons g gr ih =>
    obtain ⟨t, body, rfl, hst, hbody⟩ := hg g (by simp)
    have ih' := ih (fun x hx => hg x (by simp [hx]))
    have hnext : ∀ x, (gr.flatten ++ rest).head? = some x → p x = true := by
      intro x hx
      cases gr with
      | nil => simp only [List.flatten_nil, List.nil_append] at hx; exact (hr x hx).1
      | cons g2 gr2 =>
        obtain ⟨t2, b2, rfl, hs2, _⟩ := hg (g2) (by simp)
        simp only [List.flatten_cons, List.cons_append, List.head?_cons, Option.some.injEq] at hx
        subst hx; exact hsp _ hs2
    have htw := takeWhile_notstop p body (gr.flatten ++ rest) hbody hnext
    simp only [List.flatten_cons, List.cons_append, List.append_assoc]
    rw [collectGroups]
    simp only [hst, if_true, htw.1, htw.2, ih']

/-! ### `DXFTagStorage.load` on the tags of well-shaped items (the computation inside C02's `roundtrip_canon`) -/

theorem load_items (alive : V → Bool) (t0 : Tag) (items : List Item) (rest : List Tag) (h0 : t0.code = 0)
    (hshape : ∀ i ∈ items, ItemShape (hcOf t0.val) i) (hhead : HeadEnd rest)
    (hall : items.all (itemWF alive) = true) (hkeys : ((othersOf items).map (·.1)).Nodup)
    (hch : countKind .handle items = 1) (hco : countKind .owner items = 1)
    (hcx : countKind .xdict items ≤ 1) (hcr : countKind .reactors items ≤ 1)
    (hxv : ∀ g ∈ restXdata rest, g.all validX = true) (hxk : ((restXdata rest).map groupKey).Nodup) :
    load (t0 :: (items.flatMap Item.tags ++ rest)) =
      .ok ⟨t0.val, hOf items, oOf items, othersOf items, xdictOf items, reactorsOf items,
        (collectGroups (fun t => t.code == 100) isEndOfClass rest).1,
        (collectGroups isEO (fun t => isEO t || t.code == 1001)
          (collectGroups (fun t => t.code == 100) isEndOfClass rest).2).1,
        (restXdata rest).map (fun g => (groupKey g, g))⟩ := by
  have hcases := hcOf_cases t0.val
  have hp := parseItems_of_items (hcOf t0.val) hcases items rest hshape hhead
  have hcb := parseItems_collectBase (hcOf t0.val) (items.flatMap Item.tags ++ rest) none items rest [t0] [] hp
  simp only [List.length_nil, List.nil_append] at hcb
  have hns : isAppStart t0 = false := by simp [isAppStart, h0]
  have hne : isEndOfClass t0 = false := by simp [isEndOfClass, isEO, h0]
  have hsetup : setup (t0 :: (items.flatMap Item.tags ++ rest)) = .ok ⟨(t0 :: encode 0 items) ::
        (collectGroups (fun t => t.code == 100) isEndOfClass rest).1, groupsOf items,
        (collectGroups isEO (fun t => isEO t || t.code == 1001)
          (collectGroups (fun t => t.code == 100) isEndOfClass rest).2).1, restXdata rest⟩ := by
    have hcons := rest_consumed rest hhead
    simp only at hcons
    simp only [setup, collectBase, hns, hne, Bool.false_eq_true, if_false, List.nil_append, hcb, hcons, if_true]
    rfl
  have hc102 : hcOf t0.val ≠ 102 := by rcases hcases with e | e <;> rw [e] <;> decide
  have happ := setupApp_spec alive (hcOf t0.val) items ⟨[], none, none⟩ hshape hall (by simpa using hkeys)
    hcx (by simp) hcr (by simp)
  simp only [List.nil_append, Option.none_or] at happ
  have hscan : scanHO (hcOf t0.val) (t0 :: encode 0 items) none none = (hOf items, oOf items) := by
    have e1 : (t0.code == hcOf t0.val) = false := by
      rw [h0]; rcases hcases with e | e <;> rw [e] <;> decide
    have e2 : (t0.code == 330) = false := by rw [h0]; decide
    simp only [scanHO, e1, e2, Bool.false_eq_true, if_false]
    rw [scanHO_spec _ 0 items none none hshape hc102 (by simp [hch]) (by simp [hco])]
    simp
  have hxl : xdataLoad (restXdata rest) [] = (restXdata rest).map (fun g => (groupKey g, g)) := by
    have := xdataLoad_spec (restXdata rest) []
      (fun g hg => by
        obtain ⟨t, r, e, _⟩ := collectGroups_nonempty _ _ _ g hg
        exact ⟨t, r, e⟩) hxv (by simpa using hxk)
    simpa using this
  simp only [load, hsetup, happ, hscan, hxl]

/-! ### the envelope of an entity -/

def reactorsGroup (rs : List V) : List Tag :=
  ⟨appDataMarker, .str acadReactors⟩ :: (rs.map (fun v => (⟨reactorHandleCode, v⟩ : Tag)) ++ [closeBrace])

def xdictGroup (h : V) : List Tag := [⟨appDataMarker, .str acadXDictionary⟩, ⟨xdictHandleCode, h⟩, closeBrace]

def rkey (v : V) : Nat := (hexKeyV v).getD 0

/-- what an entity built through the API holds: handle and owner, application data groups closed by (102, "}") under their
    own key, a live extension dictionary, a non-empty set of reactor handles (as the list in ascending order of their numbers),
    subclasses that start with their marker, embedded objects, XDATA lists of valid group codes under their application id -/
structure EnvOK (alive : V → Bool) (e : Ent) : Prop where
  handle : e.handle.isSome = true
  owner : e.owner.isSome = true
  xdict : ∀ x, e.xdict = some x → alive x = true
  reactors : ∀ rs, e.reactors = some rs →
    rs ≠ [] ∧ (∀ v ∈ rs, (hexKeyV v).isSome = true) ∧ ascending (rs.map rkey) = true
  appdata : ∀ p ∈ e.appdata, GroupShape p.2 ∧ p.2.getLast? = some closeBrace ∧ p.1 = groupKey p.2 ∧
    p.1 ≠ .str acadReactors ∧ p.1 ≠ .str acadXDictionary
  appkeys : (e.appdata.map (·.1)).Nodup
  subs : ∀ g ∈ e.subs, GroupOK (fun t => t.code == 100) isEndOfClass g
  embedded : ∀ g ∈ e.embedded, GroupOK isEO (fun t => isEO t || t.code == 1001) g
  xdata : ∀ p ∈ e.xdata, GroupOK (fun t => t.code == 1001) (fun t => t.code == 1001) p.2 ∧
    p.2.all validX = true ∧ p.1 = groupKey p.2
  xkeys : (e.xdata.map (·.1)).Nodup

def xdItems (e : Ent) : List Item := match e.xdict with | some x => [.group (xdictGroup x)] | none => []
def reItems (e : Ent) : List Item := match e.reactors with | some rs => [.group (reactorsGroup rs)] | none => []

/-- the items of the base class in the order `export_base_class` writes them -/
def itemsOf (e : Ent) (h o : V) : List Item :=
  .handle ⟨hcOf e.typ, h⟩ :: (e.appdata.map (fun p => Item.group p.2) ++ (xdItems e ++ (reItems e ++ [.owner ⟨ownerCode, o⟩])))

def restOf (e : Ent) : List Tag := e.subs.flatten ++ (e.embedded.flatten ++ (e.xdata.map (·.2)).flatten)

/-! #### helper facts about the item functions -/

theorem countKind_append (k : BasePart) (a b : List Item) : countKind k (a ++ b) = countKind k a + countKind k b := by
  simp [countKind, List.filter_append]

theorem othersOf_append (a b : List Item) : othersOf (a ++ b) = othersOf a ++ othersOf b := by
  induction a with
  | nil => rfl
  | cons i is ih => simp only [List.cons_append, othersOf, ih]; split <;> simp

theorem xdictOf_skip (a b : List Item) (h : ∀ i ∈ a, (i.kind == BasePart.xdict) = false) : xdictOf (a ++ b) = xdictOf b := by
  induction a with
  | nil => rfl
  | cons i is ih =>
    simp only [List.cons_append, xdictOf, h i (by simp), Bool.false_eq_true, if_false]
    exact ih (fun j hj => h j (by simp [hj]))

theorem reactorsOf_skip (a b : List Item) (h : ∀ i ∈ a, (i.kind == BasePart.reactors) = false) :
    reactorsOf (a ++ b) = reactorsOf b := by
  induction a with
  | nil => rfl
  | cons i is ih =>
    simp only [List.cons_append, reactorsOf, h i (by simp), Bool.false_eq_true, if_false]
    exact ih (fun j hj => h j (by simp [hj]))

theorem hOf_skip (a b : List Item) (h : ∀ i ∈ a, ∀ t, i ≠ .handle t) : hOf (a ++ b) = hOf b := by
  induction a with
  | nil => rfl
  | cons i is ih =>
    have hi := h i (by simp)
    have := ih (fun j hj => h j (by simp [hj]))
    cases i with
    | handle t => exact absurd rfl (hi t)
    | owner t => simpa [hOf] using this
    | group g => simpa [hOf] using this

theorem oOf_skip (a b : List Item) (h : ∀ i ∈ a, ∀ t, i ≠ .owner t) : oOf (a ++ b) = oOf b := by
  induction a with
  | nil => rfl
  | cons i is ih =>
    have hi := h i (by simp)
    have := ih (fun j hj => h j (by simp [hj]))
    cases i with
    | handle t => simpa [oOf] using this
    | owner t => exact absurd rfl (hi t)
    | group g => simpa [oOf] using this

theorem kind_xdictGroup (x : V) : (Item.group (xdictGroup x)).kind = .xdict := by
  simp [Item.kind, xdictGroup, groupKey, acadReactors, acadXDictionary]

theorem kind_reactorsGroup (rs : List V) : (Item.group (reactorsGroup rs)).kind = .reactors := by
  simp [Item.kind, reactorsGroup, groupKey]

theorem kind_app (g : List Tag) (h1 : groupKey g ≠ .str acadReactors) (h2 : groupKey g ≠ .str acadXDictionary) :
    (Item.group g).kind = .appdata := by
  simp [Item.kind, h1, h2]

theorem countKind_all (k k' : BasePart) (l : List Item) (h : ∀ i ∈ l, i.kind = k') :
    countKind k l = if k' = k then l.length else 0 := by
  induction l with
  | nil => simp [countKind]
  | cons i is ih =>
    have hi := h i (by simp)
    have := ih (fun j hj => h j (by simp [hj]))
    simp only [countKind, List.filter_cons, hi] at this ⊢
    by_cases hk : k' = k
    · simp [hk] at this ⊢; omega
    · have : (k' == k) = false := by simpa using hk
      simp_all

theorem ascending_nodup (l : List Nat) (h : ascending l = true) : l.Nodup := by
  have key : ∀ (l : List Nat), ascending l = true → ∀ a, (∀ x, l.head? = some x → a < x) → ∀ y ∈ l, a < y := by
    intro l
    induction l with
    | nil => intro _ a _ y hy; simp at hy
    | cons b r ih =>
      intro hasc a ha y hy
      have hab := ha b rfl
      rcases List.mem_cons.mp hy with rfl | hy
      · exact hab
      · cases r with
        | nil => simp at hy
        | cons c r' =>
          simp only [ascending, Bool.and_eq_true, decide_eq_true_eq] at hasc
          exact ih hasc.2 a (by intro x hx; simp at hx; subst hx; omega) y hy
  induction l with
  | nil => exact List.nodup_nil
  | cons a r ih =>
    cases r with
    | nil => simp
    | cons b r' =>
      simp only [ascending, Bool.and_eq_true, decide_eq_true_eq] at h
      refine List.nodup_cons.mpr ⟨?_, ih h.2⟩
      intro hmem
      have := key (b :: r') h.2 a (by intro x hx; simp at hx; subst hx; exact h.1) a hmem
      omega

section
variable {alive : V → Bool} {e : Ent} (ok : EnvOK alive e)
include ok

theorem apps_kind : ∀ i ∈ e.appdata.map (fun p => Item.group p.2), i.kind = .appdata := by
  intro i hi
  obtain ⟨p, hp, rfl⟩ := List.mem_map.mp hi
  obtain ⟨_, _, hk, h1, h2⟩ := ok.appdata p hp
  exact kind_app p.2 (hk ▸ h1) (hk ▸ h2)

theorem xd_kind : ∀ i ∈ xdItems e, i.kind = .xdict := by
  intro i hi
  unfold xdItems at hi
  split at hi
  · simp at hi; subst hi; exact kind_xdictGroup _
  · simp at hi

theorem re_kind : ∀ i ∈ reItems e, i.kind = .reactors := by
  intro i hi
  unfold reItems at hi
  split at hi
  · simp at hi; subst hi; exact kind_reactorsGroup _
  · simp at hi

theorem xd_len : (xdItems e).length ≤ 1 := by unfold xdItems; split <;> simp
theorem re_len : (reItems e).length ≤ 1 := by unfold reItems; split <;> simp

theorem counts (h o : V) :
    countKind .handle (itemsOf e h o) = 1 ∧ countKind .owner (itemsOf e h o) = 1 ∧
    countKind .xdict (itemsOf e h o) ≤ 1 ∧ countKind .reactors (itemsOf e h o) ≤ 1 := by
  have ha := fun k => countKind_all k .appdata _ (apps_kind ok)
  have hx := fun k => countKind_all k .xdict _ (xd_kind ok)
  have hr := fun k => countKind_all k .reactors _ (re_kind ok)
  have hxl := xd_len ok
  have hrl := re_len ok
  have c1 : ∀ k (t : Tag) (l : List Item), countKind k (Item.handle t :: l) = (if k = .handle then 1 else 0) + countKind k l := by
    intro k t l; cases k <;> simp [countKind, List.filter_cons, Item.kind] <;> omega
  have c2 : ∀ k (t : Tag), countKind k [Item.owner t] = (if k = .owner then 1 else 0) := by
    intro k t; cases k <;> simp [countKind, List.filter_cons, Item.kind]
  refine ⟨?_, ?_, ?_, ?_⟩ <;>
    simp [itemsOf, c1, c2, countKind_append, ha, hx, hr] <;> omega

theorem shapes (h o : V) : ∀ i ∈ itemsOf e h o, ItemShape (hcOf e.typ) i := by
  intro i hi
  simp only [itemsOf, List.mem_cons, List.mem_append, List.mem_map, List.not_mem_nil, or_false] at hi
  rcases hi with rfl | ⟨p, hp, rfl⟩ | hx | hr | rfl
  · rfl
  · exact (ok.appdata p hp).1
  · unfold xdItems at hx
    split at hx
    · simp at hx; subst hx
      rename_i x _
      exact ⟨⟨appDataMarker, .str acadXDictionary⟩, [⟨xdictHandleCode, x⟩], closeBrace, rfl, by decide, by decide,
        by intro t ht; simp at ht; subst ht; simp [isAppClose, xdictHandleCode]⟩
    · simp at hx
  · unfold reItems at hr
    split at hr
    · simp at hr; subst hr
      rename_i rs _
      exact ⟨⟨appDataMarker, .str acadReactors⟩, rs.map (fun v => ⟨reactorHandleCode, v⟩), closeBrace, rfl, by decide, by decide,
        by intro t ht; obtain ⟨v, _, rfl⟩ := List.mem_map.mp ht; simp [isAppClose, reactorHandleCode]⟩
    · simp at hr
  · refine ⟨rfl, ?_⟩
    rcases hcOf_cases e.typ with h | h <;> rw [h] <;> decide

theorem wfs (h o : V) : (itemsOf e h o).all (itemWF alive) = true := by
  rw [List.all_eq_true]
  intro i hi
  simp only [itemsOf, List.mem_cons, List.mem_append, List.mem_map, List.not_mem_nil, or_false] at hi
  rcases hi with rfl | ⟨p, hp, rfl⟩ | hx | hr | rfl
  · rfl
  · obtain ⟨_, hl, hk, h1, h2⟩ := ok.appdata p hp
    have e1 : (groupKey p.2 == V.str acadReactors) = false := by simpa using (hk ▸ h1)
    have e2 : (groupKey p.2 == V.str acadXDictionary) = false := by simpa using (hk ▸ h2)
    simp [itemWF, groupWF, hl, e1, e2]
  · unfold xdItems at hx
    split at hx
    · simp at hx; subst hx
      rename_i x hxd
      have := ok.xdict x hxd
      simp [itemWF, groupWF, xdictGroup, groupKey, acadReactors, acadXDictionary, this, closeBrace]
    · simp at hx
  · unfold reItems at hr
    split at hr
    · simp at hr; subst hr
      rename_i rs hrs
      obtain ⟨hne, hhex, hasc⟩ := ok.reactors rs hrs
      have hbody : groupBody (reactorsGroup rs) = rs.map (fun v => (⟨reactorHandleCode, v⟩ : Tag)) :=
        groupBody_shape _ _ _
      have hlast : (reactorsGroup rs).getLast? = some closeBrace := getLast_shape _ _ _
      have hkeys : (rs.map (fun v => (⟨reactorHandleCode, v⟩ : Tag))).map hexKeyT = rs.map rkey := by
        simp [List.map_map, Function.comp_def, hexKeyT, rkey]
      have hnd : nodupN (rs.map rkey) = true := (nodupN_iff _).mpr (ascending_nodup _ hasc)
      have hall : (rs.map (fun v => (⟨reactorHandleCode, v⟩ : Tag))).all
          (fun t => t.code == reactorHandleCode && (hexKeyV t.val).isSome) = true := by
        rw [List.all_eq_true]; intro t ht
        obtain ⟨v, hv, rfl⟩ := List.mem_map.mp ht
        simp [hhex v hv]
      have hkey : groupKey (reactorsGroup rs) = .str acadReactors := rfl
      simp only [itemWF, groupWF, hlast, hkey, hbody, hkeys, hnd, hall, beq_self_eq_true, if_true, Bool.true_and]
      cases rs with
      | nil => exact absurd rfl hne
      | cons r rr => simp
    · simp at hr
  · rfl

end

/-! #### what follows the base class -/

theorem head_flatten (P : Tag → Prop) (gs : List (List Tag)) (rest : List Tag)
    (hg : ∀ g ∈ gs, ∃ t b, g = t :: b ∧ P t) (hr : ∀ x, rest.head? = some x → P x) :
    ∀ x, (gs.flatten ++ rest).head? = some x → P x := by
  intro x hx
  cases gs with
  | nil => exact hr x (by simpa using hx)
  | cons g gr =>
    obtain ⟨t, b, rfl, ht⟩ := hg g (by simp)
    simp at hx; subst hx; exact ht

section
variable {alive : V → Bool} {e : Ent} (ok : EnvOK alive e)
include ok

theorem xgroups_ok : ∀ g ∈ e.xdata.map (·.2), GroupOK (fun t => t.code == 1001) (fun t => t.code == 1001) g := by
  intro g hg
  obtain ⟨p, hp, rfl⟩ := List.mem_map.mp hg
  exact (ok.xdata p hp).1

theorem rest_split :
    collectGroups (fun t => t.code == 100) isEndOfClass (restOf e) = (e.subs, e.embedded.flatten ++ (e.xdata.map (·.2)).flatten) ∧
    collectGroups isEO (fun t => isEO t || t.code == 1001) (e.embedded.flatten ++ (e.xdata.map (·.2)).flatten) =
      (e.embedded, (e.xdata.map (·.2)).flatten) ∧
    collectGroups (fun t => t.code == 1001) (fun t => t.code == 1001) (e.xdata.map (·.2)).flatten = (e.xdata.map (·.2), []) := by
  have hx1001 : ∀ x, ((e.xdata.map (·.2)).flatten).head? = some x → x.code = 1001 := by
    have := head_flatten (fun t => t.code = 1001) (e.xdata.map (·.2)) []
      (by intro g hg; obtain ⟨t, b, rfl, hs, _⟩ := xgroups_ok ok g hg; exact ⟨t, b, rfl, by simpa using hs⟩) (by simp)
    simpa using this
  have heo : ∀ x, (e.embedded.flatten ++ (e.xdata.map (·.2)).flatten).head? = some x → (isEO x = true ∨ x.code = 1001) :=
    head_flatten (fun t => isEO t = true ∨ t.code = 1001) e.embedded _
      (by intro g hg; obtain ⟨t, b, rfl, hs, _⟩ := ok.embedded g hg; exact ⟨t, b, rfl, Or.inl hs⟩)
      (fun x hx => Or.inr (hx1001 x hx))
  refine ⟨?_, ?_, ?_⟩
  · apply collectGroups_groups _ _ (by intro t ht; simp [isEndOfClass, ht]) e.subs _ ok.subs
    intro x hx
    rcases heo x hx with h | h
    · have hc : x.code = 101 := by simp only [isEO, Bool.and_eq_true, beq_iff_eq] at h; exact h.1
      simp [isEndOfClass, h, hc]
    · simp [isEndOfClass, h]
  · apply collectGroups_groups _ _ (by intro t ht; simp [ht]) e.embedded _ ok.embedded
    intro x hx
    have hc := hx1001 x hx
    simp [isEO, hc]
  · have := collectGroups_groups (fun t => t.code == 1001) (fun t => t.code == 1001) (by intro t ht; exact ht)
      (e.xdata.map (·.2)) [] (xgroups_ok ok) (by simp)
    simpa using this

theorem rest_head : HeadEnd (restOf e) := by
  by_cases hnil : restOf e = []
  · exact Or.inl hnil
  · obtain ⟨x, tl, hx⟩ := List.exists_cons_of_ne_nil hnil
    refine Or.inr ⟨x, tl, hx, ?_⟩
    have hx1001 : ∀ x : Tag, ((e.xdata.map (fun p : V × List Tag => p.2)).flatten).head? = some x → isEndOfClass x = true := by
      have := head_flatten (fun t => isEndOfClass t = true) (e.xdata.map (fun p : V × List Tag => p.2)) []
        (by intro g hg; obtain ⟨t, b, rfl, hs, _⟩ := xgroups_ok ok g hg; exact ⟨t, b, rfl, by simp [isEndOfClass, hs]⟩) (by simp)
      simpa using this
    have heo := head_flatten (fun t => isEndOfClass t = true) e.embedded ((e.xdata.map (·.2)).flatten)
      (by intro g hg; obtain ⟨t, b, rfl, hs, _⟩ := ok.embedded g hg; exact ⟨t, b, rfl, by simp [isEndOfClass, hs]⟩)
      hx1001
    have hsub := head_flatten (fun t => isEndOfClass t = true) e.subs (e.embedded.flatten ++ (e.xdata.map (·.2)).flatten)
      (by intro g hg; obtain ⟨t, b, rfl, hs, _⟩ := ok.subs g hg; exact ⟨t, b, rfl, by simp [isEndOfClass, hs]⟩) heo
    exact hsub x (by unfold restOf at hx; rw [hx]; rfl)

theorem restXdata_eq : restXdata (restOf e) = e.xdata.map (·.2) := by
  obtain ⟨h1, h2, h3⟩ := rest_split ok
  simp only [restXdata, h1, h2, h3]

end

/-! #### the exported tags and the reloaded entity -/

theorem apps_tags (l : List (V × List Tag)) :
    (l.map (fun p => Item.group p.2)).flatMap Item.tags = (l.map (·.2)).flatten := by
  induction l with
  | nil => rfl
  | cons p r ih => simp [Item.tags, ih]

theorem filter_validX (l : List (V × List Tag)) (h : ∀ p ∈ l, p.2.all validX = true) :
    (l.map (fun p => p.2.filter validX)).flatten = (l.map (·.2)).flatten := by
  induction l with
  | nil => rfl
  | cons p r ih =>
    have hp := h p (by simp)
    have := ih (fun q hq => h q (by simp [hq]))
    have hf : p.2.filter validX = p.2 := List.filter_eq_self.mpr (by simpa [List.all_eq_true] using hp)
    simp [hf, this]

section
variable {alive : V → Bool} {e : Ent} (ok : EnvOK alive e)
include ok

theorem export_eq (h o : V) (hh : e.handle = some h) (ho : e.owner = some o) :
    exportEnt alive e = .ok (⟨0, e.typ⟩ :: ((itemsOf e h o).flatMap Item.tags ++ restOf e)) := by
  have hxd : xdictOut alive e.xdict = (xdItems e).flatMap Item.tags := by
    unfold xdItems
    cases hx : e.xdict with
    | none => rfl
    | some x => simp [xdictOut, ok.xdict x hx, Item.tags, xdictGroup]
  have hre : reactorsPart e.reactors = .ok ((reItems e).flatMap Item.tags) := by
    unfold reItems
    cases hr : e.reactors with
    | none => rfl
    | some rs =>
      obtain ⟨hne, hhex, hasc⟩ := ok.reactors rs hr
      obtain ⟨r0, rr, rfl⟩ := List.exists_cons_of_ne_nil hne
      have hall : (r0 :: rr).all (fun v => (hexKeyV v).isSome) = true := by
        rw [List.all_eq_true]; exact hhex
      have hs : isort (fun v => (hexKeyV v).getD 0) (r0 :: rr) = r0 :: rr := isort_ascending _ _ hasc
      simp only [reactorsPart, reactorsOut, hall, if_true, hs]
      simp [Item.tags, reactorsGroup]
  have hxo : xdataOut e = (e.xdata.map (·.2)).flatten := filter_validX e.xdata (fun p hp => (ok.xdata p hp).2.1)
  simp only [exportEnt, hre, entityOrder, baseOrder, storageOrder, List.flatMap_cons, List.flatMap_nil, List.append_nil,
    basePart, storagePart, hxd, hxo, hh, ho, Option.getD_some]
  simp [itemsOf, restOf, Item.tags, apps_tags, structureMarker, List.flatMap_append]

theorem items_fields (h o : V) :
    hOf (itemsOf e h o) = some h ∧ oOf (itemsOf e h o) = some o ∧ othersOf (itemsOf e h o) = e.appdata ∧
    xdictOf (itemsOf e h o) = e.xdict ∧ reactorsOf (itemsOf e h o) = e.reactors := by
  have hak := apps_kind ok
  have hxk := xd_kind ok
  have hrk := re_kind ok
  have others_none : ∀ (l : List Item), (∀ i ∈ l, (i.kind == BasePart.appdata) = false) → othersOf l = [] := by
    intro l hl
    induction l with
    | nil => rfl
    | cons i is ih => simp [othersOf, hl i (by simp), ih (fun j hj => hl j (by simp [hj]))]
  have others_apps : ∀ (l : List (V × List Tag)), (∀ p ∈ l, (Item.group p.2).kind = .appdata ∧ p.1 = groupKey p.2) →
      othersOf (l.map (fun p => Item.group p.2)) = l := by
    intro l hl
    induction l with
    | nil => rfl
    | cons p r ih =>
      obtain ⟨hk, hkey⟩ := hl p (by simp)
      have := ih (fun q hq => hl q (by simp [hq]))
      simp only [List.map_cons, othersOf, hk, beq_self_eq_true, if_true, this, Item.tags]
      rw [← hkey]
  refine ⟨rfl, ?_, ?_, ?_, ?_⟩
  · -- owner
    have : oOf (itemsOf e h o) = oOf (e.appdata.map (fun p => Item.group p.2) ++ (xdItems e ++ (reItems e ++ [.owner ⟨ownerCode, o⟩]))) := rfl
    rw [this, oOf_skip _ _ (by intro i hi t; have := hak i hi; intro hc; subst hc; simp [Item.kind] at this),
      oOf_skip _ _ (by intro i hi t; have := hxk i hi; intro hc; subst hc; simp [Item.kind] at this),
      oOf_skip _ _ (by intro i hi t; have := hrk i hi; intro hc; subst hc; simp [Item.kind] at this)]
    rfl
  · have e1 : othersOf (itemsOf e h o) = othersOf (e.appdata.map (fun p => Item.group p.2) ++ (xdItems e ++ (reItems e ++ [.owner ⟨ownerCode, o⟩]))) := by
      simp [itemsOf, othersOf, Item.kind]
    rw [e1, othersOf_append, othersOf_append, othersOf_append,
      others_none (xdItems e) (by intro i hi; simp [hxk i hi]),
      others_none (reItems e) (by intro i hi; simp [hrk i hi]),
      others_none [.owner ⟨ownerCode, o⟩] (by intro i hi; simp at hi; subst hi; simp [Item.kind]),
      others_apps e.appdata (by
        intro p hp
        exact ⟨hak _ (List.mem_map_of_mem hp), (ok.appdata p hp).2.2.1⟩)]
    simp
  · have e1 : xdictOf (itemsOf e h o) = xdictOf (e.appdata.map (fun p => Item.group p.2) ++ (xdItems e ++ (reItems e ++ [.owner ⟨ownerCode, o⟩]))) := by
      simp [itemsOf, xdictOf, Item.kind]
    rw [e1, xdictOf_skip _ _ (by intro i hi; simp [hak i hi])]
    unfold xdItems
    cases hx : e.xdict with
    | none =>
      simp only [List.nil_append]
      rw [xdictOf_skip _ _ (by intro i hi; simp [hrk i hi])]
      simp [xdictOf, Item.kind]
    | some x =>
      have hk := kind_xdictGroup x
      simp only [List.cons_append, List.nil_append, xdictOf, hk, beq_self_eq_true, if_true, Item.tags]
      rfl
  · have e1 : reactorsOf (itemsOf e h o) = reactorsOf (e.appdata.map (fun p => Item.group p.2) ++ (xdItems e ++ (reItems e ++ [.owner ⟨ownerCode, o⟩]))) := by
      simp [itemsOf, reactorsOf, Item.kind]
    rw [e1, reactorsOf_skip _ _ (by intro i hi; simp [hak i hi]), reactorsOf_skip _ _ (by intro i hi; simp [hxk i hi])]
    unfold reItems
    cases hr : e.reactors with
    | none => simp [reactorsOf, Item.kind]
    | some rs =>
      have hbody : groupBody (reactorsGroup rs) = rs.map (fun v => (⟨reactorHandleCode, v⟩ : Tag)) := groupBody_shape _ _ _
      have hk := kind_reactorsGroup rs
      simp only [List.cons_append, List.nil_append, reactorsOf, hk, beq_self_eq_true, if_true, Item.tags, hbody]
      simp [List.map_map, Function.comp_def]

/-- export, then load: the entity comes back with the same handle, owner, application data, extension dictionary, reactors,
    subclasses, embedded objects and XDATA -/
theorem envelope_roundtrip' : ∃ t, exportEnt alive e = .ok t ∧ load t = .ok e := by
  obtain ⟨h, hh⟩ := Option.isSome_iff_exists.mp ok.handle
  obtain ⟨o, ho⟩ := Option.isSome_iff_exists.mp ok.owner
  refine ⟨_, export_eq ok h o hh ho, ?_⟩
  obtain ⟨c1, c2, c3, c4⟩ := counts ok h o
  obtain ⟨f1, f2, f3, f4, f5⟩ := items_fields ok h o
  obtain ⟨s1, s2, s3⟩ := rest_split ok
  have hxe := restXdata_eq ok
  have hkeys : ((e.xdata.map (·.2)).map groupKey) = e.xdata.map (·.1) := by
    rw [List.map_map]
    apply List.map_congr_left
    intro p hp
    exact ((ok.xdata p hp).2.2).symm
  have hl := load_items alive ⟨0, e.typ⟩ (itemsOf e h o) (restOf e) rfl (shapes ok h o) (rest_head ok) (wfs ok h o)
    (by rw [f3]; exact ok.appkeys) c1 c2 c3 c4
    (by rw [hxe]; intro g hg; obtain ⟨p, hp, rfl⟩ := List.mem_map.mp hg; exact (ok.xdata p hp).2.1)
    (by rw [hxe, hkeys]; exact ok.xkeys)
  rw [hl, f1, f2, f3, f4, f5, s1]
  simp only [s2, hxe]
  have hxd : (e.xdata.map (·.2)).map (fun g => (groupKey g, g)) = e.xdata := by
    rw [List.map_map]
    conv => rhs; rw [← List.map_id e.xdata]
    apply List.map_congr_left
    intro p hp
    have := (ok.xdata p hp).2.2
    simp only [Function.comp, id]
    rw [← this]
  rw [hxd, ← hh, ← ho]

end

end EzdxfVerif.Envelope

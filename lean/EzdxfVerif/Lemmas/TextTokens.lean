/-
Token level: `MTextParser(str(editor), yield_property_commands=True)` returns exactly the tokens the
editor calls stand for, every command with the argument text that was written (lemmas for Props/C20).
-/
import EzdxfVerif.Lemmas.TextEditorX
namespace EzdxfVerif.Text

theorem map_comp (f g : List Token → List Token) (x : Except PyErr (List Token)) :
    f <$> (g <$> x) = (fun ts => f (g ts)) <$> x := by
  cases x <;> rfl

theorem map_id' (x : Except PyErr (List Token)) : (fun ts => ts) <$> x = x := by
  cases x <;> rfl

theorem extractExpr_stack (E rest : Str) (hp : ∀ c ∈ E, stackPlainChar c = true) (hs : ∀ c ∈ E, c ≠ ';') :
    extractExpr true (E ++ ';' :: rest) = (E, rest) := by
  have hf := findIdx_args E rest hs
  have h1 : (E ++ ';' :: rest).take E.length = E := by simp
  have h2 : (E ++ ';' :: rest).drop (E.length + 1) = rest := by rw [← List.drop_drop]; simp
  have hsf := scanFind_noesc (E ++ ';' :: rest) E.length hf (by
    intro c hc
    rw [h1] at hc
    have := hp c hc
    simp only [stackPlainChar, Bool.and_eq_true, bne_iff_ne, ne_eq] at this
    exact this.2)
  simp only [extractExpr, hsf, h1, h2]

theorem map_nil_append (x : Except PyErr (List Token)) : (fun ts => ([] : List Token) ++ ts) <$> x = x := by
  cases x <;> rfl

/-! ### one-step unfoldings of `scanY` -/

theorem scanY_nil (sp : Special) (word : Str) : scanY sp [] word = .ok (flushWord word) := by
  rw [scanY.eq_def]; rfl

theorem scanY_char (sp : Special) (c : Char) (r word : Str)
    (h0 : c ≠ '\\') (h1 : c ≠ '\t') (h2 : c ≠ '\n') (h3 : ¬ c.toNat < 32) (hs : specialAt sp c r = none)
    (h4 : c ≠ ' ') (hb : ¬(c = '{' ∨ c = '}')) :
    scanY sp (c :: r) word = scanY sp r (word ++ [c]) := by
  conv => lhs; rw [scanY.eq_def]
  simp only [↓reduceIte, h0, h1, h2, h3]
  split
  · rename_i h'; rw [hs] at h'; cases h'
  · simp only [h4, hb, ↓reduceIte]

theorem scanY_space (sp : Special) (r word : Str) :
    scanY sp (' ' :: r) word = (fun ts => wordAnd word .space ++ ts) <$> scanY sp r [] := by
  conv => lhs; rw [scanY.eq_def]
  have hs : specialAt sp ' ' r = none := by simp [specialAt]
  simp only [show (' ' : Char) ≠ '\\' by decide, show (' ' : Char) ≠ '\t' by decide, show (' ' : Char) ≠ '\n' by decide,
    show ¬ (' ' : Char).toNat < 32 by decide, ↓reduceIte]
  split
  · rename_i h'; rw [hs] at h'; cases h'
  · rfl

theorem scanY_tab (sp : Special) (r word : Str) :
    scanY sp ('\t' :: r) word = (fun ts => wordAnd word .tab ++ ts) <$> scanY sp r [] := by
  conv => lhs; rw [scanY.eq_def]
  simp

/-- a non-escaped backslash ends the word under construction -/
theorem scanY_bs_flush (sp : Special) (d : Char) (r2 word : Str) (hd : ¬(d = '\\' ∨ d = '{' ∨ d = '}')) :
    scanY sp ('\\' :: d :: r2) word = (fun ts => flushWord word ++ ts) <$> scanY sp ('\\' :: d :: r2) [] := by
  by_cases hw : word = []
  · subst hw; simp only [flushWord, List.isEmpty_nil, ↓reduceIte]; rw [map_nil_append]
  · conv => lhs; rw [scanY.eq_def]
    have he : word.isEmpty = false := by cases word <;> simp_all
    simp only [↓reduceIte, hd, ne_eq, hw, not_false_eq_true, ↓reduceDIte, flushWord, he, Bool.false_eq_true,
      List.cons_append, List.nil_append]

theorem scanY_brace_flush (sp : Special) (c : Char) (r word : Str) (h : c = '{' ∨ c = '}') :
    scanY sp (c :: r) word = (fun ts => flushWord word ++ ts) <$> scanY sp r [] := by
  have h0 : c ≠ '\\' := by rcases h with h | h <;> subst h <;> decide
  have h1 : c ≠ '\t' := by rcases h with h | h <;> subst h <;> decide
  have h2 : c ≠ '\n' := by rcases h with h | h <;> subst h <;> decide
  have h3 : ¬ c.toNat < 32 := by rcases h with h | h <;> subst h <;> decide
  have h4 : c ≠ ' ' := by rcases h with h | h <;> subst h <;> decide
  have hs : specialAt sp c r = none := by
    have : c ≠ '%' := by rcases h with h | h <;> subst h <;> decide
    simp [specialAt, this]
  have hempty : scanY sp (c :: r) [] = scanY sp r [] := by
    conv => lhs; rw [scanY.eq_def]
    simp only [↓reduceIte, h0, h1, h2, h3]
    split
    · rename_i h'; rw [hs] at h'; cases h'
    · simp only [h4, h, ↓reduceIte, ne_eq, not_true_eq_false, ↓reduceDIte]
  by_cases hw : word = []
  · subst hw; simp only [flushWord, List.isEmpty_nil, ↓reduceIte]; rw [map_nil_append, hempty]
  · conv => lhs; rw [scanY.eq_def]
    have he : word.isEmpty = false := by cases word <;> simp_all
    simp only [↓reduceIte, h0, h1, h2, h3]
    split
    · rename_i h'; rw [hs] at h'; cases h'
    · simp only [h4, h, ↓reduceIte, ne_eq, hw, not_false_eq_true, ↓reduceDIte, hempty, flushWord, he,
        Bool.false_eq_true, List.cons_append, List.nil_append]

theorem scanY_P (sp : Special) (r2 : Str) :
    scanY sp ('\\' :: 'P' :: r2) [] = (fun ts => Token.newParagraph :: ts) <$> scanY sp r2 [] := by
  conv => lhs; rw [scanY.eq_def]
  simp

theorem scanY_N (sp : Special) (r2 : Str) :
    scanY sp ('\\' :: 'N' :: r2) [] = (fun ts => Token.newColumn :: ts) <$> scanY sp r2 [] := by
  conv => lhs; rw [scanY.eq_def]
  simp

theorem scanY_X (sp : Special) (r2 : Str) :
    scanY sp ('\\' :: 'X' :: r2) [] = (fun ts => Token.wrapAtDimline :: ts) <$> scanY sp r2 [] := by
  conv => lhs; rw [scanY.eq_def]
  simp

theorem scanY_nbsp (sp : Special) (r2 : Str) :
    scanY sp ('\\' :: '~' :: r2) [] = (fun ts => Token.nbsp :: ts) <$> scanY sp r2 [] := by
  conv => lhs; rw [scanY.eq_def]
  simp

theorem scanY_S (sp : Special) (r2 expr r3 : Str) (he : extractExpr true r2 = (expr, r3)) :
    scanY sp ('\\' :: 'S' :: r2) [] = (fun ts => parseStacking expr :: ts) <$> scanY sp r3 [] := by
  conv => lhs; rw [scanY.eq_def]
  simp only [show ¬(('S' : Char) = '\\' ∨ ('S' : Char) = '{' ∨ ('S' : Char) = '}') by decide,
    show ('S' : Char) ≠ '~' by decide, show ('S' : Char) ≠ 'P' by decide, show ('S' : Char) ≠ 'N' by decide,
    show ('S' : Char) ≠ 'X' by decide, ↓reduceIte, ne_eq, not_true_eq_false, ↓reduceDIte]
  rw [he]

theorem scanY_cmd (sp : Special) (d : Char) (r2 r3 : Str)
    (hd : ¬(d = '\\' ∨ d = '{' ∨ d = '}')) (h1 : d ≠ '~') (h2 : d ≠ 'P') (h3 : d ≠ 'N') (h4 : d ≠ 'X') (h5 : d ≠ 'S')
    (hp : parseProperties d r2 = some (.ok r3)) :
    scanY sp ('\\' :: d :: r2) [] =
      (fun ts => Token.props ('\\' :: d :: r2.take (r2.length - r3.length)) :: ts) <$> scanY sp r3 [] := by
  conv => lhs; rw [scanY.eq_def]
  simp only [↓reduceIte, hd, h1, h2, h3, h4, h5, ne_eq, not_true_eq_false, ↓reduceDIte]
  split
  · rename_i h; rw [hp] at h; cases h
  · rename_i h; rw [hp] at h; cases h
  · rename_i r h; rw [hp] at h; cases h; rfl

/-! ### items -/

theorem scanY_plain (sp : Special) (w rest word : Str) (h : ∀ c ∈ w, isPlain c = true) :
    scanY sp (w ++ rest) word =
      (fun ts => (plainTokens w word).1 ++ ts) <$> scanY sp rest (plainTokens w word).2 := by
  induction w generalizing word with
  | nil => simp only [List.nil_append, plainTokens]; rw [map_id']
  | cons c t ih =>
    have ht : ∀ x ∈ t, isPlain x = true := fun x hx => h x (by simp [hx])
    obtain ⟨h0, h1, h2, h3, h4, _⟩ := isPlain_spec (h c (by simp))
    have h32 : ¬ c.toNat < 32 := by omega
    have htab : c ≠ '\t' := by intro hh; subst hh; exact h32 (by decide)
    have hlf : c ≠ '\n' := by intro hh; subst hh; exact h32 (by decide)
    by_cases hsp : c = ' '
    · subst hsp
      simp only [List.cons_append, plainTokens, ↓reduceIte]
      rw [scanY_space, ih [] ht, map_comp]
      congr 1
      funext ts; simp
    · simp only [List.cons_append, plainTokens, hsp, ↓reduceIte]
      rw [scanY_char sp c _ word h1 htab hlf h32 (specialAt_plain sp c _ h4) hsp (by simp [h2, h3]), ih _ ht]

/-- token level well-formedness: as `Item.Wf`, and the numerator of a stacking has none of `^ / #` -/
def Item.WfT : Item → Prop
  | .stack u l t => (Item.stack u l t).Wf ∧ ∀ c ∈ u, c ≠ '^' ∧ c ≠ '/' ∧ c ≠ '#'
  | i => i.Wf

theorem Item.WfT.wf {i : Item} (h : i.WfT) : i.Wf := by
  cases i <;> first | exact h | exact h.1

theorem parseNumerator_split (u l w : Str) (t : Char)
    (hu : ∀ c ∈ u, stackPlainChar c = true ∧ c ≠ '^' ∧ c ≠ '/' ∧ c ≠ '#') (ht : t = '^' ∨ t = '/' ∨ t = '#') :
    parseNumerator (u ++ t :: l) w = (w ++ u, [t], l) := by
  induction u generalizing w with
  | nil =>
    simp only [List.nil_append, List.append_nil]
    rw [parseNumerator.eq_def]
    have hp : stackPlainChar t = true := by rcases ht with rfl | rfl | rfl <;> decide
    simp only [stackNext_plain t l hp]
    rcases ht with rfl | rfl | rfl <;> simp
  | cons c r ih =>
    obtain ⟨hp, c1, c2, c3⟩ := hu c (by simp)
    simp only [List.cons_append]
    rw [parseNumerator.eq_def]
    simp only [stackNext_plain c _ hp]
    simp only [Bool.not_false, List.cons.injEq, c1, c2, c3, and_true, or_self, and_false, ↓reduceIte]
    rw [ih _ (fun x hx => hu x (by simp [hx]))]
    simp

theorem parseStacking_split (u l : Str) (t : Char)
    (hu : ∀ c ∈ u, stackPlainChar c = true ∧ c ≠ '^' ∧ c ≠ '/' ∧ c ≠ '#')
    (hl : ∀ c ∈ l, stackPlainChar c = true) (ht : t = '^' ∨ t = '/' ∨ t = '#') :
    parseStacking (u ++ t :: l) = .stack u l [t] := by
  unfold parseStacking
  rw [parseNumerator_split u l [] t hu ht]
  simp [parseDenominator_plain l [] hl]

theorem item_tokens (sp : Special) (i : Item) (rest word : Str) (h : i.WfT) :
    scanY sp (i.renderD ++ rest) word = (fun ts => (i.tokens word).1 ++ ts) <$> scanY sp rest (i.tokens word).2 := by
  cases i with
  | plain w => exact scanY_plain sp w rest word h
  | cmd d args =>
    obtain ⟨hd, ha, hok⟩ := h
    obtain ⟨c1, _, _, c4, _, _⟩ := cmdLetters_spec hd
    obtain ⟨b1, b2, b3, b4⟩ := cmdLetters_spec2 hd
    have e : (Item.cmd d args).renderD ++ rest = '\\' :: d :: (args ++ ';' :: rest) := by simp [Item.renderD, Item.render]
    rw [e, scanY_bs_flush sp d _ word c1, scanY_cmd sp d _ rest c1 b1 b2 b3 b4 c4 (hok rest), map_comp]
    have htake : (args ++ ';' :: rest).take ((args ++ ';' :: rest).length - rest.length) = args ++ [';'] := by
      have : (args ++ ';' :: rest).length - rest.length = (args ++ [';']).length := by simp; omega
      rw [this]
      have e2 : args ++ ';' :: rest = (args ++ [';']) ++ rest := by simp
      rw [e2, List.take_left']
      rfl
    rw [htake]
    simp only [Item.tokens]
    congr 1; funext ts; simp
  | one d =>
    have e : (Item.one d).renderD ++ rest = '\\' :: d :: rest := by simp [Item.renderD, Item.render]
    rw [e]
    have hne : ¬(d = '\\' ∨ d = '{' ∨ d = '}') := by
      rcases h with h | h | h | h | h | h | h | h <;> subst h <;> decide
    rw [scanY_bs_flush sp d rest word hne]
    rcases h with h | h | h | h | h | h | h | h
    · subst h; rw [scanY_P, map_comp]; simp only [Item.tokens, ↓reduceIte]; congr 1; funext ts; simp
    all_goals first
      | (subst h; rw [scanY_X, map_comp]; simp only [Item.tokens]
         simp only [show ('X' : Char) ≠ 'P' by decide, ↓reduceIte]; congr 1; funext ts; simp)
      | (subst h
         rw [scanY_cmd sp _ rest rest (by decide) (by decide) (by decide) (by decide) (by decide) (by decide)
           (parseProperties_stroke _ rest (by rw [mem_stroke]; simp)), map_comp]
         simp only [Item.tokens, Nat.sub_self, List.take_zero]
         first
           | (simp only [show ('L' : Char) ≠ 'P' by decide, show ('L' : Char) ≠ 'X' by decide, ↓reduceIte]; congr 1; funext ts; simp)
           | (simp only [show ('l' : Char) ≠ 'P' by decide, show ('l' : Char) ≠ 'X' by decide, ↓reduceIte]; congr 1; funext ts; simp)
           | (simp only [show ('O' : Char) ≠ 'P' by decide, show ('O' : Char) ≠ 'X' by decide, ↓reduceIte]; congr 1; funext ts; simp)
           | (simp only [show ('o' : Char) ≠ 'P' by decide, show ('o' : Char) ≠ 'X' by decide, ↓reduceIte]; congr 1; funext ts; simp)
           | (simp only [show ('K' : Char) ≠ 'P' by decide, show ('K' : Char) ≠ 'X' by decide, ↓reduceIte]; congr 1; funext ts; simp)
           | (simp only [show ('k' : Char) ≠ 'P' by decide, show ('k' : Char) ≠ 'X' by decide, ↓reduceIte]; congr 1; funext ts; simp))
  | openGroup =>
    have e : Item.openGroup.renderD ++ rest = '{' :: rest := by simp [Item.renderD, Item.render]
    rw [e, scanY_brace_flush sp '{' rest word (Or.inl rfl)]; rfl
  | closeGroup =>
    have e : Item.closeGroup.renderD ++ rest = '}' :: rest := by simp [Item.renderD, Item.render]
    rw [e, scanY_brace_flush sp '}' rest word (Or.inr rfl)]; rfl
  | stack u l t =>
    obtain ⟨⟨hu, hl, ht⟩, hnum⟩ := h
    obtain ⟨hp, hs⟩ := stack_expr_plain hu hl ht
    have e : (Item.stack u l t).renderD ++ rest = '\\' :: 'S' :: ((u ++ t :: l) ++ ';' :: rest) := by
      simp [Item.renderD]
    have he := extractExpr_stack (u ++ t :: l) rest hp hs
    have hst : parseStacking (u ++ t :: l) = .stack u l [t] := by
      apply parseStacking_split u l t _ _ ht
      · intro c hc
        exact ⟨hp c (by simp [hc]), hnum c hc⟩
      · intro c hc
        exact hp c (by simp [hc])
    rw [e, scanY_bs_flush sp 'S' _ word (by decide), scanY_S sp _ _ rest he, hst, map_comp]
    simp only [Item.tokens]
    congr 1; funext ts; simp

def XItem.WfT : XItem → Prop
  | .base i => i.WfT
  | _ => True

theorem XItem.WfT.wf {x : XItem} (h : x.WfT) : x.Wf := by
  cases x <;> first | exact Item.WfT.wf h | trivial

theorem xitem_tokens (sp : Special) (x : XItem) (rest word : Str) (h : x.WfT) :
    scanY sp (x.renderD ++ rest) word = (fun ts => (x.tokens word).1 ++ ts) <$> scanY sp rest (x.tokens word).2 := by
  cases x with
  | base i => exact item_tokens sp i rest word h
  | tab => simp only [XItem.renderD, XItem.tokens, List.cons_append, List.nil_append]; rw [scanY_tab]
  | nbsp =>
    simp only [XItem.renderD, XItem.render, XItem.tokens, List.cons_append, List.nil_append]
    rw [scanY_bs_flush sp '~' rest word (by decide), scanY_nbsp, map_comp]
    congr 1; funext ts; simp
  | newColumn =>
    simp only [XItem.renderD, XItem.render, XItem.tokens, List.cons_append, List.nil_append]
    rw [scanY_bs_flush sp 'N' rest word (by decide), scanY_N, map_comp]
    congr 1; funext ts; simp

theorem xitems_tokens (sp : Special) (xs : List XItem) (word : Str) (h : ∀ x ∈ xs, x.WfT) :
    scanY sp (xRenderD xs) word = .ok (xitemsTokens xs word) := by
  induction xs generalizing word with
  | nil => simp only [xRenderD, List.map_nil, List.flatten_nil, xitemsTokens]; exact scanY_nil sp word
  | cons x t ih =>
    have e : xRenderD (x :: t) = x.renderD ++ xRenderD t := by simp [xRenderD]
    rw [e, xitem_tokens sp x _ word (h x (by simp)), ih _ (fun y hy => h y (by simp [hy]))]
    rfl

theorem EdOp.wfT_wf {o : EdOp} (h : o.wfT = true) : o.wf = true := by
  cases o <;> first | exact h | (simp only [EdOp.wfT, Bool.and_eq_true] at h; exact h.1)

theorem edop_items_wfT (o : EdOp) (h : o.wfT = true) : ∀ i ∈ o.items, i.WfT := by
  intro i hi
  have hwf := edop_items_wf o (EdOp.wfT_wf h) i hi
  cases i with
  | stack u l t =>
    refine ⟨hwf, ?_⟩
    cases o <;> simp only [EdOp.items, List.mem_cons, List.not_mem_nil, or_false, reduceCtorEq, or_self] at hi
    case stack u' l' t' =>
      cases hi
      simp only [EdOp.wfT, Bool.and_eq_true, List.all_eq_true, bne_iff_ne, ne_eq] at h
      exact fun c hc => ⟨(h.2 c hc).1.1, (h.2 c hc).1.2, (h.2 c hc).2⟩
    case paragraph a => cases a <;> simp [EdOp.items] at hi
  | plain w => exact hwf
  | cmd d a => exact hwf
  | one d => exact hwf
  | openGroup => exact hwf
  | closeGroup => exact hwf

theorem xop_items_wfT (o : XOp) (h : o.wfT = true) : ∀ x ∈ o.items, x.WfT := by
  intro x hx
  cases o with
  | op o =>
    simp only [XOp.items, List.mem_map] at hx
    obtain ⟨i, hi, rfl⟩ := hx
    exact edop_items_wfT o h i hi
  | tab => simp only [XOp.items, List.mem_cons, List.not_mem_nil, or_false] at hx; subst hx; trivial
  | nbsp => simp only [XOp.items, List.mem_cons, List.not_mem_nil, or_false] at hx; subst hx; trivial
  | newColumn => simp only [XOp.items, List.mem_cons, List.not_mem_nil, or_false] at hx; subst hx; trivial
  | bulletList a rows =>
    have hw := xop_items_wf (.bulletList a rows) h x hx
    simp only [XOp.items, List.mem_append, List.mem_cons, List.not_mem_nil, or_false, List.mem_map,
      List.mem_flatten] at hx
    rcases hx with ((rfl | ⟨i, hi, rfl⟩) | ⟨l, ⟨row, _, rfl⟩, hxl⟩) | rfl
    · trivial
    · cases a with
      | none => simp [EdOp.items] at hi
      | some a =>
        simp only [EdOp.items, List.mem_cons, List.not_mem_nil, or_false] at hi
        subst hi; exact hw
    · simp only [rowItems, List.mem_cons, List.not_mem_nil, or_false] at hxl
      rcases hxl with rfl | rfl | rfl | rfl <;> exact hw
    · trivial

/-- every sequence of editor calls (token level in range): the parser in `yield_property_commands`
    mode returns exactly the expected token stream -/
theorem xeditor_tokens (sp : Special) (ops : List XOp) (h : ∀ o ∈ ops, o.wfT = true) :
    parseY sp (xEditorText ops) = .ok (xEditorTokens ops) := by
  have hw : ∀ x ∈ (ops.map XOp.items).flatten, x.WfT := by
    intro x hx
    simp only [List.mem_flatten, List.mem_map] at hx
    obtain ⟨l, ⟨o, ho, rfl⟩, hxl⟩ := hx
    exact xop_items_wfT o (h o ho) x hxl
  have hc := xitems_caret (ops.map XOp.items).flatten [] (fun x hx => XItem.WfT.wf (hw x hx))
  simp only [List.append_nil] at hc
  have hcd : caretDecode ([] : Str) = [] := rfl
  rw [hcd, List.append_nil] at hc
  unfold parseY xEditorText xEditorTokens
  rw [hc]
  exact xitems_tokens sp _ [] hw

/-! ### the default mode is the yield mode without the PROPERTIES_CHANGED tokens -/

def notProps : Token → Bool
  | .props _ => false
  | _ => true

def eraseProps (ts : List Token) : List Token := ts.filter notProps

theorem erase_map (f : List Token → List Token) (g : List Token → List Token) (x : Except PyErr (List Token))
    (h : ∀ ts, eraseProps (f ts) = g (eraseProps ts)) :
    eraseProps <$> (f <$> x) = g <$> (eraseProps <$> x) := by
  cases x with
  | error e => rfl
  | ok a => simp [Functor.map, Except.map, h]

theorem erase_wordAnd (w : Str) (t : Token) (h : notProps t = true) (ts : List Token) :
    eraseProps (wordAnd w t ++ ts) = wordAnd w t ++ eraseProps ts := by
  unfold wordAnd eraseProps
  split <;> simp [List.filter, h, show notProps (Token.word w) = true from rfl]

theorem erase_cons (t : Token) (h : notProps t = true) (ts : List Token) :
    eraseProps (t :: ts) = t :: eraseProps ts := by
  simp [eraseProps, List.filter, h]

theorem erase_map' (f : List Token → List Token) (x : Except PyErr (List Token)) (y : Except PyErr (List Token))
    (h : ∀ ts, eraseProps (f ts) = f (eraseProps ts)) (ih : eraseProps <$> x = y) :
    eraseProps <$> (f <$> x) = f <$> y := by
  subst ih
  cases x with
  | error e => rfl
  | ok a => simp [Functor.map, Except.map, h]

theorem scanY_erase (sp : Special) (rest word : Str) :
    eraseProps <$> scanY sp rest word = scan sp rest word := by
  fun_induction scanY sp rest word
  all_goals (conv => rhs; rw [scan.eq_def])
  all_goals try simp only [↓reduceIte, ↓reduceDIte, ne_eq, not_true_eq_false, not_false_eq_true, *]
  case case1 word =>
    by_cases hw : word.isEmpty <;> simp [hw, eraseProps, notProps, Functor.map, Except.map]
  case case2 word =>
    have := erase_wordAnd word .space rfl []
    simp only [List.append_nil, show eraseProps [] = [] from rfl] at this
    simp [Functor.map, Except.map, this]
  case case4 ih => exact erase_map' _ _ _ (fun ts => erase_cons _ rfl ts) ih
  case case5 ih => exact erase_map' _ _ _ (fun ts => erase_cons _ rfl ts) ih
  case case6 ih => exact erase_map' _ _ _ (fun ts => erase_cons _ rfl ts) ih
  case case7 ih => exact erase_map' _ _ _ (fun ts => erase_cons _ rfl ts) ih
  case case8 ih => exact erase_map' _ _ _ (fun ts => erase_cons _ rfl ts) ih
  case case9 ih =>
    exact erase_map' _ _ _ (fun ts => erase_cons _ (by unfold parseStacking; rfl) ts) ih
  case case10 hp ih =>
    split
    · rfl
    · rename_i h; rw [hp] at h; cases h
    · rename_i h; rw [hp] at h; cases h
  case case11 e hp =>
    split
    · rename_i h; rw [hp] at h; cases h
    · rename_i h; rw [hp] at h; cases h; rfl
    · rename_i h; rw [hp] at h; cases h
  case case12 word d r2 _ hw _ _ _ _ _ r3 hp _ ih =>
    simp only [ne_eq, Decidable.not_not] at hw; subst hw
    split
    · rename_i h; rw [hp] at h; cases h
    · rename_i h; rw [hp] at h; cases h
    · rename_i r3' h; rw [hp] at h; cases h
      rw [← ih]
      cases scanY sp r3 [] with
      | error e => rfl
      | ok a => simp [Functor.map, Except.map, eraseProps, List.filter, notProps]
  case case13 ih => exact erase_map' _ _ _ (fun ts => erase_wordAnd _ _ rfl ts) ih
  case case14 ih => exact erase_map' _ _ _ (fun ts => erase_wordAnd _ _ rfl ts) ih
  case case15 ih => exact erase_map' _ _ _ (fun ts => erase_wordAnd _ _ rfl ts) ih
  case case16 hs _ ih =>
    split
    · rename_i l' r3' h; rw [hs] at h; cases h; rfl
    · rename_i h; rw [hs] at h; cases h
  case case17 hs ih =>
    split
    · rename_i h; rw [hs] at h; cases h
    · exact erase_map' _ _ _ (fun ts => erase_wordAnd _ _ rfl ts) ih
  case case18 hs _ _ _ _ ih =>
    split
    · rename_i h; rw [hs] at h; cases h
    · exact erase_map' _ _ _ (fun ts => erase_cons _ rfl ts) ih
  case case19 hs _ _ _ ih =>
    split
    · rename_i h; rw [hs] at h; cases h
    · rfl
  case case20 hs _ _ ih =>
    split
    · rename_i h; rw [hs] at h; cases h
    · rfl


end EzdxfVerif.Text

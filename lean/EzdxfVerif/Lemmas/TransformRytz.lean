/-
Helper lemmas for property C12, session 3: `rytz_axis_construction` (regenerated kernel `rytz`) in readable form and the
algebra of Rytz's construction.
-/
import EzdxfVerif.Lemmas.Transform

namespace EzdxfVerif.Transform
open EzdxfVerif.Rat3 EzdxfVerif.Gen

/-- `Vec3.normalize(length)` as the code computes it: v * (length / |v|) with the root `r` supplied -/
def scaleTo (v : V3) (len r : Rat) : V3 := ⟨v.x * (len / r), v.y * (len / r), v.z * (len / r)⟩
/-- `a.lerp(b)` with the default factor 0.5 -/
def lerpHalf (a b : V3) : V3 := ⟨a.x + (b.x - a.x) * ((1 : Rat) / 2), a.y + (b.y - a.y) * ((1 : Rat) / 2), a.z + (b.z - a.z) * ((1 : Rat) / 2)⟩
/-- the double nearest to 1e-12 (default abs_tol of Vec3.isclose) -/
def tol12 : Rat := 4951760157141521 / 4951760157141521099596496896
/-- `v.isclose(NULLVEC)` -/
def IsNull (v : V3) : Prop :=
  (pyIsclose v.x 0 tol9 tol12 = true ∧ pyIsclose v.y 0 tol9 tol12 = true) ∧ pyIsclose v.z 0 tol9 tol12 = true
instance (v : V3) : Decidable (IsNull v) := by unfold IsNull; infer_instance

def rytzD (Q P1 : V3) : V3 := lerpHalf P1 Q
def rytzW (Q P1 : V3) : V3 := ⟨Q.x - P1.x, Q.y - P1.y, Q.z - P1.z⟩
def rytzA (Q P1 : V3) (ρ ℓ : Rat) : V3 :=
  ⟨(rytzD Q P1).x - (rytzW Q P1).x * (ρ / ℓ), (rytzD Q P1).y - (rytzW Q P1).y * (ρ / ℓ), (rytzD Q P1).z - (rytzW Q P1).z * (ρ / ℓ)⟩
def rytzB (Q P1 : V3) (ρ ℓ : Rat) : V3 :=
  ⟨(rytzD Q P1).x + (rytzW Q P1).x * (ρ / ℓ), (rytzD Q P1).y + (rytzW Q P1).y * (ρ / ℓ), (rytzD Q P1).z + (rytzW Q P1).z * (ρ / ℓ)⟩

/-- Rytz's construction after the auxiliary point P' (= P turned by 90° in the plane of the ellipse) is known.
    ρ = |D| (D the midpoint of P'Q), ℓ = |Q − P'|, ra = |A − Q|, rb = |B − Q|, rB = |B|, rA = |A| are the square roots the
    code evaluates, in this order. -/
def rytzCore (Q P1 : V3) (ρ ℓ ra rb rB rA : Rat) : Except PyErr (V3 × V3 × Rat) :=
  if ℓ = 0 then .error .zeroDivision else
  if IsNull (rytzA Q P1 ρ ℓ) ∨ IsNull (rytzB Q P1 ρ ℓ) then .error .valueError
  else if pyIsclose ra 0 tol9 0 = true ∨ pyIsclose rb 0 tol9 0 = true then .error .valueError
  else
    if ra = 0 then .error .zeroDivision else
    if rB = 0 then .error .zeroDivision else
    if rA = 0 then .error .zeroDivision else
    .ok (scaleTo (rytzB Q P1 ρ ℓ) ra rB, scaleTo (rytzA Q P1 ρ ℓ) rb rA, rb / ra)

/-- the branch test of `rytz_axis_construction`: both vectors lie in the xy-plane -/
def Flat (d1 d2 : V3) : Prop := pyIsclose d1.z 0 tol9 tol9 = true ∧ pyIsclose d2.z 0 tol9 tol9 = true
instance (d1 d2 : V3) : Decidable (Flat d1 d2) := by unfold Flat; infer_instance

/-- `Vec3.orthogonal(ccw=False)`: (x, y, z) ↦ (y, -x, z) -/
def orthoCw (v : V3) : V3 := ⟨v.y, -v.x, v.z⟩

set_option pp.deepTerms true in
set_option pp.maxSteps 10000000 in
set_option maxRecDepth 4000 in
/-- xy-plane branch of the regenerated kernel = `rytzCore` with P' = d2 turned clockwise by 90° -/
theorem rytz_flat (d1 d2 : V3) (r1 r2 r3 r4 r5 r6 r7 r8 : Rat) (h : Flat d1 d2) :
    TransformKernels.rytz d1 d2 r1 r2 r3 r4 r5 r6 r7 r8 = rytzCore d1 (orthoCw d2) r1 r2 r3 r4 r5 r6 := by
  unfold Flat at h
  simp only [tol9] at h
  simp only [TransformKernels.rytz, h, and_self, if_true, rytzCore, rytzA, rytzB, rytzD, rytzW, lerpHalf, scaleTo, orthoCw, IsNull,
    tol9, tol12]
  rfl

set_option maxRecDepth 8000 in
/-- general 3-D branch: P' = (d1 × d2) × d2 scaled to the length of d2 (r1 = |d2|, r2 = |(d1 × d2) × d2|) -/
theorem rytz_space (d1 d2 : V3) (r1 r2 r3 r4 r5 r6 r7 r8 : Rat) (h : ¬ Flat d1 d2) :
    TransformKernels.rytz d1 d2 r1 r2 r3 r4 r5 r6 r7 r8 =
      if r2 = 0 then .error .zeroDivision
      else rytzCore d1 (scaleTo (V3.cross (V3.cross d1 d2) d2) r1 r2) r3 r4 r5 r6 r7 r8 := by
  unfold Flat at h
  simp only [tol9] at h
  simp only [TransformKernels.rytz, h, if_false, rytzCore, rytzA, rytzB, rytzD, rytzW, lerpHalf, scaleTo, IsNull, V3.cross,
    tol9, tol12]
  rfl

def vsub (a b : V3) : V3 := ⟨a.x - b.x, a.y - b.y, a.z - b.z⟩

set_option maxRecDepth 8000 in
/-- the six radicands of the xy-plane branch -/
theorem rytz_rads_flat (d1 d2 : V3) (r1 r2 r3 r4 r5 : Rat) (h : Flat d1 d2) :
    TransformKernels.rytz_rad1 d1 d2 = magSq (rytzD d1 (orthoCw d2)) ∧
    TransformKernels.rytz_rad2 d1 d2 r1 = magSq (rytzW d1 (orthoCw d2)) ∧
    (r2 ≠ 0 → ¬ (IsNull (rytzA d1 (orthoCw d2) r1 r2) ∨ IsNull (rytzB d1 (orthoCw d2) r1 r2)) →
      TransformKernels.rytz_rad3 d1 d2 r1 r2 = magSq (vsub (rytzA d1 (orthoCw d2) r1 r2) d1) ∧
      TransformKernels.rytz_rad4 d1 d2 r1 r2 r3 = magSq (vsub (rytzB d1 (orthoCw d2) r1 r2) d1) ∧
      (¬ (pyIsclose r3 0 tol9 0 = true ∨ pyIsclose r4 0 tol9 0 = true) → r3 ≠ 0 →
        TransformKernels.rytz_rad5 d1 d2 r1 r2 r3 r4 = magSq (rytzB d1 (orthoCw d2) r1 r2) ∧
        (r5 ≠ 0 → TransformKernels.rytz_rad6 d1 d2 r1 r2 r3 r4 r5 = magSq (rytzA d1 (orthoCw d2) r1 r2)))) := by
  unfold Flat at h
  simp only [tol9] at h
  refine ⟨?_, ?_, ?_⟩
  · simp only [TransformKernels.rytz_rad1, h, and_self, if_true, rytzD, lerpHalf, orthoCw, magSq, V3.dot]
  · simp only [TransformKernels.rytz_rad2, h, and_self, if_true, rytzW, orthoCw, magSq, V3.dot]
  · intro h2 hnull
    simp only [rytzA, rytzB, rytzD, rytzW, lerpHalf, orthoCw, IsNull, tol9, tol12] at hnull
    refine ⟨?_, ?_, ?_⟩
    · simp only [TransformKernels.rytz_rad3, h, and_self, if_true, h2, if_false, hnull, rytzA, rytzD, rytzW, lerpHalf, orthoCw, vsub, magSq, V3.dot]
    · simp only [TransformKernels.rytz_rad4, h, and_self, if_true, h2, if_false, hnull, rytzB, rytzD, rytzW, lerpHalf, orthoCw, vsub, magSq, V3.dot]
    · intro hz h3
      simp only [tol9] at hz
      refine ⟨?_, ?_⟩
      · simp only [TransformKernels.rytz_rad5, h, and_self, if_true, h2, if_false, hnull, hz, h3, rytzB, rytzD, rytzW, lerpHalf, orthoCw, magSq, V3.dot]
      · intro h5
        simp only [TransformKernels.rytz_rad6, h, and_self, if_true, h2, if_false, hnull, hz, h3, h5, rytzA, rytzD, rytzW, lerpHalf, orthoCw, magSq, V3.dot]

/-! ## the algebra of Rytz's construction

u, v: unit vectors along D (centre → midpoint of P'Q) and along P'Q; ρ = |D|, h = |P'Q| / 2.  Then Q = ρu + hv, P' = ρu − hv,
the axes point along the bisectors u + v and u − v and have the lengths ρ + h and |ρ − h|.  The three identities say that the
tensor  a²·b̂b̂ᵀ + b²·ââᵀ  of the constructed axes equals  QQᵀ + PPᵀ  (P = P' turned back by +90°), component by component, with
the denominators |u ± v|² = 2 ± 2u·v cleared.  Cofactors computed by exact polynomial division (dev tool, not trusted: `ring`
re-checks them). -/
theorem rytz_uv (u1 u2 v1 v2 ρ h : Rat) (hu : u1 * u1 + u2 * u2 = 1) (hv : v1 * v1 + v2 * v2 = 1) :
    ((u1 + v1) * (u1 + v1) * ((ρ + h) * (ρ + h)) * (2 - 2 * (u1 * v1 + u2 * v2)) + (u1 - v1) * (u1 - v1) * ((ρ - h) * (ρ - h)) * (2 + 2 * (u1 * v1 + u2 * v2)) = ((ρ * u1 + h * v1) * (ρ * u1 + h * v1) + (-(ρ * u2 - h * v2)) * (-(ρ * u2 - h * v2))) * (2 + 2 * (u1 * v1 + u2 * v2)) * (2 - 2 * (u1 * v1 + u2 * v2))) ∧
    ((u1 + v1) * (u2 + v2) * ((ρ + h) * (ρ + h)) * (2 - 2 * (u1 * v1 + u2 * v2)) + (u1 - v1) * (u2 - v2) * ((ρ - h) * (ρ - h)) * (2 + 2 * (u1 * v1 + u2 * v2)) = ((ρ * u1 + h * v1) * (ρ * u2 + h * v2) + (-(ρ * u2 - h * v2)) * (ρ * u1 - h * v1)) * (2 + 2 * (u1 * v1 + u2 * v2)) * (2 - 2 * (u1 * v1 + u2 * v2))) ∧
    ((u2 + v2) * (u2 + v2) * ((ρ + h) * (ρ + h)) * (2 - 2 * (u1 * v1 + u2 * v2)) + (u2 - v2) * (u2 - v2) * ((ρ - h) * (ρ - h)) * (2 + 2 * (u1 * v1 + u2 * v2)) = ((ρ * u2 + h * v2) * (ρ * u2 + h * v2) + (ρ * u1 - h * v1) * (ρ * u1 - h * v1)) * (2 + 2 * (u1 * v1 + u2 * v2)) * (2 - 2 * (u1 * v1 + u2 * v2))) := by
  refine ⟨?_, ?_, ?_⟩
  · linear_combination ((8 : Rat) * u1 * u1 * v1 * v1 * ρ * ρ + (4 : Rat) * u1 * u1 * v2 * v2 * ρ * ρ + (-4 : Rat) * u1 * u1 * ρ * ρ + (8 : Rat) * u1 * u2 * v1 * v2 * ρ * ρ + (-8 : Rat) * u1 * v1 * v2 * v2 * ρ * h + (4 : Rat) * u2 * u2 * v2 * v2 * ρ * ρ + (-8 : Rat) * u2 * v2 * v2 * v2 * ρ * h + (4 : Rat) * v1 * v1 * v2 * v2 * h * h + (-4 : Rat) * v1 * v1 * ρ * ρ + (4 : Rat) * v2 * v2 * v2 * v2 * h * h) * hu + ((-4 : Rat) * u1 * u1 * u1 * u1 * ρ * ρ + (8 : Rat) * u1 * u1 * u1 * v1 * ρ * h + (-4 : Rat) * u1 * u1 * u2 * u2 * ρ * ρ + (8 : Rat) * u1 * u1 * u2 * v2 * ρ * h + (4 : Rat) * u1 * u1 * v1 * v1 * h * h + (-4 : Rat) * u1 * u1 * v2 * v2 * h * h + (4 : Rat) * u1 * u1 * ρ * ρ + (-4 : Rat) * u1 * u1 * h * h + (8 : Rat) * u1 * u2 * v1 * v2 * h * h + (-8 : Rat) * u1 * v1 * ρ * h + (4 : Rat) * u2 * u2 * ρ * ρ + (-8 : Rat) * u2 * v2 * ρ * h + (4 : Rat) * v2 * v2 * h * h) * hv
  · linear_combination ((16 : Rat) * u1 * v1 * v1 * v2 * ρ * h + (8 : Rat) * u1 * v2 * v2 * v2 * ρ * h + (-8 : Rat) * u1 * v2 * ρ * h + (8 : Rat) * u2 * v1 * v2 * v2 * ρ * h + (-4 : Rat) * v1 * v2 * ρ * ρ + (-4 : Rat) * v1 * v2 * h * h) * hu + ((-8 : Rat) * u1 * u1 * u1 * v2 * ρ * h + (8 : Rat) * u1 * u1 * u2 * v1 * ρ * h + (-4 : Rat) * u1 * u2 * ρ * ρ + (-4 : Rat) * u1 * u2 * h * h + (8 : Rat) * u1 * v2 * ρ * h) * hv
  · linear_combination ((8 : Rat) * u1 * u1 * v1 * v1 * ρ * ρ + (4 : Rat) * u1 * u1 * v2 * v2 * ρ * ρ + (-4 : Rat) * u1 * u1 * ρ * ρ + (8 : Rat) * u1 * u2 * v1 * v2 * ρ * ρ + (8 : Rat) * u1 * v1 * v2 * v2 * ρ * h + (-8 : Rat) * u1 * v1 * ρ * h + (4 : Rat) * u2 * u2 * v2 * v2 * ρ * ρ + (8 : Rat) * u2 * v2 * v2 * v2 * ρ * h + (-8 : Rat) * u2 * v2 * ρ * h + (4 : Rat) * v1 * v1 * v2 * v2 * h * h + (-4 : Rat) * v1 * v1 * ρ * ρ + (4 : Rat) * v2 * v2 * v2 * v2 * h * h + (-8 : Rat) * v2 * v2 * ρ * ρ + (-8 : Rat) * v2 * v2 * h * h + (4 : Rat) * ρ * ρ + (4 : Rat) * h * h) * hu + ((-4 : Rat) * u1 * u1 * u1 * u1 * ρ * ρ + (-8 : Rat) * u1 * u1 * u1 * v1 * ρ * h + (-4 : Rat) * u1 * u1 * u2 * u2 * ρ * ρ + (-8 : Rat) * u1 * u1 * u2 * v2 * ρ * h + (4 : Rat) * u1 * u1 * v1 * v1 * h * h + (-4 : Rat) * u1 * u1 * v2 * v2 * h * h + (12 : Rat) * u1 * u1 * ρ * ρ + (4 : Rat) * u1 * u1 * h * h + (8 : Rat) * u1 * u2 * v1 * v2 * h * h + (4 : Rat) * u2 * u2 * ρ * ρ + (4 : Rat) * v2 * v2 * h * h + (-4 : Rat) * ρ * ρ + (-4 : Rat) * h * h) * hv

/-- Rytz in the plane, scalar form.  (dx, dy) = D, (wx, wy) = W = Q − P', Q = D + W/2, P' = D − W/2, P = P' turned by +90°;
    ρ² = |D|², ℓ² = |W|²; B = D + (ρ/ℓ)W, A = D − (ρ/ℓ)W; ra² = |A − Q|², rb² = |B − Q|², rB² = |B|², rA² = |A|².
    Conclusion: the axes  mj = B·(ra/rB), mn = A·(rb/rA)  are orthogonal and  mj mjᵀ + mn mnᵀ = QQᵀ + PPᵀ. -/
theorem rytz_plane (dx dy wx wy ρ ℓ ra rb rB rA : Rat)
    (hρ : ρ * ρ = dx * dx + dy * dy) (hℓ : ℓ * ℓ = wx * wx + wy * wy) (hρ0 : ρ ≠ 0) (hℓ0 : ℓ ≠ 0)
    (hra : ra * ra = (dx - wx * (ρ / ℓ) - (dx + wx / 2)) * (dx - wx * (ρ / ℓ) - (dx + wx / 2))
                   + (dy - wy * (ρ / ℓ) - (dy + wy / 2)) * (dy - wy * (ρ / ℓ) - (dy + wy / 2)))
    (hrb : rb * rb = (dx + wx * (ρ / ℓ) - (dx + wx / 2)) * (dx + wx * (ρ / ℓ) - (dx + wx / 2))
                   + (dy + wy * (ρ / ℓ) - (dy + wy / 2)) * (dy + wy * (ρ / ℓ) - (dy + wy / 2)))
    (hrB : rB * rB = (dx + wx * (ρ / ℓ)) * (dx + wx * (ρ / ℓ)) + (dy + wy * (ρ / ℓ)) * (dy + wy * (ρ / ℓ)))
    (hrA : rA * rA = (dx - wx * (ρ / ℓ)) * (dx - wx * (ρ / ℓ)) + (dy - wy * (ρ / ℓ)) * (dy - wy * (ρ / ℓ)))
    (hB0 : rB ≠ 0) (hA0 : rA ≠ 0) :
    let mjx := (dx + wx * (ρ / ℓ)) * (ra / rB); let mjy := (dy + wy * (ρ / ℓ)) * (ra / rB)
    let mnx := (dx - wx * (ρ / ℓ)) * (rb / rA); let mny := (dy - wy * (ρ / ℓ)) * (rb / rA)
    let qx := dx + wx / 2; let qy := dy + wy / 2
    let px := -(dy - wy / 2); let py := dx - wx / 2
    mjx * mnx + mjy * mny = 0 ∧
    mjx * mjx + mnx * mnx = qx * qx + px * px ∧ mjx * mjy + mnx * mny = qx * qy + px * py ∧
    mjy * mjy + mny * mny = qy * qy + py * py := by
  intro mjx mjy mnx mny qx qy px py
  -- unit vectors u = D/ρ, v = W/ℓ and the half length h = ℓ/2
  obtain ⟨u1, hu1⟩ : ∃ u1, u1 = dx / ρ := ⟨_, rfl⟩
  obtain ⟨u2, hu2⟩ : ∃ u2, u2 = dy / ρ := ⟨_, rfl⟩
  obtain ⟨v1, hv1⟩ : ∃ v1, v1 = wx / ℓ := ⟨_, rfl⟩
  obtain ⟨v2, hv2⟩ : ∃ v2, v2 = wy / ℓ := ⟨_, rfl⟩
  obtain ⟨h, hh⟩ : ∃ h, h = ℓ / 2 := ⟨_, rfl⟩
  have hh0 : h ≠ 0 := by rw [hh]; exact div_ne_zero hℓ0 (by norm_num)
  have edx : dx = ρ * u1 := by rw [hu1]; field_simp
  have edy : dy = ρ * u2 := by rw [hu2]; field_simp
  have eℓ : ℓ = 2 * h := by rw [hh]; ring
  have ewx : wx = 2 * h * v1 := by rw [hv1, hh]; field_simp
  have ewy : wy = 2 * h * v2 := by rw [hv2, hh]; field_simp
  have hu : u1 * u1 + u2 * u2 = 1 := by rw [hu1, hu2]; field_simp; linarith
  have hv : v1 * v1 + v2 * v2 = 1 := by rw [hv1, hv2]; field_simp; linarith
  clear hu1 hu2 hv1 hv2 hh hρ hℓ
  simp only [mjx, mjy, mnx, mny, qx, qy, px, py]
  clear mjx mjy mnx mny qx qy px py
  subst edx edy ewx ewy eℓ
  have k1 : ∀ z : Rat, 2 * h * z * (ρ / (2 * h)) = ρ * z := by intro z; field_simp
  have k2 : ∀ z : Rat, 2 * h * z / 2 = h * z := by intro z; ring
  simp only [k1, k2] at hra hrb hrB hrA ⊢
  obtain ⟨kxx, kxy, kyy⟩ := rytz_uv u1 u2 v1 v2 ρ h hu hv
  have eB : rB * rB = ρ * ρ * (2 + 2 * (u1 * v1 + u2 * v2)) := by
    linear_combination hrB + (ρ * ρ) * hu + (ρ * ρ) * hv
  have eA : rA * rA = ρ * ρ * (2 - 2 * (u1 * v1 + u2 * v2)) := by
    linear_combination hrA + (ρ * ρ) * hu + (ρ * ρ) * hv
  have ea : ra * ra = (ρ + h) * (ρ + h) := by
    linear_combination hra + ((ρ + h) * (ρ + h)) * hv
  have eb : rb * rb = (ρ - h) * (ρ - h) := by
    linear_combination hrb + ((ρ - h) * (ρ - h)) * hv
  have ρ2 : ρ * ρ ≠ 0 := mul_ne_zero hρ0 hρ0
  have hcB : ρ * ρ * (2 + 2 * (u1 * v1 + u2 * v2)) ≠ 0 := by
    rw [← eB]; exact mul_ne_zero hB0 hB0
  have hcA : ρ * ρ * (2 - 2 * (u1 * v1 + u2 * v2)) ≠ 0 := by
    rw [← eA]; exact mul_ne_zero hA0 hA0
  -- products of the axis components: only the squares of the roots occur
  have sq : ∀ x y : Rat, x * (ra / rB) * (y * (ra / rB)) = x * y * (ra * ra) / (rB * rB) := by
    intro x y; field_simp
  have sq' : ∀ x y : Rat, x * (rb / rA) * (y * (rb / rA)) = x * y * (rb * rb) / (rA * rA) := by
    intro x y; field_simp
  refine ⟨?_, ?_, ?_, ?_⟩
  · -- orthogonality: A·B = |D|² − (ρ/ℓ)²|W|² = 0
    have hAB : (ρ * u1 + ρ * v1) * (ρ * u1 - ρ * v1) + (ρ * u2 + ρ * v2) * (ρ * u2 - ρ * v2) = 0 := by
      linear_combination (ρ * ρ) * hu - (ρ * ρ) * hv
    linear_combination (ra / rB * (rb / rA)) * hAB
  · rw [sq, sq', ea, eb, eB, eA, div_add_div _ _ hcB hcA, div_eq_iff (mul_ne_zero hcB hcA)]
    linear_combination (ρ * ρ * (ρ * ρ)) * kxx
  · rw [sq, sq', ea, eb, eB, eA, div_add_div _ _ hcB hcA, div_eq_iff (mul_ne_zero hcB hcA)]
    linear_combination (ρ * ρ * (ρ * ρ)) * kxy
  · rw [sq, sq', ea, eb, eB, eA, div_add_div _ _ hcB hcA, div_eq_iff (mul_ne_zero hcB hcA)]
    linear_combination (ρ * ρ * (ρ * ρ)) * kyy

/-- Rytz's construction in the xy-plane on `rytzCore`: the returned axes are orthogonal, lie in the plane, and span the SAME
    ellipse as the conjugate half-diameters Q, P:  mj mjᵀ + mn mnᵀ = QQᵀ + PPᵀ; ratio = |minor| / |major| -/
theorem rytz_core_law (Q P : V3) (hQ : Q.z = 0) (hP : P.z = 0) (ρ ℓ ra rb rB rA : Rat) (mj mn : V3) (ratio : Rat)
    (hρ : ρ * ρ = magSq (rytzD Q (orthoCw P))) (hℓ : ℓ * ℓ = magSq (rytzW Q (orthoCw P))) (hρ0 : ρ ≠ 0)
    (hra : ra * ra = magSq (vsub (rytzA Q (orthoCw P) ρ ℓ) Q)) (hrb : rb * rb = magSq (vsub (rytzB Q (orthoCw P) ρ ℓ) Q))
    (hrB : rB * rB = magSq (rytzB Q (orthoCw P) ρ ℓ)) (hrA : rA * rA = magSq (rytzA Q (orthoCw P) ρ ℓ))
    (h : rytzCore Q (orthoCw P) ρ ℓ ra rb rB rA = .ok (mj, mn, ratio)) :
    V3.dot mj mn = 0 ∧
    mj.x * mj.x + mn.x * mn.x = Q.x * Q.x + P.x * P.x ∧ mj.x * mj.y + mn.x * mn.y = Q.x * Q.y + P.x * P.y ∧
    mj.y * mj.y + mn.y * mn.y = Q.y * Q.y + P.y * P.y ∧ mj.z = 0 ∧ mn.z = 0 ∧
    ratio * ra = rb ∧ magSq mj = ra * ra ∧ magSq mn = rb * rb := by
  unfold rytzCore at h
  split_ifs at h with hℓ0 hnull hclose hra0 hrB0 hrA0
  simp only [Except.ok.injEq, Prod.mk.injEq] at h
  obtain ⟨e1, e2, e3⟩ := h
  obtain ⟨q1, q2, q3⟩ := Q; obtain ⟨p1, p2, p3⟩ := P
  simp only at hQ hP
  subst hQ hP
  simp only [rytzD, rytzW, rytzA, rytzB, lerpHalf, orthoCw, vsub, magSq, V3.dot, sub_zero, zero_mul, mul_zero, add_zero, zero_add,
    zero_sub, sub_self] at hρ hℓ hra hrb hrB hrA
  have key := rytz_plane (p2 + (q1 - p2) * (1 / 2)) (-p1 + (q2 - -p1) * (1 / 2)) (q1 - p2) (q2 - -p1) ρ ℓ ra rb rB rA
    (by linear_combination hρ) (by linear_combination hℓ) hρ0 hℓ0 (by linear_combination hra) (by linear_combination hrb)
    (by linear_combination hrB) (by linear_combination hrA) hrB0 hrA0
  simp only at key
  obtain ⟨k0, kxx, kxy, kyy⟩ := key
  subst e1 e2 e3
  simp only [scaleTo, rytzA, rytzB, rytzD, rytzW, lerpHalf, orthoCw, V3.dot, magSq, sub_self, zero_mul, mul_zero, add_zero, sub_zero]
  refine ⟨by linear_combination k0, by linear_combination kxx, by linear_combination kxy, by linear_combination kyy, trivial, trivial,
    by field_simp, ?_, ?_⟩
  · have : ∀ x y : Rat, x * (ra / rB) * (x * (ra / rB)) + y * (ra / rB) * (y * (ra / rB)) = (x * x + y * y) * (ra * ra) / (rB * rB) := by
      intro x y; field_simp
    rw [this, div_eq_iff (mul_ne_zero hrB0 hrB0)]
    linear_combination (-(ra * ra)) * hrB
  · have : ∀ x y : Rat, x * (rb / rA) * (x * (rb / rA)) + y * (rb / rA) * (y * (rb / rA)) = (x * x + y * y) * (rb * rb) / (rA * rA) := by
      intro x y; field_simp
    rw [this, div_eq_iff (mul_ne_zero hrA0 hrA0)]
    linear_combination (-(rb * rb)) * hrA

/-- Thales: in EVERY position (plane or space) the two constructed axes are orthogonal, because |D ± (ρ/ℓ)W| are the legs over
    the diameter of the circle around D through the centre: A·B = |D|² − (ρ/ℓ)²|W|² = 0 -/
theorem rytz_core_orthogonal (Q P1 : V3) (ρ ℓ ra rb rB rA : Rat) (mj mn : V3) (ratio : Rat)
    (hρ : ρ * ρ = magSq (rytzD Q P1)) (hℓ : ℓ * ℓ = magSq (rytzW Q P1))
    (h : rytzCore Q P1 ρ ℓ ra rb rB rA = .ok (mj, mn, ratio)) :
    V3.dot mj mn = 0 ∧ ratio * ra = rb := by
  unfold rytzCore at h
  split_ifs at h with hℓ0 hnull hclose hra0 hrB0 hrA0
  simp only [Except.ok.injEq, Prod.mk.injEq] at h
  obtain ⟨e1, e2, e3⟩ := h
  subst e1 e2 e3
  refine ⟨?_, by field_simp⟩
  simp only [scaleTo, rytzA, rytzB, V3.dot]
  generalize rytzD Q P1 = D at *
  generalize rytzW Q P1 = W at *
  simp only [magSq, V3.dot] at hρ hℓ
  have hAB : (D.x + W.x * (ρ / ℓ)) * (D.x - W.x * (ρ / ℓ)) + (D.y + W.y * (ρ / ℓ)) * (D.y - W.y * (ρ / ℓ))
      + (D.z + W.z * (ρ / ℓ)) * (D.z - W.z * (ρ / ℓ)) = 0 := by
    have hk : (ρ / ℓ) * (ρ / ℓ) * (ℓ * ℓ) = ρ * ρ := by field_simp
    linear_combination (-1 : Rat) * hρ + (ρ / ℓ * (ρ / ℓ)) * hℓ - hk
  linear_combination (ra / rB * (rb / rA)) * hAB

set_option maxRecDepth 8000 in
/-- the radicands of |D| and |W| in the 3-D branch -/
theorem rytz_rads_space (d1 d2 : V3) (r1 r2 r3 : Rat) (h : ¬ Flat d1 d2) (h2 : r2 ≠ 0) :
    TransformKernels.rytz_rad3 d1 d2 r1 r2 = magSq (rytzD d1 (scaleTo (V3.cross (V3.cross d1 d2) d2) r1 r2)) ∧
    TransformKernels.rytz_rad4 d1 d2 r1 r2 r3 = magSq (rytzW d1 (scaleTo (V3.cross (V3.cross d1 d2) d2) r1 r2)) := by
  unfold Flat at h
  simp only [tol9] at h
  constructor
  · simp only [TransformKernels.rytz_rad3, h, if_false, rytzD, lerpHalf, scaleTo, V3.cross, magSq, V3.dot]
  · simp only [TransformKernels.rytz_rad4, h, if_false, rytzW, scaleTo, V3.cross, magSq, V3.dot]

/-! ## Rytz in space: reduction to the plane spanned by an orthonormal pair (e1, e2) -/

/-- x·e1 + y·e2, componentwise -/
def comb (e1 e2 : V3) (x y : Rat) : V3 := ⟨x * e1.x + y * e2.x, x * e1.y + y * e2.y, x * e1.z + y * e2.z⟩

theorem magSq_comb (e1 e2 : V3) (h11 : V3.dot e1 e1 = 1) (h22 : V3.dot e2 e2 = 1) (h12 : V3.dot e1 e2 = 0) (x y : Rat) :
    magSq (comb e1 e2 x y) = x * x + y * y := by
  simp only [magSq, comb, V3.dot] at *
  linear_combination (x * x) * h11 + (y * y) * h22 + (2 * x * y) * h12

/-- Rytz's construction for conjugate half-diameters Q = q1·e1 + q2·e2 and P = p·e1 in the plane of the orthonormal pair
    (e1, e2), with the auxiliary point P' = −p·e2 (P turned by −90° in that plane): orthogonal axes spanning the same ellipse,
    mj mjᵀ + mn mnᵀ = QQᵀ + PPᵀ (all six components) -/
theorem rytz_core_space (e1 e2 : V3) (h11 : V3.dot e1 e1 = 1) (h22 : V3.dot e2 e2 = 1) (h12 : V3.dot e1 e2 = 0)
    (q1 q2 p : Rat) (ρ ℓ ra rb rB rA : Rat) (mj mn : V3) (ratio : Rat)
    (hρ : ρ * ρ = magSq (rytzD (comb e1 e2 q1 q2) (comb e1 e2 0 (-p))))
    (hℓ : ℓ * ℓ = magSq (rytzW (comb e1 e2 q1 q2) (comb e1 e2 0 (-p)))) (hρ0 : ρ ≠ 0)
    (hra : ra * ra = magSq (vsub (rytzA (comb e1 e2 q1 q2) (comb e1 e2 0 (-p)) ρ ℓ) (comb e1 e2 q1 q2)))
    (hrb : rb * rb = magSq (vsub (rytzB (comb e1 e2 q1 q2) (comb e1 e2 0 (-p)) ρ ℓ) (comb e1 e2 q1 q2)))
    (hrB : rB * rB = magSq (rytzB (comb e1 e2 q1 q2) (comb e1 e2 0 (-p)) ρ ℓ))
    (hrA : rA * rA = magSq (rytzA (comb e1 e2 q1 q2) (comb e1 e2 0 (-p)) ρ ℓ))
    (h : rytzCore (comb e1 e2 q1 q2) (comb e1 e2 0 (-p)) ρ ℓ ra rb rB rA = .ok (mj, mn, ratio)) :
    V3.dot mj mn = 0 ∧
    (∀ (i j : V3 → Rat), (i = V3.x ∨ i = V3.y ∨ i = V3.z) → (j = V3.x ∨ j = V3.y ∨ j = V3.z) →
      i mj * j mj + i mn * j mn = i (comb e1 e2 q1 q2) * j (comb e1 e2 q1 q2) + i (comb e1 e2 p 0) * j (comb e1 e2 p 0)) := by
  unfold rytzCore at h
  split_ifs at h with hℓ0 hnull hclose hra0 hrB0 hrA0
  simp only [Except.ok.injEq, Prod.mk.injEq] at h
  obtain ⟨em, en, _⟩ := h
  -- everything is a combination of e1, e2
  have eD : rytzD (comb e1 e2 q1 q2) (comb e1 e2 0 (-p)) = comb e1 e2 (0 + (q1 - 0) * (1 / 2)) (-p + (q2 - -p) * (1 / 2)) := by
    simp only [rytzD, lerpHalf, comb, V3.mk.injEq]; refine ⟨?_, ?_, ?_⟩ <;> ring
  have eW : rytzW (comb e1 e2 q1 q2) (comb e1 e2 0 (-p)) = comb e1 e2 (q1 - 0) (q2 - -p) := by
    simp only [rytzW, comb, V3.mk.injEq]; refine ⟨?_, ?_, ?_⟩ <;> ring
  have eA : rytzA (comb e1 e2 q1 q2) (comb e1 e2 0 (-p)) ρ ℓ
      = comb e1 e2 (0 + (q1 - 0) * (1 / 2) - (q1 - 0) * (ρ / ℓ)) (-p + (q2 - -p) * (1 / 2) - (q2 - -p) * (ρ / ℓ)) := by
    simp only [rytzA, eD, eW]; simp only [comb, V3.mk.injEq]; refine ⟨?_, ?_, ?_⟩ <;> ring
  have eB : rytzB (comb e1 e2 q1 q2) (comb e1 e2 0 (-p)) ρ ℓ
      = comb e1 e2 (0 + (q1 - 0) * (1 / 2) + (q1 - 0) * (ρ / ℓ)) (-p + (q2 - -p) * (1 / 2) + (q2 - -p) * (ρ / ℓ)) := by
    simp only [rytzB, eD, eW]; simp only [comb, V3.mk.injEq]; refine ⟨?_, ?_, ?_⟩ <;> ring
  have eAQ : vsub (rytzA (comb e1 e2 q1 q2) (comb e1 e2 0 (-p)) ρ ℓ) (comb e1 e2 q1 q2)
      = comb e1 e2 (0 + (q1 - 0) * (1 / 2) - (q1 - 0) * (ρ / ℓ) - q1) (-p + (q2 - -p) * (1 / 2) - (q2 - -p) * (ρ / ℓ) - q2) := by
    rw [eA]; simp only [vsub, comb, V3.mk.injEq]; refine ⟨?_, ?_, ?_⟩ <;> ring
  have eBQ : vsub (rytzB (comb e1 e2 q1 q2) (comb e1 e2 0 (-p)) ρ ℓ) (comb e1 e2 q1 q2)
      = comb e1 e2 (0 + (q1 - 0) * (1 / 2) + (q1 - 0) * (ρ / ℓ) - q1) (-p + (q2 - -p) * (1 / 2) + (q2 - -p) * (ρ / ℓ) - q2) := by
    rw [eB]; simp only [vsub, comb, V3.mk.injEq]; refine ⟨?_, ?_, ?_⟩ <;> ring
  rw [eD, magSq_comb e1 e2 h11 h22 h12] at hρ
  rw [eW, magSq_comb e1 e2 h11 h22 h12] at hℓ
  rw [eAQ, magSq_comb e1 e2 h11 h22 h12] at hra
  rw [eBQ, magSq_comb e1 e2 h11 h22 h12] at hrb
  rw [eB, magSq_comb e1 e2 h11 h22 h12] at hrB
  rw [eA, magSq_comb e1 e2 h11 h22 h12] at hrA
  have key := rytz_plane (0 + (q1 - 0) * (1 / 2)) (-p + (q2 - -p) * (1 / 2)) (q1 - 0) (q2 - -p) ρ ℓ ra rb rB rA
    hρ hℓ hρ0 hℓ0 (by linear_combination hra) (by linear_combination hrb) hrB hrA hrB0 hrA0
  simp only at key
  obtain ⟨k0, kxx, kxy, kyy⟩ := key
  have emj : mj = comb e1 e2 ((0 + (q1 - 0) * (1 / 2) + (q1 - 0) * (ρ / ℓ)) * (ra / rB)) ((-p + (q2 - -p) * (1 / 2) + (q2 - -p) * (ρ / ℓ)) * (ra / rB)) := by
    rw [← em, eB]; simp only [scaleTo, comb, V3.mk.injEq]; refine ⟨?_, ?_, ?_⟩ <;> ring
  have emn : mn = comb e1 e2 ((0 + (q1 - 0) * (1 / 2) - (q1 - 0) * (ρ / ℓ)) * (rb / rA)) ((-p + (q2 - -p) * (1 / 2) - (q2 - -p) * (ρ / ℓ)) * (rb / rA)) := by
    rw [← en, eA]; simp only [scaleTo, comb, V3.mk.injEq]; refine ⟨?_, ?_, ?_⟩ <;> ring
  rw [emj, emn]
  generalize (0 + (q1 - 0) * (1 / 2) + (q1 - 0) * (ρ / ℓ)) * (ra / rB) = mjx at *
  generalize (-p + (q2 - -p) * (1 / 2) + (q2 - -p) * (ρ / ℓ)) * (ra / rB) = mjy at *
  generalize (0 + (q1 - 0) * (1 / 2) - (q1 - 0) * (ρ / ℓ)) * (rb / rA) = mnx at *
  generalize (-p + (q2 - -p) * (1 / 2) - (q2 - -p) * (ρ / ℓ)) * (rb / rA) = mny at *
  have kxx' : mjx * mjx + mnx * mnx = q1 * q1 + p * p := by linear_combination kxx
  have kxy' : mjx * mjy + mnx * mny = q1 * q2 := by linear_combination kxy
  have kyy' : mjy * mjy + mny * mny = q2 * q2 := by linear_combination kyy
  refine ⟨?_, ?_⟩
  · simp only [comb, V3.dot] at *
    linear_combination (mjx * mnx) * h11 + (mjy * mny) * h22 + (mjx * mny + mjy * mnx) * h12 + k0
  · intro i j hi hj
    rcases hi with rfl | rfl | rfl <;> rcases hj with rfl | rfl | rfl <;> simp only [comb] <;>
      first
      | linear_combination (e1.x * e1.x) * kxx' + (e1.x * e2.x + e2.x * e1.x) * kxy' + (e2.x * e2.x) * kyy'
      | linear_combination (e1.x * e1.y) * kxx' + (e1.x * e2.y + e2.x * e1.y) * kxy' + (e2.x * e2.y) * kyy'
      | linear_combination (e1.x * e1.z) * kxx' + (e1.x * e2.z + e2.x * e1.z) * kxy' + (e2.x * e2.z) * kyy'
      | linear_combination (e1.y * e1.x) * kxx' + (e1.y * e2.x + e2.y * e1.x) * kxy' + (e2.y * e2.x) * kyy'
      | linear_combination (e1.y * e1.y) * kxx' + (e1.y * e2.y + e2.y * e1.y) * kxy' + (e2.y * e2.y) * kyy'
      | linear_combination (e1.y * e1.z) * kxx' + (e1.y * e2.z + e2.y * e1.z) * kxy' + (e2.y * e2.z) * kyy'
      | linear_combination (e1.z * e1.x) * kxx' + (e1.z * e2.x + e2.z * e1.x) * kxy' + (e2.z * e2.x) * kyy'
      | linear_combination (e1.z * e1.y) * kxx' + (e1.z * e2.y + e2.z * e1.y) * kxy' + (e2.z * e2.y) * kyy'
      | linear_combination (e1.z * e1.z) * kxx' + (e1.z * e2.z + e2.z * e1.z) * kxy' + (e2.z * e2.z) * kyy'

/-- the auxiliary point of the 3-D branch: (d1 × d2) × d2 scaled to the length of d2 -/
def rytzP1 (d1 d2 : V3) (r1 r2 : Rat) : V3 := scaleTo (V3.cross (V3.cross d1 d2) d2) r1 r2

set_option maxRecDepth 8000 in
/-- all eight radicands of the 3-D branch -/
theorem rytz_rads_space_all (d1 d2 : V3) (r1 r2 r3 r4 r5 r6 r7 : Rat) (h : ¬ Flat d1 d2) :
    TransformKernels.rytz_rad1 d1 d2 = magSq d2 ∧
    TransformKernels.rytz_rad2 d1 d2 r1 = magSq (V3.cross (V3.cross d1 d2) d2) ∧
    (r2 ≠ 0 → r4 ≠ 0 → ¬ (IsNull (rytzA d1 (rytzP1 d1 d2 r1 r2) r3 r4) ∨ IsNull (rytzB d1 (rytzP1 d1 d2 r1 r2) r3 r4)) →
      TransformKernels.rytz_rad5 d1 d2 r1 r2 r3 r4 = magSq (vsub (rytzA d1 (rytzP1 d1 d2 r1 r2) r3 r4) d1) ∧
      TransformKernels.rytz_rad6 d1 d2 r1 r2 r3 r4 r5 = magSq (vsub (rytzB d1 (rytzP1 d1 d2 r1 r2) r3 r4) d1) ∧
      (¬ (pyIsclose r5 0 tol9 0 = true ∨ pyIsclose r6 0 tol9 0 = true) → r5 ≠ 0 →
        TransformKernels.rytz_rad7 d1 d2 r1 r2 r3 r4 r5 r6 = magSq (rytzB d1 (rytzP1 d1 d2 r1 r2) r3 r4) ∧
        (r7 ≠ 0 → TransformKernels.rytz_rad8 d1 d2 r1 r2 r3 r4 r5 r6 r7 = magSq (rytzA d1 (rytzP1 d1 d2 r1 r2) r3 r4)))) := by
  unfold Flat at h
  simp only [tol9] at h
  refine ⟨?_, ?_, ?_⟩
  · simp only [TransformKernels.rytz_rad1, h, if_false, magSq, V3.dot]
  · simp only [TransformKernels.rytz_rad2, h, if_false, magSq, V3.dot, V3.cross]
  · intro h2 h4 hnull
    simp only [rytzP1, rytzA, rytzB, rytzD, rytzW, lerpHalf, scaleTo, V3.cross, IsNull, tol9, tol12] at hnull
    refine ⟨?_, ?_, ?_⟩
    · simp only [TransformKernels.rytz_rad5, h, if_false, hnull, rytzP1, rytzA, rytzD, rytzW, lerpHalf, scaleTo, V3.cross, vsub, magSq, V3.dot]
    · simp only [TransformKernels.rytz_rad6, h, if_false, hnull, rytzP1, rytzB, rytzD, rytzW, lerpHalf, scaleTo, V3.cross, vsub, magSq, V3.dot]
    · intro hz h5
      simp only [tol9] at hz
      refine ⟨?_, ?_⟩
      · simp only [TransformKernels.rytz_rad7, h, if_false, hnull, hz, h5, rytzP1, rytzB, rytzD, rytzW, lerpHalf, scaleTo, V3.cross, magSq, V3.dot]
      · intro h7
        simp only [TransformKernels.rytz_rad8, h, if_false, hnull, hz, h5, h7, rytzP1, rytzA, rytzD, rytzW, lerpHalf, scaleTo, V3.cross, magSq, V3.dot]

/-- Rytz in general position: with P' = (d1 × d2) × d2 scaled to |d2| (in the plane of d1, d2, perpendicular to d2, as long as
    d2) the construction returns orthogonal axes spanning the same ellipse as the conjugate half-diameters d1, d2 -/
theorem rytz_space_law (d1 d2 : V3) (r1 r2 ρ ℓ ra rb rB rA : Rat) (mj mn : V3) (ratio : Rat)
    (h1 : r1 * r1 = magSq d2) (h2 : r2 * r2 = magSq (V3.cross (V3.cross d1 d2) d2)) (hr1 : r1 ≠ 0) (hr2 : r2 ≠ 0)
    (hρ : ρ * ρ = magSq (rytzD d1 (rytzP1 d1 d2 r1 r2))) (hℓ : ℓ * ℓ = magSq (rytzW d1 (rytzP1 d1 d2 r1 r2))) (hρ0 : ρ ≠ 0)
    (hra : ra * ra = magSq (vsub (rytzA d1 (rytzP1 d1 d2 r1 r2) ρ ℓ) d1))
    (hrb : rb * rb = magSq (vsub (rytzB d1 (rytzP1 d1 d2 r1 r2) ρ ℓ) d1))
    (hrB : rB * rB = magSq (rytzB d1 (rytzP1 d1 d2 r1 r2) ρ ℓ)) (hrA : rA * rA = magSq (rytzA d1 (rytzP1 d1 d2 r1 r2) ρ ℓ))
    (h : rytzCore d1 (rytzP1 d1 d2 r1 r2) ρ ℓ ra rb rB rA = .ok (mj, mn, ratio)) :
    V3.dot mj mn = 0 ∧
    (∀ (i j : V3 → Rat), (i = V3.x ∨ i = V3.y ∨ i = V3.z) → (j = V3.x ∨ j = V3.y ∨ j = V3.z) →
      i mj * j mj + i mn * j mn = i d1 * j d1 + i d2 * j d2) := by
  -- orthonormal pair of the plane: e1 along d2, e2 against P'
  obtain ⟨e1, he1⟩ : ∃ e1, e1 = V3.smul (1 / r1) d2 := ⟨_, rfl⟩
  obtain ⟨e2, he2⟩ : ∃ e2, e2 = V3.smul (-(1 / r2)) (V3.cross (V3.cross d1 d2) d2) := ⟨_, rfl⟩
  have hX : V3.cross (V3.cross d1 d2) d2 = V3.sub (V3.smul (V3.dot d1 d2) d2) (V3.smul (V3.dot d2 d2) d1) := by
    simp only [V3.cross, V3.sub, V3.smul, V3.dot, V3.mk.injEq]; refine ⟨?_, ?_, ?_⟩ <;> ring
  have hXd : V3.dot d2 (V3.cross (V3.cross d1 d2) d2) = 0 := by simp only [V3.cross, V3.dot]; ring
  have h11 : V3.dot e1 e1 = 1 := by
    rw [he1]; simp only [magSq, V3.dot] at h1; simp only [V3.dot, V3.smul]; field_simp; linarith
  have h22 : V3.dot e2 e2 = 1 := by
    rw [he2]; simp only [magSq] at h2
    generalize V3.cross (V3.cross d1 d2) d2 = X at *
    simp only [V3.dot] at h2; simp only [V3.dot, V3.smul]; field_simp; linarith
  have h12 : V3.dot e1 e2 = 0 := by
    rw [he1, he2]
    generalize V3.cross (V3.cross d1 d2) d2 = X at *
    simp only [V3.dot] at hXd; simp only [V3.dot, V3.smul]
    linear_combination (-(1 / r1 * (1 / r2))) * hXd
  have E3 : comb e1 e2 r1 0 = d2 := by
    rw [he1]; simp only [comb, V3.smul]; ext <;> simp <;> field_simp
  have E2 : comb e1 e2 0 (-r1) = rytzP1 d1 d2 r1 r2 := by
    rw [he2]; simp only [comb, V3.smul, rytzP1, scaleTo]; ext <;> simp <;> field_simp
  have E1 : comb e1 e2 (V3.dot d1 d2 / r1) (r2 / (r1 * r1)) = d1 := by
    rw [he1, he2, hX]
    simp only [magSq] at h1
    have hg : V3.dot d2 d2 = r1 * r1 := h1.symm
    rw [hg]
    simp only [comb, V3.smul, V3.sub]
    ext <;> simp <;> field_simp <;> ring
  rw [← E2] at hρ hℓ hra hrb hrB hrA h
  have := rytz_core_space e1 e2 h11 h22 h12 (V3.dot d1 d2 / r1) (r2 / (r1 * r1)) r1 ρ ℓ ra rb rB rA mj mn ratio
  rw [E1] at this
  have res := this hρ hℓ hρ0 hra hrb hrB hrA h
  rw [E3] at res
  exact res

/-- the tensor identity u uᵀ + v vᵀ = d1 d1ᵀ + d2 d2ᵀ, component by component -/
def SameTensor (u v d1 d2 : V3) : Prop :=
  ∀ (i j : V3 → Rat), (i = V3.x ∨ i = V3.y ∨ i = V3.z) → (j = V3.x ∨ j = V3.y ∨ j = V3.z) →
    i u * j u + i v * j v = i d1 * j d1 + i d2 * j d2

/-- quadratic form of the tensor: (w·u)(z·u) + (w·v)(z·v) = (w·d1)(z·d1) + (w·d2)(z·d2) for all w, z -/
theorem sameTensor_form (u v d1 d2 : V3) (h : SameTensor u v d1 d2) (w z : V3) :
    V3.dot w u * V3.dot z u + V3.dot w v * V3.dot z v = V3.dot w d1 * V3.dot z d1 + V3.dot w d2 * V3.dot z d2 := by
  have hxx := h V3.x V3.x (Or.inl rfl) (Or.inl rfl)
  have hxy := h V3.x V3.y (Or.inl rfl) (Or.inr (Or.inl rfl))
  have hxz := h V3.x V3.z (Or.inl rfl) (Or.inr (Or.inr rfl))
  have hyy := h V3.y V3.y (Or.inr (Or.inl rfl)) (Or.inr (Or.inl rfl))
  have hyz := h V3.y V3.z (Or.inr (Or.inl rfl)) (Or.inr (Or.inr rfl))
  have hzz := h V3.z V3.z (Or.inr (Or.inr rfl)) (Or.inr (Or.inr rfl))
  simp only [V3.dot]
  linear_combination (w.x * z.x) * hxx + (w.x * z.y + w.y * z.x) * hxy + (w.x * z.z + w.z * z.x) * hxz
    + (w.y * z.y) * hyy + (w.y * z.z + w.z * z.y) * hyz + (w.z * z.z) * hzz

/-- implicit equation: if the orthogonal pair (u, v) has the same tensor as the conjugate half-diameters (d1, d2), then every
    point cos·d1 + sin·d2 of the ellipse spanned by d1, d2 satisfies the implicit equation of the ellipse with the principal
    axes u, v:  (X·u)²/|u|⁴ + (X·v)²/|v|⁴ = 1  (denominators cleared) -/
theorem ellipse_implicit (u v d1 d2 : V3) (huv : V3.dot u v = 0) (h : SameTensor u v d1 d2) (c s : Rat) (hcs : c * c + s * s = 1) :
    let X : V3 := V3.add (V3.smul c d1) (V3.smul s d2)
    V3.dot X u * V3.dot X u * (magSq v * magSq v) + V3.dot X v * V3.dot X v * (magSq u * magSq u)
      = magSq u * magSq u * (magSq v * magSq v) := by
  intro X
  have huv' : V3.dot v u = 0 := by simp only [V3.dot] at huv ⊢; linarith
  have F1 := sameTensor_form u v d1 d2 h u u
  have F2 := sameTensor_form u v d1 d2 h v v
  have F3 := sameTensor_form u v d1 d2 h u v
  simp only [huv, huv'] at F1 F2 F3
  have eXu : V3.dot X u = c * V3.dot u d1 + s * V3.dot u d2 := by simp only [X, V3.dot, V3.add, V3.smul]; ring
  have eXv : V3.dot X v = c * V3.dot v d1 + s * V3.dot v d2 := by simp only [X, V3.dot, V3.add, V3.smul]; ring
  rw [eXu, eXv]
  simp only [magSq]
  generalize V3.dot u d1 = a1 at *; generalize V3.dot u d2 = a2 at *
  generalize V3.dot v d1 = b1 at *; generalize V3.dot v d2 = b2 at *
  generalize V3.dot u u = M at *; generalize V3.dot v v = N at *
  -- F1 : M·M + 0 = a1² + a2², F2 : 0 + N·N = b1² + b2², F3 : 0 = a1 b1 + a2 b2
  linear_combination (-(c * b1 + s * b2) * (c * b1 + s * b2) + N * N) * F1 * (-1 : Rat)
    + (-(c * a1 + s * a2) * (c * a1 + s * a2) + (a1 * a1 + a2 * a2)) * F2 * (-1 : Rat)
    + (c * c * (a1 * b1 - a2 * b2) + s * s * (a2 * b2 - a1 * b1) + 2 * c * s * (a1 * b2 + a2 * b1)) * F3 * (-1 : Rat)
    + ((a1 * a1 + a2 * a2) * (b1 * b1 + b2 * b2)) * hcs

end EzdxfVerif.Transform

/-
Helper lemmas for property C12, session 3: histories of transformations (temporary transformation of ACIS entities,
composition of successive OCS transformations).
-/
import EzdxfVerif.Lemmas.Transform

namespace EzdxfVerif.Transform
open EzdxfVerif.Rat3 EzdxfVerif.Gen

/-- all matrices of a history are affine (last column (0, 0, 0, 1)): true for every matrix the Matrix44 factories build -/
def AllAffine : List M44 → Prop
  | [] => True
  | m :: ms => M44.IsAffine m ∧ AllAffine ms

instance : (ms : List M44) → Decidable (AllAffine ms)
  | [] => isTrue trivial
  | m :: ms => by
    unfold AllAffine
    have := instDecidableAllAffine ms
    infer_instance

theorem tempRun_some (a : M44) (ha : M44.IsAffine a) :
    (ms : List M44) → AllAffine ms →
      ∃ acc, tempRun (some a) ms = some acc ∧ M44.IsAffine acc ∧ ∀ p, apply acc p = applySeq ms (apply a p)
  | [], _ => ⟨a, rfl, ha, fun _ => rfl⟩
  | m :: ms, h => by
    obtain ⟨hm, hms⟩ := h
    have hstep : tempRun (some a) (m :: ms) = tempRun (some (M44.mul a m)) ms := by
      simp [tempRun, tempAdd, TransformKernels.tempAddSome]
    obtain ⟨acc, h1, h2, h3⟩ := tempRun_some (M44.mul a m) (affine_mul a m ha hm) ms hms
    refine ⟨acc, hstep ▸ h1, h2, ?_⟩
    intro p
    rw [h3 p, apply_mul a m ha p]
    rfl

end EzdxfVerif.Transform

/-
Helper lemmas for C13 (not counted): the derivative of the Cox - de Boor functions.

`cdbPoly K base p i : ℚ[X]` is the Cox - de Boor recursion read as a recursion on POLYNOMIALS in the parameter (for the
degree-0 layer `delta s`: the polynomial piece of `N_{i,p}` on span `s`); `cdbF` is its value, `cdbFD` (product rule
on the recursion) the value of its derivative `Polynomial.derivative`, and

    N'_{i,p+1} = (p+1) · ( N_{i,p} / (K_{i+p+1} − K_i)  −  N_{i+1,p} / (K_{i+p+2} − K_{i+1}) )      (The NURBS Book (2.7))

holds for every nondecreasing knot function, every degree-0 layer and every parameter (`x / 0 = 0`: a term with a
vanishing denominator is dropped, as in the book).
-/
import EzdxfVerif.Lemmas.CurveBoehm
import Mathlib.Algebra.Polynomial.Derivative

namespace EzdxfVerif.Lemmas.Curve
open EzdxfVerif.Curve Polynomial

/-- value of the derivative: product rule on the recursion -/
def cdbFD (K : Nat → Rat) (u : Rat) (base : Nat → Rat) : Nat → Nat → Rat
  | 0, _ => 0
  | p + 1, i =>
    1 / (K (i + p + 1) - K i) * cdbF K u base p i + (u - K i) / (K (i + p + 1) - K i) * cdbFD K u base p i
    - 1 / (K (i + p + 2) - K (i + 1)) * cdbF K u base p (i + 1)
    + (K (i + p + 2) - u) / (K (i + p + 2) - K (i + 1)) * cdbFD K u base p (i + 1)

/-- the Cox - de Boor functions as polynomials in the parameter -/
noncomputable def cdbPoly (K : Nat → Rat) (base : Nat → Rat) : Nat → Nat → ℚ[X]
  | 0, i => C (base i)
  | p + 1, i =>
    C (1 / (K (i + p + 1) - K i)) * (X - C (K i)) * cdbPoly K base p i
    + C (1 / (K (i + p + 2) - K (i + 1))) * (C (K (i + p + 2)) - X) * cdbPoly K base p (i + 1)

theorem cdbPoly_eval (K : Nat → Rat) (base : Nat → Rat) (u : Rat) :
    ∀ p i, (cdbPoly K base p i).eval u = cdbF K u base p i
  | 0, _ => by simp [cdbPoly, cdbF]
  | p + 1, i => by
    simp only [cdbPoly, cdbF, eval_add, eval_mul, eval_sub, eval_C, eval_X, cdbPoly_eval K base u p]
    ring

theorem cdbPoly_derivative_eval (K : Nat → Rat) (base : Nat → Rat) (u : Rat) :
    ∀ p i, (derivative (cdbPoly K base p i)).eval u = cdbFD K u base p i
  | 0, _ => by simp [cdbPoly, cdbFD]
  | p + 1, i => by
    simp only [cdbPoly, cdbFD, derivative_add, derivative_mul, derivative_sub, derivative_C, derivative_X, eval_add,
      eval_mul, eval_sub, eval_C, eval_X, eval_zero, eval_one, cdbPoly_eval K base u p,
      cdbPoly_derivative_eval K base u p]
    ring

theorem cdbFD_vanish (K : Nat → Rat) (u : Rat) (s : Nat) :
    ∀ (p i : Nat), (s < i ∨ i + p < s) → cdbFD K u (delta s) p i = 0
  | 0, _, _ => rfl
  | p + 1, i, h => by
    simp only [cdbFD, cdbFD_vanish K u s p i (by omega), cdbFD_vanish K u s p (i + 1) (by omega),
      cdbF_vanish K u s p i (by omega), cdbF_vanish K u s p (i + 1) (by omega)]
    simp

/-- The NURBS Book (2.7), on the recursion itself -/
theorem cdbFD_formula (K : Nat → Rat) (u : Rat) (base : Nat → Rat) (M : Nat)
    (hmono : ∀ a b, a ≤ b → b ≤ M → K a ≤ K b) :
    ∀ p i, i + p + 2 ≤ M →
      cdbFD K u base (p + 1) i
        = ((p : Rat) + 1) * (cdbF K u base p i / (K (i + p + 1) - K i)
            - cdbF K u base p (i + 1) / (K (i + p + 2) - K (i + 1)))
  | 0, i, _ => by simp [cdbFD, cdbF]; ring
  | p + 1, i, hi => by
    have ih0 := cdbFD_formula K u base M hmono p i (by omega)
    have ih1 := cdbFD_formula K u base M hmono p (i + 1) (by omega)
    have e1 : i + 1 + p + 1 = i + p + 2 := by omega
    have e2 : i + 1 + p + 2 = i + p + 3 := by omega
    have e3 : i + 1 + 1 = i + 2 := by omega
    rw [e1, e2, e3] at ih1
    have e4 : i + (p + 1) + 1 = i + p + 2 := by omega
    have e5 : i + (p + 1) + 2 = i + p + 3 := by omega
    rw [cdbFD, ih0, ih1, e4, e5]
    simp only [cdbF, e1, e2, e3]
    -- B's denominator vanishes whenever one of the outer ones does
    have hB : cdbF K u base p (i + 1) / (K (i + p + 2) - K (i + 1))
        * ((K (i + p + 3) - K (i + 1)) * (K (i + p + 3) - K (i + 1))⁻¹
            - (K (i + p + 2) - K i) * (K (i + p + 2) - K i)⁻¹) = 0 := by
      have m1 := hmono i (i + 1) (by omega) (by omega)
      have m2 := hmono (i + 1) (i + p + 2) (by omega) (by omega)
      have m3 := hmono (i + p + 2) (i + p + 3) (by omega) (by omega)
      by_cases h1 : K (i + p + 2) - K i = 0
      · have : K (i + p + 2) - K (i + 1) = 0 := by linarith
        rw [this, div_zero, zero_mul]
      · by_cases h2 : K (i + p + 3) - K (i + 1) = 0
        · have : K (i + p + 2) - K (i + 1) = 0 := by linarith
          rw [this, div_zero, zero_mul]
        · rw [mul_inv_cancel₀ h1, mul_inv_cancel₀ h2, sub_self, mul_zero]
    push_cast
    linear_combination ((p : Rat) + 1) * hB

end EzdxfVerif.Lemmas.Curve

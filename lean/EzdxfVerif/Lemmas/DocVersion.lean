/-
Theorems about the version gates of `Drawing.write` (Model/DocVersion.lean) and about the tables regenerated from
the live registry (Gen/DocVersionTables.lean).  Used by Props/C04.lean.
-/
import EzdxfVerif.Model.DocVersion
import EzdxfVerif.Gen.DocVersionTables
namespace EzdxfVerif.DocVersion

/-! ### entity / object types -/

/-- no type newer than the target version: every type that reaches the file has `MIN_DXF_VERSION_FOR_EXPORT ≤ v`,
    for ANY set of entities in the document and any table -/
theorem version_gate (tab : List (String × Nat)) (v : Nat) (types : List String) :
    ∀ t ∈ exportTypes tab v types, minVerOf tab t ≤ v := by
  intro t ht
  simp only [exportTypes, List.mem_filter, decide_eq_true_eq] at ht
  exact ht.2

/-- nothing else is dropped: a type of the document with `MIN_DXF_VERSION_FOR_EXPORT ≤ v` passes the gate -/
theorem version_gate_complete (tab : List (String × Nat)) (v : Nat) (types : List String) (t : String)
    (ht : t ∈ types) (hv : minVerOf tab t ≤ v) : t ∈ exportTypes tab v types := by
  simp only [exportTypes, List.mem_filter, decide_eq_true_eq]
  exact ⟨ht, hv⟩

/-- exporting for a newer version never loses a type -/
theorem gate_monotone (tab : List (String × Nat)) (v v' : Nat) (h : v ≤ v') (types : List String) :
    (exportTypes tab v types).Sublist (exportTypes tab v' types) := by
  induction types with
  | nil => exact List.Sublist.refl _
  | cons a t ih =>
    simp only [exportTypes, List.filter_cons] at ih ⊢
    by_cases h1 : minVerOf tab a ≤ v
    · have h2 : minVerOf tab a ≤ v' := Nat.le_trans h1 h
      simp only [h1, h2, decide_true, ↓reduceIte]
      exact List.Sublist.cons_cons _ ih
    · simp only [h1, decide_false, Bool.false_eq_true, ↓reduceIte]
      split
      · exact List.Sublist.cons _ ih
      · exact ih

/-- the regenerated table respects what is known independently about the age of the DXF types -/
theorem independent_min_respected :
    Gen.independentMin.all (fun p => decide (p.2 ≤ minVerOf Gen.entityMinVer p.1)) = true := by decide +kernel

/-- with the live table: a type known (independently) to exist only since version `m` is never written for `v < m` -/
theorem no_newer_type (v : Nat) (types : List String) (t : String) (m : Nat)
    (ht : t ∈ exportTypes Gen.entityMinVer v types) (hm : (t, m) ∈ Gen.independentMin) : m ≤ v := by
  have h1 := version_gate Gen.entityMinVer v types t ht
  have h2 := List.all_eq_true.mp independent_min_respected (t, m) hm
  simp only [decide_eq_true_eq] at h2
  exact Nat.le_trans h2 h1

/-! ### header variables -/

theorem mem_insertByPrio (a x : HVar) (l : List HVar) : x ∈ insertByPrio a l ↔ x = a ∨ x ∈ l := by
  induction l with
  | nil => simp [insertByPrio]
  | cons b r ih =>
    simp only [insertByPrio]
    split
    · simp
    · simp only [List.mem_cons, ih]
      constructor
      · rintro (h | h | h)
        · exact Or.inr (Or.inl h)
        · exact Or.inl h
        · exact Or.inr (Or.inr h)
      · rintro (h | h | h)
        · exact Or.inr (Or.inl h)
        · exact Or.inl h
        · exact Or.inr (Or.inr h)

theorem mem_sortByPrio (x : HVar) (l : List HVar) : x ∈ sortByPrio l ↔ x ∈ l := by
  induction l with
  | nil => simp [sortByPrio]
  | cons a t ih =>
    simp only [sortByPrio, List.foldr_cons] at ih ⊢
    rw [mem_insertByPrio, ih]; simp

theorem mem_gatedVars {tab : List HVar} {v : Nat} {vars : List String} {d : HVar} (h : d ∈ gatedVars tab v vars) :
    hvarOf tab d.name = some d ∧ d.min ≤ v ∧ v ≤ d.max := by
  simp only [gatedVars, List.mem_filterMap] at h
  obtain ⟨n, _, hn⟩ := h
  cases hf : hvarOf tab n with
  | none => simp [hf] at hn
  | some e =>
    simp only [hf] at hn
    split at hn
    · rename_i hr
      cases hn
      have hname := List.find?_some (p := fun x : HVar => x.name == n) (by simpa only [hvarOf] using hf)
      have : d.name = n := by simpa using hname
      rw [this]; exact ⟨hf, hr.1, hr.2⟩
    · cases hn

/-- no header variable newer (or older) than the target version: every variable name written is a known variable
    whose version range contains `v` -/
theorem header_gate (tab : List HVar) (v : Nat) (vars : List String) :
    ∀ n ∈ exportHeader tab v vars, ∃ d, hvarOf tab n = some d ∧ d.min ≤ v ∧ v ≤ d.max := by
  intro n hn
  simp only [exportHeader, List.mem_map] at hn
  obtain ⟨d, hd, rfl⟩ := hn
  rw [mem_sortByPrio] at hd
  exact ⟨d, mem_gatedVars hd⟩

/-- table facts: `$LASTSAVEDBY` exists since R2004 and the fall-back branch (if any) is guarded by a version ≥ R2004 -/
theorem lastsavedby_min : (hvarOf Gen.headerVars "$LASTSAVEDBY").map (·.min) = some 2 := by decide +kernel

theorem fallback_guarded : (match Gen.customFallback with | some m => decide (2 ≤ m) | none => true) = true := by
  decide +kernel

/-- the custom drawing properties (`$CUSTOMPROPERTYTAG` / `$CUSTOMPROPERTY`, R2004+) are never written for R12 or
    R2000, whatever header variables the document holds (live tables, guard extracted from the source) -/
theorem custom_props_gate (v : Nat) (vars : List String)
    (h : customWritten Gen.headerVars Gen.customFallback v vars = true) : 2 ≤ v := by
  simp only [customWritten, Bool.or_eq_true] at h
  rcases h with h | h
  · have hm : "$LASTSAVEDBY" ∈ exportHeader Gen.headerVars v vars := by simpa using h
    obtain ⟨d, hd, hmin, _⟩ := header_gate Gen.headerVars v vars _ hm
    have := lastsavedby_min
    rw [hd] at this
    simp only [Option.map_some, Option.some.injEq] at this
    omega
  · have hg := fallback_guarded
    cases hf : Gen.customFallback with
    | none => simp [hf] at h
    | some m =>
      simp only [hf, decide_eq_true_eq] at h hg
      omega

/-- the regenerated header table respects what is known independently about the age of some variables -/
theorem independent_hdr_respected :
    Gen.independentHdrMin.all (fun p => match hvarOf Gen.headerVars p.1 with
      | some d => decide (p.2 ≤ d.min) | none => false) = true := by decide +kernel

/-! ### CLASSES -/

theorem subset_register (cls : List String) (n : String) : ∀ x ∈ cls, x ∈ register cls n := by
  intro x hx; unfold register; split
  · exact hx
  · exact List.mem_append_left _ hx

theorem mem_register (cls : List String) (n : String) : n ∈ register cls n := by
  unfold register; split
  · rename_i h; simpa using h
  · simp

theorem subset_addClass (defs cls : List String) (n : String) : ∀ x ∈ cls, x ∈ addClass defs cls n := by
  intro x hx; unfold addClass; split
  · exact subset_register _ _ x hx
  · exact hx

theorem mem_addClass (defs cls : List String) (n : String) (h : defs.contains n = true) : n ∈ addClass defs cls n := by
  unfold addClass; simp only [h, ↓reduceIte]; exact mem_register _ _

theorem foldl_addClass (defs : List String) : ∀ (l cls : List String),
    (∀ x ∈ cls, x ∈ l.foldl (addClass defs) cls) ∧
    (∀ t ∈ l, defs.contains t = true → t ∈ l.foldl (addClass defs) cls)
  | [], cls => ⟨fun x hx => hx, fun t ht => by simp at ht⟩
  | a :: r, cls => by
    have ih := foldl_addClass defs r (addClass defs cls a)
    simp only [List.foldl_cons]
    refine ⟨fun x hx => ih.1 x (subset_addClass _ _ _ x hx), ?_⟩
    intro t ht hd
    simp only [List.mem_cons] at ht
    rcases ht with rfl | ht
    · exact ih.1 _ (mem_addClass _ _ _ hd)
    · exact ih.2 t ht hd

theorem foldl_co_subset (defs : List String) (inUse : List String) : ∀ (co : List (String × List String)) (cls : List String),
    ∀ x ∈ cls, x ∈ co.foldl (fun c p => if inUse.contains p.1 then p.2.foldl (addClass defs) c else c) cls
  | [], _, x, hx => hx
  | p :: r, cls, x, hx => by
    simp only [List.foldl_cons]
    apply foldl_co_subset defs inUse r
    split
    · exact (foldl_addClass defs p.2 cls).1 x hx
    · exact hx

/-- CLASS entries cover the entities: for every version above R12, every DXF type in use that has a class definition,
    every required class name of the version that has a definition, and every class already registered is in the
    CLASSES section that is written -/
theorem classes_cover_entities (defs : List String) (req : Nat → List String) (co : List (String × List String))
    (v : Nat) (hv : v ≠ 0) (cls inUse : List String) :
    (∀ t ∈ inUse, defs.contains t = true → t ∈ exportClasses defs req co v cls inUse) ∧
    (∀ n ∈ req v, defs.contains n = true → n ∈ exportClasses defs req co v cls inUse) ∧
    (∀ c ∈ cls, c ∈ exportClasses defs req co v cls inUse) := by
  simp only [exportClasses, hv, ↓reduceIte, addRequired]
  refine ⟨?_, ?_, ?_⟩
  · intro t ht hd
    exact (foldl_addClass defs inUse _).2 t ht hd
  · intro n hn hd
    apply (foldl_addClass defs inUse _).1
    apply foldl_co_subset
    exact (foldl_addClass defs (req v) cls).2 n hn hd
  · intro c hc
    apply (foldl_addClass defs inUse _).1
    apply foldl_co_subset
    exact (foldl_addClass defs (req v) cls).1 c hc

/-- an R12 file has no CLASSES section content -/
theorem r12_no_classes (defs : List String) (req : Nat → List String) (co : List (String × List String))
    (cls inUse : List String) : exportClasses defs req co 0 cls inUse = [] := by
  simp [exportClasses]

/-- the three gates are in the source where the model assumes them (checked by the generator on every run) -/
theorem gates_present :
    (Gen.entityGatePresent && Gen.headerGatePresent && Gen.classesGatePresent) = true := by decide +kernel

/-! ### non-vacuity -/

#guard exportTypes Gen.entityMinVer 0 ["LINE", "LWPOLYLINE", "MTEXT", "POLYLINE", "MESH"] == ["LINE", "POLYLINE"]
#guard exportTypes Gen.entityMinVer 3 ["LINE", "LWPOLYLINE", "MTEXT", "POLYLINE", "MESH"] ==
  ["LINE", "LWPOLYLINE", "MTEXT", "POLYLINE", "MESH"]
#guard customWritten Gen.headerVars Gen.customFallback 1 ["$ACADVER", "$LASTSAVEDBY"] == false
#guard customWritten Gen.headerVars Gen.customFallback 2 ["$ACADVER"] == true
#guard exportHeader Gen.headerVars 0 ["$LASTSAVEDBY", "$HANDSEED", "$ACADVER"] == ["$ACADVER", "$HANDSEED"]
#guard (exportClasses Gen.classDefs Gen.reqClasses Gen.coClasses 4 [] ["LINE", "IMAGE", "MESH"]).contains "IMAGEDEF"
example : (4 : Nat) ≠ 0 := by decide

end EzdxfVerif.DocVersion

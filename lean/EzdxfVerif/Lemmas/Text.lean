/-
Plain-content identities of the text decoders (lemmas for Props/C20).
-/
import EzdxfVerif.Model.Text
namespace EzdxfVerif.Text

theorem caretDecode_plain (s : Str) (h : ∀ c ∈ s, isPlain c = true) : caretDecode s = s := by
  induction s using caretDecode.induct with
  | case1 => rfl
  | case2 c => rfl
  | case3 c d rest hc ih =>
    have := h c (by simp)
    simp [isPlain] at this
    exact absurd hc.1 this.2
  | case4 c d rest hc ih =>
    simp only [caretDecode, hc, ↓reduceIte]
    rw [ih (fun x hx => h x (by simp [hx]))]

theorem fastLoop_plain (sp : Special) (s : Str) (h : ∀ c ∈ s, isPlain c = true) : fastLoop sp s = s := by
  induction s with
  | nil => simp [fastLoop]
  | cons c r ih =>
    have hc := h c (by simp)
    simp only [isPlain, Bool.and_eq_true, decide_eq_true_eq, bne_iff_ne, ne_eq] at hc
    rw [fastLoop.eq_def]
    simp only [hc.1.1.1.1.2, hc.1.1.1.2, hc.1.1.2, hc.1.2, ↓reduceIte, or_self]
    rw [ih (fun x hx => h x (by simp [hx]))]

/-- on plain content (letters, digits, blanks, non-ASCII; no control or syntax characters)
    `fast_plain_mtext` is the identity -/
theorem fast_plain_identity (sp : Special) (s : Str) (h : ∀ c ∈ s, isPlain c = true) :
    fastPlainMText sp s = s := by
  unfold fastPlainMText
  rw [caretDecode_plain s h, fastLoop_plain sp s h]

theorem specialAt_plain (sp : Special) (c : Char) (r : Str) (hc : c ≠ '%') : specialAt sp c r = none := by
  simp [specialAt, hc]

/-- tokens of plain content re-assemble to the content -/
theorem scan_plain (sp : Special) (rest word para : Str) (h : ∀ c ∈ rest, isPlain c = true) :
    ∃ ts, scan sp rest word = .ok ts ∧ plainOfTokens ts para = [para ++ word ++ rest] := by
  induction rest generalizing word para with
  | nil =>
    refine ⟨_, by rw [scan.eq_def], ?_⟩
    by_cases hw : word = []
    · subst hw; simp [plainOfTokens]
    · have : word.isEmpty = false := by cases word <;> simp_all
      simp [this, plainOfTokens]
  | cons c r ih =>
    have hc := h c (by simp)
    simp only [isPlain, Bool.and_eq_true, decide_eq_true_eq, bne_iff_ne, ne_eq] at hc
    have hr : ∀ x ∈ r, isPlain x = true := fun x hx => h x (by simp [hx])
    have h32 : ¬ c.toNat < 32 := by omega
    have ht : c ≠ '\t' := by intro hh; subst hh; exact h32 (by decide)
    have hn : c ≠ '\n' := by intro hh; subst hh; exact h32 (by decide)
    rw [scan.eq_def]
    simp only [hc.1.1.1.1.2, ↓reduceIte, ht, hn, h32]
    split
    · rename_i l r3 hs
      rw [specialAt_plain sp c r hc.1.2] at hs
      cases hs
    · by_cases hsp : c = ' '
      · subst hsp
        obtain ⟨ts, hts, hp⟩ := ih [] (para ++ word ++ [' ']) hr
        simp only [↓reduceIte, hts]
        refine ⟨wordAnd word .space ++ ts, rfl, ?_⟩
        unfold wordAnd
        by_cases hw : word = []
        · subst hw
          simp only [List.isEmpty_nil, ↓reduceIte, List.singleton_append, plainOfTokens, List.append_nil] at hp ⊢
          simpa using hp
        · have : word.isEmpty = false := by cases word <;> simp_all
          simp only [this, Bool.false_eq_true, ↓reduceIte, List.cons_append, List.nil_append, plainOfTokens]
          simpa using hp
      · simp only [hsp, ↓reduceIte, hc.1.1.1.2, hc.1.1.2, or_self]
        obtain ⟨ts, hts, hp⟩ := ih (word ++ [c]) para hr
        refine ⟨ts, hts, ?_⟩
        simpa using hp

/-- on plain content `plain_mtext` returns the content as one paragraph: it agrees with `fast_plain_mtext` -/
theorem plain_identity (sp : Special) (s : Str) (h : ∀ c ∈ s, isPlain c = true) :
    plainMText sp s = .ok [s] := by
  unfold plainMText parse
  rw [caretDecode_plain s h]
  obtain ⟨ts, hts, hp⟩ := scan_plain sp s [] [] h
  rw [hts]
  simp only [List.nil_append] at hp
  show Except.ok (plainOfTokens ts []) = Except.ok [s]
  rw [hp]

end EzdxfVerif.Text

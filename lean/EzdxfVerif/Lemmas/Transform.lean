/-
Helper lemmas for property C12 (ordinary public theorems; the counted property theorems live in Props/C12.lean).
They connect the regenerated kernels of Gen/TransformKernels.lean with their geometric reading.
-/
import EzdxfVerif.Model.Transform
import Mathlib.Tactic.Ring
import Mathlib.Tactic.FieldSimp
import Mathlib.Tactic.Linarith
import Mathlib.Tactic.LinearCombination
import Mathlib.Tactic.Positivity
import Mathlib.LinearAlgebra.Matrix.NonsingularInverse
import Mathlib.LinearAlgebra.Matrix.Notation

namespace EzdxfVerif.Transform
open EzdxfVerif.Rat3 EzdxfVerif.Gen

/-! ## the regenerated kernels compose as the method bodies say -/

theorem toWcs_spec (o : Ocs) (p : V3) :
    o.toWcs p = V3.add (V3.add (V3.smul p.x o.ux) (V3.smul p.y o.uy)) (V3.smul p.z o.uz) := by
  obtain ⟨t, m⟩ := o
  cases t <;>
    simp [Ocs.toWcs, Ocs.ux, Ocs.uy, Ocs.uz, TransformKernels.ocsToWcs, V3.add, V3.smul, M44.ux, M44.uy, M44.uz] <;>
    (try refine ⟨?_, ?_, ?_⟩) <;> ring

theorem fromWcs_spec (o : Ocs) (p : V3) : o.fromWcs p = ⟨V3.dot p o.ux, V3.dot p o.uy, V3.dot p o.uz⟩ := by
  obtain ⟨t, m⟩ := o
  cases t <;> simp [Ocs.fromWcs, Ocs.ux, Ocs.uy, Ocs.uz, TransformKernels.ocsFromWcs, V3.dot, M44.ux, M44.uy, M44.uz]

theorem vertex_spec (o : OcsT) (v : V3) : o.vertex v = o.new.fromWcs (apply o.m (o.old.toWcs v)) := by
  obtain ⟨m, ⟨t1, m1⟩, ⟨t2, m2⟩, u⟩ := o
  cases t1 <;> cases t2 <;>
    simp [OcsT.vertex, Ocs.fromWcs, Ocs.toWcs, apply, TransformKernels.otVertex, TransformKernels.ocsFromWcs,
      TransformKernels.ocsToWcs, TransformKernels.mTransform]

theorem direction_spec (o : OcsT) (v : V3) : o.direction v = o.new.fromWcs (applyDir o.m (o.old.toWcs v)) := by
  obtain ⟨m, ⟨t1, m1⟩, ⟨t2, m2⟩, u⟩ := o
  cases t1 <;> cases t2 <;>
    simp [OcsT.direction, Ocs.fromWcs, Ocs.toWcs, applyDir, TransformKernels.otDirection, TransformKernels.ocsFromWcs,
      TransformKernels.ocsToWcs, TransformKernels.mTransformDirection]

theorem thickness_spec (o : OcsT) (t : Rat) : o.thickness t = (o.direction ⟨0, 0, t⟩).z := by
  obtain ⟨m, ⟨t1, m1⟩, ⟨t2, m2⟩, u⟩ := o
  cases t1 <;> cases t2 <;>
    simp [OcsT.thickness, OcsT.direction, TransformKernels.otThickness, TransformKernels.otDirection]

theorem vertex2d_spec (o : OcsT) (v : V2) (e : Rat) :
    o.vertex2d v e = ⟨(o.vertex ⟨v.x, v.y, e⟩).x, (o.vertex ⟨v.x, v.y, e⟩).y⟩ := by
  obtain ⟨m, ⟨t1, m1⟩, ⟨t2, m2⟩, u⟩ := o
  cases t1 <;> cases t2 <;>
    simp [OcsT.vertex2d, OcsT.vertex, TransformKernels.ot2dVertex, TransformKernels.otVertex]

/-! ## orthonormal frames are complete -/

/-- rows orthonormal ⇒ columns orthonormal (a right inverse of a square matrix is a left inverse) -/
theorem frame_complete (a b c : V3)
    (haa : V3.dot a a = 1) (hbb : V3.dot b b = 1) (hcc : V3.dot c c = 1)
    (hab : V3.dot a b = 0) (hac : V3.dot a c = 0) (hbc : V3.dot b c = 0) :
    a.x * a.x + b.x * b.x + c.x * c.x = 1 ∧ a.y * a.y + b.y * b.y + c.y * c.y = 1 ∧ a.z * a.z + b.z * b.z + c.z * c.z = 1 ∧
    a.x * a.y + b.x * b.y + c.x * c.y = 0 ∧ a.x * a.z + b.x * b.z + c.x * c.z = 0 ∧ a.y * a.z + b.y * b.z + c.y * c.z = 0 := by
  simp only [V3.dot] at *
  let M : Matrix (Fin 3) (Fin 3) ℚ := !![a.x, a.y, a.z; b.x, b.y, b.z; c.x, c.y, c.z]
  have h : M * M.transpose = 1 := by
    ext i j
    fin_cases i <;> fin_cases j <;> simp [M, Matrix.mul_apply, Fin.sum_univ_three] <;> linarith
  have h' : M.transpose * M = 1 := (Matrix.mul_eq_one_comm_of_card_eq (Fin 3) (Fin 3) ℚ rfl).mp h
  have e := fun i j => congrFun (congrFun h' i) j
  have e00 := e 0 0; have e11 := e 1 1; have e22 := e 2 2; have e01 := e 0 1; have e02 := e 0 2; have e12 := e 1 2
  simp [M, Matrix.mul_apply, Fin.sum_univ_three] at e00 e11 e22 e01 e02 e12
  refine ⟨?_, ?_, ?_, ?_, ?_, ?_⟩ <;> linarith

/-- `OCS.from_wcs` after `OCS.to_wcs` is the identity for orthonormal axes -/
theorem fromWcs_toWcs (o : Ocs) (h : o.Orthonormal) (p : V3) : o.fromWcs (o.toWcs p) = p := by
  obtain ⟨hxx, hyy, hzz, hxy, hxz, hyz⟩ := h
  rw [fromWcs_spec, toWcs_spec]
  generalize o.ux = a at *; generalize o.uy = b at *; generalize o.uz = c at *
  obtain ⟨px, py, pz⟩ := p
  simp only [V3.dot, V3.add, V3.smul, V3.mk.injEq] at *
  refine ⟨?_, ?_, ?_⟩
  · linear_combination px * hxx + py * hxy + pz * hxz
  · linear_combination px * hxy + py * hyy + pz * hyz
  · linear_combination px * hxz + py * hyz + pz * hzz

/-- `OCS.to_wcs` after `OCS.from_wcs` is the identity for orthonormal axes (every WCS point has OCS coordinates) -/
theorem toWcs_fromWcs (o : Ocs) (h : o.Orthonormal) (p : V3) : o.toWcs (o.fromWcs p) = p := by
  obtain ⟨hxx, hyy, hzz, hxy, hxz, hyz⟩ := h
  obtain ⟨c00, c11, c22, c01, c02, c12⟩ := frame_complete o.ux o.uy o.uz hxx hyy hzz hxy hxz hyz
  rw [toWcs_spec, fromWcs_spec]
  generalize o.ux = a at *; generalize o.uy = b at *; generalize o.uz = c at *
  obtain ⟨px, py, pz⟩ := p
  simp only [V3.dot, V3.add, V3.smul, V3.mk.injEq] at *
  refine ⟨?_, ?_, ?_⟩
  · linear_combination px * c00 + py * c01 + pz * c02
  · linear_combination px * c01 + py * c11 + pz * c12
  · linear_combination px * c02 + py * c12 + pz * c22

/-! ## matrices act affinely -/

theorem applyDir_add (m : M44) (u v : V3) : applyDir m (V3.add u v) = V3.add (applyDir m u) (applyDir m v) := by
  simp only [applyDir, TransformKernels.mTransformDirection, V3.add, V3.mk.injEq]; refine ⟨?_, ?_, ?_⟩ <;> ring

theorem applyDir_smul (m : M44) (k : Rat) (v : V3) : applyDir m (V3.smul k v) = V3.smul k (applyDir m v) := by
  simp only [applyDir, TransformKernels.mTransformDirection, V3.smul, V3.mk.injEq]; refine ⟨?_, ?_, ?_⟩ <;> ring

theorem apply_add_dir (m : M44) (p v : V3) : apply m (V3.add p v) = V3.add (apply m p) (applyDir m v) := by
  simp only [apply, applyDir, TransformKernels.mTransform, TransformKernels.mTransformDirection, V3.add, V3.mk.injEq]
  refine ⟨?_, ?_, ?_⟩ <;> ring

/-- composition: transforming by `a * b` is transforming by `a`, then by `b` (`a` affine: the code ignores the 4th column) -/
theorem apply_mul (a b : M44) (ha : M44.IsAffine a) (p : V3) : apply (M44.mul a b) p = apply b (apply a p) := by
  obtain ⟨h3, h7, h11, h15⟩ := ha
  simp only [apply, TransformKernels.mTransform, M44.mul, V3.mk.injEq, h3, h7, h11, h15]
  refine ⟨?_, ?_, ?_⟩ <;> ring

theorem affine_mul (a b : M44) (ha : M44.IsAffine a) (hb : M44.IsAffine b) : M44.IsAffine (M44.mul a b) := by
  obtain ⟨a3, a7, a11, a15⟩ := ha
  obtain ⟨b3, b7, b11, b15⟩ := hb
  simp [M44.IsAffine, M44.mul, a3, a7, a11, a15, b3, b7, b11, b15]

/-! ## transform_extrusion -/

/-- the double nearest to 1e-9 (default `rel_tol` of math.isclose and the `abs_tol` passed by transform_extrusion) -/
def tol9 : Rat := 4835703278458517 / 4835703278458516698824704

theorem extrusion_rad (old : Ocs) (m : M44) :
    TransformKernels.extrusionCore_rad1 old.t old.m m
      = magSq (V3.cross (applyDir m old.ux) (applyDir m old.uy)) := by
  obtain ⟨t, M⟩ := old
  cases t <;>
    simp only [TransformKernels.extrusionCore_rad1, magSq, V3.dot, V3.cross, applyDir, TransformKernels.mTransformDirection,
      Ocs.ux, Ocs.uy, M44.ux, M44.uy, if_true, if_false, Bool.false_eq_true] <;> (try ring)

/-- the `is_uniform` test of `transform_extrusion`: equal squared lengths (math.isclose, abs_tol 1e-9) AND perpendicular
    images (|dot| ≤ 1e-9 · max of the squared lengths) -/
def uniformTest (a b : V3) : Bool :=
  pyIsclose (magSq a) (magSq b) tol9 tol9 &&
    decide (pyAbs (V3.dot a b) ≤ tol9 * (if magSq a < magSq b then magSq b else magSq a))

/-- `transform_extrusion` = normalised cross product of the transformed OCS x- and y-axis + the `is_uniform` test -/
theorem extrusion_spec (sqrt : Rat → Rat) (old : Ocs) (m : M44) :
    transformExtrusion sqrt old m =
      (let c := V3.cross (applyDir m old.ux) (applyDir m old.uy)
       let r := sqrt (magSq c)
       if r = 0 then .error PyErr.zeroDivision
       else .ok (V3.smul (1 / r) c, uniformTest (applyDir m old.ux) (applyDir m old.uy))) := by
  unfold transformExtrusion TransformKernels.extrusionCoreS
  rw [extrusion_rad]
  obtain ⟨t, M⟩ := old
  cases t <;>
    simp only [TransformKernels.extrusionCore, uniformTest, Ocs.ux, Ocs.uy, M44.ux, M44.uy, magSq, V3.dot, V3.cross, V3.smul,
      applyDir, TransformKernels.mTransformDirection, tol9, one_mul, zero_mul, mul_one, mul_zero, add_zero, zero_add,
      Bool.false_eq_true, if_false, if_true] <;>
    (split <;> split <;> simp_all <;> (try (refine ⟨?_, ?_, ?_⟩ <;> ring)))

/-! ## similarities -/

/-- the linear part of `m` is a similarity with squared factor `k2`: rows pairwise orthogonal and of equal length -/
def IsSimilarity (m : M44) (k2 : Rat) : Prop :=
  V3.dot m.ux m.ux = k2 ∧ V3.dot m.uy m.uy = k2 ∧ V3.dot m.uz m.uz = k2 ∧
  V3.dot m.ux m.uy = 0 ∧ V3.dot m.ux m.uz = 0 ∧ V3.dot m.uy m.uz = 0
instance (m : M44) (k2 : Rat) : Decidable (IsSimilarity m k2) := by unfold IsSimilarity; infer_instance

/-- determinant of the linear part -/
def det3 (m : M44) : Rat := V3.triple m.ux m.uy m.uz

/-- for vectors a, b orthogonal to c: (a × b)·|c|² = det(a, b, c)·c -/
theorem cross_of_orthogonal (a b c : V3) (k2 : Rat) (hac : V3.dot a c = 0) (hbc : V3.dot b c = 0) (hcc : V3.dot c c = k2) :
    V3.smul k2 (V3.cross a b) = V3.smul (V3.triple a b c) c := by
  obtain ⟨a1, a2, a3⟩ := a; obtain ⟨b1, b2, b3⟩ := b; obtain ⟨c1, c2, c3⟩ := c
  simp only [V3.dot, V3.cross, V3.smul, V3.triple, V3.mk.injEq] at *
  refine ⟨?_, ?_, ?_⟩
  · linear_combination (-(a2 * b3 - a3 * b2)) * hcc + (c2 * b3 - c3 * b2) * hac - (c2 * a3 - c3 * a2) * hbc
  · linear_combination (-(a3 * b1 - a1 * b3)) * hcc + (c3 * b1 - c1 * b3) * hac - (c3 * a1 - c1 * a3) * hbc
  · linear_combination (-(a1 * b2 - a2 * b1)) * hcc + (c1 * b2 - c2 * b1) * hac - (c1 * a2 - c2 * a1) * hbc

/-- cross product of two transformed directions in terms of the cross products of the matrix rows -/
theorem cross_applyDir (m : M44) (u v : V3) :
    V3.cross (applyDir m u) (applyDir m v) =
      V3.add (V3.add (V3.smul (V3.cross u v).x (V3.cross m.uy m.uz)) (V3.smul (V3.cross u v).y (V3.cross m.uz m.ux)))
        (V3.smul (V3.cross u v).z (V3.cross m.ux m.uy)) := by
  simp only [applyDir, TransformKernels.mTransformDirection, V3.cross, V3.add, V3.smul, M44.ux, M44.uy, M44.uz, V3.mk.injEq]
  refine ⟨?_, ?_, ?_⟩ <;> ring

/-- a similarity maps cross products to cross products up to the factor det / k² -/
theorem cross_similarity (m : M44) (k2 : Rat) (h : IsSimilarity m k2) (u v : V3) :
    V3.smul k2 (V3.cross (applyDir m u) (applyDir m v)) = V3.smul (det3 m) (applyDir m (V3.cross u v)) := by
  obtain ⟨hxx, hyy, hzz, hxy, hxz, hyz⟩ := h
  have hyx : V3.dot m.uy m.ux = 0 := by simpa [V3.dot, mul_comm] using hxy
  have hzx : V3.dot m.uz m.ux = 0 := by simpa [V3.dot, mul_comm] using hxz
  have hzy : V3.dot m.uz m.uy = 0 := by simpa [V3.dot, mul_comm] using hyz
  have e1 := cross_of_orthogonal m.ux m.uy m.uz k2 hxz hyz hzz
  have e2 := cross_of_orthogonal m.uy m.uz m.ux k2 hyx hzx hxx
  have e3 := cross_of_orthogonal m.uz m.ux m.uy k2 hzy hxy hyy
  rw [cross_applyDir]
  generalize V3.cross u v = w
  simp only [det3, applyDir, TransformKernels.mTransformDirection, V3.cross, V3.add, V3.smul, V3.triple, V3.dot, M44.ux, M44.uy,
    M44.uz, V3.mk.injEq] at *
  obtain ⟨e1x, e1y, e1z⟩ := e1; obtain ⟨e2x, e2y, e2z⟩ := e2; obtain ⟨e3x, e3y, e3z⟩ := e3
  refine ⟨?_, ?_, ?_⟩
  · linear_combination w.z * e1x + w.x * e2x + w.y * e3x
  · linear_combination w.z * e1y + w.x * e2y + w.y * e3y
  · linear_combination w.z * e1z + w.x * e2z + w.y * e3z

/-! ## lengths, offsets, the planar map -/

theorem length_spec (sqrt : Rat → Rat) (o : OcsT) (v : V3) :
    o.length sqrt v = sqrt (magSq (applyDir o.m (o.old.toWcs v))) := by
  obtain ⟨m, ⟨t1, m1⟩, ⟨t2, m2⟩, u⟩ := o
  have hr : TransformKernels.otLength_rad1 m t1 m1 t2 m2 v = magSq (applyDir m (Ocs.toWcs ⟨t1, m1⟩ v)) := by
    cases t1 <;>
      simp only [TransformKernels.otLength_rad1, magSq, V3.dot, applyDir, TransformKernels.mTransformDirection, Ocs.toWcs,
        TransformKernels.ocsToWcs, if_true, if_false, Bool.false_eq_true]
  simp only [OcsT.length, TransformKernels.otLengthS, hr, TransformKernels.otLength]
  cases t1 <;> simp

/-- `transform_width` is the larger of the two axis lengths (0 for |w| ≤ 1e-12) -/
theorem width_spec (sqrt : Rat → Rat) (o : OcsT) (w : Rat) :
    o.width sqrt w =
      if (4951760157141521 : Rat) / 4951760157141521099596496896 < pyAbs w then
        (let a := sqrt (magSq (applyDir o.m (o.old.toWcs ⟨pyAbs w, 0, 0⟩)))
         let b := sqrt (magSq (applyDir o.m (o.old.toWcs ⟨0, pyAbs w, 0⟩)))
         if a < b then b else a)
      else 0 := by
  obtain ⟨m, ⟨t1, m1⟩, ⟨t2, m2⟩, u⟩ := o
  simp only [OcsT.width, TransformKernels.otWidthS, TransformKernels.otWidth]
  split
  · rename_i hw
    have h1 : TransformKernels.otWidth_rad1 m t1 m1 t2 m2 w = magSq (applyDir m (Ocs.toWcs ⟨t1, m1⟩ ⟨pyAbs w, 0, 0⟩)) := by
      cases t1 <;>
        simp only [TransformKernels.otWidth_rad1, hw, magSq, V3.dot, applyDir, TransformKernels.mTransformDirection, Ocs.toWcs,
          TransformKernels.ocsToWcs, if_true, if_false, Bool.false_eq_true]
    have h2 : ∀ r, TransformKernels.otWidth_rad2 m t1 m1 t2 m2 w r = magSq (applyDir m (Ocs.toWcs ⟨t1, m1⟩ ⟨0, pyAbs w, 0⟩)) := by
      intro r
      cases t1 <;>
        simp only [TransformKernels.otWidth_rad2, hw, magSq, V3.dot, applyDir, TransformKernels.mTransformDirection, Ocs.toWcs,
          TransformKernels.ocsToWcs, if_true, if_false, Bool.false_eq_true]
    simp only [h1, h2]
    cases t1 <;> simp
  · rfl

/-- the image of `centre + offset` minus the image of `centre` is the linear image of the offset -/
theorem image_offset (m : M44) (o : Ocs) (c : V3) (x y : Rat) :
    apply m (o.toWcs ⟨c.x + x, c.y + y, c.z⟩)
      = V3.add (apply m (o.toWcs c)) (V3.add (V3.smul x (applyDir m o.ux)) (V3.smul y (applyDir m o.uy))) := by
  rw [toWcs_spec, toWcs_spec]
  generalize o.ux = a; generalize o.uy = b; generalize o.uz = d
  simp only [apply, applyDir, TransformKernels.mTransform, TransformKernels.mTransformDirection, V3.add, V3.smul, V3.mk.injEq]
  refine ⟨?_, ?_, ?_⟩ <;> ring

theorem direction_plane (o : OcsT) (x y : Rat) :
    o.direction ⟨x, y, 0⟩ = V3.add (V3.smul x (o.direction ⟨1, 0, 0⟩)) (V3.smul y (o.direction ⟨0, 1, 0⟩)) := by
  simp only [direction_spec, fromWcs_spec, toWcs_spec]
  generalize o.old.ux = a; generalize o.old.uy = b; generalize o.old.uz = d
  generalize o.new.ux = a'; generalize o.new.uy = b'; generalize o.new.uz = d'
  simp only [applyDir, TransformKernels.mTransformDirection, V3.add, V3.smul, V3.dot, V3.mk.injEq]
  refine ⟨?_, ?_, ?_⟩ <;> ring

theorem direction_e1 (o : OcsT) : o.direction ⟨1, 0, 0⟩ = o.new.fromWcs o.ax := by
  rw [direction_spec, toWcs_spec, OcsT.ax]
  congr 2
  simp [V3.add, V3.smul]

theorem direction_e2 (o : OcsT) : o.direction ⟨0, 1, 0⟩ = o.new.fromWcs o.ay := by
  rw [direction_spec, toWcs_spec, OcsT.ay]
  congr 2
  simp [V3.add, V3.smul]

/-- determinant of the planar map = (m x̂ × m ŷ) · (x̂' × ŷ')  (Binet–Cauchy) -/
theorem planeDet_spec (o : OcsT) :
    o.planeDet = V3.dot (V3.cross o.ax o.ay) (V3.cross o.new.ux o.new.uy) := by
  simp only [OcsT.planeDet, direction_e1, direction_e2, fromWcs_spec]
  simp only [V3.dot, V3.cross]
  ring

/-- orthonormal axes: OCS coordinates keep lengths and dot products -/
theorem fromWcs_dot (o : Ocs) (h : o.Orthonormal) (u v : V3) :
    V3.dot (o.fromWcs u) (o.fromWcs v) = V3.dot u v := by
  have hv := toWcs_fromWcs o h v
  rw [toWcs_spec] at hv
  rw [fromWcs_spec] at *
  rw [fromWcs_spec]
  generalize o.ux = a at *; generalize o.uy = b at *; generalize o.uz = c at *
  obtain ⟨u1, u2, u3⟩ := u
  simp only [V3.dot, V3.add, V3.smul] at *
  obtain ⟨v1, v2, v3⟩ := v
  simp only [V3.mk.injEq] at hv
  obtain ⟨e1, e2, e3⟩ := hv
  linear_combination u1 * e1 + u2 * e2 + u3 * e3

end EzdxfVerif.Transform

/-
Ownership consistency of the document state machine: every live entity listed in an entity space is
owned by that block record, in every reachable state (used by Props/C04, C05, C06).
-/
import EzdxfVerif.Lemmas.Audit
namespace EzdxfVerif.Doc

/-- every live entity listed in an entity space is owned by that block record -/
def OwnerInv (s : State) : Prop := ∀ p ∈ s.spaces, ∀ h ∈ p.2, keepInSpace s p.1 h = true

theorem keepInSpace_congr {s s' : State} (k h : Nat) (hf : findEnt s' h = findEnt s h) :
    keepInSpace s' k h = keepInSpace s k h := by
  simp only [keepInSpace, isAlive, ownerOf, hf]

theorem findEnt_setEnt_ne (ents : List Ent) (e h : Nat) (f : Ent → Ent) (hf : ∀ x, (f x).h = x.h) (hne : h ≠ e) :
    (setEnt ents e f).find? (·.h = h) = ents.find? (·.h = h) := by
  induction ents with
  | nil => rfl
  | cons a t ih =>
    have hstep : setEnt (a :: t) e f = (if a.h = e then f a else a) :: setEnt t e f := rfl
    rw [hstep, List.find?_cons, List.find?_cons]
    by_cases hae : a.h = e
    · have hah : ¬ a.h = h := by rw [hae]; exact fun h' => hne h'.symm
      have hfh : ¬ (f a).h = h := by rw [hf]; exact hah
      rw [if_pos hae]
      simp only [hfh, hah, decide_false]
      exact ih
    · rw [if_neg hae]
      by_cases hah : a.h = h
      · simp [hah]
      · simp only [hah, decide_false]; exact ih

theorem findEnt_setEnt_eq (ents : List Ent) (e : Nat) (f : Ent → Ent) (hf : ∀ x, (f x).h = x.h) :
    (setEnt ents e f).find? (·.h = e) = (ents.find? (·.h = e)).map f := by
  induction ents with
  | nil => rfl
  | cons a t ih =>
    simp only [setEnt, List.map_cons, List.find?_cons] at ih ⊢
    by_cases hae : a.h = e
    · simp [hae, hf]
    · simp only [hae, ↓reduceIte, decide_false]; exact ih

theorem mem_setSpace {sp : List (Nat × List Nat)} {k : Nat} {f : List Nat → List Nat} {p : Nat × List Nat}
    (hp : p ∈ setSpace sp k f) : ∃ q ∈ sp, p.1 = q.1 ∧ (p.2 = q.2 ∨ (q.1 = k ∧ p.2 = f q.2)) := by
  simp only [setSpace, List.mem_map] at hp
  obtain ⟨q, hq, rfl⟩ := hp
  refine ⟨q, hq, ?_⟩
  split
  · rename_i hk; exact ⟨rfl, Or.inr ⟨hk, rfl⟩⟩
  · exact ⟨rfl, Or.inl rfl⟩

theorem OwnerInv.of_same {s s' : State} (h : OwnerInv s) (hs : s'.spaces = s.spaces) (he : s'.ents = s.ents) :
    OwnerInv s' := by
  intro p hp x hx
  rw [hs] at hp
  have := h p hp x hx
  rwa [keepInSpace_congr (s := s) (s' := s') p.1 x (by simp [findEnt, he])]


theorem keepInSpace_dead (s : State) (k h : Nat) (hd : isAlive s h = false) : keepInSpace s k h = true := by
  simp [keepInSpace, hd]

/-- OwnerInv after appending a fresh live entity `x` (owner k) to space k -/
theorem OwnerInv.append_new {s s' : State} (ho : OwnerInv s) (hi : DocInv s) (k : Nat) (x : Ent)
    (hE : s'.ents = s.ents ++ [x]) (hS : s'.spaces = setSpace s.spaces k (· ++ [x.h]))
    (hnew : x.h ∉ hs s) (hal : x.alive = true) (how : x.owner = some k) : OwnerInv s' := by
  intro p hp y hy
  rw [hS] at hp
  obtain ⟨q, hq, hk, hcase⟩ := mem_setSpace hp
  have old : ∀ z, z ∈ q.2 → keepInSpace s' q.1 z = true := by
    intro z hz
    have hzH : z ∈ hs s := hi.2.2.2.2 z (by
      simp only [allH, List.mem_flatten, List.mem_map]; exact ⟨q.2, ⟨q, hq, rfl⟩, hz⟩)
    rw [keepInSpace_congr (s := s) q.1 z (by
      simp only [findEnt, hE]; exact find_append_old _ _ _ hzH)]
    exact ho q hq z hz
  rcases hcase with h2 | ⟨hqk, h2⟩
  · rw [hk]; rw [h2] at hy; exact old y hy
  · rw [h2] at hy
    simp only [List.mem_append, List.mem_singleton] at hy
    rcases hy with hy | rfl
    · rw [hk]; exact old y hy
    · simp only [keepInSpace, isAlive, ownerOf, findEnt, hE]
      rw [find_append_new s.ents x hnew, hk, hqk]
      simp [hal, how]

theorem newEnt_OwnerInv (s : State) (k h seed : Nat) (r : Option Str) (hi : DocInv s) (ho : OwnerInv s)
    (subs : List Nat) : OwnerInv (newEnt s k h seed r subs).1 := by
  obtain ⟨s', hs'⟩ : ∃ s', s' = (newEnt s k h seed r subs).1 := ⟨_, rfl⟩
  rw [← hs']
  unfold newEnt at hs'
  split at hs'
  · rw [hs']; exact ho
  · split at hs'
    · rename_i hf
      have hfr := freshOk_one hf
      have hnew : h ∉ hs s := fun hm => by have := hi.1.2 h hm; omega
      exact ho.append_new hi k ⟨h, true, some k, true, r, isPaperBr s k, subs⟩ (by rw [hs']) (by rw [hs']) hnew rfl rfl
    · rw [hs']; exact ho

theorem unlinkCore_OwnerInv {s s' : State} {k e : Nat} (h : unlinkCore s k e = some s')
    (hi : DocInv s) (ho : OwnerInv s) : OwnerInv s' := by
  have hrm := fun ha => unlinkCore_removed h ha hi.2
  unfold unlinkCore at h
  split at h
  · cases h; exact ho
  · rename_i halive
    have ha : isAlive s e = true := by simpa using halive
    split at h
    · cases h
    · split at h
      · have hS : s'.spaces = setSpace s.spaces k (·.erase e) := by cases h; rfl
        have hE : s'.ents = setEnt s.ents e (fun x => { x with owner := none, psp := false }) := by cases h; rfl
        have hnot := hrm ha
        intro p hp x hx
        have hp' := hp
        rw [hS] at hp'
        obtain ⟨q, hq, hk, hcase⟩ := mem_setSpace hp'
        have hxq : x ∈ q.2 := by
          rcases hcase with h2 | ⟨_, h2⟩
          · rw [h2] at hx; exact hx
          · rw [h2] at hx; exact List.mem_of_mem_erase hx
        have hxe : x ≠ e := by
          intro hxe; subst hxe
          apply hnot
          simp only [allH, List.mem_flatten, List.mem_map]
          exact ⟨p.2, ⟨p, hp, rfl⟩, hx⟩
        rw [hk, keepInSpace_congr (s := s) q.1 x (by
          simp only [findEnt, hE]; exact findEnt_setEnt_ne _ _ _ _ (fun _ => rfl) hxe)]
        exact ho q hq x hxq
      · cases h

theorem addExisting_OwnerInv (s : State) (k e : Nat) (ho : OwnerInv s) (hok : e ∉ allH s.spaces) :
    OwnerInv (addExisting s k e).1 := by
  obtain ⟨s', hs'⟩ : ∃ s', s' = (addExisting s k e).1 := ⟨_, rfl⟩
  rw [← hs']
  unfold addExisting at hs'
  split at hs'
  · rename_i x sp hx hsp
    split at hs'
    · rw [hs']; exact ho
    · split at hs'
      · rw [hs']; exact ho
      · have hS : s'.spaces = setSpace s.spaces k (· ++ [e]) := by rw [hs']
        have hE : s'.ents = setEnt s.ents e (fun x => { x with owner := some k, psp := isPaperBr s k }) := by rw [hs']
        intro p hp y hy
        rw [hS] at hp
        obtain ⟨q, hq, hk, hcase⟩ := mem_setSpace hp
        have old : ∀ z, z ∈ q.2 → keepInSpace s' q.1 z = true := by
          intro z hz
          have hze : z ≠ e := by
            intro hze; subst hze
            apply hok
            simp only [allH, List.mem_flatten, List.mem_map]
            exact ⟨q.2, ⟨q, hq, rfl⟩, hz⟩
          rw [keepInSpace_congr (s := s) q.1 z (by
            simp only [findEnt, hE]; exact findEnt_setEnt_ne _ _ _ _ (fun _ => rfl) hze)]
          exact ho q hq z hz
        rcases hcase with h2 | ⟨hqk, h2⟩
        · rw [hk]; rw [h2] at hy; exact old y hy
        · rw [h2] at hy
          simp only [List.mem_append, List.mem_singleton] at hy
          rcases hy with hy | rfl
          · rw [hk]; exact old y hy
          · simp only [keepInSpace, isAlive, ownerOf, findEnt, hE]
            have hfe := findEnt_setEnt_eq s.ents y (fun x => { x with owner := some k, psp := isPaperBr s k }) (fun _ => rfl)
            unfold findEnt at hx
            rw [hfe, hx, hk, hqk]; simp
  · rw [hs']; exact ho

theorem destroyEnt_OwnerInv (s : State) (e : Nat) (ho : OwnerInv s) : OwnerInv (destroyEnt s e) := by
  intro p hp x hx
  have := ho p hp x hx
  simp only [keepInSpace, ownerOf, Bool.or_eq_true, Bool.not_eq_true', beq_iff_eq] at this ⊢
  by_cases hxe : x = e
  · subst hxe
    left
    rw [isAlive_destroy]; simp
  · have hf : findEnt (destroyEnt s e) x = findEnt s x := by
      simp only [findEnt, destroyEnt]; exact findEnt_setEnt_ne _ _ _ _ (fun _ => rfl) hxe
    simp only [isAlive, hf]
    exact this


theorem dropContainer_OwnerInv (s : State) (br : Nat) (ho : OwnerInv s) : OwnerInv (dropContainer s br) := by
  intro p hp x hx
  simp only [dropContainer, List.mem_filter] at hp
  have := ho p hp.1 x hx
  simp only [keepInSpace, ownerOf, isAlive, findEnt, dropContainer, List.find?_map, Function.comp_def,
    Bool.or_eq_true, Bool.not_eq_true', beq_iff_eq] at this ⊢
  have hpred : (fun y : Ent => decide ((if ((spaceOf s br).getD []).contains y.h = true then
      { y with alive := false } else y).h = x)) = (fun y : Ent => decide (y.h = x)) := by
    funext y; split <;> rfl
  rw [hpred]
  cases hf : s.ents.find? (fun y => decide (y.h = x)) with
  | none => simp
  | some y =>
    simp only [hf, Option.map_some] at this ⊢
    split
    · left; rfl
    · exact this

theorem filterSpaces_OwnerInv {s s' : State} (ho : OwnerInv s) (q : Nat → Bool)
    (hS : s'.spaces = s.spaces.map (fun p => (p.1, p.2.filter q)))
    (hK : ∀ k x, keepInSpace s k x = true → keepInSpace s' k x = true) : OwnerInv s' := by
  intro p hp x hx
  rw [hS] at hp
  simp only [List.mem_map] at hp
  obtain ⟨p0, hp0, rfl⟩ := hp
  simp only [List.mem_filter] at hx
  exact hK p0.1 x (ho p0 hp0 x hx.1)

theorem renameBlock_ents (s : State) (a b : Str) : (renameBlock s a b).1.ents = s.ents := by
  unfold renameBlock; split
  · rfl
  · split <;> rfl

theorem setActive_ents (s : State) (n : Str) : (setActive s n).1.ents = s.ents := by
  unfold setActive
  split
  · rfl
  · split
    · rfl
    · split
      · split
        · rfl
        · simp only [renameBlock_ents]
      · rfl

theorem OwnerInv.newKey {s s' : State} (ho : OwnerInv s) (br : Nat) (hS : s'.spaces = s.spaces ++ [(br, [])])
    (hE : s'.ents = s.ents) : OwnerInv s' := by
  intro p hp x hx
  rw [hS] at hp
  simp only [List.mem_append, List.mem_singleton] at hp
  rcases hp with hp | rfl
  · rw [keepInSpace_congr (s := s) p.1 x (by simp [findEnt, hE])]
    exact ho p hp x hx
  · simp at hx

theorem find_append_fresh (ents xs : List Ent) (h : Nat) (hm : h ∉ ents.map (·.h)) :
    (ents ++ xs).find? (·.h = h) = xs.find? (·.h = h) := by
  rw [List.find?_append]
  have : ents.find? (·.h = h) = none := by
    apply List.find?_eq_none.mpr
    intro e he heq
    apply hm
    simp only [List.mem_map]
    exact ⟨e, he, by simpa using heq⟩
  simp [this]

theorem find_append_known (ents xs : List Ent) (h : Nat) (hm : h ∈ ents.map (·.h)) :
    (ents ++ xs).find? (·.h = h) = ents.find? (·.h = h) := by
  rw [List.find?_append]
  simp only [List.mem_map] at hm
  obtain ⟨e, he, heq⟩ := hm
  cases hf : ents.find? (·.h = h) with
  | none =>
    exfalso
    have := List.find?_eq_none.mp hf e he
    simp [heq] at this
  | some y => simp

theorem mem_setSpace_appendList {sp : List (Nat × List Nat)} {k : Nat} {l : List Nat} {p : Nat × List Nat}
    (hp : p ∈ setSpace sp k (· ++ l)) : ∃ q ∈ sp, p.1 = q.1 ∧ (p.2 = q.2 ∨ (q.1 = k ∧ p.2 = q.2 ++ l)) :=
  mem_setSpace hp

/-- OwnerInv after appending a list of fresh live entities (all owned by k) to space k -/
theorem OwnerInv.append_list {s s' : State} (ho : OwnerInv s) (hi : DocInv s) (k : Nat) (xs : List Ent)
    (hE : s'.ents = s.ents ++ xs) (hS : s'.spaces = setSpace s.spaces k (· ++ xs.map (·.h)))
    (hnew : ∀ x ∈ xs, x.h ∉ hs s) (hal : ∀ x ∈ xs, x.alive = true ∧ x.owner = some k) : OwnerInv s' := by
  intro p hp y hy
  rw [hS] at hp
  obtain ⟨q, hq, hk, hcase⟩ := mem_setSpace_appendList hp
  have old : ∀ z, z ∈ q.2 → keepInSpace s' q.1 z = true := by
    intro z hz
    have hzH : z ∈ hs s := hi.2.2.2.2 z (by
      simp only [allH, List.mem_flatten, List.mem_map]; exact ⟨q.2, ⟨q, hq, rfl⟩, hz⟩)
    rw [keepInSpace_congr (s := s) q.1 z (by
      simp only [findEnt, hE]; exact find_append_known _ _ _ hzH)]
    exact ho q hq z hz
  rcases hcase with h2 | ⟨hqk, h2⟩
  · rw [hk]; rw [h2] at hy; exact old y hy
  · rw [h2] at hy
    simp only [List.mem_append] at hy
    rcases hy with hy | hy
    · rw [hk]; exact old y hy
    · simp only [List.mem_map] at hy
      obtain ⟨x, hx, rfl⟩ := hy
      simp only [keepInSpace, isAlive, ownerOf, findEnt, hE]
      rw [find_append_fresh s.ents xs x.h (hnew x hx), hk, hqk]
      cases hf : xs.find? (·.h = x.h) with
      | none =>
        have := List.find?_eq_none.mp hf x hx
        simp at this
      | some z =>
        have hz := List.mem_of_find?_eq_some hf
        simp [(hal z hz).1, (hal z hz).2]

theorem HInv.append {s s' : State} (h : HInv s) (l : List Nat) (heq : hs s' = hs s ++ l) (hl : l.Nodup)
    (hfr : ∀ x ∈ l, (s.next ≤ x ∨ x ∉ hs s) ∧ x < s'.next) (hle : s.next ≤ s'.next) : HInv s' := by
  obtain ⟨hn, hb⟩ := h
  refine ⟨?_, ?_⟩
  · rw [heq]
    refine List.nodup_append.mpr ⟨hn, hl, ?_⟩
    intro a ha b hb' hab
    subst hab
    rcases (hfr a hb').1 with h1 | h1
    · have := hb a ha; omega
    · exact h1 ha
  · intro y hy; rw [heq] at hy
    simp only [List.mem_append] at hy
    rcases hy with hy | hy
    · have := hb y hy; omega
    · exact (hfr y hy).2

theorem explodeEnts_props (s : State) (k : Nat) (src : List Nat) (news : List (Nat × List Nat)) (texts : List Nat) :
    ∀ x ∈ explodeEnts s k src news texts, x.alive = true ∧ x.owner = some k ∧ x.indb = true := by
  intro x hx
  simp only [explodeEnts, List.mem_append, List.mem_map] at hx
  rcases hx with ⟨p, _, rfl⟩ | ⟨p, _, rfl⟩ <;> exact ⟨rfl, rfl, rfl⟩

theorem dropAttribs_OwnerInv (s : State) (e : Nat) (ho : OwnerInv s) : OwnerInv (dropAttribs s e) := by
  intro p hp x hx
  have := ho p hp x hx
  have hf : findEnt (dropAttribs s e) x =
      (findEnt s x).map (fun y => if y.h = e then { y with subs := y.subs.drop (y.subs.length - 1) } else y) := by
    simp only [findEnt, dropAttribs, setEnt, List.find?_map, Function.comp_def]
    have hfun : (fun y : Ent => decide ((if y.h = e then { y with subs := y.subs.drop (y.subs.length - 1) } else y).h = x)) =
        (fun y : Ent => decide (y.h = x)) := by
      funext y; split <;> rfl
    rw [hfun]
  simp only [keepInSpace, isAlive, ownerOf, hf] at this ⊢
  cases hfe : findEnt s x with
  | none => simp [hfe] at this ⊢
  | some y =>
    simp only [hfe, Option.map_some] at this ⊢
    split <;> exact this

theorem explodeCore_OwnerInv {s s' : State} {e k : Nat} {src : List Nat} {news : List (Nat × List Nat)} {texts : List Nat}
    {seed : Nat} (hi : DocInv s) (ho : OwnerInv s) (hshape : shapeOk s src news = true)
    (hfresh : freshOk s ((news.map (fun p => p.1 :: p.2)).flatten) seed = true) (htexts : textsOk s texts = true)
    (hcore : explodeCore s e k src news texts seed = some s') : OwnerInv s' := by
  obtain ⟨hn, hb⟩ := explode_new_handles hfresh htexts
  have hhs := explodeEnts_hs s k src news texts (shapeOk_len hshape)
  obtain ⟨s2, h2, rfl⟩ := explodeCore_parts hcore
  apply dropAttribs_OwnerInv
  apply destroyEnt_OwnerInv
  obtain ⟨s1, hs1⟩ : ∃ s1 : State, s1 = explodeMid s k src news texts seed := ⟨_, rfl⟩
  rw [← hs1] at h2
  have hE : s1.ents = s.ents ++ explodeEnts s k src news texts := by rw [hs1]; rfl
  have hS : s1.spaces = setSpace s.spaces k (· ++ (explodeEnts s k src news texts).map (·.h)) := by rw [hs1, hhs]; rfl
  have hH : hs s1 = hs s ++ (news.map (·.1) ++ texts) := by simp only [hs, hE, List.map_append, hhs]
  have hn1 : s1.next = seed := by rw [hs1]; rfl
  have hnewh : ∀ x ∈ explodeEnts s k src news texts, x.h ∉ hs s := by
    intro x hx hm
    have h1 : x.h ∈ news.map (·.1) ++ texts := by rw [← hhs]; exact List.mem_map_of_mem hx
    rcases (hb x.h h1).1 with h3 | h3
    · have := hi.1.2 x.h hm; omega
    · exact h3 hm
  have ho1 : OwnerInv s1 := ho.append_list hi k _ hE hS hnewh
    (fun x hx => ⟨(explodeEnts_props s k src news texts x hx).1, (explodeEnts_props s k src news texts x hx).2.1⟩)
  have hH1 : HInv s1 := hi.1.append _ hH hn
    (fun x hx => by rw [hn1]; exact hb x hx) (by rw [hn1]; exact freshOk_seed hfresh)
  have hS1 : SInv s1.spaces (hs s1) s1.next := by
    rw [hn1, hs1]
    exact explodeMid_SInv hi.1 hi.2 hshape hfresh htexts
  exact unlinkCore_OwnerInv h2 ⟨hH1, hS1⟩ ho1

/-- ownership consistency is preserved by every operation -/
theorem step_OwnerInv (s : State) (op : Op) (hi : DocInv s) (ho : OwnerInv s) (hok : OpOk s op) :
    OwnerInv (step s op).1 := by
  cases op with
  | add k h seed => exact newEnt_OwnerInv _ _ _ _ _ hi ho _
  | ins k n h seed => exact newEnt_OwnerInv _ _ _ _ _ hi ho _
  | unlink k e =>
    simp only [step]; split
    · rename_i h1; exact unlinkCore_OwnerInv h1 hi ho
    · exact ho
  | addex k e => exact addExisting_OwnerInv s k e ho hok
  | move k1 e k2 =>
    simp only [step]; split
    · exact ho
    · rename_i ha
      split
      · exact ho
      · rename_i s1 h1
        have ho1 := unlinkCore_OwnerInv h1 hi ho
        have hrm := unlinkCore_removed h1 (by simpa using ha) hi.2
        have := addExisting_OwnerInv s1 k2 e ho1 hrm
        split
        · rename_i s2 heq; rw [heq] at this; exact this
        · exact ho
  | del k e =>
    simp only [step]; split
    · exact ho
    · rename_i s1 h1
      exact destroyEnt_OwnerInv s1 e (unlinkCore_OwnerInv h1 hi ho)
  | destroy e => exact destroyEnt_OwnerInv s e ho
  | copy e k h subs seed =>
    simp only [step]; split
    · split
      · split
        · exact newEnt_OwnerInv _ _ _ _ _ hi ho _
        · exact ho
      · exact ho
    · exact ho
  | addL k r h subs seed => exact newEnt_OwnerInv _ _ _ _ _ hi ho _
  | explode e news seed =>
    rcases explode_cases s e news seed with ⟨er, h0⟩ | ⟨x, name, k, b, s', hx, hal, hr, ho', hsp, hb, hshape, hfresh, htexts, hcore, hstep⟩
    · rw [h0]; exact ho
    · rw [hstep]
      exact explodeCore_OwnerInv hi ho hshape hfresh htexts hcore
  | audit seed =>
    simp only [step]; split
    · exact OwnerInv.of_same (s := (audit s).1) (audit_clean s).1 rfl rfl
    · exact ho
  | addEntry t n seed =>
    simp only [step]; split
    · exact ho
    · split
      · exact ho.of_same rfl rfl
      · exact ho
  | delEntry t n => simp only [step]; split <;> first | exact ho | exact ho.of_same rfl rfl
  | dupEntry t a b seed =>
    simp only [step]; split
    · exact ho
    · split
      · exact ho.of_same rfl rfl
      · exact ho
  | newGroup n h seed =>
    simp only [step]; split
    · exact ho
    · split
      · exact ho.of_same rfl rfl
      · exact ho
  | setGroup n ms =>
    simp only [step]; split
    · exact ho
    · split
      · exact ho.of_same rfl rfl
      · exact ho
  | delGroup n => simp only [step]; split <;> first | exact ho | exact ho.of_same rfl rfl
  | purge =>
    obtain ⟨s', hs'⟩ : ∃ s', s' = (step s .purge).1 := ⟨_, rfl⟩
    rw [← hs']
    have hS : s'.spaces = s.spaces.map (fun p => (p.1, p.2.filter (isAlive s))) := by rw [hs']; rfl
    have hE : s'.ents = s.ents.map (fun x => { x with indb := x.indb && x.alive }) := by rw [hs']; rfl
    refine filterSpaces_OwnerInv ho _ hS ?_
    intro k x hk
    have hf : findEnt s' x = (findEnt s x).map (fun x => { x with indb := x.indb && x.alive }) := by
      simp only [findEnt, hE, List.find?_map, Function.comp_def]
    simp only [keepInSpace, isAlive, ownerOf, hf] at hk ⊢
    cases hfe : findEnt s x <;> simp_all
  | newBlock n br seed =>
    simp only [step]; split
    · exact ho
    · split
      · exact ho.newKey br rfl rfl
      · exact ho
  | delBlock n safe =>
    simp only [step]; split
    · exact ho
    · split
      · exact ho
      · exact dropContainer_OwnerInv s _ ho
  | renBlock a b => exact ho.of_same (renameBlock_spaces s a b) (renameBlock_ents s a b)
  | newLayout n br seed =>
    simp only [step]; split
    · exact ho
    · split
      · exact ho
      · split
        · exact ho.newKey br rfl rfl
        · exact ho
  | delLayout n =>
    simp only [step]; split
    · exact ho
    · split
      · exact ho
      · split
        · exact ho
        · simp only
          apply dropContainer_OwnerInv
          split
          · split
            · rename_i other _
              exact (ho.of_same (setActive_spaces s other.name) (setActive_ents s other.name)).of_same rfl rfl
            · exact ho.of_same rfl rfl
          · exact ho.of_same rfl rfl
  | renLayout a b =>
    simp only [step]; split
    · exact ho
    · split
      · exact ho
      · split
        · exact ho
        · exact ho.of_same rfl rfl
  | activate n => exact ho.of_same (setActive_spaces s n) (setActive_ents s n)
  | addLayer n seed =>
    simp only [step]; split
    · exact ho
    · split
      · exact ho.of_same rfl rfl
      · exact ho
  | delLayer n =>
    simp only [step]; split
    · exact ho.of_same rfl rfl
    · exact ho
  | reload seed =>
    obtain ⟨s', hs'⟩ : ∃ s', s' = (step s (.reload seed)).1 := ⟨_, rfl⟩
    rw [← hs']
    simp only [step] at hs'
    split at hs'
    · have hS : s'.spaces = s.spaces.map (fun p => (p.1, p.2.filter (isAlive s))) := by rw [hs']
      have hE : s'.ents = s.ents.map (fun x => if (x.alive && x.indb && x.owner.isSome) then x
          else { x with alive := false, indb := false }) := by rw [hs']
      refine filterSpaces_OwnerInv ho _ hS ?_
      intro k x hk
      have hpred : (fun y : Ent => decide ((if (y.alive && y.indb && y.owner.isSome) = true then y
          else { y with alive := false, indb := false }).h = x)) = (fun y : Ent => decide (y.h = x)) := by
        funext y; split <;> rfl
      have hf : findEnt s' x = (findEnt s x).map (fun x => if (x.alive && x.indb && x.owner.isSome) then x
          else { x with alive := false, indb := false }) := by
        simp only [findEnt, hE, List.find?_map, Function.comp_def, hpred]
      simp only [keepInSpace, isAlive, ownerOf, hf] at hk ⊢
      cases hfe : findEnt s x with
      | none => simp
      | some y =>
        simp only [hfe, Option.map_some, Bool.or_eq_true, Bool.not_eq_true', beq_iff_eq] at hk ⊢
        split
        · exact hk
        · left; rfl
    · rw [hs']; exact ho
  | foreign kind e => simp only [step]; split <;> exact ho

/-- ownership consistency in every reachable state -/
theorem owner_inv_reachable (s : State) (ops : List Op) (h : DocInv s) (ho : OwnerInv s) (hok : HistOk s ops) :
    OwnerInv (run s ops) := by
  induction ops generalizing s with
  | nil => exact ho
  | cons op r ih => exact ih _ (step_Inv s op h hok.1) (step_OwnerInv s op h ho hok.1) hok.2


/-- for clean ownership the block-section audit finds nothing -/
theorem spaceFixes_zero_of_ownerInv (s : State) (ho : OwnerInv s) : spaceFixes s = 0 :=
  (auditSpaces_clean s ho).2

/-- what is written between BLOCK and ENDBLK of block record `k` is owned by `k` -/
theorem liveContent_owner (s : State) (ho : OwnerInv s) (k x : Nat) (hx : x ∈ liveContent s k) :
    ownerOf s x = some k := by
  simp only [liveContent, List.mem_filter] at hx
  cases hsp : spaceOf s k with
  | none => simp [hsp] at hx
  | some l =>
    simp only [hsp, Option.getD_some] at hx
    have hm := find_some_mem (by unfold spaceOf at hsp; exact hsp)
    have := ho (k, l) hm x hx.1
    simp only [keepInSpace, hx.2, Bool.not_true, Bool.false_or, beq_iff_eq] at this
    exact this

end EzdxfVerif.Doc

/-
`fast_plain_mtext` and `plain_mtext` agree on the class `agreeClass` (lemmas for Props/C20).
-/
import EzdxfVerif.Lemmas.Text
namespace EzdxfVerif.Text

theorem plainOfTokens_ne_nil (ts : List Token) (para : Str) : plainOfTokens ts para ≠ [] := by
  induction ts generalizing para with
  | nil => simp [plainOfTokens]
  | cons t ts ih => cases t <;> simp [plainOfTokens, ih]

theorem joinNL_cons (p : Str) (l : List Str) (h : l ≠ []) : joinNL (p :: l) = p ++ '\n' :: joinNL l := by
  cases l with
  | nil => exact absurd rfl h
  | cons q l => rfl

/-- `"\n".join(plain_mtext(s, split=True))` is the paragraph under construction followed by the
    flattened tokens -/
theorem joinNL_plainOfTokens (ts : List Token) (para : Str) :
    joinNL (plainOfTokens ts para) = para ++ flat ts := by
  induction ts generalizing para with
  | nil => simp [plainOfTokens, joinNL, flat]
  | cons t ts ih =>
    cases t <;> simp only [plainOfTokens, flat, ih, List.append_assoc, List.cons_append, List.nil_append,
      List.singleton_append, joinNL_cons _ _ (plainOfTokens_ne_nil ts []), String.toList]
    all_goals simp

private theorem map_ok' {α β : Type} (f : α → β) (x : Except PyErr α) (a : α) (h : x = .ok a) :
    f <$> x = .ok (f a) := by subst h; rfl

theorem flat_append (a b : List Token) : flat (a ++ b) = flat a ++ flat b := by
  induction a with
  | nil => rfl
  | cons t ts ih => cases t <;> simp [flat, ih]

theorem flat_wordAnd_space (w : Str) : flat (wordAnd w .space) = w ++ [' '] := by
  unfold wordAnd; split
  · rename_i h; simp at h; subst h; simp [flat]
  · simp [flat]

theorem flat_wordAnd_np (w : Str) : flat (wordAnd w .newParagraph) = w ++ ['\n'] := by
  unfold wordAnd; split
  · rename_i h; simp at h; subst h; simp [flat]
  · simp [flat]

/-! ### one-step unfoldings of `fastLoop` -/

theorem oneChar_eq : oneCharCommands = ['P', 'N', 'L', 'l', 'O', 'o', 'K', 'k', 'X'] := by decide

theorem mem_one (d : Char) : d ∈ oneCharCommands ↔
    (d = 'P' ∨ d = 'N' ∨ d = 'L' ∨ d = 'l' ∨ d = 'O' ∨ d = 'o' ∨ d = 'K' ∨ d = 'k' ∨ d = 'X') := by
  rw [oneChar_eq]; simp

theorem stroke_eq : "LlOoKk".toList = ['L', 'l', 'O', 'o', 'K', 'k'] := by decide

theorem mem_stroke (d : Char) : d ∈ "LlOoKk".toList ↔
    (d = 'L' ∨ d = 'l' ∨ d = 'O' ∨ d = 'o' ∨ d = 'K' ∨ d = 'k') := by
  rw [stroke_eq]; simp

theorem fastLoop_nil (sp : Special) : fastLoop sp [] = [] := by rw [fastLoop.eq_def]

theorem fastLoop_esc (sp : Special) (d : Char) (r2 : Str) (hd : d = '\\' ∨ d = '{' ∨ d = '}') :
    fastLoop sp ('\\' :: d :: r2) = d :: fastLoop sp r2 := by
  conv => lhs; rw [fastLoop.eq_def]
  simp only [↓reduceIte, hd]

theorem fastLoop_P (sp : Special) (r2 : Str) : fastLoop sp ('\\' :: 'P' :: r2) = '\n' :: fastLoop sp r2 := by
  conv => lhs; rw [fastLoop.eq_def]
  simp [mem_one]

/-- `\L \l \O \o \K \k \X` are dropped -/
theorem fastLoop_one (sp : Special) (d : Char) (r2 : Str)
    (h : d = 'L' ∨ d = 'l' ∨ d = 'O' ∨ d = 'o' ∨ d = 'K' ∨ d = 'k' ∨ d = 'X') :
    fastLoop sp ('\\' :: d :: r2) = fastLoop sp r2 := by
  conv => lhs; rw [fastLoop.eq_def]
  rcases h with h | h | h | h | h | h | h <;> subst h <;> simp [mem_one]

/-- a command with arguments is skipped up to and including the first ";"; a stacking command keeps
    its expression -/
theorem fastLoop_cmd (sp : Special) (d : Char) (r2 : Str) (i : Nat)
    (hd : ¬(d = '\\' ∨ d = '{' ∨ d = '}')) (h1 : d ∉ oneCharCommands) (h2 : d ≠ ';')
    (hf : findIdx ';' r2 = some i) :
    fastLoop sp ('\\' :: d :: r2) = (if d = 'S' then r2.take i else []) ++ fastLoop sp (r2.drop (i + 1)) := by
  conv => lhs; rw [fastLoop.eq_def]
  simp only [↓reduceIte, hd, h1, h2]
  split
  · rename_i j hj; rw [hf] at hj; cases hj; rfl
  · rename_i hj; rw [hf] at hj; cases hj

theorem fastLoop_brace (sp : Special) (c : Char) (r : Str) (h : c = '{' ∨ c = '}') :
    fastLoop sp (c :: r) = fastLoop sp r := by
  conv => lhs; rw [fastLoop.eq_def]
  have : c ≠ '\\' := by rcases h with h | h <;> subst h <;> decide
  simp only [↓reduceIte, this, h]

theorem fastLoop_pct_nil (sp : Special) : fastLoop sp ['%'] = ['%'] := by
  rw [fastLoop.eq_def]; simp

theorem fastLoop_pct_other (sp : Special) (p : Char) (r2 : Str) (h : p ≠ '%') :
    fastLoop sp ('%' :: p :: r2) = '%' :: fastLoop sp (p :: r2) := by
  conv => lhs; rw [fastLoop.eq_def]
  simp [h]

theorem fastLoop_pct_special (sp : Special) (code l : Char) (r3 : Str) (h : sp code = some l) :
    fastLoop sp ('%' :: '%' :: code :: r3) = l :: fastLoop sp r3 := by
  conv => lhs; rw [fastLoop.eq_def]
  simp [h]

theorem fastLoop_pct_none (sp : Special) (code : Char) (r3 : Str) (h : sp code = none) :
    fastLoop sp ('%' :: '%' :: code :: r3) = '%' :: '%' :: code :: fastLoop sp r3 := by
  conv => lhs; rw [fastLoop.eq_def]
  simp [h]

theorem fastLoop_copy (sp : Special) (c : Char) (r : Str)
    (h1 : c ≠ '\\') (h2 : c ≠ '{') (h3 : c ≠ '}') (h4 : c ≠ '%') :
    fastLoop sp (c :: r) = c :: fastLoop sp r := by
  conv => lhs; rw [fastLoop.eq_def]
  simp [h1, h2, h3, h4]

/-! ### one-step unfoldings of `agreeClass` -/

theorem agree_esc (sp : Special) (d : Char) (r2 : Str) (hd : d = '\\' ∨ d = '{' ∨ d = '}') :
    agreeClass sp ('\\' :: d :: r2) = agreeClass sp r2 := by
  conv => lhs; rw [agreeClass.eq_def]
  simp only [↓reduceIte, hd]

theorem agree_one (sp : Special) (d : Char) (r2 : Str)
    (h : d = 'P' ∨ d = 'L' ∨ d = 'l' ∨ d = 'O' ∨ d = 'o' ∨ d = 'K' ∨ d = 'k' ∨ d = 'X') :
    agreeClass sp ('\\' :: d :: r2) = agreeClass sp r2 := by
  conv => lhs; rw [agreeClass.eq_def]
  rcases h with h | h | h | h | h | h | h | h <;> subst h <;> simp [mem_one]

theorem agree_N (sp : Special) (d : Char) (r2 : Str) (h : d = 'N' ∨ d = '~') :
    agreeClass sp ('\\' :: d :: r2) = false := by
  conv => lhs; rw [agreeClass.eq_def]
  rcases h with h | h <;> subst h <;> simp

theorem agree_S (sp : Special) (r2 : Str) (h : agreeClass sp ('\\' :: 'S' :: r2) = true) :
    ∃ i, findIdx ';' r2 = some i ∧ (∀ c ∈ r2.take i, stackPlainChar c = true) ∧
      agreeClass sp (r2.drop (i + 1)) = true := by
  rw [agreeClass.eq_def] at h
  simp [mem_one] at h
  split at h
  · rename_i i hi
    simp only [Bool.and_eq_true, List.all_eq_true] at h
    exact ⟨i, hi, h.1, h.2⟩
  · cases h

theorem agree_cmd (sp : Special) (d : Char) (r2 : Str)
    (hd : ¬(d = '\\' ∨ d = '{' ∨ d = '}')) (hn : ¬(d = 'N' ∨ d = '~')) (h1 : d ∉ oneCharCommands) (hs : d ≠ 'S')
    (h : agreeClass sp ('\\' :: d :: r2) = true) :
    (∃ r3, cmdAgree d r2 = some r3 ∧ agreeClass sp r3 = true) ∨
    (parseProperties d r2 = none ∧ d ≠ ';' ∧ findIdx ';' r2 = none ∧ agreeClass sp r2 = true) := by
  rw [agreeClass.eq_def] at h
  simp only [↓reduceIte, hd, hn, h1, hs] at h
  split at h
  · rename_i r3 hc; exact Or.inl ⟨r3, hc, h⟩
  · split at h
    · rename_i hc
      refine Or.inr ⟨?_, hc.2.1, hc.2.2, h⟩
      have := hc.1
      cases hp : parseProperties d r2 <;> simp_all
    · cases h

/-- an unknown command without a later ";" is copied verbatim -/
theorem fastLoop_unterminated (sp : Special) (d : Char) (r2 : Str)
    (hd : ¬(d = '\\' ∨ d = '{' ∨ d = '}')) (h1 : d ∉ oneCharCommands) (h2 : d ≠ ';') (hs : d ≠ 'S')
    (hf : findIdx ';' r2 = none) :
    fastLoop sp ('\\' :: d :: r2) = '\\' :: d :: fastLoop sp r2 := by
  conv => lhs; rw [fastLoop.eq_def]
  simp only [↓reduceIte, hd, h1, h2, hs]
  split
  · rename_i j hj; rw [hf] at hj; cases hj
  · simp

theorem agree_brace (sp : Special) (c : Char) (r : Str) (h : c = '{' ∨ c = '}') :
    agreeClass sp (c :: r) = agreeClass sp r := by
  conv => lhs; rw [agreeClass.eq_def]
  have : c ≠ '\\' := by rcases h with h | h <;> subst h <;> decide
  simp only [↓reduceIte, this, h]

theorem agree_pct_other (sp : Special) (p : Char) (r2 : Str) (h : p ≠ '%') :
    agreeClass sp ('%' :: p :: r2) = agreeClass sp (p :: r2) := by
  conv => lhs; rw [agreeClass.eq_def]
  simp [h]

theorem agree_pct_end (sp : Special) : agreeClass sp ['%', '%'] = false := by
  rw [agreeClass.eq_def]; simp

theorem agree_pct_special (sp : Special) (code l : Char) (r3 : Str) (h : sp code = some l) :
    agreeClass sp ('%' :: '%' :: code :: r3) = agreeClass sp r3 := by
  conv => lhs; rw [agreeClass.eq_def]
  simp [h]

theorem agree_pct_none (sp : Special) (code : Char) (r3 : Str) (h : sp code = none) :
    agreeClass sp ('%' :: '%' :: code :: r3) = (isCopy code && agreeClass sp r3) := by
  conv => lhs; rw [agreeClass.eq_def]
  simp [h]

theorem agree_copy (sp : Special) (c : Char) (r : Str)
    (h1 : c ≠ '\\') (h2 : c ≠ '{') (h3 : c ≠ '}') (h4 : c ≠ '%') :
    agreeClass sp (c :: r) = ((decide (32 ≤ c.toNat) || c == '\n') && agreeClass sp r) := by
  conv => lhs; rw [agreeClass.eq_def]
  simp [h1, h2, h3, h4]

/-! ### the expression of a stacking command -/

theorem scanFind_noesc (s : Str) (i : Nat) (hf : findIdx ';' s = some i)
    (hb : ∀ c ∈ s.take i, c ≠ '\\') : scanFind ';' true s = some i := by
  induction s generalizing i with
  | nil => simp [findIdx] at hf
  | cons c t ih =>
    simp only [findIdx] at hf
    by_cases hc : c = ';'
    · simp only [hc, ↓reduceIte, Option.some.injEq] at hf
      subst hf; subst hc
      cases t with
      | nil => simp [scanFind]
      | cons d rest => simp [scanFind]
    · simp only [hc, ↓reduceIte] at hf
      cases hj : findIdx ';' t with
      | none => simp [hj] at hf
      | some j =>
        simp only [hj, Option.map_some, Option.some.injEq] at hf
        subst hf
        have hcb : c ≠ '\\' := hb c (by simp)
        have ht := ih j hj (fun x hx => hb x (by simp [hx]))
        cases t with
        | nil => simp [findIdx] at hj
        | cons d rest => simp [scanFind, hcb, hc, ht]

theorem stackNext_plain (c : Char) (r : Str) (h : stackPlainChar c = true) :
    stackNext (c :: r) = ([c], false, r) := by
  simp only [stackPlainChar, Bool.and_eq_true, decide_eq_true_eq, bne_iff_ne, ne_eq] at h
  have h32 : ¬ c.toNat < 32 := by omega
  simp [stackNext, ctl, h32, h.2]

theorem parseDenominator_plain (s w : Str) (h : ∀ c ∈ s, stackPlainChar c = true) :
    parseDenominator s w = w ++ s := by
  induction s generalizing w with
  | nil => rw [parseDenominator.eq_def]; simp
  | cons c r ih =>
    rw [parseDenominator.eq_def]
    simp only [stackNext_plain c r (h c (by simp))]
    rw [ih _ (fun x hx => h x (by simp [hx]))]; simp

theorem parseNumerator_plain (s w : Str) (h : ∀ c ∈ s, stackPlainChar c = true) :
    (parseNumerator s w).1 ++ (parseNumerator s w).2.1 ++ (parseNumerator s w).2.2 = w ++ s ∧
    ((parseNumerator s w).2.1 = [] → (parseNumerator s w).2.2 = []) ∧
    (∀ c ∈ (parseNumerator s w).2.2, stackPlainChar c = true) := by
  induction s generalizing w with
  | nil => rw [parseNumerator.eq_def]; simp
  | cons c r ih =>
    rw [parseNumerator.eq_def]
    simp only [stackNext_plain c r (h c (by simp))]
    have hr : ∀ x ∈ r, stackPlainChar x = true := fun x hx => h x (by simp [hx])
    split
    · simp; exact hr
    · have := ih (w ++ [c]) hr
      simpa using this

theorem flat_parseStacking (e : Str) (h : ∀ c ∈ e, stackPlainChar c = true) (ts : List Token) :
    flat (parseStacking e :: ts) = e ++ flat ts := by
  obtain ⟨h1, h2, h3⟩ := parseNumerator_plain e [] h
  unfold parseStacking
  generalize parseNumerator e [] = pn at *
  obtain ⟨num, ty, rest⟩ := pn
  simp only [List.nil_append] at h1 h2 h3 ⊢
  by_cases hty : ty = []
  · subst hty
    have := h2 rfl
    subst this
    simp at h1
    simp [flat, h1]
  · have : ty.isEmpty = false := by cases ty <;> simp_all
    simp only [this, Bool.false_eq_true, ↓reduceIte, flat]
    rw [parseDenominator_plain rest [] h3]
    simp only [List.nil_append]
    rw [← h1]

theorem specialAt_some {sp : Special} {head l : Char} {tail r3 : Str}
    (h : specialAt sp head tail = some (l, r3)) :
    head = '%' ∧ ∃ code, tail = '%' :: code :: r3 ∧ sp code = some l := by
  unfold specialAt at h
  split at h
  · rename_i hh
    refine ⟨hh, ?_⟩
    split at h
    · rename_i p code r3'
      split at h
      · rename_i hp
        cases hs : sp code with
        | none => simp [hs] at h
        | some l' =>
          simp [hs] at h
          exact ⟨code, by rw [hp, h.2], by rw [hs, h.1]⟩
      · cases h
    · cases h
  · cases h

theorem parseProperties_stroke (d : Char) (r2 : Str) (h : d ∈ "LlOoKk".toList) :
    parseProperties d r2 = some (.ok r2) := by
  unfold parseProperties; simp only [h, ↓reduceIte]

theorem parseProperties_semicolon (r2 : Str) : parseProperties ';' r2 = none := by
  simp [parseProperties, mem_stroke]

theorem cmdAgree_some {d : Char} {r2 r3 : Str} (h : cmdAgree d r2 = some r3) :
    parseProperties d r2 = some (.ok r3) ∧ ∃ i, findIdx ';' r2 = some i ∧ r2.drop (i + 1) = r3 := by
  unfold cmdAgree at h
  split at h
  · rename_i r3' i hp hf
    split at h
    · rename_i heq
      cases h
      exact ⟨hp, i, hf, heq⟩
    · cases h
  · cases h

theorem scan_agree (sp : Special) (rest word : Str) (h : agreeClass sp rest = true) :
    ∃ ts, scan sp rest word = .ok ts ∧ flat ts = word ++ fastLoop sp rest := by
  fun_induction scan sp rest word
  case case1 word =>
    refine ⟨_, rfl, ?_⟩
    rw [fastLoop_nil]
    by_cases hw : word = []
    · subst hw; simp [flat]
    · have : word.isEmpty = false := by cases word <;> simp_all
      simp [this, flat]
  case case2 word =>
    rw [agreeClass.eq_def] at h; simp at h
  case case3 word d r2 hd ih =>
    rw [agree_esc sp d r2 hd] at h
    obtain ⟨ts, h1, h2⟩ := ih h
    refine ⟨ts, h1, ?_⟩
    rw [h2, fastLoop_esc sp d r2 hd]; simp
  case case4 word d r2 hd hw _ ih =>
    obtain ⟨ts, h1, h2⟩ := ih h
    refine ⟨_, map_ok' _ _ _ h1, ?_⟩
    simp [flat, h2]
  case case5 word r2 hw _ ih =>
    rw [agree_N sp '~' r2 (Or.inr rfl)] at h; cases h
  case case6 word r2 hw _ _ ih =>
    simp only [ne_eq, Decidable.not_not] at hw; subst hw
    rw [agree_one sp 'P' r2 (by simp)] at h
    obtain ⟨ts, h1, h2⟩ := ih h
    refine ⟨_, map_ok' _ _ _ h1, ?_⟩
    rw [fastLoop_P]; simp [flat, h2]
  case case7 word r2 hw _ _ _ ih =>
    rw [agree_N sp 'N' r2 (Or.inl rfl)] at h; cases h
  case case8 word r2 hw _ _ _ _ ih =>
    simp only [ne_eq, Decidable.not_not] at hw; subst hw
    rw [agree_one sp 'X' r2 (by simp)] at h
    obtain ⟨ts, h1, h2⟩ := ih h
    refine ⟨_, map_ok' _ _ _ h1, ?_⟩
    rw [fastLoop_one sp 'X' r2 (by simp)]; simp [flat, h2]
  case case9 word r2 hw expr r3 he _ _ _ _ _ _ ih =>
    simp only [ne_eq, Decidable.not_not] at hw; subst hw
    obtain ⟨i, hf, hpl, hag⟩ := agree_S sp r2 h
    have hsf := scanFind_noesc r2 i hf (fun c hc => by
      have := hpl c hc
      simp only [stackPlainChar, Bool.and_eq_true, bne_iff_ne, ne_eq] at this
      exact this.2)
    simp only [extractExpr, hsf, Prod.mk.injEq] at he
    obtain ⟨he1, he2⟩ := he
    subst he1; subst he2
    obtain ⟨ts, h1, h2⟩ := ih hag
    refine ⟨_, map_ok' _ _ _ h1, ?_⟩
    rw [flat_parseStacking _ hpl, h2]
    rw [fastLoop_cmd sp 'S' r2 i (by decide) (by rw [mem_one]; decide) (by decide) hf]
    simp
  case case10 word d r2 hd hw h1 h2 h3 h4 h5 hp ih =>
    by_cases ho : d ∈ oneCharCommands
    · exfalso
      have hst : d ∈ "LlOoKk".toList := by
        rw [mem_one] at ho; rw [mem_stroke]
        rcases ho with ho | ho | ho | ho | ho | ho | ho | ho | ho <;> simp_all
      rw [parseProperties_stroke d r2 hst] at hp; cases hp
    · rcases agree_cmd sp d r2 hd (by simp [h1, h3]) ho h5 h with ⟨r3, hc, _⟩ | ⟨_, hsc, hf, hag⟩
      · rw [(cmdAgree_some hc).1] at hp; cases hp
      · obtain ⟨ts, t1, t2⟩ := ih hag
        refine ⟨ts, t1, ?_⟩
        rw [t2, fastLoop_unterminated sp d r2 hd ho hsc h5 hf]; simp
  case case11 word d r2 hd hw h1 h2 h3 h4 h5 e hp =>
    exfalso
    by_cases ho : d ∈ oneCharCommands
    · have hst : d ∈ "LlOoKk".toList := by
        rw [mem_one] at ho; rw [mem_stroke]
        rcases ho with ho | ho | ho | ho | ho | ho | ho | ho | ho <;> simp_all
      rw [parseProperties_stroke d r2 hst] at hp; cases hp
    · rcases agree_cmd sp d r2 hd (by simp [h1, h3]) ho h5 h with ⟨r3, hc, _⟩ | ⟨hnone, _⟩
      · rw [(cmdAgree_some hc).1] at hp; cases hp
      · rw [hnone] at hp; cases hp
  case case12 word d r2 hd hw h1 h2 h3 h4 h5 r3 hp _ ih =>
    by_cases ho : d ∈ oneCharCommands
    · have ho' : d = 'L' ∨ d = 'l' ∨ d = 'O' ∨ d = 'o' ∨ d = 'K' ∨ d = 'k' := by
        rw [mem_one] at ho
        rcases ho with ho | ho | ho | ho | ho | ho | ho | ho | ho <;> simp_all
      have hst : d ∈ "LlOoKk".toList := by rw [mem_stroke]; exact ho'
      rw [parseProperties_stroke d r2 hst] at hp
      cases hp
      rw [agree_one sp d r2 (by rcases ho' with ho' | ho' | ho' | ho' | ho' | ho' <;> simp [ho'])] at h
      obtain ⟨ts, h1, h2⟩ := ih h
      refine ⟨ts, h1, ?_⟩
      rw [h2, fastLoop_one sp d r2 (by rcases ho' with ho' | ho' | ho' | ho' | ho' | ho' <;> simp [ho'])]
    · rcases agree_cmd sp d r2 hd (by simp [h1, h3]) ho h5 h with ⟨r3', hc, hag⟩ | ⟨hnone, _⟩
      · obtain ⟨hp', i, hf, hdrop⟩ := cmdAgree_some hc
        rw [hp] at hp'
        cases hp'
        obtain ⟨ts, h1, h2⟩ := ih hag
        refine ⟨ts, h1, ?_⟩
        have hsc : d ≠ ';' := by
          intro hh; subst hh; rw [parseProperties_semicolon] at hp; cases hp
        rw [h2, fastLoop_cmd sp d r2 i hd ho hsc hf, hdrop]
        simp [h5]
      · rw [hnone] at hp; cases hp
  case case13 word tail _ ih =>
    rw [agree_copy sp '\t' tail (by decide) (by decide) (by decide) (by decide)] at h
    simp at h
  case case14 word tail _ _ ih =>
    rw [agree_copy sp '\n' tail (by decide) (by decide) (by decide) (by decide)] at h
    simp at h
    obtain ⟨ts, h1, h2⟩ := ih h
    refine ⟨_, map_ok' _ _ _ h1, ?_⟩
    rw [flat_append, flat_wordAnd_np, h2,
      fastLoop_copy sp '\n' tail (by decide) (by decide) (by decide) (by decide)]
    simp
  case case15 word head tail hb ht hn h32 ih =>
    exfalso
    have e1 : head ≠ '{' := by intro hh; subst hh; revert h32; decide
    have e2 : head ≠ '}' := by intro hh; subst hh; revert h32; decide
    have e3 : head ≠ '%' := by intro hh; subst hh; revert h32; decide
    rw [agree_copy sp head tail hb e1 e2 e3] at h
    have : ¬ 32 ≤ head.toNat := by omega
    simp [this, hn] at h
  case case16 word head tail hb ht hn h32 l r3 hs _ ih =>
    obtain ⟨hh, code, htail, hsp⟩ := specialAt_some hs
    subst hh; subst htail
    rw [agree_pct_special sp code l r3 hsp] at h
    obtain ⟨ts, h1, h2⟩ := ih h
    refine ⟨ts, h1, ?_⟩
    rw [h2, fastLoop_pct_special sp code l r3 hsp]; simp
  case case17 word tail _ _ _ _ hs ih =>
    rw [agree_copy sp ' ' tail (by decide) (by decide) (by decide) (by decide)] at h
    simp at h
    obtain ⟨ts, h1, h2⟩ := ih h
    refine ⟨_, map_ok' _ _ _ h1, ?_⟩
    rw [flat_append, flat_wordAnd_space, h2,
      fastLoop_copy sp ' ' tail (by decide) (by decide) (by decide) (by decide)]
    simp
  case case18 word head tail hb ht hn h32 hs hsp hbr hw _ ih =>
    obtain ⟨ts, h1, h2⟩ := ih h
    refine ⟨_, map_ok' _ _ _ h1, ?_⟩
    simp [flat, h2]
  case case19 word head tail hb ht hn h32 hs hsp hbr hw ih =>
    simp only [ne_eq, Decidable.not_not] at hw; subst hw
    rw [agree_brace sp head tail hbr] at h
    obtain ⟨ts, h1, h2⟩ := ih h
    refine ⟨ts, h1, ?_⟩
    rw [h2, fastLoop_brace sp head tail hbr]
  case case20 word head tail hb ht hn h32 hs hsp hbr ih =>
    have e1 : head ≠ '{' := fun hh => hbr (Or.inl hh)
    have e2 : head ≠ '}' := fun hh => hbr (Or.inr hh)
    by_cases hpc : head = '%'
    · subst hpc
      match tail, hs, ih, h with
      | [], _, ih, h =>
        obtain ⟨ts, h1, h2⟩ := ih (by rw [agreeClass.eq_def])
        refine ⟨ts, h1, ?_⟩
        rw [h2, fastLoop_nil, fastLoop_pct_nil]; simp
      | p :: r2, hs, ih, h =>
        by_cases hp : p = '%'
        · subst hp
          match r2, hs, ih, h with
          | [], _, _, h => rw [agree_pct_end] at h; cases h
          | code :: r3, hs, ih, h =>
            have hnone : sp code = none := by
              cases hc : sp code with
              | none => rfl
              | some l => simp [specialAt, hc] at hs
            rw [agree_pct_none sp code r3 hnone] at h
            simp only [Bool.and_eq_true] at h
            obtain ⟨hcp, hag⟩ := h
            have hcp' := hcp
            simp only [isCopy, Bool.and_eq_true, Bool.or_eq_true, decide_eq_true_eq, bne_iff_ne, ne_eq,
              beq_iff_eq] at hcp'
            obtain ⟨⟨⟨⟨c0, c1⟩, c2⟩, c3⟩, c4⟩ := hcp'
            have hag2 : agreeClass sp ('%' :: code :: r3) = true := by
              rw [agree_pct_other sp code r3 c4, agree_copy sp code r3 c1 c2 c3 c4, hag]
              simp [c0]
            obtain ⟨ts, h1, h2⟩ := ih hag2
            refine ⟨ts, h1, ?_⟩
            rw [h2, fastLoop_pct_other sp code r3 c4, fastLoop_copy sp code r3 c1 c2 c3 c4,
              fastLoop_pct_none sp code r3 hnone]
            simp
        · rw [agree_pct_other sp p r2 hp] at h
          obtain ⟨ts, h1, h2⟩ := ih h
          refine ⟨ts, h1, ?_⟩
          rw [h2, fastLoop_pct_other sp p r2 hp]; simp
    · rw [agree_copy sp head tail hb e1 e2 hpc] at h
      simp only [Bool.and_eq_true] at h
      obtain ⟨ts, h1, h2⟩ := ih h.2
      refine ⟨ts, h1, ?_⟩
      rw [h2, fastLoop_copy sp head tail hb e1 e2 hpc]; simp

end EzdxfVerif.Text

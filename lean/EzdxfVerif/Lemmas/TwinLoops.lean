/-
Generic lemmas about the loop skeletons of Model/TwinLoops.lean (property C10): equal / related loop bodies give
equal / related loops.  Nothing here mentions a translated kernel: the statements hold for every choice of bodies, the
counted theorems of Props/C10.lean instantiate them with the kernels regenerated from both twins.
-/
import EzdxfVerif.Model.TwinLoops
import Mathlib.Tactic.Ring
import Mathlib.Tactic.Linarith
import Mathlib.Tactic.SplitIfs

namespace EzdxfVerif.TwinLoops
open EzdxfVerif.Rat3

/-! ## equal bodies give equal loops -/

/-- `while`: pointwise equal tests and steps give the same loop (any fuel, any start) -/
theorem whileFuel_congr {σ : Type} {c c' : σ → Bool} {f f' : σ → σ} (hc : ∀ s, c s = c' s) (hf : ∀ s, f s = f' s) :
    whileFuel c f = whileFuel c' f' := by
  have h1 : c = c' := funext hc
  have h2 : f = f' := funext hf
  subst h1; subst h2; rfl

/-- `for i in range(lo, hi)`: pointwise equal bodies give the same loop -/
theorem forRange_congr {σ : Type} {b b' : Nat → σ → Except PyErr σ} (h : ∀ i s, b i s = b' i s) (lo hi : Nat) :
    forRange lo hi b = forRange lo hi b' := by
  have : b = b' := funext fun i => funext fun s => h i s
  subst this; rfl

/-- `while` with RELATED states (simulation): if the tests agree on related states and the steps keep states related, the
    two loops stop together in related states -/
theorem whileFuel_sim {σ τ : Type} (R : σ → τ → Prop) {c : σ → Bool} {f : σ → σ} {c' : τ → Bool} {f' : τ → τ}
    (hc : ∀ a b, R a b → c a = c' b) (hf : ∀ a b, R a b → R (f a) (f' b)) :
    ∀ n a b, R a b → (whileFuel c f n a = none ∧ whileFuel c' f' n b = none)
      ∨ ∃ x y, whileFuel c f n a = some x ∧ whileFuel c' f' n b = some y ∧ R x y := by
  intro n
  induction n with
  | zero =>
    intro a b h
    simp only [whileFuel, ← hc a b h]
    cases c a
    · right; exact ⟨a, b, by simp, by simp, h⟩
    · left; simp
  | succ n ih =>
    intro a b h
    simp only [whileFuel, ← hc a b h]
    cases c a
    · right; exact ⟨a, b, by simp, by simp, h⟩
    · simpa using ih (f a) (f' b) (hf a b h)

/-- `for` with RELATED states: related bodies give related results (errors equal) -/
theorem foldlM_sim {σ τ ι : Type} (R : σ → τ → Prop) {b : σ → ι → Except PyErr σ} {b' : τ → ι → Except PyErr τ}
    (hb : ∀ i s t, R s t → (∃ e, b s i = .error e ∧ b' t i = .error e) ∨ ∃ x y, b s i = .ok x ∧ b' t i = .ok y ∧ R x y) :
    ∀ (l : List ι) s t, R s t →
      (∃ e, l.foldlM b s = .error e ∧ l.foldlM b' t = .error e) ∨ ∃ x y, l.foldlM b s = .ok x ∧ l.foldlM b' t = .ok y ∧ R x y := by
  intro l
  induction l with
  | nil => intro s t h; right; exact ⟨s, t, rfl, rfl, h⟩
  | cons i l ih =>
    intro s t h
    rcases hb i s t h with ⟨e, h1, h2⟩ | ⟨x, y, h1, h2, hr⟩
    · left; refine ⟨e, ?_, ?_⟩ <;> simp only [List.foldlM_cons, h1, h2] <;> rfl
    · have := ih x y hr
      simp only [List.foldlM_cons, h1, h2]
      exact this

/-! ## Python `sum` -/

theorem foldl_add (l : List Rat) (a : Rat) : l.foldl (· + ·) a = a + l.foldl (· + ·) 0 := by
  induction l generalizing a with
  | nil => simp
  | cons x l ih =>
    simp only [List.foldl_cons]
    rw [ih (a + x), ih (0 + x)]; ring

theorem pySum_nil : pySum [] = 0 := rfl

theorem pySum_cons (x : Rat) (l : List Rat) : pySum (x :: l) = x + pySum l := by
  unfold pySum; simp only [List.foldl_cons]; rw [foldl_add]; ring

theorem pySum_append (l m : List Rat) : pySum (l ++ m) = pySum l + pySum m := by
  induction l with
  | nil => simp [pySum_nil]
  | cons x l ih => simp only [List.cons_append, pySum_cons, ih]; ring

/-! ## span_weighting, basis_vector, Evaluator.point -/

/-- the two `span_weighting` skeletons agree when the Cython test is the negation of the Python test -/
theorem spanWeighting_twin (K K' : SpanWeightK) (hp : K.product = K'.product) (hq : K.quot = K'.quot)
    (ht : ∀ s, K.test s = !K'.test s) : spanWeightingPy K = spanWeightingPyx K' := by
  funext weights order nbasis span
  unfold spanWeightingPy spanWeightingPyx swProducts
  simp only [hp, hq, ht]
  cases K'.test _ <;> simp

/-- `[0.0] * front + basis + [0.0] * back` = the conditional `extend`s of the Cython twin, for all integers -/
theorem basisVector_twin : basisVectorPy = basisVectorPyx := by
  funext front back basis
  unfold basisVectorPy basisVectorPyx
  by_cases h1 : front > 0 <;> by_cases h2 : back > 0
  · simp [h1, h2]
  · have : back.toNat = 0 := Int.toNat_of_nonpos (by omega)
    simp [h1, h2, this]
  · have : front.toNat = 0 := Int.toNat_of_nonpos (by omega)
    simp [h1, h2, this]
  · have : front.toNat = 0 := Int.toNat_of_nonpos (by omega)
    have : back.toNat = 0 := Int.toNat_of_nonpos (by omega)
    simp [*]

/-- `Vec3.sum(term(N[i], cp[i]) for i …)` = the in place accumulation, when one accumulation step is `s + term` -/
theorem pointSum_twin (term : Rat → V3 → V3) (add : V3 → V3 → V3) (accum : V3 → Rat → V3 → V3)
    (h : ∀ s n c, accum s n c = add s (term n c)) : pointSumPy term add = pointSumPyx accum := by
  have : accum = fun s n c => add s (term n c) := funext fun s => funext fun n => funext fun c => h s n c
  subst this; rfl

/-! ## line type renderer: the way a twin records (is_dash, length) does not influence the run -/

theorem render_map {ε ε' : Type} (K : RenderK) (dashes : List Rat) (emit : Bool → Rat → ε) (g : ε → ε') :
    ∀ (f : Nat) (len : Rat) (st : LtState) (out : List ε),
      (renderDashes K dashes (fun b l => g (emit b l)) f len (st, out.map g)
        = (renderDashes K dashes emit f len (st, out)).map (fun o => (o.1, o.2.map g)))
      ∧ (renderWhile K dashes (fun b l => g (emit b l)) f len (st, out.map g)
        = (renderWhile K dashes emit f len (st, out)).map (fun o => (o.1, o.2.map g))) := by
  intro f
  induction f with
  | zero => intro len st out; simp [renderDashes, renderWhile]
  | succ f ih =>
    intro len st out
    constructor
    · simp only [renderDashes]
      by_cases h : K.fits len st.cdl = true
      · simp [h]
      · simp only [h]
        exact (ih len st out).2
    · simp only [renderWhile]
      by_cases h : K.more len st.cdl = true
      · simp only [h, if_true]
        rw [(ih st.cdl st out).1]
        cases hr : renderDashes K dashes emit f st.cdl (st, out) with
        | none => simp
        | some s' =>
          obtain ⟨st', out'⟩ := s'
          simp only [Option.map_some]
          exact (ih _ st' out').2
      · simp only [h]
        by_cases h2 : K.rest len = true
        · simp only [h2, if_true]; exact (ih len st out).1
        · simp [h2]

/-- reading back what the Cython twin stored gives what the Python twin yields -/
theorem decode_emit (b : Bool) (l : Rat) : decodePyx (emitPyx b l) = emitPy b l := by
  simp [decodePyx, emitPyx, emitPy]

theorem renderDashes_twin (K : RenderK) (dashes : List Rat) (f : Nat) (len : Rat) (st : LtState) :
    (renderDashes K dashes emitPyx f len (st, [])).map (fun o => (o.1, o.2.map decodePyx))
      = renderDashes K dashes emitPy f len (st, []) := by
  have h := (render_map K dashes emitPyx decodePyx f len st []).1
  simp only [List.map_nil] at h
  rw [← h]
  have : (fun b l => decodePyx (emitPyx b l)) = emitPy := funext fun b => funext fun l => decode_emit b l
  rw [this]

/-! ## has_clockwise_orientation: the three loops compute the same sum -/

theorem cwFold_eq (accum : Rat → V2 → V2 → Rat) (term : V2 → V2 → Rat) (h : ∀ s a b, accum s a b = s + term a b) :
    ∀ (l : List V2) (s : Rat) (p : V2), cwFold accum s p l = s + pySum (List.zipWith term (p :: l) l) := by
  intro l
  induction l with
  | nil => intro s p; simp [cwFold, pySum_nil]
  | cons q l ih =>
    intro s p
    simp only [cwFold, List.zipWith_cons_cons, pySum_cons]
    rw [ih, h]; ring

theorem zipWith_snoc (term : V2 → V2 → Rat) (v0 : V2) :
    ∀ (t : List V2) (a : V2), List.zipWith term (a :: t ++ [v0]) (t ++ [v0])
      = List.zipWith term (a :: t) t ++ [term ((a :: t).getD ((a :: t).length - 1) ⟨0, 0⟩) v0] := by
  intro t
  induction t with
  | nil => intro a; simp
  | cons b t ih =>
    intro a
    have := ih b
    simp only [List.cons_append, List.zipWith_cons_cons, List.length_cons] at this ⊢
    rw [this]
    simp

theorem cw_py_pyx (closed : V2 → V2 → Bool) (term : V2 → V2 → Rat) (accum : Rat → V2 → V2 → Rat) (sign : Rat → Bool)
    (h : ∀ s a b, accum s a b = s + term a b) : cwPy closed term sign = cwPyx closed accum sign := by
  funext vs
  unfold cwPy cwPyx
  by_cases hl : vs.length < 3
  · simp [hl]
  · simp only [hl, if_false]
    match vs, hl with
    | [], hl => simp at hl
    | a :: t, _ =>
      simp only [List.getD_cons_zero]
      congr 2
      split_ifs
      · simp only [List.cons_append, List.tail_cons]
        rw [cwFold_eq accum term h]; ring
      · simp only [List.tail_cons]
        rw [cwFold_eq accum term h]; ring

theorem cw_py_np (closed : V2 → V2 → Bool) (term : V2 → V2 → Rat) (sign : Rat → Bool)
    (closeX closeY : Rat → Rat → Bool) (accum : Rat → Rat → Rat → Rat → Rat → Rat)
    (hc : ∀ a b : V2, (closeX a.x b.x && closeY a.y b.y) = closed a b)
    (h : ∀ s (a b : V2), accum s a.x a.y b.x b.y = s + term a b) : cwNp closeX closeY accum sign = cwPy closed term sign := by
  funext vs
  unfold cwPy cwNp
  by_cases hl : vs.length < 3
  · simp [hl]
  · simp only [hl, if_false]
    match vs, hl with
    | [], hl => simp at hl
    | a :: t, _ =>
      simp only [List.getD_cons_zero, hc]
      have hf := cwFold_eq (fun s (p q : V2) => accum s p.x p.y q.x q.y) term h
      cases hcl : closed a ((a :: t).getD ((a :: t).length - 1) ⟨0, 0⟩)
      · simp only [Bool.not_false, if_true, Bool.false_eq_true, if_false]
        rw [hf, List.zipWith_cons_cons, pySum_cons]
        have := zipWith_snoc term a t a
        simp only [List.cons_append, List.tail_cons] at this ⊢
        rw [this, pySum_append, pySum_cons, pySum_nil]
        congr 2; ring
      · simp only [Bool.not_true, Bool.false_eq_true, if_false, if_true, List.tail_cons]
        rw [hf]; congr 2; ring

/-! ## earcut signed_area: previous point vs previous coordinates -/
theorem signedArea_twin (term : Rat → Rat → Rat → Rat → Rat → Rat) (step : Rat → Rat → Rat → Rat → Rat → Rat × Rat × Rat)
    (h : ∀ s px py x y, step s px py x y = (term s px py x y, x, y)) : signedAreaPy term = signedAreaPyx step := by
  have hs : step = fun s px py x y => (term s px py x y, x, y) := by
    funext s px py x y; exact h s px py x y
  subst hs
  funext pts
  unfold signedAreaPy signedAreaPyx
  have key : ∀ (l : List V2) (s : Rat) (p : V2),
      (l.foldl (fun (st : Rat × V2) pt => (term st.1 st.2.x st.2.y pt.x pt.y, pt)) (s, p)).1
        = (l.foldl (fun (st : Rat × Rat × Rat) pt => (term st.1 st.2.1 st.2.2 pt.x pt.y, pt.x, pt.y)) (s, p.x, p.y)).1 := by
    intro l
    induction l with
    | nil => intro s p; rfl
    | cons q l ih => intro s p; simp only [List.foldl_cons]; exact ih _ q
  split_ifs
  · rfl
  · exact key pts 0 _

/-! ## is_point_in_polygon_2d: list slicing (Python) vs index bounds (Cython) -/
theorem pip_twin (K : PipK) : pipPy K = pipPyx K := by
  funext pt poly tol
  unfold pipPy pipPyx
  by_cases h3 : poly.length < 3
  · simp [h3]
  · simp only [h3, if_false]
    cases hc : K.closed (poly.getD 0 ⟨0, 0⟩) (poly.getD (poly.length - 1) ⟨0, 0⟩)
    · simp only [Bool.false_eq_true, if_false, h3]
      rw [List.take_length]
    · simp only [if_true, List.length_dropLast]
      by_cases h4 : poly.length - 1 < 3
      · simp [h4]
      · simp only [h4, if_false]
        rw [List.dropLast_eq_take]
        congr 1
        simp only [List.getD_eq_getElem?_getD]
        rw [List.getElem?_take_of_lt (by omega)]

/-! ## Evaluator.derivative: only the binomial coefficients `binom k i` with k ≤ n are used -/
theorem foldlM_congr_mem {σ ι : Type} (f g : σ → ι → Except PyErr σ) :
    ∀ (l : List ι) (s : σ), (∀ k ∈ l, ∀ s, f s k = g s k) → l.foldlM f s = l.foldlM g s := by
  intro l
  induction l with
  | nil => intro s _; rfl
  | cons a l ih =>
    intro s h
    simp only [List.foldlM_cons, h a (List.mem_cons_self ..)]
    cases g s a with
    | error e => rfl
    | ok x => exact ih x (fun k hk => h k (List.mem_cons_of_mem _ hk))

theorem derivRational_binom (K : DerivK) (b1 b2 : Nat → Nat → Rat) (ders : List (List Rat)) (weights : List Rat) (cps : List V3)
    (span : Int) (p n : Nat) (h : ∀ k, k ≤ n → ∀ i, b1 k i = b2 k i) :
    derivRational K b1 ders weights cps span p n = derivRational K b2 ders weights cps span p n := by
  unfold derivRational
  congr 1
  funext hw
  unfold forRange
  apply foldlM_congr_mem
  intro k hk CK
  have hk' : k ≤ n := by
    have := (List.mem_range'_1.mp hk).2
    omega
  have hb : b1 k = b2 k := funext (h k hk')
  simp only [hb]

end EzdxfVerif.TwinLoops

/-
Effect of unlink / delete on what a layout shows (refinement lemmas for Props/C05).
-/
import EzdxfVerif.Lemmas.DocOwner
namespace EzdxfVerif.Doc

theorem filter_erase_comm (p : Nat → Bool) (l : List Nat) (e : Nat) (hp : p e = true) :
    (l.erase e).filter p = (l.filter p).erase e := by
  induction l with
  | nil => simp
  | cons a t ih =>
    by_cases hae : a = e
    · subst hae
      simp [List.erase_cons_head, List.filter_cons, hp]
    · have hae' : (a == e) = false := by simpa using hae
      rw [List.erase_cons_tail (by simpa using hae)]
      simp only [List.filter_cons]
      split
      · rw [List.erase_cons_tail (by simpa using hae), ih]
      · exact ih

theorem isAlive_setEnt_owner (ents : List Ent) (e x : Nat) (f : Ent → Ent) (hh : ∀ y, (f y).h = y.h)
    (ha : ∀ y, (f y).alive = y.alive) :
    (match (setEnt ents e f).find? (·.h = x) with | some y => y.alive | none => false) =
    (match ents.find? (·.h = x) with | some y => y.alive | none => false) := by
  by_cases hxe : x = e
  · subst hxe
    rw [findEnt_setEnt_eq _ _ _ hh]
    cases ents.find? (·.h = x) <;> simp [ha]
  · rw [findEnt_setEnt_ne _ _ _ _ hh hxe]

/-- `layout.unlink_entity(e)` for a live entity listed in that layout: the entity leaves the content of
    this layout, every other layout shows what it showed before -/
theorem spec_unlink (s s' : State) (k e : Nat) (h : unlinkCore s k e = some s') (ha : isAlive s e = true) :
    content s' k = (content s k).erase e ∧ ∀ k', k' ≠ k → content s' k' = content s k' := by
  unfold unlinkCore at h
  simp only [ha, Bool.not_true, Bool.false_eq_true, ↓reduceIte] at h
  split at h
  · cases h
  · rename_i sp hsp
    split at h
    · have hS : s'.spaces = setSpace s.spaces k (·.erase e) := by cases h; rfl
      have hE : s'.ents = setEnt s.ents e (fun x => { x with owner := none, psp := false }) := by cases h; rfl
      have halive : ∀ x, isAlive s' x = isAlive s x := by
        intro x
        simp only [isAlive, findEnt, hE]
        exact isAlive_setEnt_owner _ _ _ _ (fun _ => rfl) (fun _ => rfl)
      have hfun : isAlive s' = isAlive s := funext halive
      constructor
      · simp only [content, spaceOf, hS, spaceOf_setSpace, ↓reduceIte, hfun]
        unfold spaceOf at hsp
        rw [hsp]
        simp only [Option.map_some, Option.getD_some]
        exact filter_erase_comm _ _ _ ha
      · intro k' hk'
        simp only [content, spaceOf, hS, spaceOf_setSpace, hk', ↓reduceIte, hfun]
    · cases h

/-- `layout.delete_entity(e)`: as unlink, and the entity is dead afterwards -/
theorem spec_delete (s : State) (k e : Nat) (s1 : State) (h : unlinkCore s k e = some s1)
    (ha : isAlive s e = true) :
    (step s (.del k e)).2 = .ok ∧ isAlive (step s (.del k e)).1 e = false ∧
    content (step s (.del k e)).1 k = ((content s k).erase e).filter (· ≠ e) := by
  have hu := spec_unlink s s1 k e h ha
  simp only [step, h]
  refine ⟨trivial, ?_, ?_⟩
  · rw [isAlive_destroy]; simp
  · have : content (destroyEnt s1 e) k = (content s1 k).filter (· ≠ e) := by
      have := spec_destroy s1 e k
      simpa [step] using this
    rw [this, hu.1]

end EzdxfVerif.Doc

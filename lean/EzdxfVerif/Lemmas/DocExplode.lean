/-
Effect of `insert.explode()` on what the layouts show (refinement lemma for Props/C05).
-/
import EzdxfVerif.Lemmas.DocHandles
namespace EzdxfVerif.Doc

theorem content_dropAttribs (s : State) (e k : Nat) : content (dropAttribs s e) k = content s k := by
  have hal : isAlive (dropAttribs s e) = isAlive s := by
    funext x
    simp only [isAlive, findEnt, dropAttribs]
    exact isAlive_setEnt_owner _ _ _ _ (fun _ => rfl) (fun _ => rfl)
  simp only [content, hal]
  rfl

theorem isAlive_dropAttribs (s : State) (e x : Nat) : isAlive (dropAttribs s e) x = isAlive s x := by
  simp only [isAlive, findEnt, dropAttribs]
  exact isAlive_setEnt_owner _ _ _ _ (fun _ => rfl) (fun _ => rfl)

/-- what the layouts show after the new entities were appended (before the INSERT is deleted) -/
theorem content_explodeMid (s : State) (k : Nat) (src : List Nat) (news : List (Nat × List Nat)) (texts : List Nat)
    (seed : Nat) (hi : DocInv s) (hshape : shapeOk s src news = true)
    (hfresh : freshOk s ((news.map (fun p => p.1 :: p.2)).flatten) seed = true) (htexts : textsOk s texts = true)
    (hk : (spaceOf s k).isSome = true) :
    (∀ y ∈ hs s, isAlive (explodeMid s k src news texts seed) y = isAlive s y) ∧
    content (explodeMid s k src news texts seed) k = content s k ++ (news.map (·.1) ++ texts) ∧
    ∀ k', k' ≠ k → content (explodeMid s k src news texts seed) k' = content s k' := by
  obtain ⟨_, hb⟩ := explode_new_handles hfresh htexts
  have hhs := explodeEnts_hs s k src news texts (shapeOk_len hshape)
  have hknown : ∀ k' l, spaceOf s k' = some l → ∀ x ∈ l, x ∈ hs s := by
    intro k' l hl x hx
    exact hi.2.2.2.2 x (spaceOf_mem_allH (by simpa only [spaceOf] using hl) hx)
  have hold : ∀ y ∈ hs s, isAlive (explodeMid s k src news texts seed) y = isAlive s y := by
    intro y hy
    simp only [isAlive, findEnt, explodeMid]
    rw [find_append_known _ _ _ hy]
  have hnew : ∀ y ∈ news.map (·.1) ++ texts, isAlive (explodeMid s k src news texts seed) y = true := by
    intro y hy
    have hyn : y ∉ hs s := by
      intro hm
      rcases (hb y hy).1 with h3 | h3
      · have := hi.1.2 y hm; omega
      · exact h3 hm
    simp only [isAlive, findEnt, explodeMid]
    rw [find_append_fresh _ _ _ hyn]
    rw [← hhs] at hy
    simp only [List.mem_map] at hy
    obtain ⟨z, hz, hzy⟩ := hy
    cases hf : (explodeEnts s k src news texts).find? (·.h = y) with
    | none =>
      have := List.find?_eq_none.mp hf z hz
      simp [hzy] at this
    | some w =>
      exact (explodeEnts_props s k src news texts w (List.mem_of_find?_eq_some hf)).1
  refine ⟨hold, ?_, ?_⟩
  · cases hsp : spaceOf s k with
    | none => simp [hsp] at hk
    | some sp =>
      simp only [content, spaceOf, explodeMid, spaceOf_setSpace, ↓reduceIte]
      unfold spaceOf at hsp
      rw [hsp]
      simp only [Option.map_some, Option.getD_some, List.filter_append]
      congr 1
      · apply List.filter_congr
        intro x hx
        exact hold x (hknown k sp (by unfold spaceOf; exact hsp) x hx)
      · rw [← List.filter_append]
        exact filter_all_true _ _ hnew
  · intro k' hk'
    simp only [content, spaceOf, explodeMid, spaceOf_setSpace, hk', ↓reduceIte]
    cases hl : (s.spaces.find? (·.1 = k')).map (·.2) with
    | none => simp
    | some l =>
      simp only [Option.getD_some]
      apply List.filter_congr
      intro x hx
      exact hold x (hknown k' l (by unfold spaceOf; exact hl) x hx)

/-- `insert.explode()` accepted: the INSERT is destroyed and leaves the content of its layout; the copies of the block
    content (fresh handles, in block order) and then one TEXT per attached ATTRIB (the handle of the ATTRIB) are
    appended to that layout; every other layout and block shows what it showed -/
theorem spec_explode (s : State) (e : Nat) (news : List (Nat × List Nat)) (seed : Nat) (hi : DocInv s) (hl : LinkInv s)
    (hok : (step s (.explode e news seed)).2 = .ok) :
    ∃ x k, findEnt s e = some x ∧ x.owner = some k ∧
      isAlive (step s (.explode e news seed)).1 e = false ∧
      content (step s (.explode e news seed)).1 k =
        (content s k).erase e ++ (news.map (·.1) ++ x.subs.take (x.subs.length - 1)) ∧
      ∀ k', k' ≠ k → content (step s (.explode e news seed)).1 k' = content s k' := by
  rcases explode_cases s e news seed with ⟨er, h0⟩ | ⟨x, name, k, b, s', hx, hal, hr, ho, hsp, hb, hshape, hfresh, htexts, hcore, hstep⟩
  · rw [h0] at hok; cases hok
  · refine ⟨x, k, hx, ho, ?_⟩
    rw [hstep]
    obtain ⟨_, hnb⟩ := explode_new_handles hfresh htexts
    obtain ⟨s2, h2, rfl⟩ := explodeCore_parts hcore
    obtain ⟨hold, hck, hcother⟩ := content_explodeMid s k (liveContent s b) news
      (x.subs.take (x.subs.length - 1)) seed hi hshape hfresh htexts hsp
    have hes : e ∈ hs s := findEnt_mem hx
    have hae : isAlive s e = true := by simp [isAlive, hx, hal]
    have hamid : isAlive (explodeMid s k (liveContent s b) news (x.subs.take (x.subs.length - 1)) seed) e = true := by
      rw [hold e hes]; exact hae
    have hu := spec_unlink _ s2 k e h2 hamid
    have hd : ∀ k', content (destroyEnt s2 e) k' = (content s2 k').filter (· ≠ e) := by
      intro k'
      have := spec_destroy s2 e k'
      simpa [step] using this
    refine ⟨?_, ?_, ?_⟩
    · show isAlive (dropAttribs (destroyEnt s2 e) e) e = false
      rw [isAlive_dropAttribs, isAlive_destroy]; simp
    · show content (dropAttribs (destroyEnt s2 e) e) k = _
      rw [content_dropAttribs, hd k, hu.1, hck]
      -- the INSERT is listed (LinkInv) exactly once (SInv) in its layout and is none of the new handles
      obtain ⟨l, hl', hel⟩ := hl e hae k (by simp [ownerOf, hx, ho])
      have hec : e ∈ content s k := by
        simp only [content, hl', Option.getD_some, List.mem_filter]; exact ⟨hel, hae⟩
      have hnd : (content s k).Nodup := by
        have := liveContent_nodup s hi k
        simpa [liveContent, content] using this
      have henew : e ∉ news.map (·.1) ++ x.subs.take (x.subs.length - 1) := by
        intro hm
        rcases (hnb e hm).1 with h3 | h3
        · have := hi.1.2 e hes; omega
        · exact h3 hes
      rw [List.erase_append_left _ hec]
      apply filter_all_true
      intro y hy
      simp only [List.mem_append] at hy
      rcases hy with hy | hy
      · have := (List.Nodup.mem_erase_iff hnd).mp hy
        simpa using this.1
      · have : y ≠ e := fun h => henew (by rw [← h]; simpa [List.mem_append] using hy)
        simpa using this
    · intro k' hk'
      show content (dropAttribs (destroyEnt s2 e) e) k' = _
      rw [content_dropAttribs, hd k', hu.2 k' hk', hcother k' hk']
      apply filter_all_true
      intro y hy
      -- `e` is listed in its own layout only
      have hyk : y ∈ liveContent s k' := by simpa [liveContent, content] using hy
      obtain ⟨l, hl', hel⟩ := hl e hae k (by simp [ownerOf, hx, ho])
      have hek : e ∈ liveContent s k := by
        simp only [liveContent, hl', Option.getD_some, List.mem_filter]; exact ⟨hel, hae⟩
      have : y ≠ e := by
        intro h; subst h
        exact liveContent_disjoint s hi (Ne.symm hk') y hek hyk
      simpa using this

end EzdxfVerif.Doc

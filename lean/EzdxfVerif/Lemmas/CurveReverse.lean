/-
Helper lemmas for C13 (not counted): symmetry of the Cox - de Boor pieces under reversal of the knot sequence
combined with a decreasing affine map of the parameter (`BSpline.reverse`: `k ↦ 1 - (k - k_0)/(k_m - k_0)`).
-/
import EzdxfVerif.Lemmas.CurveInsert

namespace EzdxfVerif.Lemmas.Curve
open EzdxfVerif.Curve

/-- `cdbF … p i` reads the knots `i … i+p+1` only -/
theorem cdbF_congr (K K' : Nat → Rat) (u : Rat) (base : Nat → Rat) :
    ∀ (p i : Nat), (∀ j, i ≤ j → j ≤ i + p + 1 → K j = K' j) → cdbF K u base p i = cdbF K' u base p i
  | 0, _, _ => rfl
  | p + 1, i, h => by
    simp only [cdbF]
    rw [cdbF_congr K K' u base p i (fun j h1 h2 => h j h1 (by omega)),
      cdbF_congr K K' u base p (i + 1) (fun j h1 h2 => h j (by omega) (by omega)),
      h i (by omega) (by omega), h (i + 1) (by omega) (by omega), h (i + p + 1) (by omega) (by omega),
      h (i + p + 2) (by omega) (by omega)]

/-- the pieces of span `s` over `K` are the pieces of span `m-1-s` over the reversed, affinely re-parametrised knots
    `j ↦ a − b·K_{m−j}` (`b ≠ 0`), with the basis index mirrored: `N_{i,p}[K](u) = N_{m−p−1−i,p}[Kʳ](a − b·u)` -/
theorem cdbF_reverse (K : Nat → Rat) (m s : Nat) (a b u : Rat) (hb : b ≠ 0) (hs : s + 1 ≤ m) :
    ∀ (p i : Nat), i + p + 1 ≤ m →
      cdbF K u (delta s) p i
        = cdbF (fun j => a - b * K (m - j)) (a - b * u) (delta (m - 1 - s)) p (m - p - 1 - i)
  | 0, i, hi => by
    simp only [cdbF, delta]
    by_cases h : i = s
    · rw [if_pos h, if_pos (by omega)]
    · rw [if_neg h, if_neg (by omega)]
  | p + 1, i, hi => by
    have ih0 := cdbF_reverse K m s a b u hb hs p i (by omega)
    have ih1 := cdbF_reverse K m s a b u hb hs p (i + 1) (by omega)
    simp only [cdbF]
    rw [ih0, ih1]
    have e1 : m - (p + 1) - 1 - i + 1 = m - p - 1 - i := by omega
    have e2 : m - p - 1 - (i + 1) = m - (p + 1) - 1 - i := by omega
    have e3 : m - (m - (p + 1) - 1 - i) = i + p + 2 := by omega
    have e4 : m - (m - (p + 1) - 1 - i + p + 1) = i + 1 := by omega
    have e5 : m - (m - (p + 1) - 1 - i + p + 2) = i := by omega
    have e6 : m - (m - p - 1 - i) = i + p + 1 := by omega
    rw [e1, e2]
    simp only [e3, e4, e5, e6]
    have c1 : (a - b * u - (a - b * K (i + p + 2))) / (a - b * K (i + 1) - (a - b * K (i + p + 2)))
        = (K (i + p + 2) - u) / (K (i + p + 2) - K (i + 1)) := by
      by_cases hz : K (i + p + 2) - K (i + 1) = 0
      · have : a - b * K (i + 1) - (a - b * K (i + p + 2)) = 0 := by linear_combination b * hz
        rw [hz, this, div_zero, div_zero]
      · have : a - b * K (i + 1) - (a - b * K (i + p + 2)) ≠ 0 := by
          intro h0; apply hz
          have : b * (K (i + p + 2) - K (i + 1)) = 0 := by linear_combination h0
          rcases mul_eq_zero.mp this with h | h
          · exact absurd h hb
          · exact h
        field_simp
        ring
    have c2 : (a - b * K i - (a - b * u)) / (a - b * K i - (a - b * K (i + p + 1)))
        = (u - K i) / (K (i + p + 1) - K i) := by
      by_cases hz : K (i + p + 1) - K i = 0
      · have : a - b * K i - (a - b * K (i + p + 1)) = 0 := by linear_combination b * hz
        rw [hz, this, div_zero, div_zero]
      · have : a - b * K i - (a - b * K (i + p + 1)) ≠ 0 := by
          intro h0; apply hz
          have : b * (K (i + p + 1) - K i) = 0 := by linear_combination h0
          rcases mul_eq_zero.mp this with h | h
          · exact absurd h hb
          · exact h
        field_simp
        ring
    rw [c1, c2]; ring

/-! ## continuity across a knot of multiplicity `μ ≤ p` -/

/-- at `τ = K_{a+1} = … = K_{a+μ}` the pieces of the span LEFT of `τ` are `δ_a` up to degree `μ` -/
theorem cdbF_left_at_knot (K : Nat → Rat) (τ : Rat) (a μ : Nat) (hK : ∀ j, 1 ≤ j → j ≤ μ → K (a + j) = τ)
    (ha : K a ≠ τ) : ∀ q, q ≤ μ → ∀ i, cdbF K τ (delta a) q i = delta a i
  | 0, _, _ => rfl
  | q + 1, hq, i => by
    simp only [cdbF, cdbF_left_at_knot K τ a μ hK ha q (by omega)]
    simp only [delta]
    by_cases h1 : i = a
    · subst h1
      rw [if_pos rfl, if_neg (by omega)]
      have e : i + q + 1 = i + (q + 1) := by omega
      rw [e, hK (q + 1) (by omega) hq]
      have : τ - K i ≠ 0 := sub_ne_zero.mpr (Ne.symm ha)
      field_simp
      simp
    · rw [if_neg h1]
      by_cases h2 : i + 1 = a
      · rw [if_pos h2]
        have e : i + q + 2 = a + (q + 1) := by omega
        rw [e, hK (q + 1) (by omega) hq]
        simp
      · rw [if_neg h2]; simp

/-- … and the pieces of the span RIGHT of `τ` are `δ_{a+μ−q}` for `q ≤ μ` -/
theorem cdbF_right_at_knot (K : Nat → Rat) (τ : Rat) (a μ : Nat) (hK : ∀ j, 1 ≤ j → j ≤ μ → K (a + j) = τ)
    (hb : K (a + μ + 1) ≠ τ) : ∀ q, q ≤ μ → ∀ i, cdbF K τ (delta (a + μ)) q i = delta (a + μ - q) i
  | 0, _, _ => rfl
  | q + 1, hq, i => by
    simp only [cdbF, cdbF_right_at_knot K τ a μ hK hb q (by omega)]
    simp only [delta]
    by_cases h1 : i = a + μ - q
    · subst h1
      rw [if_pos rfl, if_neg (by omega), if_neg (by omega)]
      have e : a + μ - q = a + (μ - q) := by omega
      rw [e, hK (μ - q) (by omega) (by omega)]
      simp
    · rw [if_neg h1]
      by_cases h2 : i + 1 = a + μ - q
      · rw [if_pos h2, if_pos (by omega)]
        have e1 : i + q + 2 = a + μ + 1 := by omega
        have e2 : i + 1 = a + (μ - q) := by omega
        rw [e1, e2, hK (μ - q) (by omega) (by omega)]
        have : K (a + μ + 1) - τ ≠ 0 := sub_ne_zero.mpr hb
        field_simp
        simp
      · rw [if_neg h2, if_neg (by omega)]; simp

theorem cdbF_restart (K : Nat → Rat) (u : Rat) (b1 b2 : Nat → Rat) (q : Nat)
    (h : ∀ i, cdbF K u b1 q i = cdbF K u b2 q i) : ∀ r i, cdbF K u b1 (q + r) i = cdbF K u b2 (q + r) i
  | 0, i => h i
  | r + 1, i => by
    have e : q + (r + 1) = (q + r) + 1 := by omega
    rw [e]
    simp only [cdbF, cdbF_restart K u b1 b2 q h r]

/-- **continuity**: at a knot `τ` of multiplicity `μ ≤ p` (`K_a < τ = K_{a+1} = … = K_{a+μ} < K_{a+μ+1}`) the polynomial
    pieces of degree `p` left and right of `τ` take the same values at `τ` -/
theorem cdbF_continuous (K : Nat → Rat) (τ : Rat) (a μ p : Nat) (hK : ∀ j, 1 ≤ j → j ≤ μ → K (a + j) = τ)
    (ha : K a ≠ τ) (hb : K (a + μ + 1) ≠ τ) (hp : μ ≤ p) (i : Nat) :
    cdbF K τ (delta a) p i = cdbF K τ (delta (a + μ)) p i := by
  have h0 : ∀ i, cdbF K τ (delta a) μ i = cdbF K τ (delta (a + μ)) μ i := by
    intro i
    rw [cdbF_left_at_knot K τ a μ hK ha μ (le_refl _), cdbF_right_at_knot K τ a μ hK hb μ (le_refl _)]
    simp
  have := cdbF_restart K τ _ _ μ h0 (p - μ) i
  have e : μ + (p - μ) = p := by omega
  rw [e] at this
  exact this

theorem wsum_rev : ∀ (n : Nat) (g : Nat → Rat), wsum n g = wsum n (fun i => g (n - 1 - i))
  | 0, _ => rfl
  | n + 1, g => by
    rw [wsum_shift, wsum_rev n (fun j => g (j + 1))]
    simp only [wsum, Nat.add_sub_cancel, Nat.sub_self]
    rw [add_comm]
    congr 1
    · apply wsum_congr
      intro j hj
      congr 1; omega

/-- `Σ_j f'_j Pʳ_j = Σ_i f'_{n−1−i} P_i` -/
theorem curveSum_reverse (f f' : Nat → Rat) (P : List V3) (hf : ∀ i, i < P.length → f i = f' (P.length - 1 - i)) :
    curveSum f' 0 P.reverse = curveSum f 0 P := by
  have key : ∀ (π : V3 → Rat), π V3.zero = 0 → (∀ a b, π (a.add b) = π a + π b) → (∀ a s, π (a.scale s) = π a * s) →
      π (curveSum f' 0 P.reverse) = π (curveSum f 0 P) := by
    intro π hz ha hs
    rw [curveSum_proj π hz ha hs, curveSum_proj π hz ha hs, List.length_reverse, wsum_rev P.length (fun j => π (P.getD j V3.zero) * f (0 + j))]
    apply wsum_congr
    intro j hj
    rw [List.getD_eq_getElem?_getD, List.getElem?_reverse hj, ← List.getD_eq_getElem?_getD, Nat.zero_add, Nat.zero_add,
      hf _ (by omega)]
    congr 2; omega
  apply v3ext
  · exact key V3.x rfl (fun _ _ => rfl) (fun _ _ => rfl)
  · exact key V3.y rfl (fun _ _ => rfl) (fun _ _ => rfl)
  · exact key V3.z rfl (fun _ _ => rfl) (fun _ _ => rfl)

/-- the knot list of `BSpline.reverse()` as a function of the old knots -/
theorem kget_reverseKnots (U : List Rat) (j : Nat) (hj : j < U.length) :
    kget (reverseKnots U) j = 1 - (kget U (U.length - 1 - j) - kget U 0) / (U.getLastD 0 - kget U 0) := by
  simp only [reverseKnots, normalizeKnots, kget_eq, List.getElem?_map]
  rw [List.getElem?_reverse (by simpa using hj)]
  simp only [List.length_map, List.getElem?_map]
  have : U.length - 1 - j < U.length := by omega
  rw [List.getElem?_eq_getElem this]
  simp

theorem getLastD_eq_kget (U : List Rat) : U.getLastD 0 = kget U (U.length - 1) := by
  rw [List.getLastD_eq_getLast?, List.getLast?_eq_getElem?, kget_eq]

end EzdxfVerif.Lemmas.Curve

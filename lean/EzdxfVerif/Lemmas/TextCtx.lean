/-
MTextContext: the tokens of the context-carrying parser `scanC` are the tokens of `scanY`; the context
stack discipline of groups (lemmas for Props/C20).
-/
import EzdxfVerif.Model.TextCtx
import EzdxfVerif.Lemmas.TextTokens
namespace EzdxfVerif.Text

def untag (ts : List (Token × Ctx)) : List Token := ts.map (·.1)

theorem untag_tag (c : Ctx) (ts : List Token) : untag (tag c ts) = ts := by
  simp [untag, tag, Function.comp_def]

theorem untag_map (f : List (Token × Ctx) → List (Token × Ctx)) (g : List Token → List Token)
    (x : Except PyErr (List (Token × Ctx))) (y : Except PyErr (List Token))
    (h : ∀ ts, untag (f ts) = g (untag ts)) (ih : untag <$> x = y) :
    untag <$> (f <$> x) = g <$> y := by
  subst ih
  cases x with
  | error e => rfl
  | ok a => simp [Functor.map, Except.map, h]

theorem scanC_tokens (sp : Special) (st : PState) (rest word : Str) :
    untag <$> scanC sp st rest word = scanY sp rest word := by
  fun_induction scanC sp st rest word
  all_goals (conv => rhs; rw [scanY.eq_def])
  all_goals try simp only [↓reduceIte, ↓reduceDIte, ne_eq, not_true_eq_false, not_false_eq_true, *]
  case case1 => simp [Functor.map, Except.map, untag_tag]
  case case2 => simp [Functor.map, Except.map, untag_tag]
  case case4 ih => exact untag_map _ _ _ _ (fun ts => by simp [untag]) ih
  case case5 ih => exact untag_map _ _ _ _ (fun ts => by simp [untag]) ih
  case case6 ih => exact untag_map _ _ _ _ (fun ts => by simp [untag]) ih
  case case7 ih => exact untag_map _ _ _ _ (fun ts => by simp [untag]) ih
  case case8 ih => exact untag_map _ _ _ _ (fun ts => by simp [untag]) ih
  case case9 ih => exact untag_map _ _ _ _ (fun ts => by simp [untag]) ih
  case case10 hp ih =>
    split
    · rfl
    · rename_i h; rw [hp] at h; cases h
    · rename_i h; rw [hp] at h; cases h
  case case11 e hp =>
    split
    · rename_i h; rw [hp] at h; cases h
    · rename_i h; rw [hp] at h; cases h; rfl
    · rename_i h; rw [hp] at h; cases h
  case case12 hp _ ih =>
    split
    · rename_i h; rw [hp] at h; cases h
    · rename_i h; rw [hp] at h; cases h
    · rename_i r3' h; rw [hp] at h; cases h
      exact untag_map _ _ _ _ (fun ts => by simp [untag]) ih
  case case13 ih => exact untag_map _ _ _ _ (fun ts => by simp [untag, tag, Function.comp_def]) ih
  case case14 ih => exact untag_map _ _ _ _ (fun ts => by simp [untag, tag, Function.comp_def]) ih
  case case15 ih => exact untag_map _ _ _ _ (fun ts => by simp [untag, tag, Function.comp_def]) ih
  case case16 hs _ ih =>
    split
    · rename_i l' r3' h; rw [hs] at h; cases h; rfl
    · rename_i h; rw [hs] at h; cases h
  case case17 hs ih =>
    split
    · rename_i h; rw [hs] at h; cases h
    · exact untag_map _ _ _ _ (fun ts => by simp [untag, tag, Function.comp_def]) ih
  case case18 hs _ _ _ _ ih =>
    split
    · rename_i h; rw [hs] at h; cases h
    · exact untag_map _ _ _ _ (fun ts => by simp [untag]) ih
  case case19 st word letter r1 _ _ _ _ hs _ _ _ ih =>
    have hrhs : untag <$> scanC sp (if letter = '{' then st.push else st.pop) r1 [] = scanY sp r1 [] := by
      by_cases hl : letter = '{'
      · simp only [hl, ↓reduceIte, ↓reduceDIte] at ih ⊢; exact ih
      · simp only [hl, ↓reduceIte, ↓reduceDIte] at ih ⊢; exact ih
    rw [hrhs]
    split
    · rename_i h; rw [hs] at h; cases h
    · rfl
  case case20 hs _ _ ih =>
    split
    · rename_i h; rw [hs] at h; cases h
    · rfl

/-! ### one-step unfoldings of `scanC` -/

theorem mapC_comp (f g : List (Token × Ctx) → List (Token × Ctx)) (x : Except PyErr (List (Token × Ctx))) :
    f <$> (g <$> x) = (fun ts => f (g ts)) <$> x := by
  cases x <;> rfl

theorem mapC_id (x : Except PyErr (List (Token × Ctx))) : (fun ts => ts) <$> x = x := by
  cases x <;> rfl

theorem mapC_nil (x : Except PyErr (List (Token × Ctx))) : (fun ts => ([] : List (Token × Ctx)) ++ ts) <$> x = x := by
  cases x <;> rfl

theorem scanC_nil (sp : Special) (st : PState) (word : Str) :
    scanC sp st [] word = .ok (tag st.ctx (flushWord word)) := by
  rw [scanC.eq_def]; rfl

theorem scanC_char (sp : Special) (st : PState) (c : Char) (r word : Str)
    (h0 : c ≠ '\\') (h1 : c ≠ '\t') (h2 : c ≠ '\n') (h3 : ¬ c.toNat < 32) (hs : specialAt sp c r = none)
    (h4 : c ≠ ' ') (hb : ¬(c = '{' ∨ c = '}')) :
    scanC sp st (c :: r) word = scanC sp st r (word ++ [c]) := by
  conv => lhs; rw [scanC.eq_def]
  simp only [↓reduceIte, h0, h1, h2, h3]
  split
  · rename_i h'; rw [hs] at h'; cases h'
  · simp only [h4, hb, ↓reduceIte]

theorem scanC_space (sp : Special) (st : PState) (r word : Str) :
    scanC sp st (' ' :: r) word = (fun ts => tag st.ctx (wordAnd word .space) ++ ts) <$> scanC sp st r [] := by
  conv => lhs; rw [scanC.eq_def]
  have hs : specialAt sp ' ' r = none := by simp [specialAt]
  simp only [show (' ' : Char) ≠ '\\' by decide, show (' ' : Char) ≠ '\t' by decide, show (' ' : Char) ≠ '\n' by decide,
    show ¬ (' ' : Char).toNat < 32 by decide, ↓reduceIte]
  split
  · rename_i h'; rw [hs] at h'; cases h'
  · rfl

theorem scanC_tab (sp : Special) (st : PState) (r word : Str) :
    scanC sp st ('\t' :: r) word = (fun ts => tag st.ctx (wordAnd word .tab) ++ ts) <$> scanC sp st r [] := by
  conv => lhs; rw [scanC.eq_def]
  simp

theorem scanC_bs_flush (sp : Special) (st : PState) (d : Char) (r2 word : Str) (hd : ¬(d = '\\' ∨ d = '{' ∨ d = '}')) :
    scanC sp st ('\\' :: d :: r2) word =
      (fun ts => tag st.ctx (flushWord word) ++ ts) <$> scanC sp st ('\\' :: d :: r2) [] := by
  by_cases hw : word = []
  · subst hw; simp only [flushWord, List.isEmpty_nil, ↓reduceIte, tag, List.map_nil]; rw [mapC_nil]
  · conv => lhs; rw [scanC.eq_def]
    have he : word.isEmpty = false := by cases word <;> simp_all
    simp only [↓reduceIte, hd, ne_eq, hw, not_false_eq_true, ↓reduceDIte, flushWord, he, Bool.false_eq_true, tag,
      List.map_cons, List.map_nil, List.cons_append, List.nil_append]

theorem scanC_brace (sp : Special) (st : PState) (c : Char) (r word : Str) (h : c = '{' ∨ c = '}') :
    scanC sp st (c :: r) word =
      (fun ts => tag st.ctx (flushWord word) ++ ts) <$> scanC sp (if c = '{' then st.push else st.pop) r [] := by
  have h0 : c ≠ '\\' := by rcases h with h | h <;> subst h <;> decide
  have h1 : c ≠ '\t' := by rcases h with h | h <;> subst h <;> decide
  have h2 : c ≠ '\n' := by rcases h with h | h <;> subst h <;> decide
  have h3 : ¬ c.toNat < 32 := by rcases h with h | h <;> subst h <;> decide
  have h4 : c ≠ ' ' := by rcases h with h | h <;> subst h <;> decide
  have hs : specialAt sp c r = none := by
    have : c ≠ '%' := by rcases h with h | h <;> subst h <;> decide
    simp [specialAt, this]
  have hempty : scanC sp st (c :: r) [] = scanC sp (if c = '{' then st.push else st.pop) r [] := by
    conv => lhs; rw [scanC.eq_def]
    simp only [↓reduceIte, h0, h1, h2, h3]
    split
    · rename_i h'; rw [hs] at h'; cases h'
    · simp only [h4, h, ↓reduceIte, ne_eq, not_true_eq_false, ↓reduceDIte]
  by_cases hw : word = []
  · subst hw; simp only [flushWord, List.isEmpty_nil, ↓reduceIte, tag, List.map_nil]; rw [mapC_nil, hempty]
  · conv => lhs; rw [scanC.eq_def]
    have he : word.isEmpty = false := by cases word <;> simp_all
    simp only [↓reduceIte, h0, h1, h2, h3]
    split
    · rename_i h'; rw [hs] at h'; cases h'
    · simp only [h4, h, ↓reduceIte, ne_eq, hw, not_false_eq_true, ↓reduceDIte, hempty, flushWord, he,
        Bool.false_eq_true, tag, List.map_cons, List.map_nil, List.cons_append, List.nil_append]

theorem scanC_P (sp : Special) (st : PState) (r2 : Str) :
    scanC sp st ('\\' :: 'P' :: r2) [] = (fun ts => (Token.newParagraph, st.ctx) :: ts) <$> scanC sp st r2 [] := by
  conv => lhs; rw [scanC.eq_def]
  simp

theorem scanC_N (sp : Special) (st : PState) (r2 : Str) :
    scanC sp st ('\\' :: 'N' :: r2) [] = (fun ts => (Token.newColumn, st.ctx) :: ts) <$> scanC sp st r2 [] := by
  conv => lhs; rw [scanC.eq_def]
  simp

theorem scanC_X (sp : Special) (st : PState) (r2 : Str) :
    scanC sp st ('\\' :: 'X' :: r2) [] = (fun ts => (Token.wrapAtDimline, st.ctx) :: ts) <$> scanC sp st r2 [] := by
  conv => lhs; rw [scanC.eq_def]
  simp

theorem scanC_nbsp (sp : Special) (st : PState) (r2 : Str) :
    scanC sp st ('\\' :: '~' :: r2) [] = (fun ts => (Token.nbsp, st.ctx) :: ts) <$> scanC sp st r2 [] := by
  conv => lhs; rw [scanC.eq_def]
  simp

theorem scanC_S (sp : Special) (st : PState) (r2 expr r3 : Str) (he : extractExpr true r2 = (expr, r3)) :
    scanC sp st ('\\' :: 'S' :: r2) [] = (fun ts => (parseStacking expr, st.ctx) :: ts) <$> scanC sp st r3 [] := by
  conv => lhs; rw [scanC.eq_def]
  simp only [show ¬(('S' : Char) = '\\' ∨ ('S' : Char) = '{' ∨ ('S' : Char) = '}') by decide,
    show ('S' : Char) ≠ '~' by decide, show ('S' : Char) ≠ 'P' by decide, show ('S' : Char) ≠ 'N' by decide,
    show ('S' : Char) ≠ 'X' by decide, ↓reduceIte, ne_eq, not_true_eq_false, ↓reduceDIte]
  rw [he]

theorem scanC_cmd (sp : Special) (st : PState) (d : Char) (r2 r3 : Str)
    (hd : ¬(d = '\\' ∨ d = '{' ∨ d = '}')) (h1 : d ≠ '~') (h2 : d ≠ 'P') (h3 : d ≠ 'N') (h4 : d ≠ 'X') (h5 : d ≠ 'S')
    (hp : parseProperties d r2 = some (.ok r3)) :
    scanC sp st ('\\' :: d :: r2) [] =
      (fun ts => (Token.props ('\\' :: d :: r2.take (r2.length - r3.length)), (applyCmd d r2 st).ctx) :: ts) <$>
        scanC sp (applyCmd d r2 st) r3 [] := by
  conv => lhs; rw [scanC.eq_def]
  simp only [↓reduceIte, hd, h1, h2, h3, h4, h5, ne_eq, not_true_eq_false, ↓reduceDIte]
  split
  · rename_i h; rw [hp] at h; cases h
  · rename_i h; rw [hp] at h; cases h
  · rename_i r h; rw [hp] at h; cases h; rfl

/-! ### the effect of a written command does not depend on the text behind its ";" -/

theorem takeWhile_stop (a x y : Str) (c : Char) (hc : isDigit c = false) :
    (a ++ c :: x).takeWhile isDigit = (a ++ c :: y).takeWhile isDigit := by
  induction a with
  | nil => simp [List.takeWhile, hc]
  | cons b t ih =>
    simp only [List.cons_append, List.takeWhile]
    cases isDigit b <;> simp [ih]

theorem scaleVal_rest (old : SVal) (args x y : Str) :
    scaleVal old (args ++ ';' :: x) = scaleVal old (args ++ ';' :: y) := by
  unfold scaleVal
  simp only [matchFloat_stop args ';' _ stop_semicolon]
  split
  · rfl
  · cases h : (matchFloat args).2 with
    | nil => simp
    | cons a r =>
      simp only [List.cons_append]
      split <;> split <;> simp_all

theorem applyCmd_rest (d : Char) (args rest : Str) (st : PState)
    (hs : (d = 'p' ∨ d = 'f' ∨ d = 'F') → ∀ c ∈ args, c ≠ ';') :
    applyCmd d (args ++ ';' :: rest) st = applyCmd d (args ++ [';']) st := by
  have hdig : isDigit ';' = false := by decide
  have htw := takeWhile_stop args rest [] ';' hdig
  have hsv := fun old => scaleVal_rest old args rest []
  have hmf : (matchFloat (args ++ ';' :: rest)).1 = (matchFloat (args ++ [';'])).1 := by
    rw [matchFloat_stop args ';' _ stop_semicolon, matchFloat_stop args ';' _ stop_semicolon]
  have hhead : ∀ (α : Type) (f : Char → List Char → α) (z : α),
      (match args ++ ';' :: rest with | a :: r => f a r | [] => z) = (match args ++ [';'] with | a :: r => f a r | [] => z) →
      True := fun _ _ _ _ => trivial
  by_cases hp : d = 'p' ∨ d = 'f' ∨ d = 'F'
  · have he1 := extractExpr_args args rest (hs hp)
    have he2 := extractExpr_args args [] (hs hp)
    unfold applyCmd
    rcases hp with rfl | rfl | rfl <;> simp [he1, he2]
  · have h1 : d ≠ 'p' := fun h => hp (Or.inl h)
    have h2 : ¬(d = 'f' ∨ d = 'F') := fun h => hp (Or.inr h)
    unfold applyCmd
    simp only [htw, hsv, hmf]
    by_cases hA : d = 'A'
    · subst hA
      cases args with
      | nil => simp
      | cons a r => simp
    · simp only [hA, h1, h2, ↓reduceIte]

/-! ### items: tokens with contexts, state -/

def noProps (ts : List Token) : Prop := ∀ t ∈ ts, ∀ c, t ≠ Token.props c

theorem withCtx_noProps (b a : Ctx) (ts : List Token) (h : noProps ts) : withCtx b a ts = tag b ts := by
  unfold withCtx tag
  apply List.map_congr_left
  intro t ht
  cases t <;> first | rfl | exact absurd rfl (h _ ht _)

theorem withCtx_append (b a : Ctx) (x y : List Token) : withCtx b a (x ++ y) = withCtx b a x ++ withCtx b a y := by
  simp [withCtx]

theorem noProps_flush (w : Str) : noProps (flushWord w) := by
  intro t ht c
  unfold flushWord at ht
  split at ht <;> simp_all

theorem noProps_wordAnd (w : Str) (t : Token) (h : ∀ c, t ≠ Token.props c) : noProps (wordAnd w t) := by
  intro x hx c
  unfold wordAnd at hx
  split at hx
  · simp at hx; subst hx; exact h c
  · simp at hx; rcases hx with rfl | rfl
    · simp
    · exact h c

theorem noProps_plainTokens (w word : Str) : noProps (plainTokens w word).1 := by
  induction w generalizing word with
  | nil => simp [plainTokens, noProps]
  | cons c r ih =>
    simp only [plainTokens]
    split
    · intro t ht x
      simp only [List.mem_append] at ht
      rcases ht with ht | ht
      · exact noProps_wordAnd word .space (by simp) t ht x
      · exact ih [] t ht x
    · exact ih _

theorem scanC_plain (sp : Special) (st : PState) (w rest word : Str) (h : ∀ c ∈ w, isPlain c = true) :
    scanC sp st (w ++ rest) word =
      (fun ts => tag st.ctx (plainTokens w word).1 ++ ts) <$> scanC sp st rest (plainTokens w word).2 := by
  induction w generalizing word with
  | nil => simp only [List.nil_append, plainTokens, tag, List.map_nil]; rw [mapC_id]
  | cons c t ih =>
    have ht : ∀ x ∈ t, isPlain x = true := fun x hx => h x (by simp [hx])
    obtain ⟨h0, h1, h2, h3, h4, _⟩ := isPlain_spec (h c (by simp))
    have h32 : ¬ c.toNat < 32 := by omega
    have htab : c ≠ '\t' := by intro hh; subst hh; exact h32 (by decide)
    have hlf : c ≠ '\n' := by intro hh; subst hh; exact h32 (by decide)
    by_cases hsp : c = ' '
    · subst hsp
      simp only [List.cons_append, plainTokens, ↓reduceIte]
      rw [scanC_space, ih [] ht, mapC_comp]
      congr 1
      funext ts; simp [tag]
    · simp only [List.cons_append, plainTokens, hsp, ↓reduceIte]
      rw [scanC_char sp st c _ word h1 htab hlf h32 (specialAt_plain sp c _ h4) hsp (by simp [h2, h3]), ih _ ht]

theorem item_ctokens (sp : Special) (st : PState) (i : Item) (rest word : Str) (h : i.WfT) :
    scanC sp st (i.renderD ++ rest) word =
      (fun ts => ((XItem.base i).ctokens word st).1 ++ ts) <$> scanC sp (i.cstep st) rest ((XItem.base i).ctokens word st).2 := by
  simp only [XItem.ctokens, XItem.tokens, XItem.cstep]
  cases i with
  | plain w =>
    simp only [Item.tokens, Item.cstep]
    rw [withCtx_noProps _ _ _ (noProps_plainTokens w word)]
    exact scanC_plain sp st w rest word h
  | cmd d args =>
    obtain ⟨hd, ha, hok⟩ := h
    obtain ⟨c1, _, _, c4, _, _⟩ := cmdLetters_spec hd
    obtain ⟨b1, b2, b3, b4⟩ := cmdLetters_spec2 hd
    have e : (Item.cmd d args).renderD ++ rest = '\\' :: d :: (args ++ ';' :: rest) := by simp [Item.renderD, Item.render]
    have htake : (args ++ ';' :: rest).take ((args ++ ';' :: rest).length - rest.length) = args ++ [';'] := by
      have : (args ++ ';' :: rest).length - rest.length = (args ++ [';']).length := by simp; omega
      rw [this]
      have e2 : args ++ ';' :: rest = (args ++ [';']) ++ rest := by simp
      rw [e2, List.take_left']
      rfl
    rw [e, scanC_bs_flush sp st d _ word c1, scanC_cmd sp st d _ rest c1 b1 b2 b3 b4 c4 (hok rest), mapC_comp, htake,
      applyCmd_rest d args rest st (fun _ => argChar_ne_semicolon ha)]
    simp only [Item.tokens, Item.cstep, withCtx_append, withCtx_noProps _ _ _ (noProps_flush word)]
    congr 1; funext ts; simp [withCtx]
  | one d =>
    have e : (Item.one d).renderD ++ rest = '\\' :: d :: rest := by simp [Item.renderD, Item.render]
    rw [e]
    have hne : ¬(d = '\\' ∨ d = '{' ∨ d = '}') := by
      rcases h with h | h | h | h | h | h | h | h <;> subst h <;> decide
    rw [scanC_bs_flush sp st d rest word hne]
    rcases h with h | h | h | h | h | h | h | h
    · subst h
      rw [scanC_P, mapC_comp]
      simp only [Item.tokens, Item.cstep, ↓reduceIte, true_or, withCtx_append, withCtx_noProps _ _ _ (noProps_flush word)]
      congr 1; funext ts; simp [withCtx]
    all_goals first
      | (subst h; rw [scanC_X, mapC_comp]
         simp only [Item.tokens, Item.cstep, show ('X' : Char) ≠ 'P' by decide, ↓reduceIte, or_true, withCtx_append,
           withCtx_noProps _ _ _ (noProps_flush word)]
         congr 1; funext ts; simp [withCtx])
      | (subst h
         rw [scanC_cmd sp st _ rest rest (by decide) (by decide) (by decide) (by decide) (by decide) (by decide)
           (parseProperties_stroke _ rest (by rw [mem_stroke]; simp)), mapC_comp]
         have hr : ∀ c : Char, (c = 'L' ∨ c = 'l' ∨ c = 'O' ∨ c = 'o' ∨ c = 'K' ∨ c = 'k') →
             applyCmd c rest st = applyCmd c [] st := by
           intro c hc
           unfold applyCmd
           rcases hc with rfl | rfl | rfl | rfl | rfl | rfl <;> simp
         rw [hr _ (by simp)]
         simp only [Item.tokens, Item.cstep, Nat.sub_self, List.take_zero, withCtx_append,
           withCtx_noProps _ _ _ (noProps_flush word)]
         first
           | (simp only [show ('L' : Char) ≠ 'P' by decide, show ('L' : Char) ≠ 'X' by decide, ↓reduceIte, or_self]; congr 1; funext ts
              rw [withCtx_append, withCtx_noProps _ _ _ (noProps_flush word)]; simp [withCtx])
           | (simp only [show ('l' : Char) ≠ 'P' by decide, show ('l' : Char) ≠ 'X' by decide, ↓reduceIte, or_self]; congr 1; funext ts
              rw [withCtx_append, withCtx_noProps _ _ _ (noProps_flush word)]; simp [withCtx])
           | (simp only [show ('O' : Char) ≠ 'P' by decide, show ('O' : Char) ≠ 'X' by decide, ↓reduceIte, or_self]; congr 1; funext ts
              rw [withCtx_append, withCtx_noProps _ _ _ (noProps_flush word)]; simp [withCtx])
           | (simp only [show ('o' : Char) ≠ 'P' by decide, show ('o' : Char) ≠ 'X' by decide, ↓reduceIte, or_self]; congr 1; funext ts
              rw [withCtx_append, withCtx_noProps _ _ _ (noProps_flush word)]; simp [withCtx])
           | (simp only [show ('K' : Char) ≠ 'P' by decide, show ('K' : Char) ≠ 'X' by decide, ↓reduceIte, or_self]; congr 1; funext ts
              rw [withCtx_append, withCtx_noProps _ _ _ (noProps_flush word)]; simp [withCtx])
           | (simp only [show ('k' : Char) ≠ 'P' by decide, show ('k' : Char) ≠ 'X' by decide, ↓reduceIte, or_self]; congr 1; funext ts
              rw [withCtx_append, withCtx_noProps _ _ _ (noProps_flush word)]; simp [withCtx]))
  | openGroup =>
    have e : Item.openGroup.renderD ++ rest = '{' :: rest := by simp [Item.renderD, Item.render]
    rw [e, scanC_brace sp st '{' rest word (Or.inl rfl)]
    simp only [Item.tokens, Item.cstep, ↓reduceIte, withCtx_noProps _ _ _ (noProps_flush word)]
  | closeGroup =>
    have e : Item.closeGroup.renderD ++ rest = '}' :: rest := by simp [Item.renderD, Item.render]
    rw [e, scanC_brace sp st '}' rest word (Or.inr rfl)]
    simp only [Item.tokens, Item.cstep, show ('}' : Char) ≠ '{' by decide, ↓reduceIte, withCtx_noProps _ _ _ (noProps_flush word)]
  | stack u l t =>
    obtain ⟨⟨hu, hl, ht⟩, hnum⟩ := h
    obtain ⟨hp, hs⟩ := stack_expr_plain hu hl ht
    have e : (Item.stack u l t).renderD ++ rest = '\\' :: 'S' :: ((u ++ t :: l) ++ ';' :: rest) := by
      simp [Item.renderD]
    have he := extractExpr_stack (u ++ t :: l) rest hp hs
    have hst : parseStacking (u ++ t :: l) = .stack u l [t] := by
      apply parseStacking_split u l t _ _ ht
      · intro c hc
        exact ⟨hp c (by simp [hc]), hnum c hc⟩
      · intro c hc
        exact hp c (by simp [hc])
    rw [e, scanC_bs_flush sp st 'S' _ word (by decide), scanC_S sp st _ _ rest he, hst, mapC_comp]
    simp only [Item.tokens, Item.cstep, withCtx_append, withCtx_noProps _ _ _ (noProps_flush word)]
    congr 1; funext ts; simp [withCtx]

theorem xitem_ctokens (sp : Special) (st : PState) (x : XItem) (rest word : Str) (h : x.WfT) :
    scanC sp st (x.renderD ++ rest) word =
      (fun ts => (x.ctokens word st).1 ++ ts) <$> scanC sp (x.cstep st) rest (x.ctokens word st).2 := by
  cases x with
  | base i => exact item_ctokens sp st i rest word h
  | tab =>
    simp only [XItem.renderD, XItem.ctokens, XItem.tokens, XItem.cstep, List.cons_append, List.nil_append]
    rw [scanC_tab, withCtx_noProps _ _ _ (noProps_wordAnd word .tab (by simp))]
  | nbsp =>
    simp only [XItem.renderD, XItem.render, XItem.ctokens, XItem.tokens, XItem.cstep, List.cons_append, List.nil_append]
    rw [scanC_bs_flush sp st '~' rest word (by decide), scanC_nbsp, mapC_comp, withCtx_append,
      withCtx_noProps _ _ _ (noProps_flush word)]
    congr 1; funext ts; simp [withCtx]
  | newColumn =>
    simp only [XItem.renderD, XItem.render, XItem.ctokens, XItem.tokens, XItem.cstep, List.cons_append, List.nil_append]
    rw [scanC_bs_flush sp st 'N' rest word (by decide), scanC_N, mapC_comp, withCtx_append,
      withCtx_noProps _ _ _ (noProps_flush word)]
    congr 1; funext ts; simp [withCtx]

theorem xitems_ctokens (sp : Special) (xs : List XItem) (st : PState) (word : Str) (h : ∀ x ∈ xs, x.WfT) :
    scanC sp st (xRenderD xs) word = .ok (xitemsCTokens xs word st) := by
  induction xs generalizing word st with
  | nil => simp only [xRenderD, List.map_nil, List.flatten_nil, xitemsCTokens]; exact scanC_nil sp st word
  | cons x t ih =>
    have e : xRenderD (x :: t) = x.renderD ++ xRenderD t := by simp [xRenderD]
    rw [e, xitem_ctokens sp st x _ word (h x (by simp)), ih _ _ (fun y hy => h y (by simp [hy]))]
    rfl

/-- every sequence of editor calls: the parser yields exactly the expected tokens with their contexts -/
theorem xeditor_ctokens (sp : Special) (ops : List XOp) (h : ∀ o ∈ ops, o.wfT = true) :
    parseC sp (xEditorText ops) = .ok (xEditorCTokens ops) := by
  have hw : ∀ x ∈ (ops.map XOp.items).flatten, x.WfT := by
    intro x hx
    simp only [List.mem_flatten, List.mem_map] at hx
    obtain ⟨l, ⟨o, ho, rfl⟩, hxl⟩ := hx
    exact xop_items_wfT o (h o ho) x hxl
  have hc := xitems_caret (ops.map XOp.items).flatten [] (fun x hx => XItem.WfT.wf (hw x hx))
  simp only [List.append_nil] at hc
  have hcd : caretDecode ([] : Str) = [] := rfl
  rw [hcd, List.append_nil] at hc
  unfold parseC xEditorText xEditorCTokens
  rw [hc]
  exact xitems_ctokens sp _ {} [] hw

/-! ### the context stack discipline -/

/-- items that are not group markers do not touch the context stack -/
def XItem.noGroup : XItem → Bool
  | .base .openGroup | .base .closeGroup => false
  | _ => true

theorem applyCmd_stack (d : Char) (r2 : Str) (st : PState) : (applyCmd d r2 st).stack = st.stack := by
  unfold applyCmd
  simp only
  by_cases h0 : d = 'L'
  · subst h0; simp only [Char.reduceEq, ↓reduceIte]; repeat (first | rfl | split)
  by_cases h1 : d = 'l'
  · subst h1; simp only [Char.reduceEq, ↓reduceIte]; repeat (first | rfl | split)
  by_cases h2 : d = 'O'
  · subst h2; simp only [Char.reduceEq, ↓reduceIte]; repeat (first | rfl | split)
  by_cases h3 : d = 'o'
  · subst h3; simp only [Char.reduceEq, ↓reduceIte]; repeat (first | rfl | split)
  by_cases h4 : d = 'K'
  · subst h4; simp only [Char.reduceEq, ↓reduceIte]; repeat (first | rfl | split)
  by_cases h5 : d = 'k'
  · subst h5; simp only [Char.reduceEq, ↓reduceIte]; repeat (first | rfl | split)
  by_cases h6 : d = 'A'
  · subst h6; simp only [Char.reduceEq, ↓reduceIte]; repeat (first | rfl | split)
  by_cases h7 : d = 'C'
  · subst h7; simp only [Char.reduceEq, ↓reduceIte]; repeat (first | rfl | split)
  by_cases h8 : d = 'c'
  · subst h8; simp only [Char.reduceEq, ↓reduceIte]; repeat (first | rfl | split)
  by_cases h9 : d = 'H'
  · subst h9; simp only [Char.reduceEq, ↓reduceIte]; repeat (first | rfl | split)
  by_cases h10 : d = 'W'
  · subst h10; simp only [Char.reduceEq, ↓reduceIte]; repeat (first | rfl | split)
  by_cases h11 : d = 'T'
  · subst h11; simp only [Char.reduceEq, ↓reduceIte]; repeat (first | rfl | split)
  by_cases h12 : d = 'Q'
  · subst h12; simp only [Char.reduceEq, ↓reduceIte]; repeat (first | rfl | split)
  by_cases h13 : d = 'p'
  · subst h13; simp only [Char.reduceEq, ↓reduceIte]; repeat (first | rfl | split)
  simp only [h0, h1, h2, h3, h4, h5, h6, h7, h8, h9, h10, h11, h12, h13, ↓reduceIte]
  repeat (first | rfl | split)

theorem cstep_stack (x : XItem) (st : PState) (h : x.noGroup = true) : (x.cstep st).stack = st.stack := by
  cases x with
  | base i =>
    cases i with
    | cmd d a => exact applyCmd_stack _ _ _
    | one d =>
      simp only [XItem.cstep, Item.cstep]
      split
      · rfl
      · exact applyCmd_stack _ _ _
    | openGroup => simp [XItem.noGroup] at h
    | closeGroup => simp [XItem.noGroup] at h
    | plain w => rfl
    | stack u l t => rfl
  | tab => rfl
  | nbsp => rfl
  | newColumn => rfl

theorem xitemsState_stack (xs : List XItem) (st : PState) (h : ∀ x ∈ xs, x.noGroup = true) :
    (xitemsState xs st).stack = st.stack := by
  induction xs generalizing st with
  | nil => rfl
  | cons x t ih =>
    simp only [xitemsState]
    rw [ih _ (fun y hy => h y (by simp [hy])), cstep_stack x st (h x (by simp))]

theorem xitemsState_append (a b : List XItem) (st : PState) :
    xitemsState (a ++ b) st = xitemsState b (xitemsState a st) := by
  induction a generalizing st with
  | nil => rfl
  | cons x t ih => simp [xitemsState, ih]

/-- `{` items `}`: whatever the items inside do to the context, behind the closing brace the context and
    the stack are the ones from before the opening brace -/
theorem group_restores (xs : List XItem) (st : PState) (h : ∀ x ∈ xs, x.noGroup = true) :
    (xitemsState ([.base .openGroup] ++ xs ++ [.base .closeGroup]) st).ctx = st.ctx ∧
    (xitemsState ([.base .openGroup] ++ xs ++ [.base .closeGroup]) st).stack = st.stack := by
  rw [xitemsState_append, xitemsState_append]
  have hs := xitemsState_stack xs (st.push) h
  have e1 : xitemsState [XItem.base Item.openGroup] st = st.push := rfl
  rw [e1]
  generalize xitemsState xs st.push = s1 at hs
  have e2 : xitemsState [XItem.base Item.closeGroup] s1 = s1.pop := rfl
  rw [e2]
  have hs' : s1.stack = st.ctx :: st.stack := hs
  unfold PState.pop
  rw [hs']
  exact ⟨rfl, rfl⟩

/-! ### what the editor's commands do to the context -/

theorem scaleVal_abs (old : SVal) (f : Str) (hf : isFloatText f = true) : scaleVal old (f ++ [';']) = .abs f := by
  obtain ⟨hm, hne⟩ := floatText_match f hf ';' [] stop_semicolon
  unfold scaleVal
  simp [hm, hne]

theorem scaleVal_mul (old : SVal) (f : Str) (hf : isFloatText f = true) : scaleVal old (f ++ ['x'] ++ [';']) = .mul old f := by
  obtain ⟨hm, hne⟩ := floatText_match f hf 'x' [';'] stop_x
  have e : f ++ ['x'] ++ [';'] = f ++ 'x' :: [';'] := by simp
  unfold scaleVal
  rw [e]
  simp [hm, hne]

/-- `height(h)`: `\H<h>;` sets the cap height to `abs(float(h))`, all other attributes unchanged -/
theorem cmd_height (f : Str) (hf : isFloatText f = true) (st : PState) :
    (applyCmd 'H' (f ++ [';']) st).ctx = { st.ctx with capHeight := .abs f, continueStroke := st.cont } := by
  unfold applyCmd
  simp [scaleVal_abs _ f hf]

/-- `scale_height(k)`: `\H<k>x;` multiplies the cap height by `abs(float(k))` -/
theorem cmd_scale_height (f : Str) (hf : isFloatText f = true) (st : PState) :
    (applyCmd 'H' (f ++ ['x'] ++ [';']) st).ctx =
      { st.ctx with capHeight := .mul st.ctx.capHeight f, continueStroke := st.cont } := by
  have hm := scaleVal_mul st.ctx.capHeight f hf
  simp only [List.append_assoc, List.cons_append, List.nil_append] at hm
  unfold applyCmd
  simp [hm]

theorem cmd_width_factor (f : Str) (hf : isFloatText f = true) (st : PState) :
    (applyCmd 'W' (f ++ [';']) st).ctx = { st.ctx with widthFactor := .abs f, continueStroke := st.cont } := by
  unfold applyCmd
  simp [scaleVal_abs _ f hf]

theorem cmd_char_tracking (f : Str) (hf : isFloatText f = true) (st : PState) :
    (applyCmd 'T' (f ++ [';']) st).ctx = { st.ctx with charTracking := .abs f, continueStroke := st.cont } := by
  unfold applyCmd
  simp [scaleVal_abs _ f hf]

theorem cmd_oblique (f : Str) (hf : isFloatText f = true) (st : PState) :
    (applyCmd 'Q' (f ++ [';']) st).ctx = { st.ctx with oblique := some f, continueStroke := st.cont } := by
  obtain ⟨hm, hne⟩ := floatText_match f hf ';' [] stop_semicolon
  unfold applyCmd
  simp [hm, hne]

/-- `aci(n)` / `color(name)`: `\C<n>;` with n ≤ 256 sets the colour index and clears the rgb value -/
theorem cmd_aci (ds : Str) (hd : ds.all isDigit = true) (hne : ds ≠ []) (hlen : ds.length ≤ intMaxStrDigits)
    (hn : natOfDigits ds < 257) (st : PState) :
    (applyCmd 'C' (ds ++ [';']) st).ctx = { st.ctx with aci := natOfDigits ds, rgb := none, continueStroke := st.cont } := by
  have htw : (ds ++ [';']).takeWhile isDigit = ds := takeWhile_digits ds [] hd
  unfold applyCmd
  simp only [show ('C' : Char) ≠ 'L' by decide, show ('C' : Char) ≠ 'l' by decide, show ('C' : Char) ≠ 'O' by decide,
    show ('C' : Char) ≠ 'o' by decide, show ('C' : Char) ≠ 'K' by decide, show ('C' : Char) ≠ 'k' by decide,
    show ('C' : Char) ≠ 'A' by decide, ↓reduceIte, htw, hne, false_or, hn]
  have : ¬ ds.length > intMaxStrDigits := by omega
  simp [this]

/-- `rgb((r, g, b))`: `\c<n>;` sets the rgb value (`n & 0xFFFFFF`), the colour index stays -/
theorem cmd_rgb (ds : Str) (hd : ds.all isDigit = true) (hne : ds ≠ []) (hlen : ds.length ≤ intMaxStrDigits) (st : PState) :
    (applyCmd 'c' (ds ++ [';']) st).ctx =
      { st.ctx with rgb := some (natOfDigits ds % 16777216), continueStroke := st.cont } := by
  have htw : (ds ++ [';']).takeWhile isDigit = ds := takeWhile_digits ds [] hd
  unfold applyCmd
  simp only [show ('c' : Char) ≠ 'L' by decide, show ('c' : Char) ≠ 'l' by decide, show ('c' : Char) ≠ 'O' by decide,
    show ('c' : Char) ≠ 'o' by decide, show ('c' : Char) ≠ 'K' by decide, show ('c' : Char) ≠ 'k' by decide,
    show ('c' : Char) ≠ 'A' by decide, show ('c' : Char) ≠ 'C' by decide, ↓reduceIte, htw, hne, false_or]
  have : ¬ ds.length > intMaxStrDigits := by omega
  simp [this]

/-- `underline(text)`: `\L` switches the stroke on for the following tokens, `\l` off again -/
theorem cmd_underline_on_off (st : PState) (h : st.ctx.hasAnyStroke = false) :
    (applyCmd 'L' [] st).ctx.underline = true ∧ (applyCmd 'L' [] st).ctx.continueStroke = true ∧
    (applyCmd 'l' [] (applyCmd 'L' [] st)).ctx = { st.ctx with underline := false, continueStroke := false } := by
  simp only [Ctx.hasAnyStroke, Bool.or_eq_false_iff] at h
  unfold applyCmd
  simp [Ctx.hasAnyStroke, h.1.2, h.2]

end EzdxfVerif.Text

/-
Handles issued by the operations (entities, sub-entities VERTEX/ATTRIB/SEQEND, block records, GROUP objects):
every accepted operation issues pairwise distinct handles inside the window [generator before, generator after),
and the generator never decreases - hence no handle is ever issued twice in any history (`issued_never_reused`).
This needs no state invariant: it holds from EVERY state, damaged ones included.
-/
import EzdxfVerif.Lemmas.DocLink
namespace EzdxfVerif.Doc

/-- the handles an operation issues when it is accepted (the handles the implementation reported for the objects it
    created; the TEXT replacing an exploded ATTRIB takes over the ATTRIB's handle and is not a new handle) -/
def issued : Op → List Nat
  | .add _ h _ => [h]
  | .ins _ _ h _ => [h]
  | .addL _ _ h subs _ => h :: subs
  | .copy _ _ h subs _ => h :: subs
  | .explode _ news _ => (news.map (fun p => p.1 :: p.2)).flatten
  | .newBlock _ br _ => [br]
  | .newLayout _ br _ => [br]
  | .newGroup _ h _ => [h]
  | _ => []

theorem freshOk_window {s : State} {l : List Nat} {seed : Nat} (hf : freshOk s l seed = true) :
    l.Nodup ∧ (∀ h ∈ l, s.next ≤ h ∧ h < seed) ∧ s.next ≤ seed :=
  ⟨(freshOk_all hf).1, (freshOk_all hf).2, freshOk_seed hf⟩

theorem newEnt_window (s : State) (k h seed : Nat) (r : Option Str) (subs : List Nat)
    (hok : (newEnt s k h seed r subs).2 = .ok) :
    (h :: subs).Nodup ∧ (∀ x ∈ h :: subs, s.next ≤ x ∧ x < (newEnt s k h seed r subs).1.next) := by
  unfold newEnt at hok ⊢
  split
  · rename_i hn; simp [hn] at hok
  · rename_i sp hsp
    simp only [hsp] at hok
    split
    · rename_i hf
      have := freshOk_window hf
      exact ⟨this.1, this.2.1⟩
    · rename_i hf; simp [hf] at hok

/-- an accepted operation issues pairwise distinct handles, all at or above the generator before the operation and
    below the generator after it -/
theorem issued_window (s : State) (op : Op) (hok : (step s op).2 = .ok) :
    (issued op).Nodup ∧ ∀ h ∈ issued op, s.next ≤ h ∧ h < (step s op).1.next := by
  cases op with
  | add k h seed => exact newEnt_window s k h seed none [] hok
  | ins k n h seed => exact newEnt_window s k h seed (some n) [] hok
  | addL k r h subs seed => exact newEnt_window s k h seed r subs hok
  | copy e k h subs seed =>
    simp only [step] at hok ⊢
    split
    · rename_i x hx
      simp only [hx] at hok
      split
      · rename_i ha
        simp only [ha, ↓reduceIte] at hok
        split
        · rename_i hlen
          simp only [hlen, ↓reduceIte] at hok
          exact newEnt_window s k h seed x.ref subs hok
        · rename_i hlen; simp [hlen] at hok
      · rename_i ha; simp [ha] at hok
    · rename_i hx; simp [hx] at hok
  | explode e news seed =>
    rcases explode_cases s e news seed with ⟨er, h0⟩ | ⟨x, name, k, b, s', hx, hal, hr, ho', hsp, hb, hshape, hfresh, htexts, hcore, hstep⟩
    · rw [h0] at hok; cases hok
    · rw [hstep]
      have hw := freshOk_window hfresh
      have hn := (explodeCore_hs hshape hcore).2
      simp only [issued]
      exact ⟨hw.1, fun h hh => by rw [hn]; exact hw.2.1 h hh⟩
  | newBlock n br seed =>
    simp only [step] at hok ⊢
    split
    · rename_i h1; simp [h1] at hok
    · split
      · rename_i hf
        have hw := freshOk_window hf
        exact ⟨hw.1, hw.2.1⟩
      · rename_i h1 hf; simp [h1, hf] at hok
  | newLayout n br seed =>
    simp only [step] at hok ⊢
    split
    · rename_i h1; simp [h1] at hok
    · split
      · rename_i h1 h2; simp [h1, h2] at hok
      · split
        · rename_i hf
          have hw := freshOk_window hf
          exact ⟨hw.1, hw.2.1⟩
        · rename_i h1 h2 hf; simp [h1, h2, hf] at hok
  | newGroup n h seed =>
    simp only [step] at hok ⊢
    split
    · rename_i h1; simp [h1] at hok
    · split
      · rename_i hf
        have hw := freshOk_window hf
        exact ⟨hw.1, hw.2.1⟩
      · rename_i h1 hf; simp [h1, hf] at hok
  | _ => simp [issued]

/-! ### creation of any entity (LINE, INSERT, POLYLINE / INSERT with sub-entities, copies): appended to its layout only -/

theorem spec_newEnt (s : State) (k h seed : Nat) (r : Option Str) (subs : List Nat) (hi : DocInv s)
    (hk : (spaceOf s k).isSome = true) (hf : freshOk s (h :: subs) seed = true) :
    (newEnt s k h seed r subs).2 = .ok ∧
    content (newEnt s k h seed r subs).1 k = content s k ++ [h] ∧
    ∀ k', k' ≠ k → content (newEnt s k h seed r subs).1 k' = content s k' := by
  have hfresh : h ∉ hs s := fun hm => by have := hi.1.2 h hm; have := (freshOk_one hf).1; omega
  have hknown : ∀ k' l, spaceOf s k' = some l → ∀ x ∈ l, x ∈ hs s := by
    intro k' l hl x hx
    exact hi.2.2.2.2 x (spaceOf_mem_allH (by simpa only [spaceOf] using hl) hx)
  cases hsp : spaceOf s k with
  | none => simp [hsp] at hk
  | some sp =>
  obtain ⟨s', hs'⟩ : ∃ s', s' = (newEnt s k h seed r subs).1 := ⟨_, rfl⟩
  have hE : s'.ents = s.ents ++ [⟨h, true, some k, true, r, isPaperBr s k, subs⟩] := by
    simp [hs', newEnt, hsp, hf]
  have hS : s'.spaces = setSpace s.spaces k (· ++ [h]) := by
    simp [hs', newEnt, hsp, hf]
  have hout : (newEnt s k h seed r subs).2 = .ok := by simp [newEnt, hsp, hf]
  rw [← hs']
  refine ⟨hout, ?_, ?_⟩
  · simp only [content, spaceOf, hS, spaceOf_setSpace, ↓reduceIte]
    unfold spaceOf at hsp
    rw [hsp]
    simp only [Option.map_some, Option.getD_some, List.filter_append, List.filter_cons,
      isAlive_new s s' _ hE hfresh rfl, ↓reduceIte, List.filter_nil]
    congr 1
    apply List.filter_congr
    intro x hx
    exact isAlive_old s s' _ hE x (hknown k sp (by unfold spaceOf; exact hsp) x hx)
  · intro k' hk'
    simp only [content, spaceOf, hS, spaceOf_setSpace, hk', ↓reduceIte]
    cases hl : (s.spaces.find? (·.1 = k')).map (·.2) with
    | none => simp
    | some l =>
      simp only [Option.getD_some]
      apply List.filter_congr
      intro x hx
      exact isAlive_old s s' _ hE x (hknown k' l (by unfold spaceOf; exact hl) x hx)

/-- `layout.add_polyline2d(...)` / `add_blockref(...)` + `add_attrib(...)`: the linked parent is appended to the content of
    its layout (its sub-entities are not content of the layout), no other layout changes -/
theorem spec_addL (s : State) (k : Nat) (r : Option Str) (h : Nat) (subs : List Nat) (seed : Nat) (hi : DocInv s)
    (hk : (spaceOf s k).isSome = true) (hf : freshOk s (h :: subs) seed = true) :
    (step s (.addL k r h subs seed)).2 = .ok ∧
    content (step s (.addL k r h subs seed)).1 k = content s k ++ [h] ∧
    ∀ k', k' ≠ k → content (step s (.addL k r h subs seed)).1 k' = content s k' :=
  spec_newEnt s k h seed r subs hi hk hf

/-- `entity.copy_to_layout(target)`: a copy with a fresh handle (and fresh sub-entity handles, as many as the source
    has) is appended to the target; the source and all other layouts are unchanged -/
theorem spec_copy (s : State) (e k h : Nat) (subs : List Nat) (seed : Nat) (x : Ent) (hi : DocInv s)
    (hx : findEnt s e = some x) (hal : x.alive = true) (hlen : subs.length = x.subs.length)
    (hk : (spaceOf s k).isSome = true) (hf : freshOk s (h :: subs) seed = true) :
    (step s (.copy e k h subs seed)).2 = .ok ∧ h ≠ e ∧
    content (step s (.copy e k h subs seed)).1 k = content s k ++ [h] ∧
    ∀ k', k' ≠ k → content (step s (.copy e k h subs seed)).1 k' = content s k' := by
  have hne : h ≠ e := by
    intro heq
    have := hi.1.2 e (findEnt_mem hx); have := (freshOk_one hf).1; omega
  have := spec_newEnt s k h seed x.ref subs hi hk hf
  simp only [step, hx, hal, hlen, ↓reduceIte]
  exact ⟨this.1, hne, this.2.1, this.2.2⟩

/-! ### required table entries are back after save + reload -/

theorem addMissing_mem : ∀ (req tabs : List (Nat × Str)),
    (∀ x ∈ tabs, x ∈ addMissing tabs req) ∧ (∀ r ∈ req, r ∈ addMissing tabs req)
  | [], tabs => ⟨fun x hx => by simpa [addMissing] using hx, fun r hr => by simp at hr⟩
  | a :: t, tabs => by
    have ih := addMissing_mem t (if tabs.contains a then tabs else tabs ++ [a])
    simp only [addMissing, List.foldl_cons] at ih ⊢
    have ha : a ∈ (if tabs.contains a then tabs else tabs ++ [a]) := by
      split
      · rename_i h; simpa using h
      · simp
    have hsub : ∀ x ∈ tabs, x ∈ (if tabs.contains a then tabs else tabs ++ [a]) := by
      intro x hx; split
      · exact hx
      · exact List.mem_append_left _ hx
    refine ⟨fun x hx => ih.1 x (hsub x hx), ?_⟩
    intro r hr
    simp only [List.mem_cons] at hr
    rcases hr with rfl | hr
    · exact ih.1 _ ha
    · exact ih.2 r hr

/-- required table entries present: after `doc.write()` + `ezdxf.read()` every required entry (linetypes ByBlock,
    ByLayer, Continuous; text style and dimension style Standard; appids ACAD, HATCHBACKGROUNDCOLOR, EZDXF; layer 0) is
    in its table again, whatever the history removed before; all other entries are kept -/
theorem required_after_reload (s : State) (seed : Nat) (hseed : s.next ≤ seed) :
    (∀ r ∈ requiredTabs, r ∈ (step s (.reload seed)).1.tabs) ∧
    (∀ x ∈ s.tabs, x ∈ (step s (.reload seed)).1.tabs) ∧
    [48] ∈ (step s (.reload seed)).1.layers := by
  simp only [step, hseed, decide_true, ↓reduceIte]
  refine ⟨(addMissing_mem requiredTabs s.tabs).2, (addMissing_mem requiredTabs s.tabs).1, ?_⟩
  split
  · rename_i h; simpa using h
  · simp

/-- all handles issued along a history (by its accepted steps), in order -/
def issuedAll : State → List Op → List Nat
  | _, [] => []
  | s, op :: r => (if (step s op).2 = .ok then issued op else []) ++ issuedAll (step s op).1 r

theorem issuedAll_ge : ∀ (ops : List Op) (s : State), ∀ h ∈ issuedAll s ops, s.next ≤ h
  | [], _, h, hh => by simp [issuedAll] at hh
  | op :: r, s, h, hh => by
    simp only [issuedAll, List.mem_append] at hh
    rcases hh with hh | hh
    · split at hh
      · rename_i hok; exact ((issued_window s op hok).2 h hh).1
      · simp at hh
    · have := issuedAll_ge r _ h hh
      have := (step_grow s op).1
      omega

/-- no handle is ever issued twice: in every history from EVERY state, the handles issued to entities, sub-entities
    (VERTEX, ATTRIB, SEQEND), block records and GROUP objects by all accepted operations are pairwise distinct -/
theorem issued_never_reused : ∀ (ops : List Op) (s : State), (issuedAll s ops).Nodup
  | [], _ => by simp [issuedAll]
  | op :: r, s => by
    simp only [issuedAll]
    refine List.nodup_append.mpr ⟨?_, issued_never_reused r _, ?_⟩
    · split
      · rename_i hok; exact (issued_window s op hok).1
      · simp
    · intro a ha b hb hab
      subst hab
      split at ha
      · rename_i hok
        have h1 := ((issued_window s op hok).2 a ha).2
        have h2 := issuedAll_ge r _ a hb
        omega
      · simp at ha

theorem run_cons (s : State) (op : Op) (r : List Op) : run s (op :: r) = run (step s op).1 r := rfl

theorem run_next_mono : ∀ (ops : List Op) (s : State), s.next ≤ (run s ops).next
  | [], _ => Nat.le_refl _
  | op :: r, s => by
    rw [run_cons]
    exact Nat.le_trans (step_grow s op).1 (run_next_mono r _)

/-- every handle issued along a history - save+reload steps included, whose generator value is the `$HANDSEED` read from
    the file - is below the handle generator of the final state: the generator, and with it the `$HANDSEED` of every later
    file, stays above ALL handles ever issued, those of deleted entities included -/
theorem issuedAll_lt_next : ∀ (ops : List Op) (s : State), ∀ h ∈ issuedAll s ops, h < (run s ops).next
  | [], _, h, hh => by simp [issuedAll] at hh
  | op :: r, s, h, hh => by
    rw [run_cons]
    simp only [issuedAll, List.mem_append] at hh
    rcases hh with hh | hh
    · split at hh
      · rename_i hok
        have h1 := ((issued_window s op hok).2 h hh).2
        have h2 := run_next_mono r (step s op).1
        omega
      · simp at hh
    · exact issuedAll_lt_next r _ h hh

/-- a save+reload step is accepted only with a `$HANDSEED` at or above the generator (the model takes the value the loader
    read from the file): an accepted reload never lowers the generator -/
theorem reload_seed_ge (s : State) (seed : Nat) (hok : (step s (.reload seed)).2 = .ok) :
    s.next ≤ seed ∧ (step s (.reload seed)).1.next = seed := by
  simp only [step] at hok ⊢
  split
  · rename_i hle; exact ⟨by simpa using hle, rfl⟩
  · rename_i hle; simp [hle] at hok

/-- a request addressed to a layout that does not list the (live) entity is rejected -/
theorem unlinkCore_wrong (s : State) (k e : Nat) (ha : isAlive s e = true)
    (hn : ((spaceOf s k).getD []).contains e = false) : unlinkCore s k e = none := by
  unfold unlinkCore
  simp only [ha, Bool.not_true, Bool.false_eq_true, ↓reduceIte]
  cases hsp : spaceOf s k with
  | none => rfl
  | some sp =>
    simp only [hsp, Option.getD_some] at hn
    simp only [hn, Bool.false_eq_true, ↓reduceIte]

/-- `layout.unlink_entity / move_to_layout / delete_entity` sent to a layout (or block) that does not contain the live
    entity: ValueError / DXFValueError / ValueError, and the document is unchanged -/
theorem wrong_layout_rejected (s : State) (k e k2 : Nat) (ha : isAlive s e = true)
    (hn : ((spaceOf s k).getD []).contains e = false) :
    step s (.unlink k e) = (s, .err .valueError) ∧ step s (.move k e k2) = (s, .err .dxfValueError) ∧
    step s (.del k e) = (s, .err .valueError) := by
  have h := unlinkCore_wrong s k e ha hn
  simp [step, h, ha]

end EzdxfVerif.Doc

/-
split_mtext_string and caret pairs (lemmas for Props/C20).
-/
import EzdxfVerif.Model.Text
namespace EzdxfVerif.Text

theorem noDoubleCaret_tail (a : Char) (r : Str) (h : noDoubleCaret (a :: r) = true) : noDoubleCaret r = true := by
  cases r with
  | nil => rfl
  | cons b t => simp only [noDoubleCaret, Bool.and_eq_true] at h; exact h.2

theorem noDoubleCaret_drop (n : Nat) (r : Str) (h : noDoubleCaret r = true) : noDoubleCaret (r.drop n) = true := by
  induction n generalizing r with
  | zero => simpa using h
  | succ k ih =>
    cases r with
    | nil => rfl
    | cons a t => simpa using ih t (noDoubleCaret_tail a t h)

theorem noDoubleCaret_index (r : Str) (h : noDoubleCaret r = true) (i : Nat) (h1 : r[i]? = some '^') : r[i + 1]? ≠ some '^' := by
  induction r generalizing i with
  | nil => simp at h1
  | cons a t ih =>
    cases i with
    | zero =>
      cases t with
      | nil => simp
      | cons b u =>
        simp only [List.getElem?_cons_zero, Option.some.injEq] at h1
        simp only [noDoubleCaret, Bool.and_eq_true, Bool.not_eq_true', Bool.and_eq_false_iff, beq_eq_false_iff_ne] at h
        simp only [List.getElem?_cons_succ, List.getElem?_cons_zero, ne_eq, Option.some.injEq]
        rcases h.1 with h' | h'
        · exact absurd h1 h'
        · exact h'
    | succ k =>
      simp only [List.getElem?_cons_succ] at h1 ⊢
      exact ih (noDoubleCaret_tail a t h) k h1

theorem mem_dropLast_cons {α : Type} (x c : α) (l : List α) (h : c ∈ (x :: l).dropLast) : c = x ∨ c ∈ l.dropLast := by
  cases l with
  | nil => simp at h
  | cons y t => simp only [List.dropLast_cons₂, List.mem_cons] at h; exact h

/-- when the content has no two adjacent carets, no chunk except the last one ends in a caret: a caret and the
    character behind it are never separated -/
theorem split_no_caret_at_chunk_end (size : Nat) (h : 2 ≤ size) (s : Str) (hs : noDoubleCaret s = true) :
    ∀ c ∈ (splitMText size h s).dropLast, c.getLast? ≠ some '^' := by
  fun_induction splitMText size h s with
  | case1 r hr => simp
  | case2 r hr hlt => simp
  | case3 r hr hlt hc ih =>
    intro c hmem
    rcases mem_dropLast_cons _ _ _ hmem with rfl | hmem
    · have hsz : size ≤ r.length := by omega
      have h1 : (r.take size).dropLast = r.take (size - 1) := by
        rw [List.dropLast_eq_take, List.take_take, List.length_take]
        congr 1; omega
      have hlast : r[size - 1]? = some '^' := by
        rw [List.getLast?_eq_getElem?, List.length_take, List.getElem?_take] at hc
        have : min size r.length - 1 = size - 1 := by omega
        rw [this] at hc
        simpa [show size - 1 < size by omega] using hc
      rw [h1, List.getLast?_eq_getElem?, List.length_take, List.getElem?_take]
      have e : min (size - 1) r.length - 1 = size - 2 := by omega
      rw [e]
      simp only [show size - 2 < size - 1 by omega, ↓reduceIte]
      intro h2
      have := noDoubleCaret_index r hs (size - 2) h2
      have e2 : size - 2 + 1 = size - 1 := by omega
      rw [e2] at this
      exact this hlast
    · exact ih (noDoubleCaret_drop _ r hs) c hmem
  | case4 r hr hlt hc ih =>
    intro c hmem
    rcases mem_dropLast_cons _ _ _ hmem with rfl | hmem
    · exact hc
    · exact ih (noDoubleCaret_drop _ r hs) c hmem

end EzdxfVerif.Text

/-
Helper lemmas for the document-level model of property C02 (Model/StorageDoc.lean).  Ordinary public theorems; the counted
property theorems are in Props/C02.lean.
-/
import EzdxfVerif.Lemmas.Storage
import EzdxfVerif.Lemmas.StorageIdem
import EzdxfVerif.Model.StorageDoc

namespace EzdxfVerif.StorageDoc
open EzdxfVerif.XTags EzdxfVerif.Storage EzdxfVerif.Gen.StorageTables

/-! ## what is written for the entities of an entity space -/

/-- specification: an unknown record is written as `canon r`, an implemented one as its class writes it -/
def written (cfg : DocCfg) (g : Rec × List Rec) : List Tag :=
  if isUnknown g.1 then canon g.1 else cfg.known g.1 g.2

theorem writeGroups_ok (cfg : DocCfg) (gs : List (Rec × List Rec))
    (h : ∀ g ∈ gs, isUnknown g.1 = true → entityWF cfg.alive g.1 = true) :
    writeGroups cfg gs = .ok (gs.flatMap (written cfg)) := by
  induction gs with
  | nil => rfl
  | cons g r ih =>
    have ihr := ih (fun x hx => h x (List.mem_cons_of_mem _ hx))
    have hg : writeGroup cfg g = .ok (written cfg g) := by
      by_cases hu : isUnknown g.1 = true
      · simp only [writeGroup, written, hu, if_true, roundtrip_canon cfg.alive g.1 (h g List.mem_cons_self hu)]
      · simp only [Bool.not_eq_true] at hu
        simp only [writeGroup, written, hu, Bool.false_eq_true, if_false]
    simp only [writeGroups, hg, ihr, List.flatMap_cons]

/-! ## the entity linker never links or swallows an unknown record -/

theorem known_of_type (r : Rec) (n : List Nat) (hn : n ∈ registeredTypes) (hs : n ∉ storageTypes)
    (h : (recType r == V.str n) = true) : isUnknown r = false := by
  simp only [isUnknown, Bool.or_eq_false_iff, Bool.not_eq_false', List.any_eq_true, List.any_eq_false]
  refine ⟨⟨n, hn, h⟩, ?_⟩
  intro m hm hrm
  have e1 : recType r = V.str n := by simpa using h
  have e2 : recType r = V.str m := by simpa using hrm
  rw [e1] at e2
  simp only [V.str.injEq] at e2
  exact hs (e2 ▸ hm)

theorem seqend_registered : sSEQEND ∈ registeredTypes ∧ sSEQEND ∉ storageTypes := by decide +kernel

theorem linked_registered : ∀ p ∈ linkedEntities,
    (p.1 ∈ registeredTypes ∧ p.1 ∉ storageTypes) ∧ (p.2 ∈ registeredTypes ∧ p.2 ∉ storageTypes) := by decide +kernel

theorem expectedChild_spec (ty : V) (exp : List Nat) (h : expectedChild ty = some exp) :
    ∃ p ∈ linkedEntities, (ty == V.str p.1) = true ∧ p.2 = exp := by
  simp only [expectedChild, Option.map_eq_some_iff] at h
  obtain ⟨p, hp, rfl⟩ := h
  exact ⟨p, List.mem_of_find?_eq_some hp, by simpa using List.find?_some hp, rfl⟩

/-- the groups whose main record is of an unknown type are exactly the unknown records, in order, each without sub-records -/
theorem linkRecs_unknown (cfg : DocCfg) (recs : List Rec) (cur : Option (Rec × List Rec × List Nat))
    (gs : List (Rec × List Rec))
    (hcur : ∀ p ch e, cur = some (p, ch, e) → isUnknown p = false ∧ (e ∈ registeredTypes ∧ e ∉ storageTypes))
    (h : linkRecs cfg recs cur = .ok gs) :
    gs.filter (fun g => isUnknown g.1) = (recs.filter isUnknown).map (fun r => (r, [])) := by
  induction recs generalizing cur gs with
  | nil =>
    cases cur with
    | none => simp only [linkRecs, Except.ok.injEq] at h; subst h; rfl
    | some c =>
      obtain ⟨p, ch, e⟩ := c
      simp only [linkRecs, Except.ok.injEq] at h
      subst h
      have := (hcur p ch e rfl).1
      simp [this]
  | cons r rs ih =>
    cases cur with
    | some c =>
      obtain ⟨p, ch, e⟩ := c
      obtain ⟨hp, he⟩ := hcur p ch e rfl
      simp only [linkRecs] at h
      split at h
      · rename_i hs
        have hk : isUnknown r = false := known_of_type r sSEQEND seqend_registered.1 seqend_registered.2 hs
        split at h
        · rename_i gs' hgs
          simp only [Except.ok.injEq] at h
          subst h
          have := ih none gs' (by intro p ch e hc; cases hc) hgs
          simp only [List.filter_cons, hp, hk, Bool.false_eq_true, if_false]
          exact this
        · cases h
      · split at h
        · rename_i hs
          have hk : isUnknown r = false := known_of_type r e he.1 he.2 hs
          have := ih (some (p, ch ++ [r], e)) gs
            (by intro p' ch' e' hc; cases hc; exact ⟨hp, he⟩) h
          simp only [List.filter_cons, hk, Bool.false_eq_true, if_false]
          exact this
        · cases h
    | none =>
      simp only [linkRecs] at h
      split at h
      · rename_i exp hexp
        obtain ⟨q, hq, hty, hq2⟩ := expectedChild_spec _ _ hexp
        have hk : isUnknown r = false := known_of_type r q.1 (linked_registered q hq).1.1 (linked_registered q hq).1.2 hty
        have hexpr : exp ∈ registeredTypes ∧ exp ∉ storageTypes := hq2 ▸ (linked_registered q hq).2
        split at h
        · split at h
          · rename_i gs' hgs
            simp only [Except.ok.injEq] at h
            subst h
            have := ih none gs' (by intro p ch e hc; cases hc) hgs
            simp only [List.filter_cons, hk, Bool.false_eq_true, if_false]
            exact this
          · cases h
        · have := ih (some (r, [], exp)) gs (by intro p' ch' e' hc; cases hc; exact ⟨hk, hexpr⟩) h
          simp only [List.filter_cons, hk, Bool.false_eq_true, if_false]
          exact this
      · split at h
        · rename_i gs' hgs
          simp only [Except.ok.injEq] at h
          subst h
          have := ih none gs' (by intro p ch e hc; cases hc) hgs
          by_cases hu : isUnknown r = true
          · simp only [List.filter_cons, hu, if_true, List.map_cons, this]
          · simp only [Bool.not_eq_true] at hu
            simp only [List.filter_cons, hu, Bool.false_eq_true, if_false, this]
        · cases h

/-- every main record of a group is a record of the section -/
theorem linkRecs_mem (cfg : DocCfg) (recs : List Rec) (cur : Option (Rec × List Rec × List Nat))
    (gs : List (Rec × List Rec)) (h : linkRecs cfg recs cur = .ok gs) :
    ∀ g ∈ gs, g.1 ∈ recs ∨ ∃ ch e, cur = some (g.1, ch, e) := by
  induction recs generalizing cur gs with
  | nil =>
    cases cur with
    | none => simp only [linkRecs, Except.ok.injEq] at h; subst h; simp
    | some c =>
      obtain ⟨p, ch, e⟩ := c
      simp only [linkRecs, Except.ok.injEq] at h
      subst h
      intro g hg
      simp only [List.mem_singleton] at hg
      subst hg
      exact Or.inr ⟨ch, e, rfl⟩
  | cons r rs ih =>
    cases cur with
    | some c =>
      obtain ⟨p, ch, e⟩ := c
      simp only [linkRecs] at h
      split at h
      · split at h
        · rename_i gs' hgs
          simp only [Except.ok.injEq] at h
          subst h
          intro g hg
          rcases List.mem_cons.mp hg with rfl | hg
          · exact Or.inr ⟨ch, e, rfl⟩
          · rcases ih none gs' hgs g hg with h1 | ⟨_, _, h2⟩
            · exact Or.inl (List.mem_cons_of_mem _ h1)
            · cases h2
        · cases h
      · split at h
        · intro g hg
          rcases ih _ gs h g hg with h1 | ⟨ch', e', h2⟩
          · exact Or.inl (List.mem_cons_of_mem _ h1)
          · cases h2; exact Or.inr ⟨ch, e, rfl⟩
        · cases h
    | none =>
      simp only [linkRecs] at h
      split at h
      · split at h
        · split at h
          · rename_i gs' hgs
            simp only [Except.ok.injEq] at h
            subst h
            intro g hg
            rcases List.mem_cons.mp hg with rfl | hg
            · exact Or.inl List.mem_cons_self
            · rcases ih none gs' hgs g hg with h1 | ⟨_, _, h2⟩
              · exact Or.inl (List.mem_cons_of_mem _ h1)
              · cases h2
          · cases h
        · intro g hg
          rcases ih _ gs h g hg with h1 | ⟨ch', e', h2⟩
          · exact Or.inl (List.mem_cons_of_mem _ h1)
          · cases h2; exact Or.inl List.mem_cons_self
      · split at h
        · rename_i gs' hgs
          simp only [Except.ok.injEq] at h
          subst h
          intro g hg
          rcases List.mem_cons.mp hg with rfl | hg
          · exact Or.inl List.mem_cons_self
          · rcases ih none gs' hgs g hg with h1 | ⟨_, _, h2⟩
            · exact Or.inl (List.mem_cons_of_mem _ h1)
            · cases h2
        · cases h

/-! ## ENTITIES and OBJECTS -/

theorem entitiesPass_ok (cfg : DocCfg) (recs : List Rec) (gs : List (Rec × List Rec))
    (hl : linkRecs cfg recs none = .ok gs)
    (hwf : ∀ r ∈ recs, isUnknown r = true → entityWF cfg.alive r = true) :
    entitiesPass cfg recs = .ok ((gs.filter (fun g => !pspOf cfg g)).flatMap (written cfg)
      ++ (gs.filter (fun g => pspOf cfg g)).flatMap (written cfg)) := by
  have hmem := linkRecs_mem cfg recs none gs hl
  have hg : ∀ g ∈ gs, isUnknown g.1 = true → entityWF cfg.alive g.1 = true := by
    intro g hg hu
    rcases hmem g hg with h1 | ⟨_, _, h2⟩
    · exact hwf _ h1 hu
    · cases h2
  simp only [entitiesPass, hl, entitiesOrder, List.flatMap_cons, List.flatMap_nil, List.append_nil]
  rw [writeGroups_ok cfg _ (by
    intro g hg' hu
    rcases List.mem_append.mp hg' with h1 | h1
    · exact hg g (List.mem_filter.mp h1).1 hu
    · exact hg g (List.mem_filter.mp h1).1 hu)]
  simp only [List.flatMap_append]

theorem objectsPass_ok (cfg : DocCfg) (recs : List Rec) (appended : List Tag)
    (hwf : ∀ r ∈ recs, isUnknown r = true → entityWF cfg.alive r = true) :
    objectsPass cfg recs appended
      = .ok ((recs.filter (fun r => !cfg.skipObject r)).flatMap (fun r => written cfg (r, [])) ++ appended) := by
  simp only [objectsPass]
  rw [writeGroups_ok cfg _ (by
    intro g hg hu
    obtain ⟨r, hr, rfl⟩ := List.mem_map.mp hg
    exact hwf r (List.mem_filter.mp hr).1 hu)]
  simp only [List.flatMap_map]

/-! ## whole file -/

/-- the body records of the section called `name` of a file given as sections -/
def bodyOf (secs : List Sec) (name : List Nat) : List Rec :=
  match secs.find? (fun s => s.name == name) with
  | some s => s.body
  | none => []

theorem sectionBody_file (secs : List Sec) (name : List Nat) :
    sectionBody (secs.map (fun s => (V.str s.name, s.head :: s.body))) name = bodyOf secs name := by
  induction secs with
  | nil => rfl
  | cons s r ih =>
    simp only [sectionBody, bodyOf, List.map_cons, List.find?_cons] at ih ⊢
    by_cases h : s.name = name
    · subst h
      simp
    · have h1 : (V.str s.name == V.str name) = false := by
        simp only [beq_eq_false_iff_ne, ne_eq, V.str.injEq]; exact h
      have h2 : (s.name == name) = false := by simpa using h
      simp only [h1, h2]
      exact ih

theorem storedSections_file (secs : List Sec) :
    exportStored (storedSections (secs.map (fun s => (V.str s.name, s.head :: s.body))))
      = (secs.filter unmanaged).flatMap Sec.tags := by
  simp only [storedSections, List.filter_filter]
  induction secs with
  | nil => rfl
  | cons s r ih =>
    simp only [exportStored, List.map_cons, List.filter_cons, unmanaged] at ih ⊢
    by_cases h1 : isDeleted (.str s.name) = true
    · simp only [h1, Bool.not_true, Bool.false_eq_true, if_false, Bool.false_and, Bool.and_false]
      exact ih
    · simp only [Bool.not_eq_true] at h1
      by_cases h2 : isManaged (.str s.name) = true
      · simp only [h1, h2, Bool.not_false, Bool.not_true, Bool.false_eq_true, if_false, Bool.and_false,
          Bool.false_and]
        exact ih
      · simp only [Bool.not_eq_true] at h2
        simp only [h1, h2, Bool.not_false, if_true, Bool.and_self, List.map_cons, List.flatMap_cons, Sec.tags]
        rw [ih]

/-! ## CLASSES -/

/-- a CLASS entry in the standard form: the seven attributes of `class_def` -/
structure StdClass where
  name : V
  cpp : V
  app : V
  flags : V
  count : V
  proxy : V
  entity : V

/-- the record as it stands in a file of a version with (R2004+) / without (R2000) the instance count -/
def StdClass.record (c : StdClass) (r2004 : Bool) : Rec :=
  [⟨0, .str sCLASS⟩, ⟨1, c.name⟩, ⟨2, c.cpp⟩, ⟨3, c.app⟩, ⟨90, c.flags⟩] ++ (if r2004 then [⟨91, c.count⟩] else [])
    ++ [⟨280, c.proxy⟩, ⟨281, c.entity⟩]

def StdClass.toE (c : StdClass) (r2004 : Bool) : ClassE :=
  ⟨some c.name, some c.cpp, some c.app, some c.flags, if r2004 then some c.count else none, some c.proxy, some c.entity⟩

theorem classLoad_std (c : StdClass) (r2004 : Bool) : classLoad (c.record r2004) = some (c.toE r2004) := by
  cases r2004 <;>
    simp [StdClass.record, StdClass.toE, classLoad, collectBase, isAppStart, isEndOfClass, isEO, lastVal]

theorem classExport_std (c : StdClass) (r2004 : Bool) : classExport r2004 (c.toE r2004) = c.record r2004 := by
  cases r2004 <;> simp [StdClass.record, StdClass.toE, classExport, classAttribOrder, optTag]

theorem recType_std (c : StdClass) (r2004 : Bool) : recType (c.record r2004) = .str sCLASS := by
  cases r2004 <;> rfl

theorem classKey_std (c : StdClass) (r2004 : Bool) : classKey (c.toE r2004) = (some c.name, some c.cpp) := by
  cases r2004 <;> rfl

theorem classesLoad_std (r2004 : Bool) (es : List StdClass) (acc : List ClassE)
    (hk : ((acc.map classKey) ++ es.map (fun c => (some c.name, some c.cpp))).Nodup) :
    classesLoad (es.map (fun c => c.record r2004)) acc = some (acc ++ es.map (fun c => c.toE r2004)) := by
  induction es generalizing acc with
  | nil => simp [classesLoad]
  | cons c r ih =>
    have hfresh : acc.any (fun a => classKey a == classKey (c.toE r2004)) = false := by
      rw [Bool.eq_false_iff]
      intro hm
      simp only [List.any_eq_true, beq_iff_eq] at hm
      obtain ⟨a, ha, hka⟩ := hm
      rw [List.nodup_append] at hk
      rw [classKey_std] at hka
      exact hk.2.2 _ (List.mem_map.mpr ⟨a, ha, hka⟩) _ (by simp) rfl
    simp only [List.map_cons, classesLoad, recType_std, beq_self_eq_true, if_true, classLoad_std, registerE, hfresh,
      Bool.false_eq_true, if_false]
    rw [ih (acc ++ [c.toE r2004]) (by
      simpa [List.map_append, classKey_std, List.append_assoc] using hk)]
    simp

theorem foldl_registerE_prefix (extra cs : List ClassE) : ∃ t, extra.foldl registerE cs = cs ++ t := by
  induction extra generalizing cs with
  | nil => exact ⟨[], by simp⟩
  | cons x r ih =>
    simp only [List.foldl_cons, registerE]
    split
    · exact ih cs
    · obtain ⟨t, ht⟩ := ih (cs ++ [x])
      exact ⟨x :: t, by rw [ht]; simp⟩

/-- what is written behind the entries of the file: the classes `add_required_classes` registers whose key is new -/
def classesTail (r2004 : Bool) (es : List StdClass) (extra : List ClassE) : List Tag :=
  ((extra.foldl registerE (es.map (fun c => c.toE r2004))).drop es.length).flatMap (classExport r2004)

theorem classesPass_std_eq (r2004 : Bool) (es : List StdClass) (extra : List ClassE)
    (hk : (es.map (fun c => (c.name, c.cpp))).Nodup) :
    classesPass r2004 (es.map (fun c => c.record r2004)) extra
      = some (es.flatMap (fun c => c.record r2004) ++ classesTail r2004 es extra) := by
  have hk' : ((([] : List ClassE).map classKey) ++ es.map (fun c => (some c.name, some c.cpp))).Nodup := by
    simp only [List.map_nil, List.nil_append]
    have : es.map (fun c => (some c.name, some c.cpp)) = (es.map (fun c => (c.name, c.cpp))).map (fun p => (some p.1, some p.2)) := by
      simp [List.map_map]
    rw [this]
    exact List.Pairwise.map _ (fun a b h e => h (by
      simp only [Prod.mk.injEq, Option.some.injEq] at e
      exact Prod.ext e.1 e.2)) hk
  obtain ⟨t, ht⟩ := foldl_registerE_prefix extra (es.map (fun c => c.toE r2004))
  simp only [classesPass, classesLoad_std r2004 es [] hk', List.nil_append, classesTail, ht, List.flatMap_append,
    List.flatMap_map, classExport_std]
  congr 2
  have : (es.map (fun c => c.toE r2004) ++ t).drop es.length = t := by
    have hl : es.length = (es.map (fun c => c.toE r2004)).length := by simp
    rw [hl, List.drop_left]
  rw [this]

theorem classesPass_std (r2004 : Bool) (es : List StdClass) (extra : List ClassE)
    (hk : (es.map (fun c => (c.name, c.cpp))).Nodup) :
    ∃ tail, classesPass r2004 (es.map (fun c => c.record r2004)) extra = some (es.flatMap (fun c => c.record r2004) ++ tail) :=
  ⟨_, classesPass_std_eq r2004 es extra hk⟩

/-! ## HEADER -/

/-- the variable is in HEADER_VAR_MAP and the target version lies inside its version window -/
def inWindow (ver : Nat) (name : V) : Bool :=
  match varDef name with
  | some d => d.2.2.1 ≤ ver && ver ≤ d.2.2.2
  | none => false

theorem insertVar_perm (a : VarDef × V) (l : List (VarDef × V)) : (insertVar a l).Perm (a :: l) := by
  induction l with
  | nil => exact List.Perm.refl _
  | cons b r ih =>
    simp only [insertVar]
    split
    · exact List.Perm.refl _
    · exact (List.Perm.cons b ih).trans (List.Perm.swap a b r)

theorem sortVars_perm (l : List (VarDef × V)) : (sortVars l).Perm l := by
  induction l with
  | nil => exact List.Perm.refl _
  | cons a r ih => exact (insertVar_perm a (sortVars r)).trans (List.Perm.cons a ih)

theorem dictSet_keys {β : Type} (d : List (V × β)) (k : V) (v : β) (h : (d.map (·.1)).Nodup) :
    ((dictSet d k v).map (·.1)).Nodup := by
  simp only [dictSet]
  split
  · have : (d.map (fun p => if p.1 == k then (k, v) else p)).map (·.1) = d.map (·.1) := by
      simp only [List.map_map]
      apply List.map_congr_left
      intro p _
      simp only [Function.comp]
      split
      · rename_i hp; simpa using (beq_iff_eq.mp hp).symm
      · rfl
    rw [this]; exact h
  · rename_i hk
    simp only [List.map_append, List.map_cons, List.map_nil]
    rw [List.nodup_append]
    refine ⟨h, by simp, ?_⟩
    intro a ha b hb
    simp only [List.mem_singleton] at hb
    subst hb
    intro e
    subst e
    apply hk
    simp only [List.any_eq_true, beq_iff_eq]
    obtain ⟨p, hp, e⟩ := List.mem_map.mp ha
    exact ⟨p, hp, e⟩

theorem headerVars_keys {β : Type} (gs acc : List (V × β)) (h : (acc.map (·.1)).Nodup) : ((headerVars gs acc).map (·.1)).Nodup := by
  induction gs generalizing acc with
  | nil => exact h
  | cons g r ih =>
    simp only [headerVars]
    split
    · exact ih acc h
    · exact ih _ (dictSet_keys acc g.1 g.2 h)

theorem castGroup_name (ver : Nat) (cast : Nat → Tag → Option V) (p : V × Tag) (q : V × V)
    (h : castGroup ver cast p = some q) : q.1 = p.1 := by
  simp only [castGroup] at h
  split at h
  · simp only [Option.some.injEq] at h; subst h; rfl
  · split at h
    · simp only [Option.some.injEq] at h; subst h; rfl
    · cases h

theorem castVars_keys (ver : Nat) (cast : Nat → Tag → Option V) (vars : List (V × Tag)) (h : (vars.map (·.1)).Nodup) :
    ((vars.filterMap (castGroup ver cast)).map (·.1)).Nodup := by
  have hsub : ((vars.filterMap (castGroup ver cast)).map (·.1)).Sublist (vars.map (·.1)) := by
    induction vars with
    | nil => exact List.Sublist.refl _
    | cons p r ih =>
      simp only [List.map_cons, List.nodup_cons] at h
      simp only [List.filterMap_cons]
      cases hc : castGroup ver cast p with
      | none => exact (ih h.2).cons _
      | some q =>
        simp only [List.map_cons, castGroup_name ver cast p q hc]
        exact (ih h.2).cons_cons _
  exact hsub.nodup h

/-- the selection step of `header_vars_by_priority` -/
def pick (ver : Nat) (p : V × V) : Option (VarDef × V) :=
  match varDef p.1 with
  | some d => if d.2.2.1 ≤ ver && ver ≤ d.2.2.2 then some (d, p.2) else none
  | none => none

theorem pick_spec (ver : Nat) (p : V × V) (dv : VarDef × V) (h : pick ver p = some dv) :
    dv.1 ∈ headerVarMap ∧ p = (V.str dv.1.1, dv.2) ∧ inWindow ver p.1 = true ∧ dv.1.2.2.1 ≤ ver := by
  simp only [pick] at h
  split at h
  · rename_i d hd
    split at h
    · rename_i hw
      simp only [Option.some.injEq] at h
      subst h
      simp only [varDef] at hd
      have hm := List.mem_of_find?_eq_some hd
      have hq := List.find?_some hd
      simp only [beq_iff_eq] at hq
      refine ⟨hm, ?_, ?_, ?_⟩
      · exact Prod.ext hq rfl
      · simp only [inWindow, varDef, hd, hw]
      · simp only [Bool.and_eq_true, decide_eq_true_eq] at hw; exact hw.1
    · cases h
  · cases h

theorem pick_none (ver : Nat) (p : V × V) (h : pick ver p = none) : inWindow ver p.1 = false := by
  simp only [pick] at h
  simp only [inWindow]
  cases hd : varDef p.1 with
  | none => rfl
  | some d =>
    simp only [hd] at h ⊢
    by_cases hw : (decide (d.2.2.1 ≤ ver) && decide (ver ≤ d.2.2.2)) = true
    · simp only [hw, if_true] at h; cases h
    · simpa using hw

theorem varsByPriority_eq (ver : Nat) (vars : List (V × V)) : varsByPriority ver vars = sortVars (vars.filterMap (pick ver)) := rfl

/-- what the picked definitions are written as is exactly the (name, value) pair they were picked from -/
theorem filterMap_pick_back (ver : Nat) (vars : List (V × V)) :
    (vars.filterMap (pick ver)).map (fun dv => (V.str dv.1.1, dv.2)) = vars.filter (fun p => inWindow ver p.1) := by
  induction vars with
  | nil => rfl
  | cons p r ih =>
    simp only [List.filterMap_cons, List.filter_cons]
    cases hp : pick ver p with
    | none => simp only [pick_none ver p hp, Bool.false_eq_true, if_false]; exact ih
    | some dv =>
      obtain ⟨_, h2, h3, _⟩ := pick_spec ver p dv hp
      simp only [h3, if_true, List.map_cons, ih]
      rw [← h2]

theorem table_no_custom : ∀ d ∈ headerVarMap, d.1 ≠ sCustomTag ∧ d.1 ≠ sCustomProp := by decide +kernel

theorem table_lastsavedby : ∀ d ∈ headerVarMap, d.1 = sLastSavedBy → d.2.2.1 = 1018 := by decide +kernel

theorem customGroups_all_custom (ps : List (V × V)) : (customGroups ps).filter (fun g => isCustomName g.1) = customGroups ps := by
  rw [List.filter_eq_self]
  intro g hg
  simp only [customGroups, List.mem_flatMap] at hg
  obtain ⟨p, _, hg⟩ := hg
  simp only [List.mem_cons, List.not_mem_nil, or_false] at hg
  rcases hg with rfl | rfl <;> simp [isCustomName]

theorem customGroups_none_plain (ps : List (V × V)) : (customGroups ps).filter (fun g => !isCustomName g.1) = [] := by
  rw [List.filter_eq_nil_iff]
  intro g hg
  simp only [customGroups, List.mem_flatMap] at hg
  obtain ⟨p, _, hg⟩ := hg
  simp only [List.mem_cons, List.not_mem_nil, or_false] at hg
  rcases hg with rfl | rfl <;> simp [isCustomName]

theorem flatMap_one {α β : Type} (key : α → V) (a : V) (C : List β) (l : List α) (hn : (l.map key).Nodup)
    (x : α) (hx : x ∈ l) (hk : key x = a) :
    l.flatMap (fun y => if key y == a then C else []) = C := by
  induction l with
  | nil => cases hx
  | cons y r ih =>
    simp only [List.map_cons, List.nodup_cons] at hn
    simp only [List.flatMap_cons]
    by_cases hy : key y = a
    · have hr : r.flatMap (fun y => if key y == a then C else []) = [] := by
        simp only [List.flatMap_eq_nil_iff]
        intro z hz
        have hne : key z ≠ a := fun e => hn.1 (List.mem_map.mpr ⟨z, hz, by rw [e, hy]⟩)
        have : (key z == a) = false := by simpa using hne
        simp only [this, Bool.false_eq_true, if_false]
      have hb : (key y == a) = true := by simpa using hy
      simp only [hb, if_true, hr, List.append_nil]
    · have hxr : x ∈ r := by
        rcases List.mem_cons.mp hx with e | e
        · subst e; exact absurd hk hy
        · exact e
      have hb : (key y == a) = false := by simpa using hy
      simp only [hb, Bool.false_eq_true, if_false, List.nil_append]
      exact ih hn.2 hxr

theorem flatMap_zero {α β : Type} (key : α → V) (a : V) (C : List β) (l : List α) (h : ∀ y ∈ l, key y ≠ a) :
    l.flatMap (fun y => if key y == a then C else []) = [] := by
  simp only [List.flatMap_eq_nil_iff]
  intro y hy
  have : (key y == a) = false := by simpa using h y hy
  simp only [this, Bool.false_eq_true, if_false]

/-- the loop of `HeaderSection.export_dxf` split into the variables and the custom properties -/
theorem headerLoop_split (custom : List (V × V)) (W : List (VarDef × V)) (hW : ∀ dv ∈ W, dv.1 ∈ headerVarMap) :
    (W.flatMap fun dv => (V.str dv.1.1, dv.2) :: (if dv.1.1 == sLastSavedBy then customGroups custom else [])).filter
        (fun g => isCustomName g.1)
      = W.flatMap (fun dv => if V.str dv.1.1 == V.str sLastSavedBy then customGroups custom else [])
    ∧ (W.flatMap fun dv => (V.str dv.1.1, dv.2) :: (if dv.1.1 == sLastSavedBy then customGroups custom else [])).filter
        (fun g => !isCustomName g.1)
      = W.map (fun dv => (V.str dv.1.1, dv.2)) := by
  induction W with
  | nil => exact ⟨rfl, rfl⟩
  | cons dv r ih =>
    obtain ⟨ih1, ih2⟩ := ih (fun x hx => hW x (List.mem_cons_of_mem _ hx))
    have hnc := table_no_custom dv.1 (hW dv List.mem_cons_self)
    have hc : isCustomName (V.str dv.1.1) = false := by
      simp only [isCustomName, Bool.or_eq_false_iff, beq_eq_false_iff_ne, ne_eq, V.str.injEq]
      exact hnc
    have e : (V.str dv.1.1 == V.str sLastSavedBy) = (dv.1.1 == sLastSavedBy) := by
      by_cases h : dv.1.1 = sLastSavedBy
      · rw [h]; simp
      · have h1 : (dv.1.1 == sLastSavedBy) = false := by simpa using h
        have h2 : (V.str dv.1.1 == V.str sLastSavedBy) = false := by
          simp only [beq_eq_false_iff_ne, ne_eq, V.str.injEq]; exact h
        rw [h1, h2]
    constructor
    · simp only [List.flatMap_cons, List.filter_append, List.filter_cons, hc, Bool.false_eq_true, if_false, ih1, e]
      split
      · rw [customGroups_all_custom]
      · rfl
    · simp only [List.flatMap_cons, List.filter_append, List.filter_cons, hc, Bool.not_false, if_true, ih2, List.map_cons]
      split
      · rw [customGroups_none_plain]; rfl
      · rfl

theorem headerExport_parts (ver : Nat) (verText : V) (vars custom : List (V × V)) (hn : (vars.map (·.1)).Nodup) :
    (headerExport ver verText true vars custom).filter (fun g => isCustomName g.1)
        = (if 1018 ≤ ver then customGroups custom else [])
    ∧ ((headerExport ver verText true vars custom).filter (fun g => !isCustomName g.1)).Perm
        ((dictSet vars (.str sACADVER) verText).filter (fun p => inWindow ver p.1)) := by
  have hn' := dictSet_keys vars (.str sACADVER) verText hn
  simp only [headerExport, Bool.not_true, Bool.false_and, Bool.not_false, Bool.true_and, Bool.false_eq_true, if_false]
  generalize dictSet vars (.str sACADVER) verText = vars' at hn' ⊢
  have hperm := sortVars_perm (vars'.filterMap (pick ver))
  have hW : ∀ dv ∈ varsByPriority ver vars', dv.1 ∈ headerVarMap ∧ dv.1.2.2.1 ≤ ver := by
    intro dv hdv
    rw [varsByPriority_eq] at hdv
    obtain ⟨p, _, hp⟩ := List.mem_filterMap.mp (hperm.mem_iff.mp hdv)
    have := pick_spec ver p dv hp
    exact ⟨this.1, this.2.2.2⟩
  have hnames : ((varsByPriority ver vars').map (fun dv => V.str dv.1.1)).Nodup := by
    rw [varsByPriority_eq]
    refine ((hperm.map _).nodup_iff).mpr ?_
    have hsub : ((vars'.filterMap (pick ver)).map (fun dv => V.str dv.1.1)).Sublist (vars'.map (·.1)) := by
      have := filterMap_pick_back ver vars'
      have h2 : (vars'.filterMap (pick ver)).map (fun dv => V.str dv.1.1)
          = ((vars'.filterMap (pick ver)).map (fun dv => (V.str dv.1.1, dv.2))).map (·.1) := by
        simp [List.map_map]
      rw [h2, this]
      exact (List.filter_sublist).map _
    exact hsub.nodup hn'
  obtain ⟨hs1, hs2⟩ := headerLoop_split custom (varsByPriority ver vars') (fun dv h => (hW dv h).1)
  constructor
  · rw [List.filter_append, hs1]
    by_cases hany : (varsByPriority ver vars').any (fun dv => dv.1.1 == sLastSavedBy) = true
    · obtain ⟨dv, hdv, hk⟩ := List.any_eq_true.mp hany
      have hk' : dv.1.1 = sLastSavedBy := by simpa using hk
      have hver : 1018 ≤ ver := by
        have := table_lastsavedby dv.1 (hW dv hdv).1 hk'
        have h2 := (hW dv hdv).2
        omega
      rw [flatMap_one (fun dv : VarDef × V => V.str dv.1.1) (V.str sLastSavedBy) (customGroups custom) _ hnames dv hdv
        (by rw [hk'])]
      simp [hany, hver]
    · simp only [Bool.not_eq_true] at hany
      have hnone : ∀ y ∈ varsByPriority ver vars', V.str y.1.1 ≠ V.str sLastSavedBy := by
        intro y hy e
        have := List.any_eq_false.mp hany y hy
        simp only [V.str.injEq] at e
        simp [e] at this
      rw [flatMap_zero (fun dv : VarDef × V => V.str dv.1.1) (V.str sLastSavedBy) (customGroups custom) _ hnone]
      simp only [hany, Bool.false_eq_true, if_false, List.nil_append, customFallback]
      split
      · rw [customGroups_all_custom]
      · rfl
  · rw [List.filter_append, hs2]
    simp only [customFallback]
    have htail : (if (varsByPriority ver vars').any (fun dv => dv.1.1 == sLastSavedBy) = true then []
        else if 1018 ≤ ver then customGroups custom else []).filter (fun g => !isCustomName g.1) = [] := by
      split
      · rfl
      · split
        · rw [customGroups_none_plain]
        · rfl
    rw [htail, List.append_nil, ← filterMap_pick_back ver vars', varsByPriority_eq]
    exact hperm.map _

/-! ## ACAD_PROXY_ENTITY and ACDSDATA -/

theorem exportProxy_eq_exportEnt (alive : V → Bool) (e : Ent) (s1 s2 : List Tag) (hs : e.subs = [s1, s2])
    (he : e.embedded = []) : exportProxy alive s1 e = exportEnt alive e := by
  simp only [exportProxy, exportEnt]
  cases reactorsPart e.reactors with
  | error x => rfl
  | ok re =>
    simp only [entityOrder, storageOrder, List.flatMap_cons, List.flatMap_nil, List.append_nil, storagePart, hs, he,
      List.drop_succ_cons, List.drop_zero, List.headD_cons, List.flatten_cons, List.flatten_nil]

/-- an ACDSDATA record the section classes keep completely: any record of another type; an ACDSRECORD made of the type tag, the
    flags tag and sections that start with a (2, name) tag -/
def acdsRecWF (r : Rec) : Bool :=
  if recType r == .str sACDSRECORD then
    match r with
    | _ :: _ :: [] => true
    | _ :: _ :: t :: _ => t.code == 2
    | _ => false
  else true

theorem acdsRecordOut_wf (r : Rec) (h : acdsRecWF r = true) : acdsRecordOut r = some r := by
  simp only [acdsRecWF] at h
  simp only [acdsRecordOut]
  split
  · rename_i ht
    simp only [ht, if_true] at h
    match r, h with
    | [_, _], _ => rfl
    | _ :: _ :: t :: rest, h =>
      have : (t.code == 2) = true := h
      simp only [fromFirst2, this, if_true]
  · rfl

theorem acdsRecordsOut_wf (recs : List Rec) (h : ∀ r ∈ recs, acdsRecWF r = true) : acdsRecordsOut recs = some recs.flatten := by
  induction recs with
  | nil => rfl
  | cons r rs ih =>
    simp only [acdsRecordsOut, acdsRecordOut_wf r (h r List.mem_cons_self),
      ih (fun x hx => h x (List.mem_cons_of_mem _ hx)), List.flatten_cons]

theorem acdsPass_wf (head : Rec) (recs : List Rec) (h : ∀ r ∈ recs, acdsRecWF r = true)
    (hr : ∃ r ∈ recs, recType r = .str sACDSRECORD) :
    acdsPass head recs = some (head ++ recs.flatten ++ [endsecTag]) := by
  have hany : recs.any (fun r => recType r == .str sACDSRECORD) = true := by
    obtain ⟨r, hr, ht⟩ := hr
    exact List.any_eq_true.mpr ⟨r, hr, by simp [ht]⟩
  simp only [acdsPass, hany, if_true, acdsRecordsOut_wf recs h]

/-- specification of what is written for the ACDSDATA section of a file -/
def acdsWritten (secs : List Sec) : List Tag :=
  match secs.find? (fun s => s.name == sACDSDATA) with
  | none => []
  | some s => if s.body.any (fun r => recType r == .str sACDSRECORD) then s.head ++ s.body.flatten ++ [endsecTag] else []

theorem acdsOf_file (secs : List Sec) (h : ∀ r ∈ bodyOf secs sACDSDATA, acdsRecWF r = true) :
    acdsOf (secs.map (fun s => (V.str s.name, s.head :: s.body))) = some (acdsWritten secs) := by
  induction secs with
  | nil => rfl
  | cons s r ih =>
    simp only [acdsOf, acdsWritten, bodyOf, List.map_cons, List.find?_cons] at ih h ⊢
    by_cases hn : s.name = sACDSDATA
    · have h1 : (V.str s.name == V.str sACDSDATA) = true := by simp [hn]
      have h2 : (s.name == sACDSDATA) = true := by simp [hn]
      simp only [h1, h2] at h ⊢
      simp only [acdsPass]
      split
      · rw [acdsRecordsOut_wf s.body h]
      · rfl
    · have h1 : (V.str s.name == V.str sACDSDATA) = false := by
        simp only [beq_eq_false_iff_ne, ne_eq, V.str.injEq]; exact hn
      have h2 : (s.name == sACDSDATA) = false := by simpa using hn
      simp only [h1, h2] at h ⊢
      exact ih h

/-! ## BLOCKS -/

/-- the entities of one block definition as `BlocksSection.load` sees them -/
def BlockDef.groups (d : BlockDef) : List (Rec × List Rec) := (d.block, []) :: d.content ++ [(d.endblk, [])]

/-- a named BLOCK … ENDBLK pair whose content holds no BLOCK / ENDBLK -/
def BlockDef.WF (bc : BlockCfg) (d : BlockDef) : Prop :=
  recType d.block = .str sBLOCK ∧ recType d.endblk = .str sENDBLK ∧ (bc.key d.block).isSome = true
    ∧ ∀ g ∈ d.content, recType g.1 ≠ .str sBLOCK ∧ recType g.1 ≠ .str sENDBLK

theorem splitBlocks_content (bc : BlockCfg) (content rest acc : List (Rec × List Rec)) (cur : Option Rec)
    (h : ∀ g ∈ content, recType g.1 ≠ .str sBLOCK ∧ recType g.1 ≠ .str sENDBLK) :
    splitBlocks bc (content ++ rest) cur acc = splitBlocks bc rest cur (acc ++ content) := by
  induction content generalizing acc with
  | nil => simp
  | cons g r ih =>
    obtain ⟨h1, h2⟩ := h g List.mem_cons_self
    have e1 : (recType g.1 == V.str sBLOCK) = false := by simpa using h1
    have e2 : (recType g.1 == V.str sENDBLK) = false := by simpa using h2
    simp only [List.cons_append, splitBlocks, e1, e2, Bool.false_eq_true, if_false]
    rw [ih (acc ++ [g]) (fun x hx => h x (List.mem_cons_of_mem _ hx))]
    simp [List.append_assoc]

/-- a BLOCKS section made of well-formed definitions is split into exactly these definitions -/
theorem splitBlocks_wf (bc : BlockCfg) (bs : List BlockDef) (h : ∀ d ∈ bs, d.WF bc) (acc : List (Rec × List Rec)) :
    splitBlocks bc (bs.flatMap BlockDef.groups) none acc = bs := by
  induction bs generalizing acc with
  | nil => rfl
  | cons d r ih =>
    obtain ⟨h1, h2, h3, h4⟩ := h d List.mem_cons_self
    have e1 : (recType d.block == V.str sBLOCK) = true := by simp [h1]
    have e2 : (recType d.endblk == V.str sBLOCK) = false := by rw [h2]; decide
    have e3 : (recType d.endblk == V.str sENDBLK) = true := by simp [h2]
    simp only [List.flatMap_cons, BlockDef.groups, List.cons_append, List.append_assoc, splitBlocks, e1, if_true]
    rw [splitBlocks_content bc d.content _ [] (some d.block) h4]
    simp only [List.nil_append, splitBlocks, e2, e3, h3, Bool.false_eq_true, if_false, if_true]
    rw [ih (fun x hx => h x (List.mem_cons_of_mem _ hx))]

/-- what `BlocksSection.export_dxf` writes for the table key `n` -/
def blockWritten (cfg : DocCfg) (bc : BlockCfg) (orphan : V → List Tag) (defs : List BlockDef) (n : V) : List Tag :=
  match defs.find? (fun d => bc.key d.block == some n) with
  | none => orphan n
  | some d => cfg.known d.block [] ++ (if bc.layoutBlock n then [] else d.content.flatMap (written cfg)) ++ cfg.known d.endblk []

theorem blocksExport_ok (cfg : DocCfg) (bc : BlockCfg) (order : List V) (orphan : V → List Tag) (defs : List BlockDef)
    (h : ∀ d ∈ defs, ∀ g ∈ d.content, isUnknown g.1 = true → entityWF cfg.alive g.1 = true) :
    blocksExport cfg bc order orphan defs = .ok (order.flatMap (blockWritten cfg bc orphan defs)) := by
  induction order with
  | nil => rfl
  | cons n ns ih =>
    simp only [blocksExport, ih, List.flatMap_cons, blockWritten]
    cases hf : defs.find? (fun d => bc.key d.block == some n) with
    | none => rfl
    | some d =>
      have hd : d ∈ defs := List.mem_of_find?_eq_some hf
      simp only
      by_cases hl : bc.layoutBlock n = true
      · simp [hl]
      · simp only [Bool.not_eq_true] at hl
        simp only [hl, Bool.false_eq_true, if_false, writeGroups_ok cfg d.content (h d hd)]

/-! ## whole file with BLOCKS -/

theorem blocksPass_ok (cfg : DocCfg) (bc : BlockCfg) (order : List V) (orphan : V → List Tag) (recs : List Rec)
    (bs : List BlockDef) (hl : linkRecs cfg recs none = .ok (bs.flatMap BlockDef.groups)) (hb : ∀ d ∈ bs, d.WF bc)
    (hwf : ∀ d ∈ bs, ∀ g ∈ d.content, isUnknown g.1 = true → entityWF cfg.alive g.1 = true) :
    blocksPass cfg bc order orphan recs = .ok (order.flatMap (blockWritten cfg bc orphan bs)) := by
  simp only [blocksPass, hl, splitBlocks_wf bc bs hb [], blocksExport_ok cfg bc order orphan bs hwf]

/-- the tags of the HEADER section of a file given as sections -/
def headerOf (secs : List Sec) : Option (List Tag) := (secs.find? (fun s => s.name == sHEADER)).map (·.extra)

theorem headerExtra_file (secs : List Sec) :
    headerExtra (secs.map (fun s => (V.str s.name, s.head :: s.body))) = headerOf secs := by
  induction secs with
  | nil => rfl
  | cons s r ih =>
    simp only [headerExtra, headerOf, List.map_cons, List.find?_cons] at ih ⊢
    by_cases hn : s.name = sHEADER
    · have h1 : (V.str s.name == V.str sHEADER) = true := by simp [hn]
      have h2 : (s.name == sHEADER) = true := by simp [hn]
      simp [h1, h2, Sec.head]
    · have h1 : (V.str s.name == V.str sHEADER) = false := by
        simp only [beq_eq_false_iff_ne, ne_eq, V.str.injEq]; exact hn
      have h2 : (s.name == sHEADER) = false := by simpa using hn
      simp only [h1, h2]
      exact ih

theorem loadSaveFile_ok (cfg : DocCfg) (bc : BlockCfg) (order : List V) (orphan : V → List Tag) (ver : Nat) (verText : V)
    (extra : List ClassE) (other : SectionPart → List Tag) (appended : List Tag) (secs : List Sec)
    (hwf : ∀ s ∈ secs, secWF s = true) (hn : (secs.map (fun s => s.name)).Nodup)
    (groups : List (V × Tag)) (hh : (headerOf secs).bind headerGroupsOf = some groups)
    (es : List StdClass) (hc : bodyOf secs sCLASSES = es.map (fun c => c.record (decide (1018 ≤ ver))))
    (hk : (es.map (fun c => (c.name, c.cpp))).Nodup)
    (hA : ∀ r ∈ bodyOf secs sACDSDATA, acdsRecWF r = true)
    (bs : List BlockDef) (hlb : linkRecs cfg (bodyOf secs sBLOCKS) none = .ok (bs.flatMap BlockDef.groups))
    (hb : ∀ d ∈ bs, d.WF bc)
    (hB : ∀ d ∈ bs, ∀ g ∈ d.content, isUnknown g.1 = true → entityWF cfg.alive g.1 = true)
    (gs : List (Rec × List Rec)) (hl : linkRecs cfg (bodyOf secs sENTITIES) none = .ok gs)
    (hE : ∀ r ∈ bodyOf secs sENTITIES, isUnknown r = true → entityWF cfg.alive r = true)
    (hO : ∀ r ∈ bodyOf secs sOBJECTS, isUnknown r = true → entityWF cfg.alive r = true) :
    loadSaveFile cfg bc order orphan ver verText extra other appended (fileOf secs) = .ok
      ((secHead sHEADER ++ headerTagsOf ver (headerPass ver verText cfg.castHeader groups) ++ [endsecTag])
        ++ (secHead sCLASSES ++ (es.flatMap (fun c => c.record (decide (1018 ≤ ver)))
              ++ classesTail (decide (1018 ≤ ver)) es extra) ++ [endsecTag])
        ++ other .tables
        ++ (secHead sBLOCKS ++ order.flatMap (blockWritten cfg bc orphan bs) ++ [endsecTag])
        ++ (secHead sENTITIES ++ ((gs.filter (fun g => !pspOf cfg g)).flatMap (written cfg)
              ++ (gs.filter (fun g => pspOf cfg g)).flatMap (written cfg)) ++ [endsecTag])
        ++ (secHead sOBJECTS ++ (((bodyOf secs sOBJECTS).filter (fun r => !cfg.skipObject r)).flatMap
              (fun r => written cfg (r, [])) ++ appended) ++ [endsecTag])
        ++ acdsWritten secs ++ (secs.filter unmanaged).flatMap Sec.tags ++ [eofTag]) := by
  have hhd : (headerExtra (secs.map (fun s => (V.str s.name, s.head :: s.body)))).bind (headerSectionPass ver verText cfg.castHeader)
      = some (secHead sHEADER ++ headerTagsOf ver (headerPass ver verText cfg.castHeader groups) ++ [endsecTag]) := by
    rw [headerExtra_file]
    cases hx : headerOf secs with
    | none => rw [hx] at hh; cases hh
    | some ex =>
      rw [hx] at hh
      simp only [Option.bind_some] at hh ⊢
      simp only [headerSectionPass, hh, secHead]
  simp only [loadSaveFile, loadStructure_file secs hwf hn, sectionBody_file, hc, hhd,
    classesPass_std_eq (decide (1018 ≤ ver)) es extra hk, acdsOf_file secs hA]
  simp only [blocksPass_ok cfg bc order orphan _ bs hlb hb hB,
    entitiesPass_ok cfg _ gs hl hE, objectsPass_ok cfg _ appended hO]
  simp [exportSections, sectionOrder, storedSections_file]

/-! ## TABLE heads -/

/-- the base-class accumulator of `collectBase` is only appended to -/
theorem collectBase_base_prefix (ts base : List Tag) (apps : List (List Tag)) (cur : Option (Tag × List Tag))
    (b r : List Tag) (a : List (List Tag)) (h : collectBase ts base apps cur = some (b, a, r)) :
    ∃ b', b = base ++ b' ∧ ∀ base2, collectBase ts base2 apps cur = some (base2 ++ b', a, r) := by
  induction ts generalizing base apps cur with
  | nil =>
    cases cur with
    | none =>
      simp only [collectBase, Option.some.injEq, Prod.mk.injEq] at h
      obtain ⟨rfl, rfl, rfl⟩ := h
      exact ⟨[], by simp, by intro b2; simp [collectBase]⟩
    | some c => simp [collectBase] at h
  | cons t ts ih =>
    cases cur with
    | some c =>
      obtain ⟨st, g⟩ := c
      simp only [collectBase] at h ⊢
      split at h
      · rename_i hcl
        obtain ⟨b', e1, e2⟩ := ih _ _ _ h
        exact ⟨b', e1, by intro b2; simp only [hcl, if_true]; exact e2 b2⟩
      · rename_i hcl
        obtain ⟨b', e1, e2⟩ := ih _ _ _ h
        exact ⟨b', e1, by intro b2; simp only [hcl]; exact e2 b2⟩
    | none =>
      simp only [collectBase] at h ⊢
      split at h
      · rename_i hs
        obtain ⟨b', e1, e2⟩ := ih _ _ _ h
        refine ⟨⟨t.code, .ref apps.length⟩ :: b', by rw [e1]; simp, ?_⟩
        intro b2
        simp only [hs, if_true]
        have := e2 (b2 ++ [(⟨t.code, .ref apps.length⟩ : Tag)])
        rw [this]
        simp
      · rename_i hs
        split at h
        · rename_i he
          simp only [Option.some.injEq, Prod.mk.injEq] at h
          obtain ⟨rfl, rfl, rfl⟩ := h
          exact ⟨[], by simp, by intro b2; simp [hs, he]⟩
        · rename_i he
          obtain ⟨b', e1, e2⟩ := ih _ _ _ h
          refine ⟨t :: b', by rw [e1]; simp, ?_⟩
          intro b2
          simp only [hs, he, Bool.false_eq_true, if_false]
          rw [e2 (b2 ++ [t])]
          simp

theorem scanHO_skip1 (hc : Nat) (n : Tag) (l : List Tag) (h o : Option V) (h1 : n.code ≠ hc) (h2 : n.code ≠ 330) :
    scanHO hc (n :: l) h o = scanHO hc l h o := by
  have e1 : (n.code == hc) = false := by simpa using h1
  have e2 : (n.code == 330) = false := by simpa using h2
  simp only [scanHO, e1, e2, Bool.false_eq_true, if_false]

/-- a plain tag behind the structure tag (the (2, name) tag of a TABLE head) does not change what `load` stores -/
theorem load_skip_plain (t0 n : Tag) (r : List Tag) (e : Ent) (h0 : t0.code = 0)
    (hn1 : isAppStart n = false) (hn2 : isEndOfClass n = false) (hc1 : n.code ≠ hcOf t0.val) (hc2 : n.code ≠ 330)
    (h : load (t0 :: r) = .ok e) : load (t0 :: n :: r) = .ok e := by
  have hs0 : isAppStart t0 = false := by simp [isAppStart, h0]
  have he0 : isEndOfClass t0 = false := by simp [isEndOfClass, isEO, h0]
  have hcases := hcOf_cases t0.val
  simp only [load, setup, collectBase, hs0, he0, hn1, hn2, Bool.false_eq_true, if_false, List.nil_append] at h ⊢
  cases hcb : collectBase r [t0] [] none with
  | none => simp [hcb] at h
  | some x =>
    obtain ⟨b, a, rest⟩ := x
    obtain ⟨b', e1, e2⟩ := collectBase_base_prefix r [t0] [] none b rest a hcb
    have hcb2 := e2 ([t0] ++ [n])
    simp only [List.cons_append, List.nil_append] at e1
    subst e1
    rw [hcb] at h
    rw [hcb2]
    simp only [List.cons_append, List.nil_append] at h ⊢
    by_cases hx : (collectGroups (fun t => t.code == 1001) (fun t => t.code == 1001)
        (collectGroups isEO (fun t => isEO t || t.code == 1001)
          (collectGroups (fun t => t.code == 100) isEndOfClass rest).2).2).2 = []
    · simp only [hx, if_true] at h ⊢
      cases hsa : setupApp a ⟨[], none, none⟩ with
      | error x => simp [hsa] at h
      | ok ad =>
        simp only [hsa] at h ⊢
        have e3 : (t0.code == hcOf t0.val) = false := by
          rw [h0]; rcases hcases with e | e <;> rw [e] <;> decide
        have e4 : (t0.code == 330) = false := by rw [h0]; decide
        have hsk := scanHO_skip1 (hcOf t0.val) n b' none none hc1 hc2
        simp only [scanHO, e3, e4, Bool.false_eq_true, if_false] at h hsk ⊢
        rw [hsk]
        exact h
    · simp [hx] at h

theorem tableName_head (t0 : Tag) (nm : V) (r : List Tag) (e : Ent) (h0 : t0.code = 0) (h : load (t0 :: r) = .ok e) :
    tableName (t0 :: ⟨2, nm⟩ :: r) = some nm := by
  have hs0 : isAppStart t0 = false := by simp [isAppStart, h0]
  have he0 : isEndOfClass t0 = false := by simp [isEndOfClass, isEO, h0]
  have hn1 : isAppStart (⟨2, nm⟩ : Tag) = false := by simp [isAppStart]
  have hn2 : isEndOfClass (⟨2, nm⟩ : Tag) = false := by simp [isEndOfClass, isEO]
  simp only [load, setup, collectBase, hs0, he0, Bool.false_eq_true, if_false, List.nil_append] at h
  simp only [tableName, collectBase, hs0, he0, hn1, hn2, Bool.false_eq_true, if_false, List.nil_append]
  cases hcb : collectBase r [t0] [] none with
  | none => simp [hcb] at h
  | some x =>
    obtain ⟨b, a, rest⟩ := x
    obtain ⟨b', e1, e2⟩ := collectBase_base_prefix r [t0] [] none b rest a hcb
    have hcb2 := e2 ([t0] ++ [⟨2, nm⟩])
    rw [hcb2]
    simp only [List.cons_append, List.nil_append]
    have : (t0.code == 2) = false := by rw [h0]; decide
    simp [List.find?, this]

/-- TABLE head: load -> export of `(0, TABLE), (2, name)` + a well-formed base class + symbol-table subclass + XDATA -/
theorem tableHead_ok (alive : V → Bool) (nm cnt : V) (r : List Tag)
    (h : entityWF alive (⟨0, .str sTABLE⟩ :: r) = true) :
    ∃ items rest e, parseItems 5 r none = some (items, rest)
      ∧ load (⟨0, .str sTABLE⟩ :: ⟨2, nm⟩ :: r) = .ok e
      ∧ tableName (⟨0, .str sTABLE⟩ :: ⟨2, nm⟩ :: r) = some nm
      ∧ (optTruthy e.handle = true →
          exportTableHead alive cnt nm e = .ok (⟨0, .str sTABLE⟩ :: ⟨2, nm⟩ :: canonItems items
            ++ [⟨100, .str sAcDbSymbolTable⟩, ⟨70, cnt⟩]
            ++ (if nm == .str dimstyleStr then [⟨100, .str sAcDbDimStyleTable⟩] else [])
            ++ (restXdata rest).flatten)) := by
  obtain ⟨t0, r', items, rest, e, re, h1, h2, h3, h4, h5, _, _, h8, _, h10, h11, h12, h13, _⟩ :=
    load_wf_parts alive _ h
  simp only [List.cons.injEq] at h1
  obtain ⟨rfl, rfl⟩ := h1
  have hhc : hcOf (V.str sTABLE) = 5 := by decide
  simp only [hhc] at h2
  have hl := load_skip_plain ⟨0, .str sTABLE⟩ ⟨2, nm⟩ r e rfl (by simp [isAppStart]) (by simp [isEndOfClass, isEO])
    (by rw [hhc]; show (2 : Nat) ≠ 5; decide) (by show (2 : Nat) ≠ 330; decide) h3
  refine ⟨items, rest, e, h2, hl, tableName_head _ nm r e rfl h3, ?_⟩
  intro hh
  obtain ⟨hv, hhv⟩ := Option.isSome_iff_exists.mp h12
  obtain ⟨ov, hov⟩ := Option.isSome_iff_exists.mp h13
  have hb : baseOrder.flatMap (basePart alive e re) = canonItems items := by
    simp only [baseOut, List.cons.injEq] at h5
    exact h5.2
  have hh' : optTruthy (some hv) = true := by rw [← hhv]; exact hh
  simp only [exportTableHead, hh', Bool.not_true, Bool.false_eq_true, if_false, h4, tableHeadOrder, List.flatMap_cons,
    List.flatMap_nil, List.append_nil, h8, ← hb, baseOrder, basePart, h10, hhc, hhv, hov, Option.getD_some,
    subclassMarker, structureMarker]
  simp [List.append_assoc]

/-! ## the layout of an unknown entity in terms of its input tags -/

theorem paperFlag_skip (s : List Tag) (rest : List (List Tag)) (h : isAcDbEntitySub s = false) :
    paperFlag (s :: rest) = paperFlag rest := by
  simp only [paperFlag, List.find?_cons, h]

theorem unknownPsp_spec (cfg : DocCfg) (r : Rec) (h : entityWF cfg.alive r = true) (hty : recType r ≠ .str sAcDbEntity) :
    ∃ t0 tl items rest, r = t0 :: tl ∧ parseItems (hcOf t0.val) tl none = some (items, rest)
      ∧ unknownPsp cfg r = (if oOf items == some cfg.msp then false else if oOf items == some cfg.psp then true
          else paperFlag (collectGroups (fun t => t.code == 100) isEndOfClass rest).1) := by
  obtain ⟨t0, tl, items, rest, e, re, h1, h2, h3, _, _, h6, _, _, _, h10, _, _, _, h14⟩ := load_wf_parts cfg.alive r h
  obtain ⟨x, t0', base, hx, hsub, htyp⟩ := load_setup r e h3
  refine ⟨t0, tl, items, rest, h1, h2, ?_⟩
  have hne : isAcDbEntitySub (t0' :: base) = false := by
    simp only [isAcDbEntitySub]
    rw [← htyp, h10]
    subst h1
    simpa [recType] using hty
  have hpf := paperFlag_skip (t0' :: base) e.subs hne
  rw [h6] at hpf
  simp only [unknownPsp, h3, hx, hsub, h14, h6, hpf]

/-! ## DICTIONARY entries -/

/-- the entries of a dictionary as (3, name), (350 | 360, handle) pairs -/
def entryTags (c : Nat) (es : List (V × V)) : List Tag := es.flatMap (fun p => [⟨3, p.1⟩, ⟨c, p.2⟩])

theorem dictFold_entries (c : Nat) (hc : c = 350 ∨ c = 360) (es d : List (V × V)) (c0 : Nat)
    (hk : (d.map (·.1) ++ es.map (·.1)).Nodup) :
    (entryTags c es).foldl dictStep ⟨d, none, none, c0⟩ = ⟨d ++ es, none, none, if es = [] then c0 else c⟩ := by
  induction es generalizing d c0 with
  | nil => simp [entryTags]
  | cons p r ih =>
    have hfresh : p.1 ∉ d.map (·.1) := by
      intro hm
      rw [List.nodup_append] at hk
      exact hk.2.2 _ hm _ (by simp) rfl
    have ec : (c == 350 || c == 360) = true := by rcases hc with rfl | rfl <;> decide
    simp only [entryTags, List.flatMap_cons, List.cons_append, List.nil_append, List.foldl_cons]
    have s1 : dictStep ⟨d, none, none, c0⟩ ⟨3, p.1⟩ = ⟨d, none, some p.1, c0⟩ := by
      simp [dictStep]
    have s2 : dictStep ⟨d, none, some p.1, c0⟩ ⟨c, p.2⟩ = ⟨d ++ [(p.1, p.2)], none, none, c⟩ := by
      simp only [dictStep, ec, if_true, dictSet_fresh d p.1 p.2 hfresh]
    rw [s1, s2]
    have := ih (d ++ [(p.1, p.2)]) c (by simpa [List.append_assoc] using hk)
    simp only [entryTags] at this
    rw [this]
    simp

theorem dictionary_entries_ok (c : Nat) (hc : c = 350 ∨ c = 360) (es : List (V × V)) (pre : List Tag)
    (hpre : ∀ t ∈ pre, t.code = 280 ∨ t.code = 281) (hk : (es.map (·.1)).Nodup) :
    dictExport (dictLoad (pre ++ entryTags c es)) = entryTags c es := by
  have hf1 : pre.filter (fun t => t.code != 280 && t.code != 281) = [] := by
    rw [List.filter_eq_nil_iff]
    intro t ht'
    rcases hpre t ht' with e | e <;> simp [e]
  have hf2 : (entryTags c es).filter (fun t => t.code != 280 && t.code != 281) = entryTags c es := by
    rw [List.filter_eq_self]
    intro t ht'
    simp only [entryTags, List.mem_flatMap] at ht'
    obtain ⟨p, _, hp⟩ := ht'
    simp only [List.mem_cons, List.not_mem_nil, or_false] at hp
    rcases hp with rfl | rfl
    · rfl
    · rcases hc with rfl | rfl <;> rfl
  simp only [dictLoad, List.filter_append, hf1, hf2, List.nil_append]
  rw [dictFold_entries c hc es [] 350 (by simpa using hk)]
  cases es with
  | nil => rfl
  | cons p r => simp [dictExport, entryTags]

/-! ## example inputs (non-vacuity checks and counterexamples of Props/C02.lean) -/
namespace Ex
open EzdxfVerif.Storage.Ex

def S (s : String) : V := .str (s.toList.map Char.toNat)

/-- identity writer for implemented records; the layouts *Model_Space = 1F, *Paper_Space = 20 -/
def exCfg : DocCfg :=
  { alive := allAlive
    known := fun r ch => r ++ ch.flatten
    knownPsp := fun r => r.any (fun t => t.code == 67 && t.val == S "1")
    attribsFollow := fun r => r.any (fun t => t.code == 66 && t.val != S "0")
    msp := S "1F", psp := S "20"
    skipObject := fun _ => false
    castHeader := fun _ t => some t.val }

def insertRec : Rec := [T 0 "INSERT", T 5 "B1", T 330 "1F", T 66 "1", T 2 "BLK"]
def attribRec : Rec := [T 0 "ATTRIB", T 5 "B2", T 330 "B1", T 1 "text"]
def seqendRec : Rec := [T 0 "SEQEND", T 5 "B3", T 330 "B1"]
def polylineRec : Rec := [T 0 "POLYLINE", T 5 "B4", T 330 "1F", T 66 "1"]
def lineRec : Rec := [T 0 "LINE", T 5 "B5", T 330 "1F", T 8 "0"]
/-- an unknown entity in the active paperspace -/
def pspWidget : Rec := [T 0 "FOO", T 5 "A1", T 330 "20", T 100 "AcDbEntity", T 67 "1", T 8 "0", T 1001 "ACAD", T 1004 "DEADBEEF"]
/-- an unknown entity whose owner is neither layout: the paperspace flag decides -/
def flagWidget : Rec := [T 0 "FOO", T 5 "A2", T 330 "77", T 100 "AcDbEntity", T 67 "1", T 8 "0"]

def exEntities : List Rec := [widget, insertRec, attribRec, seqendRec, pspWidget, lineRec, flagWidget]
def exEntitiesOut : List Tag := widget ++ insertRec ++ attribRec ++ seqendRec ++ lineRec ++ pspWidget ++ flagWidget

def dictRec : Rec := [T 0 "DICTIONARY", T 5 "C"]

def exStdClass : StdClass := ⟨S "ACME", S "AcmeThing", S "AcmeApp", S "1153", S "3", S "0", S "1"⟩

def acdsHead : Rec := [T 0 "SECTION", T 2 "ACDSDATA", T 70 "2", T 71 "2"]
def acdsSchema : Rec := [T 0 "ACDSSCHEMA", T 90 "0", T 1 "AcDb3DSolid_ASM_Data"]
def acdsRecord : Rec :=
  [T 0 "ACDSRECORD", T 90 "0", T 2 "AcDbDs::ID", T 280 "10", T 320 "2A", T 2 "ASM_Data", T 280 "15", T 94 "4", T 310 "DEADBEEF"]
def acdsStray : Rec := [T 0 "ACDSRECORD", T 90 "0", T 91 "5", T 2 "AcDbDs::ID", T 280 "10", T 320 "2A"]
def acdsStrayOut : List Tag := [T 0 "ACDSRECORD", T 90 "0", T 2 "AcDbDs::ID", T 280 "10", T 320 "2A"]

def exBc : BlockCfg :=
  { key := fun r => (r.find? (fun t => t.code == 2)).map (·.val)
    layoutBlock := fun n => n == S "*Model_Space" || n == S "*Paper_Space" }
def blockRec (name h : String) : Rec := [T 0 "BLOCK", T 5 h, T 2 name]
def endblkRec (h : String) : Rec := [T 0 "ENDBLK", T 5 h]
/-- two block definitions: FB with an unknown entity, an INSERT with its ATTRIB and a LINE; an empty *Model_Space -/
def exBlocks : List Rec :=
  [blockRec "*Model_Space" "20", endblkRec "21", blockRec "FB" "30", widget, insertRec, attribRec, seqendRec, lineRec, endblkRec "31"]
def exBlocksOut : List Tag :=
  blockRec "FB" "30" ++ widget ++ insertRec ++ attribRec ++ seqendRec ++ lineRec ++ endblkRec "31"
    ++ blockRec "*Model_Space" "20" ++ endblkRec "21" ++ [T 0 "ORPHAN", T 2 "X"]
/-- an entity outside BLOCK … ENDBLK and the content of a BLOCK without ENDBLK are ignored by `BlocksSection.load` -/
def strayBlocks : List Rec := [blockRec "A" "40", endblkRec "41", flagWidget, blockRec "B" "42", pspWidget, blockRec "C" "44", endblkRec "45"]
def strayBlocksOut : List Tag := blockRec "A" "40" ++ endblkRec "41" ++ blockRec "C" "44" ++ endblkRec "45"

def exFile : List Rec :=
  fileOf [⟨"HEADER".toList.map Char.toNat, [T 9 "$CUSTOMPROPERTYTAG", T 1 "Author", T 9 "$ACADVER", T 1 "AC1015", T 9 "$ACMEVAR", T 70 "1",
            T 9 "$CUSTOMPROPERTY", T 1 "me"], []⟩,
          ⟨"FOO".toList.map Char.toNat, [], [[T 0 "BAR", T 1 "payload"]]⟩,
          ⟨sCLASSES, [], [exStdClass.record true]⟩,
          ⟨sBLOCKS, [], exBlocks⟩,
          ⟨sENTITIES, [], exEntities⟩,
          ⟨sOBJECTS, [], [dictRec, widget]⟩,
          ⟨sACDSDATA, [T 70 "2", T 71 "2"], [acdsSchema, acdsRecord]⟩]
def exFileOut : List Tag :=
  secHead sHEADER ++ [T 9 "$ACADVER", T 1 "AC1024", T 9 "$CUSTOMPROPERTYTAG", T 1 "Author", T 9 "$CUSTOMPROPERTY", T 1 "me"] ++ [endsecTag]
    ++ secHead sCLASSES ++ exStdClass.record true ++ [endsecTag] ++ secHead sBLOCKS ++ exBlocksOut ++ [endsecTag] ++ secHead sENTITIES ++ exEntitiesOut ++ [endsecTag] ++ secHead sOBJECTS ++ dictRec ++ widget ++ [endsecTag]
    ++ acdsHead ++ acdsSchema ++ acdsRecord ++ [endsecTag]
    ++ [T 0 "SECTION", T 2 "FOO", T 0 "BAR", T 1 "payload", endsecTag, eofTag]


/-- the value conversion of the examples: the text "bad" cannot be converted -/
def exCast : Nat → Tag → Option V := fun _ t => if t.val == S "bad" then none else some t.val

def exHeader : List (V × Tag) :=
  [(S "$ACADVER", T 1 "AC1015"), (S "$ACMEVAR", T 70 "1"), (S "$CUSTOMPROPERTYTAG", T 1 "K"), (S "$CUSTOMPROPERTY", T 1 "v"),
   (S "$HANDSEED", T 5 "FF"), (S "$DWGCODEPAGE", T 3 "ANSI_1252"), (S "$FINGERPRINTGUID", T 2 "{x}"),
   (S "$LTSCALE", T 1 "2.5"), (S "$ORTHOMODE", T 1 "bad")]

def exHeaderOut2000 : List (V × V) :=
  [(S "$ACADVER", S "AC1015"), (S "$DWGCODEPAGE", S "ANSI_1252"), (S "$LTSCALE", S "2.5"), (S "$HANDSEED", S "FF"),
   (S "$FINGERPRINTGUID", S "{x}")]
def exHeaderOut2010 : List (V × V) :=
  [(S "$ACADVER", S "AC1024"), (S "$DWGCODEPAGE", S "ANSI_1252"), (S "$LTSCALE", S "2.5"), (S "$HANDSEED", S "FF"),
   (S "$FINGERPRINTGUID", S "{x}"), (S "$CUSTOMPROPERTYTAG", S "K"), (S "$CUSTOMPROPERTY", S "v")]

/-- an XRECORD with a (100, …) tag inside its payload and XDATA -/
def exXRecord : List Tag :=
  [T 0 "XRECORD", T 5 "AB", T 102 "{ACAD_REACTORS", T 330 "1A", T 102 "}", T 330 "1A", T 100 "AcDbXrecord", T 280 "1", T 1 "before",
   T 100 "AnyString", T 1 "after", T 310 "CAFE", T 1001 "ACAD", T 1000 "x"]

/-- the base class and XDATA of a TABLE head behind (0, TABLE), (2, LAYER) -/
def exTableRest : List Tag :=
  [T 5 "2", T 102 "{ACME", T 1 "x", T 102 "}", T 102 "{ACAD_REACTORS", T 330 "A", T 102 "}", T 330 "0", T 100 "AcDbSymbolTable",
   T 70 "7", T 1001 "ACAD", T 1000 "kept"]
def exTableOut : List Tag :=
  [T 0 "TABLE", T 2 "LAYER", T 5 "2", T 102 "{ACME", T 1 "x", T 102 "}", T 102 "{ACAD_REACTORS", T 330 "A", T 102 "}", T 330 "0",
   T 100 "AcDbSymbolTable", T 70 "3", T 1001 "ACAD", T 1000 "kept"]

def proxyThree : List Tag :=
  [T 0 "ACAD_PROXY_ENTITY", T 5 "A", T 330 "B", T 100 "AcDbEntity", T 8 "0", T 100 "AcDbProxyEntity", T 90 "498", T 310 "CAFE",
   T 100 "AcDbLater", T 1 "third"]
def proxyThreeOut : List Tag :=
  [T 0 "ACAD_PROXY_ENTITY", T 5 "A", T 330 "B", T 100 "AcDbEntity", T 8 "0", T 100 "AcDbProxyEntity", T 90 "498", T 310 "CAFE"]

end Ex

end EzdxfVerif.StorageDoc

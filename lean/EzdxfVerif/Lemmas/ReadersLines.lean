/-
C08  lemmas for Model/ReadersLines.lean: every line splitter of the readers returns the written tags, for LF, CRLF and
mixed line ends, for lines of any length.
-/
import EzdxfVerif.Model.ReadersLines

namespace EzdxfVerif.Readers

/-! ## `split("\n")` / `readline()` -/

theorem splitLF_ne_nil (s : Bytes) : splitLF s ≠ [] := by
  induction s with
  | nil => simp [splitLF]
  | cons c r ih =>
    simp only [splitLF]
    split
    · simp
    · split
      · rename_i h; exact absurd h ih
      · simp

theorem splitLF_line (l rest : Bytes) (h : ∀ c ∈ l, c ≠ 10) : splitLF (l ++ 10 :: rest) = l :: splitLF rest := by
  induction l with
  | nil => simp [splitLF]
  | cons c r ih =>
    have hc := h c (by simp)
    have ihr := ih (fun x hx => h x (by simp [hx]))
    simp only [List.cons_append, splitLF, hc, if_false, ihr]

theorem readLines_line (l rest : Bytes) (h : ∀ c ∈ l, c ≠ 10) : readLines (l ++ 10 :: rest) = l :: readLines rest := by
  unfold readLines
  rw [splitLF_line l rest h]
  have hne := splitLF_ne_nil rest
  cases hq : splitLF rest with
  | nil => exact absurd hq hne
  | cons q qs =>
    simp only [List.getLast?_cons_cons]
    by_cases hl : (q :: qs).getLast? = some []
    · simp [hl, List.dropLast]
    · simp [hl]

theorem readLines_nil : readLines [] = [] := by simp [readLines, splitLF]

/-! ## newline translations on clean data -/

def noCR (l : Bytes) : Prop := ∀ c ∈ l, c ≠ 13

theorem uniNewlines_lf (r : Bytes) : uniNewlines (10 :: r) = 10 :: uniNewlines r := by
  cases r with
  | nil => simp [uniNewlines]
  | cons d r2 => simp [uniNewlines]

theorem uniNewlines_crlf (r : Bytes) : uniNewlines (13 :: 10 :: r) = 10 :: uniNewlines r := by
  simp [uniNewlines]

theorem uniNewlines_clean (a x : Bytes) (ha : noCR a) (hx : x ≠ []) : uniNewlines (a ++ x) = a ++ uniNewlines x := by
  induction a with
  | nil => rfl
  | cons c r ih =>
    have hc := ha c (by simp)
    have ihr := ih (fun y hy => ha y (by simp [hy]))
    cases hrx : r ++ x with
    | nil => exact absurd (List.append_eq_nil_iff.mp hrx).2 hx
    | cons d t =>
      rw [List.cons_append, hrx, uniNewlines]
      simp only [hc, if_false]
      rw [← hrx, ihr]
      rfl

theorem replaceCRLF_lf (r : Bytes) : replaceCRLF (10 :: r) = 10 :: replaceCRLF r := by
  cases r with
  | nil => simp [replaceCRLF]
  | cons d r2 => simp [replaceCRLF]

theorem replaceCRLF_crlf (r : Bytes) : replaceCRLF (13 :: 10 :: r) = 10 :: replaceCRLF r := by
  simp [replaceCRLF]

theorem replaceCRLF_clean (a x : Bytes) (ha : noCR a) (hx : x ≠ []) : replaceCRLF (a ++ x) = a ++ replaceCRLF x := by
  induction a with
  | nil => rfl
  | cons c r ih =>
    have hc := ha c (by simp)
    have ihr := ih (fun y hy => ha y (by simp [hy]))
    cases hrx : r ++ x with
    | nil => exact absurd (List.append_eq_nil_iff.mp hrx).2 hx
    | cons d t =>
      rw [List.cons_append, hrx, replaceCRLF]
      simp only [hc, false_and, if_false]
      rw [← hrx, ihr]
      rfl

/-! ## `rstrip(b"\r\n")` -/

theorem rstripCRLF_clean (v : Bytes) (h : ∀ c ∈ v, c ≠ 10 ∧ c ≠ 13) : rstripCRLF v = v := by
  unfold rstripCRLF
  cases hr : v.reverse with
  | nil => simp [List.reverse_eq_nil_iff.mp hr]
  | cons c t =>
    have hc : c ∈ v := by
      have : c ∈ v.reverse := by rw [hr]; simp
      simpa using this
    have := h c hc
    simp only [List.dropWhile, this.1, this.2, or_self, decide_false]
    rw [← hr, List.reverse_reverse]

theorem rstripCRLF_cr (v : Bytes) (h : ∀ c ∈ v, c ≠ 10 ∧ c ≠ 13) : rstripCRLF (v ++ [13]) = v := by
  have := rstripCRLF_clean v h
  unfold rstripCRLF at this ⊢
  simp only [List.reverse_append, List.reverse_cons, List.reverse_nil, List.nil_append, List.singleton_append,
    List.dropWhile, true_or, decide_true]
  exact this

/-! ## the written stream -/

/-- what the line level needs of the group code lines of the writer: no line break characters, `int()` reads the code
    back, with or without a trailing CR -/
def fmtOK (c : Nat) : Bool :=
  (fmtCode c).all (fun x => x != 10 && x != 13) && pyInt (fmtCode c) == some c && pyInt (fmtCode c ++ [13]) == some c

/-- `"%3d"` is read back by `int()` for every group code a DXF file may contain (0 ‥ 1071), checked exhaustively -/
theorem fmtOK_all : (List.range 1072).all fmtOK = true := by decide +kernel

theorem fmtOK_of_le (c : Nat) (h : c ≤ 1071) : fmtOK c = true := by
  have := List.all_eq_true.mp fmtOK_all c (by simp; omega)
  exact this

/-- the tags without their line end flags -/
def rawTags (ts : List (RawTag × Bool)) : List RawTag := ts.map (·.1)

def tagsClean (ts : List (RawTag × Bool)) : Prop := ∀ p ∈ ts, p.1.code ≤ 1071 ∧ valOK p.1.val = true

theorem valOK_iff (v : Bytes) : valOK v = true ↔ ∀ c ∈ v, c ≠ 10 ∧ c ≠ 13 := by
  simp [valOK, List.all_eq_true]

/-- the same tags written with `\n` only -/
def lfOnly (ts : List (RawTag × Bool)) : List (RawTag × Bool) := ts.map (fun p => (p.1, false))

theorem fmt_facts (c : Nat) (h : c ≤ 1071) :
    (∀ x ∈ fmtCode c, x ≠ 10 ∧ x ≠ 13) ∧ pyInt (fmtCode c) = some c ∧ pyInt (fmtCode c ++ [13]) = some c := by
  have := fmtOK_of_le c h
  simp only [fmtOK, Bool.and_eq_true, List.all_eq_true, bne_iff_ne, beq_iff_eq] at this
  exact ⟨fun x hx => this.1.1 x hx, this.1.2, this.2⟩

theorem uni_line (a rest : Bytes) (crlf : Bool) (ha : noCR a) :
    uniNewlines (a ++ (eolOf crlf ++ rest)) = a ++ (10 :: uniNewlines rest) := by
  cases crlf with
  | false =>
    rw [uniNewlines_clean _ _ ha (by simp [eolOf])]
    simp only [eolOf, Bool.false_eq_true, if_false, List.singleton_append]
    rw [uniNewlines_lf]
  | true =>
    rw [uniNewlines_clean _ _ ha (by simp [eolOf])]
    simp only [eolOf, if_true, List.cons_append, List.nil_append]
    rw [uniNewlines_crlf]

theorem rep_line (a rest : Bytes) (crlf : Bool) (ha : noCR a) :
    replaceCRLF (a ++ (eolOf crlf ++ rest)) = a ++ (10 :: replaceCRLF rest) := by
  cases crlf with
  | false =>
    rw [replaceCRLF_clean _ _ ha (by simp [eolOf])]
    simp only [eolOf, Bool.false_eq_true, if_false, List.singleton_append]
    rw [replaceCRLF_lf]
  | true =>
    rw [replaceCRLF_clean _ _ ha (by simp [eolOf])]
    simp only [eolOf, if_true, List.cons_append, List.nil_append]
    rw [replaceCRLF_crlf]

theorem renderLines_cons (t : RawTag) (crlf : Bool) (r : List (RawTag × Bool)) :
    renderLines ((t, crlf) :: r) = fmtCode t.code ++ (eolOf crlf ++ (t.val ++ (eolOf crlf ++ renderLines r))) := by
  simp [renderLines, List.append_assoc]

theorem renderLines_lf_cons (t : RawTag) (crlf : Bool) (r : List (RawTag × Bool)) :
    renderLines (lfOnly ((t, crlf) :: r)) = fmtCode t.code ++ (10 :: (t.val ++ (10 :: renderLines (lfOnly r)))) := by
  simp [renderLines, lfOnly, eolOf, List.append_assoc]

/-- universal newlines turn the written stream into its `\n`-only form -/
theorem uniNewlines_render (ts : List (RawTag × Bool)) (h : tagsClean ts) :
    uniNewlines (renderLines ts) = renderLines (lfOnly ts) := by
  induction ts with
  | nil => simp [renderLines, lfOnly, uniNewlines]
  | cons p r ih =>
    obtain ⟨t, crlf⟩ := p
    obtain ⟨hc, hv⟩ := h (t, crlf) (by simp)
    have ihr := ih (fun q hq => h q (by simp [hq]))
    obtain ⟨hf, _, _⟩ := fmt_facts t.code hc
    have hv' := (valOK_iff t.val).mp hv
    have h1 : noCR (fmtCode t.code) := fun x hx => (hf x hx).2
    have h2 : noCR t.val := fun x hx => (hv' x hx).2
    rw [renderLines_cons, renderLines_lf_cons, uni_line _ _ _ h1, uni_line _ _ _ h2, ihr]

theorem replaceCRLF_render (ts : List (RawTag × Bool)) (h : tagsClean ts) :
    replaceCRLF (renderLines ts) = renderLines (lfOnly ts) := by
  induction ts with
  | nil => simp [renderLines, lfOnly, replaceCRLF]
  | cons p r ih =>
    obtain ⟨t, crlf⟩ := p
    obtain ⟨hc, hv⟩ := h (t, crlf) (by simp)
    have ihr := ih (fun q hq => h q (by simp [hq]))
    obtain ⟨hf, _, _⟩ := fmt_facts t.code hc
    have hv' := (valOK_iff t.val).mp hv
    have h1 : noCR (fmtCode t.code) := fun x hx => (hf x hx).2
    have h2 : noCR t.val := fun x hx => (hv' x hx).2
    rw [renderLines_cons, renderLines_lf_cons, rep_line _ _ _ h1, rep_line _ _ _ h2, ihr]

/-- the `\n`-only stream read line by line, values taken as they are -/
theorem pair_lf (parse : Bytes → Option Nat) (keep : Bool) (ts : List (RawTag × Bool)) (h : tagsClean ts)
    (hp : ∀ l n, pyInt l = some n → parse l = some n) :
    pairLinesWith parse id keep (readLines (renderLines (lfOnly ts))) = .ok (rawTags ts) := by
  induction ts with
  | nil => simp [renderLines, lfOnly, readLines_nil, pairLinesWith, rawTags]
  | cons p r ih =>
    obtain ⟨t, crlf⟩ := p
    obtain ⟨hc, hv⟩ := h (t, crlf) (by simp)
    have ihr := ih (fun q hq => h q (by simp [hq]))
    obtain ⟨hf, hi, _⟩ := fmt_facts t.code hc
    have hv' := (valOK_iff t.val).mp hv
    rw [renderLines_lf_cons, readLines_line _ _ (fun x hx => (hf x hx).1), readLines_line _ _ (fun x hx => (hv' x hx).1)]
    simp only [pairLinesWith, hp _ _ hi, ihr]
    simp [rawTags]

/-- the stream as written (LF / CRLF per tag) read by the binary-mode loaders -/
theorem pair_bin (parse : Bytes → Option Nat) (keep : Bool) (ts : List (RawTag × Bool)) (h : tagsClean ts)
    (hp : ∀ l n, pyInt l = some n → parse l = some n) :
    pairLinesWith parse rstripCRLF keep (readLines (renderLines ts)) = .ok (rawTags ts) := by
  induction ts with
  | nil => simp [renderLines, readLines_nil, pairLinesWith, rawTags]
  | cons p r ih =>
    obtain ⟨t, crlf⟩ := p
    obtain ⟨hc, hv⟩ := h (t, crlf) (by simp)
    have ihr := ih (fun q hq => h q (by simp [hq]))
    obtain ⟨hf, hi, hi13⟩ := fmt_facts t.code hc
    have hv' := (valOK_iff t.val).mp hv
    cases crlf with
    | false =>
      have e0 : renderLines ((t, false) :: r) = fmtCode t.code ++ 10 :: (t.val ++ 10 :: renderLines r) := by
        simp [renderLines, eolOf]
      rw [e0, readLines_line _ _ (fun x hx => (hf x hx).1), readLines_line _ _ (fun x hx => (hv' x hx).1)]
      simp only [pairLinesWith, hp _ _ hi, ihr, rstripCRLF_clean _ hv']
      simp [rawTags]
    | true =>
      have e1 : renderLines ((t, true) :: r) = (fmtCode t.code ++ [13]) ++ 10 :: ((t.val ++ [13]) ++ 10 :: renderLines r) := by
        simp [renderLines, eolOf]
      rw [e1, readLines_line _ _ (by
        intro x hx
        simp only [List.mem_append, List.mem_singleton] at hx
        rcases hx with hx | rfl
        · exact (hf x hx).1
        · decide), readLines_line _ _ (by
        intro x hx
        simp only [List.mem_append, List.mem_singleton] at hx
        rcases hx with hx | rfl
        · exact (hv' x hx).1
        · decide)]
      simp only [pairLinesWith, hp _ _ hi13, ihr, rstripCRLF_cr _ hv']
      simp [rawTags]

theorem lenient_of_pyInt (l : Bytes) (n : Nat) (h : pyInt l = some n) : pyIntLenient l = some n := by
  simp [pyIntLenient, h]

/-- DESIGN C08 line level: all five line splitters return exactly the written tags, for every tag list (values of any
    length without line breaks, group codes 0‥1071) and every choice of `\n` / `\r\n` per tag -/
theorem lines_agree_all (ts : List (RawTag × Bool)) (h : tagsClean ts) :
    tagsText (renderLines ts) = .ok (rawTags ts) ∧ tagsBin (renderLines ts) = .ok (rawTags ts) ∧
    tagsBytesLoader (renderLines ts) = .ok (rawTags ts) ∧
    tagsBinTagger (renderLines ts) = .ok (rawTags ts) ∧ tagsChunk (renderLines ts) = .ok (rawTags ts) := by
  refine ⟨?_, pair_bin pyInt false ts h (fun _ _ h => h), pair_bin pyIntLenient false ts h lenient_of_pyInt,
    pair_bin pyInt true ts h (fun _ _ h => h), ?_⟩
  · unfold tagsText; rw [uniNewlines_render ts h]; exact pair_lf pyInt false ts h (fun _ _ h => h)
  · unfold tagsChunk; rw [replaceCRLF_render ts h]; exact pair_lf pyInt false ts h (fun _ _ h => h)

/-! ## file locations: the chunk between two indexed tags is the rendering of the tags in between -/

theorem renderLines_append (a b : List (RawTag × Bool)) : renderLines (a ++ b) = renderLines a ++ renderLines b := by
  induction a with
  | nil => rfl
  | cons p r ih =>
    obtain ⟨t, crlf⟩ := p
    simp only [List.cons_append, renderLines, ih, List.append_assoc]

/-- `IterDXF.load_entities` reads exactly the bytes of the entity: for every file `a ++ g ++ b` (tags in front, the tags of
    one entity, tags behind; any line ends), the chunk between the fileindex location of the entity's first tag and the
    location of the next indexed tag is the rendering of `g`, and `to_str` + `internal_tag_compiler` turn it back into
    the tags of `g` - no byte of a neighbour, none of its own missing -/
theorem chunk_is_group (a g b : List (RawTag × Bool)) (hg : tagsClean g) :
    readChunk (renderLines (a ++ g ++ b)) (locationOf (a ++ g ++ b) a.length) (locationOf (a ++ g ++ b) (a.length + g.length))
      = renderLines g ∧
    tagsChunk (readChunk (renderLines (a ++ g ++ b)) (locationOf (a ++ g ++ b) a.length)
      (locationOf (a ++ g ++ b) (a.length + g.length))) = .ok (rawTags g) := by
  have h1 : locationOf (a ++ g ++ b) a.length = (renderLines a).length := by
    unfold locationOf
    rw [List.append_assoc, List.take_left' rfl]
  have h2 : locationOf (a ++ g ++ b) (a.length + g.length) = (renderLines a).length + (renderLines g).length := by
    unfold locationOf
    rw [List.take_left' (by simp), renderLines_append, List.length_append]
  have hchunk : readChunk (renderLines (a ++ g ++ b)) (locationOf (a ++ g ++ b) a.length)
      (locationOf (a ++ g ++ b) (a.length + g.length)) = renderLines g := by
    rw [h1, h2]
    unfold readChunk
    rw [renderLines_append, renderLines_append, List.append_assoc, List.drop_left' rfl]
    have : (renderLines a).length + (renderLines g).length - (renderLines a).length = (renderLines g).length := by omega
    rw [this, List.take_left' rfl]
  refine ⟨hchunk, ?_⟩
  rw [hchunk]
  exact (lines_agree_all g hg).2.2.2.2

/-! ## the iterdxf exporter at byte level -/

theorem take_location (a rest : List (RawTag × Bool)) :
    (renderLines (a ++ rest)).take (locationOf (a ++ rest) a.length) = renderLines a := by
  unfold locationOf
  rw [List.take_left' rfl, renderLines_append, List.take_left' rfl]

theorem tagsClean_append (a b : List (RawTag × Bool)) (ha : tagsClean a) (hb : tagsClean b) : tagsClean (a ++ b) := by
  intro p hp
  rcases List.mem_append.mp hp with hp | hp
  · exact ha p hp
  · exact hb p hp

/-- the exported file, for a source `a ++ m ++ o ++ z` (`a`: everything in front of the first entity, `m`: the entities
    and the rest up to the OBJECTS section, `o`: the OBJECTS section, `z`: what follows): its bytes are the rendering of
    `a`, the written entities with `\n`, `ENDSEC` with `\r\n`, `o` as it stands, `EOF` with `\r\n` -/
theorem exportBytes_eq (a m o z : List (RawTag × Bool)) (written : List RawTag) :
    exportBytes (a ++ m ++ o ++ z) a.length written (some ((a ++ m).length, o.length)) =
      renderLines (a ++ written.map (fun t => (t, false)) ++ [(⟨0, [69, 78, 68, 83, 69, 67]⟩, true)] ++ o
        ++ [(⟨0, [69, 79, 70]⟩, true)]) := by
  unfold exportBytes
  have h1 : (renderLines (a ++ m ++ o ++ z)).take (locationOf (a ++ m ++ o ++ z) a.length) = renderLines a := by
    have := take_location a (m ++ o ++ z)
    simpa [List.append_assoc] using this
  have h2 : readChunk (renderLines (a ++ m ++ o ++ z)) (locationOf (a ++ m ++ o ++ z) (a ++ m).length)
      (locationOf (a ++ m ++ o ++ z) ((a ++ m).length + o.length)) = renderLines o := by
    have hl1 : locationOf (a ++ m ++ o ++ z) (a ++ m).length = (renderLines (a ++ m)).length := by
      unfold locationOf
      rw [List.append_assoc (a ++ m), List.take_left' rfl]
    have hl2 : locationOf (a ++ m ++ o ++ z) ((a ++ m).length + o.length)
        = (renderLines (a ++ m)).length + (renderLines o).length := by
      unfold locationOf
      rw [List.take_left' (by simp; omega), renderLines_append, List.length_append]
    rw [hl1, hl2]
    unfold readChunk
    rw [List.append_assoc (a ++ m), renderLines_append (a ++ m), renderLines_append o, List.drop_left' rfl]
    have : (renderLines (a ++ m)).length + (renderLines o).length - (renderLines (a ++ m)).length = (renderLines o).length := by
      omega
    rw [this, List.take_left' rfl]
  rw [h1]
  simp only [h2]
  simp only [renderLines_append, List.append_assoc]

theorem exportBytes_r12 (a z : List (RawTag × Bool)) (written : List RawTag) :
    exportBytes (a ++ z) a.length written none =
      renderLines (a ++ written.map (fun t => (t, false)) ++ [(⟨0, [69, 78, 68, 83, 69, 67]⟩, true)]
        ++ [(⟨0, [69, 79, 70]⟩, true)]) := by
  unfold exportBytes
  rw [take_location a z]
  simp only [renderLines_append, List.append_assoc, List.append_nil]

end EzdxfVerif.Readers

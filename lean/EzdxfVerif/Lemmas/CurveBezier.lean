/-
Helper lemmas for C13 (not counted): de Casteljau subdivision of Bernstein sums of ANY degree, in sequence form
(`bz n g x = Σ_{i≤n} B_{i,n}(x) g_i`), and the list plumbing to `splitBezier` of `Model/Curve.lean`.
-/
import EzdxfVerif.Lemmas.CurveInsert

namespace EzdxfVerif.Lemmas.Curve
open EzdxfVerif.Curve

theorem wsum_add_mul (a b : Rat) : ∀ (n : Nat) (f h : Nat → Rat),
    wsum n (fun i => a * f i + b * h i) = a * wsum n f + b * wsum n h
  | 0, _, _ => by simp [wsum]
  | n + 1, f, h => by simp only [wsum, wsum_add_mul a b n f h]; ring

theorem choose_zero_of_lt : ∀ (n k : Nat), n < k → choose n k = 0
  | _, 0, h => by omega
  | 0, _ + 1, _ => rfl
  | n + 1, k + 1, h => by
    simp [choose, choose_zero_of_lt n k (by omega), choose_zero_of_lt n (k + 1) (by omega)]

theorem choose_zero_right : ∀ n : Nat, choose n 0 = 1
  | 0 => rfl
  | _ + 1 => rfl

theorem bernstein_zero_succ (n : Nat) (x : Rat) : bernstein (n + 1) 0 x = (1 - x) * bernstein n 0 x := by
  simp only [bernstein, choose_zero_right, Nat.sub_zero, pow_zero, pow_succ]; ring

theorem bernstein_succ_succ (n i : Nat) (x : Rat) :
    bernstein (n + 1) (i + 1) x = (1 - x) * bernstein n (i + 1) x + x * bernstein n i x := by
  simp only [bernstein]
  have hc : choose (n + 1) (i + 1) = choose n i + choose n (i + 1) := rfl
  rw [hc, Nat.add_sub_add_right]
  by_cases h : i + 1 ≤ n
  · have e : n - i = (n - (i + 1)) + 1 := by omega
    rw [e]; push_cast; ring
  · rw [choose_zero_of_lt n (i + 1) (by omega)]; push_cast; ring

theorem bernstein_out (n : Nat) (x : Rat) : bernstein n (n + 1) x = 0 := by
  simp [bernstein, choose_zero_of_lt n (n + 1) (by omega)]

/-- `Σ_{i≤n} B_{i,n}(x) g_i` -/
def bz (n : Nat) (g : Nat → Rat) (x : Rat) : Rat := wsum (n + 1) (fun i => bernstein n i x * g i)

theorem bz_congr (n : Nat) (g h : Nat → Rat) (x : Rat) (e : ∀ i, i ≤ n → g i = h i) : bz n g x = bz n h x := by
  simp only [bz]; apply wsum_congr; intro j hj; rw [e j (by omega)]

/-- de Casteljau recursion (Pascal's rule) -/
theorem bz_succ (n : Nat) (g : Nat → Rat) (x : Rat) :
    bz (n + 1) g x = (1 - x) * bz n g x + x * bz n (fun i => g (i + 1)) x := by
  simp only [bz]
  rw [wsum_shift (n + 1), bernstein_zero_succ]
  rw [wsum_congr (n + 1) (fun j => bernstein (n + 1) (j + 1) x * g (j + 1))
    (fun j => (1 - x) * (bernstein n (j + 1) x * g (j + 1)) + x * (bernstein n j x * g (j + 1)))
    (fun j _ => by rw [bernstein_succ_succ]; ring)]
  rw [wsum_add_mul, wsum_shift n (fun i => bernstein n i x * g i)]
  have e : wsum (n + 1) (fun j => bernstein n (j + 1) x * g (j + 1))
      = wsum n (fun j => bernstein n (j + 1) x * g (j + 1)) := by
    simp only [wsum, bernstein_out, zero_mul, add_zero]
  rw [e]; ring

/-- one de Casteljau level on a sequence -/
def dcs (t : Rat) (g : Nat → Rat) : Nat → Rat := fun i => (1 - t) * g i + t * g (i + 1)

theorem bz_dcs (n : Nat) (t : Rat) (g : Nat → Rat) (x : Rat) :
    bz n (dcs t g) x = (1 - t) * bz n g x + t * bz n (fun i => g (i + 1)) x := by
  simp only [bz, dcs]
  rw [← wsum_add_mul]
  apply wsum_congr; intro j _; ring

/-- `j` levels -/
def dcsIter (t : Rat) : Nat → (Nat → Rat) → (Nat → Rat)
  | 0, g => g
  | j + 1, g => dcsIter t j (dcs t g)

theorem dcsIter_local (t : Rat) : ∀ (j : Nat) (h h' : Nat → Rat) (m : Nat), (∀ i, i ≤ m + j → h i = h' i) →
    dcsIter t j h m = dcsIter t j h' m
  | 0, _, _, m, e => e m (by omega)
  | j + 1, h, h', m, e => by
    simp only [dcsIter]
    apply dcsIter_local t j
    intro i hi
    simp only [dcs, e i (by omega), e (i + 1) (by omega)]

theorem dcsIter_shift (t : Rat) : ∀ (j : Nat) (g : Nat → Rat) (m : Nat),
    dcsIter t j (fun i => g (i + 1)) m = dcsIter t j g (m + 1)
  | 0, _, _ => rfl
  | j + 1, g, m => by
    simp only [dcsIter]
    rw [← dcsIter_shift t j (dcs t g) m]
    rfl

/-- the first points of the de Casteljau levels are the Bézier points of the curve over `[0, t]` -/
theorem bz_left (t : Rat) : ∀ (n : Nat) (g : Nat → Rat) (s : Rat),
    bz n (fun j => dcsIter t j g 0) s = bz n g (t * s)
  | 0, g, s => by simp [bz, wsum, bernstein, choose, dcsIter]
  | n + 1, g, s => by
    rw [bz_succ, bz_succ n g (t * s), bz_left t n g s]
    have e : (fun i => dcsIter t (i + 1) g 0) = (fun j => dcsIter t j (dcs t g) 0) := rfl
    rw [e, bz_left t n (dcs t g) s, bz_dcs]
    ring

/-- the last points of the de Casteljau levels are the Bézier points of the curve over `[t, 1]`, run BACKWARDS -/
theorem bz_right (t : Rat) : ∀ (n : Nat) (g : Nat → Rat) (s : Rat),
    bz n (fun j => dcsIter t j g (n - j)) s = bz n g (1 - (1 - t) * s)
  | 0, g, s => by simp [bz, wsum, bernstein, choose, dcsIter]
  | n + 1, g, s => by
    rw [bz_succ, bz_succ n g (1 - (1 - t) * s)]
    have e1 : bz n (fun j => dcsIter t j g (n + 1 - j)) s = bz n (fun j => dcsIter t j (fun i => g (i + 1)) (n - j)) s := by
      apply bz_congr
      intro i hi
      rw [dcsIter_shift]
      congr 1; omega
    have e2 : (fun i => dcsIter t (i + 1) g (n + 1 - (i + 1))) = (fun j => dcsIter t j (dcs t g) (n - j)) := by
      funext i
      simp only [dcsIter, Nat.add_sub_add_right]
    rw [e1, e2, bz_right t n _ s, bz_right t n (dcs t g) s, bz_dcs]
    ring

/-! ## symmetry and partition of unity of the Bernstein polynomials -/

theorem choose_symm : ∀ (n k : Nat), k ≤ n → choose n (n - k) = choose n k
  | 0, 0, _ => rfl
  | 0, _ + 1, h => by omega
  | n + 1, 0, _ => by
    simp only [Nat.sub_zero, choose_zero_right]
    have : ∀ m : Nat, choose m m = 1 := by
      intro m; induction m with
      | zero => rfl
      | succ m ih => simp [choose, ih, choose_zero_of_lt m (m + 1) (by omega)]
    exact this (n + 1)
  | n + 1, k + 1, h => by
    have hk : k ≤ n := by omega
    by_cases hkn : k + 1 ≤ n
    · have e : n + 1 - (k + 1) = (n - (k + 1)) + 1 := by omega
      rw [e]
      simp only [choose]
      have h1 := choose_symm n (k + 1) hkn
      have h2 := choose_symm n k hk
      have e2 : n - (k + 1) + 1 = n - k := by omega
      rw [e2, h1, h2]; omega
    · have : k = n := by omega
      subst this
      simp only [Nat.sub_self, choose_zero_right]
      have : ∀ m : Nat, choose m m = 1 := by
        intro m; induction m with
        | zero => rfl
        | succ m ih => simp [choose, ih, choose_zero_of_lt m (m + 1) (by omega)]
      exact (this (k + 1)).symm

/-- `B_{n−i,n}(1 − t) = B_{i,n}(t)` -/
theorem bernstein_symm (n i : Nat) (hi : i ≤ n) (t : Rat) : bernstein n (n - i) (1 - t) = bernstein n i t := by
  simp only [bernstein, choose_symm n i hi]
  have e1 : n - (n - i) = i := by omega
  rw [e1]
  have e2 : 1 - (1 - t) = t := by ring
  rw [e2]; ring

/-- `Σ_i B_{i,n}(t) = 1` -/
theorem bz_one : ∀ (n : Nat) (t : Rat), bz n (fun _ => 1) t = 1
  | 0, t => by simp [bz, wsum, bernstein, choose]
  | n + 1, t => by rw [bz_succ, bz_one n t]; ring

/-! ## Bézier knots: a span between two knots of multiplicity `q` carries the Bernstein polynomials -/

/-- if the `q` knots up to `K_s` equal `a` and the `q` knots from `K_{s+1}` on equal `b ≠ a`, the degree-`q` pieces of
    span `s` are the Bernstein polynomials in `(u − a)/(b − a)`: `N_{s−q+r,q}(u) = B_{r,q}((u−a)/(b−a))` — any degree -/
theorem cdbF_bezier_knots (K : Nat → Rat) (a b u : Rat) (s : Nat) (hab : b - a ≠ 0) :
    ∀ (q : Nat), q ≤ s → (∀ j, 1 ≤ j → j ≤ q → K (s + 1 - j) = a ∧ K (s + j) = b) →
      ∀ r, r ≤ q → cdbF K u (delta s) q (s - q + r) = bernstein q r ((u - a) / (b - a))
  | 0, _, _, r, hr => by
    have : r = 0 := by omega
    subst this
    simp [cdbF, delta, bernstein, choose]
  | q + 1, hqs, hK, r, hr => by
    have ih := cdbF_bezier_knots K a b u s hab q (by omega) (fun j h1 h2 => hK j h1 (by omega))
    simp only [cdbF]
    cases r with
    | zero =>
      -- first term vanishes (index s-q-1 is left of the window)
      rw [Nat.add_zero, cdbF_vanish K u s q (s - (q + 1)) (Or.inr (by omega))]
      have e1 : s - (q + 1) + 1 = s - q + 0 := by omega
      rw [e1, ih 0 (by omega), bernstein_zero_succ]
      have k1 := (hK 1 (by omega) (by omega)).2
      have k2 := (hK (q + 1) (by omega) (le_refl _)).1
      have e2 : s - q + 0 + q + 1 = s + 1 := by omega
      have e3 : s - q + 0 = s + 1 - (q + 1) := by omega
      have e4 : s - (q + 1) + q + 2 = s + 1 := by omega
      rw [e4, k1, e3, k2]
      field_simp
      ring
    | succ r =>
      have e1 : s - (q + 1) + (r + 1) = s - q + r := by omega
      rw [e1, ih r (by omega)]
      have hB : cdbF K u (delta s) q (s - q + r + 1) = bernstein q (r + 1) ((u - a) / (b - a)) := by
        by_cases c : r + 1 ≤ q
        · have := ih (r + 1) c
          rw [show s - q + (r + 1) = s - q + r + 1 by omega] at this
          exact this
        · have hr' : r = q := by omega
          subst hr'
          rw [cdbF_vanish K u s r (s - r + r + 1) (Or.inl (by omega)), bernstein_out]
      rw [hB, bernstein_succ_succ]
      have k1 := (hK (q + 1 - r) (by omega) (by omega)).1
      have k2 := (hK (r + 1) (by omega) (by omega)).2
      have e2 : s - q + r = s + 1 - (q + 1 - r) := by omega
      have e3 : s - q + r + q + 1 = s + (r + 1) := by omega
      rw [← e2] at k1
      rw [← e3] at k2
      rw [k1, k2]
      by_cases c : r + 1 ≤ q
      · have k3 := (hK (q - r) (by omega) (by omega)).1
        have k4 := (hK (r + 2) (by omega) (by omega)).2
        have e4 : s - q + r + 1 = s + 1 - (q - r) := by omega
        have e5 : s - q + r + q + 2 = s + (r + 2) := by omega
        rw [← e4] at k3
        rw [← e5] at k4
        rw [k3, k4]
        field_simp
        ring
      · have hr' : r = q := by omega
        subst hr'
        rw [bernstein_out]
        ring

/-! ## lists -/

theorem bernsteinSum_eq_curveSum (n : Nat) (t : Rat) : ∀ (l : List V3) (i : Nat),
    bernsteinSum n t i l = curveSum (fun i => bernstein n i t) i l
  | [], _ => rfl
  | _ :: ps, i => by simp only [bernsteinSum, curveSum, bernsteinSum_eq_curveSum n t ps (i + 1)]

theorem bernsteinCurve_proj (π : V3 → Rat) (hz : π V3.zero = 0) (ha : ∀ a b, π (a.add b) = π a + π b)
    (hs : ∀ a s, π (a.scale s) = π a * s) (pts : List V3) (hne : 1 ≤ pts.length) (x : Rat) :
    π (bernsteinCurve pts x) = bz (pts.length - 1) (fun i => π (pts.getD i V3.zero)) x := by
  simp only [bernsteinCurve, bernsteinSum_eq_curveSum, bz]
  rw [curveSum_proj π hz ha hs]
  have e : pts.length - 1 + 1 = pts.length := by omega
  rw [e]
  apply wsum_congr
  intro j _
  rw [Nat.zero_add]; ring

theorem lerpStep_length (t : Rat) : ∀ l : List V3, (lerpStep t l).length = l.length - 1
  | [] => rfl
  | [_] => rfl
  | a :: b :: r => by simp [lerpStep, lerpStep_length t (b :: r)]

theorem lerpStep_getD (t : Rat) : ∀ (l : List V3) (i : Nat), i + 1 < l.length →
    (lerpStep t l).getD i V3.zero = ((l.getD i V3.zero).scale (1 - t)).add ((l.getD (i + 1) V3.zero).scale t)
  | [], i, h => by simp at h
  | [_], i, h => by simp at h
  | a :: b :: r, 0, _ => by simp [lerpStep]
  | a :: b :: r, i + 1, h => by
    have := lerpStep_getD t (b :: r) i (by simpa using h)
    simpa [lerpStep] using this

theorem getLastD_eq_getD (p : V3) : ∀ (rest : List V3), rest.getLastD p = (p :: rest).getD rest.length V3.zero
  | [] => rfl
  | a :: r => by
    have := getLastD_eq_getD a r
    simp only [List.getLastD_cons, List.length_cons, List.getD_cons_succ] at this ⊢
    exact this

/-- both lists of `split_bezier` in sequence form (coordinate `π`) -/
theorem splitBezierAux_spec (π : V3 → Rat) (ha : ∀ a b, π (a.add b) = π a + π b)
    (hs : ∀ a s, π (a.scale s) = π a * s) (t : Rat) : ∀ (fuel : Nat) (pts : List V3), pts.length = fuel →
    (splitBezierAux t fuel pts).1.length = fuel ∧ (splitBezierAux t fuel pts).2.length = fuel ∧
    ∀ j, j < fuel →
      π ((splitBezierAux t fuel pts).1.getD j V3.zero) = dcsIter t j (fun i => π (pts.getD i V3.zero)) 0 ∧
      π ((splitBezierAux t fuel pts).2.getD j V3.zero)
        = dcsIter t j (fun i => π (pts.getD i V3.zero)) (fuel - 1 - j)
  | 0, _, _ => by simp [splitBezierAux]
  | fuel + 1, [], h => by simp at h
  | fuel + 1, p :: rest, h => by
    have hrl : rest.length = fuel := by simpa using h
    have hlen : (lerpStep t (p :: rest)).length = fuel := by rw [lerpStep_length]; simp [hrl]
    obtain ⟨h1, h2, h3⟩ := splitBezierAux_spec π ha hs t fuel (lerpStep t (p :: rest)) hlen
    simp only [splitBezierAux]
    refine ⟨by simp [h1], by simp [h2], ?_⟩
    intro j hj
    cases j with
    | zero =>
      simp only [List.getD_cons_zero, dcsIter, Nat.sub_zero, Nat.add_sub_cancel]
      rw [getLastD_eq_getD, hrl]
      exact ⟨trivial, rfl⟩
    | succ j =>
      obtain ⟨g1, g2⟩ := h3 j (by omega)
      simp only [List.getD_cons_succ, dcsIter]
      have hloc : ∀ i, i < fuel → π ((lerpStep t (p :: rest)).getD i V3.zero)
          = dcs t (fun i => π ((p :: rest).getD i V3.zero)) i := by
        intro i hi
        rw [lerpStep_getD t (p :: rest) i (by simp; omega), ha, hs, hs]
        simp only [dcs]; ring
      refine ⟨?_, ?_⟩
      · rw [g1]
        exact dcsIter_local t j _ _ 0 (fun i hi => hloc i (by omega))
      · rw [g2]
        have e : fuel + 1 - 1 - (j + 1) = fuel - 1 - j := by omega
        rw [e]
        exact dcsIter_local t j _ _ _ (fun i hi => hloc i (by omega))

end EzdxfVerif.Lemmas.Curve

/-
Lemmas/PolygonWinding.lean — winding numbers of rings: additivity under ear removal (the winding analogue of the shoelace
lemmas), the winding number of a counter-clockwise triangle, and non-overlap of the triangles of an ear sequence from the single
hypothesis "the ring winds at most once around every point".  Helper lemmas for `Props/C19.lean`.
-/
import EzdxfVerif.Model.Polygon
import Mathlib.Tactic.Ring
import Mathlib.Tactic.Linarith
import Mathlib.Tactic.Convert

namespace EzdxfVerif.Lemmas.Winding
open EzdxfVerif.Polygon EzdxfVerif.Gen

def toPt (n : Node) : Pt := ⟨n.x, n.y⟩

/-- contribution of the directed edge `p → q` to the winding number around `x` -/
def wn1 (x : Pt) (p q : Node) : Int := wnStep x (toPt p) (toPt q)

def wnPath (x : Pt) (prev : Node) : List Node → Int
  | [] => 0
  | q :: qs => wn1 x prev q + wnPath x q qs

/-- winding number of the ring (closed) around `x` -/
def wnRing (x : Pt) : List Node → Int
  | [] => 0
  | p :: ps => wnPath x (lastOr p ps) (p :: ps)

def wnTri (x : Pt) (t : Tri) : Int := wnRing x [t.1, t.2.1, t.2.2]

theorem sideOf_rev (a b p : Pt) : sideOf b a p = - sideOf a b p := by simp only [sideOf]; ring

theorem wnStep_antisymm (x a b : Pt) : wnStep x b a = - wnStep x a b := by
  unfold wnStep
  rw [sideOf_rev a b x]
  by_cases h1 : a.y ≤ x.y <;> by_cases h2 : b.y ≤ x.y
  · have n1 : ¬ x.y < b.y := not_lt.mpr h2
    have n2 : ¬ x.y < a.y := not_lt.mpr h1
    simp [h1, h2, n1, n2]
  · have l2 : x.y < b.y := not_le.mp h2
    simp only [h1, h2, if_true, if_false, l2, true_and]
    by_cases hs : 0 < sideOf a b x
    · have : - sideOf a b x < 0 := by linarith
      simp [hs, this]
    · have : ¬ - sideOf a b x < 0 := by intro h; exact hs (by linarith)
      simp [hs, this]
  · have l1 : x.y < a.y := not_le.mp h1
    simp only [h1, h2, if_true, if_false, l1, true_and]
    by_cases hs : sideOf a b x < 0
    · have : 0 < - sideOf a b x := by linarith
      simp [hs, this]
    · have : ¬ 0 < - sideOf a b x := by intro h; exact hs (by linarith)
      simp [hs, this]
  · have l1 : ¬ a.y ≤ x.y := h1
    have l2 : ¬ b.y ≤ x.y := h2
    simp [h1, h2]

theorem wn1_antisymm (x : Pt) (p q : Node) : wn1 x q p = - wn1 x p q := wnStep_antisymm x _ _

theorem lastOr_append (p : Node) (l m : List Node) : lastOr p (l ++ m) = lastOr (lastOr p l) m := by
  induction l generalizing p with
  | nil => rfl
  | cons q qs ih => simp [lastOr, ih]

theorem wnPath_append (x : Pt) (p : Node) (l m : List Node) :
    wnPath x p (l ++ m) = wnPath x p l + wnPath x (lastOr p l) m := by
  induction l generalizing p with
  | nil => simp [wnPath, lastOr]
  | cons q qs ih => simp [wnPath, lastOr, ih]; ring

theorem wnRing_append_comm (x : Pt) (l m : List Node) : wnRing x (l ++ m) = wnRing x (m ++ l) := by
  cases l with
  | nil => simp
  | cons p ps =>
    cases m with
    | nil => simp
    | cons q qs =>
      simp only [wnRing, List.cons_append, wnPath, wnPath_append, lastOr, lastOr_append]
      ring

theorem wnRing_rotBy (x : Pt) (k : Nat) (l : List Node) : wnRing x (rotBy k l) = wnRing x l := by
  rw [rotBy, wnRing_append_comm, List.take_append_drop]

/-- removing the cursor node `b` (between `a` = last and `c` = next) changes the winding number by that of the triangle a b c -/
theorem ear_removal_winding (x : Pt) (b c : Node) (r : List Node) :
    wnRing x (b :: c :: r) = wnRing x (c :: r) + wnRing x [lastOr c r, b, c] := by
  simp only [wnRing, wnPath, lastOr, wn1_antisymm x (lastOr c r) c]
  ring

theorem wnRing_short (x : Pt) (l : List Node) (h : l.length < 3) : wnRing x l = 0 := by
  match l, h with
  | [], _ => rfl
  | [a], _ =>
    have := wn1_antisymm x a a
    simp only [wnRing, wnPath, lastOr]
    omega
  | [a, b], _ =>
    have := wn1_antisymm x a b
    simp only [wnRing, wnPath, lastOr]
    omega

def sumWn (x : Pt) (ts : List Tri) : Int := (ts.map (wnTri x)).sum

/-- any sequence of ear removals: the winding number of the ring is the sum of the winding numbers of the cut triangles plus
that of the remaining ring (the winding analogue of `cutEars_area`) -/
theorem cutEars_winding (x : Pt) (l : List Node) (ks : List Nat) :
    wnRing x l = sumWn x (cutEars l ks).1 + wnRing x (cutEars l ks).2 := by
  induction ks generalizing l with
  | nil => simp [cutEars, sumWn]
  | cons k ks ih =>
    have hr := wnRing_rotBy x (k % (l.length + 1)) l
    unfold cutEars
    split
    · rename_i b c r heq
      rw [heq] at hr
      have := ih (c :: r)
      simp only [sumWn, List.map_cons, List.sum_cons, wnTri] at this ⊢
      rw [← hr, ear_removal_winding]
      linarith
    · rename_i short _
      simp [sumWn]
      exact hr.symm

/-! ## the winding number of a counter-clockwise triangle -/

theorem tri_identities (a b c x : Pt) :
    sideOf a b x + sideOf b c x + sideOf c a x = sideOf a b c ∧
    (a.y - x.y) * sideOf b c x + (b.y - x.y) * sideOf c a x + (c.y - x.y) * sideOf a b x = 0 := by
  simp only [sideOf]; constructor <;> ring

private def w3 (ay by' cy y Sab Sbc Sca : Rat) : Int :=
  (if cy ≤ y then if y < ay ∧ 0 < Sca then 1 else 0 else if ay ≤ y ∧ Sca < 0 then -1 else 0) +
    ((if ay ≤ y then if y < by' ∧ 0 < Sab then 1 else 0 else if by' ≤ y ∧ Sab < 0 then -1 else 0) +
      ((if by' ≤ y then if y < cy ∧ 0 < Sbc then 1 else 0 else if cy ≤ y ∧ Sbc < 0 then -1 else 0) + 0))

/-- two indicator terms: `[P] - [N]` lies in `{0, 1}` when `N → P`, and is 1 when `P` and not `N` -/
private theorem ind_bounds (P N : Prop) [Decidable P] [Decidable N] (h : N → P) :
    0 ≤ (if P then (1 : Int) else 0) + (if N then -1 else 0) ∧ (if P then (1 : Int) else 0) + (if N then -1 else 0) ≤ 1 ∧
    (P → ¬ N → (if P then (1 : Int) else 0) + (if N then -1 else 0) = 1) := by
  by_cases hp : P <;> by_cases hn : N <;> simp [hp, hn]
  exact hp (h hn)

/-- weights `p, q > 0`, `r ≤ 0` -/
private theorem typeI (p q r X Y Z D : Rat) (hD : 0 ≤ D) (i1 : X + Y + Z = D) (i2 : p * X + q * Y + r * Z = 0)
    (hp : 0 < p) (hq : 0 < q) (hr : r ≤ 0) : X < 0 → 0 < Y := by
  intro hX
  by_contra hY
  have t1 : p * X < 0 := mul_neg_of_pos_of_neg hp hX
  have t2 : q * Y ≤ 0 := mul_nonpos_of_nonneg_of_nonpos hq.le (not_lt.mp hY)
  have t3 : 0 < r * Z := by linarith
  have hZ : Z < 0 := by
    by_contra hz
    have := mul_nonpos_of_nonpos_of_nonneg hr (not_lt.mp hz)
    linarith
  linarith [not_lt.mp hY]

/-- weights `p, q ≤ 0`, `r > 0` -/
private theorem typeII (p q r X Y Z D : Rat) (hD : 0 ≤ D) (i1 : X + Y + Z = D) (i2 : p * X + q * Y + r * Z = 0)
    (hp : p ≤ 0) (hq : q ≤ 0) (hr : 0 < r) : X < 0 → 0 < Y := by
  intro hX
  by_contra hY
  have t1 : 0 ≤ p * X := mul_nonneg_of_nonpos_of_nonpos hp hX.le
  have t2 : 0 ≤ q * Y := mul_nonneg_of_nonpos_of_nonpos hq (not_lt.mp hY)
  have t3 : r * Z ≤ 0 := by linarith
  have hZ : Z ≤ 0 := by
    by_contra hz
    have := mul_pos hr (not_le.mp hz)
    linarith
  linarith [not_lt.mp hY]

private theorem w3_bounds (ay by' cy y Sab Sbc Sca D : Rat) (hD : 0 < D) (i1 : Sab + Sbc + Sca = D)
    (i2 : (ay - y) * Sbc + (by' - y) * Sca + (cy - y) * Sab = 0) (i3 : ay = y → by' = y → cy = y → D = 0) :
    0 ≤ w3 ay by' cy y Sab Sbc Sca ∧ w3 ay by' cy y Sab Sbc Sca ≤ 1 ∧
    (0 < Sab → 0 < Sbc → 0 < Sca → w3 ay by' cy y Sab Sbc Sca = 1) := by
  by_cases ha : ay ≤ y <;> by_cases hb : by' ≤ y <;> by_cases hc : cy ≤ y
  · -- all three at or below the ray line: no crossing
    have na : ¬ y < ay := not_lt.mpr ha
    have nb : ¬ y < by' := not_lt.mpr hb
    have nc : ¬ y < cy := not_lt.mpr hc
    have hw : w3 ay by' cy y Sab Sbc Sca = 0 := by
      simp only [w3, ha, hb, hc, na, nb, nc, if_true, if_false, false_and, add_zero]
    rw [hw]
    refine ⟨le_refl _, by omega, fun h1 h2 h3 => ?_⟩
    exfalso
    have t1 : (ay - y) * Sbc ≤ 0 := mul_nonpos_of_nonpos_of_nonneg (by linarith) h2.le
    have t2 : (by' - y) * Sca ≤ 0 := mul_nonpos_of_nonpos_of_nonneg (by linarith) h3.le
    have t3 : (cy - y) * Sab ≤ 0 := mul_nonpos_of_nonpos_of_nonneg (by linarith) h1.le
    have e1 : (ay - y) * Sbc = 0 := by linarith
    have e2 : (by' - y) * Sca = 0 := by linarith
    have e3 : (cy - y) * Sab = 0 := by linarith
    have f1 : ay = y := by rcases mul_eq_zero.mp e1 with h | h <;> linarith
    have f2 : by' = y := by rcases mul_eq_zero.mp e2 with h | h <;> linarith
    have f3 : cy = y := by rcases mul_eq_zero.mp e3 with h | h <;> linarith
    linarith [i3 f1 f2 f3]
  · -- pattern (True, True, False)
    have na : ¬ y < ay := not_lt.mpr ha
    have sa : ay - y ≤ 0 := by linarith
    have nb : ¬ y < by' := not_lt.mpr hb
    have sb : by' - y ≤ 0 := by linarith
    have lc : y < cy := not_le.mp hc
    have sc : 0 < cy - y := by linarith
    have hw : w3 ay by' cy y Sab Sbc Sca = (if 0 < Sbc then (1 : Int) else 0) + (if Sca < 0 then -1 else 0) := by
      simp only [w3, ha, hb, hc, na, nb, lc, if_true, if_false, true_and, false_and, add_zero, zero_add]
      try ring
    rw [hw]
    obtain ⟨k1, k2, k3⟩ := ind_bounds (0 < Sbc) (Sca < 0)
      (typeII (by' - y) (ay - y) (cy - y) Sca Sbc Sab D hD.le (by linarith) (by linarith) (by linarith) (by linarith) (by linarith))
    exact ⟨k1, k2, fun h1 h2 h3 => k3 (by assumption) (by linarith)⟩
  · -- pattern (True, False, True)
    have na : ¬ y < ay := not_lt.mpr ha
    have sa : ay - y ≤ 0 := by linarith
    have lb : y < by' := not_le.mp hb
    have sb : 0 < by' - y := by linarith
    have nc : ¬ y < cy := not_lt.mpr hc
    have sc : cy - y ≤ 0 := by linarith
    have hw : w3 ay by' cy y Sab Sbc Sca = (if 0 < Sab then (1 : Int) else 0) + (if Sbc < 0 then -1 else 0) := by
      simp only [w3, ha, hb, hc, na, lb, nc, if_true, if_false, true_and, false_and, add_zero, zero_add]
      try ring
    rw [hw]
    obtain ⟨k1, k2, k3⟩ := ind_bounds (0 < Sab) (Sbc < 0)
      (typeII (ay - y) (cy - y) (by' - y) Sbc Sab Sca D hD.le (by linarith) (by linarith) (by linarith) (by linarith) (by linarith))
    exact ⟨k1, k2, fun h1 h2 h3 => k3 (by assumption) (by linarith)⟩
  · -- pattern (True, False, False)
    have na : ¬ y < ay := not_lt.mpr ha
    have sa : ay - y ≤ 0 := by linarith
    have lb : y < by' := not_le.mp hb
    have sb : 0 < by' - y := by linarith
    have lc : y < cy := not_le.mp hc
    have sc : 0 < cy - y := by linarith
    have hw : w3 ay by' cy y Sab Sbc Sca = (if 0 < Sab then (1 : Int) else 0) + (if Sca < 0 then -1 else 0) := by
      simp only [w3, ha, hb, hc, na, lb, lc, if_true, if_false, true_and, false_and, add_zero, zero_add]
      try ring
    rw [hw]
    obtain ⟨k1, k2, k3⟩ := ind_bounds (0 < Sab) (Sca < 0)
      (typeI (by' - y) (cy - y) (ay - y) Sca Sab Sbc D hD.le (by linarith) (by linarith) (by linarith) (by linarith) (by linarith))
    exact ⟨k1, k2, fun h1 h2 h3 => k3 (by assumption) (by linarith)⟩
  · -- pattern (False, True, True)
    have la : y < ay := not_le.mp ha
    have sa : 0 < ay - y := by linarith
    have nb : ¬ y < by' := not_lt.mpr hb
    have sb : by' - y ≤ 0 := by linarith
    have nc : ¬ y < cy := not_lt.mpr hc
    have sc : cy - y ≤ 0 := by linarith
    have hw : w3 ay by' cy y Sab Sbc Sca = (if 0 < Sca then (1 : Int) else 0) + (if Sab < 0 then -1 else 0) := by
      simp only [w3, ha, hb, hc, la, nb, nc, if_true, if_false, true_and, false_and, add_zero, zero_add]
      try ring
    rw [hw]
    obtain ⟨k1, k2, k3⟩ := ind_bounds (0 < Sca) (Sab < 0)
      (typeII (cy - y) (by' - y) (ay - y) Sab Sca Sbc D hD.le (by linarith) (by linarith) (by linarith) (by linarith) (by linarith))
    exact ⟨k1, k2, fun h1 h2 h3 => k3 (by assumption) (by linarith)⟩
  · -- pattern (False, True, False)
    have la : y < ay := not_le.mp ha
    have sa : 0 < ay - y := by linarith
    have nb : ¬ y < by' := not_lt.mpr hb
    have sb : by' - y ≤ 0 := by linarith
    have lc : y < cy := not_le.mp hc
    have sc : 0 < cy - y := by linarith
    have hw : w3 ay by' cy y Sab Sbc Sca = (if 0 < Sbc then (1 : Int) else 0) + (if Sab < 0 then -1 else 0) := by
      simp only [w3, ha, hb, hc, la, nb, lc, if_true, if_false, true_and, false_and, add_zero, zero_add]
      try ring
    rw [hw]
    obtain ⟨k1, k2, k3⟩ := ind_bounds (0 < Sbc) (Sab < 0)
      (typeI (cy - y) (ay - y) (by' - y) Sab Sbc Sca D hD.le (by linarith) (by linarith) (by linarith) (by linarith) (by linarith))
    exact ⟨k1, k2, fun h1 h2 h3 => k3 (by assumption) (by linarith)⟩
  · -- pattern (False, False, True)
    have la : y < ay := not_le.mp ha
    have sa : 0 < ay - y := by linarith
    have lb : y < by' := not_le.mp hb
    have sb : 0 < by' - y := by linarith
    have nc : ¬ y < cy := not_lt.mpr hc
    have sc : cy - y ≤ 0 := by linarith
    have hw : w3 ay by' cy y Sab Sbc Sca = (if 0 < Sca then (1 : Int) else 0) + (if Sbc < 0 then -1 else 0) := by
      simp only [w3, ha, hb, hc, la, lb, nc, if_true, if_false, true_and, false_and, add_zero, zero_add]
      try ring
    rw [hw]
    obtain ⟨k1, k2, k3⟩ := ind_bounds (0 < Sca) (Sbc < 0)
      (typeI (ay - y) (by' - y) (cy - y) Sbc Sca Sab D hD.le (by linarith) (by linarith) (by linarith) (by linarith) (by linarith))
    exact ⟨k1, k2, fun h1 h2 h3 => k3 (by assumption) (by linarith)⟩
  · -- all three above the ray line: no crossing
    have hw : w3 ay by' cy y Sab Sbc Sca = 0 := by
      simp only [w3, ha, hb, hc, if_false, false_and, add_zero]
    rw [hw]
    refine ⟨le_refl _, by omega, fun h1 h2 h3 => ?_⟩
    exfalso
    have t1 : 0 < (ay - y) * Sbc := mul_pos (by linarith [not_le.mp ha]) h2
    have t2 : 0 < (by' - y) * Sca := mul_pos (by linarith [not_le.mp hb]) h3
    have t3 : 0 < (cy - y) * Sab := mul_pos (by linarith [not_le.mp hc]) h1
    linarith

/-- for a counter-clockwise triangle the winding number is 0 or 1 at EVERY point (also on the boundary, with the half-open
crossing rule) and 1 at every point strictly inside -/
theorem wnTri_ccw (x : Pt) (a b c : Node) (hccw : 0 < sideOf (toPt a) (toPt b) (toPt c)) :
    0 ≤ wnTri x (a, b, c) ∧ wnTri x (a, b, c) ≤ 1 ∧
    (0 < sideOf (toPt a) (toPt b) x → 0 < sideOf (toPt b) (toPt c) x → 0 < sideOf (toPt c) (toPt a) x → wnTri x (a, b, c) = 1) := by
  obtain ⟨i1, i2⟩ := tri_identities (toPt a) (toPt b) (toPt c) x
  have := w3_bounds (toPt a).y (toPt b).y (toPt c).y x.y _ _ _ _ hccw i1 i2 (by
    intro e1 e2 e3
    simp only [sideOf] 
    rw [e1, e2, e3]; ring)
  simp only [wnTri, wnRing, wnPath, lastOr, wn1, wnStep]
  unfold w3 at this
  convert this <;> exact if_congr Iff.rfl (if_congr Iff.rfl rfl rfl) (if_congr Iff.rfl rfl rfl)

/-! ## non-overlap of the triangles of an ear sequence from "the ring winds at most once around `x`" -/

/-- `x` lies strictly inside the (counter-clockwise) triangle -/
def StrictlyInside (x : Pt) (t : Tri) : Prop :=
  0 < sideOf (toPt t.1) (toPt t.2.1) x ∧ 0 < sideOf (toPt t.2.1) (toPt t.2.2) x ∧ 0 < sideOf (toPt t.2.2) (toPt t.1) x

def TriCcw (t : Tri) : Prop := 0 < sideOf (toPt t.1) (toPt t.2.1) (toPt t.2.2)

theorem triCcw_iff (t : Tri) : TriCcw t ↔ area t.1 t.2.1 t.2.2 < 0 := by
  simp only [TriCcw, sideOf, toPt, area, PolygonKernels.area]
  constructor <;> intro h <;> linarith

theorem sumWn_nonneg (x : Pt) : ∀ (ts : List Tri), (∀ t ∈ ts, TriCcw t) → 0 ≤ sumWn x ts
  | [], _ => by simp [sumWn]
  | t :: ts, h => by
    have h1 := (wnTri_ccw x t.1 t.2.1 t.2.2 (h t (by simp))).1
    have h2 := sumWn_nonneg x ts (fun t' ht' => h t' (List.mem_cons_of_mem _ ht'))
    simp only [sumWn, List.map_cons, List.sum_cons] at h2 ⊢
    exact add_nonneg h1 h2

theorem sumWn_inside (x : Pt) : ∀ (ts : List Tri), (∀ t ∈ ts, TriCcw t) → ∀ t ∈ ts, StrictlyInside x t → 1 ≤ sumWn x ts
  | [], _, t, ht, _ => by simp at ht
  | t0 :: ts, h, t, ht, hin => by
    have hrest := sumWn_nonneg x ts (fun t' ht' => h t' (List.mem_cons_of_mem _ ht'))
    have h0 := (wnTri_ccw x t0.1 t0.2.1 t0.2.2 (h t0 (by simp))).1
    simp only [sumWn, List.map_cons, List.sum_cons] at hrest ⊢
    rcases List.mem_cons.mp ht with rfl | ht
    · have := (wnTri_ccw x t.1 t.2.1 t.2.2 (h t (by simp))).2.2 hin.1 hin.2.1 hin.2.2
      have e : wnTri x t = wnTri x (t.1, t.2.1, t.2.2) := rfl
      rw [e, this]; linarith
    · have := sumWn_inside x ts (fun t' ht' => h t' (List.mem_cons_of_mem _ ht')) t ht hin
      simp only [sumWn] at this
      linarith

theorem pairwise_of_sum_le_one (x : Pt) : ∀ (ts : List Tri), (∀ t ∈ ts, TriCcw t) → sumWn x ts ≤ 1 →
    List.Pairwise (fun t1 t2 => ¬ (StrictlyInside x t1 ∧ StrictlyInside x t2)) ts
  | [], _, _ => List.Pairwise.nil
  | t :: ts, h, hs => by
    have hccw' : ∀ t' ∈ ts, TriCcw t' := fun t' ht' => h t' (List.mem_cons_of_mem _ ht')
    have h0 := wnTri_ccw x t.1 t.2.1 t.2.2 (h t (by simp))
    have e : wnTri x t = wnTri x (t.1, t.2.1, t.2.2) := rfl
    have hs' : wnTri x t + sumWn x ts ≤ 1 := by simpa [sumWn] using hs
    refine List.Pairwise.cons ?_ (pairwise_of_sum_le_one x ts hccw' (by rw [e] at hs'; linarith [h0.1]))
    rintro t' ht' ⟨hin, hin'⟩
    have h1 := h0.2.2 hin.1 hin.2.1 hin.2.2
    have h2 := sumWn_inside x ts hccw' t' ht' hin'
    rw [e, h1] at hs'
    linarith

/-- Non-overlap of ANY sequence of ear removals on ANY ring (convex or not), from one explicit hypothesis about the ring: it winds
at most once around `x` (true for every point when the ring is a simple counter-clockwise polygon).  If all cut triangles are
counter-clockwise and the remaining ring is finished (fewer than three nodes) then `x` lies strictly inside at most one triangle,
and every triangle that contains `x` strictly lies inside the polygon (winding number ≥ 1 at `x`). -/
theorem cutEars_no_overlap (x : Pt) (l : List Node) (ks : List Nat) (hccw : ∀ t ∈ (cutEars l ks).1, TriCcw t)
    (hdone : (cutEars l ks).2.length < 3) :
    (wnRing x l ≤ 1 → List.Pairwise (fun t1 t2 => ¬ (StrictlyInside x t1 ∧ StrictlyInside x t2)) (cutEars l ks).1) ∧
    (∀ t ∈ (cutEars l ks).1, StrictlyInside x t → 1 ≤ wnRing x l) ∧ 0 ≤ wnRing x l := by
  have hw := cutEars_winding x l ks
  rw [wnRing_short x _ hdone, add_zero] at hw
  rw [hw]
  exact ⟨fun h => pairwise_of_sum_le_one x _ hccw h, fun t ht hin => sumWn_inside x _ hccw t ht hin, sumWn_nonneg x _ hccw⟩

/-! ## the winding balance of the complete ear slicing loop (filter_points, cure_local_intersections, split_polygon) -/

private theorem w3_zero (ay by' cy y Sab Sbc Sca : Rat) (i1 : Sab + Sbc + Sca = 0)
    (i2 : (ay - y) * Sbc + (by' - y) * Sca + (cy - y) * Sab = 0) : w3 ay by' cy y Sab Sbc Sca = 0 := by
  have ind : ∀ (P N : Prop) [Decidable P] [Decidable N], (N → P) → (P → N) →
      (if P then (1 : Int) else 0) + (if N then -1 else 0) = 0 := by
    intro P N _ _ h1 h2
    by_cases hp : P <;> by_cases hn : N <;> simp [hp, hn]
    · exact hn (h2 hp)
    · exact hp (h1 hn)
  by_cases ha : ay ≤ y <;> by_cases hb : by' ≤ y <;> by_cases hc : cy ≤ y
  · have na : ¬ y < ay := not_lt.mpr ha
    have nb : ¬ y < by' := not_lt.mpr hb
    have nc : ¬ y < cy := not_lt.mpr hc
    simp only [w3, ha, hb, hc, na, nb, nc, if_true, if_false, false_and, add_zero]
  · -- pattern (True, True, False)
    have na : ¬ y < ay := not_lt.mpr ha
    have sa : ay - y ≤ 0 := by linarith
    have nb : ¬ y < by' := not_lt.mpr hb
    have sb : by' - y ≤ 0 := by linarith
    have lc : y < cy := not_le.mp hc
    have sc : 0 < cy - y := by linarith
    have hw : w3 ay by' cy y Sab Sbc Sca = (if 0 < Sbc then (1 : Int) else 0) + (if Sca < 0 then -1 else 0) := by
      simp only [w3, ha, hb, hc, na, nb, lc, if_true, if_false, true_and, false_and, add_zero, zero_add]
      try ring
    rw [hw]
    refine ind _ _ (typeII (by' - y) (ay - y) (cy - y) Sca Sbc Sab 0 (le_refl _) (by linarith) (by linarith) (by linarith) (by linarith) (by linarith)) ?_
    intro hY
    have := typeII (ay - y) (by' - y) (cy - y) (-Sbc) (-Sca) (-Sab) 0 (le_refl _) (by linarith) (by linarith) (by linarith) (by linarith) (by linarith) (by linarith)
    linarith
  · -- pattern (True, False, True)
    have na : ¬ y < ay := not_lt.mpr ha
    have sa : ay - y ≤ 0 := by linarith
    have lb : y < by' := not_le.mp hb
    have sb : 0 < by' - y := by linarith
    have nc : ¬ y < cy := not_lt.mpr hc
    have sc : cy - y ≤ 0 := by linarith
    have hw : w3 ay by' cy y Sab Sbc Sca = (if 0 < Sab then (1 : Int) else 0) + (if Sbc < 0 then -1 else 0) := by
      simp only [w3, ha, hb, hc, na, lb, nc, if_true, if_false, true_and, false_and, add_zero, zero_add]
      try ring
    rw [hw]
    refine ind _ _ (typeII (ay - y) (cy - y) (by' - y) Sbc Sab Sca 0 (le_refl _) (by linarith) (by linarith) (by linarith) (by linarith) (by linarith)) ?_
    intro hY
    have := typeII (cy - y) (ay - y) (by' - y) (-Sab) (-Sbc) (-Sca) 0 (le_refl _) (by linarith) (by linarith) (by linarith) (by linarith) (by linarith) (by linarith)
    linarith
  · -- pattern (True, False, False)
    have na : ¬ y < ay := not_lt.mpr ha
    have sa : ay - y ≤ 0 := by linarith
    have lb : y < by' := not_le.mp hb
    have sb : 0 < by' - y := by linarith
    have lc : y < cy := not_le.mp hc
    have sc : 0 < cy - y := by linarith
    have hw : w3 ay by' cy y Sab Sbc Sca = (if 0 < Sab then (1 : Int) else 0) + (if Sca < 0 then -1 else 0) := by
      simp only [w3, ha, hb, hc, na, lb, lc, if_true, if_false, true_and, false_and, add_zero, zero_add]
      try ring
    rw [hw]
    refine ind _ _ (typeI (by' - y) (cy - y) (ay - y) Sca Sab Sbc 0 (le_refl _) (by linarith) (by linarith) (by linarith) (by linarith) (by linarith)) ?_
    intro hY
    have := typeI (cy - y) (by' - y) (ay - y) (-Sab) (-Sca) (-Sbc) 0 (le_refl _) (by linarith) (by linarith) (by linarith) (by linarith) (by linarith) (by linarith)
    linarith
  · -- pattern (False, True, True)
    have la : y < ay := not_le.mp ha
    have sa : 0 < ay - y := by linarith
    have nb : ¬ y < by' := not_lt.mpr hb
    have sb : by' - y ≤ 0 := by linarith
    have nc : ¬ y < cy := not_lt.mpr hc
    have sc : cy - y ≤ 0 := by linarith
    have hw : w3 ay by' cy y Sab Sbc Sca = (if 0 < Sca then (1 : Int) else 0) + (if Sab < 0 then -1 else 0) := by
      simp only [w3, ha, hb, hc, la, nb, nc, if_true, if_false, true_and, false_and, add_zero, zero_add]
      try ring
    rw [hw]
    refine ind _ _ (typeII (cy - y) (by' - y) (ay - y) Sab Sca Sbc 0 (le_refl _) (by linarith) (by linarith) (by linarith) (by linarith) (by linarith)) ?_
    intro hY
    have := typeII (by' - y) (cy - y) (ay - y) (-Sca) (-Sab) (-Sbc) 0 (le_refl _) (by linarith) (by linarith) (by linarith) (by linarith) (by linarith) (by linarith)
    linarith
  · -- pattern (False, True, False)
    have la : y < ay := not_le.mp ha
    have sa : 0 < ay - y := by linarith
    have nb : ¬ y < by' := not_lt.mpr hb
    have sb : by' - y ≤ 0 := by linarith
    have lc : y < cy := not_le.mp hc
    have sc : 0 < cy - y := by linarith
    have hw : w3 ay by' cy y Sab Sbc Sca = (if 0 < Sbc then (1 : Int) else 0) + (if Sab < 0 then -1 else 0) := by
      simp only [w3, ha, hb, hc, la, nb, lc, if_true, if_false, true_and, false_and, add_zero, zero_add]
      try ring
    rw [hw]
    refine ind _ _ (typeI (cy - y) (ay - y) (by' - y) Sab Sbc Sca 0 (le_refl _) (by linarith) (by linarith) (by linarith) (by linarith) (by linarith)) ?_
    intro hY
    have := typeI (ay - y) (cy - y) (by' - y) (-Sbc) (-Sab) (-Sca) 0 (le_refl _) (by linarith) (by linarith) (by linarith) (by linarith) (by linarith) (by linarith)
    linarith
  · -- pattern (False, False, True)
    have la : y < ay := not_le.mp ha
    have sa : 0 < ay - y := by linarith
    have lb : y < by' := not_le.mp hb
    have sb : 0 < by' - y := by linarith
    have nc : ¬ y < cy := not_lt.mpr hc
    have sc : cy - y ≤ 0 := by linarith
    have hw : w3 ay by' cy y Sab Sbc Sca = (if 0 < Sca then (1 : Int) else 0) + (if Sbc < 0 then -1 else 0) := by
      simp only [w3, ha, hb, hc, la, lb, nc, if_true, if_false, true_and, false_and, add_zero, zero_add]
      try ring
    rw [hw]
    refine ind _ _ (typeI (ay - y) (by' - y) (cy - y) Sbc Sca Sab 0 (le_refl _) (by linarith) (by linarith) (by linarith) (by linarith) (by linarith)) ?_
    intro hY
    have := typeI (by' - y) (ay - y) (cy - y) (-Sca) (-Sbc) (-Sab) 0 (le_refl _) (by linarith) (by linarith) (by linarith) (by linarith) (by linarith) (by linarith)
    linarith
  · simp only [w3, ha, hb, hc, if_false, false_and, add_zero]

theorem wnTri_degenerate (x : Pt) (a b c : Node) (h : sideOf (toPt a) (toPt b) (toPt c) = 0) : wnTri x (a, b, c) = 0 := by
  obtain ⟨i1, i2⟩ := tri_identities (toPt a) (toPt b) (toPt c) x
  rw [h] at i1
  have := w3_zero (toPt a).y (toPt b).y (toPt c).y x.y _ _ _ i1 i2
  simp only [wnTri, wnRing, wnPath, lastOr, wn1, wnStep]
  unfold w3 at this
  convert this <;> exact if_congr Iff.rfl (if_congr Iff.rfl rfl rfl) (if_congr Iff.rfl rfl rfl)

theorem wnRing_rotl (x : Pt) (l : List Node) : wnRing x (rotl l) = wnRing x l := by
  cases l with
  | nil => rfl
  | cons p ps => simpa [rotl] using wnRing_append_comm x ps [p]

theorem dropLast_append_lastOr (p : Node) (ps : List Node) : (p :: ps).dropLast ++ [lastOr p ps] = p :: ps := by
  induction ps generalizing p with
  | nil => rfl
  | cons q qs ih => simpa [lastOr, List.dropLast] using ih q

theorem wnRing_rotr (x : Pt) (l : List Node) : wnRing x (rotr l) = wnRing x l := by
  cases l with
  | nil => rfl
  | cons p ps =>
    have h := wnRing_append_comm x [lastOr p ps] (p :: ps).dropLast
    rw [dropLast_append_lastOr] at h
    simpa [rotr] using h

theorem removable_degenerate (p q : Node) (t : List Node) (h : removable (p :: q :: t) = true) :
    sideOf (toPt (lastOr q t)) (toPt p) (toPt q) = 0 := by
  simp only [removable, PolygonKernels.filterRemovable, Bool.and_eq_true, Bool.or_eq_true, Bool.not_eq_true',
    decide_eq_true_eq] at h
  rcases h.2 with ⟨hx, hy⟩ | h0
  · simp only [sideOf, toPt, hx, hy]; ring
  · simp only [PolygonKernels.area] at h0
    simp only [sideOf, toPt]; linarith

theorem filterPoints_winding (x : Pt) (l : List Node) (r : Nat) (m : Mark) :
    wnRing x (filterPointsM l r m).1 = wnRing x l := by
  fun_induction filterPointsM l r m with
  | case1 => rfl
  | case2 => rfl
  | case3 m r p q t hrem l' m' hempty =>
    have := wnTri_degenerate x _ _ _ (removable_degenerate p q t hrem)
    simp only [wnTri] at this
    rw [wnRing_rotr, ear_removal_winding, this]; ring
  | case4 m r p q t hrem l' m' hempty ih =>
    have := wnTri_degenerate x _ _ _ (removable_degenerate p q t hrem)
    simp only [wnTri] at this
    rw [ih, wnRing_rotr, ear_removal_winding, this]; ring
  | case5 m r p q t hrem m' hr => rw [wnRing_rotl]
  | case6 m r p q t hrem m' hr ih => rw [ih, wnRing_rotl]

def sumWnRings (x : Pt) (rs : List (List Node)) : Int := (rs.map (wnRing x)).sum
def cureWn (x : Pt) (c : Cure) : Int := wnTri x (c.2.1, c.2.2.1, c.2.2.2)
def sumCureWn (x : Pt) (cs : List Cure) : Int := (cs.map (cureWn x)).sum

/-- everything `earcut_linked` accounts for, as winding numbers around `x` -/
def outWn (x : Pt) (o : Out) : Int := sumWn x o.tris + sumWnRings x o.left + sumCureWn x o.cured

private theorem quad_winding (x : Pt) (a p q b : Node) :
    wnRing x [a, p, q] + wnRing x [a, q, b] = wnRing x [a, p, b] + wnRing x [p, q, b] := by
  simp only [wnRing, wnPath, lastOr, wn1_antisymm x a q, wn1_antisymm x a b, wn1_antisymm x p b]
  ring

theorem cureLoop_winding (x : Pt) (l : List Node) (r : Nat) :
    wnRing x l = wnRing x (cureLoop l r).1 + sumWn x (cureLoop l r).2.1 + sumCureWn x (cureLoop l r).2.2 := by
  fun_induction cureLoop l r with
  | case1 r p q b c t htest a rest ih =>
    have e1 := ear_removal_winding x p q (b :: c :: t)
    have e2 := ear_removal_winding x q b (c :: t)
    have hq := quad_winding x a p q b
    simp only [lastOr] at e1 e2
    rw [wnRing_rotl] at ih
    simp only [sumWn, sumCureWn, List.map_cons, List.sum_cons, wnTri, cureWn] at ih ⊢
    rw [e1, e2]
    linarith
  | case2 r p q b c t htest hr => simp [sumWn, sumCureWn, wnRing_rotl]
  | case3 r p q b c t htest hr ih => rw [wnRing_rotl] at ih; exact ih
  | case4 l r hl => simp [sumWn, sumCureWn, wnRing_rotBy]

private theorem wnPath_congr_head (x : Pt) {p p' : Node} (h : toPt p' = toPt p) (l : List Node) :
    wnPath x p' l = wnPath x p l := by
  cases l with
  | nil => rfl
  | cons q qs => simp only [wnPath, wn1, h]

theorem splitAt_winding (x : Pt) (la : List Node) (j : Nat) :
    wnRing x la = wnRing x (splitAt la j).1 + wnRing x (splitAt la j).2 := by
  unfold splitAt
  split
  · rename_i a xs b ys h1 h2
    have hla : la = (a :: xs) ++ (b :: ys) := by rw [← h1, ← h2, List.take_append_drop]
    rw [hla]
    simp only [wnRing, List.cons_append, wnPath, wnPath_append, lastOr, lastOr_append]
    have t1 : wn1 x ({ b with steiner := false } : Node) ({ a with steiner := false } : Node) = - wn1 x a b := by
      rw [← wn1_antisymm]; rfl
    have t2 : wnPath x ({ a with steiner := false } : Node) xs = wnPath x a xs :=
      wnPath_congr_head x (p := a) (p' := { a with steiner := false }) rfl xs
    have t3 : wn1 x (lastOr ({ a with steiner := false } : Node) xs) ({ b with steiner := false } : Node)
        = wn1 x (lastOr a xs) b := by
      cases xs with
      | nil => rfl
      | cons x' xs' => rfl
    rw [t1, t2, t3]; ring
  · simp [wnRing]

theorem findSplit_winding (x : Pt) (l r1 r2 : List Node) (h : findSplit l = some (r1, r2)) :
    wnRing x l = wnRing x r1 + wnRing x r2 := by
  unfold findSplit at h
  obtain ⟨s, _, hs⟩ := List.exists_of_findSome?_eq_some h
  obtain ⟨d, _, hd⟩ := List.exists_of_findSome?_eq_some hs
  simp only at hd
  split at hd
  · simp only [Option.some.injEq, Prod.mk.injEq] at hd
    obtain ⟨rfl, rfl⟩ := hd
    have ha := splitAt_winding x (rotBy s l) (d + 2)
    simp only [filterPoints, filterPoints_winding]
    rw [← ha, wnRing_rotBy]
  · simp at hd

private theorem sumWn_append (x : Pt) (a b : List Tri) : sumWn x (a ++ b) = sumWn x a + sumWn x b := by simp [sumWn]
private theorem sumWnRings_append (x : Pt) (a b : List (List Node)) : sumWnRings x (a ++ b) = sumWnRings x a + sumWnRings x b := by
  simp [sumWnRings]
private theorem sumCureWn_append (x : Pt) (a b : List Cure) : sumCureWn x (a ++ b) = sumCureWn x a + sumCureWn x b := by
  simp [sumCureWn]

/-- Winding balance of the whole ear slicing loop, for every ring, every pass, every amount of fuel and every point `x`:
winding number of the ring = emitted triangles + rings the run stopped on + triangles lost by `cure_local_intersections` -/
theorem earcutLinked_winding (x : Pt) (fuel : Nat) (l : List Node) (k pass : Nat) :
    wnRing x l = outWn x (earcutLinked fuel l k pass) := by
  induction fuel generalizing l k pass with
  | zero => simp [earcutLinked, outWn, sumWn, sumWnRings, sumCureWn]
  | succ fuel ih =>
    unfold earcutLinked
    split
    · simp [outWn, sumWn, sumWnRings, sumCureWn]
    · split
      · split
        · rename_i b c r _ _
          have h := ih (rotl (c :: r)) 0 pass
          rw [wnRing_rotl] at h
          simp only [outWn, sumWn, List.map_cons, List.sum_cons, wnTri] at h ⊢
          rw [ear_removal_winding]; linarith
        · simp [outWn, sumWn, sumWnRings, sumCureWn]
      · split
        · rw [← ih, wnRing_rotl]
        · split
          · rw [← ih]; simp only [filterPoints, filterPoints_winding, wnRing_rotl]
          · split
            · have hc := cureLoop_winding x (filterPoints (rotl l) (rotl l).length) (filterPoints (rotl l) (rotl l).length).length
              have h := ih (filterPoints (cureLoop (filterPoints (rotl l) (rotl l).length)
                (filterPoints (rotl l) (rotl l).length).length).1 (cureLoop (filterPoints (rotl l) (rotl l).length)
                (filterPoints (rotl l) (rotl l).length).length).1.length) 0 2
              simp only [filterPoints, filterPoints_winding, wnRing_rotl] at hc h
              simp only [outWn, sumWn_append, sumCureWn_append, filterPoints] at h ⊢
              linarith
            · dsimp only
              split
              · simp [outWn, sumWn, sumWnRings, sumCureWn, wnRing_rotl]
              · rename_i r1 r2 hsp
                have hs := findSplit_winding x _ _ _ hsp
                rw [wnRing_rotl] at hs
                have h1 := ih r1 0 0
                have h2 := ih r2 0 0
                simp only [outWn, Out.append, sumWn_append, sumWnRings_append, sumCureWn_append] at h1 h2 ⊢
                linarith

/-- `earcut_no_overlap` for the real loop and ANY ring (convex or not, with bridged holes): for a complete run whose triangles are
counter-clockwise, at a point `x` around which the ring winds at most once (every point, for a simple counter-clockwise polygon;
this is the one geometric hypothesis) at most one triangle contains `x` strictly; every triangle that contains `x` strictly lies
inside the polygon (winding number ≥ 1) -/
theorem earcutLinked_no_overlap (x : Pt) (fuel : Nat) (l : List Node) (k pass : Nat)
    (hcomplete : (earcutLinked fuel l k pass).complete) (hccw : ∀ t ∈ (earcutLinked fuel l k pass).tris, TriCcw t) :
    (wnRing x l ≤ 1 → List.Pairwise (fun t1 t2 => ¬ (StrictlyInside x t1 ∧ StrictlyInside x t2)) (earcutLinked fuel l k pass).tris) ∧
    (∀ t ∈ (earcutLinked fuel l k pass).tris, StrictlyInside x t → 1 ≤ wnRing x l) ∧ 0 ≤ wnRing x l := by
  have hw := earcutLinked_winding x fuel l k pass
  obtain ⟨h1, h2, _⟩ := hcomplete
  have hleft : sumWnRings x (earcutLinked fuel l k pass).left = 0 := by
    have : ∀ (rs : List (List Node)), (∀ r ∈ rs, r.length < 3) → sumWnRings x rs = 0 := by
      intro rs
      induction rs with
      | nil => intro _; rfl
      | cons r rs ih =>
        intro h
        simp only [sumWnRings, List.map_cons, List.sum_cons] at ih ⊢
        rw [wnRing_short x r (h r (by simp)), ih (fun r' hr' => h r' (List.mem_cons_of_mem _ hr'))]
        rfl
    exact this _ h1
  simp only [outWn, hleft, h2, sumCureWn, List.map_nil, List.sum_nil, add_zero] at hw
  rw [hw]
  exact ⟨fun h => pairwise_of_sum_le_one x _ hccw h, fun t ht hin => sumWn_inside x _ hccw t ht hin, sumWn_nonneg x _ hccw⟩

/-- the ring winding number is the winding number of `Model.Polygon` (the one `pip_agrees_exact` speaks about) of the point list -/
theorem wnRing_eq_windingNumber (x : Pt) (l : List Node) : wnRing x l = windingNumber x (l.map toPt) := by
  have h1 : ∀ (ps : List Node) (p : Node), lastPt (toPt p) (ps.map toPt) = toPt (lastOr p ps) := by
    intro ps
    induction ps with
    | nil => intro p; rfl
    | cons q qs ih => intro p; simp only [List.map_cons, lastPt, lastOr, ih]
  have h2 : ∀ (ps : List Node) (a : Node), windingGo x (toPt a) (ps.map toPt) = wnPath x a ps := by
    intro ps
    induction ps with
    | nil => intro a; rfl
    | cons q qs ih => intro a; simp only [List.map_cons, windingGo, wnPath, wn1, ih]
  cases l with
  | nil => rfl
  | cons p ps =>
    simp only [wnRing, List.map_cons, windingNumber, h1]
    exact (h2 (p :: ps) (lastOr p ps)).symm

/-! ## bridging holes -/

theorem mergeHole_winding (x : Pt) (a : Node) (as : List Node) (b : Node) (bs : List Node) :
    wnRing x (mergeHole (a :: as) (b :: bs)).1 = wnRing x (a :: as) + wnRing x (b :: bs) := by
  simp only [mergeHole, wnRing, wnPath, wnPath_append, lastOr, lastOr_append, List.cons_append]
  have t1 : wn1 x ({ b with steiner := false } : Node) ({ a with steiner := false } : Node) = - wn1 x a b := by
    rw [← wn1_antisymm]; rfl
  have t2 : wnPath x ({ a with steiner := false } : Node) as = wnPath x a as :=
    wnPath_congr_head x (p := a) (p' := { a with steiner := false }) rfl as
  have t3 : wn1 x (lastOr ({ a with steiner := false } : Node) as) a = wn1 x (lastOr a as) a := by
    cases as with
    | nil => rfl
    | cons y ys => rfl
  have t4 : wn1 x (lastOr b bs) ({ b with steiner := false } : Node) = wn1 x (lastOr b bs) b := rfl
  rw [t1, t2, t3, t4]; ring

/-- `eliminate_hole` (modelled situations): the winding number of the outer ring is unchanged (no bridge) or the hole's is added -/
theorem eliminateHole_winding (x : Pt) (hole outer : List Node) (h : (eliminateHole hole outer).2 = false) :
    wnRing x (eliminateHole hole outer).1 = wnRing x outer ∨
    wnRing x (eliminateHole hole outer).1 = wnRing x outer + wnRing x hole := by
  unfold eliminateHole at h ⊢
  split
  · exact Or.inl rfl
  · rename_i hd tl
    split
    · exact Or.inl rfl
    · rename_i idx hb
      simp only [hb] at h
      have hm : wnRing x (mergeHole (rotBy idx outer) (hd :: tl)).1 = wnRing x outer ∨
          wnRing x (mergeHole (rotBy idx outer) (hd :: tl)).1 = wnRing x outer + wnRing x (hd :: tl) := by
        cases hro : rotBy idx outer with
        | nil =>
          left
          have := wnRing_rotBy x idx outer
          rw [hro] at this
          simp [mergeHole, ← this]
        | cons a as =>
          right
          rw [mergeHole_winding, ← hro, wnRing_rotBy]
      dsimp only at h ⊢
      split
      · simp only [filterPoints, filterPoints_winding, wnRing_rotBy]; exact hm
      · split
        · split <;> simp only [filterPoints, filterPoints_winding, wnRing_rotBy] <;> exact hm
        · rename_i hk
          simp_all
      · simp_all

/-- all holes: the merged ring winds like the outer ring plus the bridged hole rings (a sublist of all hole rings) -/
theorem eliminateHoles_winding (x : Pt) : ∀ (rings : List (List Node)) (acc : List Node × Bool),
    (rings.foldl (fun (acc : List Node × Bool) h => ((eliminateHole h acc.1).1, acc.2 || (eliminateHole h acc.1).2)) acc).2 = false →
    ∃ used : List (List Node), used.Sublist rings ∧
      wnRing x (rings.foldl (fun (acc : List Node × Bool) h => ((eliminateHole h acc.1).1, acc.2 || (eliminateHole h acc.1).2)) acc).1
        = wnRing x acc.1 + sumWnRings x used
  | [], acc, _ => ⟨[], List.Sublist.slnil, by simp [sumWnRings]⟩
  | h :: hs, acc, hflag => by
    simp only [List.foldl_cons] at hflag ⊢
    obtain ⟨used, hsub, hw⟩ := eliminateHoles_winding x hs _ hflag
    have hmono : ∀ (rs : List (List Node)) (a : List Node × Bool),
        (rs.foldl (fun (acc : List Node × Bool) h => ((eliminateHole h acc.1).1, acc.2 || (eliminateHole h acc.1).2)) a).2 = false →
        a.2 = false := by
      intro rs
      induction rs with
      | nil => intro a ha; exact ha
      | cons r rs ih =>
        intro a ha
        have := ih _ ha
        simp only [Bool.or_eq_false_iff] at this
        exact this.1
    have hstep := hmono hs _ hflag
    simp only [Bool.or_eq_false_iff] at hstep
    rcases eliminateHole_winding x h acc.1 hstep.2 with e | e
    · exact ⟨used, List.Sublist.cons _ hsub, by rw [hw, e]⟩
    · refine ⟨h :: used, List.Sublist.cons_cons _ hsub, ?_⟩
      rw [hw, e]
      simp only [sumWnRings, List.map_cons, List.sum_cons]
      ring

/-! ## outside a counter-clockwise triangle the winding number is 0; coverage -/

private theorem typeI_out (p q r X Y Z : Rat) (i2 : p * X + q * Y + r * Z = 0) (hp : 0 < p) (hq : 0 < q) (hr : r ≤ 0) :
    Z < 0 → 0 ≤ X → ¬ 0 < Y := by
  intro hZ hX hY
  have t1 : 0 ≤ p * X := mul_nonneg hp.le hX
  have t2 : 0 < q * Y := mul_pos hq hY
  have t3 : 0 ≤ r * Z := mul_nonneg_of_nonpos_of_nonpos hr hZ.le
  linarith

private theorem typeII_out (p q r X Y Z : Rat) (i2 : p * X + q * Y + r * Z = 0) (hp : p ≤ 0) (hq : q ≤ 0) (hr : 0 < r) :
    Z < 0 → 0 ≤ X → ¬ 0 < Y := by
  intro hZ hX hY
  have t1 : p * X ≤ 0 := mul_nonpos_of_nonpos_of_nonneg hp hX
  have t2 : q * Y ≤ 0 := mul_nonpos_of_nonpos_of_nonneg hq hY.le
  have t3 : r * Z < 0 := mul_neg_of_pos_of_neg hr hZ
  linarith

private theorem w3_outside (ay by' cy y Sab Sbc Sca D : Rat) (hD : 0 < D) (i1 : Sab + Sbc + Sca = D)
    (i2 : (ay - y) * Sbc + (by' - y) * Sca + (cy - y) * Sab = 0) (hout : Sab < 0 ∨ Sbc < 0 ∨ Sca < 0) :
    w3 ay by' cy y Sab Sbc Sca = 0 := by
  by_cases ha : ay ≤ y <;> by_cases hb : by' ≤ y <;> by_cases hc : cy ≤ y
  · have na : ¬ y < ay := not_lt.mpr ha
    have nb : ¬ y < by' := not_lt.mpr hb
    have nc : ¬ y < cy := not_lt.mpr hc
    simp only [w3, ha, hb, hc, na, nb, nc, if_true, if_false, false_and, add_zero]
  · -- pattern (True, True, False)
    have na : ¬ y < ay := not_lt.mpr ha
    have sa : ay - y ≤ 0 := by linarith
    have nb : ¬ y < by' := not_lt.mpr hb
    have sb : by' - y ≤ 0 := by linarith
    have lc : y < cy := not_le.mp hc
    have sc : 0 < cy - y := by linarith
    have hw : w3 ay by' cy y Sab Sbc Sca = (if 0 < Sbc then (1 : Int) else 0) + (if Sca < 0 then -1 else 0) := by
      simp only [w3, ha, hb, hc, na, nb, lc, if_true, if_false, true_and, false_and, add_zero, zero_add]
      try ring
    rw [hw]
    have hNP := typeII (by' - y) (ay - y) (cy - y) Sca Sbc Sab D hD.le (by linarith) (by linarith) (by linarith) (by linarith) (by linarith)
    have hZ := typeII_out (by' - y) (ay - y) (cy - y) Sca Sbc Sab (by linarith) (by linarith) (by linarith) (by linarith)
    by_cases hp : 0 < Sbc <;> by_cases hn : Sca < 0 <;> simp only [hp, hn, if_true, if_false] <;> try omega
    · -- Y > 0, X ≥ 0: then Z < 0 is impossible, and X, Y ≥ 0: x is not outside
      exfalso
      have hZ' : ¬ Sab < 0 := fun hz => hZ hz (not_lt.mp hn) hp
      rcases hout with h | h | h <;> first | exact hZ' h | exact hn h | linarith
    · exact absurd (hNP hn) hp
  · -- pattern (True, False, True)
    have na : ¬ y < ay := not_lt.mpr ha
    have sa : ay - y ≤ 0 := by linarith
    have lb : y < by' := not_le.mp hb
    have sb : 0 < by' - y := by linarith
    have nc : ¬ y < cy := not_lt.mpr hc
    have sc : cy - y ≤ 0 := by linarith
    have hw : w3 ay by' cy y Sab Sbc Sca = (if 0 < Sab then (1 : Int) else 0) + (if Sbc < 0 then -1 else 0) := by
      simp only [w3, ha, hb, hc, na, lb, nc, if_true, if_false, true_and, false_and, add_zero, zero_add]
      try ring
    rw [hw]
    have hNP := typeII (ay - y) (cy - y) (by' - y) Sbc Sab Sca D hD.le (by linarith) (by linarith) (by linarith) (by linarith) (by linarith)
    have hZ := typeII_out (ay - y) (cy - y) (by' - y) Sbc Sab Sca (by linarith) (by linarith) (by linarith) (by linarith)
    by_cases hp : 0 < Sab <;> by_cases hn : Sbc < 0 <;> simp only [hp, hn, if_true, if_false] <;> try omega
    · -- Y > 0, X ≥ 0: then Z < 0 is impossible, and X, Y ≥ 0: x is not outside
      exfalso
      have hZ' : ¬ Sca < 0 := fun hz => hZ hz (not_lt.mp hn) hp
      rcases hout with h | h | h <;> first | exact hZ' h | exact hn h | linarith
    · exact absurd (hNP hn) hp
  · -- pattern (True, False, False)
    have na : ¬ y < ay := not_lt.mpr ha
    have sa : ay - y ≤ 0 := by linarith
    have lb : y < by' := not_le.mp hb
    have sb : 0 < by' - y := by linarith
    have lc : y < cy := not_le.mp hc
    have sc : 0 < cy - y := by linarith
    have hw : w3 ay by' cy y Sab Sbc Sca = (if 0 < Sab then (1 : Int) else 0) + (if Sca < 0 then -1 else 0) := by
      simp only [w3, ha, hb, hc, na, lb, lc, if_true, if_false, true_and, false_and, add_zero, zero_add]
      try ring
    rw [hw]
    have hNP := typeI (by' - y) (cy - y) (ay - y) Sca Sab Sbc D hD.le (by linarith) (by linarith) (by linarith) (by linarith) (by linarith)
    have hZ := typeI_out (by' - y) (cy - y) (ay - y) Sca Sab Sbc (by linarith) (by linarith) (by linarith) (by linarith)
    by_cases hp : 0 < Sab <;> by_cases hn : Sca < 0 <;> simp only [hp, hn, if_true, if_false] <;> try omega
    · -- Y > 0, X ≥ 0: then Z < 0 is impossible, and X, Y ≥ 0: x is not outside
      exfalso
      have hZ' : ¬ Sbc < 0 := fun hz => hZ hz (not_lt.mp hn) hp
      rcases hout with h | h | h <;> first | exact hZ' h | exact hn h | linarith
    · exact absurd (hNP hn) hp
  · -- pattern (False, True, True)
    have la : y < ay := not_le.mp ha
    have sa : 0 < ay - y := by linarith
    have nb : ¬ y < by' := not_lt.mpr hb
    have sb : by' - y ≤ 0 := by linarith
    have nc : ¬ y < cy := not_lt.mpr hc
    have sc : cy - y ≤ 0 := by linarith
    have hw : w3 ay by' cy y Sab Sbc Sca = (if 0 < Sca then (1 : Int) else 0) + (if Sab < 0 then -1 else 0) := by
      simp only [w3, ha, hb, hc, la, nb, nc, if_true, if_false, true_and, false_and, add_zero, zero_add]
      try ring
    rw [hw]
    have hNP := typeII (cy - y) (by' - y) (ay - y) Sab Sca Sbc D hD.le (by linarith) (by linarith) (by linarith) (by linarith) (by linarith)
    have hZ := typeII_out (cy - y) (by' - y) (ay - y) Sab Sca Sbc (by linarith) (by linarith) (by linarith) (by linarith)
    by_cases hp : 0 < Sca <;> by_cases hn : Sab < 0 <;> simp only [hp, hn, if_true, if_false] <;> try omega
    · -- Y > 0, X ≥ 0: then Z < 0 is impossible, and X, Y ≥ 0: x is not outside
      exfalso
      have hZ' : ¬ Sbc < 0 := fun hz => hZ hz (not_lt.mp hn) hp
      rcases hout with h | h | h <;> first | exact hZ' h | exact hn h | linarith
    · exact absurd (hNP hn) hp
  · -- pattern (False, True, False)
    have la : y < ay := not_le.mp ha
    have sa : 0 < ay - y := by linarith
    have nb : ¬ y < by' := not_lt.mpr hb
    have sb : by' - y ≤ 0 := by linarith
    have lc : y < cy := not_le.mp hc
    have sc : 0 < cy - y := by linarith
    have hw : w3 ay by' cy y Sab Sbc Sca = (if 0 < Sbc then (1 : Int) else 0) + (if Sab < 0 then -1 else 0) := by
      simp only [w3, ha, hb, hc, la, nb, lc, if_true, if_false, true_and, false_and, add_zero, zero_add]
      try ring
    rw [hw]
    have hNP := typeI (cy - y) (ay - y) (by' - y) Sab Sbc Sca D hD.le (by linarith) (by linarith) (by linarith) (by linarith) (by linarith)
    have hZ := typeI_out (cy - y) (ay - y) (by' - y) Sab Sbc Sca (by linarith) (by linarith) (by linarith) (by linarith)
    by_cases hp : 0 < Sbc <;> by_cases hn : Sab < 0 <;> simp only [hp, hn, if_true, if_false] <;> try omega
    · -- Y > 0, X ≥ 0: then Z < 0 is impossible, and X, Y ≥ 0: x is not outside
      exfalso
      have hZ' : ¬ Sca < 0 := fun hz => hZ hz (not_lt.mp hn) hp
      rcases hout with h | h | h <;> first | exact hZ' h | exact hn h | linarith
    · exact absurd (hNP hn) hp
  · -- pattern (False, False, True)
    have la : y < ay := not_le.mp ha
    have sa : 0 < ay - y := by linarith
    have lb : y < by' := not_le.mp hb
    have sb : 0 < by' - y := by linarith
    have nc : ¬ y < cy := not_lt.mpr hc
    have sc : cy - y ≤ 0 := by linarith
    have hw : w3 ay by' cy y Sab Sbc Sca = (if 0 < Sca then (1 : Int) else 0) + (if Sbc < 0 then -1 else 0) := by
      simp only [w3, ha, hb, hc, la, lb, nc, if_true, if_false, true_and, false_and, add_zero, zero_add]
      try ring
    rw [hw]
    have hNP := typeI (ay - y) (by' - y) (cy - y) Sbc Sca Sab D hD.le (by linarith) (by linarith) (by linarith) (by linarith) (by linarith)
    have hZ := typeI_out (ay - y) (by' - y) (cy - y) Sbc Sca Sab (by linarith) (by linarith) (by linarith) (by linarith)
    by_cases hp : 0 < Sca <;> by_cases hn : Sbc < 0 <;> simp only [hp, hn, if_true, if_false] <;> try omega
    · -- Y > 0, X ≥ 0: then Z < 0 is impossible, and X, Y ≥ 0: x is not outside
      exfalso
      have hZ' : ¬ Sab < 0 := fun hz => hZ hz (not_lt.mp hn) hp
      rcases hout with h | h | h <;> first | exact hZ' h | exact hn h | linarith
    · exact absurd (hNP hn) hp
  · simp only [w3, ha, hb, hc, if_false, false_and, add_zero]

/-- a point that is strictly outside one edge of a counter-clockwise triangle has winding number 0 -/
theorem wnTri_outside (x : Pt) (a b c : Node) (hccw : 0 < sideOf (toPt a) (toPt b) (toPt c))
    (hout : sideOf (toPt a) (toPt b) x < 0 ∨ sideOf (toPt b) (toPt c) x < 0 ∨ sideOf (toPt c) (toPt a) x < 0) :
    wnTri x (a, b, c) = 0 := by
  obtain ⟨i1, i2⟩ := tri_identities (toPt a) (toPt b) (toPt c) x
  have := w3_outside (toPt a).y (toPt b).y (toPt c).y x.y _ _ _ _ hccw i1 i2 hout
  simp only [wnTri, wnRing, wnPath, lastOr, wn1, wnStep]
  unfold w3 at this
  convert this <;> exact if_congr Iff.rfl (if_congr Iff.rfl rfl rfl) (if_congr Iff.rfl rfl rfl)

/-- `x` lies in the closed triangle -/
def InClosed (x : Pt) (t : Tri) : Prop :=
  0 ≤ sideOf (toPt t.1) (toPt t.2.1) x ∧ 0 ≤ sideOf (toPt t.2.1) (toPt t.2.2) x ∧ 0 ≤ sideOf (toPt t.2.2) (toPt t.1) x

theorem sumWn_pos_covers (x : Pt) : ∀ (ts : List Tri), (∀ t ∈ ts, TriCcw t) → 0 < sumWn x ts → ∃ t ∈ ts, InClosed x t
  | [], _, h => by simp [sumWn] at h
  | t :: ts, hccw, h => by
    simp only [sumWn, List.map_cons, List.sum_cons] at h
    by_cases hin : InClosed x t
    · exact ⟨t, by simp, hin⟩
    · have hout : sideOf (toPt t.1) (toPt t.2.1) x < 0 ∨ sideOf (toPt t.2.1) (toPt t.2.2) x < 0 ∨
          sideOf (toPt t.2.2) (toPt t.1) x < 0 := by
        unfold InClosed at hin
        by_contra hc
        simp only [not_or, not_lt] at hc
        exact hin ⟨hc.1, hc.2.1, hc.2.2⟩
      have h0 : wnTri x t = 0 := wnTri_outside x t.1 t.2.1 t.2.2 (hccw t (by simp)) hout
      rw [h0, zero_add] at h
      obtain ⟨t', ht', hc'⟩ := sumWn_pos_covers x ts (fun t' ht' => hccw t' (List.mem_cons_of_mem _ ht')) (by simpa [sumWn] using h)
      exact ⟨t', List.mem_cons_of_mem _ ht', hc'⟩

/-- coverage: in a complete run every point around which the ring winds (winding number ≥ 1) lies in the closed triangle of
some emitted triangle — nothing of the polygon is left uncovered -/
theorem earcutLinked_covers (x : Pt) (fuel : Nat) (l : List Node) (k pass : Nat)
    (hcomplete : (earcutLinked fuel l k pass).complete) (hccw : ∀ t ∈ (earcutLinked fuel l k pass).tris, TriCcw t)
    (hx : 0 < wnRing x l) : ∃ t ∈ (earcutLinked fuel l k pass).tris, InClosed x t := by
  have hw := earcutLinked_winding x fuel l k pass
  obtain ⟨h1, h2, _⟩ := hcomplete
  have hleft : sumWnRings x (earcutLinked fuel l k pass).left = 0 := by
    have : ∀ (rs : List (List Node)), (∀ r ∈ rs, r.length < 3) → sumWnRings x rs = 0 := by
      intro rs
      induction rs with
      | nil => intro _; rfl
      | cons r rs ih =>
        intro h
        simp only [sumWnRings, List.map_cons, List.sum_cons] at ih ⊢
        rw [wnRing_short x r (h r (by simp)), ih (fun r' hr' => h r' (List.mem_cons_of_mem _ hr'))]
        rfl
    exact this _ h1
  simp only [outWn, hleft, h2, sumCureWn, List.map_nil, List.sum_nil, add_zero] at hw
  rw [hw] at hx
  exact sumWn_pos_covers x _ hccw hx

/-! ## a ring in a closed half-plane does not wind around a point strictly outside that half-plane -/

theorem wnTri_reverse (x : Pt) (a b c : Node) : wnTri x (c, b, a) = - wnTri x (a, b, c) := by
  simp only [wnTri, wnRing, wnPath, lastOr, wn1_antisymm x c a, wn1_antisymm x b c, wn1_antisymm x a b]
  ring

theorem sideOf_rev3 (a b c : Pt) : sideOf c b a = - sideOf a b c := by simp only [sideOf]; ring

/-- Cramer: an affine function at `x`, weighted with the triangle's orientation, is the combination of its values at the corners -/
theorem affine_bary (g h a b c x : Pt) :
    sideOf g h x * sideOf a b c = sideOf b c x * sideOf g h a + sideOf c a x * sideOf g h b + sideOf a b x * sideOf g h c := by
  simp only [sideOf]; ring

theorem wnTri_halfplane (x g h : Pt) (a b c : Node) (ha : 0 ≤ sideOf g h (toPt a)) (hb : 0 ≤ sideOf g h (toPt b))
    (hc : 0 ≤ sideOf g h (toPt c)) (hx : sideOf g h x < 0) : wnTri x (a, b, c) = 0 := by
  have key : ∀ (a b c : Node), 0 ≤ sideOf g h (toPt a) → 0 ≤ sideOf g h (toPt b) → 0 ≤ sideOf g h (toPt c) →
      0 < sideOf (toPt a) (toPt b) (toPt c) → wnTri x (a, b, c) = 0 := by
    intro a b c ha hb hc hD
    apply wnTri_outside x a b c hD
    by_contra hin
    simp only [not_or, not_lt] at hin
    have e := affine_bary g h (toPt a) (toPt b) (toPt c) x
    have t1 := mul_nonneg hin.2.1 ha
    have t2 := mul_nonneg hin.2.2 hb
    have t3 := mul_nonneg hin.1 hc
    have t4 := mul_neg_of_neg_of_pos hx hD
    linarith
  rcases lt_trichotomy (sideOf (toPt a) (toPt b) (toPt c)) 0 with hD | hD | hD
  · have := key c b a hc hb ha (by rw [sideOf_rev3]; linarith)
    rw [wnTri_reverse] at this
    linarith
  · exact wnTri_degenerate x a b c hD
  · exact key a b c ha hb hc hD

theorem wnRing_halfplane (x g h : Pt) (hx : sideOf g h x < 0) : ∀ (n : Nat) (l : List Node), l.length ≤ n →
    (∀ v ∈ l, 0 ≤ sideOf g h (toPt v)) → wnRing x l = 0
  | 0, l, hl, _ => wnRing_short x l (by omega)
  | n + 1, l, hl, hv => by
    match l, hl, hv with
    | [], _, _ => rfl
    | [a], _, _ => exact wnRing_short x _ (by simp)
    | [a, b], _, _ => exact wnRing_short x _ (by simp)
    | b :: c :: d :: r, hl, hv =>
      rw [ear_removal_winding]
      have hlast : lastOr c (d :: r) ∈ b :: c :: d :: r := by
        have : ∀ (p : Node) (ps : List Node), lastOr p ps ∈ p :: ps := by
          intro p ps
          induction ps generalizing p with
          | nil => simp [lastOr]
          | cons q qs ih => simp only [lastOr]; exact List.mem_cons_of_mem _ (ih q)
        exact List.mem_cons_of_mem _ (this c (d :: r))
      have h1 := wnRing_halfplane x g h hx n (c :: d :: r) (by simp only [List.length_cons] at hl ⊢; omega)
        (fun v hvm => hv v (List.mem_cons_of_mem _ hvm))
      have h2 := wnTri_halfplane x g h (lastOr c (d :: r)) b c (hv _ hlast) (hv b (by simp)) (hv c (by simp)) hx
      simp only [wnTri] at h2
      rw [h1, h2]; rfl

/-- the same for point lists and the winding number of `Model.Polygon` -/
theorem windingNumber_halfplane (x g h : Pt) (poly : List Pt) (hv : ∀ v ∈ poly, 0 ≤ sideOf g h v) (hx : sideOf g h x < 0) :
    windingNumber x poly = 0 := by
  have e : poly = (poly.map (fun p => ({ i := 0, pt := 0, x := p.x, y := p.y, steiner := false } : Node))).map toPt := by
    rw [List.map_map]
    conv_lhs => rw [← List.map_id poly]
    apply List.map_congr_left
    intro p _
    rfl
  rw [e, ← wnRing_eq_windingNumber]
  apply wnRing_halfplane x g h hx _ _ (le_refl _)
  intro v hvm
  obtain ⟨p, hp, rfl⟩ := List.mem_map.mp hvm
  exact hv p hp

end EzdxfVerif.Lemmas.Winding

/-
OCS block references for the entity-tree model of C15: the matrix of an INSERT with an arbitrary (tilted) extrusion is
C12's `insertMatrix` (Model/Transform.lean, read only); as an affine map of the tree model it is `ocsInsertAff`.  C12's
`insert_matrix_law` then says that the step "the virtual INSERT absorbs the matrix `m`" of `xform` (`t.comp m`) is what
`Insert.transform` produces, pointwise.
-/
import Mathlib.Tactic.Ring
import Mathlib.Tactic.LinearCombination
import EzdxfVerif.Model.Transform
import EzdxfVerif.Model.BBoxTree
namespace EzdxfVerif.BBox.Lemmas
open EzdxfVerif.BBox

/-- a point of C12's model as a point of this model -/
def ofR3 (p : EzdxfVerif.Rat3.V3) : V3 := ⟨p.x, p.y, p.z⟩

/-- the affine part of a `Matrix44` (row vector convention of ezdxf: `v * M`) -/
def affOfM44 (m : EzdxfVerif.Rat3.M44) : Aff :=
  ⟨m.m0, m.m4, m.m8, m.m1, m.m5, m.m9, m.m2, m.m6, m.m10, m.m12, m.m13, m.m14⟩

theorem affOfM44_apply (m : EzdxfVerif.Rat3.M44) (p : EzdxfVerif.Rat3.V3) :
    (affOfM44 m).apply (ofR3 p) = ofR3 (EzdxfVerif.Transform.apply m p) := by
  simp only [affOfM44, Aff.apply, ofR3, EzdxfVerif.Transform.apply, EzdxfVerif.Gen.TransformKernels.mTransform, V3.mk.injEq]
  refine ⟨by ring, by ring, by ring⟩

/-- the matrix of an INSERT in an arbitrary OCS (`Insert.matrix44()`, C12's `insertMatrix`) as affine map of the tree model -/
def ocsInsertAff (o : EzdxfVerif.Transform.Ocs) (i : EzdxfVerif.Transform.Ins) (base : EzdxfVerif.Rat3.V3) : Aff :=
  affOfM44 (EzdxfVerif.Transform.insertMatrix o i base)

/-- composition of matrices as affine maps: first `a`, then `m` (ezdxf: `a * m`) -/
theorem affOfM44_comp_apply (m a : EzdxfVerif.Rat3.M44) (p : EzdxfVerif.Rat3.V3) :
    ((affOfM44 m).comp (affOfM44 a)).apply (ofR3 p) =
      ofR3 (EzdxfVerif.Transform.apply m (EzdxfVerif.Transform.apply a p)) := by
  simp only [affOfM44, Aff.apply, Aff.comp, ofR3, EzdxfVerif.Transform.apply, EzdxfVerif.Gen.TransformKernels.mTransform,
    V3.mk.injEq]
  refine ⟨by ring, by ring, by ring⟩

open EzdxfVerif.Rat3 EzdxfVerif.Transform EzdxfVerif.Gen in
/-- C12's `insert_matrix_law` in the vocabulary of the tree model (proof as in Props/C12.lean): if the transformed INSERT
    has the images of the old scaled axes as its scaled axes and the image of the old insertion point as insertion point
    (what `Insert.transform` establishes, C12 `insert_transform_law`), then its matrix is `m` after the old matrix - the
    absorption step `t.comp m` of `xform` - for every block base point, for any (tilted) OCS -/
theorem ocs_insert_absorb (old new : Ocs) (m : M44) (i i' : Ins) (base : Rat3.V3)
    (hx : (insertMatrix new i' ⟨0, 0, 0⟩).ux = applyDir m (insertMatrix old i ⟨0, 0, 0⟩).ux)
    (hy : (insertMatrix new i' ⟨0, 0, 0⟩).uy = applyDir m (insertMatrix old i ⟨0, 0, 0⟩).uy)
    (hz : (insertMatrix new i' ⟨0, 0, 0⟩).uz = applyDir m (insertMatrix old i ⟨0, 0, 0⟩).uz)
    (hins : new.toWcs i'.insert = Transform.apply m (old.toWcs i.insert)) (p : Rat3.V3) :
    (ocsInsertAff new i' base).apply (ofR3 p) = ((affOfM44 m).comp (ocsInsertAff old i base)).apply (ofR3 p) := by
  unfold ocsInsertAff
  rw [affOfM44_apply, affOfM44_comp_apply]
  congr 1
  simp only [insertMatrix, M44.ux, M44.uy, M44.uz] at *
  generalize new.toWcs i'.insert = q' at *
  generalize old.toWcs i.insert = q at *
  obtain ⟨q1, q2, q3⟩ := q; obtain ⟨q1', q2', q3'⟩ := q'
  generalize old.ux = a at *; generalize old.uy = b at *; generalize old.uz = c at *
  generalize new.ux = a' at *; generalize new.uy = b' at *; generalize new.uz = c' at *
  simp only [Transform.apply, applyDir, TransformKernels.mTransform,
    TransformKernels.mTransformDirection, Rat3.V3.add, Rat3.V3.sub, Rat3.V3.smul, Rat3.V3.mk.injEq] at *
  obtain ⟨hx1, hx2, hx3⟩ := hx; obtain ⟨hy1, hy2, hy3⟩ := hy; obtain ⟨hz1, hz2, hz3⟩ := hz
  obtain ⟨hi1, hi2, hi3⟩ := hins
  refine ⟨?_, ?_, ?_⟩
  · linear_combination (p.x - base.x) * hx1 + (p.y - base.y) * hy1 + (p.z - base.z) * hz1 + hi1
  · linear_combination (p.x - base.x) * hx2 + (p.y - base.y) * hy2 + (p.z - base.z) * hz2 + hi2
  · linear_combination (p.x - base.x) * hx3 + (p.y - base.y) * hy3 + (p.z - base.z) * hz3 + hi3

open EzdxfVerif.Rat3 EzdxfVerif.Transform in
/-- the core-Lean matrix `ocsAff` of the tree model (used by the driver of stream X6) is C12's `insertMatrix` -/
theorem ocsAff_eq (o : Ocs) (i : Ins) (base : Rat3.V3) :
    ocsInsertAff o i base =
      ocsAff (ofR3 o.ux) (ofR3 o.uy) (ofR3 o.uz) (ofR3 base) ⟨i.sx, i.sy, i.sz⟩ (ofR3 i.insert) i.rot.x i.rot.y := by
  cases ht : o.t <;>
    simp [ocsInsertAff, affOfM44, insertMatrix, ocsAff, ofR3, Ocs.ux, Ocs.uy, Ocs.uz, Ocs.toWcs, ht, M44.ux, M44.uy, M44.uz,
      Gen.TransformKernels.ocsToWcs, Rat3.V3.add, Rat3.V3.sub, Rat3.V3.smul]

end EzdxfVerif.BBox.Lemmas

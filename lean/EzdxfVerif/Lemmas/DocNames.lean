/-
Name lookups of the table entries (LTYPE, STYLE, DIMSTYLE, APPID, UCS, VIEW) follow the abstract model "a table is a set
of case-insensitive keys": refinement lemmas for Props/C05.
-/
import EzdxfVerif.Lemmas.DocExplode
namespace EzdxfVerif.Doc

/-- `name in doc.<table>`: case-insensitive -/
def hasEntry (s : State) (t : Nat) (name : Str) : Bool := s.tabs.contains (t, lower name)

/-- every (table, key) pair is stored once -/
def TabInv (s : State) : Prop := s.tabs.Nodup

/-! ### which operations touch the tables -/

theorem newEnt_tabs (s : State) (k h seed : Nat) (r : Option Str) (subs : List Nat) :
    (newEnt s k h seed r subs).1.tabs = s.tabs := by
  unfold newEnt; split
  · rfl
  · split <;> rfl

theorem unlinkCore_tabs {s s' : State} {k e : Nat} (h : unlinkCore s k e = some s') : s'.tabs = s.tabs := by
  unfold unlinkCore at h
  split at h
  · cases h; rfl
  · split at h
    · cases h
    · split at h
      · cases h; rfl
      · cases h

theorem addExisting_tabs (s : State) (k e : Nat) : (addExisting s k e).1.tabs = s.tabs := by
  unfold addExisting; split
  · split
    · rfl
    · split <;> rfl
  · rfl

theorem renameBlock_tabs (s : State) (a b : Str) : (renameBlock s a b).1.tabs = s.tabs := by
  unfold renameBlock; split
  · rfl
  · split <;> rfl

theorem setActive_tabs (s : State) (n : Str) : (setActive s n).1.tabs = s.tabs := by
  unfold setActive
  split
  · rfl
  · split
    · rfl
    · split
      · split
        · rfl
        · simp only [renameBlock_tabs]
      · rfl

theorem dropAll_tabs : ∀ (l : List Nat) (s : State), (dropAll s l).tabs = s.tabs
  | [], _ => rfl
  | a :: r, s => by
    simp only [dropAll, List.foldl_cons]
    have := dropAll_tabs r (dropContainer s a)
    simp only [dropAll] at this
    rw [this]; rfl

theorem audit_tabs (s : State) : (audit s).1.tabs = s.tabs := by
  show (auditLayouts (auditSpaces s)).tabs = s.tabs
  obtain ⟨bl, hbl⟩ := auditLayouts_eq (auditSpaces s)
  rw [hbl]
  show (dropAll (auditSpaces s) (orphanBlocks (auditSpaces s))).tabs = s.tabs
  rw [dropAll_tabs]; rfl

/-- only add / remove / duplicate entry and save+reload change the tables -/
theorem step_tabs (s : State) (op : Op) :
    (step s op).1.tabs = s.tabs ∨
    (∃ t n seed, op = .addEntry t n seed) ∨ (∃ t n, op = .delEntry t n) ∨ (∃ t a b seed, op = .dupEntry t a b seed) ∨
    (∃ seed, op = .reload seed) := by
  cases op with
  | add k h seed => exact Or.inl (newEnt_tabs ..)
  | ins k n h seed => exact Or.inl (newEnt_tabs ..)
  | addL k r h subs seed => exact Or.inl (newEnt_tabs ..)
  | unlink k e =>
    left; simp only [step]; split
    · rename_i h1; exact unlinkCore_tabs h1
    · rfl
  | addex k e => exact Or.inl (addExisting_tabs ..)
  | move k1 e k2 =>
    left; simp only [step]; split
    · rfl
    · split
      · rfl
      · rename_i s1 h1
        have := addExisting_tabs s1 k2 e
        split
        · rename_i s2 heq; rw [heq] at this; simp only at this; rw [this, unlinkCore_tabs h1]
        · rfl
  | del k e =>
    left; simp only [step]; split
    · rfl
    · rename_i s1 h1
      show s1.tabs = s.tabs
      exact unlinkCore_tabs h1
  | destroy e => exact Or.inl rfl
  | copy e k h subs seed =>
    left; simp only [step]; split
    · split
      · split
        · exact newEnt_tabs ..
        · rfl
      · rfl
    · rfl
  | explode e news seed =>
    left
    rcases explode_cases s e news seed with ⟨er, h0⟩ | ⟨x, name, k, b, s', hx, hal, hr, ho', hsp, hb, hshape, hfresh, htexts, hcore, hstep⟩
    · rw [h0]
    · rw [hstep]
      obtain ⟨s2, h2, rfl⟩ := explodeCore_parts hcore
      show s2.tabs = s.tabs
      rw [unlinkCore_tabs h2]; rfl
  | purge => exact Or.inl rfl
  | newBlock n br seed =>
    left; simp only [step]; split
    · rfl
    · split <;> rfl
  | delBlock n safe =>
    left; simp only [step]; split
    · rfl
    · split <;> rfl
  | renBlock a b => exact Or.inl (renameBlock_tabs ..)
  | newLayout n br seed =>
    left; simp only [step]; split
    · rfl
    · split
      · rfl
      · split <;> rfl
  | delLayout n =>
    left; simp only [step]; split
    · rfl
    · split
      · rfl
      · split
        · rfl
        · simp only [dropContainer]
          split
          · split
            · exact setActive_tabs ..
            · rfl
          · rfl
  | renLayout a b =>
    left; simp only [step]; split
    · rfl
    · split
      · rfl
      · split <;> rfl
  | activate n => exact Or.inl (setActive_tabs ..)
  | addLayer n seed =>
    left; simp only [step]; split
    · rfl
    · split <;> rfl
  | delLayer n => left; simp only [step]; split <;> rfl
  | reload seed => exact Or.inr (Or.inr (Or.inr (Or.inr ⟨seed, rfl⟩)))
  | foreign kind e => left; simp only [step]; split <;> rfl
  | audit seed =>
    left; simp only [step]; split
    · exact audit_tabs s
    · rfl
  | addEntry t n seed => exact Or.inr (Or.inl ⟨t, n, seed, rfl⟩)
  | delEntry t n => exact Or.inr (Or.inr (Or.inl ⟨t, n, rfl⟩))
  | dupEntry t a b seed => exact Or.inr (Or.inr (Or.inr (Or.inl ⟨t, a, b, seed, rfl⟩)))
  | newGroup n h seed =>
    left; simp only [step]; split
    · rfl
    · split <;> rfl
  | setGroup n ms =>
    left; simp only [step]; split
    · rfl
    · split <;> rfl
  | delGroup n => left; simp only [step]; split <;> rfl

theorem addMissing_nodup : ∀ (req tabs : List (Nat × Str)), tabs.Nodup → (addMissing tabs req).Nodup
  | [], tabs, h => by simpa [addMissing] using h
  | a :: t, tabs, h => by
    simp only [addMissing, List.foldl_cons]
    apply addMissing_nodup t
    split
    · exact h
    · rename_i hc
      refine List.nodup_append.mpr ⟨h, by simp, ?_⟩
      intro x hx y hy hxy
      simp only [List.mem_singleton] at hy
      subst hy; subst hxy
      exact hc (by simpa using hx)

theorem step_TabInv (s : State) (op : Op) (h : TabInv s) : TabInv (step s op).1 := by
  rcases step_tabs s op with h0 | ⟨t, n, seed, rfl⟩ | ⟨t, n, rfl⟩ | ⟨t, a, b, seed, rfl⟩ | ⟨seed, rfl⟩
  · unfold TabInv; rw [h0]; exact h
  · unfold TabInv at *
    simp only [step]; split
    · exact h
    · rename_i hc
      split
      · refine List.nodup_append.mpr ⟨h, by simp, ?_⟩
        intro x hx y hy hxy
        simp only [List.mem_singleton] at hy
        subst hy; subst hxy
        exact hc (by simpa using hx)
      · exact h
  · unfold TabInv at *
    simp only [step]; split
    · exact h.erase _
    · exact h
  · unfold TabInv at *
    simp only [step]; split
    · exact h
    · split
      · split
        · exact h
        · rename_i hc
          refine List.nodup_append.mpr ⟨h, by simp, ?_⟩
          intro x hx y hy hxy
          simp only [List.mem_singleton] at hy
          subst hy; subst hxy
          exact hc (by simpa using hx)
      · exact h
  · unfold TabInv at *
    simp only [step]; split
    · exact addMissing_nodup _ _ h
    · exact h

theorem tab_inv_reachable (s : State) (ops : List Op) (h : TabInv s) : TabInv (run s ops) := by
  induction ops generalizing s with
  | nil => exact h
  | cons op r ih => exact ih _ (step_TabInv s op h)

/-! ### the lookups after add / remove / duplicate -/

theorem pair_beq (t' t : Nat) (a b : Str) : ((t', a) = (t, b)) ↔ ((t' == t && a == b) = true) := by
  simp [Prod.mk.injEq]

/-- `table.add(name)`: an existing name (any spelling) is rejected and nothing changes; otherwise exactly this key is new -/
theorem spec_addEntry (s : State) (t : Nat) (name : Str) (seed : Nat) (hseed : s.next ≤ seed) :
    (hasEntry s t name = true → step s (.addEntry t name seed) = (s, .err .dxfTableEntryError)) ∧
    (hasEntry s t name = false → (step s (.addEntry t name seed)).2 = .ok ∧
      ∀ t' n', hasEntry (step s (.addEntry t name seed)).1 t' n' =
        (hasEntry s t' n' || (t' == t && lower n' == lower name))) := by
  have hf : freshOk s [] seed = true := by simp [freshOk, hseed]
  constructor
  · intro h
    unfold hasEntry at h
    simp only [step, h, ↓reduceIte]
  · intro h
    unfold hasEntry at h
    simp only [step, h, Bool.false_eq_true, ↓reduceIte, hf, true_and]
    intro t' n'
    unfold hasEntry
    rw [Bool.eq_iff_iff]
    simp only [List.contains_iff_mem, List.mem_append, List.mem_singleton, Bool.or_eq_true, pair_beq]

/-- `table.remove(name)`: an unknown name is rejected and nothing changes; otherwise exactly this key is gone -/
theorem spec_delEntry (s : State) (t : Nat) (name : Str) (hi : TabInv s) :
    (hasEntry s t name = false → step s (.delEntry t name) = (s, .err .dxfTableEntryError)) ∧
    (hasEntry s t name = true → (step s (.delEntry t name)).2 = .ok ∧
      ∀ t' n', hasEntry (step s (.delEntry t name)).1 t' n' =
        (hasEntry s t' n' && !(t' == t && lower n' == lower name))) := by
  constructor
  · intro h
    unfold hasEntry at h
    simp only [step, h, Bool.false_eq_true, ↓reduceIte]
  · intro h
    unfold hasEntry at h
    simp only [step, h, ↓reduceIte, true_and]
    intro t' n'
    unfold hasEntry
    rw [Bool.eq_iff_iff]
    simp only [List.contains_iff_mem, Bool.and_eq_true, Bool.not_eq_true', ← Bool.not_eq_true, ← pair_beq]
    rw [List.Nodup.mem_erase_iff hi]
    have hp : ((t', lower n') ≠ (t, lower name)) ↔ ¬((t' == t) = true ∧ (lower n' == lower name) = true) := by
      simp [Prod.mk.injEq]
    rw [hp]
    exact ⟨fun h => ⟨h.2, h.1⟩, fun h => ⟨h.2, h.1⟩⟩

/-- `table.duplicate_entry(a, b)`: an unknown source is rejected and nothing changes; otherwise the key of `b` exists
    afterwards and no other lookup changes (an existing `b` is replaced: the set of names is unchanged) -/
theorem spec_dupEntry (s : State) (t : Nat) (a b : Str) (seed : Nat) (hseed : s.next ≤ seed) :
    (hasEntry s t a = false → step s (.dupEntry t a b seed) = (s, .err .dxfTableEntryError)) ∧
    (hasEntry s t a = true → (step s (.dupEntry t a b seed)).2 = .ok ∧
      ∀ t' n', hasEntry (step s (.dupEntry t a b seed)).1 t' n' =
        (hasEntry s t' n' || (t' == t && lower n' == lower b))) := by
  have hf : freshOk s [] seed = true := by simp [freshOk, hseed]
  constructor
  · intro h
    unfold hasEntry at h
    simp only [step, h, Bool.not_false, ↓reduceIte]
  · intro h
    unfold hasEntry at h
    simp only [step, h, Bool.not_true, Bool.false_eq_true, ↓reduceIte, hf, true_and]
    intro t' n'
    unfold hasEntry
    rw [Bool.eq_iff_iff]
    split
    · rename_i hc
      have hc' : (t, lower b) ∈ s.tabs := by simpa using hc
      simp only [List.contains_iff_mem, Bool.or_eq_true, ← pair_beq]
      constructor
      · exact fun h => Or.inl h
      · rintro (h | h)
        · exact h
        · rw [h]; exact hc'
    · simp only [List.contains_iff_mem, List.mem_append, List.mem_singleton, Bool.or_eq_true, pair_beq]

/-! ### required table entries stay present as long as no operation removes them -/

/-- the operation does not remove the table entry `r` -/
def KeepsEntry (r : Nat × Str) : Op → Prop
  | .delEntry t n => (t, lower n) ≠ r
  | _ => True

theorem step_keeps_entry (s : State) (op : Op) (r : Nat × Str) (hk : KeepsEntry r op) (hr : r ∈ s.tabs) :
    r ∈ (step s op).1.tabs := by
  rcases step_tabs s op with h0 | ⟨t, n, seed, rfl⟩ | ⟨t, n, rfl⟩ | ⟨t, a, b, seed, rfl⟩ | ⟨seed, rfl⟩
  · rw [h0]; exact hr
  · simp only [step]; split
    · exact hr
    · split
      · exact List.mem_append_left _ hr
      · exact hr
  · simp only [step]; split
    · exact (List.mem_erase_of_ne (fun h => hk h.symm)).mpr hr
    · exact hr
  · simp only [step]; split
    · exact hr
    · split
      · split
        · exact hr
        · exact List.mem_append_left _ hr
      · exact hr
  · simp only [step]; split
    · exact (addMissing_mem requiredTabs s.tabs).1 r hr
    · exact hr

/-- required table entries present in EVERY reachable state: if they are present at the start (a new or loaded document)
    and no operation of the history removes one of them, they are present at the end -/
theorem required_entries_kept (s : State) (ops : List Op) (h0 : ∀ r ∈ requiredTabs, r ∈ s.tabs)
    (hops : ∀ op ∈ ops, ∀ r ∈ requiredTabs, KeepsEntry r op) : ∀ r ∈ requiredTabs, r ∈ (run s ops).tabs := by
  induction ops generalizing s with
  | nil => exact h0
  | cons op rest ih =>
    refine ih (step s op).1 (fun r hr => step_keeps_entry s op r (hops op (by simp) r hr) (h0 r hr))
      (fun o ho => hops o (by simp [ho]))

/-! ### a second save + reload changes neither the tables nor the groups -/

theorem addMissing_id : ∀ (req tabs : List (Nat × Str)), (∀ r ∈ req, r ∈ tabs) → addMissing tabs req = tabs
  | [], _, _ => rfl
  | a :: t, tabs, h => by
    simp only [addMissing, List.foldl_cons]
    have ha : tabs.contains a = true := by simpa using h a (by simp)
    simp only [ha, ↓reduceIte]
    exact addMissing_id t tabs (fun r hr => h r (by simp [hr]))

/-- a valid group member (alive, owned by a layout) survives save + reload unchanged -/
theorem findEnt_reload_valid (s : State) (seed : Nat) (hd : DbInv s) (hseed : s.next ≤ seed) (x : Nat)
    (hv : validMember s x = true) : findEnt (step s (.reload seed)).1 x = findEnt s x := by
  obtain ⟨_, hE, _⟩ := reload_state s seed hseed
  simp only [findEnt, hE, reloadEnts]
  rw [find_map_h _ _ (fun y => by split <;> rfl)]
  simp only [validMember] at hv
  cases hf : findEnt s x with
  | none => simp [hf] at hv
  | some e =>
    simp only [findEnt] at hf
    simp only [hf, Option.map_some, Option.some.injEq]
    simp only [findEnt, hf, Bool.and_eq_true] at hv
    have hdb := hd e (List.mem_of_find?_eq_some hf) hv.1
    cases ho : e.owner with
    | none => simp [ho] at hv
    | some k => simp [hv.1, hdb, ho]

theorem validMember_reload (s : State) (seed : Nat) (hd : DbInv s) (hseed : s.next ≤ seed) (x : Nat)
    (hv : validMember s x = true) : validMember (step s (.reload seed)).1 x = true := by
  have hf := findEnt_reload_valid s seed hd hseed x hv
  obtain ⟨_, _, hS⟩ := reload_state s seed hseed
  have hL : (step s (.reload seed)).1.layouts = s.layouts := by simp [step, hseed]
  simp only [validMember, hf] at hv ⊢
  cases hfe : findEnt s x with
  | none => simp [hfe] at hv
  | some e =>
    simp only [hfe, Bool.and_eq_true] at hv ⊢
    refine ⟨hv.1, ?_⟩
    cases ho : e.owner with
    | none => simp [ho] at hv
    | some k =>
      simp only [ho, Bool.and_eq_true] at hv ⊢
      refine ⟨by simpa only [isLayoutBr, hL] using hv.2.1, ?_⟩
      simp only [spaceOf, hS, spaceOf_map_filter]
      simp only [spaceOf] at hv
      cases hsp : (s.spaces.find? (·.1 = k)).map (·.2) with
      | none => simp [hsp] at hv
      | some l => simp

theorem auditGroup_reload_idem (s : State) (seed : Nat) (hd : DbInv s) (hseed : s.next ≤ seed)
    (g : Str × Nat × List Nat) :
    auditGroup (step s (.reload seed)).1 (auditGroup s g) = auditGroup s g := by
  have hvalid : ∀ x ∈ g.2.2.filter (validMember s), validMember (step s (.reload seed)).1 x = true := by
    intro x hx
    exact validMember_reload s seed hd hseed x (List.mem_filter.mp hx).2
  have hown : ∀ x ∈ g.2.2.filter (validMember s), ownerOf (step s (.reload seed)).1 x = ownerOf s x := by
    intro x hx
    simp only [ownerOf, findEnt_reload_valid s seed hd hseed x (List.mem_filter.mp hx).2]
  simp only [auditGroup]
  split
  · rename_i hs
    rw [filter_all_true _ _ hvalid]
    have hsl : sameLayout (step s (.reload seed)).1 (g.2.2.filter (validMember s)) = true := by
      generalize hv : g.2.2.filter (validMember s) = v at *
      cases v with
      | nil => rfl
      | cons m r =>
        simp only [sameLayout, List.all_eq_true, beq_iff_eq] at hs ⊢
        intro x hx
        rw [hown x (by simp [hx]), hown m (by simp)]
        exact hs x hx
    simp only [hsl, ↓reduceIte]
  · simp [sameLayout]

/-- a second save/load cycle changes neither the table entries nor the groups -/
theorem reload_twice_tabs_groups (s : State) (seed seed2 : Nat) (hd : DbInv s) (hseed : s.next ≤ seed)
    (hseed2 : seed ≤ seed2) :
    let s1 := (step s (.reload seed)).1
    let s2 := (step s1 (.reload seed2)).1
    s2.tabs = s1.tabs ∧ s2.groups = s1.groups := by
  intro s1 s2
  have hn1 : s1.next = seed := by simp [s1, step, hseed]
  have hseed1 : s1.next ≤ seed2 := by omega
  have ht1 : s1.tabs = addMissing s.tabs requiredTabs := by simp [s1, step, hseed]
  have hg1 : s1.groups = s.groups.map (auditGroup s) := by simp [s1, step, hseed]
  have ht2 : s2.tabs = addMissing s1.tabs requiredTabs := by simp [s2, step, hseed1]
  have hg2 : s2.groups = s1.groups.map (auditGroup s1) := by simp [s2, step, hseed1]
  constructor
  · rw [ht2]
    apply addMissing_id
    rw [ht1]
    exact (addMissing_mem requiredTabs s.tabs).2
  · rw [hg2, hg1, List.map_map]
    apply List.map_congr_left
    intro g _
    exact auditGroup_reload_idem s seed hd hseed g

/-! ### group names: `doc.groups` as a case-insensitive name map -/

/-- `name in doc.groups` -/
def hasGroup (s : State) (name : Str) : Bool := (groupOf s name).isSome

theorem hasGroup_iff (s : State) (name : Str) :
    hasGroup s name = true ↔ ∃ g ∈ s.groups, lower g.1 = lower name := by
  simp only [hasGroup, groupOf, Option.isSome_iff_exists]
  constructor
  · rintro ⟨g, hg⟩
    exact ⟨g, List.mem_of_find?_eq_some hg, by simpa using List.find?_some hg⟩
  · rintro ⟨g, hg, hk⟩
    cases hf : s.groups.find? (fun g => decide (lower g.1 = lower name)) with
    | none =>
      have := List.find?_eq_none.mp hf g hg
      simp [hk] at this
    | some x => exact ⟨x, rfl⟩

/-- `doc.groups.new(name)`: an existing name (any spelling) is rejected and nothing changes; otherwise exactly this name
    is new and the new group is empty -/
theorem spec_newGroup (s : State) (name : Str) (h seed : Nat) (hf : freshOk s [h] seed = true) :
    (hasGroup s name = true → step s (.newGroup name h seed) = (s, .err .dxfValueError)) ∧
    (hasGroup s name = false → (step s (.newGroup name h seed)).2 = .ok ∧
      (step s (.newGroup name h seed)).1.groups = s.groups ++ [(name, h, [])] ∧
      ∀ n', hasGroup (step s (.newGroup name h seed)).1 n' = (hasGroup s n' || lower n' == lower name)) := by
  constructor
  · intro hg
    unfold hasGroup at hg
    simp only [step, hg, ↓reduceIte]
  · intro hg
    unfold hasGroup at hg
    simp only [step, hg, Bool.false_eq_true, ↓reduceIte, hf, true_and]
    intro n'
    rw [Bool.eq_iff_iff, hasGroup_iff]
    simp only [Bool.or_eq_true, hasGroup_iff, beq_iff_eq, List.mem_append, List.mem_singleton]
    constructor
    · rintro ⟨g, hgm | rfl, hk⟩
      · exact Or.inl ⟨g, hgm, hk⟩
      · exact Or.inr hk.symm
    · rintro (⟨g, hgm, hk⟩ | hk)
      · exact ⟨g, Or.inl hgm, hk⟩
      · exact ⟨(name, h, []), Or.inr rfl, hk.symm⟩

/-- `doc.groups.delete(name)`: an unknown name is rejected and nothing changes; otherwise the group is gone under every
    spelling and no other name lookup changes -/
theorem spec_delGroup (s : State) (name : Str) :
    (hasGroup s name = false → step s (.delGroup name) = (s, .err .dxfValueError)) ∧
    (hasGroup s name = true → (step s (.delGroup name)).2 = .ok ∧
      ∀ n', hasGroup (step s (.delGroup name)).1 n' = (hasGroup s n' && !(lower n' == lower name))) := by
  constructor
  · intro hg
    unfold hasGroup at hg
    simp only [step, hg, Bool.false_eq_true, ↓reduceIte]
  · intro hg
    unfold hasGroup at hg
    simp only [step, hg, ↓reduceIte, true_and]
    intro n'
    rw [Bool.eq_iff_iff, hasGroup_iff]
    simp only [Bool.and_eq_true, hasGroup_iff, Bool.not_eq_true', beq_eq_false_iff_ne, ne_eq, List.mem_filter,
      decide_eq_true_eq]
    constructor
    · rintro ⟨g, ⟨hgm, hne⟩, hk⟩
      exact ⟨⟨g, hgm, hk⟩, fun h => hne (by rw [hk, h])⟩
    · rintro ⟨⟨g, hgm, hk⟩, hne⟩
      exact ⟨g, ⟨hgm, fun h => hne (by rw [← hk, h])⟩, hk⟩

end EzdxfVerif.Doc

/-
Helper lemmas for property C12, session 3: TEXT / ATTRIB / ATTDEF and MTEXT.
-/
import EzdxfVerif.Lemmas.TransformHatch

namespace EzdxfVerif.Transform
open EzdxfVerif.Rat3 EzdxfVerif.Gen

/-- Lagrange identity: |a|²|b|² − (a·b)² = |a × b|² -/
theorem lagrange (a b : V3) : magSq a * magSq b - V3.dot a b * V3.dot a b = magSq (V3.cross a b) := by
  simp only [magSq, V3.dot, V3.cross]; ring

theorem magSq_nonneg' (v : V3) : 0 ≤ magSq v := by
  simp only [magSq, V3.dot]
  nlinarith [mul_self_nonneg v.x, mul_self_nonneg v.y, mul_self_nonneg v.z]

/-- squared length of the image of an in-plane direction (x, y, 0) in terms of the two image axes -/
theorem magSq_plane_image (o : OcsT) (x y : Rat) :
    magSq (applyDir o.m (o.old.toWcs ⟨x, y, 0⟩))
      = x * x * magSq o.ax + y * y * magSq o.ay + 2 * x * y * V3.dot o.ax o.ay := by
  rw [toWcs_spec]
  simp only [applyDir_add, applyDir_smul, OcsT.ax, OcsT.ay]
  generalize applyDir o.m o.old.ux = a; generalize applyDir o.m o.old.uy = b; generalize applyDir o.m o.old.uz = c
  simp only [magSq, V3.dot, V3.add, V3.smul]; ring

/-- what `Txt.transform` returns in every successful case, branch independent -/
theorem txt_transform_common (sqrt : Rat → Rat) (o : OcsT) (t t' : Txt) (h : Txt.transform sqrt o t = .ok t') :
    t'.insert = o.vertex t.insert ∧ t'.align = some (o.vertex (t.align.getD t.insert)) ∧ t'.rot = dir2 o t.rot ∧
    t'.thickness = t.thickness.map o.thickness := by
  unfold Txt.transform at h
  simp only at h
  split_ifs at h <;> (cases h; exact ⟨rfl, rfl, rfl, rfl⟩)

/-- the uniform branch -/
theorem txt_transform_uniform (sqrt : Rat → Rat) (o : OcsT) (t t' : Txt) (hu : o.uniform = true)
    (h : Txt.transform sqrt o t = .ok t') :
    o.length sqrt ⟨(rot90 t.rot).x, (rot90 t.rot).y, 0⟩ ≠ 0 ∧ t'.obl = t.obl ∧
    t'.height = t.height * o.length sqrt ⟨(rot90 t.rot).x, (rot90 t.rot).y, 0⟩ ∧
    t'.width = t.width * (o.length sqrt ⟨t.rot.x, t.rot.y, 0⟩ / o.length sqrt ⟨(rot90 t.rot).x, (rot90 t.rot).y, 0⟩) := by
  unfold Txt.transform at h
  simp only [hu, if_true] at h
  split_ifs at h with h0
  cases h; exact ⟨h0, rfl, rfl, rfl⟩

/-- the slant vector of a TEXT in its OCS: the up direction turned by the oblique angle towards the baseline
    (`Vec3.from_deg_angle(rotation + 90 - oblique)`) -/
def Txt.slant (t : Txt) : V2 :=
  ⟨(rot90 t.rot).x * t.obl.x + t.rot.x * t.obl.y, (rot90 t.rot).y * t.obl.x + t.rot.y * t.obl.y⟩

/-- the non-uniform branch -/
theorem txt_transform_nonuniform (sqrt : Rat → Rat) (o : OcsT) (t t' : Txt) (hu : o.uniform = false)
    (h : Txt.transform sqrt o t = .ok t') :
    sqrt (dot2 (dir2 o t.rot) (dir2 o t.rot)) * sqrt (dot2 (dir2 o t.slant) (dir2 o t.slant)) ≠ 0 ∧
    t'.obl = ⟨cross2 (dir2 o t.rot) (dir2 o t.slant) / (sqrt (dot2 (dir2 o t.rot) (dir2 o t.rot)) * sqrt (dot2 (dir2 o t.slant) (dir2 o t.slant))),
              dot2 (dir2 o t.rot) (dir2 o t.slant) / (sqrt (dot2 (dir2 o t.rot) (dir2 o t.rot)) * sqrt (dot2 (dir2 o t.slant) (dir2 o t.slant)))⟩ ∧
    sqrt (dot2 (dir2 o t.rot) (dir2 o t.rot)) * sqrt (dot2 (dir2 o (rot90 t.rot)) (dir2 o (rot90 t.rot))) ≠ 0 ∧
    t'.height = t.height * (o.length sqrt ⟨(rot90 t.rot).x, (rot90 t.rot).y, 0⟩ *
      (cross2 (dir2 o t.rot) (dir2 o (rot90 t.rot)) /
        (sqrt (dot2 (dir2 o t.rot) (dir2 o t.rot)) * sqrt (dot2 (dir2 o (rot90 t.rot)) (dir2 o (rot90 t.rot)))))) := by
  unfold Txt.transform at h
  simp only [hu, Bool.false_eq_true, if_false] at h
  split_ifs at h with h0 h1 h2
  cases h
  exact ⟨h0, rfl, h1, rfl⟩

/-- the stored 2-D direction has the same length as the 3-D image when the OCS plane is mapped onto the new OCS plane -/
theorem dir2_length (o : OcsT) (hn : o.new.Orthonormal) (hp : PlaneToPlane o) (v : V2) :
    dot2 (dir2 o v) (dir2 o v) = magSq (applyDir o.m (o.old.toWcs ⟨v.x, v.y, 0⟩)) := by
  have h := hatch_direction_law o hn hp v
  have iso : ∀ p : V3, V3.dot (o.new.toWcs p) (o.new.toWcs p) = V3.dot p p := by
    intro p
    have := fromWcs_dot o.new hn (o.new.toWcs p) (o.new.toWcs p)
    rw [fromWcs_toWcs o.new hn] at this
    exact this.symm
  simp only [magSq]
  rw [← h, iso]
  simp only [dir2, dot2, V3.dot]; ring

/-- 2-D identity: d⊥·(d × b) + d·(d · b) = |d|²·b -/
theorem rot90_decompose (d b : V2) :
    (⟨(rot90 d).x * cross2 d b + d.x * dot2 d b, (rot90 d).y * cross2 d b + d.y * dot2 d b⟩ : V2)
      = ⟨dot2 d d * b.x, dot2 d d * b.y⟩ := by
  simp only [rot90, cross2, dot2, V2.mk.injEq]
  constructor <;> ring

/-- the width factor of the non-uniform branch: width'·height' = width·height·|m(baseline)| -/
theorem txt_transform_nonuniform_width (sqrt : Rat → Rat) (o : OcsT) (t t' : Txt) (hu : o.uniform = false)
    (h : Txt.transform sqrt o t = .ok t') :
    t'.width * t'.height = t.width * t.height * o.length sqrt ⟨t.rot.x, t.rot.y, 0⟩ := by
  unfold Txt.transform at h
  simp only [hu, Bool.false_eq_true, if_false] at h
  split_ifs at h with h0 h1 h2
  cases h
  simp only
  generalize OcsT.length sqrt o ⟨(rot90 t.rot).x, (rot90 t.rot).y, 0⟩ *
    (cross2 (dir2 o t.rot) (dir2 o (rot90 t.rot)) /
      (sqrt (dot2 (dir2 o t.rot) (dir2 o t.rot)) * sqrt (dot2 (dir2 o (rot90 t.rot)) (dir2 o (rot90 t.rot))))) = y at *
  field_simp

theorem dir2_slant (o : OcsT) (t : Txt) :
    dir2 o t.slant = ⟨(dir2 o (rot90 t.rot)).x * t.obl.x + (dir2 o t.rot).x * t.obl.y,
                      (dir2 o (rot90 t.rot)).y * t.obl.x + (dir2 o t.rot).y * t.obl.y⟩ := by
  simp only [dir2, Txt.slant]
  rw [direction_plane o _ _, direction_plane o (rot90 t.rot).x (rot90 t.rot).y, direction_plane o t.rot.x t.rot.y]
  simp only [V3.add, V3.smul, V2.mk.injEq]
  constructor <;> ring

end EzdxfVerif.Transform

/-
`ezdxf.select` (Model/BBoxTree.lean: `SelCircle`, `SelWindow`): the circle tests against a bounding box mean what
their names say, in exact arithmetic (squared distances).
-/
import Mathlib.Tactic.FieldSimp
import EzdxfVerif.Lemmas.BBox
import EzdxfVerif.Model.BBoxTree
namespace EzdxfVerif.BBox.Lemmas
open EzdxfVerif.BBox

theorem inside2_mk (lo hi p : V2) :
    (Box2.mk lo hi).inside p = true ↔ lo.x ≤ p.x ∧ p.x ≤ hi.x ∧ lo.y ≤ p.y ∧ p.y ≤ hi.y := by
  simp [Box2.inside, and_assoc]

theorem hasOverlap2_mk (alo ahi blo bhi : V2) :
    (Box2.mk alo ahi).hasOverlap (.mk blo bhi) = true ↔ alo.x ≤ bhi.x ∧ blo.x ≤ ahi.x ∧ alo.y ≤ bhi.y ∧ blo.y ≤ ahi.y := by
  simp only [Box2.hasOverlap, gt_iff_lt]
  split_ifs <;> simp_all [not_lt]

theorem clamp_mem (x lo hi : Rat) (h : lo ≤ hi) : lo ≤ clamp x lo hi ∧ clamp x lo hi ≤ hi := by
  simp only [clamp, rmin_eq, rmax_eq]
  exact ⟨le_min (le_max_right _ _) h, min_le_right _ _⟩

/-- the clamped value is the point of [lo, hi] closest to x -/
theorem clamp_closest (x lo hi p : Rat) (h1 : lo ≤ p) (h2 : p ≤ hi) :
    (x - clamp x lo hi) * (x - clamp x lo hi) ≤ (x - p) * (x - p) := by
  simp only [clamp, rmin_eq, rmax_eq]
  rcases le_total x lo with hx | hx
  · have e : min (max x lo) hi = lo := by rw [max_eq_right hx, min_eq_left (le_trans h1 h2)]
    rw [e]; nlinarith
  · rcases le_total x hi with hx' | hx'
    · have e : min (max x lo) hi = x := by rw [max_eq_left hx, min_eq_left hx']
      rw [e]; nlinarith [mul_self_nonneg (x - p)]
    · have e : min (max x lo) hi = hi := by rw [max_eq_left hx, min_eq_right hx']
      rw [e]; nlinarith

theorem circle_bbox (s : SelCircle) (hr : 0 ≤ s.r) :
    s.bbox = .mk ⟨s.c.x - s.r, s.c.y - s.r⟩ ⟨s.c.x + s.r, s.c.y + s.r⟩ := by
  have h1 : s.c.x - s.r ≤ s.c.x + s.r := by linarith
  have h2 : s.c.y - s.r ≤ s.c.y + s.r := by linarith
  simp [SelCircle.bbox, extents2, V2.vmin, V2.vmax, min_eq_left h1, min_eq_left h2, max_eq_right h1, max_eq_right h2]

theorem sq_le_abs (d r : Rat) (hr : 0 ≤ r) (h : d * d ≤ r * r) : -r ≤ d ∧ d ≤ r := by
  constructor <;> nlinarith

/-- `Circle.is_overlapping_bbox` is exactly "the box and the disc share a point" -/
theorem circle_overlap_iff (s : SelCircle) (hr : 0 ≤ s.r) (lo hi : V2) (hwf : (Box2.mk lo hi).WF) :
    s.overlapping (.mk lo hi) = true ↔ ∃ p, (Box2.mk lo hi).inside p = true ∧ dist2 s.c p ≤ s.r * s.r := by
  obtain ⟨w1, w2⟩ := hwf
  simp only [SelCircle.overlapping, Bool.and_eq_true, SelCircle.vertexInside, decide_eq_true_eq]
  constructor
  · rintro ⟨_, hd⟩
    refine ⟨⟨clamp s.c.x lo.x hi.x, clamp s.c.y lo.y hi.y⟩, ?_, hd⟩
    rw [inside2_mk]
    exact ⟨(clamp_mem _ _ _ w1).1, (clamp_mem _ _ _ w1).2, (clamp_mem _ _ _ w2).1, (clamp_mem _ _ _ w2).2⟩
  · rintro ⟨p, hp, hd⟩
    rw [inside2_mk] at hp
    obtain ⟨p1, p2, p3, p4⟩ := hp
    simp only [dist2] at hd
    have hx : (s.c.x - p.x) * (s.c.x - p.x) ≤ s.r * s.r := by nlinarith [mul_self_nonneg (s.c.y - p.y)]
    have hy : (s.c.y - p.y) * (s.c.y - p.y) ≤ s.r * s.r := by nlinarith [mul_self_nonneg (s.c.x - p.x)]
    obtain ⟨ax, bx⟩ := sq_le_abs _ _ hr hx
    obtain ⟨ay, by'⟩ := sq_le_abs _ _ hr hy
    constructor
    · rw [circle_bbox s hr, hasOverlap2_mk]
      exact ⟨by linarith, by linarith, by linarith, by linarith⟩
    · simp only [dist2]
      have cx := clamp_closest s.c.x lo.x hi.x p.x p1 p2
      have cy := clamp_closest s.c.y lo.y hi.y p.y p3 p4
      linarith

theorem sq_le_corner (c lo hi p : Rat) (h1 : lo ≤ p) (h2 : p ≤ hi) :
    (c - p) * (c - p) ≤ (c - lo) * (c - lo) ∨ (c - p) * (c - p) ≤ (c - hi) * (c - hi) := by
  rcases le_total c p with h | h
  · right; nlinarith
  · left; nlinarith

/-- `Circle.is_inside_bbox` is exactly "the box lies in the disc" -/
theorem circle_inside_iff (s : SelCircle) (lo hi : V2) (hwf : (Box2.mk lo hi).WF) :
    s.inside (.mk lo hi) = true ↔ ∀ p, (Box2.mk lo hi).inside p = true → dist2 s.c p ≤ s.r * s.r := by
  obtain ⟨w1, w2⟩ := hwf
  simp only [SelCircle.inside, Bool.and_eq_true, SelCircle.vertexInside, decide_eq_true_eq]
  simp only [dist2]
  constructor
  · rintro ⟨⟨⟨h1, h2⟩, h3⟩, h4⟩ p hp
    rw [inside2_mk] at hp
    obtain ⟨p1, p2, p3, p4⟩ := hp
    rcases sq_le_corner s.c.x lo.x hi.x p.x p1 p2 with hx | hx <;> rcases sq_le_corner s.c.y lo.y hi.y p.y p3 p4 with hy | hy
    · linarith
    · linarith
    · linarith
    · linarith
  · intro h
    have c1 := h lo (by rw [inside2_mk]; exact ⟨le_rfl, w1, le_rfl, w2⟩)
    have c2 := h ⟨hi.x, lo.y⟩ (by rw [inside2_mk]; exact ⟨w1, le_rfl, le_rfl, w2⟩)
    have c3 := h hi (by rw [inside2_mk]; exact ⟨w1, le_rfl, w2, le_rfl⟩)
    have c4 := h ⟨lo.x, hi.y⟩ (by rw [inside2_mk]; exact ⟨le_rfl, w1, w2, le_rfl⟩)
    exact ⟨⟨⟨c1, c2⟩, c3⟩, c4⟩


/-! ## the Bézier approximation of a circular arc never cuts inside the circle -/

/-- closed form of the radial error of one segment built by `cubic_bezier_arc_parameters`: with `u = tan(angle/4)` and
    `w = 2t - 1`, `|B(t)|^2 = |s|^2 * (1 + u^6 w^2 (1 - w^2)^2 / (1 + u^2)^2)` -/
theorem arc_norm2_closed (u : Rat) (s : V2) (t : Rat) :
    arcCurveNorm2 u s t =
      (s.x * s.x + s.y * s.y) * (1 + u ^ 6 * (2 * t - 1) ^ 2 * (1 - (2 * t - 1) ^ 2) ^ 2 / (1 + u * u) ^ 2) := by
  have hpos : (1 + u * u) ≠ 0 := by nlinarith [mul_self_nonneg u]
  simp only [arcCurveNorm2, rotByQuarterTan, arcSegment, arcTangentLength, bezier4]
  field_simp
  ring

theorem w_bound (t : Rat) (h0 : 0 ≤ t) (h1 : t ≤ 1) :
    0 ≤ (2 * t - 1) ^ 2 * (1 - (2 * t - 1) ^ 2) ^ 2 ∧ (2 * t - 1) ^ 2 * (1 - (2 * t - 1) ^ 2) ^ 2 ≤ 4 / 27 := by
  constructor
  · positivity
  · have hz0 : 0 ≤ (2 * t - 1) ^ 2 := by positivity
    have hz1 : (2 * t - 1) ^ 2 ≤ 1 := by nlinarith
    have e : 4 / 27 - (2 * t - 1) ^ 2 * (1 - (2 * t - 1) ^ 2) ^ 2 =
        (4 - 3 * (2 * t - 1) ^ 2) * (1 - 3 * (2 * t - 1) ^ 2) ^ 2 / 27 := by ring
    have : 0 ≤ (4 - 3 * (2 * t - 1) ^ 2) * (1 - 3 * (2 * t - 1) ^ 2) ^ 2 / 27 := by
      apply div_nonneg _ (by norm_num)
      apply mul_nonneg (by linarith) (by positivity)
    linarith

/-- for a start point on the unit circle the approximation stays on or outside the circle and exceeds the squared
    radius by at most `4 u^6 / (27 (1 + u^2)^2)` -/
theorem arc_radial_bounds (u : Rat) (s : V2) (hs : s.x * s.x + s.y * s.y = 1) (t : Rat) (h0 : 0 ≤ t) (h1 : t ≤ 1) :
    1 ≤ arcCurveNorm2 u s t ∧ arcCurveNorm2 u s t ≤ 1 + 4 * u ^ 6 / (27 * (1 + u * u) ^ 2) := by
  rw [arc_norm2_closed, hs, one_mul]
  obtain ⟨b0, b1⟩ := w_bound t h0 h1
  have hD0 : 0 < 1 + u * u := by nlinarith [mul_self_nonneg u]
  have hD : 0 < (1 + u * u) ^ 2 := by positivity
  have hu6 : 0 ≤ u ^ 6 := by positivity
  have e : u ^ 6 * (2 * t - 1) ^ 2 * (1 - (2 * t - 1) ^ 2) ^ 2 / (1 + u * u) ^ 2 =
      u ^ 6 * ((2 * t - 1) ^ 2 * (1 - (2 * t - 1) ^ 2) ^ 2) / (1 + u * u) ^ 2 := by ring
  rw [e]
  constructor
  · have : 0 ≤ u ^ 6 * ((2 * t - 1) ^ 2 * (1 - (2 * t - 1) ^ 2) ^ 2) / (1 + u * u) ^ 2 :=
      div_nonneg (mul_nonneg hu6 b0) (le_of_lt hD)
    linarith
  · have h27 : 4 * u ^ 6 / (27 * (1 + u * u) ^ 2) = u ^ 6 * (4 / 27) / (1 + u * u) ^ 2 := by
      field_simp
    rw [h27]
    have : u ^ 6 * ((2 * t - 1) ^ 2 * (1 - (2 * t - 1) ^ 2) ^ 2) / (1 + u * u) ^ 2 ≤ u ^ 6 * (4 / 27) / (1 + u * u) ^ 2 :=
      div_le_div_of_nonneg_right (mul_le_mul_of_nonneg_left b1 hu6) (le_of_lt hD)
    linarith


/-! ## bulge arcs -/

/-- the two end points and the apex of a bulge segment lie on the circle `bulge_to_arc` describes; the centre lies on the
    perpendicular bisector of the chord; the apex lies on the right of `p1 -> p2` for a positive bulge (counter-clockwise arc)
    at the distance `|b| d / 2` (sagitta) from the chord -/
theorem bulge_consistent (p1 p2 : V2) (b : Rat) (hb : b ≠ 0) :
    dist2 (bulgeCenter p1 p2 b) p1 = bulgeRadius2 p1 p2 b ∧ dist2 (bulgeCenter p1 p2 b) p2 = bulgeRadius2 p1 p2 b ∧
    dist2 (bulgeCenter p1 p2 b) (bulgeApex p1 p2 b) = bulgeRadius2 p1 p2 b ∧
    dist2 (bulgeApex p1 p2 b) p1 = dist2 (bulgeApex p1 p2 b) p2 ∧
    (p2.x - p1.x) * ((bulgeApex p1 p2 b).y - p1.y) - (p2.y - p1.y) * ((bulgeApex p1 p2 b).x - p1.x) = -(b / 2) * dist2 p1 p2 := by
  have hb2 : b * b ≠ 0 := mul_ne_zero hb hb
  refine ⟨?_, ?_, ?_, ?_, ?_⟩
  · simp only [dist2, bulgeCenter, bulgeRadius2]; field_simp; ring
  · simp only [dist2, bulgeCenter, bulgeRadius2]; field_simp; ring
  · simp only [dist2, bulgeCenter, bulgeRadius2, bulgeApex]; field_simp; ring
  · simp only [dist2, bulgeApex]; ring
  · simp only [dist2, bulgeApex]; ring

end EzdxfVerif.BBox.Lemmas

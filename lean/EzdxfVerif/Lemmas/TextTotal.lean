/-
Totality lemmas of the MTEXT parser model (moved here from Props/C20 in session 3 so that other lemma
files can use them; the counted theorems of Props/C20 keep their names and statements).
-/
import EzdxfVerif.Model.Text
namespace EzdxfVerif.Text

theorem frun_append (q : Nat) (a b : Str) : frun q (a ++ b) = frun (frun q a) b := by
  simp [frun, List.foldl_append]

theorem frun_digits (q : Nat) (ds : Str) (h : ∀ c ∈ ds, isDigit c = true)
    (hq : q = 2 ∨ q = 3 ∨ q = 6) : frun q ds = q := by
  induction ds with
  | nil => rfl
  | cons c t ih =>
    have hc := h c (by simp)
    have ht : ∀ c ∈ t, isDigit c = true := fun x hx => h x (by simp [hx])
    have : fstep q c = q := by
      rcases hq with rfl | rfl | rfl <;> simp [fstep, hc]
    simp only [frun, List.foldl_cons, this]
    exact ih ht

theorem frun_digits_ne (q : Nat) (ds : Str) (h : ∀ c ∈ ds, isDigit c = true) (hne : ds ≠ [])
    (hq : q = 0 ∨ q = 1 ∨ q = 4 ∨ q = 5) :
    frun q ds = if q = 0 ∨ q = 1 then 2 else 6 := by
  cases ds with
  | nil => exact absurd rfl hne
  | cons c t =>
    have hc := h c (by simp)
    have ht : ∀ c ∈ t, isDigit c = true := fun x hx => h x (by simp [hx])
    rcases hq with rfl | rfl | rfl | rfl <;>
      simp only [frun, List.foldl_cons, fstep, hc] <;>
      simp <;> first | exact frun_digits 2 t ht (by simp) | exact frun_digits 6 t ht (by simp)

theorem mem_takeWhile_prop (p : Char → Bool) (l : Str) : ∀ c ∈ l.takeWhile p, p c = true := by
  induction l with
  | nil => simp
  | cons a t ih =>
    intro c hc
    simp only [List.takeWhile] at hc
    split at hc
    · simp only [List.mem_cons] at hc
      rcases hc with rfl | hc
      · assumption
      · exact ih c hc
    · simp at hc

theorem spanDigits_all (s : Str) : ∀ c ∈ (spanDigits s).1, isDigit c = true :=
  mem_takeWhile_prop isDigit s

theorem sign_not_digit (c : Char) (h : c = '+' ∨ c = '-') : isDigit c = false := by
  rcases h with rfl | rfl <;> decide

theorem frun_optSign (s : Str) :
    frun 0 (optSign s).1 = 0 ∨ frun 0 (optSign s).1 = 1 := by
  unfold optSign; split
  · split
    · rename_i c t h
      right
      simp [frun, fstep, sign_not_digit c h, h]
    · left; rfl
  · left; rfl

theorem frun4_optSign (s : Str) :
    frun 4 (optSign s).1 = 4 ∨ frun 4 (optSign s).1 = 5 := by
  unfold optSign; split
  · split
    · rename_i c t h
      right
      simp [frun, fstep, sign_not_digit c h, h]
    · left; rfl
  · left; rfl

theorem frun_optFrac (s : Str) :
    frun 2 (optFrac s).1 = 2 ∨ frun 2 (optFrac s).1 = 3 := by
  unfold optFrac; split
  · split
    · rename_i c t h
      right
      subst h
      have : frun 2 ('.' :: (spanDigits t).1) = frun 3 (spanDigits t).1 := by
        simp [frun, fstep]; rfl
      rw [this]
      exact frun_digits 3 _ (spanDigits_all t) (by simp)
    · left; rfl
  · left; rfl

theorem frun_optExp (q : Nat) (hq : q = 2 ∨ q = 3) (s : Str) :
    frun q (optExp s).1 = q ∨ frun q (optExp s).1 = 6 := by
  unfold optExp; split
  · split
    · split
      · left; rfl
      · rename_i e t he hne
        right
        have hstep : fstep q e = 4 := by
          have hd : isDigit e = false := by rcases he with rfl | rfl <;> decide
          have h1 : ¬ (e = '+' ∨ e = '-') := by rcases he with rfl | rfl <;> decide
          have h2 : ¬ (e = '.') := by rcases he with rfl | rfl <;> decide
          rcases hq with rfl | rfl <;> simp [fstep, hd, h1, h2, he]
        have : frun q (e :: ((optSign t).1 ++ (spanDigits (optSign t).2).1))
            = frun (frun 4 (optSign t).1) (spanDigits (optSign t).2).1 := by
          rw [← frun_append]
          simp [frun, hstep]
        rw [this]
        rcases frun4_optSign t with h | h <;> rw [h]
        · simpa using frun_digits_ne 4 _ (spanDigits_all _) hne (by simp)
        · simpa using frun_digits_ne 5 _ (spanDigits_all _) hne (by simp)
    · left; rfl
  · left; rfl

/-- every non-empty match of RE_FLOAT is a string `float()` accepts -/
theorem matchFloat_valid (s : Str) (h : (matchFloat s).1 ≠ []) : pyFloatOk (matchFloat s).1 = true := by
  unfold matchFloat at *
  simp only at *
  split at h
  · exact absurd rfl h
  · rename_i hne
    simp only [hne, if_false]
    unfold pyFloatOk
    simp only [frun_append]
    have hs := frun_optSign s
    have hd : frun (frun 0 (optSign s).1) (spanDigits (optSign s).2).1 = 2 := by
      rcases hs with h0 | h0 <;> rw [h0]
      · simpa using frun_digits_ne 0 _ (spanDigits_all _) hne (by simp)
      · simpa using frun_digits_ne 1 _ (spanDigits_all _) hne (by simp)
    rw [hd]
    rcases frun_optFrac (spanDigits (optSign s).2).2 with hf | hf <;> rw [hf]
    · rcases frun_optExp 2 (by simp) (optFrac (spanDigits (optSign s).2).2).2 with he | he <;>
        rw [he] <;> simp
    · rcases frun_optExp 3 (by simp) (optFrac (spanDigits (optSign s).2).2).2 with he | he <;>
        rw [he] <;> simp

theorem pyFloat_match (s : Str) (h : (matchFloat s).1 ≠ []) : pyFloat (matchFloat s).1 = .ok () := by
  simp [pyFloat, matchFloat_valid s h]

theorem paraTabs_ok (s : Str) : paraTabs s = .ok () := by
  fun_induction paraTabs s with
  | case1 => rfl
  | case2 c r h ih => exact ih
  | case3 c r h he ih => rw [dif_pos he]; exact ih
  | case4 c r h he ih =>
    rw [dif_neg he]
    have hne : (matchFloat (c :: r)).1 ≠ [] := by
      intro h0; apply he; simp [paraFloatExpr, h0]
    have : (paraFloatExpr (c :: r)).1 = (matchFloat (c :: r)).1 := by simp [paraFloatExpr, hne]
    simp only [this, pyFloat_match _ hne, bind, Except.bind]
    exact ih

theorem paraLoop_ok (s : Str) : paraLoop s = .ok () := by
  fun_induction paraLoop s with
  | case1 => rfl
  | case2 c r h e he ih => exact ih
  | case3 c r h e he ih =>
    have hne : (matchFloat r).1 ≠ [] := by
      intro h0; apply he; simp [e, paraFloatExpr, h0]
    have : e.1 = (matchFloat r).1 := by simp [e, paraFloatExpr, hne]
    simp only [this, pyFloat_match _ hne, bind, Except.bind]
    exact ih
  | case4 r hq ih => exact ih
  | case5 r hq ht => exact paraTabs_ok r
  | case6 c r h hq ht ih => exact ih

/-- no property command can raise -/
theorem parseProperties_no_error (cmd : Char) (tail : Str) (e : PyErr) :
    parseProperties cmd tail ≠ some (.error e) := by
  unfold parseProperties
  split; · simp
  split
  · unfold parseAlign; split <;> simp
  split; · simp [parseIntCmd]
  split
  · unfold parseFloatOrFactor
    simp only
    split
    · simp
    · rename_i hne
      simp [pyFloat_match tail hne, bind, Except.bind]
  split
  · unfold parseOblique
    simp only
    split
    · simp
    · rename_i hne
      simp [pyFloat_match tail hne, bind, Except.bind]
  split
  · simp [paraLoop_ok, bind, Except.bind]
  split <;> simp

theorem map_ok {α β : Type} (f : α → β) (x : Except PyErr α) (h : ∃ a, x = .ok a) :
    ∃ b, f <$> x = .ok b := by
  obtain ⟨a, rfl⟩ := h
  exact ⟨f a, rfl⟩

theorem scan_ok (sp : Special) (rest word : Str) : ∃ ts, scan sp rest word = .ok ts := by
  fun_induction scan sp rest word
  all_goals first
    | exact ⟨_, rfl⟩
    | assumption
    | (apply map_ok; assumption)
    | (rename_i hp; exact absurd hp (parseProperties_no_error _ _ _))


end EzdxfVerif.Text

/-
Helper lemmas for property C12, session 3: HATCH / MPOLYGON boundary paths.
-/
import EzdxfVerif.Lemmas.Transform

namespace EzdxfVerif.Transform
open EzdxfVerif.Rat3 EzdxfVerif.Gen

/-- `LineEdge.transform` (py2lean translation) = `transform_2d_vertex` of both end points at the given elevation -/
theorem hatchLineEdge_spec (o : OcsT) (s e : V2) (elev : Rat) :
    TransformKernels.hatchLineEdge s e o.m o.old.t o.old.m o.new.t o.new.m elev = (o.vertex2d s elev, o.vertex2d e elev) := by
  obtain ⟨m, ⟨t1, m1⟩, ⟨t2, m2⟩, u⟩ := o
  cases t1 <;> cases t2 <;> simp [TransformKernels.hatchLineEdge, OcsT.vertex2d, TransformKernels.ot2dVertex]

/-- the new OCS is the plane of the image: both image axes are perpendicular to the new extrusion (what `transform_extrusion`
    establishes for EVERY matrix: `extrusion_law`) -/
def PlaneToPlane (o : OcsT) : Prop := V3.dot o.ax o.new.uz = 0 ∧ V3.dot o.ay o.new.uz = 0
instance (o : OcsT) : Decidable (PlaneToPlane o) := by unfold PlaneToPlane; infer_instance

/-- all points of the old OCS plane z = e arrive at the same height of the new OCS -/
theorem vertex_z_const (o : OcsT) (hp : PlaneToPlane o) (x y e : Rat) :
    (o.vertex ⟨x, y, e⟩).z = (o.vertex ⟨0, 0, e⟩).z := by
  obtain ⟨hx, hy⟩ := hp
  have h := image_offset o.m o.old ⟨0, 0, e⟩ x y
  simp only [zero_add] at h
  rw [vertex_spec, vertex_spec, fromWcs_spec, fromWcs_spec, h]
  simp only [OcsT.ax, OcsT.ay] at hx hy
  generalize applyDir o.m o.old.ux = a at *; generalize applyDir o.m o.old.uy = b at *
  generalize apply o.m (o.old.toWcs ⟨0, 0, e⟩) = q; generalize o.new.uz = n at *
  simp only [V3.dot, V3.add, V3.smul] at *
  linear_combination x * hx + y * hy

/-- hatch_vertex_law (core): a boundary point (x, y) of a HATCH at elevation e, transformed by `transform_2d_vertex` at the
    elevation e and lifted with the NEW elevation (z of the transformed point (0, 0, e)), is `m` applied to the WCS position
    of the old point — for every matrix that maps the OCS plane onto the plane of the new OCS -/
theorem hatch_point_law (o : OcsT) (hn : o.new.Orthonormal) (hp : PlaneToPlane o) (v : V2) (e : Rat) :
    hatchPoint o.new (o.vertex ⟨0, 0, e⟩).z (o.vertex2d v e) = apply o.m (hatchPoint o.old e v) := by
  simp only [hatchPoint, vertex2d_spec]
  rw [← vertex_z_const o hp v.x v.y e, vertex_spec]
  exact toWcs_fromWcs _ hn _

/-- a direction of the old OCS plane is mapped into the new OCS plane: the stored (x, y) of `transform_direction` is the full image -/
theorem hatch_direction_law (o : OcsT) (hn : o.new.Orthonormal) (hp : PlaneToPlane o) (t : V2) :
    o.new.toWcs ⟨(o.direction ⟨t.x, t.y, 0⟩).x, (o.direction ⟨t.x, t.y, 0⟩).y, 0⟩ = applyDir o.m (o.old.toWcs ⟨t.x, t.y, 0⟩) := by
  obtain ⟨hx, hy⟩ := hp
  have hz : (o.direction ⟨t.x, t.y, 0⟩).z = 0 := by
    rw [direction_spec, fromWcs_spec, toWcs_spec]
    simp only [applyDir_add, applyDir_smul]
    simp only [OcsT.ax, OcsT.ay] at hx hy
    generalize applyDir o.m o.old.ux = a at *; generalize applyDir o.m o.old.uy = b at *
    generalize applyDir o.m o.old.uz = c; generalize o.new.uz = n at *
    simp only [V3.dot, V3.add, V3.smul] at *
    linear_combination t.x * hx + t.y * hy
  have : (⟨(o.direction ⟨t.x, t.y, 0⟩).x, (o.direction ⟨t.x, t.y, 0⟩).y, 0⟩ : V3) = o.direction ⟨t.x, t.y, 0⟩ := by
    ext <;> simp [hz]
  rw [this, direction_spec]
  exact toWcs_fromWcs _ hn _

/-! ### the model's transform, path by path -/

theorem HEdge.points_transform (sqrt : Rat → Rat) (o : OcsT) (e : Rat) (ed : HEdge) :
    (HEdge.transform sqrt o e ed).points = ed.points.map fun v => o.vertex2d v e := by
  cases ed with
  | line s t => simp [HEdge.transform, HEdge.points, hatchLineEdge_spec]
  | arc c r s t full ccw => simp [HEdge.transform, HEdge.points, TransformKernels.hatchArcCenterElev]
  | spline cps fits st et => simp [HEdge.transform, HEdge.points, TransformKernels.hatchSplinePointElev]
  | ellipse c => simp [HEdge.transform, HEdge.points, TransformKernels.hatchEllipseCenterElev, vertex2d_spec]

theorem BPath.points_transform (sqrt : Rat → Rat) (o : OcsT) (e : Rat) (p : BPath) :
    (BPath.transform sqrt o e p).points = p.points.map fun v => o.vertex2d v e := by
  cases p with
  | poly vs closed =>
    simp [BPath.transform, BPath.points, TransformKernels.hatchPolyVertexZ, vertex2d_spec, Function.comp_def]
  | edges es =>
    simp only [BPath.transform, BPath.points, TransformKernels.hatchEdgePathElev, List.flatMap_map, List.map_flatMap]
    congr 1
    funext ed
    exact HEdge.points_transform sqrt o e ed

theorem HEdge.tangents_transform (sqrt : Rat → Rat) (o : OcsT) (e : Rat) (ed : HEdge) :
    (HEdge.transform sqrt o e ed).tangents
      = ed.tangents.map fun t => (⟨(o.direction ⟨t.x, t.y, 0⟩).x, (o.direction ⟨t.x, t.y, 0⟩).y⟩ : V2) := by
  cases ed with
  | line s t => simp [HEdge.transform, HEdge.tangents]
  | arc c r s t full ccw => simp [HEdge.transform, HEdge.tangents]
  | spline cps fits st et =>
    cases st <;> cases et <;> simp [HEdge.transform, HEdge.tangents, TransformKernels.hatchSplineTangentZ]
  | ellipse c => simp [HEdge.transform, HEdge.tangents]

theorem BPath.tangents_transform (sqrt : Rat → Rat) (o : OcsT) (e : Rat) (p : BPath) :
    (BPath.transform sqrt o e p).tangents
      = p.tangents.map fun t => (⟨(o.direction ⟨t.x, t.y, 0⟩).x, (o.direction ⟨t.x, t.y, 0⟩).y⟩ : V2) := by
  cases p with
  | poly vs closed => simp [BPath.transform, BPath.tangents]
  | edges es =>
    simp only [BPath.transform, BPath.tangents, List.flatMap_map, List.map_flatMap]
    congr 1
    funext ed
    exact HEdge.tangents_transform sqrt o _ ed

theorem BPath.bulges_transform (sqrt : Rat → Rat) (o : OcsT) (e : Rat) (p : BPath) :
    (BPath.transform sqrt o e p).bulges = p.bulges := by
  cases p with
  | poly vs closed => simp [BPath.transform, BPath.bulges, Function.comp_def]
  | edges es => simp [BPath.transform, BPath.bulges]

/-- the planar map old OCS plane z = e → new OCS is affine: image of the origin plus the images of the two unit directions -/
theorem vertex2d_affine (o : OcsT) (v : V2) (e : Rat) :
    o.vertex2d v e =
      ⟨(o.vertex ⟨0, 0, e⟩).x + v.x * (o.direction ⟨1, 0, 0⟩).x + v.y * (o.direction ⟨0, 1, 0⟩).x,
       (o.vertex ⟨0, 0, e⟩).y + v.x * (o.direction ⟨1, 0, 0⟩).y + v.y * (o.direction ⟨0, 1, 0⟩).y⟩ := by
  have h := image_offset o.m o.old ⟨0, 0, e⟩ v.x v.y
  simp only [zero_add] at h
  rw [vertex2d_spec, vertex_spec, vertex_spec, direction_e1, direction_e2, fromWcs_spec, fromWcs_spec, fromWcs_spec, fromWcs_spec, h]
  simp only [OcsT.ax, OcsT.ay]
  generalize applyDir o.m o.old.ux = a; generalize applyDir o.m o.old.uy = b
  generalize apply o.m (o.old.toWcs ⟨0, 0, e⟩) = q
  simp only [V3.dot, V3.add, V3.smul, V2.mk.injEq]
  constructor <;> ring

theorem hatch_transform_none_iff (sqrt : Rat → Rat) (o : OcsT) (h : Hatch) :
    Hatch.transform sqrt o h = none ↔ (o.uniform = false ∧ h.paths.any BPath.needsConversion = true) := by
  unfold Hatch.transform
  cases hu : o.uniform <;> cases hc : h.paths.any BPath.needsConversion <;> simp

end EzdxfVerif.Transform

/-
The token machinery of `MTextParser` + `plain_mtext` computes the string function `slowLoop`
(lemmas for Props/C20).
-/
import EzdxfVerif.Lemmas.TextAgree
import EzdxfVerif.Lemmas.TextTotal
namespace EzdxfVerif.Text

private theorem map_ok2 {α β : Type} (f : α → β) (x : Except PyErr α) (a : α) (h : x = .ok a) :
    f <$> x = .ok (f a) := by subst h; rfl

theorem flat_wordAnd_tab (w : Str) : flat (wordAnd w .tab) = w ++ [' ', ' ', ' ', ' '] := by
  unfold wordAnd; split
  · rename_i h; simp at h; subst h; simp [flat]
  · simp [flat]

/-! ### one-step unfoldings of `slowLoop` -/

theorem slowLoop_nil (sp : Special) : slowLoop sp [] = [] := by rw [slowLoop.eq_def]

theorem slowLoop_bs_end (sp : Special) : slowLoop sp ['\\'] = [' '] := by rw [slowLoop.eq_def]; simp

theorem slowLoop_esc (sp : Special) (d : Char) (r2 : Str) (hd : d = '\\' ∨ d = '{' ∨ d = '}') :
    slowLoop sp ('\\' :: d :: r2) = d :: slowLoop sp r2 := by
  conv => lhs; rw [slowLoop.eq_def]
  simp only [↓reduceIte, hd]

theorem slowLoop_nbsp (sp : Special) (r2 : Str) : slowLoop sp ('\\' :: '~' :: r2) = ' ' :: slowLoop sp r2 := by
  conv => lhs; rw [slowLoop.eq_def]
  simp

theorem slowLoop_P (sp : Special) (r2 : Str) : slowLoop sp ('\\' :: 'P' :: r2) = '\n' :: slowLoop sp r2 := by
  conv => lhs; rw [slowLoop.eq_def]
  simp

theorem slowLoop_N (sp : Special) (r2 : Str) : slowLoop sp ('\\' :: 'N' :: r2) = '\n' :: slowLoop sp r2 := by
  conv => lhs; rw [slowLoop.eq_def]
  simp

theorem slowLoop_X (sp : Special) (r2 : Str) : slowLoop sp ('\\' :: 'X' :: r2) = slowLoop sp r2 := by
  conv => lhs; rw [slowLoop.eq_def]
  simp

theorem slowLoop_S (sp : Special) (r2 expr r3 : Str) (he : extractExpr true r2 = (expr, r3)) :
    slowLoop sp ('\\' :: 'S' :: r2) = stackText (parseStacking expr) ++ slowLoop sp r3 := by
  conv => lhs; rw [slowLoop.eq_def]
  simp only [show ¬(('S' : Char) = '\\' ∨ ('S' : Char) = '{' ∨ ('S' : Char) = '}') by decide,
    show ('S' : Char) ≠ '~' by decide, show ¬(('S' : Char) = 'P' ∨ ('S' : Char) = 'N') by decide,
    show ('S' : Char) ≠ 'X' by decide, ↓reduceIte]
  rw [he]

theorem slowLoop_cmd (sp : Special) (d : Char) (r2 r3 : Str)
    (hd : ¬(d = '\\' ∨ d = '{' ∨ d = '}')) (h1 : d ≠ '~') (h2 : d ≠ 'P') (h3 : d ≠ 'N') (h4 : d ≠ 'X') (h5 : d ≠ 'S')
    (hp : parseProperties d r2 = some (.ok r3)) :
    slowLoop sp ('\\' :: d :: r2) = slowLoop sp r3 := by
  conv => lhs; rw [slowLoop.eq_def]
  simp only [↓reduceIte, hd, h1, h2, h3, h4, h5, or_self]
  split
  · rename_i r h; rw [hp] at h; cases h; rfl
  · rename_i h; exact absurd hp (h r3)

theorem slowLoop_unknown (sp : Special) (d : Char) (r2 : Str)
    (hd : ¬(d = '\\' ∨ d = '{' ∨ d = '}')) (h1 : d ≠ '~') (h2 : d ≠ 'P') (h3 : d ≠ 'N') (h4 : d ≠ 'X') (h5 : d ≠ 'S')
    (hp : parseProperties d r2 = none) :
    slowLoop sp ('\\' :: d :: r2) = '\\' :: d :: slowLoop sp r2 := by
  conv => lhs; rw [slowLoop.eq_def]
  simp only [↓reduceIte, hd, h1, h2, h3, h4, h5, or_self]
  split
  · rename_i r h; rw [hp] at h; cases h
  · rfl

theorem slowLoop_tab (sp : Special) (r : Str) : slowLoop sp ('\t' :: r) = ' ' :: ' ' :: ' ' :: ' ' :: slowLoop sp r := by
  conv => lhs; rw [slowLoop.eq_def]
  simp

theorem slowLoop_lf (sp : Special) (r : Str) : slowLoop sp ('\n' :: r) = '\n' :: slowLoop sp r := by
  conv => lhs; rw [slowLoop.eq_def]
  simp

theorem slowLoop_ctl (sp : Special) (c : Char) (r : Str) (h0 : c ≠ '\\') (h1 : c ≠ '\t') (h2 : c ≠ '\n') (h3 : c.toNat < 32) :
    slowLoop sp (c :: r) = ' ' :: slowLoop sp r := by
  conv => lhs; rw [slowLoop.eq_def]
  simp only [↓reduceIte, h0, h1, h2, h3]

theorem slowLoop_special (sp : Special) (c l : Char) (r r3 : Str)
    (h0 : c ≠ '\\') (h1 : c ≠ '\t') (h2 : c ≠ '\n') (h3 : ¬ c.toNat < 32) (hs : specialAt sp c r = some (l, r3)) :
    slowLoop sp (c :: r) = l :: slowLoop sp r3 := by
  conv => lhs; rw [slowLoop.eq_def]
  simp only [↓reduceIte, h0, h1, h2, h3]
  split
  · rename_i l' r3' h; rw [hs] at h; cases h; rfl
  · rename_i h; rw [hs] at h; cases h

theorem slowLoop_brace (sp : Special) (c : Char) (r : Str) (h : c = '{' ∨ c = '}') :
    slowLoop sp (c :: r) = slowLoop sp r := by
  conv => lhs; rw [slowLoop.eq_def]
  have h0 : c ≠ '\\' := by rcases h with h | h <;> subst h <;> decide
  have h1 : c ≠ '\t' := by rcases h with h | h <;> subst h <;> decide
  have h2 : c ≠ '\n' := by rcases h with h | h <;> subst h <;> decide
  have h3 : ¬ c.toNat < 32 := by rcases h with h | h <;> subst h <;> decide
  have hs : specialAt sp c r = none := by
    have : c ≠ '%' := by rcases h with h | h <;> subst h <;> decide
    simp [specialAt, this]
  simp only [↓reduceIte, h0, h1, h2, h3]
  split
  · rename_i h'; rw [hs] at h'; cases h'
  · simp only [h, ↓reduceIte]

theorem slowLoop_char (sp : Special) (c : Char) (r : Str)
    (h0 : c ≠ '\\') (h1 : c ≠ '\t') (h2 : c ≠ '\n') (h3 : ¬ c.toNat < 32) (hs : specialAt sp c r = none)
    (hb : ¬(c = '{' ∨ c = '}')) :
    slowLoop sp (c :: r) = c :: slowLoop sp r := by
  conv => lhs; rw [slowLoop.eq_def]
  simp only [↓reduceIte, h0, h1, h2, h3]
  split
  · rename_i h'; rw [hs] at h'; cases h'
  · simp only [hb, ↓reduceIte]

theorem flat_stack_cons (expr : Str) (ts : List Token) :
    flat (parseStacking expr :: ts) = stackText (parseStacking expr) ++ flat ts := by
  unfold parseStacking
  simp [flat, stackText]

/-- every string: the flattened token stream is the word under construction followed by `slowLoop` -/
theorem scan_flat (sp : Special) (rest word : Str) :
    ∃ ts, scan sp rest word = .ok ts ∧ flat ts = word ++ slowLoop sp rest := by
  fun_induction scan sp rest word
  case case1 word =>
    refine ⟨_, rfl, ?_⟩
    rw [slowLoop_nil]
    by_cases hw : word = []
    · subst hw; simp [flat]
    · have : word.isEmpty = false := by cases word <;> simp_all
      simp [this, flat]
  case case2 word =>
    refine ⟨_, rfl, ?_⟩
    rw [flat_wordAnd_space, slowLoop_bs_end]
  case case3 word d r2 hd ih =>
    obtain ⟨ts, h1, h2⟩ := ih
    refine ⟨ts, h1, ?_⟩
    rw [h2, slowLoop_esc sp d r2 hd]; simp
  case case4 word d r2 hd hw _ ih =>
    obtain ⟨ts, h1, h2⟩ := ih
    refine ⟨_, map_ok2 _ _ _ h1, ?_⟩
    simp [flat, h2]
  case case5 word r2 hw _ ih =>
    simp only [ne_eq, Decidable.not_not] at hw; subst hw
    obtain ⟨ts, h1, h2⟩ := ih
    refine ⟨_, map_ok2 _ _ _ h1, ?_⟩
    rw [slowLoop_nbsp]; simp [flat, h2]
  case case6 word r2 hw _ _ ih =>
    simp only [ne_eq, Decidable.not_not] at hw; subst hw
    obtain ⟨ts, h1, h2⟩ := ih
    refine ⟨_, map_ok2 _ _ _ h1, ?_⟩
    rw [slowLoop_P]; simp [flat, h2]
  case case7 word r2 hw _ _ _ ih =>
    simp only [ne_eq, Decidable.not_not] at hw; subst hw
    obtain ⟨ts, h1, h2⟩ := ih
    refine ⟨_, map_ok2 _ _ _ h1, ?_⟩
    rw [slowLoop_N]; simp [flat, h2]
  case case8 word r2 hw _ _ _ _ ih =>
    simp only [ne_eq, Decidable.not_not] at hw; subst hw
    obtain ⟨ts, h1, h2⟩ := ih
    refine ⟨_, map_ok2 _ _ _ h1, ?_⟩
    rw [slowLoop_X]; simp [flat, h2]
  case case9 word r2 hw expr r3 he _ _ _ _ _ _ ih =>
    simp only [ne_eq, Decidable.not_not] at hw; subst hw
    obtain ⟨ts, h1, h2⟩ := ih
    refine ⟨_, map_ok2 _ _ _ h1, ?_⟩
    rw [slowLoop_S sp r2 expr r3 he, flat_stack_cons, h2]
    simp
  case case10 word d r2 hd hw h1 h2 h3 h4 h5 hp ih =>
    obtain ⟨ts, t1, t2⟩ := ih
    refine ⟨ts, t1, ?_⟩
    rw [t2, slowLoop_unknown sp d r2 hd h1 h2 h3 h4 h5 hp]; simp
  case case11 word d r2 hd hw h1 h2 h3 h4 h5 e hp =>
    exact absurd hp (parseProperties_no_error _ _ _)
  case case12 word d r2 hd hw h1 h2 h3 h4 h5 r3 hp _ ih =>
    obtain ⟨ts, t1, t2⟩ := ih
    refine ⟨ts, t1, ?_⟩
    rw [t2, slowLoop_cmd sp d r2 r3 hd h1 h2 h3 h4 h5 hp]
  case case13 word tail _ ih =>
    obtain ⟨ts, h1, h2⟩ := ih
    refine ⟨_, map_ok2 _ _ _ h1, ?_⟩
    rw [flat_append, flat_wordAnd_tab, h2, slowLoop_tab]; simp
  case case14 word tail _ _ ih =>
    obtain ⟨ts, h1, h2⟩ := ih
    refine ⟨_, map_ok2 _ _ _ h1, ?_⟩
    rw [flat_append, flat_wordAnd_np, h2, slowLoop_lf]; simp
  case case15 word head tail hb ht hn h32 ih =>
    obtain ⟨ts, h1, h2⟩ := ih
    refine ⟨_, map_ok2 _ _ _ h1, ?_⟩
    rw [flat_append, flat_wordAnd_space, h2, slowLoop_ctl sp head tail hb ht hn h32]; simp
  case case16 word head tail hb ht hn h32 l r3 hs _ ih =>
    obtain ⟨ts, h1, h2⟩ := ih
    refine ⟨ts, h1, ?_⟩
    rw [h2, slowLoop_special sp head l tail r3 hb ht hn h32 hs]; simp
  case case17 word tail _ _ _ _ hs ih =>
    obtain ⟨ts, h1, h2⟩ := ih
    refine ⟨_, map_ok2 _ _ _ h1, ?_⟩
    rw [flat_append, flat_wordAnd_space, h2,
      slowLoop_char sp ' ' tail (by decide) (by decide) (by decide) (by decide) hs (by decide)]
    simp
  case case18 word head tail hb ht hn h32 hs hsp hbr hw _ ih =>
    obtain ⟨ts, h1, h2⟩ := ih
    refine ⟨_, map_ok2 _ _ _ h1, ?_⟩
    simp [flat, h2]
  case case19 word head tail hb ht hn h32 hs hsp hbr hw ih =>
    simp only [ne_eq, Decidable.not_not] at hw; subst hw
    obtain ⟨ts, h1, h2⟩ := ih
    refine ⟨ts, h1, ?_⟩
    rw [h2, slowLoop_brace sp head tail hbr]
  case case20 word head tail hb ht hn h32 hs hsp hbr ih =>
    obtain ⟨ts, h1, h2⟩ := ih
    refine ⟨ts, h1, ?_⟩
    rw [h2, slowLoop_char sp head tail hb ht hn h32 hs hbr]; simp

/-- on the agreement class the string-level meaning of `plain_mtext` is `fastLoop` -/
theorem slowLoop_eq_fastLoop (sp : Special) (d : Str) (h : agreeClass sp d = true) :
    slowLoop sp d = fastLoop sp d := by
  obtain ⟨ts, h1, h2⟩ := scan_agree sp d [] h
  obtain ⟨ts', h1', h2'⟩ := scan_flat sp d []
  rw [h1] at h1'
  cases h1'
  simpa using h2'.symm.trans h2

end EzdxfVerif.Text

/-
scale_mtext_inline_commands (lemmas for Props/C20).
-/
import EzdxfVerif.Lemmas.TextSpec
namespace EzdxfVerif.Text

theorem splitH_no_backslash (s : Str) (h : ∀ c ∈ s, c ≠ '\\') : splitH s = [s] := by
  induction s with
  | nil => rw [splitH]
  | cons c r ih =>
    have hc : c ≠ '\\' := h c (by simp)
    have ihr := ih (fun x hx => h x (by simp [hx]))
    cases r with
    | nil => rw [splitH]
    | cons d r2 => rw [splitH]; simp [hc, ihr]

/-- content without a backslash is returned unchanged -/
theorem scale_no_backslash (s : Str) (h : ∀ c ∈ s, c ≠ '\\') : scaleSegs s = [.text s] := by
  simp [scaleSegs, splitH_no_backslash s h]

/-- one `\H` part: unless the leading number is non-empty and invalid for `float()` (".", "1..2"), the text is kept
    and only the number is replaced; an invalid number is DELETED -/
theorem scalePart_unscale (part : Str) :
    unscale (scalePart part) =
      if validNumber (part.takeWhile isHeightChar) ∨ (part.drop (part.takeWhile isHeightChar).length).head? = some 'x'
      then '\\' :: 'H' :: part
      else '\\' :: 'H' :: part.drop (part.takeWhile isHeightChar).length := by
  have htk : part.take (part.takeWhile isHeightChar).length = part.takeWhile isHeightChar := by
    induction part with
    | nil => rfl
    | cons a t ih =>
      simp only [List.takeWhile]
      split
      · simp [ih]
      · simp
  have happ : part.takeWhile isHeightChar ++ part.drop (part.takeWhile isHeightChar).length = part := by
    have := List.take_append_drop (part.takeWhile isHeightChar).length part
    rw [htk] at this
    exact this
  unfold scalePart
  simp only
  split
  · rename_i c rest hr
    by_cases hx : c = 'x'
    · simp [hx, hr, unscale]
    · by_cases hv : validNumber (part.takeWhile isHeightChar) = true
      · simp only [hx, ↓reduceIte, hv, unscale, hr, List.head?_cons, Option.some.injEq, true_or, List.append_nil]
        rw [← hr]; simp [happ]
      · simp [hx, hv, hr, unscale]
  · rename_i hr
    by_cases hv : validNumber (part.takeWhile isHeightChar) = true
    · simp only [hv, ↓reduceIte, unscale, hr, List.head?_nil, true_or, List.append_nil]
      have : part.takeWhile isHeightChar = part := by rw [hr, List.append_nil] at happ; exact happ
      simp [this]
    · simp [hv, hr, unscale]

end EzdxfVerif.Text

/-
Lemmas about the structural audit model (Model/Audit.lean), used by Props/C06.
-/
import EzdxfVerif.Model.Audit
import EzdxfVerif.Lemmas.DocWrite

namespace EzdxfVerif.Doc

theorem filter_all_true {α : Type} (p : α → Bool) (l : List α) (h : ∀ x ∈ l, p x = true) : l.filter p = l := by
  induction l with
  | nil => rfl
  | cons a t ih =>
    simp only [List.filter_cons, h a (by simp), ↓reduceIte]
    rw [ih (fun x hx => h x (by simp [hx]))]

theorem filter_all_false {α : Type} (p : α → Bool) (l : List α) (h : ∀ x ∈ l, p x = false) : l.filter p = [] := by
  induction l with
  | nil => rfl
  | cons a t ih =>
    simp only [List.filter_cons, h a (by simp)]
    exact ih (fun x hx => h x (by simp [hx]))

theorem auditSpaces_clean (s : State) (h : ∀ p ∈ s.spaces, ∀ x ∈ p.2, keepInSpace s p.1 x = true) :
    auditSpaces s = s ∧ spaceFixes s = 0 := by
  constructor
  · unfold auditSpaces
    have : s.spaces.map (fun p => (p.1, p.2.filter (keepInSpace s p.1))) = s.spaces := by
      rw [← List.map_id s.spaces, List.map_map]
      apply List.map_congr_left
      intro p hp
      simp only [Function.comp_def, id]
      rw [filter_all_true _ _ (h p hp)]
    rw [this]
  · unfold spaceFixes
    have : s.spaces.map (fun p => (p.2.filter (fun x => !keepInSpace s p.1 x)).length) = s.spaces.map (fun _ => 0) := by
      apply List.map_congr_left
      intro p hp
      rw [filter_all_false]
      · rfl
      · intro x hx; simp [h p hp x hx]
    rw [this]
    induction s.spaces with
    | nil => rfl
    | cons a t ih => simpa using ih

theorem auditEntities_clean (s : State) (h : ∀ e ∈ s.ents, trashed s e = false) :
    auditEntities s = s ∧ entityFixes s = 0 := by
  constructor
  · unfold auditEntities
    have : s.ents.map (fun e => if trashed s e then { e with alive := false, indb := false } else e) = s.ents := by
      rw [← List.map_id s.ents, List.map_map]
      apply List.map_congr_left
      intro e he
      simp [Function.comp_def, h e he]
    rw [this]
  · unfold entityFixes
    have h1 : ∀ e ∈ s.ents, (e.alive && e.indb && !ownerExists s e.owner) = false := by
      intro e he
      have := h e he
      simp only [trashed] at this
      cases ha : e.alive <;> cases hi : e.indb <;> cases ho : ownerExists s e.owner <;> simp_all
    have h2 : ∀ e ∈ s.ents, (e.alive && e.indb && !blockDefined s e.ref) = false := by
      intro e he
      have := h e he
      simp only [trashed] at this
      cases ha : e.alive <;> cases hi : e.indb <;> cases hb : blockDefined s e.ref <;> simp_all
    rw [filter_all_false _ _ h1, filter_all_false _ _ h2]; rfl

/-- no false positives: a clean state is left unchanged and no fix is applied -/
theorem audit_sound (s : State) (h : AuditClean s) : audit s = (s, 0) := by
  unfold audit
  have h1 := auditSpaces_clean s h.1
  simp only [h1.1, h1.2]
  have h2 := auditEntities_clean s h.2
  simp only [h2.1, h2.2]

theorem trashed_auditEntities (s : State) (e : Ent) : trashed (auditEntities s) e = trashed s e := rfl

def killF (s : State) (e : Ent) : Ent := if trashed s e then { e with alive := false, indb := false } else e

theorem killF_h (s : State) (e : Ent) : (killF s e).h = e.h := by unfold killF; split <;> rfl
theorem killF_owner (s : State) (e : Ent) : (killF s e).owner = e.owner := by unfold killF; split <;> rfl
theorem killF_alive (s : State) (e : Ent) (h : e.alive = false) : (killF s e).alive = false := by
  unfold killF; split <;> simp [h]

theorem findEnt_auditEntities (s : State) (h : Nat) :
    findEnt (auditEntities s) h = (findEnt s h).map (killF s) := by
  unfold findEnt auditEntities
  simp only [List.find?_map, Function.comp_def]
  have : (fun x : Ent => decide ((if trashed s x then { x with alive := false, indb := false } else x).h = h)) =
      (fun x : Ent => decide (x.h = h)) := by
    funext x; split <;> rfl
  rw [this]
  rfl

theorem keepInSpace_auditEntities (s : State) (k h : Nat) (hk : keepInSpace s k h = true) :
    keepInSpace (auditEntities s) k h = true := by
  unfold keepInSpace isAlive ownerOf at *
  rw [findEnt_auditEntities]
  cases hf : findEnt s h with
  | none => simp
  | some e =>
    simp only [hf, Option.map_some, killF_owner] at hk ⊢
    simp only [Bool.or_eq_true, Bool.not_eq_true', beq_iff_eq] at hk ⊢
    rcases hk with hk | hk
    · exact Or.inl (killF_alive s e hk)
    · exact Or.inr hk

/-- one audit run reaches a fixed point, for EVERY state (any combination of the modelled damage):
    the audited state is clean, hence a second run applies no fix and changes nothing -/
theorem audit_clean (s : State) : AuditClean (audit s).1 := by
  unfold audit
  simp only
  constructor
  · intro p hp x hx
    -- spaces of the result are the filtered spaces of `s`
    have hsp : (auditEntities (auditSpaces s)).spaces = (auditSpaces s).spaces := rfl
    rw [hsp] at hp
    simp only [auditSpaces, List.mem_map] at hp
    obtain ⟨q, hq, rfl⟩ := hp
    simp only [List.mem_filter] at hx
    apply keepInSpace_auditEntities
    -- keepInSpace only looks at `ents`, which auditSpaces leaves alone
    exact hx.2
  · intro e he
    simp only [auditEntities, List.mem_map] at he
    obtain ⟨e0, he0, rfl⟩ := he
    rw [trashed_auditEntities]
    split
    · simp [trashed]
    · rename_i hnot
      simpa using hnot

theorem audit_fixpoint (s : State) : audit (audit s).1 = ((audit s).1, 0) :=
  audit_sound _ (audit_clean s)

theorem audit_hs (s : State) : hs (audit s).1 = hs s := by
  show (List.map (killF (auditSpaces s)) (auditSpaces s).ents).map (·.h) = s.ents.map (·.h)
  exact map_fields_hs _ _ (killF_h _)

/-- the audited document still satisfies the structural invariants (so the C04 theorems about the
    written file apply to it) -/
theorem audit_inv (s : State) (h : DocInv s) (hb : BInv s) : DocInv (audit s).1 ∧ BInv (audit s).1 := by
  have hh := audit_hs s
  refine ⟨⟨?_, ?_⟩, ?_⟩
  · unfold HInv at *
    rw [hh]; exact h.1
  · rw [hh]
    show SInv (s.spaces.map (fun p => (p.1, p.2.filter (keepInSpace s p.1)))) (hs s) s.next
    refine h.2.sub (by simp [keys, List.map_map, Function.comp_def]) ?_
    clear hh hb
    induction s.spaces with
    | nil => simp [allH]
    | cons p r ih =>
      simp only [List.map_cons]
      rw [allH_cons, allH_cons]
      exact List.Sublist.append List.filter_sublist ih
  · refine hb.of_same_tables rfl ?_
    simp [audit, auditEntities, auditSpaces, keys, List.map_map, Function.comp_def]

end EzdxfVerif.Doc

/-
Lemmas about the structural audit model (Model/Audit.lean), used by Props/C06.
-/
import EzdxfVerif.Model.Audit
import EzdxfVerif.Lemmas.DocWrite

namespace EzdxfVerif.Doc

theorem filter_all_true {α : Type} (p : α → Bool) (l : List α) (h : ∀ x ∈ l, p x = true) : l.filter p = l := by
  induction l with
  | nil => rfl
  | cons a t ih =>
    simp only [List.filter_cons, h a (by simp), ↓reduceIte]
    rw [ih (fun x hx => h x (by simp [hx]))]

theorem filter_all_false {α : Type} (p : α → Bool) (l : List α) (h : ∀ x ∈ l, p x = false) : l.filter p = [] := by
  induction l with
  | nil => rfl
  | cons a t ih =>
    simp only [List.filter_cons, h a (by simp)]
    exact ih (fun x hx => h x (by simp [hx]))

theorem auditSpaces_clean (s : State) (h : ∀ p ∈ s.spaces, ∀ x ∈ p.2, keepInSpace s p.1 x = true) :
    auditSpaces s = s ∧ spaceFixes s = 0 := by
  constructor
  · unfold auditSpaces
    have : s.spaces.map (fun p => (p.1, p.2.filter (keepInSpace s p.1))) = s.spaces := by
      rw [← List.map_id s.spaces, List.map_map]
      apply List.map_congr_left
      intro p hp
      simp only [Function.comp_def, id]
      rw [filter_all_true _ _ (h p hp)]
    rw [this]
  · unfold spaceFixes
    have : s.spaces.map (fun p => (p.2.filter (fun x => !keepInSpace s p.1 x)).length) = s.spaces.map (fun _ => 0) := by
      apply List.map_congr_left
      intro p hp
      rw [filter_all_false]
      · rfl
      · intro x hx; simp [h p hp x hx]
    rw [this]
    induction s.spaces with
    | nil => rfl
    | cons a t ih => simpa using ih

theorem auditEntities_clean (s : State) (h : ∀ e ∈ s.ents, trashed s e = false) :
    auditEntities s = s ∧ entityFixes s = 0 := by
  constructor
  · unfold auditEntities
    have : s.ents.map (fun e => if trashed s e then { e with alive := false, indb := false } else e) = s.ents := by
      rw [← List.map_id s.ents, List.map_map]
      apply List.map_congr_left
      intro e he
      simp [Function.comp_def, h e he]
    rw [this]
  · unfold entityFixes
    have h1 : ∀ e ∈ s.ents, (e.alive && e.indb && !ownerExists s e.owner) = false := by
      intro e he
      have := h e he
      simp only [trashed] at this
      cases ha : e.alive <;> cases hi : e.indb <;> cases ho : ownerExists s e.owner <;> simp_all
    have h2 : ∀ e ∈ s.ents, (e.alive && e.indb && !blockDefined s e.ref) = false := by
      intro e he
      have := h e he
      simp only [trashed] at this
      cases ha : e.alive <;> cases hi : e.indb <;> cases hb : blockDefined s e.ref <;> simp_all
    rw [filter_all_false _ _ h1, filter_all_false _ _ h2]; rfl

theorem auditGroup_clean (s : State) (g : Str × Nat × List Nat)
    (h : g.2.2.all (validMember s) = true ∧ sameLayout s g.2.2 = true ∧ g.2.2.isEmpty = false) :
    auditGroup s g = g := by
  have hf : g.2.2.filter (validMember s) = g.2.2 :=
    filter_all_true _ _ (by simpa [List.all_eq_true] using h.1)
  simp only [auditGroup, hf, h.2.1, ↓reduceIte]

theorem sum_zero (l : List Nat) (h : ∀ x ∈ l, x = 0) : l.sum = 0 := by
  induction l with
  | nil => rfl
  | cons a t ih =>
    simp only [List.sum_cons]
    rw [h a (by simp), ih (fun x hx => h x (by simp [hx]))]

theorem auditGroups_clean (s : State)
    (h : ∀ g ∈ s.groups, g.2.2.all (validMember s) = true ∧ sameLayout s g.2.2 = true ∧ g.2.2.isEmpty = false) :
    auditGroups s = s ∧ groupFixes s = 0 := by
  have hmap : s.groups.map (auditGroup s) = s.groups := by
    rw [← List.map_id s.groups, List.map_map]
    apply List.map_congr_left
    intro g hg
    simp only [Function.comp_def, id]
    exact auditGroup_clean s g (h g hg)
  constructor
  · unfold auditGroups
    rw [hmap, filter_all_true _ _ (by intro g hg; simp [(h g hg).2.2])]
  · unfold groupFixes
    apply sum_zero
    intro x hx
    simp only [List.mem_map] at hx
    obtain ⟨g, hg, rfl⟩ := hx
    have hc := h g hg
    have hf : g.2.2.filter (validMember s) = g.2.2 :=
      filter_all_true _ _ (by simpa [List.all_eq_true] using hc.1)
    simp only [auditGroup_clean s g hc, hf, hc.2.1, hc.2.2, Nat.lt_irrefl]
    simp

/-- no false positives: a clean state is left unchanged and no fix is applied -/
theorem audit_sound (s : State) (h : AuditClean s) : audit s = (s, 0) := by
  unfold audit
  have h1 := auditSpaces_clean s h.1
  simp only [h1.1, h1.2]
  have hD : dropAll s (orphanBlocks s) = s := by simp [h.2.2.2.1, dropAll]
  have hL : auditLayouts s = s := by
    simp only [auditLayouts, hD, restoreActive, h.2.2.2.2, Bool.false_eq_true, ↓reduceIte]
  have hF : layoutFixes s = 0 := by
    unfold layoutFixes
    rw [hD, h.2.2.2.1, h.2.2.2.2]
    rfl
  simp only [hL, hF]
  have h2 := auditEntities_clean s h.2.1
  simp only [h2.1, h2.2]
  have h3 := auditGroups_clean s h.2.2.1
  have hmap : s.groups.map (auditGroup s) = s.groups := by
    rw [← List.map_id s.groups, List.map_map]
    apply List.map_congr_left
    intro g hg
    simp only [Function.comp_def, id]
    exact auditGroup_clean s g (h.2.2.1 g hg)
  have h0 : groupFixes0 s = 0 := by
    unfold groupFixes0
    apply sum_zero
    intro x hx
    simp only [List.mem_map] at hx
    obtain ⟨g, hg, rfl⟩ := hx
    have hc := h.2.2.1 g hg
    have hf : g.2.2.filter (validMember s) = g.2.2 :=
      filter_all_true _ _ (by simpa [List.all_eq_true] using hc.1)
    simp [hf, hc.2.1]
  have hs : ({ s with groups := s.groups } : State) = s := rfl
  simp only [hmap, hs, h3.1, h3.2, h0]

theorem trashed_auditEntities (s : State) (e : Ent) : trashed (auditEntities s) e = trashed s e := rfl

def killF (s : State) (e : Ent) : Ent := if trashed s e then { e with alive := false, indb := false } else e

theorem killF_h (s : State) (e : Ent) : (killF s e).h = e.h := by unfold killF; split <;> rfl
theorem killF_owner (s : State) (e : Ent) : (killF s e).owner = e.owner := by unfold killF; split <;> rfl
theorem killF_alive (s : State) (e : Ent) (h : e.alive = false) : (killF s e).alive = false := by
  unfold killF; split <;> simp [h]

theorem findEnt_auditEntities (s : State) (h : Nat) :
    findEnt (auditEntities s) h = (findEnt s h).map (killF s) := by
  unfold findEnt auditEntities
  simp only [List.find?_map, Function.comp_def]
  have : (fun x : Ent => decide ((if trashed s x then { x with alive := false, indb := false } else x).h = h)) =
      (fun x : Ent => decide (x.h = h)) := by
    funext x; split <;> rfl
  rw [this]
  rfl

theorem keepInSpace_auditEntities (s : State) (k h : Nat) (hk : keepInSpace s k h = true) :
    keepInSpace (auditEntities s) k h = true := by
  unfold keepInSpace isAlive ownerOf at *
  rw [findEnt_auditEntities]
  cases hf : findEnt s h with
  | none => simp
  | some e =>
    simp only [hf, Option.map_some, killF_owner] at hk ⊢
    simp only [Bool.or_eq_true, Bool.not_eq_true', beq_iff_eq] at hk ⊢
    rcases hk with hk | hk
    · exact Or.inl (killF_alive s e hk)
    · exact Or.inr hk

/-- killing entities (owners untouched) keeps `keepInSpace` -/
theorem keepInSpace_kill {s s' : State} (g : Ent → Ent) (hE : s'.ents = s.ents.map g)
    (hg : ∀ x, (g x).h = x.h ∧ (g x).owner = x.owner ∧ ((g x).alive = true → x.alive = true))
    (k h : Nat) (hk : keepInSpace s k h = true) : keepInSpace s' k h = true := by
  have hf : findEnt s' h = (findEnt s h).map g := by
    simp only [findEnt, hE, List.find?_map, Function.comp_def]
    have : (fun x : Ent => decide ((g x).h = h)) = (fun x : Ent => decide (x.h = h)) := by
      funext x; rw [(hg x).1]
    rw [this]
  unfold keepInSpace isAlive ownerOf at *
  rw [hf]
  cases hfe : findEnt s h with
  | none => simp
  | some e =>
    simp only [hfe, Option.map_some, (hg e).2.1] at hk ⊢
    simp only [Bool.or_eq_true, Bool.not_eq_true', beq_iff_eq] at hk ⊢
    rcases hk with hk | hk
    · left
      cases hga : (g e).alive with
      | false => rfl
      | true => rw [(hg e).2.2 hga] at hk; cases hk
    · exact Or.inr hk

theorem dropContainer_keep (s : State) (br k h : Nat) (hk : keepInSpace s k h = true) :
    keepInSpace (dropContainer s br) k h = true :=
  keepInSpace_kill (fun x => if ((spaceOf s br).getD []).contains x.h then { x with alive := false } else x) rfl
    (fun x => by split <;> simp) k h hk

theorem dropAll_keep : ∀ (l : List Nat) (s : State),
    (∀ p ∈ s.spaces, ∀ x ∈ p.2, keepInSpace s p.1 x = true) →
    ∀ p ∈ (dropAll s l).spaces, ∀ x ∈ p.2, keepInSpace (dropAll s l) p.1 x = true
  | [], _, h => h
  | a :: r, s, h => by
    simp only [dropAll, List.foldl_cons]
    apply dropAll_keep r
    intro p hp x hx
    have hp' : p ∈ s.spaces := by
      simp only [dropContainer, List.mem_filter] at hp; exact hp.1
    exact dropContainer_keep s a p.1 x (h p hp' x hx)

theorem dropAll_blocks : ∀ (l : List Nat) (s : State),
    (dropAll s l).blocks = s.blocks.filter (fun b => !l.contains b.2.2) ∧ (dropAll s l).layouts = s.layouts
  | [], s => by
    refine ⟨?_, rfl⟩
    show s.blocks = s.blocks.filter (fun _ => true)
    exact (filter_all_true _ _ (fun _ _ => rfl)).symm
  | a :: r, s => by
    simp only [dropAll, List.foldl_cons]
    have ih := dropAll_blocks r (dropContainer s a)
    simp only [dropAll] at ih
    refine ⟨?_, by rw [ih.2]; rfl⟩
    rw [ih.1]
    simp only [dropContainer, List.filter_filter]
    apply List.filter_congr
    intro b _
    by_cases hb : b.2.2 = a
    · simp [hb]
    · simp [hb]

/-- after the orphaned paperspace block records are dropped none is left -/
theorem orphanBlocks_dropAll (s : State) : orphanBlocks (dropAll s (orphanBlocks s)) = [] := by
  have key : ∀ l, l = orphanBlocks s → orphanBlocks (dropAll s l) = [] := by
    intro l hl0
    obtain ⟨hb, hl⟩ := dropAll_blocks l s
    have hp : pspLayoutBrs (dropAll s l) = pspLayoutBrs s := by
      simp only [pspLayoutBrs, hl]
    simp only [orphanBlocks, List.map_eq_nil_iff, List.filter_eq_nil_iff]
    intro b hbm
    simp only [hb, List.mem_filter] at hbm
    intro ho
    have hio : isOrphan s b = true := by
      simp only [isOrphan, hp] at ho ⊢; exact ho
    have : b.2.2 ∈ l := by
      rw [hl0]
      simp only [orphanBlocks, List.mem_map, List.mem_filter]
      exact ⟨b, ⟨hbm.1, hio⟩, rfl⟩
    simp [this] at hbm
  exact key _ rfl

theorem restoreCandidate_psp {s : State} {l : Lay} (h : restoreCandidate s = some l) : l.br ∈ pspLayoutBrs s := by
  have hm := List.mem_of_find?_eq_some h
  have hp := List.find?_some h
  simp only [Bool.and_eq_true] at hp
  simp only [pspLayoutBrs, List.mem_map, List.mem_filter]
  exact ⟨l, ⟨hm, hp.1⟩, rfl⟩

/-- restoring the active layout renames the block of a paperspace LAYOUT: it creates no orphan -/
theorem orphanBlocks_restoreActive (s : State) (h : orphanBlocks s = []) : orphanBlocks (restoreActive s) = [] := by
  unfold restoreActive
  split
  · split
    · rename_i l hl
      have hpsp := restoreCandidate_psp hl
      simp only [orphanBlocks, List.map_eq_nil_iff, List.filter_eq_nil_iff] at h ⊢
      intro b hb
      have hP : ∀ c, isOrphan { s with blocks := s.blocks.filter (·.2.2 ≠ l.br) ++ [(lower paperSpaceName, paperSpaceName, l.br)] } c
          = isOrphan s c := fun _ => rfl
      rw [hP]
      simp only [List.mem_append, List.mem_filter, List.mem_singleton] at hb
      rcases hb with hb | rfl
      · exact h b hb.1
      · simp only [isOrphan, Bool.and_eq_true, Bool.not_eq_true', not_and]
        intro _
        simpa using hpsp
    · exact h
  · exact h

theorem orphanBlocks_auditLayouts (s : State) : orphanBlocks (auditLayouts s) = [] :=
  orphanBlocks_restoreActive _ (orphanBlocks_dropAll s)

theorem blockBr_append_new (bl : List (Str × Str × Nat)) (key name : Str) (br : Nat)
    (h : (bl.find? (·.1 = key)) = none) :
    ((bl.filter (·.2.2 ≠ br) ++ [(key, name, br)]).find? (·.1 = key)).map (·.2.2) = some br := by
  rw [List.find?_append]
  have : (bl.filter (·.2.2 ≠ br)).find? (·.1 = key) = none := by
    apply List.find?_eq_none.mpr
    intro x hx
    exact List.find?_eq_none.mp h x (List.mem_filter.mp hx).1
  rw [this]
  simp

/-- after `restoreActive` nothing is left to restore -/
theorem needRestore_restoreActive (s : State) : needRestore (restoreActive s) = false := by
  unfold restoreActive
  split
  · rename_i hn
    split
    · rename_i l hl
      simp only [needRestore, Bool.and_eq_true, Option.isNone_iff_eq_none] at hn
      simp only [needRestore, Bool.and_eq_false_imp, Option.isNone_iff_eq_none]
      intro hnone
      exfalso
      have hfind : s.blocks.find? (·.1 = lower paperSpaceName) = none := by
        have := hn.1
        unfold blockBr at this
        cases hf : s.blocks.find? (·.1 = lower paperSpaceName) with
        | none => rfl
        | some b => simp [hf] at this
      have := blockBr_append_new s.blocks (lower paperSpaceName) paperSpaceName l.br hfind
      unfold blockBr at hnone
      rw [this] at hnone
      cases hnone
    · rename_i hc
      simp only [needRestore, Bool.and_eq_true] at hn
      simp [hc] at hn
  · rename_i hn
    simpa using hn

theorem needRestore_congr {s t : State} (hb : t.blocks = s.blocks) (hl : t.layouts = s.layouts) :
    needRestore t = needRestore s := by
  simp only [needRestore, restoreCandidate, blockBr, blockName, hb, hl]

/-- what the final group pass keeps is valid, on one layout and non-empty (it does not touch entities) -/
theorem auditGroups_result (t : State) :
    ∀ g ∈ (auditGroups t).groups, g.2.2.all (validMember (auditGroups t)) = true ∧
      sameLayout (auditGroups t) g.2.2 = true ∧ g.2.2.isEmpty = false := by
  intro g hg
  simp only [auditGroups, List.mem_filter, List.mem_map] at hg
  obtain ⟨⟨g0, _, rfl⟩, hne⟩ := hg
  have hv : ∀ x, validMember (auditGroups t) x = validMember t x := fun _ => rfl
  have hsl : ∀ l, sameLayout (auditGroups t) l = sameLayout t l := fun _ => rfl
  rw [hsl]
  simp only [auditGroup] at hne ⊢
  split
  · rename_i hs
    refine ⟨?_, hs, by simpa [hs] using hne⟩
    simp only [List.all_eq_true, List.mem_filter]
    intro x hx; rw [hv]; exact hx.2
  · rename_i hs
    simp [hs] at hne

/-- one audit run reaches a fixed point, for EVERY state (any combination of the modelled damage):
    the audited state is clean, hence a second run applies no fix and changes nothing -/
theorem audit_clean (s : State) : AuditClean (audit s).1 := by
  unfold audit
  simp only
  refine ⟨?_, ?_, ?_, ?_, ?_⟩
  rotate_left 2
  · -- groups: what `auditGroups` keeps is valid, on one layout and non-empty; it does not touch entities
    exact auditGroups_result _
  · -- no orphaned paperspace block: entities and groups audits do not touch blocks and layouts
    show orphanBlocks (auditLayouts (auditSpaces s)) = []
    exact orphanBlocks_auditLayouts _
  · -- the active paperspace layout is restored and stays
    have := needRestore_congr (s := auditLayouts (auditSpaces s))
      (t := auditGroups { auditEntities (auditLayouts (auditSpaces s)) with groups := List.map (auditGroup s) s.groups }) rfl rfl
    rw [this]
    exact needRestore_restoreActive _
  · intro p hp x hx
    show keepInSpace (auditEntities (auditLayouts (auditSpaces s))) p.1 x = true
    obtain ⟨bl, hbl⟩ := auditLayouts_eq (auditSpaces s)
    have hp' : p ∈ (dropAll (auditSpaces s) (orphanBlocks (auditSpaces s))).spaces := by
      have : p ∈ (auditLayouts (auditSpaces s)).spaces := hp
      rw [hbl] at this; exact this
    apply keepInSpace_auditEntities
    rw [hbl]
    show keepInSpace (dropAll (auditSpaces s) (orphanBlocks (auditSpaces s))) p.1 x = true
    refine dropAll_keep _ (auditSpaces s) ?_ p hp' x hx
    intro q hq y hy
    simp only [auditSpaces, List.mem_map] at hq
    obtain ⟨q0, hq0, rfl⟩ := hq
    simp only [List.mem_filter] at hy
    exact hy.2
  · intro e he
    show trashed (auditEntities (auditLayouts (auditSpaces s))) e = false
    have he : e ∈ (auditEntities (auditLayouts (auditSpaces s))).ents := he
    simp only [auditEntities, List.mem_map] at he
    obtain ⟨e0, he0, rfl⟩ := he
    rw [trashed_auditEntities]
    split
    · simp [trashed]
    · rename_i hnot
      simpa using hnot

theorem audit_fixpoint (s : State) : audit (audit s).1 = ((audit s).1, 0) :=
  audit_sound _ (audit_clean s)

/-- the audited document still satisfies the structural invariants (so the C04 theorems about the
    written file apply to it) -/
theorem audit_inv (s : State) (h : DocInv s) (hb : BInv s) : DocInv (audit s).1 ∧ BInv (audit s).1 := by
  have hh := audit_hs s
  have hn : (audit s).1.next = s.next := by
    obtain ⟨bl, hbl⟩ := auditLayouts_eq (auditSpaces s)
    show (auditLayouts (auditSpaces s)).next = s.next
    rw [hbl]
    exact (dropAll_same (orphanBlocks (auditSpaces s)) (auditSpaces s)).2
  refine ⟨⟨?_, ?_⟩, audit_BInv s hb⟩
  · unfold HInv at *
    rw [hh, hn]; exact h.1
  · rw [hh, hn]
    have h1 : SInv (auditSpaces s).spaces (hs (auditSpaces s)) (auditSpaces s).next :=
      h.2.sub (by simp [auditSpaces, keys, List.map_map, Function.comp_def]) (by
        simp only [auditSpaces]; exact allH_mapFilter2_sublist _ _)
    have h2 := dropAll_SInv (orphanBlocks (auditSpaces s)) (auditSpaces s) h1
    have hsame := dropAll_same (orphanBlocks (auditSpaces s)) (auditSpaces s)
    rw [hsame.1, hsame.2] at h2
    obtain ⟨bl, hbl⟩ := auditLayouts_eq (auditSpaces s)
    show SInv (auditLayouts (auditSpaces s)).spaces (hs s) s.next
    rw [hbl]
    exact h2

end EzdxfVerif.Doc
